/-
  C04 — Aggregation results do not depend on merge order or grouping.

  "Merging the same multiset of contributions in any order and any grouping yields the same count, min, max and
   unique-value estimate, and the same sum and sum-of-squares up to floating-point rounding (exactly when all inputs are
   integers of moderate size). The reported min (max) host is always a host that contributed the min (max) value, and the
   max-count host is always one of the contributing hosts."
  Quantifier: all multisets of counter/value/unique contributions with host tags, all permutations and all binary merge
  trees, including unique sets large enough to trigger sketch thinning.

  Models: SH.Model.Agg (ItemValue/ItemCounter.Merge, AddValueCounterHost, tsValues.merge), SH.Model.Unique (ChUnique).
  Part 1: values and hosts, every binary merge tree with every stream of random draws (`Tree`).
  Part 2: API rows (`TsTree`).
  Part 8: the agent-side apply glue (ApplyValues/ApplyValuesLegacy = Merge with one contribution) and API rows with any subset of selected columns.
  Part 7: `table_refines` for every program (inserts, Merge, MarshallAppend+MergeRead) and order/grouping independence at table level.
  Part 6: `table_refines`: rehash/resize restore well-formedness; the real table realises the canonical sketch (insert programs).
  Part 5: MultiValue.ApplyUnique (event-level entry) is a Merge with one contribution plus a stream of inserts.
  Part 4: the concrete open-addressing table (SH.Model.UniqueTable) refines the set model of Part 3 (`table_refines`, partial).
  Part 3: the unique sketch: every program of inserts and merges ends in the canonical state of the set of inserted
          hashes, for arbitrary parameters (size limit); `decide` witnesses on a toy instance show that the code before
          the fix (`MergeV.rhsGood`, `ReadV.stale`, `SdV.exact`) does not.
  Arithmetic is exact (`Int`): this is the "integers of moderate size" clause; floating-point rounding is not decided.
-/
import SH.Model.Agg
import SH.Gen.C04
import SH.Lemmas.UniqueTrie
import SH.Lemmas.UniqueTable
import SH.Lemmas.UniqueTableWF
namespace SH.C04
open SH.Agg

/-- the constants regenerated from /repo are the ones the theorems' `real` instance uses -/
theorem gen_params_match : SH.Gen.C04.maxSizeDegree = Unique.real.maxDeg ∧ SH.Gen.C04.initSizeDegree = Unique.real.initDeg ∧
    SH.Gen.C04.maxSize = Unique.limit Unique.real := by decide

/-! ## Part 1 — ItemValue / ItemCounter -/

/-- a merge program: any binary tree over contributions; every inner node carries the random draw it may consume -/
inductive Tree where
  | leaf (v : Value)
  | node (d : Nat) (l r : Tree)

def eval : Tree → Value
  | .leaf v => v
  | .node d l r => merge d (eval l) (eval r)

def leaves : Tree → List Value
  | .leaf v => [v]
  | .node _ l r => leaves l ++ leaves r

/-- a contribution: non-negative counter; an item without values carries zero sums -/
def Wf (v : Value) : Prop := 0 ≤ v.cnt ∧ (v.set = false → v.sum = 0 ∧ v.sumsq = 0)

theorem mergeCounter_vals (d : Nat) (s : Value) (c : Int) (h : Host) :
    (mergeCounter d s c h).vmin = s.vmin ∧ (mergeCounter d s c h).vmax = s.vmax ∧
    (mergeCounter d s c h).sum = s.sum ∧ (mergeCounter d s c h).sumsq = s.sumsq ∧
    (mergeCounter d s c h).minHost = s.minHost ∧ (mergeCounter d s c h).maxHost = s.maxHost ∧
    (mergeCounter d s c h).set = s.set := by
  unfold mergeCounter
  split
  · simp
  · split
    · simp
    · split
      · simp
      · split <;> simp

theorem mergeCounter_cnt (d : Nat) (s : Value) (c : Int) (h : Host) (hs : 0 ≤ s.cnt) (hc : 0 ≤ c) :
    (mergeCounter d s c h).cnt = s.cnt + c := by
  unfold mergeCounter
  split
  · omega
  · split
    · simp; omega
    · split
      · simp
      · split <;> simp

theorem mergeValuePart_cnt (s o : Value) : (mergeValuePart s o).cnt = s.cnt ∧ (mergeValuePart s o).chost = s.chost := by
  unfold mergeValuePart setMax setMin
  split
  · simp
  · split <;> split <;> simp

theorem merge_cnt (d : Nat) (s o : Value) (hs : 0 ≤ s.cnt) (ho : 0 ≤ o.cnt) : (merge d s o).cnt = s.cnt + o.cnt := by
  unfold merge
  rw [(mergeValuePart_cnt _ _).1, mergeCounter_cnt d s o.cnt o.chost hs ho]

theorem mergeValuePart_set (s o : Value) : (mergeValuePart s o).set = (s.set || o.set) := by
  unfold mergeValuePart setMax setMin
  split
  · rename_i h; simp at h; simp [h]
  · rename_i h; simp at h; split <;> split <;> simp [h]

theorem merge_set (d : Nat) (s o : Value) : (merge d s o).set = (s.set || o.set) := by
  unfold merge
  rw [mergeValuePart_set, (mergeCounter_vals d s o.cnt o.chost).2.2.2.2.2.2]

theorem mergeValuePart_sum (s o : Value) (ho : o.set = false → o.sum = 0 ∧ o.sumsq = 0) :
    (mergeValuePart s o).sum = s.sum + o.sum ∧ (mergeValuePart s o).sumsq = s.sumsq + o.sumsq := by
  unfold mergeValuePart setMax setMin
  split
  · rename_i h; simp at h; simp [ho h]
  · split <;> split <;> simp

theorem merge_sum (d : Nat) (s o : Value) (ho : o.set = false → o.sum = 0 ∧ o.sumsq = 0) :
    (merge d s o).sum = s.sum + o.sum ∧ (merge d s o).sumsq = s.sumsq + o.sumsq := by
  unfold merge
  have h := mergeCounter_vals d s o.cnt o.chost
  have h2 := mergeValuePart_sum (mergeCounter d s o.cnt o.chost) o ho
  rw [h2.1, h2.2, h.2.2.1, h.2.2.2.1]
  exact ⟨rfl, rfl⟩

theorem merge_wf (d : Nat) (s o : Value) (hs : Wf s) (ho : Wf o) : Wf (merge d s o) := by
  refine ⟨?_, ?_⟩
  · rw [merge_cnt d s o hs.1 ho.1]; have := hs.1; have := ho.1; omega
  · intro h
    rw [merge_set] at h
    simp at h
    have h1 := hs.2 h.1
    have h2 := ho.2 h.2
    have := merge_sum d s o ho.2
    rw [this.1, this.2, h1.1, h1.2, h2.1, h2.2]
    simp

def cntSum (ls : List Value) : Int := (ls.map (·.cnt)).sum
def sumSum (ls : List Value) : Int := (ls.map (·.sum)).sum
def sqSum (ls : List Value) : Int := (ls.map (·.sumsq)).sum
def anySet (ls : List Value) : Bool := ls.any (·.set)

/-- count, sum, sum of squares and ValueSet of any merge tree are the sums over its leaves -/
theorem eval_sums (t : Tree) (hw : ∀ l ∈ leaves t, Wf l) :
    Wf (eval t) ∧ (eval t).cnt = cntSum (leaves t) ∧ (eval t).sum = sumSum (leaves t) ∧
    (eval t).sumsq = sqSum (leaves t) ∧ (eval t).set = anySet (leaves t) := by
  induction t with
  | leaf v =>
    simp [eval, leaves, cntSum, sumSum, sqSum, anySet]
    exact hw v (by simp [leaves])
  | node d l r ihl ihr =>
    have hl := ihl (fun x hx => hw x (by simp [leaves, hx]))
    have hr := ihr (fun x hx => hw x (by simp [leaves, hx]))
    obtain ⟨wl, cl, sl, ql, bl⟩ := hl
    obtain ⟨wr, cr, sr, qr, br⟩ := hr
    refine ⟨merge_wf d _ _ wl wr, ?_, ?_, ?_, ?_⟩
    · simp only [eval, leaves]; rw [merge_cnt d _ _ wl.1 wr.1, cl, cr]; simp [cntSum]
    · simp only [eval, leaves]; rw [(merge_sum d _ _ wr.2).1, sl, sr]; simp [sumSum]
    · simp only [eval, leaves]; rw [(merge_sum d _ _ wr.2).2, ql, qr]; simp [sqSum]
    · simp only [eval, leaves]; rw [merge_set, bl, br]; simp [anySet]

/-- one merge step, minimum side: the result keeps the receiver's (min, min host) or takes the operand's, and it is the smaller one -/
theorem mergeValuePart_min (s o : Value) :
    (o.set = false ∧ (mergeValuePart s o).vmin = s.vmin ∧ (mergeValuePart s o).minHost = s.minHost) ∨
    (o.set = true ∧ s.set = true ∧ s.vmin ≤ o.vmin ∧ (mergeValuePart s o).vmin = s.vmin ∧ (mergeValuePart s o).minHost = s.minHost) ∨
    (o.set = true ∧ (s.set = true → o.vmin < s.vmin) ∧ (mergeValuePart s o).vmin = o.vmin ∧ (mergeValuePart s o).minHost = o.minHost) := by
  unfold mergeValuePart
  by_cases ho : o.set = true
  · by_cases hm : takesMin s o.vmin = true
    · right; right
      refine ⟨ho, ?_, ?_⟩
      · intro hs; simp [takesMin, hs] at hm; exact hm
      · simp [ho, hm, setMin, setMax]; split <;> simp
    · right; left
      have hm' : takesMin s o.vmin = false := by simpa using hm
      have : s.set = true ∧ s.vmin ≤ o.vmin := by
        simp [takesMin] at hm'; exact ⟨hm'.1, by omega⟩
      refine ⟨ho, this.1, this.2, ?_⟩
      simp [ho, hm', setMin, setMax]; split <;> simp
  · left
    have ho' : o.set = false := by simpa using ho
    simp [ho']

theorem mergeValuePart_max (s o : Value) :
    (o.set = false ∧ (mergeValuePart s o).vmax = s.vmax ∧ (mergeValuePart s o).maxHost = s.maxHost) ∨
    (o.set = true ∧ s.set = true ∧ o.vmax ≤ s.vmax ∧ (mergeValuePart s o).vmax = s.vmax ∧ (mergeValuePart s o).maxHost = s.maxHost) ∨
    (o.set = true ∧ (s.set = true → s.vmax < o.vmax) ∧ (mergeValuePart s o).vmax = o.vmax ∧ (mergeValuePart s o).maxHost = o.maxHost) := by
  unfold mergeValuePart
  by_cases ho : o.set = true
  · by_cases hm : takesMax s o.vmax = true
    · right; right
      refine ⟨ho, ?_, ?_⟩
      · intro hs; simp [takesMax, hs] at hm; exact hm
      · simp [ho, hm, setMin, setMax]
    · right; left
      have hm' : takesMax s o.vmax = false := by simpa using hm
      have : s.set = true ∧ o.vmax ≤ s.vmax := by
        simp [takesMax] at hm'; exact ⟨hm'.1, by omega⟩
      refine ⟨ho, this.1, this.2, ?_⟩
      simp [ho, hm', setMin, setMax]; split <;> simp
  · left
    have ho' : o.set = false := by simpa using ho
    simp [ho']

/-- "is the least value among the leaves that carry values, reported with the host of a leaf that attains it" -/
def IsMin (ls : List Value) (m : Int) (h : Host) : Prop :=
  (∀ l ∈ ls, l.set = true → m ≤ l.vmin) ∧ ∃ l ∈ ls, l.set = true ∧ l.vmin = m ∧ l.minHost = h

def IsMax (ls : List Value) (m : Int) (h : Host) : Prop :=
  (∀ l ∈ ls, l.set = true → l.vmax ≤ m) ∧ ∃ l ∈ ls, l.set = true ∧ l.vmax = m ∧ l.maxHost = h

theorem eval_set (t : Tree) : (eval t).set = (leaves t).any (·.set) := by
  induction t with
  | leaf v => simp [eval, leaves]
  | node d l r ihl ihr => simp [eval, leaves, merge_set, ihl, ihr]

theorem eval_min (t : Tree) (hs : (eval t).set = true) : IsMin (leaves t) (eval t).vmin (eval t).minHost := by
  induction t with
  | leaf v =>
    simp only [eval, leaves] at *
    exact ⟨by intro l hl _; simp at hl; subst hl; exact Int.le_refl _, v, by simp, hs, rfl, rfl⟩
  | node d l r ihl ihr =>
    simp only [eval, leaves] at *
    have hv := mergeCounter_vals d (eval l) (eval r).cnt (eval r).chost
    have hm := mergeValuePart_min (mergeCounter d (eval l) (eval r).cnt (eval r).chost) (eval r)
    rw [hv.1, hv.2.2.2.2.1, hv.2.2.2.2.2.2] at hm
    have hset := merge_set d (eval l) (eval r)
    unfold merge at hs hset ⊢
    have hrs := eval_set r
    have hls := eval_set l
    rcases hm with ⟨ho, e1, e2⟩ | ⟨ho, hsl, hle, e1, e2⟩ | ⟨ho, hlt, e1, e2⟩
    · -- operand carries no values
      have hl : (eval l).set = true := by rw [hset, ho] at hs; simpa using hs
      obtain ⟨a, l0, hl0, b⟩ := ihl hl
      rw [e1, e2]
      refine ⟨?_, l0, by simp [hl0], b⟩
      intro x hx hxs
      rcases List.mem_append.mp hx with h | h
      · exact a x h hxs
      · have : (leaves r).any (·.set) = true := List.any_eq_true.mpr ⟨x, h, hxs⟩
        rw [← hrs, ho] at this; cases this
    · obtain ⟨a, l0, hl0, b⟩ := ihl hsl
      obtain ⟨a', _⟩ := ihr ho
      rw [e1, e2]
      refine ⟨?_, l0, by simp [hl0], b⟩
      intro x hx hxs
      rcases List.mem_append.mp hx with h | h
      · exact a x h hxs
      · exact Int.le_trans hle (a' x h hxs)
    · obtain ⟨a', l0, hl0, b⟩ := ihr ho
      rw [e1, e2]
      refine ⟨?_, l0, by simp [hl0], b⟩
      intro x hx hxs
      rcases List.mem_append.mp hx with h | h
      · have hl : (eval l).set = true := by
          rw [hls]; exact List.any_eq_true.mpr ⟨x, h, hxs⟩
        have := (ihl hl).1 x h hxs
        have := hlt hl
        omega
      · exact a' x h hxs

theorem eval_max (t : Tree) (hs : (eval t).set = true) : IsMax (leaves t) (eval t).vmax (eval t).maxHost := by
  induction t with
  | leaf v =>
    simp only [eval, leaves] at *
    exact ⟨by intro l hl _; simp at hl; subst hl; exact Int.le_refl _, v, by simp, hs, rfl, rfl⟩
  | node d l r ihl ihr =>
    simp only [eval, leaves] at *
    have hv := mergeCounter_vals d (eval l) (eval r).cnt (eval r).chost
    have hm := mergeValuePart_max (mergeCounter d (eval l) (eval r).cnt (eval r).chost) (eval r)
    rw [hv.2.1, hv.2.2.2.2.2.1, hv.2.2.2.2.2.2] at hm
    have hset := merge_set d (eval l) (eval r)
    unfold merge at hs hset ⊢
    have hrs := eval_set r
    have hls := eval_set l
    rcases hm with ⟨ho, e1, e2⟩ | ⟨ho, hsl, hle, e1, e2⟩ | ⟨ho, hlt, e1, e2⟩
    · have hl : (eval l).set = true := by rw [hset, ho] at hs; simpa using hs
      obtain ⟨a, l0, hl0, b⟩ := ihl hl
      rw [e1, e2]
      refine ⟨?_, l0, by simp [hl0], b⟩
      intro x hx hxs
      rcases List.mem_append.mp hx with h | h
      · exact a x h hxs
      · have : (leaves r).any (·.set) = true := List.any_eq_true.mpr ⟨x, h, hxs⟩
        rw [← hrs, ho] at this; cases this
    · obtain ⟨a, l0, hl0, b⟩ := ihl hsl
      obtain ⟨a', _⟩ := ihr ho
      rw [e1, e2]
      refine ⟨?_, l0, by simp [hl0], b⟩
      intro x hx hxs
      rcases List.mem_append.mp hx with h | h
      · exact a x h hxs
      · exact Int.le_trans (a' x h hxs) hle
    · obtain ⟨a', l0, hl0, b⟩ := ihr ho
      rw [e1, e2]
      refine ⟨?_, l0, by simp [hl0], b⟩
      intro x hx hxs
      rcases List.mem_append.mp hx with h | h
      · have hl : (eval l).set = true := by
          rw [hls]; exact List.any_eq_true.mpr ⟨x, h, hxs⟩
        have := (ihl hl).1 x h hxs
        have := hlt hl
        omega
      · exact a' x h hxs

/-- one counter merge step: the host is the receiver's or the operand's; when both counters are positive so is the result -/
theorem mergeCounter_host (d : Nat) (s : Value) (c : Int) (h : Host) :
    ((mergeCounter d s c h).chost = s.chost ∧ (mergeCounter d s c h).cnt = s.cnt ∧ c ≤ 0) ∨
    ((mergeCounter d s c h).chost = s.chost ∧ 0 < s.cnt ∧ 0 < c) ∨
    ((mergeCounter d s c h).chost = h ∧ 0 < c) := by
  unfold mergeCounter
  split
  · left; simp; omega
  · split
    · right; right; simp; omega
    · split
      · right; left; simp; omega
      · split
        · right; right; simp; omega
        · right; left; simp; omega

/-- the reported max-count host is the host of a leaf; if the total is positive, of a leaf with a positive counter -/
theorem eval_chost (t : Tree) : ∃ l ∈ leaves t, l.chost = (eval t).chost ∧ (0 < (eval t).cnt → 0 < l.cnt) := by
  induction t with
  | leaf v => exact ⟨v, by simp [leaves], rfl, by simp [eval]⟩
  | node d l r ihl ihr =>
    simp only [eval, leaves, merge]
    rw [(mergeValuePart_cnt _ _).1, (mergeValuePart_cnt _ _).2]
    obtain ⟨a, ha, ea, pa⟩ := ihl
    obtain ⟨b, hb, eb, pb⟩ := ihr
    rcases mergeCounter_host d (eval l) (eval r).cnt (eval r).chost with ⟨e, ec, _⟩ | ⟨e, hp, _⟩ | ⟨e, hp⟩
    · exact ⟨a, by simp [ha], by rw [e, ea], by rw [ec]; exact pa⟩
    · exact ⟨a, by simp [ha], by rw [e, ea], fun _ => pa hp⟩
    · exact ⟨b, by simp [hb], by rw [e, eb], fun _ => pb hp⟩


/-! ### Part 1, headline theorems -/

theorem perm_sum (f : Value → Int) {a b : List Value} (h : a.Perm b) : (a.map f).sum = (b.map f).sum := by
  induction h with
  | nil => rfl
  | cons x _ ih => simp [ih]
  | swap x y l => simp; omega
  | trans _ _ ih1 ih2 => omega

theorem perm_any {a b : List Value} (h : a.Perm b) : a.any (·.set) = b.any (·.set) := by
  rw [Bool.eq_iff_iff]
  simp only [List.any_eq_true]
  constructor
  · rintro ⟨x, hx, p⟩; exact ⟨x, h.mem_iff.mp hx, p⟩
  · rintro ⟨x, hx, p⟩; exact ⟨x, h.mem_iff.mpr hx, p⟩

theorem isMin_unique {a b : List Value} (h : a.Perm b) {m m' : Int} {x y : Host} (h1 : IsMin a m x) (h2 : IsMin b m' y) : m = m' := by
  obtain ⟨lo1, l1, hl1, s1, e1, _⟩ := h1
  obtain ⟨lo2, l2, hl2, s2, e2, _⟩ := h2
  have := lo1 l2 (h.mem_iff.mpr hl2) s2
  have := lo2 l1 (h.mem_iff.mp hl1) s1
  omega

theorem isMax_unique {a b : List Value} (h : a.Perm b) {m m' : Int} {x y : Host} (h1 : IsMax a m x) (h2 : IsMax b m' y) : m = m' := by
  obtain ⟨lo1, l1, hl1, s1, e1, _⟩ := h1
  obtain ⟨lo2, l2, hl2, s2, e2, _⟩ := h2
  have := lo1 l2 (h.mem_iff.mpr hl2) s2
  have := lo2 l1 (h.mem_iff.mp hl1) s1
  omega

/-- C04, values: "Merging the same multiset of contributions in any order and any grouping yields the same count, min, max
    … and the same sum and sum-of-squares (exactly when all inputs are integers of moderate size)".
    Any two merge trees (any shapes, any random draws) whose leaves are the same multiset agree. -/
theorem value_order_independent (t u : Tree) (hp : (leaves t).Perm (leaves u)) (hw : ∀ l ∈ leaves t, Wf l) :
    (eval t).cnt = (eval u).cnt ∧ (eval t).sum = (eval u).sum ∧ (eval t).sumsq = (eval u).sumsq ∧
    (eval t).set = (eval u).set ∧
    ((eval t).set = true → (eval t).vmin = (eval u).vmin ∧ (eval t).vmax = (eval u).vmax) := by
  have hw' : ∀ l ∈ leaves u, Wf l := fun l hl => hw l (hp.mem_iff.mpr hl)
  obtain ⟨_, c1, s1, q1, b1⟩ := eval_sums t hw
  obtain ⟨_, c2, s2, q2, b2⟩ := eval_sums u hw'
  have hset : (eval t).set = (eval u).set := by rw [b1, b2]; exact perm_any hp
  refine ⟨?_, ?_, ?_, hset, ?_⟩
  · rw [c1, c2]; exact perm_sum (·.cnt) hp
  · rw [s1, s2]; exact perm_sum (·.sum) hp
  · rw [q1, q2]; exact perm_sum (·.sumsq) hp
  · intro h
    have h' : (eval u).set = true := by rw [← hset]; exact h
    exact ⟨isMin_unique hp (eval_min t h) (eval_min u h'), isMax_unique hp (eval_max t h) (eval_max u h')⟩

/-- C04: "The reported min host is always a host that contributed the min value": the reported minimum is the least
    minimum over the leaves that carry values and the reported host is the min host of a leaf attaining it. -/
theorem min_host_contributed (t : Tree) (hs : (eval t).set = true) :
    (∀ l ∈ leaves t, l.set = true → (eval t).vmin ≤ l.vmin) ∧
    ∃ l ∈ leaves t, l.set = true ∧ l.vmin = (eval t).vmin ∧ l.minHost = (eval t).minHost := eval_min t hs

theorem max_host_contributed (t : Tree) (hs : (eval t).set = true) :
    (∀ l ∈ leaves t, l.set = true → l.vmax ≤ (eval t).vmax) ∧
    ∃ l ∈ leaves t, l.set = true ∧ l.vmax = (eval t).vmax ∧ l.maxHost = (eval t).maxHost := eval_max t hs

/-- C04: "the max-count host is always one of the contributing hosts" — for every stream of random draws -/
theorem maxcount_host_contributed (t : Tree) :
    ∃ l ∈ leaves t, l.chost = (eval t).chost ∧ (0 < (eval t).cnt → 0 < l.cnt) := eval_chost t

/-- the two copies of the counter-host branches in the Go source agree -/
theorem addCounterHost_eq (d : Nat) (s : Value) (c : Int) (h : Host) : addCounterHost d s c h = mergeCounter d s c h := by
  unfold addCounterHost mergeCounter
  split
  · rfl
  · split
    · rfl
    · split
      · rfl
      · split <;> rfl

/-- adding one event to an accumulator is merging the one-event item: streams of events are merge trees -/
theorem add_eq_merge (d : Nat) (s : Value) (v c : Int) (h : Host) :
    addValueCounterHost d s v c h = merge d s (simpleValue v c h) := by
  unfold addValueCounterHost merge
  rw [addCounterHost_eq]
  simp [simpleValue, simpleCounter, addOnlyValue, mergeValuePart, zero, setMin, setMax, takesMin, takesMax]

/-- simple items are contributions in the sense of `Wf` -/
theorem simpleValue_wf (v c : Int) (h : Host) (hc : 0 ≤ c) : Wf (simpleValue v c h) := by
  refine ⟨?_, ?_⟩
  · simp [simpleValue, simpleCounter, addOnlyValue, zero, setMin, setMax]; split <;> split <;> simpa using hc
  · intro hh; simp [simpleValue, simpleCounter, addOnlyValue, zero, setMin, setMax] at hh

theorem simpleCounter_wf (c : Int) (h : Host) (hc : 0 ≤ c) : Wf (simpleCounter c h) := by
  refine ⟨by simpa [simpleCounter, zero] using hc, ?_⟩
  intro _; simp [simpleCounter, zero]

/-- non-vacuity: two groupings with different draws of three contributions (two tie for the minimum) -/
def w1 : Value := simpleValue 5 8 1
def w2 : Value := simpleValue 5 4 2
def w3 : Value := simpleValue (-3) 12 3
example : (eval (.node 0 (.node 7 (.leaf w1) (.leaf w2)) (.leaf w3))).cnt = 24 ∧
    (eval (.node 0 (.leaf w3) (.node 0 (.leaf w2) (.leaf w1)))).cnt = 24 ∧
    (eval (.node 0 (.node 7 (.leaf w1) (.leaf w2)) (.leaf w3))).chost = 2 ∧
    (eval (.node 0 (.leaf w3) (.node 0 (.leaf w2) (.leaf w1)))).chost = 3 ∧
    (eval (.node 0 (.leaf w3) (.node 0 (.leaf w2) (.leaf w1)))).minHost = 3 := by decide
example : ∀ l ∈ leaves (.node 0 (.node 7 (.leaf w1) (.leaf w2)) (.leaf w3)), Wf l := by
  intro l hl
  simp [leaves] at hl
  rcases hl with h | h | h <;> subst h <;> exact simpleValue_wf _ _ _ (by decide)

/-- why `Wf` asks for non-negative counters: ItemCounter.Merge ignores a non-positive operand and overwrites a non-positive
    receiver, so with negative counters (never produced by ingestion) the result depends on the order -/
example : (merge 0 (simpleCounter (-4) 1) (simpleCounter (-8) 2)).cnt ≠ (merge 0 (simpleCounter (-8) 2) (simpleCounter (-4) 1)).cnt := by decide

/-! ## Part 2 — API rows (tsValues.merge) -/

inductive TsTree where
  | leaf (r : Ts)
  | node (l r : TsTree)

def tsEval (mv : Unique.MergeV) (P : Unique.Params) : TsTree → Ts
  | .leaf r => r
  | .node l r => tsMerge mv P (tsEval mv P l) (tsEval mv P r)

def tsLeaves : TsTree → List Ts
  | .leaf r => [r]
  | .node l r => tsLeaves l ++ tsLeaves r

def tsum (f : Ts → Int) (ls : List Ts) : Int := (ls.map f).sum

theorem ts_sums (mv : Unique.MergeV) (P : Unique.Params) (t : TsTree) :
    (tsEval mv P t).sum = tsum (·.sum) (tsLeaves t) ∧ (tsEval mv P t).count = tsum (·.count) (tsLeaves t) ∧
    (tsEval mv P t).sumsq = tsum (·.sumsq) (tsLeaves t) ∧ (tsEval mv P t).card = tsum (·.card) (tsLeaves t) := by
  induction t with
  | leaf r => simp [tsEval, tsLeaves, tsum]
  | node l r ihl ihr =>
    obtain ⟨a1, a2, a3, a4⟩ := ihl
    obtain ⟨b1, b2, b3, b4⟩ := ihr
    simp only [tsEval, tsLeaves, tsMerge, tsum, List.map_append, List.sum_append] at *
    exact ⟨by rw [a1, b1], by rw [a2, b2], by rw [a3, b3], by rw [a4, b4]⟩

/-- `m` is the least (`lt = (· < ·)`) / greatest value of `f` over the rows and `w` is a row attaining it -/
def Extremal (le : Int → Int → Prop) (f : Ts → Int) (ls : List Ts) (m : Int) : Prop :=
  (∀ l ∈ ls, le m (f l)) ∧ ∃ l ∈ ls, f l = m

theorem ts_min (mv : Unique.MergeV) (P : Unique.Params) (t : TsTree) :
    Extremal (· ≤ ·) (·.min) (tsLeaves t) (tsEval mv P t).min := by
  induction t with
  | leaf r => exact ⟨by intro l hl; simp [tsLeaves] at hl; subst hl; exact Int.le_refl _, r, by simp [tsLeaves], rfl⟩
  | node l r ihl ihr =>
    obtain ⟨la, l0, hl0, le0⟩ := ihl
    obtain ⟨ra, r0, hr0, re0⟩ := ihr
    simp only [tsEval, tsLeaves, tsMerge]
    split
    · rename_i hlt
      refine ⟨?_, r0, by simp [hr0], re0⟩
      intro x hx
      rcases List.mem_append.mp hx with h | h
      · have := la x h; simp only at this ⊢; omega
      · exact ra x h
    · rename_i hlt
      refine ⟨?_, l0, by simp [hl0], le0⟩
      intro x hx
      rcases List.mem_append.mp hx with h | h
      · exact la x h
      · have := ra x h; simp only at this ⊢; omega

theorem ts_max (mv : Unique.MergeV) (P : Unique.Params) (t : TsTree) :
    Extremal (· ≥ ·) (·.max) (tsLeaves t) (tsEval mv P t).max := by
  induction t with
  | leaf r => exact ⟨by intro l hl; simp [tsLeaves] at hl; subst hl; exact Int.le_refl _, r, by simp [tsLeaves], rfl⟩
  | node l r ihl ihr =>
    obtain ⟨la, l0, hl0, le0⟩ := ihl
    obtain ⟨ra, r0, hr0, re0⟩ := ihr
    simp only [tsEval, tsLeaves, tsMerge]
    split
    · rename_i hlt
      refine ⟨?_, r0, by simp [hr0], re0⟩
      intro x hx
      rcases List.mem_append.mp hx with h | h
      · have := la x h; simp only at this ⊢; omega
      · exact ra x h
    · rename_i hlt
      refine ⟨?_, l0, by simp [hl0], le0⟩
      intro x hx
      rcases List.mem_append.mp hx with h | h
      · exact la x h
      · have := ra x h; simp only at this ⊢; omega

/-- the int32 min host of a merged API row is the min host of a row, and its value is the least one -/
theorem ts_min_host (mv : Unique.MergeV) (P : Unique.Params) (t : TsTree) :
    (∀ l ∈ tsLeaves t, (tsEval mv P t).minHost.val ≤ l.minHost.val) ∧ ∃ l ∈ tsLeaves t, l.minHost = (tsEval mv P t).minHost := by
  induction t with
  | leaf r => exact ⟨by intro l hl; simp [tsLeaves] at hl; subst hl; exact Int.le_refl _, r, by simp [tsLeaves], rfl⟩
  | node l r ihl ihr =>
    obtain ⟨la, l0, hl0, le0⟩ := ihl
    obtain ⟨ra, r0, hr0, re0⟩ := ihr
    simp only [tsEval, tsLeaves, tsMerge, argMin]
    split
    · refine ⟨?_, r0, by simp [hr0], re0⟩
      intro x hx
      rcases List.mem_append.mp hx with h | h
      · have := la x h; omega
      · exact ra x h
    · refine ⟨?_, l0, by simp [hl0], le0⟩
      intro x hx
      rcases List.mem_append.mp hx with h | h
      · exact la x h
      · have := ra x h; omega

theorem ts_max_host (mv : Unique.MergeV) (P : Unique.Params) (t : TsTree) :
    (∀ l ∈ tsLeaves t, l.maxHost.val ≤ (tsEval mv P t).maxHost.val) ∧ ∃ l ∈ tsLeaves t, l.maxHost = (tsEval mv P t).maxHost := by
  induction t with
  | leaf r => exact ⟨by intro l hl; simp [tsLeaves] at hl; subst hl; exact Int.le_refl _, r, by simp [tsLeaves], rfl⟩
  | node l r ihl ihr =>
    obtain ⟨la, l0, hl0, le0⟩ := ihl
    obtain ⟨ra, r0, hr0, re0⟩ := ihr
    simp only [tsEval, tsLeaves, tsMerge, argMax]
    split
    · refine ⟨?_, r0, by simp [hr0], re0⟩
      intro x hx
      rcases List.mem_append.mp hx with h | h
      · have := la x h; omega
      · exact ra x h
    · refine ⟨?_, l0, by simp [hl0], le0⟩
      intro x hx
      rcases List.mem_append.mp hx with h | h
      · exact la x h
      · have := ra x h; omega

/-- the string min host, when every row carries a host (an empty receiver takes the operand whatever its value) -/
theorem ts_min_host_str (mv : Unique.MergeV) (P : Unique.Params) (t : TsTree) (hne : ∀ l ∈ tsLeaves t, l.minHostStr.arg ≠ 0) :
    (tsEval mv P t).minHostStr.arg ≠ 0 ∧
    (∀ l ∈ tsLeaves t, (tsEval mv P t).minHostStr.val ≤ l.minHostStr.val) ∧ ∃ l ∈ tsLeaves t, l.minHostStr = (tsEval mv P t).minHostStr := by
  induction t with
  | leaf r => exact ⟨hne r (by simp [tsLeaves]), by intro l hl; simp [tsLeaves] at hl; subst hl; exact Int.le_refl _, r, by simp [tsLeaves], rfl⟩
  | node l r ihl ihr =>
    obtain ⟨ln, la, l0, hl0, le0⟩ := ihl (fun x hx => hne x (by simp [tsLeaves, hx]))
    obtain ⟨rn, ra, r0, hr0, re0⟩ := ihr (fun x hx => hne x (by simp [tsLeaves, hx]))
    simp only [tsEval, tsLeaves, tsMerge, argMinStr]
    rw [if_neg ln]
    split
    · refine ⟨rn, ?_, r0, by simp [hr0], re0⟩
      intro x hx
      rcases List.mem_append.mp hx with h | h
      · have := la x h; omega
      · exact ra x h
    · refine ⟨ln, ?_, l0, by simp [hl0], le0⟩
      intro x hx
      rcases List.mem_append.mp hx with h | h
      · exact la x h
      · have := ra x h; omega

theorem perm_tsum (f : Ts → Int) {a b : List Ts} (h : a.Perm b) : tsum f a = tsum f b := by
  unfold tsum
  induction h with
  | nil => rfl
  | cons x _ ih => simp [ih]
  | swap x y l => simp; omega
  | trans _ _ ih1 ih2 => omega

/-- C04, API rows: any two merge trees over the same multiset of rows agree on min, max, sum, count, sum of squares,
    cardinality and on the value of the min/max host -/
theorem ts_order_independent (mv : Unique.MergeV) (P : Unique.Params) (t u : TsTree) (hp : (tsLeaves t).Perm (tsLeaves u)) :
    (tsEval mv P t).sum = (tsEval mv P u).sum ∧ (tsEval mv P t).count = (tsEval mv P u).count ∧
    (tsEval mv P t).sumsq = (tsEval mv P u).sumsq ∧ (tsEval mv P t).card = (tsEval mv P u).card ∧
    (tsEval mv P t).min = (tsEval mv P u).min ∧ (tsEval mv P t).max = (tsEval mv P u).max ∧
    (tsEval mv P t).minHost.val = (tsEval mv P u).minHost.val ∧ (tsEval mv P t).maxHost.val = (tsEval mv P u).maxHost.val := by
  obtain ⟨a1, a2, a3, a4⟩ := ts_sums mv P t
  obtain ⟨b1, b2, b3, b4⟩ := ts_sums mv P u
  refine ⟨by rw [a1, b1]; exact perm_tsum _ hp, by rw [a2, b2]; exact perm_tsum _ hp,
          by rw [a3, b3]; exact perm_tsum _ hp, by rw [a4, b4]; exact perm_tsum _ hp, ?_, ?_, ?_, ?_⟩
  · obtain ⟨l1, x, hx, ex⟩ := ts_min mv P t
    obtain ⟨l2, y, hy, ey⟩ := ts_min mv P u
    have := l1 y (hp.mem_iff.mpr hy); have := l2 x (hp.mem_iff.mp hx); simp only at *; omega
  · obtain ⟨l1, x, hx, ex⟩ := ts_max mv P t
    obtain ⟨l2, y, hy, ey⟩ := ts_max mv P u
    have := l1 y (hp.mem_iff.mpr hy); have := l2 x (hp.mem_iff.mp hx); simp only at *; omega
  · obtain ⟨l1, x, hx, ex⟩ := ts_min_host mv P t
    obtain ⟨l2, y, hy, ey⟩ := ts_min_host mv P u
    have := l1 y (hp.mem_iff.mpr hy); have := l2 x (hp.mem_iff.mp hx); rw [ey] at *; rw [ex] at *; omega
  · obtain ⟨l1, x, hx, ex⟩ := ts_max_host mv P t
    obtain ⟨l2, y, hy, ey⟩ := ts_max_host mv P u
    have := l1 y (hp.mem_iff.mpr hy); have := l2 x (hp.mem_iff.mp hx); rw [ey] at *; rw [ex] at *; omega

/-! ## Part 3 — the unique sketch (ChUnique)

  `keys`/`fil` and the trie lemmas are in SH.Lemmas.UniqueTrie. `Good P s U W`: the sketch `s` holds exactly the values of
  `U` (everything it has seen) that are divisible by 2^skipDegree, itemsCount is their number, skipDegree is not larger than
  the universe `W ⊇ U` forces (every smaller degree leaves more than `limit` values of `W`), and the table degree is in range.
  All theorems are for arbitrary parameters `P` (hash width, size limit 2^(maxDeg-1), initial degree).
-/
open SH.Unique

def abs (P : Params) (s : Sk) : Finset ℕ := keys P.bits s.items

/-- the part of the invariant that does not mention the table degree -/
structure Core (P : Params) (s : Sk) (U W : Finset ℕ) : Prop where
  alloc : s.alloc = true
  cnt : s.cnt = (abs P s).card
  items : abs P s = fil s.k U
  sub : U ⊆ W
  bound : ∀ x ∈ W, x < 2 ^ P.bits
  minimal : ∀ j < s.k, limit P < (fil j W).card

/-- `s` holds exactly the values of `U` divisible by 2^skipDegree, skipDegree is not larger than the whole universe `W`
    forces, and the table degree is in range -/
structure Good (P : Params) (s : Sk) (U W : Finset ℕ) : Prop extends Core P s U W where
  sd1 : 1 ≤ s.sd
  sdmax : s.sd ≤ P.maxDeg
  fill : s.cnt ≤ maxFill s

theorem fil_mono (k : Nat) {U W : Finset ℕ} (h : U ⊆ W) : (fil k U).card ≤ (fil k W).card :=
  Finset.card_le_card (Finset.filter_subset_filter _ h)

theorem fil_fil_succ (k : Nat) (U : Finset ℕ) : fil (k + 1) (fil k U) = fil (k + 1) U := by
  ext y
  simp only [mem_fil]
  constructor
  · rintro ⟨⟨a, _⟩, c⟩; exact ⟨a, c⟩
  · rintro ⟨a, c⟩
    refine ⟨⟨a, ?_⟩, c⟩
    have : 2 ^ k ∣ 2 ^ (k + 1) := ⟨2, by rw [Nat.pow_succ]⟩
    have h2 := Nat.mod_mod_of_dvd y this
    rw [c] at h2; simpa using h2.symm

theorem fil_fil_le {k k' : Nat} (h : k ≤ k') (U : Finset ℕ) : fil k' (fil k U) = fil k' U := by
  ext y
  simp only [mem_fil]
  constructor
  · rintro ⟨⟨a, _⟩, c⟩; exact ⟨a, c⟩
  · rintro ⟨a, c⟩
    refine ⟨⟨a, ?_⟩, c⟩
    have : 2 ^ k ∣ 2 ^ k' := Nat.pow_dvd_pow 2 h
    have h2 := Nat.mod_mod_of_dvd y this
    rw [c] at h2; simpa using h2.symm

/-- at skipDegree ≥ bits only the value 0 survives -/
theorem fil_big (P : Params) (k : Nat) (hk : P.bits ≤ k) (U : Finset ℕ) (hb : ∀ x ∈ U, x < 2 ^ P.bits) : (fil k U).card ≤ 1 := by
  rw [Finset.card_le_one]
  intro a ha b hb'
  rw [mem_fil] at ha hb'
  have hp : 2 ^ P.bits ≤ 2 ^ k := Nat.pow_le_pow_right (by omega) hk
  have h1 := hb a ha.1
  have h2 := hb b hb'.1
  have ea : a % 2 ^ k = a := Nat.mod_eq_of_lt (by omega)
  have eb : b % 2 ^ k = b := Nat.mod_eq_of_lt (by omega)
  omega

theorem limit_pos (P : Params) : 1 ≤ limit P := Nat.one_le_two_pow

/-- rehash after raising skipDegree -/
theorem rehash_core (P : Params) (s : Sk) (U W : Finset ℕ) (k' : Nat) (h : Core P s U W) (hk : s.k ≤ k')
    (hm : ∀ j < k', limit P < (fil j W).card) :
    Core P (rehash P { s with k := k' }) U W ∧ (rehash P { s with k := k' }).cnt ≤ s.cnt ∧
    (rehash P { s with k := k' }).sd = s.sd ∧ (rehash P { s with k := k' }).k = k' := by
  have habs : abs P (rehash P { s with k := k' }) = fil k' (abs P s) := by
    simp [abs, rehash, keys_thin]
  have hsz : (s.items.thin P.bits k').size P.bits ≤ s.items.size P.bits := by
    rw [size_eq, size_eq, keys_thin]; exact Finset.card_le_card (Finset.filter_subset _ _)
  have hc : (rehash P { s with k := k' }).cnt = (fil k' (abs P s)).card := by
    have h1 : s.cnt = s.items.size P.bits := by rw [h.cnt, size_eq]; rfl
    have h2 : (fil k' (abs P s)).card = (s.items.thin P.bits k').size P.bits := by rw [size_eq, keys_thin]; rfl
    simp only [rehash]; rw [h2]; omega
  refine ⟨⟨h.alloc, ?_, ?_, h.sub, h.bound, hm⟩, ?_, by simp [rehash], by simp [rehash]⟩
  · rw [hc, habs]
  · rw [habs, h.items]; exact fil_fil_le hk U
  · rw [hc, h.cnt]; exact Finset.card_le_card (Finset.filter_subset _ _)

/-- the thinning loop: ends within the fuel with at most `limit` values, skipDegree stays minimal for `W` -/
theorem thinLoop_core (P : Params) : ∀ (f : Nat) (s : Sk) (U W : Finset ℕ), Core P s U W → P.bits + 1 ≤ f + s.k →
    Core P (thinLoop P f s) U W ∧ (thinLoop P f s).cnt ≤ limit P ∧ (thinLoop P f s).sd = s.sd := by
  intro f
  induction f with
  | zero =>
    intro s U W h hf
    simp only [thinLoop]
    refine ⟨h, ?_, trivial⟩
    rw [h.cnt, h.items]
    have := fil_big P s.k (by omega) U (fun x hx => h.bound x (h.sub hx))
    have := limit_pos P
    omega
  | succ f ih =>
    intro s U W h hf
    simp only [thinLoop]
    split
    · rename_i hov
      simp only [overLimit, decide_eq_true_eq] at hov
      have hlt : s.k < P.bits := by
        by_contra hge
        have := fil_big P s.k (by omega) U (fun x hx => h.bound x (h.sub hx))
        rw [← h.items, ← h.cnt] at this
        have := limit_pos P
        omega
      have hm : ∀ j < s.k + 1, limit P < (fil j W).card := by
        intro j hj
        by_cases hjk : j < s.k
        · exact h.minimal j hjk
        · have : j = s.k := by omega
          subst this
          have := fil_mono s.k h.sub
          rw [← h.items, ← h.cnt] at this
          omega
      obtain ⟨c, _, esd, ek⟩ := rehash_core P s U W (s.k + 1) h (by omega) hm
      obtain ⟨c2, l2, sd2⟩ := ih _ U W c (by rw [ek]; omega)
      exact ⟨c2, l2, by rw [sd2, esd]⟩
    · rename_i hov
      simp only [overLimit, decide_eq_true_eq] at hov
      exact ⟨h, by omega, rfl⟩

/-- shrinkIfNeed after one insertion into a Good state -/
theorem shrink_good (P : Params) (s : Sk) (U W : Finset ℕ) (h : Core P s U W) (h1 : 1 ≤ s.sd) (hmax : s.sd ≤ P.maxDeg)
    (hfill : s.cnt ≤ maxFill s + 1) : Good P (shrinkIfNeed P s) U W := by
  have hpow : 2 ^ (s.sd - 1) ≤ 2 ^ (P.maxDeg - 1) := Nat.pow_le_pow_right (by omega) (by omega)
  unfold shrinkIfNeed
  split
  · rename_i hf
    simp only [fits, decide_eq_true_eq] at hf
    exact { toCore := h, sd1 := h1, sdmax := hmax, fill := hf }
  · rename_i hf
    simp only [fits, decide_eq_true_eq] at hf
    split
    · rename_i hov
      simp only [overLimit, decide_eq_true_eq] at hov
      obtain ⟨c, l, esd⟩ := thinLoop_core P (P.bits + 1) s U W h (by omega)
      refine { toCore := c, sd1 := by rw [esd]; exact h1, sdmax := by rw [esd]; exact hmax, fill := ?_ }
      simp only [maxFill, limit] at *
      rw [esd]; omega
    · rename_i hov
      simp only [overLimit, decide_eq_true_eq] at hov
      have hlt : s.sd - 1 < P.maxDeg - 1 := by
        by_contra hge
        have : 2 ^ (P.maxDeg - 1) ≤ 2 ^ (s.sd - 1) := Nat.pow_le_pow_right (by omega) (by omega)
        simp only [maxFill, limit] at *
        omega
      refine { toCore := ⟨h.alloc, h.cnt, h.items, h.sub, h.bound, h.minimal⟩, sd1 := by simp; , sdmax := by simp; omega, fill := ?_ }
      simp only [maxFill] at *
      have e : s.sd + 1 - 1 = (s.sd - 1) + 1 := by omega
      rw [e, Nat.pow_succ]
      have : 1 ≤ 2 ^ (s.sd - 1) := Nat.one_le_two_pow
      omega

theorem insertImpl_core (P : Params) (s : Sk) (U W : Finset ℕ) (x : Nat) (h : Core P s U W) (hx : x ∈ W)
    (hg : x % 2 ^ s.k = 0) :
    Core P (insertImpl P s x) (insert x U) W ∧ (insertImpl P s x).cnt ≤ s.cnt + 1 ∧ (insertImpl P s x).sd = s.sd := by
  have hxb := h.bound x hx
  have hsub : insert x U ⊆ W := Finset.insert_subset hx h.sub
  have hfil : fil s.k (insert x U) = insert x (fil s.k U) := by
    ext y; simp only [mem_fil, Finset.mem_insert]
    constructor
    · rintro ⟨rfl | a, b⟩
      · left; rfl
      · right; exact ⟨a, b⟩
    · rintro (rfl | ⟨a, b⟩)
      · exact ⟨Or.inl rfl, hg⟩
      · exact ⟨Or.inr a, b⟩
  unfold insertImpl
  split
  · rename_i hh
    simp only [has] at hh
    rw [mem_iff _ _ _ hxb] at hh
    have hin : x ∈ fil s.k U := by rw [← h.items]; exact hh
    refine ⟨⟨h.alloc, h.cnt, ?_, hsub, h.bound, h.minimal⟩, by omega, rfl⟩
    rw [hfil, Finset.insert_eq_of_mem hin]; exact h.items
  · rename_i hh
    simp only [has] at hh
    have hnot : x ∉ abs P s := by
      intro hc; apply hh; rw [mem_iff _ _ _ hxb]; exact hc
    have habs : abs P { s with items := s.items.insert P.bits x, cnt := s.cnt + 1 } = insert x (abs P s) := by
      simp only [abs]; exact keys_insert _ _ _ hxb
    refine ⟨⟨h.alloc, ?_, ?_, hsub, h.bound, h.minimal⟩, by simp, rfl⟩
    · rw [habs, Finset.card_insert_of_notMem hnot, ← h.cnt]
    · rw [habs, hfil, h.items]

/-- one insertHash step keeps the invariant, the universe of seen values grows by `x` -/
theorem insertHash_good (P : Params) (s : Sk) (U W : Finset ℕ) (x : Nat) (h : Good P s U W) (hx : x ∈ W) :
    Good P (insertHash P s x) (insert x U) W := by
  unfold insertHash
  split
  · rename_i hg
    simp only [good, beq_iff_eq] at hg
    obtain ⟨c, l, esd⟩ := insertImpl_core P s U W x h.toCore hx hg
    apply shrink_good P _ _ _ c
    · rw [esd]; exact h.sd1
    · rw [esd]; exact h.sdmax
    · have := h.fill; simp only [maxFill] at *; rw [esd]; omega
  · rename_i hg
    simp only [good, beq_iff_eq] at hg
    refine { toCore := ⟨h.alloc, h.cnt, ?_, Finset.insert_subset hx h.sub, h.bound, h.minimal⟩, sd1 := h.sd1, sdmax := h.sdmax, fill := h.fill }
    rw [h.items]
    ext y; simp only [mem_fil, Finset.mem_insert]
    constructor
    · rintro ⟨a, b⟩; exact ⟨Or.inr a, b⟩
    · rintro ⟨rfl | a, b⟩
      · exact absurd b hg
      · exact ⟨a, b⟩

theorem foldl_insertHash_good (P : Params) : ∀ (xs : List Nat) (s : Sk) (U W : Finset ℕ), Good P s U W → (∀ x ∈ xs, x ∈ W) →
    Good P (xs.foldl (insertHash P) s) (U ∪ xs.toFinset) W := by
  intro xs
  induction xs with
  | nil => intro s U W h _; simpa using h
  | cons x xs ih =>
    intro s U W h hx
    simp only [List.foldl_cons, List.toFinset_cons]
    have := ih _ _ W (insertHash_good P s U W x h (hx x (by simp))) (fun y hy => hx y (by simp [hy]))
    have e : U ∪ insert x xs.toFinset = insert x U ∪ xs.toFinset := by
      ext y; simp only [Finset.mem_union, Finset.mem_insert]; tauto
    rw [e]; exact this


/-! ### Merge -/

/-- well-formed parameters: 1 ≤ initial table degree ≤ maximal table degree (4 and 17 in the code) -/
def PWF (P : Params) : Prop := 1 ≤ P.initDeg ∧ P.initDeg ≤ P.maxDeg

/-- `Good`, or the zero value `ChUnique{}` that has seen nothing -/
def Rep (P : Params) (s : Sk) (U W : Finset ℕ) : Prop :=
  Good P s U W ∨ (s = nilSk ∧ U = ∅ ∧ ∀ x ∈ W, x < 2 ^ P.bits)

theorem good_mono (P : Params) (s : Sk) (U W W' : Finset ℕ) (h : Good P s U W) (hs : W ⊆ W') (hb : ∀ x ∈ W', x < 2 ^ P.bits) :
    Good P s U W' :=
  { alloc := h.alloc, cnt := h.cnt, items := h.items, sub := fun _ hx => hs (h.sub hx), bound := hb,
    minimal := fun j hj => Nat.lt_of_lt_of_le (h.minimal j hj) (fil_mono j hs),
    sd1 := h.sd1, sdmax := h.sdmax, fill := h.fill }

theorem rep_mono (P : Params) (s : Sk) (U W W' : Finset ℕ) (h : Rep P s U W) (hs : W ⊆ W') (hb : ∀ x ∈ W', x < 2 ^ P.bits) :
    Rep P s U W' := by
  rcases h with h | ⟨a, b, _⟩
  · exact Or.inl (good_mono P s U W W' h hs hb)
  · exact Or.inr ⟨a, b, hb⟩

theorem rep_bound (P : Params) (s : Sk) (U W : Finset ℕ) (h : Rep P s U W) : ∀ x ∈ W, x < 2 ^ P.bits := by
  rcases h with h | ⟨_, _, c⟩
  · exact h.bound
  · exact c

theorem rep_sub (P : Params) (s : Sk) (U W : Finset ℕ) (h : Rep P s U W) : U ⊆ W := by
  rcases h with h | ⟨_, b, _⟩
  · exact h.sub
  · rw [b]; exact Finset.empty_subset _

theorem ensure_good (P : Params) (hP : PWF P) (s : Sk) (U W : Finset ℕ) (h : Rep P s U W) : Good P (ensure P s) U W := by
  rcases h with h | ⟨a, b, c⟩
  · simp only [ensure, h.alloc, if_true]; exact h
  · subst a; subst b
    simp only [ensure, nilSk]
    exact { alloc := rfl, cnt := by simp [reset, abs, keys_nil], items := by simp [reset, abs, keys_nil, fil],
            sub := Finset.empty_subset _, bound := c, minimal := by intro j hj; simp [reset] at hj,
            sd1 := hP.1, sdmax := hP.2, fill := by simp [reset, maxFill] }

theorem adopt_good (P : Params) (s : Sk) (U W : Finset ℕ) (k' : Nat) (h : Good P s U W)
    (hm : ∀ j < k', limit P < (fil j W).card) : Good P (adopt P s k') U W ∧ k' ≤ (adopt P s k').k := by
  unfold adopt
  split
  · rename_i hlt
    obtain ⟨c, l, esd, ek⟩ := rehash_core P s U W k' h.toCore (by omega) hm
    refine ⟨{ toCore := c, sd1 := by rw [esd]; exact h.sd1, sdmax := by rw [esd]; exact h.sdmax, fill := ?_ }, by rw [ek]⟩
    have := h.fill; simp only [maxFill] at *; rw [esd]; omega
  · exact ⟨h, by omega⟩

theorem enlarge_good (P : Params) (s : Sk) (U V W : Finset ℕ) (h : Good P s U W) (hV : V ⊆ W)
    (hbad : ∀ x ∈ V, x % 2 ^ s.k ≠ 0) : Good P s (U ∪ V) W := by
  refine { toCore := ⟨h.alloc, h.cnt, ?_, Finset.union_subset h.sub hV, h.bound, h.minimal⟩, sd1 := h.sd1, sdmax := h.sdmax, fill := h.fill }
  rw [h.items]
  ext y; simp only [mem_fil, Finset.mem_union]
  constructor
  · rintro ⟨a, b⟩; exact ⟨Or.inl a, b⟩
  · rintro ⟨a | a, b⟩
    · exact ⟨a, b⟩
    · exact absurd b (hbad y a)

theorem has_iff (P : Params) (s : Sk) (x : Nat) (hx : x < 2 ^ P.bits) : has P s x = true ↔ x ∈ abs P s := by
  simp only [has, abs]; exact mem_iff _ _ _ hx

theorem mergeItem_chGood (P : Params) (rk : Nat) : mergeItem .chGood P rk = insertHash P := by
  funext ch x; rfl

theorem mergeZero_good (P : Params) (ch rhs : Sk) (U W : Finset ℕ) (h : Good P ch U W) (h0 : has P rhs 0 = true → 0 ∈ W) :
    Good P (mergeZero P ch rhs) (if has P rhs 0 = true then insert 0 U else U) W := by
  have hz : (0 : ℕ) < 2 ^ P.bits := Nat.two_pow_pos _
  unfold mergeZero
  split
  · rename_i hc
    simp only [Bool.and_eq_true, Bool.not_eq_true'] at hc
    rw [if_pos hc.2]
    have := insertHash_good P ch U W 0 h (h0 hc.2)
    simpa [insertHash, good] using this
  · rename_i hc
    simp only [Bool.and_eq_true, Bool.not_eq_true', not_and] at hc
    split
    · rename_i hr
      have hh : has P ch 0 = true := by
        cases hx : has P ch 0
        · exact absurd hr (by simpa using hc hx)
        · rfl
      have : 0 ∈ fil ch.k U := by rw [← h.items]; exact (has_iff P ch 0 hz).mp hh
      rw [Finset.insert_eq_of_mem ((mem_fil _ _ _).mp this).1]
      exact h
    · exact h

theorem mem_nonZero (P : Params) (s : Sk) (y : Nat) : y ∈ nonZero P s ↔ y ∈ abs P s ∧ y ≠ 0 := by
  simp [nonZero, mem_toList, abs]

/-- ChUnique.Merge (after the fix): the receiver ends up representing the union of what both sketches have seen -/
theorem merge_good (P : Params) (hP : PWF P) (ch rhs : Sk) (U1 U2 W : Finset ℕ) (hc : Rep P ch U1 W) (hr : Rep P rhs U2 W) :
    Rep P (Unique.merge .chGood P ch rhs) (U1 ∪ U2) W := by
  unfold Unique.merge mergeWith
  rcases hr with hr | ⟨a, b, _⟩
  · have hz : (0 : ℕ) < 2 ^ P.bits := Nat.two_pow_pos _
    simp only [hr.alloc, Bool.not_true, Bool.false_eq_true, if_false]
    left
    have c0 := ensure_good P hP ch U1 W hc
    obtain ⟨c1, hk⟩ := adopt_good P _ U1 W rhs.k c0 hr.minimal
    let V := U2.filter (fun y => y % 2 ^ rhs.k ≠ 0)
    have hV : V ⊆ W := fun x hx => hr.sub (Finset.mem_filter.mp hx).1
    have hbad : ∀ x ∈ V, x % 2 ^ (adopt P (ensure P ch) rhs.k).k ≠ 0 := by
      intro x hx hmod
      have hx2 := (Finset.mem_filter.mp hx).2
      apply hx2
      have hd : 2 ^ rhs.k ∣ 2 ^ (adopt P (ensure P ch) rhs.k).k := Nat.pow_dvd_pow 2 hk
      have h2 := Nat.mod_mod_of_dvd x hd
      rw [hmod] at h2; simpa using h2.symm
    have c2 := enlarge_good P _ U1 V W c1 hV hbad
    have h0 : has P rhs 0 = true → 0 ∈ W := by
      intro hh
      have : 0 ∈ fil rhs.k U2 := by rw [← hr.items]; exact (has_iff P rhs 0 hz).mp hh
      exact hr.sub ((mem_fil _ _ _).mp this).1
    have c3 := mergeZero_good P _ rhs (U1 ∪ V) W c2 h0
    have hin : ∀ x ∈ nonZero P rhs, x ∈ W := by
      intro x hx
      have := ((mem_nonZero P rhs x).mp hx).1
      rw [hr.items] at this
      exact hr.sub ((mem_fil _ _ _).mp this).1
    have c4 := foldl_insertHash_good P (nonZero P rhs) _ _ W c3 hin
    rw [mergeItem_chGood]
    have e : (if has P rhs 0 = true then insert 0 (U1 ∪ V) else U1 ∪ V) ∪ (nonZero P rhs).toFinset = U1 ∪ U2 := by
      ext y
      have hnz := mem_nonZero P rhs y
      have hit : y ∈ abs P rhs ↔ y ∈ U2 ∧ y % 2 ^ rhs.k = 0 := by rw [hr.items, mem_fil]
      have h00 : has P rhs 0 = true ↔ (0 ∈ U2 ∧ 0 % 2 ^ rhs.k = 0) := by
        rw [has_iff P rhs 0 hz, hr.items, mem_fil]
      by_cases hy0 : y = 0
      · subst hy0
        by_cases hh : has P rhs 0 = true
        · have := h00.mp hh
          simp only [hh, if_true, Finset.mem_union, Finset.mem_insert, List.mem_toFinset, true_or, or_true, this.1]
        · have hn : ¬ (0 ∈ U2 ∧ 0 % 2 ^ rhs.k = 0) := fun c => hh (h00.mpr c)
          simp only [hh, Finset.mem_union, List.mem_toFinset, hnz, hit, V]
          simp at hn ⊢
          tauto
      · have hsplit : y ∈ (if has P rhs 0 = true then insert 0 (U1 ∪ V) else U1 ∪ V) ↔ y ∈ U1 ∪ V := by
          split
          · simp [hy0]
          · rfl
        rw [Finset.mem_union, hsplit, List.mem_toFinset, hnz, hit]
        simp only [Finset.mem_union, V, Finset.mem_filter]
        by_cases hm : y % 2 ^ rhs.k = 0 <;> simp [hm, hy0]
    rw [← e]; exact c4
  · subst a; subst b
    simp only [nilSk, Bool.not_false, if_true, Finset.union_empty]
    exact hc


/-! ### the wire path: MarshallAppend → MergeRead / UmMarshall (after the fix) -/

theorem keys_foldl_insert (d : Nat) : ∀ (xs : List Nat) (t : Trie), (∀ x ∈ xs, x < 2 ^ d) →
    keys d (xs.foldl (fun t x => t.insert d x) t) = keys d t ∪ xs.toFinset := by
  intro xs
  induction xs with
  | nil => intro t _; simp
  | cons x xs ih =>
    intro t hx
    simp only [List.foldl_cons, List.toFinset_cons]
    rw [ih _ (fun y hy => hx y (by simp [hy])), keys_insert _ _ _ (hx x (by simp))]
    ext y; simp only [Finset.mem_union, Finset.mem_insert]; tauto

theorem marshal_xs (P : Params) (s : Sk) (hs : s.alloc = true) :
    (marshal P s).k = s.k ∧ (marshal P s).ic = s.cnt ∧ (marshal P s).xs.toFinset = abs P s := by
  have hz : (0 : ℕ) < 2 ^ P.bits := Nat.two_pow_pos _
  simp only [marshal, hs, if_true, true_and]
  ext y
  simp only [List.toFinset_append, Finset.mem_union, List.mem_toFinset, mem_nonZero]
  by_cases hy : y = 0
  · subst hy
    by_cases hh : has P s 0 = true
    · simp [hh, (has_iff P s 0 hz).mp hh]
    · have : 0 ∉ abs P s := fun c => hh ((has_iff P s 0 hz).mpr c)
      simp [hh, this]
  · split <;> simp [hy]

theorem sdFor_clamp (P : Params) (hP : PWF P) (ic : Nat) (hic : ic ≤ limit P) :
    1 ≤ sdFor .clamp P ic ∧ sdFor .clamp P ic ≤ P.maxDeg ∧ ic ≤ 2 ^ (sdFor .clamp P ic - 1) := by
  obtain ⟨h1, h2⟩ := hP
  unfold sdFor
  split
  · rename_i hgt
    simp only
    refine ⟨by omega, by omega, ?_⟩
    by_cases hc : P.maxDeg ≤ max P.initDeg (Nat.log2 ic + 2)
    · rw [Nat.min_eq_left hc]; exact hic
    · rw [Nat.min_eq_right (by omega)]
      have hl : ic < 2 ^ (Nat.log2 ic + 1) := Nat.lt_log2_self
      have : 2 ^ (Nat.log2 ic + 1) ≤ 2 ^ (max P.initDeg (Nat.log2 ic + 2) - 1) := Nat.pow_le_pow_right (by omega) (by omega)
      omega
  · rename_i hle
    refine ⟨h1, h2, ?_⟩
    have : 1 ≤ 2 ^ (P.initDeg - 1) := Nat.one_le_two_pow
    omega

theorem readResize_good (P : Params) (hP : PWF P) (s : Sk) (U W : Finset ℕ) (ic : Nat) (h : Good P s U W) (hic : ic ≤ limit P) :
    Good P (readResize .clamp P s ic) U W := by
  unfold readResize
  split
  · rename_i hlt
    obtain ⟨a, b, _⟩ := sdFor_clamp P hP ic hic
    refine { toCore := ⟨h.alloc, h.cnt, h.items, h.sub, h.bound, h.minimal⟩, sd1 := a, sdmax := b, fill := ?_ }
    have hl : ic < 2 ^ (Nat.log2 ic + 1) := Nat.lt_log2_self
    have hsd : s.sd < Nat.log2 ic + 1 := (Nat.pow_lt_pow_iff_right (by omega : 1 < 2)).mp (by omega)
    have hge : s.sd ≤ sdFor .clamp P ic := by
      have h1 : 1 < ic := by have : 1 ≤ 2 ^ s.sd := Nat.one_le_two_pow; omega
      have := h.sdmax
      simp only [sdFor, h1, if_true]; omega
    have := h.fill
    simp only [maxFill] at *
    have : 2 ^ (s.sd - 1) ≤ 2 ^ (sdFor .clamp P ic - 1) := Nat.pow_le_pow_right (by omega) (by omega)
    omega
  · exact h

/-- MergeRead of a marshalled sketch (after the fix): same result as Merge — the union of what both have seen -/
theorem mergeRead_good (P : Params) (hP : PWF P) (ch rhs : Sk) (U1 U2 W : Finset ℕ) (hc : Rep P ch U1 W) (hr : Good P rhs U2 W) :
    Good P (mergeRead .adopt .clamp P ch (marshal P rhs)) (U1 ∪ U2) W := by
  obtain ⟨mk, mic, mxs⟩ := marshal_xs P rhs hr.alloc
  have hlim : rhs.cnt ≤ limit P := by
    have hpow : 2 ^ (rhs.sd - 1) ≤ 2 ^ (P.maxDeg - 1) := Nat.pow_le_pow_right (by omega) (by have := hr.sdmax; omega)
    have := hr.fill; simp only [maxFill, limit] at *; omega
  have hxsW : ∀ x ∈ (marshal P rhs).xs, x ∈ W := by
    intro x hx
    have : x ∈ abs P rhs := by rw [← mxs]; exact List.mem_toFinset.mpr hx
    rw [hr.items] at this
    exact hr.sub ((mem_fil _ _ _).mp this).1
  unfold mergeRead
  rcases hc with hc | ⟨a, b, _⟩
  · simp only [hc.alloc, Bool.not_true, Bool.false_eq_true, if_false]
    have e1 : readAdopt .adopt P ch (marshal P rhs).k = adopt P ch rhs.k := by rw [mk]; rfl
    rw [e1, mic]
    obtain ⟨c1, hk⟩ := adopt_good P ch U1 W rhs.k hc hr.minimal
    let V := U2.filter (fun y => y % 2 ^ rhs.k ≠ 0)
    have hV : V ⊆ W := fun x hx => hr.sub (Finset.mem_filter.mp hx).1
    have hbad : ∀ x ∈ V, x % 2 ^ (adopt P ch rhs.k).k ≠ 0 := by
      intro x hx hmod
      apply (Finset.mem_filter.mp hx).2
      have hd : 2 ^ rhs.k ∣ 2 ^ (adopt P ch rhs.k).k := Nat.pow_dvd_pow 2 hk
      have h2 := Nat.mod_mod_of_dvd x hd
      rw [hmod] at h2; simpa using h2.symm
    have c2 := enlarge_good P _ U1 V W c1 hV hbad
    have c3 := readResize_good P hP _ _ W rhs.cnt c2 hlim
    have c4 := foldl_insertHash_good P (marshal P rhs).xs _ _ W c3 hxsW
    have e : U1 ∪ V ∪ (marshal P rhs).xs.toFinset = U1 ∪ U2 := by
      rw [mxs, hr.items]
      ext y
      simp only [Finset.mem_union, V, Finset.mem_filter, mem_fil]
      by_cases hm : y % 2 ^ rhs.k = 0 <;> simp [hm]
    have e2 : (readResize .clamp P (adopt P ch rhs.k) rhs.cnt).k = (adopt P ch rhs.k).k := by
      unfold readResize; split <;> rfl
    rw [← e]; exact c4
  · subst a; subst b
    simp only [nilSk, Bool.not_false, if_true, Finset.empty_union]
    obtain ⟨s1, s2, s3⟩ := sdFor_clamp P hP (marshal P rhs).ic (by rw [mic]; exact hlim)
    have habs : abs P (unmarshal .clamp P (marshal P rhs)) = abs P rhs := by
      simp only [unmarshal, abs]
      rw [keys_foldl_insert _ _ _ (fun x hx => hr.bound x (hxsW x hx)), keys_nil, Finset.empty_union, mxs]; rfl
    exact { alloc := rfl, cnt := by rw [habs]; simp only [unmarshal]; rw [mic]; exact hr.cnt,
            items := by rw [habs]; simp only [unmarshal]; rw [mk]; exact hr.items,
            sub := hr.sub, bound := hr.bound, minimal := by simp only [unmarshal]; rw [mk]; exact hr.minimal,
            sd1 := s1, sdmax := s2, fill := by simp only [unmarshal, maxFill]; exact s3 }


theorem mergeRead_nil (P : Params) (hP : PWF P) (ch : Sk) (U W : Finset ℕ) (hc : Rep P ch U W) :
    Good P (mergeRead .adopt .clamp P ch (marshal P nilSk)) U W := by
  rcases hc with hc | ⟨a, b, c⟩
  · have : mergeRead .adopt .clamp P ch (marshal P nilSk) = ch := by
      simp [mergeRead, marshal, nilSk, hc.alloc, readAdopt, readResize]
    rw [this]; exact hc
  · subst a
    have : mergeRead .adopt .clamp P nilSk (marshal P nilSk) = reset P := by
      simp [mergeRead, marshal, nilSk, unmarshal, sdFor, reset]
    rw [this]
    have := ensure_good P hP nilSk U W (Or.inr ⟨rfl, b, c⟩)
    simpa [ensure, nilSk] using this

/-- MergeRead of the wire image of any represented sketch (nil included) -/
theorem mergeRead_rep (P : Params) (hP : PWF P) (ch rhs : Sk) (U1 U2 W : Finset ℕ) (hc : Rep P ch U1 W) (hr : Rep P rhs U2 W) :
    Rep P (mergeRead .adopt .clamp P ch (marshal P rhs)) (U1 ∪ U2) W := by
  rcases hr with hr | ⟨a, b, _⟩
  · exact Or.inl (mergeRead_good P hP ch rhs U1 U2 W hc hr)
  · subst a; subst b
    rw [Finset.union_empty]
    exact Or.inl (mergeRead_nil P hP ch U1 W hc)

/-! ### programs -/

/-- any interleaving of inserts and merges: a binary tree whose leaves are insert streams -/
inductive Prog where
  | empty
  | ins (p : Prog) (x : Nat)
  | merge (a b : Prog)
  | mread (a b : Prog)     -- a.MergeRead(b.MarshallAppend()): the agent → aggregator path

def run (P : Params) : Prog → Sk
  | .empty => nilSk
  | .ins p x => insertHash P (ensure P (run P p)) x
  | .merge a b => Unique.merge .chGood P (run P a) (run P b)
  | .mread a b => mergeRead .adopt .clamp P (run P a) (marshal P (run P b))

def hashes : Prog → Finset ℕ
  | .empty => ∅
  | .ins p x => insert x (hashes p)
  | .merge a b => hashes a ∪ hashes b
  | .mread a b => hashes a ∪ hashes b

/-- C04, unique values: whatever the order and grouping of inserts and merges, the sketch represents exactly the set of
    inserted hashes `U`: it stores the values of `U` divisible by 2^skipDegree, and skipDegree is minimal. -/
theorem canonical_sketch (P : Params) (hP : PWF P) (p : Prog) (hb : ∀ x ∈ hashes p, x < 2 ^ P.bits) :
    Rep P (run P p) (hashes p) (hashes p) := by
  induction p with
  | empty => exact Or.inr ⟨rfl, rfl, hb⟩
  | ins p x ih =>
    simp only [hashes] at hb ⊢
    have ih' := ih (fun y hy => hb y (Finset.mem_insert_of_mem hy))
    have r := rep_mono P _ _ _ (insert x (hashes p)) ih' (Finset.subset_insert _ _) hb
    exact Or.inl (insertHash_good P _ _ _ x (ensure_good P hP _ _ _ r) (Finset.mem_insert_self _ _))
  | merge a b iha ihb =>
    simp only [hashes] at hb ⊢
    have ra := rep_mono P _ _ _ (hashes a ∪ hashes b) (iha (fun y hy => hb y (Finset.mem_union_left _ hy))) Finset.subset_union_left hb
    have rb := rep_mono P _ _ _ (hashes a ∪ hashes b) (ihb (fun y hy => hb y (Finset.mem_union_right _ hy))) Finset.subset_union_right hb
    exact merge_good P hP _ _ _ _ _ ra rb
  | mread a b iha ihb =>
    simp only [hashes] at hb ⊢
    have ra := rep_mono P _ _ _ (hashes a ∪ hashes b) (iha (fun y hy => hb y (Finset.mem_union_left _ hy))) Finset.subset_union_left hb
    have rb := rep_mono P _ _ _ (hashes a ∪ hashes b) (ihb (fun y hy => hb y (Finset.mem_union_right _ hy))) Finset.subset_union_right hb
    exact mergeRead_rep P hP _ _ _ _ _ ra rb

/-- the canonical state is unique: skipDegree is THE least degree at which the set fits, itemsCount the number of survivors -/
theorem good_canonical (P : Params) (s : Sk) (U : Finset ℕ) (h : Good P s U U) :
    (fil s.k U).card ≤ limit P ∧ (∀ j < s.k, limit P < (fil j U).card) ∧ s.cnt = (fil s.k U).card := by
  have hpow : 2 ^ (s.sd - 1) ≤ 2 ^ (P.maxDeg - 1) := Nat.pow_le_pow_right (by omega) (by have := h.sdmax; omega)
  refine ⟨?_, h.minimal, by rw [h.cnt, h.items]⟩
  rw [← h.items, ← h.cnt]
  have := h.fill
  simp only [maxFill, limit] at *
  omega

theorem rep_unique (P : Params) (s s' : Sk) (U : Finset ℕ) (h : Rep P s U U) (h' : Rep P s' U U) :
    s.k = s'.k ∧ s.cnt = s'.cnt := by
  have gg : ∀ (a b : Sk), Good P a U U → Good P b U U → a.k ≤ b.k := by
    intro a b ha hb'
    by_contra hlt
    have h1 := (good_canonical P a U ha).2.1 b.k (by omega)
    have h2 := (good_canonical P b U hb').1
    omega
  have gn : ∀ (a : Sk), Good P a ∅ ∅ → a.k = 0 ∧ a.cnt = 0 := by
    intro a ha
    have hc := good_canonical P a ∅ ha
    refine ⟨?_, by rw [hc.2.2]; simp [fil]⟩
    by_contra hk
    have := hc.2.1 0 (by omega)
    simp [fil] at this
  rcases h with h | ⟨a, b, _⟩ <;> rcases h' with h' | ⟨a', b', _⟩
  · have hk : s.k = s'.k := Nat.le_antisymm (gg s s' h h') (gg s' s h' h)
    refine ⟨hk, ?_⟩
    rw [(good_canonical P s U h).2.2, (good_canonical P s' U h').2.2, hk]
  · subst a'; subst b'
    have := gn s h
    simp [nilSk, this.1, this.2]
  · subst a; subst b
    have := gn s' h'
    simp [nilSk, this.1, this.2]
  · subst a; subst a'; exact ⟨rfl, rfl⟩

/-- C04: "… yields the same … unique-value estimate": two programs (any order, any grouping) that insert the same set of
    hashes end with the same skipDegree and itemsCount, hence the same Size() (a function of the two). -/
theorem estimate_order_independent (P : Params) (hP : PWF P) (p q : Prog) (h : hashes p = hashes q)
    (hb : ∀ x ∈ hashes p, x < 2 ^ P.bits) :
    (run P p).k = (run P q).k ∧ (run P p).cnt = (run P q).cnt ∧ sizeAsIs (run P p) = sizeAsIs (run P q) := by
  have r1 := canonical_sketch P hP p hb
  have r2 := canonical_sketch P hP q (by rw [← h]; exact hb)
  rw [← h] at r2
  obtain ⟨a, b⟩ := rep_unique P _ _ _ r1 r2
  exact ⟨a, b, by simp [sizeAsIs, a, b]⟩

theorem real_pwf : PWF Unique.real := ⟨by decide, by decide⟩
/-! ### the code before the fix: `decide` witnesses on a toy instance (4-bit hashes, limit 4) -/

def toy : Params := { bits := 4, maxDeg := 3, initDeg := 1 }
def ofList (P : Params) (xs : List Nat) : Sk := xs.foldl (insertHash P) (reset P)

/-- a sketch that was thinned once (skipDegree 1, holds 2,4,6) and a small one (holds 1) -/
def tA : Sk := ofList toy [1, 2, 3, 4, 6]
def tB : Sk := ofList toy [1]

example : tA.k = 1 ∧ tA.cnt = 3 ∧ tB.k = 0 ∧ tB.cnt = 1 := by decide

/-- F2 — ChUnique.Merge filtered incoming values with `rhs.good`: merging the small sketch INTO the thinned one keeps the
    odd value 1 (estimate 8), the other order gives 6. After the fix both orders give 6. -/
example : sizeAsIs (Unique.merge .rhsGood toy tA tB) = 8 ∧ sizeAsIs (Unique.merge .rhsGood toy tB tA) = 6 := by decide
example : sizeAsIs (Unique.merge .chGood toy tA tB) = 6 ∧ sizeAsIs (Unique.merge .chGood toy tB tA) = 6 := by decide

/-- F3 — MergeRead did not adopt the incoming skipDegree: small ⇐ thinned keeps skipDegree 0 (estimate 4), thinned ⇐ small gives 6 -/
example : sizeAsIs (mergeRead .stale .clamp toy tB (marshal toy tA)) = 4 ∧
          sizeAsIs (mergeRead .stale .clamp toy tA (marshal toy tB)) = 6 := by decide
example : sizeAsIs (mergeRead .adopt .clamp toy tB (marshal toy tA)) = 6 ∧
          sizeAsIs (mergeRead .adopt .clamp toy tA (marshal toy tB)) = 6 := by decide

/-- a sketch holding exactly `limit` values -/
def tF : Sk := ofList toy [1, 2, 3, 4]
example : tF.cnt = limit toy ∧ tF.k = 0 := by decide

/-- F12 — the readers sized the table with log2(ic)+2 unclamped: for exactly `limit` values maxFill is 2·limit, so the next
    values are stored without thinning and itemsCount exceeds the limit (such a sketch cannot even be read back).
    With the clamp the same program thins. -/
example : limit toy < (mergeRead .adopt .exact toy (mergeRead .adopt .exact toy nilSk (marshal toy tF)) (marshal toy (ofList toy [5]))).cnt := by decide
example : (mergeRead .adopt .clamp toy (mergeRead .adopt .clamp toy nilSk (marshal toy tF)) (marshal toy (ofList toy [5]))).cnt ≤ limit toy := by decide

/-- non-vacuity of `canonical_sketch` / `estimate_order_independent`: two different programs over the same 6 hashes, with thinning -/
def pg1 : Prog := .merge (.ins (.ins (.ins .empty 1) 2) 3) (.ins (.ins (.ins .empty 4) 6) 8)
def pg2 : Prog := .ins (.mread (.ins (.ins .empty 8) 6) (.merge (.ins .empty 3) (.ins (.ins .empty 2) 1))) 4
example : hashes pg1 = hashes pg2 ∧ (∀ x ∈ hashes pg1, x < 2 ^ toy.bits) ∧ PWF toy ∧ (run toy pg1).k = 1 ∧ (run toy pg1).cnt = 4 ∧
    (run toy pg2).k = 1 ∧ (run toy pg2).cnt = 4 := by
  refine ⟨by decide, by decide, ⟨by decide, by decide⟩, by decide, by decide, by decide, by decide⟩

/-- the tsValues.merge sketch path (fresh copy on the first merge, in place afterwards) is two/one `Merge` calls, so API rows
    inherit `merge_good`: the merged row's sketch represents the union of what both rows' sketches have seen -/
theorem tsUnique_good (P : Params) (hP : PWF P) (v r : Ts) (U1 U2 W : Finset ℕ) (hv : Rep P v.u U1 W) (hr : Rep P r.u U2 W) :
    Rep P (tsUnique .chGood P v r) (U1 ∪ U2) W := by
  unfold tsUnique
  split
  · have h0 : Rep P nilSk ∅ W := Or.inr ⟨rfl, rfl, rep_bound P _ _ _ hv⟩
    have h1 := merge_good P hP nilSk v.u ∅ U1 W h0 hv
    rw [Finset.empty_union] at h1
    exact merge_good P hP _ r.u U1 U2 W h1 hr
  · exact merge_good P hP v.u r.u U1 U2 W hv hr

/-! ## Part 4 — the open-addressing table refines the set model (`table_refines`)

  SH.Model.UniqueTable is the table as the code has it (buf, place, linear probing with wrap-around, rehash with its two
  loops, resize with the relocation loop). `Refines P t s`: the set model `s` has the same skipDegree, sizeDegree,
  itemsCount and exactly the values stored in the table `t`. `WF P t`: 2^sizeDegree slots, no value stored twice, every
  stored value reachable from its home slot without crossing an empty slot, itemsCount = occupied slots (+ zero item).

  PROVED (Parts 4 and 6): every table operation commutes with the abstraction (`table_refines_insertImpl`,
    `table_rehash_values`, `table_resize_values`); `WF` is kept by insertImpl, RESTORED by rehash (both loops,
    `table_rehash_restores_WF`) and by resize with the real loop bound (`table_resize_restores_WF`), hence an invariant of
    insertHash including thinning and growth (`table_refines_step`); for every stream of inserts from the empty table the
    table is well-formed, its abstraction is the set model and `canonical_sketch` holds for it (`table_refines`, Part 6);
    `WF` is decided by the executable `wfb` (`wfb_decides_WF`) which the driver evaluates after every replayed op.
    Hypotheses the loops need (and the code maintains: itemsCount ≤ maxFill = half the table before every insert, table
    size ≥ 4): one free slot for rehash/resize, new size ≥ 2 × old size for resize.
  Part 7 lifts this to EVERY program (`table_refines_programs`, `table_canonical`, `table_order_independent`): inserts,
    Merge (zero item + fold of the insertHash step over rhs.buf in slot order, after the adoption rehash) and
    MarshallAppend + MergeRead (adoption rehash, resize, fold over the wire list; UmMarshall for the zero-value receiver).
  The witness below (`ResizeV.oldOnly`, seeded change C03-2) shows the real loop bound is necessary: with `i < oldSize`
    every value-level theorem still holds, but a wrapped value is stranded, `WF` fails, and the next insert of that value
    is counted twice.
-/
open SH.UTable

/-- insertImpl on the table = insertImpl on the set, and the table stays well-formed (given one free slot) -/
theorem table_refines_insertImpl (P : Params) (t : Tb) (s : Sk) (w : WF P t) (r : Refines P t s) (x : Nat) (hx : x < 2 ^ P.bits)
    (j : Nat) (hj : j < size t) (hj0 : get t j = 0) :
    WF P (UTable.insertImpl P t x) ∧ Refines P (UTable.insertImpl P t x) (Unique.insertImpl P s x) :=
  insertImpl_refines P t s w r x hx j hj hj0

/-- in a well-formed table the probe finds every stored value at its slot (no stranded values) -/
theorem table_lookup_complete (P : Params) (t : Tb) (h : WF P t) (i : Nat) (hi : i < size t) (hx : get t i ≠ 0) :
    probe t (get t i) (size t) (place P t (get t i)) = some i := lookup_complete P t h i hi hx

/-- rehash (first pass + "process the first collision resolution chain once again") = thinning of the set -/
theorem table_rehash_values (P : Params) (t : Tb) (s : Sk) (h : Tidy t) (r : Refines P t s) (k' : Nat) :
    Tidy (UTable.rehash P { t with k := k' }) ∧
    Refines P (UTable.rehash P { t with k := k' }) (Unique.rehash P { s with k := k' }) := rehash_refines P t s h r k'

/-- resize = the set with a larger sizeDegree; true for the real loop bound and for the shortened one -/
theorem table_resize_values (v : ResizeV) (P : Params) (t : Tb) (s : Sk) (h : Tidy t) (r : Refines P t s) (n : Nat) (hn : t.sd ≤ n) :
    Tidy (resize v P t n) ∧ Refines P (resize v P t n) { s with sd := n } := resize_refines v P t s h r n hn

/-- one insertHash step (insertImpl + shrinkIfNeed: thinning loop or resize) from a well-formed table agrees with the set
    model on values, itemsCount, skipDegree, sizeDegree. Partial: `WF` of the result is not derived when the step resized
    or thinned (see the header). -/
theorem table_refines_step_partial (v : ResizeV) (P : Params) (t : Tb) (s : Sk) (w : WF P t) (r : Refines P t s) (x : Nat)
    (hx : x < 2 ^ P.bits) (j : Nat) (hj : j < size t) (hj0 : get t j = 0) :
    Tidy (UTable.insertHash v P t x) ∧ Refines P (UTable.insertHash v P t x) (Unique.insertHash P s x) :=
  insertHash_refines_values v P t s w r x hx j hj hj0

/-- the executable check is the invariant -/
theorem wfb_decides_WF (P : Params) (t : Tb) (ha : t.alloc = true) : wfb P t = true ↔ WF P t := wfb_iff P t ha

/-! ### witnesses: 6-bit hashes, tables of 4 → 8 slots. 28 has home slot 3 (7 after the resize), 12 has home slot 3 in both
    tables and wraps to slot 0, 4 is the third value that triggers the resize. -/

def toyT : Params := { bits := 6, maxDeg := 4, initDeg := 2 }
def tabOf (v : ResizeV) (xs : List Nat) : Tb := xs.foldl (UTable.insertHash v toyT) (UTable.reset toyT)

/-- before the resize: [12, 0, 0, 28] — 12 wrapped around the end of the table; well-formed -/
example : (tabOf .full [28, 12]).buf = #[12, 0, 0, 28] ∧ wfb toyT (tabOf .full [28, 12]) = true := by decide

/-- the real loop (`i < oldSize || buf[i] != 0`): 12 is first moved past the old end (slot 4) and, after 28 has left slot 3,
    moved once more into its home slot: [0, 4, 0, 12, 0, 0, 0, 28], well-formed -/
example : (tabOf .full [28, 12, 4]).buf = #[0, 4, 0, 12, 0, 0, 0, 28] ∧ WF toyT (tabOf .full [28, 12, 4]) :=
  ⟨by decide, (wfb_decides_WF toyT _ (by decide)).mp (by decide)⟩

/-- seeded change C03-2 (`i < oldSize` only): 12 stays in slot 4 behind its empty home slot 3. Same values, same
    itemsCount — the set-level theorems above hold — but the table is not well-formed … -/
example : (tabOf .oldOnly [28, 12, 4]).buf = #[0, 4, 0, 0, 12, 0, 0, 28] ∧ (tabOf .oldOnly [28, 12, 4]).cnt = 3 ∧
    ¬ WF toyT (tabOf .oldOnly [28, 12, 4]) :=
  ⟨by decide, by decide, fun w => absurd ((wfb_decides_WF toyT _ (by decide)).mpr w) (by decide)⟩

/-- … the probe no longer finds 12, and inserting 12 again stores it a second time: itemsCount 4 for 3 distinct values,
    where the unchanged code answers 3 -/
example : probe (tabOf .oldOnly [28, 12, 4]) 12 8 (place toyT (tabOf .oldOnly [28, 12, 4]) 12) = some 3 ∧
    (UTable.insertImpl toyT (tabOf .oldOnly [28, 12, 4]) 12).cnt = 4 ∧
    (UTable.insertImpl toyT (tabOf .full [28, 12, 4]) 12).cnt = 3 := by decide

/-- non-vacuity of the hypotheses of `table_refines_insertImpl` / `table_refines_step_partial`: a well-formed table with a free
    slot and the set model built from the same inserts -/
example : WF toyT (tabOf .full [28, 12]) ∧ get (tabOf .full [28, 12]) 1 = 0 ∧
    (ofList toyT [28, 12]).cnt = (tabOf .full [28, 12]).cnt :=
  ⟨(wfb_decides_WF toyT _ (by decide)).mp (by decide), by decide, by decide⟩

example : Refines toyT (tabOf .full [28, 12]) (ofList toyT [28, 12]) :=
  { alloc := by decide, k := by decide, sd := by decide, cnt := by decide, vals := by decide, bound := by decide }


open SH.Agg

/-! ## Part 5 — ApplyUnique (the event-level entry) is a merge with one leaf plus a stream of inserts -/

theorem fold_addOnly_set (h : Host) : ∀ (vs : List Int) (t : Value), (vs ≠ [] ∨ t.set = true) →
    (vs.foldl (fun t v => addOnlyValue t v 4 h) t).set = true := by
  intro vs
  induction vs with
  | nil => intro t ht; rcases ht with a | a; exact absurd rfl a; simpa using a
  | cons v vs ih =>
    intro t _
    simp only [List.foldl_cons]
    apply ih
    right
    simp [addOnlyValue, setMin, setMax]

theorem fold_addOnly_cnt (h : Host) : ∀ (vs : List Int) (t : Value),
    (vs.foldl (fun t v => addOnlyValue t v 4 h) t).cnt = t.cnt := by
  intro vs
  induction vs with
  | nil => intro t; rfl
  | cons v vs ih =>
    intro t
    simp only [List.foldl_cons]
    rw [ih]
    simp [addOnlyValue, setMin, setMax]; split <;> split <;> rfl

/-- the item ApplyUnique merges is a contribution in the sense of Part 1 (`Wf`) -/
theorem uniqueItem_wf (hashes : List Int) (c : Int) (h : Host) (hc : 0 ≤ c) (hne : hashes ≠ []) : Wf (uniqueItem hashes c h) := by
  have hset := fold_addOnly_set h hashes (simpleCounter c h) (Or.inl hne)
  have hcnt := fold_addOnly_cnt h hashes (simpleCounter c h)
  unfold uniqueItem
  simp only
  split
  · refine ⟨?_, ?_⟩
    · show (hashes.foldl (fun t v => addOnlyValue t v 4 h) (simpleCounter c h)).cnt ≥ 0
      rw [hcnt]; simpa [simpleCounter, zero] using hc
    · intro hh
      have : (hashes.foldl (fun t v => addOnlyValue t v 4 h) (simpleCounter c h)).set = false := hh
      rw [hset] at this; cases this
  · refine ⟨?_, ?_⟩
    · rw [hcnt]; simpa [simpleCounter, zero] using hc
    · intro hh; rw [hset] at hh; cases hh

/-- ApplyUnique = ItemValue.Merge with `uniqueItem` (so Part 1 applies to event streams that contain unique events) and a
    stream of Insert calls on the sketch (so Part 3 applies: `Prog.ins`) -/
theorem applyUnique_eq (P : Unique.Params) (d : Nat) (s : Multi) (hashes : List Int) (c : Int) (h : Host) (hne : hashes ≠ []) :
    (applyUnique P d s hashes c h).v = merge d s.v (uniqueItem hashes c h) ∧
    (applyUnique P d s hashes c h).u = hashes.foldl (fun u v => Unique.insertVal P u (hashKey v)) s.u := by
  unfold applyUnique
  have : hashes.isEmpty = false := by cases hashes with
    | nil => exact absurd rfl hne
    | cons a l => rfl
  simp [this]

/-- non-vacuity: unique [1 2 2 100] with count 20 (the comment in the Go source): sum = 105·20/4, in quarter units 2100 -/
example : (uniqueItem [1, 2, 2, 100] 80 7).sum = 2100 ∧ (uniqueItem [1, 2, 2, 100] 80 7).vmin = 1 ∧
    (uniqueItem [1, 2, 2, 100] 80 7).vmax = 100 ∧ (uniqueItem [1, 2, 2, 100] 80 7).cnt = 80 := by decide


open SH.Unique SH.UTable

/-- rehash — the pass over the table AND "process the first collision resolution chain once again" — restores reachability:
    a well-formed table with one free slot stays well-formed (any new skipDegree) -/
theorem table_rehash_restores_WF (P : Params) (t : Tb) (w : WF P t) (k' e0 : Nat) (he : e0 < UTable.size t) (h0 : UTable.get t e0 = 0) :
    WF P (UTable.rehash P { t with k := k' }) := rehash_wf P t w k' e0 he h0

/-- resize with the real loop bound `i < oldSize || buf[i] != 0` restores reachability in the larger table
    (hypothesis the code maintains: the table is not full; the new table is at least twice as large) -/
theorem table_resize_restores_WF (P : Params) (t : Tb) (w : WF P t) (newSd : Nat) (hge : t.sd + 1 ≤ newSd)
    (hroom : (items t).length + 1 ≤ UTable.size t) : WF P (UTable.resize .full P t newSd) := resize_wf P t w newSd hge hroom

/-- `WF` is an invariant of a whole insertHash step (insertImpl, thinning loop, growth), given two free slots before it:
    this is what `table_refines_step_partial` was missing -/
theorem table_refines_step (P : Params) (t : Tb) (s : Sk) (w : WF P t) (r : Refines P t s) (x : Nat) (hx : x < 2 ^ P.bits)
    (hroom : (items t).length + 2 ≤ UTable.size t) :
    WF P (UTable.insertHash .full P t x) ∧ Refines P (UTable.insertHash .full P t x) (Unique.insertHash P s x) := by
  obtain ⟨j, hj, hj0⟩ := room_of_len t w.shape (by omega)
  exact ⟨insertHash_wf P t w x hroom, (insertHash_refines_values .full P t s w r x hx j hj hj0).2⟩

/-! ## Part 6 — `table_refines`: the real data structure (open-addressing table) stays well-formed and equals the set model -/

theorem thinLoop_sd (P : Params) : ∀ (f : Nat) (s : Sk), (Unique.thinLoop P f s).sd = s.sd := by
  intro f
  induction f with
  | zero => intro s; rfl
  | succ f ih =>
    intro s
    simp only [Unique.thinLoop]
    split
    · rw [ih]; rfl
    · rfl

theorem insertHash_sd_ge (P : Params) (s : Sk) (x : Nat) : s.sd ≤ (Unique.insertHash P s x).sd := by
  unfold Unique.insertHash
  split
  · have e : (Unique.insertImpl P s x).sd = s.sd := by unfold Unique.insertImpl; split <;> rfl
    unfold Unique.shrinkIfNeed
    split
    · omega
    · split
      · rw [thinLoop_sd]; omega
      · show s.sd ≤ (Unique.insertImpl P s x).sd + 1; omega
  · omega

/-- the joint invariant: the table is well-formed, the set model is its abstraction, the set model represents `U`
    canonically (Part 3), and the table has at least 4 slots -/
structure TInv (P : Params) (t : Tb) (s : Sk) (U W : Finset ℕ) : Prop where
  wf : WF P t
  ref : Refines P t s
  good : Good P s U W
  sd2 : 2 ≤ s.sd

theorem tinv_room (P : Params) (t : Tb) (s : Sk) (U W : Finset ℕ) (h : TInv P t s U W) : (items t).length + 2 ≤ size t := by
  have h1 := h.wf.cnt; unfold CntOk at h1
  have h2 := h.good.fill
  have h3 := h.ref.cnt
  have h4 := h.ref.sd
  have h5 := h.sd2
  unfold Unique.maxFill at h2
  unfold UTable.size
  rw [← h4]
  have e : 2 ^ s.sd = 2 * 2 ^ (s.sd - 1) := by
    rw [show s.sd = (s.sd - 1) + 1 by omega, Nat.pow_succ]; simp; omega
  have e2 : 2 ≤ 2 ^ (s.sd - 1) := by
    calc 2 = 2 ^ 1 := by norm_num
      _ ≤ 2 ^ (s.sd - 1) := Nat.pow_le_pow_right (by omega) (by omega)
  split at h1 <;> omega

theorem tinv_step (P : Params) (t : Tb) (s : Sk) (U W : Finset ℕ) (h : TInv P t s U W) (x : Nat) (hx : x ∈ W) :
    TInv P (UTable.insertHash .full P t x) (Unique.insertHash P s x) (insert x U) W := by
  have hroom := tinv_room P t s U W h
  obtain ⟨j, hj, hj0⟩ := room_of_len t h.wf.shape (by omega)
  have hxb := h.good.bound x hx
  exact { wf := insertHash_wf P t h.wf x hroom,
          ref := (insertHash_refines_values .full P t s h.wf h.ref x hxb j hj hj0).2,
          good := insertHash_good P s U W x h.good hx,
          sd2 := Nat.le_trans h.sd2 (insertHash_sd_ge P s x) }

theorem tinv_fold (P : Params) : ∀ (xs : List Nat) (t : Tb) (s : Sk) (U W : Finset ℕ), TInv P t s U W → (∀ x ∈ xs, x ∈ W) →
    TInv P (xs.foldl (UTable.insertHash .full P) t) (xs.foldl (Unique.insertHash P) s) (U ∪ xs.toFinset) W := by
  intro xs
  induction xs with
  | nil => intro t s U W h _; simpa using h
  | cons x xs ih =>
    intro t s U W h hx
    simp only [List.foldl_cons, List.toFinset_cons]
    have := ih _ _ _ W (tinv_step P t s U W h x (hx x (by simp))) (fun y hy => hx y (by simp [hy]))
    have e : U ∪ insert x xs.toFinset = insert x U ∪ xs.toFinset := by
      ext y; simp only [Finset.mem_union, Finset.mem_insert]; tauto
    rw [e]; exact this

theorem tinv_reset (P : Params) (hP : PWF P) (h2 : 2 ≤ P.initDeg) (W : Finset ℕ) (hW : ∀ x ∈ W, x < 2 ^ P.bits) :
    TInv P (UTable.reset P) (Unique.reset P) ∅ W := by
  have hget : ∀ i, get (UTable.reset P) i = 0 := by
    intro i; unfold UTable.get UTable.reset; simp [Array.getD]
  have hitems : items (UTable.reset P) = [] := by
    unfold items slots UTable.reset nz; simp
  refine { wf := ?_, ref := ?_, good := ?_, sd2 := h2 }
  · exact { shape := by unfold Shape slots UTable.reset UTable.size; simp,
            inj := by intro i j _ _ h; exact absurd (hget i) h,
            reach := by intro i _ h; exact absurd (hget i) h,
            cnt := by unfold CntOk; rw [hitems]; simp [UTable.reset] }
  · exact { alloc := rfl, k := rfl, sd := rfl, cnt := rfl,
            vals := by unfold tvals; rw [hitems]; simp [Unique.reset, keys_nil, UTable.reset],
            bound := by unfold tvals; rw [hitems]; simp [UTable.reset] }
  · have := ensure_good P hP nilSk ∅ W (Or.inr ⟨rfl, rfl, hW⟩)
    simpa [Unique.ensure, nilSk] using this

/-- `table_refines`, insert programs: for every stream of inserted hashes, the concrete open-addressing table (buf, probing,
    rehash, resize as in the code) is well-formed, its abstraction is the set model, and the set model is the canonical
    sketch of the inserted set — so `canonical_sketch` holds for the real data structure:
    skipDegree is the least one that fits and itemsCount is the number of inserted hashes divisible by 2^skipDegree. -/
theorem table_refines (P : Params) (hP : PWF P) (h2 : 2 ≤ P.initDeg) (xs : List Nat) (hb : ∀ x ∈ xs, x < 2 ^ P.bits) :
    WF P (xs.foldl (UTable.insertHash .full P) (UTable.reset P)) ∧
    Refines P (xs.foldl (UTable.insertHash .full P) (UTable.reset P)) (xs.foldl (Unique.insertHash P) (Unique.reset P)) ∧
    (fil (xs.foldl (UTable.insertHash .full P) (UTable.reset P)).k xs.toFinset).card ≤ limit P ∧
    (∀ j < (xs.foldl (UTable.insertHash .full P) (UTable.reset P)).k, limit P < (fil j xs.toFinset).card) ∧
    (xs.foldl (UTable.insertHash .full P) (UTable.reset P)).cnt =
      (fil (xs.foldl (UTable.insertHash .full P) (UTable.reset P)).k xs.toFinset).card := by
  have h0 := tinv_reset P hP h2 xs.toFinset (by intro x hx; exact hb x (List.mem_toFinset.mp hx))
  have h := tinv_fold P xs _ _ ∅ xs.toFinset h0 (by intro x hx; exact List.mem_toFinset.mpr hx)
  rw [Finset.empty_union] at h
  obtain ⟨a, b, c⟩ := good_canonical P _ _ h.good
  rw [h.ref.k] at a b c
  exact ⟨h.wf, h.ref, a, b, by rw [← h.ref.cnt]; exact c⟩

/-- non-vacuity: the real parameters satisfy the hypotheses; and a concrete run on the toy table -/
example : PWF Unique.real ∧ 2 ≤ Unique.real.initDeg := ⟨real_pwf, by decide⟩
set_option maxRecDepth 20000 in
example : PWF toyT ∧ 2 ≤ toyT.initDeg ∧ (∀ x ∈ [28, 12, 4, 33, 7, 52, 9, 61, 17], x < 2 ^ toyT.bits) ∧
    (tabOf .full [28, 12, 4, 33, 7, 52, 9, 61, 17]).k = 1 ∧ (tabOf .full [28, 12, 4, 33, 7, 52, 9, 61, 17]).cnt = 4 := by
  refine ⟨⟨by decide, by decide⟩, by decide, by decide, by decide, by decide⟩


/-! ## Part 7 — `table_refines` for every program: inserts, Merge, MarshallAppend + MergeRead -/

theorem tinv_mono (P : Params) (t : Tb) (s : Sk) (U W W' : Finset ℕ) (h : TInv P t s U W) (hs : W ⊆ W')
    (hb : ∀ x ∈ W', x < 2 ^ P.bits) : TInv P t s U W' :=
  { wf := h.wf, ref := h.ref, good := good_mono P s U W W' h.good hs hb, sd2 := h.sd2 }

/-- tvals of the table = what the set model holds = the seen values divisible by 2^skipDegree -/
theorem tinv_tvals (P : Params) (t : Tb) (s : Sk) (U W : Finset ℕ) (h : TInv P t s U W) : tvals t = fil t.k U := by
  rw [← h.ref.vals, ← h.ref.k]; exact h.good.items

/-- adoption of a larger skipDegree (`skipDegree = k'; rehash()`), table and set model together -/
theorem tinv_adopt (P : Params) (t : Tb) (s : Sk) (U W : Finset ℕ) (h : TInv P t s U W) (k' : Nat)
    (hm : ∀ j < k', limit P < (fil j W).card) :
    TInv P (if t.k < k' then UTable.rehash P { t with k := k' } else t) (Unique.adopt P s k') U W ∧
    k' ≤ (Unique.adopt P s k').k := by
  obtain ⟨g, hk⟩ := adopt_good P s U W k' h.good hm
  refine ⟨?_, hk⟩
  unfold Unique.adopt at g ⊢
  rw [h.ref.k] at g ⊢
  by_cases c : t.k < k'
  · rw [if_pos c] at g ⊢; rw [if_pos c]
    have hroom := tinv_room P t s U W h
    obtain ⟨e0, he, h0⟩ := room_of_len t h.wf.shape (by omega)
    exact { wf := rehash_wf P t h.wf k' e0 he h0,
            ref := (rehash_refines P t s (wf_tidy P t h.wf) h.ref k').2,
            good := g, sd2 := h.sd2 }
  · rw [if_neg c] at g ⊢; rw [if_neg c]; exact { wf := h.wf, ref := h.ref, good := g, sd2 := h.sd2 }

theorem tinv_enlarge (P : Params) (t : Tb) (s : Sk) (U V W : Finset ℕ) (h : TInv P t s U W) (hV : V ⊆ W)
    (hbad : ∀ x ∈ V, x % 2 ^ s.k ≠ 0) : TInv P t s (U ∪ V) W :=
  { wf := h.wf, ref := h.ref, good := enlarge_good P s U V W h.good hV hbad, sd2 := h.sd2 }

/-- the loop of Merge over rhs.buf: empty slots are skipped, every other slot is one insertHash step -/
theorem foldl_mergeSlot (P : Params) : ∀ (l : List Nat) (c : Tb),
    l.foldl (UTable.mergeSlot .full P) c = (l.filter nz).foldl (UTable.insertHash .full P) c := by
  intro l
  induction l with
  | nil => intro c; rfl
  | cons x l ih =>
    intro c
    simp only [List.foldl_cons, List.filter]
    by_cases hx : x = 0
    · have : nz x = false := by simp [nz, hx]
      rw [this]
      have e : UTable.mergeSlot .full P c x = c := by unfold UTable.mergeSlot; simp [hx]
      rw [e]; exact ih c
    · have : nz x = true := by simp [nz, hx]
      rw [this]
      simp only [List.foldl_cons]
      have e : UTable.mergeSlot .full P c x = UTable.insertHash .full P c x := by
        unfold UTable.mergeSlot UTable.insertHash
        by_cases hg : good c.k x = true
        · simp [hx, hg]
        · simp [hg]
      rw [e]; exact ih _

/-- the zero-item step of Merge is an insertHash of the value 0 -/
theorem zeroStep_eq (P : Params) (c : Tb) (hz : c.zero = false) :
    UTable.shrinkIfNeed .full P { c with zero := true, cnt := c.cnt + 1 } = UTable.insertHash .full P c 0 := by
  unfold UTable.insertHash UTable.insertImpl
  simp [good, hz]

theorem tvals_mem_zero (t : Tb) : (0 : ℕ) ∈ tvals t ↔ t.zero = true := by
  unfold tvals
  cases hz : t.zero <;> simp [zero_not_mem_items t]

theorem ensure_alloc (P : Params) (t : Tb) (h : t.alloc = true) : UTable.ensure P t = t := by
  unfold UTable.ensure; rw [if_pos h]

/-- ChUnique.Merge on the real table: the receiver ends up well-formed, abstracted by a set-model state that represents
    the union of what both sketches have seen -/
theorem tinv_merge (P : Params) (ch rhs : Tb) (s1 s2 : Sk) (U1 U2 W : Finset ℕ) (h1 : TInv P ch s1 U1 W) (h2 : TInv P rhs s2 U2 W) :
    ∃ s, TInv P (UTable.merge .full P ch rhs) s (U1 ∪ U2) W := by
  have ha1 : ch.alloc = true := h1.ref.alloc ▸ h1.good.alloc
  have ha2 : rhs.alloc = true := h2.ref.alloc ▸ h2.good.alloc
  have hk2 : s2.k = rhs.k := h2.ref.k
  have htv2 := tinv_tvals P rhs s2 U2 W h2
  unfold UTable.merge
  simp only [ha2, Bool.not_true, Bool.false_eq_true, if_false, ensure_alloc P ch ha1]
  -- adoption
  have hmin : ∀ j < rhs.k, limit P < (fil j W).card := by rw [← hk2]; exact h2.good.minimal
  obtain ⟨c1, hk⟩ := tinv_adopt P ch s1 U1 W h1 rhs.k hmin
  -- values of rhs that are not divisible by 2^rhs.k were never stored in it: add them to the "seen" set
  let V := U2.filter (fun y => y % 2 ^ rhs.k ≠ 0)
  have hV : V ⊆ W := fun x hx => h2.good.sub (Finset.mem_filter.mp hx).1
  have hbad : ∀ x ∈ V, x % 2 ^ (Unique.adopt P s1 rhs.k).k ≠ 0 := by
    intro x hx hmod
    apply (Finset.mem_filter.mp hx).2
    have hd : 2 ^ rhs.k ∣ 2 ^ (Unique.adopt P s1 rhs.k).k := Nat.pow_dvd_pow 2 hk
    have h2' := Nat.mod_mod_of_dvd x hd
    rw [hmod] at h2'; simpa using h2'.symm
  have c2 := tinv_enlarge P _ _ U1 V W c1 hV hbad
  -- the zero item
  let tc1 := (if ch.k < rhs.k then UTable.rehash P { ch with k := rhs.k } else ch)
  have hzero : ∃ s, TInv P (if (!tc1.zero && rhs.zero) = true then UTable.shrinkIfNeed .full P { tc1 with zero := true, cnt := tc1.cnt + 1 } else tc1)
      s (if rhs.zero = true then insert 0 (U1 ∪ V) else U1 ∪ V) W := by
    by_cases hrz : rhs.zero = true
    · have h0W : (0 : ℕ) ∈ W := by
        have : (0 : ℕ) ∈ tvals rhs := (tvals_mem_zero rhs).mpr hrz
        rw [htv2] at this; exact h2.good.sub ((mem_fil _ _ _).mp this).1
      rw [if_pos hrz]
      by_cases hcz : tc1.zero = true
      · have : (!tc1.zero && rhs.zero) = false := by simp [hcz]
        rw [this]; simp only [Bool.false_eq_true, if_false]
        have h0U : (0 : ℕ) ∈ U1 ∪ V := by
          have : (0 : ℕ) ∈ tvals tc1 := (tvals_mem_zero tc1).mpr hcz
          rw [tinv_tvals P tc1 _ _ W c2] at this; exact ((mem_fil _ _ _).mp this).1
        rw [Finset.insert_eq_of_mem h0U]; exact ⟨_, c2⟩
      · have hcz' : tc1.zero = false := by simpa using hcz
        have : (!tc1.zero && rhs.zero) = true := by simp [hcz', hrz]
        rw [this]; simp only [if_true]
        rw [zeroStep_eq P tc1 hcz']
        exact ⟨_, tinv_step P tc1 _ _ W c2 0 h0W⟩
    · have hrz' : rhs.zero = false := by simpa using hrz
      have : (!tc1.zero && rhs.zero) = false := by simp [hrz']
      rw [this, if_neg hrz]; simp only [Bool.false_eq_true, if_false]
      exact ⟨_, c2⟩
  obtain ⟨s3, c3⟩ := hzero
  -- the loop over rhs.buf
  rw [foldl_mergeSlot]
  have hin : ∀ x ∈ (slots rhs).filter nz, x ∈ W := by
    intro x hx
    have : x ∈ tvals rhs := by unfold tvals; exact Finset.mem_union_left _ (List.mem_toFinset.mpr hx)
    rw [htv2] at this; exact h2.good.sub ((mem_fil _ _ _).mp this).1
  have c4 := tinv_fold P ((slots rhs).filter nz) _ s3 _ W c3 hin
  have e : (if rhs.zero = true then insert 0 (U1 ∪ V) else U1 ∪ V) ∪ ((slots rhs).filter nz).toFinset = U1 ∪ U2 := by
    have hsplit : (if rhs.zero = true then insert 0 (U1 ∪ V) else U1 ∪ V) ∪ ((slots rhs).filter nz).toFinset = (U1 ∪ V) ∪ tvals rhs := by
      unfold tvals items
      ext y; by_cases hrz : rhs.zero = true <;> simp [hrz] <;> tauto
    rw [hsplit, htv2]
    ext y
    simp only [Finset.mem_union, V, Finset.mem_filter, mem_fil]
    by_cases hm : y % 2 ^ rhs.k = 0 <;> simp [hm]
  rw [e] at c4; exact ⟨_, c4⟩


/-! ### MarshallAppend + MergeRead on the real table -/

theorem sdFor_gt (P : Params) (sd ic : Nat) (hlt : 2 ^ sd < ic) (hic : ic ≤ limit P) (hinit : P.initDeg ≤ P.maxDeg) :
    sd + 1 ≤ sdFor .clamp P ic := by
  have hl : ic < 2 ^ (Nat.log2 ic + 1) := Nat.lt_log2_self
  have hsd : sd < Nat.log2 ic + 1 := (Nat.pow_lt_pow_iff_right (by omega : 1 < 2)).mp (by omega)
  have hmax : sd < P.maxDeg - 1 := (Nat.pow_lt_pow_iff_right (by omega : 1 < 2)).mp (by unfold limit at hic; omega)
  have h1 : 1 < ic := by have : 1 ≤ 2 ^ sd := Nat.one_le_two_pow; omega
  simp only [sdFor, h1, if_true]; omega

theorem tinv_limit (P : Params) (t : Tb) (s : Sk) (U W : Finset ℕ) (h : TInv P t s U W) : t.cnt ≤ limit P := by
  have hpow : 2 ^ (s.sd - 1) ≤ 2 ^ (P.maxDeg - 1) := Nat.pow_le_pow_right (by omega) (by have := h.good.sdmax; omega)
  have := h.good.fill; have := h.ref.cnt
  simp only [Unique.maxFill, limit] at *; omega

theorem tinv_resize (P : Params) (hP : PWF P) (t : Tb) (s : Sk) (U W : Finset ℕ) (h : TInv P t s U W) (ic : Nat) (hic : ic ≤ limit P) :
    TInv P (if 2 ^ t.sd < ic then UTable.resize .full P t (sdFor .clamp P ic) else t) (readResize .clamp P s ic) U W := by
  have g := readResize_good P hP s U W ic h.good hic
  unfold readResize at g ⊢
  rw [h.ref.sd] at g ⊢
  by_cases c : 2 ^ t.sd < ic
  · rw [if_pos c] at g ⊢; rw [if_pos c]
    have hgt := sdFor_gt P t.sd ic c hic hP.2
    have hroom := tinv_room P t s U W h
    exact { wf := resize_wf P t h.wf _ hgt (by omega),
            ref := (resize_refines .full P t s (wf_tidy P t h.wf) h.ref _ (by omega)).2,
            good := g,
            sd2 := by show 2 ≤ sdFor .clamp P ic; have := h.sd2; have := h.ref.sd; omega }
  · rw [if_neg c] at g ⊢; rw [if_neg c]; exact { wf := h.wf, ref := h.ref, good := g, sd2 := h.sd2 }

/-- the wire image written by MarshallAppend from a table -/
theorem tmarshal_xs (t : Tb) (ha : t.alloc = true) :
    (UTable.marshal t).k = t.k ∧ (UTable.marshal t).ic = t.cnt ∧
    (UTable.marshal t).xs = (if t.zero then [0] else []) ++ items t ∧ (UTable.marshal t).xs.toFinset = tvals t := by
  have e : (UTable.marshal t).xs = (if t.zero then [0] else []) ++ items t := by
    unfold UTable.marshal items slots nz; rw [if_pos ha]
  refine ⟨by unfold UTable.marshal; rw [if_pos ha], by unfold UTable.marshal; rw [if_pos ha], e, ?_⟩
  rw [e]; unfold tvals
  ext y; cases hz : t.zero <;> simp <;> tauto

/-- MergeRead of a marshalled table into an allocated table -/
theorem tinv_mergeRead (P : Params) (hP : PWF P) (ch rhs : Tb) (s1 s2 : Sk) (U1 U2 W : Finset ℕ)
    (h1 : TInv P ch s1 U1 W) (h2 : TInv P rhs s2 U2 W) :
    ∃ s, TInv P (UTable.mergeRead .full .clamp P ch (UTable.marshal rhs)) s (U1 ∪ U2) W := by
  have ha1 : ch.alloc = true := h1.ref.alloc ▸ h1.good.alloc
  have ha2 : rhs.alloc = true := h2.ref.alloc ▸ h2.good.alloc
  have hk2 : s2.k = rhs.k := h2.ref.k
  have htv2 := tinv_tvals P rhs s2 U2 W h2
  obtain ⟨mk, mic, mxs, mfin⟩ := tmarshal_xs rhs ha2
  unfold UTable.mergeRead
  have hna : ¬ ((!ch.alloc) = true) := by simp [ha1]
  rw [if_neg hna]
  simp only []
  rw [mk, mic]
  have hmin : ∀ j < rhs.k, limit P < (fil j W).card := by rw [← hk2]; exact h2.good.minimal
  obtain ⟨c1, hk⟩ := tinv_adopt P ch s1 U1 W h1 rhs.k hmin
  let V := U2.filter (fun y => y % 2 ^ rhs.k ≠ 0)
  have hV : V ⊆ W := fun x hx => h2.good.sub (Finset.mem_filter.mp hx).1
  have hbad : ∀ x ∈ V, x % 2 ^ (Unique.adopt P s1 rhs.k).k ≠ 0 := by
    intro x hx hmod
    apply (Finset.mem_filter.mp hx).2
    have hd : 2 ^ rhs.k ∣ 2 ^ (Unique.adopt P s1 rhs.k).k := Nat.pow_dvd_pow 2 hk
    have h2' := Nat.mod_mod_of_dvd x hd
    rw [hmod] at h2'; simpa using h2'.symm
  have c2 := tinv_enlarge P _ _ U1 V W c1 hV hbad
  have c3 := tinv_resize P hP _ _ _ W c2 rhs.cnt (tinv_limit P rhs s2 U2 W h2)
  have hin : ∀ x ∈ (UTable.marshal rhs).xs, x ∈ W := by
    intro x hx
    have : x ∈ tvals rhs := by rw [← mfin]; exact List.mem_toFinset.mpr hx
    rw [htv2] at this; exact h2.good.sub ((mem_fil _ _ _).mp this).1
  have c4 := tinv_fold P (UTable.marshal rhs).xs _ _ _ W c3 hin
  have e : U1 ∪ V ∪ (UTable.marshal rhs).xs.toFinset = U1 ∪ U2 := by
    rw [mfin, htv2]
    ext y
    simp only [Finset.mem_union, V, Finset.mem_filter, mem_fil]
    by_cases hm : y % 2 ^ rhs.k = 0 <;> simp [hm]
  rw [e] at c4; exact ⟨_, c4⟩


/-! ### UmMarshall (MergeRead into the zero value `ChUnique{}`) on the real table -/

def setCnt (t : Tb) (c : Nat) : Tb := { t with cnt := c }

theorem probe_absent (t : Tb) (x : Nat) (hab : ∀ i < UTable.size t, UTable.get t i ≠ x) :
    ∀ (f p : Nat), p < UTable.size t → probe t x f p = probe t 0 f p := by
  intro f
  induction f with
  | zero => intro p _; rfl
  | succ f ih =>
    intro p hp
    simp only [probe]
    have := hab p hp
    by_cases h0 : UTable.get t p = 0
    · simp [h0]
    · simp [h0, this]; exact ih _ (next_lt t p)

theorem probe_setCnt (t : Tb) (c x : Nat) : ∀ (f p : Nat), probe (setCnt t c) x f p = probe t x f p := by
  intro f
  induction f with
  | zero => intro p; rfl
  | succ f ih =>
    intro p
    simp only [probe]
    have e1 : UTable.get (setCnt t c) p = UTable.get t p := rfl
    have e2 : next (setCnt t c) p = next t p := rfl
    rw [e1, e2, ih]

/-- reading one value of a well-formed image = insertImpl, except that itemsCount was set in advance -/
theorem readItem_eq (P : Params) (t : Tb) (c x : Nat) (hab : x ≠ 0 → ∀ i < UTable.size t, UTable.get t i ≠ x) :
    readItem P (setCnt t c) x = setCnt (UTable.insertImpl P t x) c := by
  unfold readItem UTable.insertImpl
  by_cases hx : x = 0
  · simp only [hx, if_true]
    by_cases hz : t.zero = true
    · simp [setCnt, hz]
    · simp [setCnt, hz]
  · simp only [hx, if_false]
    unfold reinsertImpl
    have e1 : probe (setCnt t c) 0 (UTable.size (setCnt t c)) (place P (setCnt t c) x) = probe t 0 (UTable.size t) (place P t x) :=
      probe_setCnt t c 0 _ _
    rw [e1, ← probe_absent t x (hab hx) _ _ (place_lt P t x)]
    cases hp : probe t x (UTable.size t) (place P t x) with
    | none => rfl
    | some q =>
      obtain ⟨d, _, hq, _, _⟩ := probe_some t x _ _ q (place_lt P t x) hp
      have hqlt : q < UTable.size t := by rw [hq]; exact Nat.mod_lt _ (size_pos t)
      simp only [hab hx q hqlt, if_false]
      rfl

theorem tvals_insertImpl (P : Params) (t : Tb) (w : WF P t) (x : Nat) (hroom : (items t).length + 1 ≤ UTable.size t) :
    tvals (UTable.insertImpl P t x) = insert x (tvals t) ∧ (UTable.insertImpl P t x).k = t.k ∧
    (UTable.insertImpl P t x).alloc = t.alloc := by
  have hl : (slots t).length = UTable.size t := w.shape
  by_cases hx0 : x = 0
  · subst hx0
    unfold UTable.insertImpl; rw [if_pos rfl]
    by_cases hz : t.zero = true
    · rw [if_pos hz]
      refine ⟨?_, rfl, rfl⟩
      rw [Finset.insert_eq_of_mem ((tvals_mem_zero t).mpr hz)]
    · rw [if_neg hz]
      refine ⟨?_, rfl, rfl⟩
      have hz' : t.zero = false := by simpa using hz
      unfold tvals
      show (items t).toFinset ∪ {0} = _
      rw [hz']; simp [Finset.union_comm]
  · by_cases hst : x ∈ items t
    · obtain ⟨_, i, hi, hget⟩ := (mem_items t x).mp hst
      have e1 : UTable.insertImpl P t x = t := by
        rw [← hget]; exact insertImpl_present P t w i (by rw [← hl]; exact hi) (by rw [hget]; exact hx0)
      rw [e1]
      refine ⟨?_, rfl, rfl⟩
      rw [Finset.insert_eq_of_mem]; unfold tvals; exact Finset.mem_union_left _ (List.mem_toFinset.mpr hst)
    · have hnew : ∀ i < UTable.size t, UTable.get t i ≠ x := by
        intro i hi hc
        exact hst ((mem_items t x).mpr ⟨hx0, i, by rw [hl]; exact hi, hc⟩)
      obtain ⟨j, hj, hj0⟩ := room_of_len t w.shape hroom
      obtain ⟨_, hperm, hdr, _⟩ := insertImpl_new P t w x hx0 hnew j hj hj0
      refine ⟨?_, hdr.2.1, hdr.2.2.2⟩
      unfold tvals
      rw [hdr.2.2.1]
      ext y
      simp only [Finset.mem_union, List.mem_toFinset, Finset.mem_insert, hperm.mem_iff, List.mem_cons]
      tauto

theorem not_stored_of_not_tvals (t : Tb) (hs : Shape t) (x : Nat) (h : x ∉ tvals t) :
    x ≠ 0 → ∀ i < UTable.size t, UTable.get t i ≠ x := by
  intro hx i hi hc
  apply h
  unfold tvals
  have hl : (slots t).length = UTable.size t := hs
  exact Finset.mem_union_left _ (List.mem_toFinset.mpr ((mem_items t x).mpr ⟨hx, i, by rw [hl]; exact hi, hc⟩))

/-- reading a whole image of distinct values -/
theorem foldl_readItem (P : Params) (c : Nat) : ∀ (xs : List Nat) (t : Tb), WF P t → xs.Nodup → (∀ x ∈ xs, x ∉ tvals t) →
    (items t).length + xs.length + 1 ≤ UTable.size t →
    xs.foldl (readItem P) (setCnt t c) = setCnt (xs.foldl (UTable.insertImpl P) t) c ∧
    WF P (xs.foldl (UTable.insertImpl P) t) ∧ tvals (xs.foldl (UTable.insertImpl P) t) = tvals t ∪ xs.toFinset ∧
    (xs.foldl (UTable.insertImpl P) t).sd = t.sd ∧ (xs.foldl (UTable.insertImpl P) t).k = t.k ∧
    (xs.foldl (UTable.insertImpl P) t).alloc = t.alloc := by
  intro xs
  induction xs with
  | nil => intro t w _ _ _; simp; exact w
  | cons x xs ih =>
    intro t w hnd hab hroom
    simp only [List.foldl_cons, List.length_cons] at hroom ⊢
    obtain ⟨w', hlen, hsd⟩ := insertImpl_wf P t w x (by omega)
    obtain ⟨htv, hk, hal⟩ := tvals_insertImpl P t w x (by omega)
    rw [readItem_eq P t c x (not_stored_of_not_tvals t w.shape x (hab x (by simp)))]
    have hnd' := (List.nodup_cons.mp hnd)
    obtain ⟨a, b, c', d, e, f⟩ := ih (UTable.insertImpl P t x) w' hnd'.2
      (by intro y hy; rw [htv, Finset.mem_insert]; rintro (h | h)
          · rw [h] at hy; exact hnd'.1 hy
          · exact hab y (by simp [hy]) h)
      (by rw [size_congr hsd]; omega)
    refine ⟨a, b, ?_, d.trans hsd, e.trans hk, f.trans hal⟩
    rw [c', htv, List.toFinset_cons]
    ext y; simp only [Finset.mem_union, Finset.mem_insert]; tauto

theorem sdFor_ge_init (P : Params) (hP : PWF P) (ic : Nat) : P.initDeg ≤ sdFor .clamp P ic := by
  unfold sdFor; have := hP.2; split <;> simp <;> omega

/-- UmMarshall of the image of a well-formed, represented table gives a well-formed table representing the same set -/
theorem tinv_unmarshal (P : Params) (hP : PWF P) (h2i : 2 ≤ P.initDeg) (rhs : Tb) (s2 : Sk) (U2 W : Finset ℕ) (h2 : TInv P rhs s2 U2 W) :
    ∃ s, TInv P (UTable.unmarshal .clamp P (UTable.marshal rhs)) s U2 W := by
  have ha2 : rhs.alloc = true := h2.ref.alloc ▸ h2.good.alloc
  obtain ⟨mk, mic, mxs, mfin⟩ := tmarshal_xs rhs ha2
  have htv2 := tinv_tvals P rhs s2 U2 W h2
  have hnd2 := wf_nodup P rhs h2.wf
  have hlim := tinv_limit P rhs s2 U2 W h2
  obtain ⟨f1, f2, f3⟩ := sdFor_clamp P hP rhs.cnt hlim
  have hcnt := tidy_cnt rhs (wf_tidy P rhs h2.wf)
  -- the wire list: distinct values, as many as itemsCount
  have hxsnd : (UTable.marshal rhs).xs.Nodup := by
    rw [mxs]
    cases hz : rhs.zero
    · simpa using hnd2
    · simp only [if_true, List.singleton_append]
      exact List.nodup_cons.mpr ⟨zero_not_mem_items rhs, hnd2⟩
  have hxslen : (UTable.marshal rhs).xs.length = rhs.cnt := by
    rw [mxs, h2.wf.cnt]; cases hz : rhs.zero <;> simp <;> omega
  let T0 : Tb := { alloc := true, buf := Array.replicate (2 ^ sdFor .clamp P rhs.cnt) 0, cnt := 0,
                   sd := sdFor .clamp P rhs.cnt, k := rhs.k, zero := false }
  have hget0 : ∀ i, UTable.get T0 i = 0 := by intro i; unfold UTable.get; simp [T0, Array.getD]
  have hitems0 : items T0 = [] := by unfold items slots nz; simp [T0]
  have htv0 : tvals T0 = ∅ := by unfold tvals; rw [hitems0]; simp [T0]
  have w0 : WF P T0 :=
    { shape := by unfold Shape slots UTable.size; simp [T0],
      inj := by intro i j _ _ h; exact absurd (hget0 i) h,
      reach := by intro i _ h; exact absurd (hget0 i) h,
      cnt := by unfold CntOk; rw [hitems0]; simp [T0] }
  have hpow : 2 ^ (sdFor .clamp P rhs.cnt - 1) + 1 ≤ 2 ^ sdFor .clamp P rhs.cnt := by
    have e : sdFor .clamp P rhs.cnt = (sdFor .clamp P rhs.cnt - 1) + 1 := by omega
    have : 1 ≤ 2 ^ (sdFor .clamp P rhs.cnt - 1) := Nat.one_le_two_pow
    rw [e, Nat.pow_succ]; simp; omega
  obtain ⟨e1, wf, tvf, sdf, kf, af⟩ := foldl_readItem P rhs.cnt (UTable.marshal rhs).xs T0 w0 hxsnd
    (by intro x _; rw [htv0]; simp) (by rw [hitems0, hxslen]; show 0 + rhs.cnt + 1 ≤ 2 ^ sdFor .clamp P rhs.cnt; omega)
  have hU : UTable.unmarshal .clamp P (UTable.marshal rhs) = setCnt ((UTable.marshal rhs).xs.foldl (UTable.insertImpl P) T0) rhs.cnt := by
    unfold UTable.unmarshal; rw [mk, mic]; exact e1
  rw [htv0, Finset.empty_union, mfin] at tvf
  -- itemsCount of the rebuilt table is the number of its values
  have hcf : ((UTable.marshal rhs).xs.foldl (UTable.insertImpl P) T0).cnt = rhs.cnt := by
    rw [tidy_cnt _ (wf_tidy P _ wf), tvf, ← hcnt]
  have hU' : UTable.unmarshal .clamp P (UTable.marshal rhs) = (UTable.marshal rhs).xs.foldl (UTable.insertImpl P) T0 := by
    rw [hU]; unfold setCnt; rw [← hcf]
  rw [hU']
  have hbW : ∀ x ∈ (UTable.marshal rhs).xs, x < 2 ^ P.bits := by
    intro x hx
    have : x ∈ tvals rhs := by rw [← mfin]; exact List.mem_toFinset.mpr hx
    exact h2.ref.bound x this
  refine ⟨{ alloc := true, k := rhs.k, sd := sdFor .clamp P rhs.cnt, cnt := rhs.cnt,
            items := (UTable.marshal rhs).xs.foldl (fun t x => t.insert P.bits x) .nil }, ?_⟩
  have hkeys : keys P.bits ((UTable.marshal rhs).xs.foldl (fun t x => t.insert P.bits x) .nil) = tvals rhs := by
    rw [keys_foldl_insert _ _ _ hbW, keys_nil, Finset.empty_union, mfin]
  exact { wf := wf,
          ref := { alloc := af.symm, k := kf.symm, sd := sdf.symm, cnt := hcf.symm, vals := by rw [tvf]; exact hkeys,
                   bound := by rw [tvf]; exact h2.ref.bound },
          good := { alloc := rfl, cnt := by show rhs.cnt = _; unfold abs; rw [hkeys]; exact hcnt,
                    items := by unfold abs; show keys P.bits _ = fil rhs.k U2; rw [hkeys, htv2],
                    sub := h2.good.sub, bound := h2.good.bound,
                    minimal := by show ∀ j < rhs.k, _; rw [← h2.ref.k]; exact h2.good.minimal,
                    sd1 := f1, sdmax := f2, fill := by show rhs.cnt ≤ 2 ^ (sdFor .clamp P rhs.cnt - 1); exact f3 },
          sd2 := Nat.le_trans h2i (sdFor_ge_init P hP rhs.cnt) }


/-! ### programs on the real table -/

/-- the program of Part 3, executed on the concrete open-addressing table -/
def trun (P : Params) : Prog → Tb
  | .empty => nilTb
  | .ins p x => UTable.insertHash .full P (UTable.ensure P (trun P p)) x
  | .merge a b => UTable.merge .full P (trun P a) (trun P b)
  | .mread a b => UTable.mergeRead .full .clamp P (trun P a) (UTable.marshal (trun P b))

/-- the table is the zero value `ChUnique{}` (nothing seen), or well-formed and abstracted by a set-model state that
    represents `U` canonically -/
def TRep (P : Params) (t : Tb) (U W : Finset ℕ) : Prop :=
  (t = nilTb ∧ U = ∅ ∧ ∀ x ∈ W, x < 2 ^ P.bits) ∨ ∃ s, TInv P t s U W

theorem trep_mono (P : Params) (t : Tb) (U W W' : Finset ℕ) (h : TRep P t U W) (hs : W ⊆ W') (hb : ∀ x ∈ W', x < 2 ^ P.bits) :
    TRep P t U W' := by
  rcases h with ⟨a, b, _⟩ | ⟨s, h⟩
  · exact Or.inl ⟨a, b, hb⟩
  · exact Or.inr ⟨s, tinv_mono P t s U W W' h hs hb⟩

theorem trep_bound (P : Params) (t : Tb) (U W : Finset ℕ) (h : TRep P t U W) : ∀ x ∈ W, x < 2 ^ P.bits := by
  rcases h with ⟨_, _, c⟩ | ⟨s, h⟩
  · exact c
  · exact h.good.bound

theorem trep_ensure (P : Params) (hP : PWF P) (h2 : 2 ≤ P.initDeg) (t : Tb) (U W : Finset ℕ) (h : TRep P t U W) :
    ∃ s, TInv P (UTable.ensure P t) s U W := by
  rcases h with ⟨a, b, c⟩ | ⟨s, h⟩
  · subst a; subst b
    exact ⟨_, tinv_reset P hP h2 W c⟩
  · have ha : t.alloc = true := h.ref.alloc ▸ h.good.alloc
    rw [ensure_alloc P t ha]; exact ⟨s, h⟩

theorem merge_ensure (P : Params) (ch rhs : Tb) (ha : rhs.alloc = true) :
    UTable.merge .full P ch rhs = UTable.merge .full P (UTable.ensure P ch) rhs := by
  have e : UTable.ensure P (UTable.ensure P ch) = UTable.ensure P ch := by
    unfold UTable.ensure; split
    · rename_i h; simp [h]
    · simp [UTable.reset]
  unfold UTable.merge
  have hna : ¬ ((!rhs.alloc) = true) := by simp [ha]
  rw [if_neg hna, if_neg hna]
  simp only [e]

theorem trep_merge (P : Params) (hP : PWF P) (h2 : 2 ≤ P.initDeg) (ch rhs : Tb) (U1 U2 W : Finset ℕ)
    (h1 : TRep P ch U1 W) (hr : TRep P rhs U2 W) : TRep P (UTable.merge .full P ch rhs) (U1 ∪ U2) W := by
  rcases hr with ⟨a, b, _⟩ | ⟨s2, hr⟩
  · subst a; subst b
    have : UTable.merge .full P ch nilTb = ch := by unfold UTable.merge; simp [nilTb]
    rw [this, Finset.union_empty]; exact h1
  · have ha : rhs.alloc = true := hr.ref.alloc ▸ hr.good.alloc
    obtain ⟨s1, h1'⟩ := trep_ensure P hP h2 ch U1 W h1
    rw [merge_ensure P ch rhs ha]
    exact Or.inr (tinv_merge P _ rhs s1 s2 U1 U2 W h1' hr)

theorem trep_mread (P : Params) (hP : PWF P) (h2 : 2 ≤ P.initDeg) (ch rhs : Tb) (U1 U2 W : Finset ℕ)
    (h1 : TRep P ch U1 W) (hr : TRep P rhs U2 W) :
    TRep P (UTable.mergeRead .full .clamp P ch (UTable.marshal rhs)) (U1 ∪ U2) W := by
  rcases hr with ⟨a, b, cW⟩ | ⟨s2, hr⟩
  · subst a; subst b
    rw [Finset.union_empty]
    rcases h1 with ⟨a1, b1, _⟩ | ⟨s1, h1⟩
    · subst a1; subst b1
      have : UTable.mergeRead .full .clamp P nilTb (UTable.marshal nilTb) = UTable.reset P := by
        simp [UTable.mergeRead, UTable.marshal, nilTb, UTable.unmarshal, sdFor, UTable.reset]
      rw [this]; exact Or.inr ⟨_, tinv_reset P hP h2 W cW⟩
    · have ha : ch.alloc = true := h1.ref.alloc ▸ h1.good.alloc
      have : UTable.mergeRead .full .clamp P ch (UTable.marshal nilTb) = ch := by
        simp [UTable.mergeRead, UTable.marshal, nilTb, ha]
      rw [this]; exact Or.inr ⟨s1, h1⟩
  · rcases h1 with ⟨a1, b1, _⟩ | ⟨s1, h1⟩
    · subst a1; subst b1
      rw [Finset.empty_union]
      have : UTable.mergeRead .full .clamp P nilTb (UTable.marshal rhs) = UTable.unmarshal .clamp P (UTable.marshal rhs) := by
        simp [UTable.mergeRead, nilTb]
      rw [this]; exact Or.inr (tinv_unmarshal P hP h2 rhs s2 U2 W hr)
    · exact Or.inr (tinv_mergeRead P hP ch rhs s1 s2 U1 U2 W h1 hr)

/-- `table_refines`, every program: whatever the order and grouping of inserts, Merge calls and MarshallAppend + MergeRead
    round trips, the concrete open-addressing table is the zero value or well-formed, and it is abstracted by a set-model
    state that represents exactly the set of inserted hashes -/
theorem table_refines_programs (P : Params) (hP : PWF P) (h2 : 2 ≤ P.initDeg) (p : Prog) (hb : ∀ x ∈ hashes p, x < 2 ^ P.bits) :
    TRep P (trun P p) (hashes p) (hashes p) := by
  induction p with
  | empty => exact Or.inl ⟨rfl, rfl, hb⟩
  | ins p x ih =>
    simp only [hashes, trun] at hb ⊢
    have ih' := ih (fun y hy => hb y (Finset.mem_insert_of_mem hy))
    have r := trep_mono P _ _ _ (insert x (hashes p)) ih' (Finset.subset_insert _ _) hb
    obtain ⟨s, hs⟩ := trep_ensure P hP h2 _ _ _ r
    exact Or.inr ⟨_, tinv_step P _ s _ _ hs x (Finset.mem_insert_self _ _)⟩
  | merge a b iha ihb =>
    simp only [hashes, trun] at hb ⊢
    have ra := trep_mono P _ _ _ (hashes a ∪ hashes b) (iha (fun y hy => hb y (Finset.mem_union_left _ hy))) Finset.subset_union_left hb
    have rb := trep_mono P _ _ _ (hashes a ∪ hashes b) (ihb (fun y hy => hb y (Finset.mem_union_right _ hy))) Finset.subset_union_right hb
    exact trep_merge P hP h2 _ _ _ _ _ ra rb
  | mread a b iha ihb =>
    simp only [hashes, trun] at hb ⊢
    have ra := trep_mono P _ _ _ (hashes a ∪ hashes b) (iha (fun y hy => hb y (Finset.mem_union_left _ hy))) Finset.subset_union_left hb
    have rb := trep_mono P _ _ _ (hashes a ∪ hashes b) (ihb (fun y hy => hb y (Finset.mem_union_right _ hy))) Finset.subset_union_right hb
    exact trep_mread P hP h2 _ _ _ _ _ ra rb

/-- from the table-level invariant to the set-level one of Part 3 -/
theorem trep_rep (P : Params) (t : Tb) (U : Finset ℕ) (h : TRep P t U U) :
    ∃ s, Rep P s U U ∧ s.k = t.k ∧ s.cnt = t.cnt ∧ tvals t = fil t.k U := by
  rcases h with ⟨a, b, c⟩ | ⟨s, h⟩
  · subst a; subst b
    refine ⟨nilSk, Or.inr ⟨rfl, rfl, c⟩, rfl, rfl, ?_⟩
    unfold tvals items slots; simp [nilTb, fil]
  · exact ⟨s, Or.inl h.good, h.ref.k, h.ref.cnt, tinv_tvals P t s U U h⟩

/-- C04 for the real data structure: after ANY program (inserts, Merge, MarshallAppend+MergeRead, any order and grouping)
    the open-addressing table is well-formed (or still the zero value), holds exactly the inserted hashes divisible by
    2^skipDegree, skipDegree is the least degree at which they fit, itemsCount is their number — and these agree with the
    set model of Part 3 (`canonical_sketch`). -/
theorem table_canonical (P : Params) (hP : PWF P) (h2 : 2 ≤ P.initDeg) (p : Prog) (hb : ∀ x ∈ hashes p, x < 2 ^ P.bits) :
    (trun P p = nilTb ∨ WF P (trun P p)) ∧
    tvals (trun P p) = fil (trun P p).k (hashes p) ∧
    (fil (trun P p).k (hashes p)).card ≤ limit P ∧
    (∀ j < (trun P p).k, limit P < (fil j (hashes p)).card) ∧
    (trun P p).cnt = (fil (trun P p).k (hashes p)).card ∧
    (trun P p).k = (run P p).k ∧ (trun P p).cnt = (run P p).cnt := by
  have h := table_refines_programs P hP h2 p hb
  obtain ⟨s, rs, ek, ec, etv⟩ := trep_rep P _ _ h
  have hrun := canonical_sketch P hP p hb
  obtain ⟨uk, uc⟩ := rep_unique P s (run P p) _ rs hrun
  have hwf : trun P p = nilTb ∨ WF P (trun P p) := by
    rcases h with ⟨a, _, _⟩ | ⟨s', h'⟩
    · exact Or.inl a
    · exact Or.inr h'.wf
  have hcan : (fil s.k (hashes p)).card ≤ limit P ∧ (∀ j < s.k, limit P < (fil j (hashes p)).card) ∧ s.cnt = (fil s.k (hashes p)).card := by
    rcases rs with g | ⟨a, b, _⟩
    · exact good_canonical P s _ g
    · subst a; rw [b]; simp [nilSk, fil]
  rw [ek, ec] at hcan
  exact ⟨hwf, etv, hcan.1, hcan.2.1, hcan.2.2, by rw [← ek, uk], by rw [← ec, uc]⟩

/-- C04 at TABLE level: "Merging the same multiset of contributions in any order and any grouping yields the same …
    unique-value estimate": two programs that insert the same set of hashes end with tables that hold the same values,
    the same skipDegree and the same itemsCount (hence the same Size()), whatever their slot layouts. -/
theorem table_order_independent (P : Params) (hP : PWF P) (h2 : 2 ≤ P.initDeg) (p q : Prog) (h : hashes p = hashes q)
    (hb : ∀ x ∈ hashes p, x < 2 ^ P.bits) :
    (trun P p).k = (trun P q).k ∧ (trun P p).cnt = (trun P q).cnt ∧ tvals (trun P p) = tvals (trun P q) := by
  obtain ⟨_, tv1, _, _, _, k1, c1⟩ := table_canonical P hP h2 p hb
  obtain ⟨_, tv2, _, _, _, k2, c2⟩ := table_canonical P hP h2 q (by rw [← h]; exact hb)
  obtain ⟨ek, ec, _⟩ := estimate_order_independent P hP p q h hb
  have hk : (trun P p).k = (trun P q).k := by rw [k1, k2, ek]
  exact ⟨hk, by rw [c1, c2, ec], by rw [tv1, tv2, hk, h]⟩

/-- non-vacuity: two programs over the same hashes with Merge and MergeRead on the toy table (4 → 8 → 16 slots, limit 8);
    same skipDegree / itemsCount, both tables well-formed -/
def tp1 : Prog := .merge (.ins (.ins (.ins (.ins (.ins .empty 28) 12) 4) 33) 7) (.ins (.ins (.ins (.ins .empty 52) 9) 61) 17)
def tp2 : Prog := .ins (.mread (.ins (.ins (.ins .empty 17) 61) 9) (.merge (.ins (.ins .empty 52) 7) (.ins (.ins (.ins .empty 33) 4) 12))) 28
set_option maxRecDepth 40000 in
example : hashes tp1 = hashes tp2 ∧ (∀ x ∈ hashes tp1, x < 2 ^ toyT.bits) ∧
    (trun toyT tp1).k = 1 ∧ (trun toyT tp1).cnt = 4 ∧ (trun toyT tp2).k = 1 ∧ (trun toyT tp2).cnt = 4 ∧
    wfb toyT (trun toyT tp1) = true ∧ wfb toyT (trun toyT tp2) = true := by
  refine ⟨by decide, by decide, by decide, by decide, by decide, by decide, by decide, by decide⟩


open SH.Agg

/-! ## Part 8 — the agent-side apply glue and API rows with unselected columns -/

theorem addOnlyValue_set (t : Value) (v c : Int) (h : Host) : (addOnlyValue t v c h).set = true ∧ (addOnlyValue t v c h).cnt = t.cnt := by
  simp [addOnlyValue, setMin, setMax]; split <;> split <;> rfl

/-- invariant of the temporary item while values are added: counter untouched, sums are zero as long as nothing was added -/
def TmpOk (c : Int) (t : Value) : Prop := t.cnt = c ∧ (t.set = false → t.sum = 0 ∧ t.sumsq = 0)

theorem tmpOk_add (c : Int) (t : Value) (v cc : Int) (h : Host) (ht : TmpOk c t) : TmpOk c (addOnlyValue t v cc h) := by
  obtain ⟨a, b⟩ := addOnlyValue_set t v cc h
  exact ⟨b.trans ht.1, fun hs => by rw [a] at hs; cases hs⟩

theorem tmpOk_fold1 (c : Int) (h : Host) : ∀ (vs : List Int) (t : Value), TmpOk c t → TmpOk c (vs.foldl (fun t v => addOnlyValue t v 4 h) t) := by
  intro vs; induction vs with
  | nil => intro t ht; exact ht
  | cons v vs ih => intro t ht; exact ih _ (tmpOk_add c t v 4 h ht)

theorem tmpOk_fold2 (c : Int) (h : Host) : ∀ (hs : List (Int × Int)) (t : Value), TmpOk c t →
    TmpOk c (hs.foldl (fun t kv => addOnlyValue t kv.1 kv.2 h) t) := by
  intro hs; induction hs with
  | nil => intro t ht; exact ht
  | cons kv hs ih => intro t ht; exact ih _ (tmpOk_add c t kv.1 kv.2 h ht)

theorem scale_wf (c total : Int) (t2 : Value) (h2 : TmpOk c t2) (hc : 0 ≤ c) :
    Wf (if c ≠ total then { t2 with sum := t2.sum * c / total, sumsq := t2.sumsq * c / total } else t2) := by
  split
  · refine ⟨by show t2.cnt ≥ 0; rw [h2.1]; exact hc, ?_⟩
    intro hs
    have := h2.2 hs
    show t2.sum * c / total = 0 ∧ t2.sumsq * c / total = 0
    rw [this.1, this.2]; simp
  · exact ⟨by rw [h2.1]; exact hc, h2.2⟩

/-- the item ApplyValues / ApplyValuesLegacy merge is a contribution in the sense of Part 1 -/
theorem valuesItem_wf (values : List Int) (hist : List (Int × Int)) (c total : Int) (h : Host) (hc : 0 ≤ c) :
    Wf (valuesItem values hist c total h) := by
  have h0 : TmpOk c (simpleCounter c h) := ⟨by simp [simpleCounter, zero], fun _ => by simp [simpleCounter, zero]⟩
  have h2 := tmpOk_fold2 c h hist _ (tmpOk_fold1 c h values _ h0)
  exact scale_wf c total _ h2 hc

/-- ApplyValues / ApplyValuesLegacy = ItemValue.Merge with ONE contribution (`valuesItem`), whatever the accumulator holds:
    together with `add_eq_merge` and `applyUnique_eq` every stream of agent-side events is a merge tree of singleton
    contributions, so Part 1 (`value_order_independent`, hosts) covers every order, incl. a counter before the first value -/
theorem applyValues_eq (d : Nat) (s : Multi) (values : List Int) (hist : List (Int × Int)) (c total : Int) (h : Host) (ht : 0 < total) :
    (applyValues d s values hist c total h).v = merge d s.v (valuesItem values hist c total h) ∧
    (applyValues d s values hist c total h).u = s.u := by
  unfold applyValues; rw [if_neg (by omega)]; exact ⟨rfl, rfl⟩

/-- a counter-only contribution followed by a value event, and the other order: same count (6 events), as Part 1 demands -/
example : (applyValues 0 { Multi.zero with v := addCounterHost 0 zero 20 1 } [3] [] 4 4 2).v.cnt = 24 ∧
    (addCounterHost 0 (applyValues 0 Multi.zero [3] [] 4 4 2).v 20 1).cnt = 24 := by decide

/-- the seeded change C04-r3-1 (assign the temporary when the accumulator has no values yet) as a model variant:
    the counter-only contribution is discarded, the count depends on the order (1 instead of 6 events) -/
def applyValuesAssign (d : Nat) (s : Multi) (values : List Int) (hist : List (Int × Int)) (c total : Int) (h : Host) : Multi :=
  if total ≤ 0 then s
  else if s.v.set then { s with v := merge d s.v (valuesItem values hist c total h) }
  else { s with v := valuesItem values hist c total h }

example : (applyValuesAssign 0 { Multi.zero with v := addCounterHost 0 zero 20 1 } [3] [] 4 4 2).v.cnt = 4 ∧
    (addCounterHost 0 (applyValuesAssign 0 Multi.zero [3] [] 4 4 2).v 20 1).cnt = 24 := by decide

/-! ### API rows when the query selects only some columns (the others are zero in every row) -/

def TsTree.map (f : Ts → Ts) : TsTree → TsTree
  | .leaf r => .leaf (f r)
  | .node l r => .node (TsTree.map f l) (TsTree.map f r)

theorem tsLeaves_map (f : Ts → Ts) (t : TsTree) : tsLeaves (t.map f) = (tsLeaves t).map f := by
  induction t with
  | leaf r => rfl
  | node l r ihl ihr => simp [TsTree.map, tsLeaves, ihl, ihr]

/-- a column selection: any function that zeroes the unselected columns of a row -/
def selectCols (min max sum count sumsq card hosts : Bool) (r : Ts) : Ts :=
  { r with min := if min then r.min else 0, max := if max then r.max else 0, sum := if sum then r.sum else 0,
           count := if count then r.count else 0, sumsq := if sumsq then r.sumsq else 0, card := if card then r.card else 0,
           minHost := if hosts then r.minHost else ⟨0, 0⟩, maxHost := if hosts then r.maxHost else ⟨0, 0⟩ }

/-- C04, API rows, EVERY subset of selected columns: two merge trees over the same multiset of rows agree on all numeric
    columns and host values, also when the rows carry zeros in the unselected columns (in particular when `count` is not
    selected and is 0 in every row) -/
theorem ts_selected_order_independent (mv : Unique.MergeV) (P : Unique.Params) (f : Ts → Ts) (t u : TsTree)
    (hp : (tsLeaves t).Perm (tsLeaves u)) :
    (tsEval mv P (t.map f)).sum = (tsEval mv P (u.map f)).sum ∧ (tsEval mv P (t.map f)).count = (tsEval mv P (u.map f)).count ∧
    (tsEval mv P (t.map f)).sumsq = (tsEval mv P (u.map f)).sumsq ∧ (tsEval mv P (t.map f)).card = (tsEval mv P (u.map f)).card ∧
    (tsEval mv P (t.map f)).min = (tsEval mv P (u.map f)).min ∧ (tsEval mv P (t.map f)).max = (tsEval mv P (u.map f)).max ∧
    (tsEval mv P (t.map f)).minHost.val = (tsEval mv P (u.map f)).minHost.val ∧
    (tsEval mv P (t.map f)).maxHost.val = (tsEval mv P (u.map f)).maxHost.val :=
  ts_order_independent mv P _ _ (by rw [tsLeaves_map, tsLeaves_map]; exact hp.map f)

/-- with `count` unselected the merged min/max are still the least/greatest over the rows -/
theorem ts_min_without_count (mv : Unique.MergeV) (P : Unique.Params) (t : TsTree) :
    Extremal (· ≤ ·) (·.min) (tsLeaves (t.map (selectCols true true false false false false false)))
      (tsEval mv P (t.map (selectCols true true false false false false false))).min := ts_min mv P _

/-- the seeded change C04-r3-2 (min/max merged only when rhs.count ≠ 0) as a model variant -/
def tsMergeGuard (mv : Unique.MergeV) (P : Unique.Params) (v r : Ts) : Ts :=
  { tsMerge mv P v r with
    min := if r.count ≠ 0 then (if v.count = 0 ∨ r.min < v.min then r.min else v.min) else v.min,
    max := if r.count ≠ 0 then (if v.count = 0 ∨ v.max < r.max then r.max else v.max) else v.max }

def rowMin (m : Int) : Ts :=
  { min := m, max := m, sum := 0, count := 0, sumsq := 0, card := 0, mergeCount := 0, minHost := ⟨0, 0⟩, maxHost := ⟨0, 0⟩,
    minHostStr := ⟨0, 0⟩, maxHostStr := ⟨0, 0⟩, u := Unique.nilSk }

/-- … for a query that selects min/max but not count (count = 0 in every row) the guarded merge depends on the order; the code's
    merge does not -/
example : (tsMergeGuard .chGood Unique.real (rowMin 5) (rowMin 2)).min = 5 ∧ (tsMergeGuard .chGood Unique.real (rowMin 2) (rowMin 5)).min = 2 ∧
    (tsMerge .chGood Unique.real (rowMin 5) (rowMin 2)).min = 2 ∧ (tsMerge .chGood Unique.real (rowMin 2) (rowMin 5)).min = 2 := by decide


open SH.Unique SH.UTable

/-! ## Part 9 — the second pass of rehash is necessary whatever the last slot holds (seeded change C04-r6-1) -/

/-- [14, 0, 0, 13]: 13 and 14 both have home slot 3; 14 wrapped to slot 0; well-formed -/
example : (tabOf .full [13, 14]).buf = #[14, 0, 0, 13] ∧ WF toyT (tabOf .full [13, 14]) :=
  ⟨by decide, (wfb_decides_WF toyT _ (by decide)).mp (by decide)⟩

/-- thinning to skipDegree 1 drops the odd value 13 (the blocker in the last slot). The real rehash then moves 14 into its
    home slot (`table_rehash_restores_WF`): [0, 0, 0, 14], well-formed -/
example : (UTable.rehash toyT { tabOf .full [13, 14] with k := 1 }).buf = #[0, 0, 0, 14] ∧
    WF toyT (UTable.rehash toyT { tabOf .full [13, 14] with k := 1 }) :=
  ⟨by decide, (wfb_decides_WF toyT _ (by decide)).mp (by decide)⟩

/-- with the second pass guarded by "last slot occupied" the last slot is free exactly because the blocker was thinned away:
    14 stays in slot 0 behind its empty home slot — not well-formed, the probe misses it, and merging 14 again stores it twice -/
example : (rehashLastSlotGuard toyT { tabOf .full [13, 14] with k := 1 }).buf = #[14, 0, 0, 0] ∧
    ¬ WF toyT (rehashLastSlotGuard toyT { tabOf .full [13, 14] with k := 1 }) ∧
    (UTable.insertImpl toyT (rehashLastSlotGuard toyT { tabOf .full [13, 14] with k := 1 }) 14).cnt = 2 ∧
    (UTable.insertImpl toyT (UTable.rehash toyT { tabOf .full [13, 14] with k := 1 }) 14).cnt = 1 :=
  ⟨by decide, fun w => absurd ((wfb_decides_WF toyT _ (by decide)).mpr w) (by decide), by decide, by decide⟩


end SH.C04
