import SH.Model.Agg
import SH.Gen.C04
namespace SH.C04
open SH.Agg SH.Unique
theorem gen_params_match : SH.Gen.C04.maxSizeDegree = real.maxDeg ∧ SH.Gen.C04.initSizeDegree = real.initDeg ∧ SH.Gen.C04.maxSize = limit real := by decide
end SH.C04
