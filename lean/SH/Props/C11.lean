/-
  C11 — Tag values are normalized and raw tag values parsed exactly.

  "Forcing any byte string into a tag value yields a valid value (UTF-8, at most 128 bytes, trimmed, single ASCII
   spaces, printable) that equals the input when the input was already valid, and forcing is idempotent; strict
   normalization fails only on invalid UTF-8 and otherwise agrees with forcing. Raw tags accept exactly the decimal
   integers in [-2^31, 2^32-1] (64-bit raw tags: [-2^63, 2^64-1]) and store their bit pattern so that it decodes
   back to the same number."

  Models: SH.Model.Norm, SH.Model.RawTag (tied to /repo by the C11 correspondence); unicode tables: SH.Gen.C11
  (regenerated from the Go toolchain on every run).
-/
import SH.Model.Norm
import SH.Model.RawTag
import SH.Gen.C11
import SH.Lemmas.NormC11
import SH.Lemmas.NormInPlaceC11
import SH.Lemmas.NormLenC11
import SH.Lemmas.NormSpecC11

namespace SH.C11

/-! ## Raw tags -/
section Raw
open SH.RawTag

/-- value of a digit string -/
def natVal (d : List UInt8) (acc : Nat) : Nat := d.foldl (fun a c => a * 10 + (c.toNat - 0x30)) acc

def AllDigits (d : List UInt8) : Prop := ∀ c ∈ d, isDigit c = true

theorem digitsVal_iff (d : List UInt8) : ∀ (acc n : Nat), digitsVal d acc = some n ↔ AllDigits d ∧ n = natVal d acc := by
  induction d with
  | nil =>
    intro acc n
    simp only [digitsVal, AllDigits, natVal, List.foldl_nil, Option.some.injEq, List.not_mem_nil, false_imp_iff,
      implies_true, true_and]
    exact eq_comm
  | cons c rest ih =>
    intro acc n
    simp only [digitsVal]
    by_cases hc : isDigit c = true
    · simp only [hc, ↓reduceIte, ih]
      simp [AllDigits, hc, natVal]
    · simp only [hc, Bool.false_eq_true, ↓reduceIte]
      constructor
      · intro h; cases h
      · intro h; exact absurd (h.1 c (by simp)) hc

/-- "decimal integer": one or more ASCII digits with an optional sign; the number it denotes -/
inductive Decimal : List UInt8 → Int → Prop
  | pos (d : List UInt8) : d ≠ [] → AllDigits d → Decimal d (natVal d 0)
  | plus (d : List UInt8) : d ≠ [] → AllDigits d → Decimal (plus :: d) (natVal d 0)
  | neg (d : List UInt8) : d ≠ [] → AllDigits d → Decimal (minus :: d) (-(natVal d 0 : Int))

theorem magnitude_iff (s : List UInt8) (n : Nat) : magnitude s = some n ↔ s ≠ [] ∧ AllDigits s ∧ n = natVal s 0 := by
  unfold magnitude
  cases s with
  | nil => simp
  | cons c rest => simp [digitsVal_iff]

theorem not_digit_plus : isDigit plus = false := by decide
theorem not_digit_minus : isDigit minus = false := by decide

/-- strconv.ParseInt(s, 10, 64) accepts exactly the decimal integers of the int64 range -/
theorem parseInt64_iff (s : List UInt8) (v : Int) :
    parseInt64 s = some v ↔ Decimal s v ∧ -(2 ^ 63 : Int) ≤ v ∧ v < (2 ^ 63 : Int) := by
  cases s with
  | nil =>
    simp only [parseInt64]
    constructor
    · intro h; cases h
    · rintro ⟨h, _⟩; cases h with
      | pos d hd _ => exact absurd rfl hd
  | cons c rest =>
    simp only [parseInt64]
    by_cases hp : c = plus
    · subst hp
      simp only [↓reduceIte]
      constructor
      · intro h
        cases hm : magnitude rest with
        | none => simp [hm] at h
        | some n =>
          simp only [hm] at h
          obtain ⟨h1, h2, h3⟩ := (magnitude_iff rest n).1 hm
          split at h
          · cases h
            subst h3
            exact ⟨Decimal.plus rest h1 h2, by omega, by omega⟩
          · cases h
      · rintro ⟨hd, hlo, hhi⟩
        cases hd with
        | pos d hd had => exact absurd (had plus (by simp)) (by simp [not_digit_plus])
        | plus d hd had =>
          have := (magnitude_iff rest (natVal rest 0)).2 ⟨hd, had, rfl⟩
          simp only [this]
          have : natVal rest 0 < 2 ^ 63 := by omega
          simp [this]
    · by_cases hm' : c = minus
      · subst hm'
        have hne : minus ≠ plus := by decide
        simp only [hne, ↓reduceIte]
        constructor
        · intro h
          cases hm : magnitude rest with
          | none => simp [hm] at h
          | some n =>
            simp only [hm] at h
            obtain ⟨h1, h2, h3⟩ := (magnitude_iff rest n).1 hm
            split at h
            · cases h
              subst h3
              exact ⟨Decimal.neg rest h1 h2, by omega, by omega⟩
            · cases h
        · rintro ⟨hd, hlo, hhi⟩
          cases hd with
          | pos d hd had => exact absurd (had minus (by simp)) (by simp [not_digit_minus])
          | neg d hd had =>
            have := (magnitude_iff rest (natVal rest 0)).2 ⟨hd, had, rfl⟩
            simp only [this]
            have : natVal rest 0 ≤ 2 ^ 63 := by omega
            simp [this]
      · simp only [hp, hm', ↓reduceIte]
        constructor
        · intro h
          cases hm : magnitude (c :: rest) with
          | none => simp [hm] at h
          | some n =>
            simp only [hm] at h
            obtain ⟨h1, h2, h3⟩ := (magnitude_iff _ n).1 hm
            split at h
            · cases h
              subst h3
              exact ⟨Decimal.pos _ h1 h2, by omega, by omega⟩
            · cases h
        · rintro ⟨hd, hlo, hhi⟩
          cases hd with
          | pos d hd had =>
            have := (magnitude_iff (c :: rest) (natVal (c :: rest) 0)).2 ⟨hd, had, rfl⟩
            simp only [this]
            have : natVal (c :: rest) 0 < 2 ^ 63 := by omega
            simp [this]
          | plus d _ _ => exact absurd rfl hp
          | neg d _ _ => exact absurd rfl hm'

/-- strconv.ParseUint(s, 10, 64) accepts exactly the unsigned digit strings (no sign at all) below 2^64 -/
theorem parseUint64_iff (s : List UInt8) (n : Nat) :
    parseUint64 s = some n ↔ s ≠ [] ∧ AllDigits s ∧ n = natVal s 0 ∧ n < 2 ^ 64 := by
  unfold parseUint64
  cases s with
  | nil => simp
  | cons c rest =>
    simp only [List.isEmpty_cons, Bool.false_eq_true, ↓reduceIte, ne_eq, reduceCtorEq, not_false_eq_true, true_and]
    cases hd : digitsVal (c :: rest) 0 with
    | none =>
      constructor
      · intro h; cases h
      · rintro ⟨h1, h2, _⟩
        have := (digitsVal_iff (c :: rest) 0 _).2 ⟨h1, rfl⟩
        rw [hd] at this; cases this
    | some m =>
      obtain ⟨h1, h2⟩ := (digitsVal_iff _ _ _).1 hd
      simp only
      constructor
      · intro h
        split at h
        · cases h; exact ⟨h1, h2, by omega⟩
        · cases h
      · rintro ⟨_, h3, h4⟩
        have : m = n := by omega
        subst this
        simp [h4]

/-- "Raw tags accept exactly the decimal integers in [-2^31, 2^32-1] … and store their bit pattern":
    ContainsRawTagValueBytes answers (p, true) iff the bytes are a decimal integer (optional sign, leading zeros
    allowed) whose value v lies in [-2^31, 2^32-1], and then p is v's 32-bit two's complement pattern. -/
theorem raw32_accepts_iff (s : List UInt8) (p : Nat) :
    raw32 s = some p ↔ ∃ v, Decimal s v ∧ -(2 ^ 31 : Int) ≤ v ∧ v ≤ (2 ^ 32 - 1 : Int) ∧ p = pattern 32 v := by
  unfold raw32
  constructor
  · intro h
    cases hp : parseInt64 s with
    | none => simp [hp] at h
    | some i =>
      simp only [hp] at h
      obtain ⟨hd, _, _⟩ := (parseInt64_iff s i).1 hp
      split at h
      · rename_i hr; cases h; exact ⟨i, hd, hr.1, hr.2, rfl⟩
      · cases h
  · rintro ⟨v, hd, hlo, hhi, rfl⟩
    have := (parseInt64_iff s v).2 ⟨hd, by omega, by omega⟩
    simp only [this]
    rw [if_pos ⟨hlo, hhi⟩]

/-- "… so that it decodes back to the same number": negative numbers read back through the signed reading of the
    pattern, non-negative ones through the unsigned reading (and below 2^31 both readings agree). -/
theorem raw32_roundtrip (v : Int) (hlo : -(2 ^ 31 : Int) ≤ v) (hhi : v ≤ (2 ^ 32 - 1 : Int)) :
    pattern 32 v < 2 ^ 32 ∧ (v < 0 → asSigned 32 (pattern 32 v) = v) ∧ (0 ≤ v → asUnsigned (pattern 32 v) = v) ∧
    (0 ≤ v → v < (2 ^ 31 : Int) → asSigned 32 (pattern 32 v) = v) := by
  unfold pattern asSigned asUnsigned
  refine ⟨by omega, ?_, ?_, ?_⟩
  · intro h; split <;> omega
  · intro h; omega
  · intro h1 h2; split <;> omega

/-- 64-bit raw tags: accepted iff a decimal integer WITHOUT an explicit plus sign (strconv.ParseUint takes none —
    unlike the 32-bit parser) whose value lies in [-2^63, 2^64-1]; the result is its 64-bit pattern. -/
theorem raw64_accepts_iff (s : List UInt8) (p : Nat) :
    raw64 s = some p ↔
      ∃ v, Decimal s v ∧ s.head? ≠ some plus ∧ -(2 ^ 63 : Int) ≤ v ∧ v ≤ (2 ^ 64 - 1 : Int) ∧ p = pattern 64 v := by
  unfold raw64
  cases s with
  | nil =>
    constructor
    · intro h; cases h
    · rintro ⟨v, hd, _⟩; cases hd with | pos d hd _ => exact absurd rfl hd
  | cons c rest =>
    by_cases hm : c = minus
    · subst hm
      simp only [↓reduceIte, Option.map_eq_some_iff, List.head?_cons, ne_eq, Option.some.injEq]
      constructor
      · rintro ⟨i, hp, rfl⟩
        obtain ⟨hd, h1, h2⟩ := (parseInt64_iff _ i).1 hp
        exact ⟨i, hd, by decide, h1, by omega, rfl⟩
      · rintro ⟨v, hd, _, h1, h2, rfl⟩
        refine ⟨v, (parseInt64_iff _ v).2 ⟨hd, h1, ?_⟩, rfl⟩
        cases hd with
        | pos d hd had => exact absurd (had minus (by simp)) (by simp [not_digit_minus])
        | neg d hd had => omega
    · simp only [hm, ↓reduceIte, List.head?_cons, ne_eq, Option.some.injEq]
      constructor
      · intro h
        obtain ⟨h1, h2, h3, h4⟩ := (parseUint64_iff _ p).1 h
        refine ⟨(natVal (c :: rest) 0 : Int), Decimal.pos _ h1 h2, ?_, by omega, by omega, ?_⟩
        · intro hc; subst hc; exact absurd (h2 plus (by simp)) (by simp [not_digit_plus])
        · subst h3; unfold pattern; omega
      · rintro ⟨v, hd, hpl, h1, h2, rfl⟩
        cases hd with
        | pos d hd had =>
          refine (parseUint64_iff _ _).2 ⟨hd, had, ?_, ?_⟩
          · unfold pattern; omega
          · unfold pattern; omega
        | plus d _ _ => exact absurd rfl hpl
        | neg d _ _ => exact absurd rfl hm

theorem raw64_roundtrip (v : Int) (hlo : -(2 ^ 63 : Int) ≤ v) (hhi : v ≤ (2 ^ 64 - 1 : Int)) :
    pattern 64 v < 2 ^ 64 ∧ (v < 0 → asSigned 64 (pattern 64 v) = v) ∧ (0 ≤ v → asUnsigned (pattern 64 v) = v) ∧
    (0 ≤ v → v < (2 ^ 63 : Int) → asSigned 64 (pattern 64 v) = v) := by
  unfold pattern asSigned asUnsigned
  refine ⟨by omega, ?_, ?_, ?_⟩
  · intro h; split <;> omega
  · intro h; omega
  · intro h1 h2; split <;> omega

/-! non-vacuity and the boundaries (ASCII: '0' = 0x30, '+' = 0x2B, '-' = 0x2D) -/
def str (s : String) : List UInt8 := s.toList.map (fun c => UInt8.ofNat c.toNat)

example : raw32 (str "-2147483648") = some 2147483648 ∧ raw32 (str "-2147483649") = none := by decide
example : raw32 (str "4294967295") = some 4294967295 ∧ raw32 (str "4294967296") = none := by decide
example : raw32 (str "+007") = some 7 ∧ raw32 (str "-0") = some 0 ∧ raw32 (str "-1") = some 4294967295 := by decide
example : raw32 (str "") = none ∧ raw32 (str "+") = none ∧ raw32 (str "1_0") = none ∧ raw32 (str " 1") = none := by decide
example : raw64 (str "-9223372036854775808") = some 9223372036854775808 ∧ raw64 (str "-9223372036854775809") = none := by
  decide
example : raw64 (str "18446744073709551615") = some 18446744073709551615 ∧ raw64 (str "18446744073709551616") = none := by
  decide
/-- the asymmetry between the two parsers: an explicit plus sign is a raw value for 32-bit tags only -/
example : raw32 (str "+5") = some 5 ∧ raw64 (str "+5") = none := by decide
example : Decimal (str "-12") (-12) := Decimal.neg (str "12") (by decide) (by unfold AllDigits; decide)

/-! ### no spelling length is special: leading zeros of any length -/

/-- k ASCII zeros -/
def zeros (k : Nat) : List UInt8 := List.replicate k 0x30

theorem digitsVal_zeros (k : Nat) (d : List UInt8) : digitsVal (zeros k ++ d) 0 = digitsVal d 0 := by
  induction k with
  | zero => rfl
  | succ k ih =>
    have : isDigit 0x30 = true := by decide
    simp only [zeros, List.replicate_succ, List.cons_append, digitsVal, this, ↓reduceIte] at ih ⊢
    exact ih

theorem magnitude_zeros (k : Nat) (d : List UInt8) (hd : d ≠ []) : magnitude (zeros k ++ d) = magnitude d := by
  unfold magnitude
  have h1 : (zeros k ++ d).isEmpty = false := by cases d <;> simp_all
  have h2 : d.isEmpty = false := by cases d <;> simp_all
  simp only [h1, h2, Bool.false_eq_true, ↓reduceIte, digitsVal_zeros]

theorem parseUint64_zeros (k : Nat) (d : List UInt8) (hd : d ≠ []) : parseUint64 (zeros k ++ d) = parseUint64 d := by
  unfold parseUint64
  have h1 : (zeros k ++ d).isEmpty = false := by cases d <;> simp_all
  have h2 : d.isEmpty = false := by cases d <;> simp_all
  simp only [h1, h2, Bool.false_eq_true, ↓reduceIte, digitsVal_zeros]

theorem digit_not_sign (c : UInt8) (hc : isDigit c = true) : c ≠ plus ∧ c ≠ minus := by
  constructor <;> (intro h; subst h; revert hc; decide)

/-- strconv.ParseInt: zeros in front of an unsigned digit string, and zeros after the sign, change nothing -/
theorem parseInt64_zeros (k : Nat) (c : UInt8) (rest : List UInt8) (hc : isDigit c = true) :
    parseInt64 (zeros k ++ c :: rest) = parseInt64 (c :: rest) := by
  cases k with
  | zero => rfl
  | succ k =>
    obtain ⟨h1, h2⟩ := digit_not_sign c hc
    have hz : (0x30 : UInt8) ≠ plus ∧ (0x30 : UInt8) ≠ minus := by decide
    have hm := magnitude_zeros (k + 1) (c :: rest) (by simp)
    simp only [zeros, List.replicate_succ, List.cons_append] at hm
    simp only [zeros, List.replicate_succ, List.cons_append, parseInt64, hz.1, hz.2, h1, h2, ↓reduceIte, hm]

theorem parseInt64_sign_zeros (k : Nat) (sign : UInt8) (hs : sign = plus ∨ sign = minus) (d : List UInt8) (hd : d ≠ []) :
    parseInt64 (sign :: (zeros k ++ d)) = parseInt64 (sign :: d) := by
  have hm := magnitude_zeros k d hd
  have hne : minus ≠ plus := by decide
  rcases hs with h | h <;> subst h <;> simp only [parseInt64, hm, hne, ↓reduceIte]

/-- "a decimal integer may carry any number of leading zeros": for every k, k zeros in front of the digits — at the
    start of the spelling or right after the sign — give the same answer (accepted or not, and the same stored
    pattern) as the spelling without them, for both raw parsers.  `c :: rest` is a spelling that starts with a digit
    (anything may follow: if it is not a decimal integer both sides are rejected alike). -/
theorem leading_zeros_irrelevant (k : Nat) (c : UInt8) (rest : List UInt8) (hc : isDigit c = true) :
    raw32 (zeros k ++ c :: rest) = raw32 (c :: rest) ∧
    raw64 (zeros k ++ c :: rest) = raw64 (c :: rest) ∧
    raw32 (minus :: (zeros k ++ c :: rest)) = raw32 (minus :: c :: rest) ∧
    raw64 (minus :: (zeros k ++ c :: rest)) = raw64 (minus :: c :: rest) ∧
    raw32 (plus :: (zeros k ++ c :: rest)) = raw32 (plus :: c :: rest) ∧
    raw64 (plus :: (zeros k ++ c :: rest)) = raw64 (plus :: c :: rest) := by
  have hne : (c :: rest) ≠ [] := by simp
  have e1 := parseInt64_zeros k c rest hc
  have e2 := parseInt64_sign_zeros k minus (Or.inr rfl) (c :: rest) hne
  have e3 := parseInt64_sign_zeros k plus (Or.inl rfl) (c :: rest) hne
  have e4 := parseUint64_zeros k (c :: rest) hne
  have hpm : plus ≠ minus := by decide
  obtain ⟨h1, h2⟩ := digit_not_sign c hc
  refine ⟨by simp only [raw32, e1], ?_, by simp only [raw32, e2], by simp only [raw64, ↓reduceIte, e2],
    by simp only [raw32, e3], ?_⟩
  · cases k with
    | zero => rfl
    | succ k =>
      have hz : (0x30 : UInt8) ≠ minus := by decide
      have e4' := e4
      simp only [zeros, List.replicate_succ, List.cons_append] at e4' ⊢
      simp only [raw64, hz, h2, ↓reduceIte, e4']
  · -- an explicit plus: ParseUint rejects it whatever follows
    have : ∀ t, parseUint64 (plus :: t) = none := by
      intro t
      have : isDigit plus = false := by decide
      simp [parseUint64, digitsVal, this]
    simp only [raw64, hpm, ↓reduceIte, this]

/-- the seeded spellings: 130 zeros then 42; '-' then 200 zeros then 1 (and any other number of zeros) -/
example (k : Nat) : raw64 (zeros k ++ str "42") = some 42 ∧ raw32 (zeros k ++ str "42") = some 42 := by
  have h := leading_zeros_irrelevant k 0x34 (str "2") (by decide)
  exact ⟨h.2.1.trans (by decide), h.1.trans (by decide)⟩
example (k : Nat) : raw64 (minus :: (zeros k ++ str "1")) = some (2 ^ 64 - 1) ∧
    raw32 (minus :: (zeros k ++ str "1")) = some (2 ^ 32 - 1) := by
  have h := leading_zeros_irrelevant k 0x31 [] (by decide)
  exact ⟨h.2.2.2.1.trans (by decide), h.2.2.1.trans (by decide)⟩
/-- … and a boundary value stays a boundary value: 2^64-1 accepted, 2^64 rejected behind any number of zeros -/
example (k : Nat) : raw64 (zeros k ++ str "18446744073709551615") = some 18446744073709551615 ∧
    raw64 (zeros k ++ str "18446744073709551616") = none := by
  exact ⟨(leading_zeros_irrelevant k 0x31 (str "8446744073709551615") (by decide)).2.1.trans (by decide),
    (leading_zeros_irrelevant k 0x31 (str "8446744073709551616") (by decide)).2.1.trans (by decide)⟩

end Raw

/-! ## Normalisation -/
section Normalisation
open SH.Norm

set_option maxRecDepth 200000 in
/-- the four sanity facts hold for the tables dumped from the Go toolchain on this run -/
theorem gen_tables_sane : SH.Gen.C11.tables.Sane where
  print_ascii := by decide
  space_ascii := fun c h1 h2 =>
    (by decide : ∀ c, c < 128 → 0x20 ≤ c → c ≤ 0x7e → SH.Gen.C11.tables.isSpace c = decide (c = 0x20)) c (by omega) h1 h2
  print_fffd := by decide
  space_fffd := by decide

/-- "Forcing any byte string into a tag value yields a valid value (UTF-8, at most 128 bytes, trimmed, single ASCII
    spaces, printable)": for every byte string, every IsSpace/IsPrint tables with the sanity facts and every length
    limit, the forced value passes validStringValue — which checks the length, rejects malformed UTF-8, leading,
    trailing, doubled and non-ASCII spaces and non-printable runes — and is at most maxLen bytes long. -/
theorem force_valid (T : Tables) (hT : T.Sane) (maxLen : Nat) (b : List UInt8) :
    valid T maxLen (force T maxLen b) = true ∧ (force T maxLen b).length ≤ maxLen := by
  have h := force_valid_aux T hT maxLen b
  refine ⟨h, ?_⟩
  rw [valid_eq] at h
  simp only [Bool.and_eq_true, decide_eq_true_eq] at h
  exact h.1

/-- "… that equals the input when the input was already valid" -/
theorem force_id_on_valid (T : Tables) (hT : T.Sane) (maxLen : Nat) (b : List UInt8) (hv : valid T maxLen b = true) :
    force T maxLen b = b := by
  rw [valid_eq] at hv
  simp only [Bool.and_eq_true, decide_eq_true_eq, Bool.or_eq_true] at hv
  unfold force appendValid
  by_cases h0 : b.isEmpty = true
  · simp only [h0, ↓reduceIte, Option.getD_some]
    cases b with
    | nil => rfl
    | cons _ _ => simp at h0
  · simp only [h0, Bool.false_eq_true, ↓reduceIte, List.nil_append]
    by_cases h1 : (decide (b.length ≤ maxLen) && fastOk b) = true
    · simp [h1]
    · simp only [h1, Bool.false_eq_true, ↓reduceIte]
      have hvl : validL T b true = true := by
        rcases hv.2 with h | h
        · exact absurd h h0
        · exact h
      rw [slow_id T hT true maxLen (b.length + 1) b [] true (Nat.le_refl _) hvl (by simpa using hv.1)]
      simp [trimLast]

/-- "… and forcing is idempotent" -/
theorem force_idempotent (T : Tables) (hT : T.Sane) (maxLen : Nat) (b : List UInt8) :
    force T maxLen (force T maxLen b) = force T maxLen b :=
  force_id_on_valid T hT maxLen _ (force_valid T hT maxLen b).1

/-- ForceValidStringValue (the string version with the "already valid" shortcut) is the same function -/
theorem forceStr_eq_force (T : Tables) (hT : T.Sane) (maxLen : Nat) (b : List UInt8) :
    forceStr T maxLen b = force T maxLen b := by
  unfold forceStr
  by_cases hv : valid T maxLen b = true
  · simp [hv, force_id_on_valid T hT maxLen b hv]
  · simp [hv]

/-- "strict normalization fails only on invalid UTF-8 …": on well-formed UTF-8 it succeeds, with the forced value
    appended to dst … -/
theorem strict_ok_on_utf8 (T : Tables) (maxLen : Nat) (dst b : List UInt8) (hu : utf8Valid b = true) :
    strict T maxLen dst b = some (dst ++ force T maxLen b) :=
  strict_of_utf8 T maxLen dst b hu

theorem strict_fails_only_on_bad_utf8 (T : Tables) (maxLen : Nat) (dst b : List UInt8)
    (h : strict T maxLen dst b = none) : utf8Valid b = false := by
  cases hu : utf8Valid b with
  | false => rfl
  | true => rw [strict_of_utf8 T maxLen dst b hu] at h; cases h

/-- "… and otherwise agrees with forcing": whenever it does not fail — also on malformed input whose damage lies
    beyond the point where the output is full — the result is dst followed by the forced value. -/
theorem strict_agrees_with_force (T : Tables) (maxLen : Nat) (dst b v : List UInt8)
    (h : strict T maxLen dst b = some v) : v = dst ++ force T maxLen b :=
  strict_some_eq T maxLen dst b v h

/-- The converse of strict_fails_only_on_bad_utf8 is FALSE for the code as it is (and the property does not claim it):
    malformed bytes after the 128-byte cut are never looked at. Statement kept for the record:
      theorem strict_agrees (T) (b) : strict T maxLen [] b = if utf8Valid b then some (force T maxLen b) else none
    Counterexample (maxLen 2 to keep it small; same with 128): -/
example : utf8Valid [0x61, 0x62, 0x63, 0xFF] = false ∧
    strict SH.Gen.C11.tables 2 [] [0x61, 0x62, 0x63, 0xFF] = some [0x61, 0x62] := by decide

/-- a valid value is well-formed UTF-8 of at most maxLen bytes -/
theorem valid_is_utf8 (T : Tables) (maxLen : Nat) (b : List UInt8) (hv : valid T maxLen b = true) :
    utf8Valid b = true ∧ b.length ≤ maxLen := by
  rw [valid_eq] at hv
  simp only [Bool.and_eq_true, decide_eq_true_eq, Bool.or_eq_true] at hv
  refine ⟨?_, hv.1⟩
  rcases hv.2 with h | h
  · cases b with
    | nil => rfl
    | cons _ _ => simp at h
  · exact valid_utf8_aux T _ b true h

def G := SH.Gen.C11.tables
set_option maxRecDepth 200000

/-! non-vacuity, on the toolchain's tables (bytes: 0x20 ' ', 0x09 tab, 0xC2 0xA0 = U+00A0, 0xE2 0x80 0x8B = U+200B) -/

example : force G 128 [0x20, 0x61, 0x09, 0x20, 0xC2, 0xA0, 0x62, 0x20] = [0x61, 0x20, 0x62] := by decide
example : force G 128 [0x61, 0xFF, 0xE2, 0x80, 0x8B] = [0x61, 0xEF, 0xBF, 0xBD, 0xEF, 0xBF, 0xBD] := by decide
example : strict G 128 [0x70] [0x61, 0xFF] = none ∧ strict G 128 [0x70] [0x20, 0x61] = some [0x70, 0x61] := by decide
example : valid G 128 [0x61, 0x20, 0xD0, 0x96] = true ∧ valid G 128 [0x61, 0x20, 0x20, 0x62] = false ∧
    valid G 128 [0x61, 0x20] = false ∧ valid G 128 [0xED, 0xA0, 0x80] = false := by decide
/-- truncation never splits a rune and never leaves a trailing space (limit 4 to keep it small) -/
example : force G 4 [0x61, 0x20, 0xD0, 0x96, 0xD0, 0x96] = [0x61, 0x20, 0xD0, 0x96] ∧
    force G 4 [0x61, 0x62, 0x63, 0x20, 0x64] = [0x61, 0x62, 0x63] ∧
    force G 4 [0x61, 0x62, 0x63, 0xD0, 0x96] = [0x61, 0x62, 0x63] := by decide

/-! ### what "valid" means, in the words of the property -/

/-- `valid` (the model of validStringValue / ValidStringValue / ValidStringValueBytes) holds exactly when
    * the bytes are at most maxLen long ("at most 128 bytes"),
    * they are well-formed UTF-8: they decode, DecodeRune by DecodeRune, into a rune list `rs` ("UTF-8"),
    * every rune is printable per the table, and a rune the table calls a space can only be U+0020
      ("printable", "ASCII spaces"),
    * the first and the last rune are not a space ("trimmed"),
    * no two consecutive runes are both spaces ("single spaces").
    Where the code and this reading could differ and do not: on bytes 0x20..0x7e the code does not consult the tables
    (bytePrint, `c == ' '`) — equal to the tables by Tables.Sane (re-proved for the toolchain's tables on every run);
    "printable" is unicode.IsPrint, which already excludes every space except U+0020 and every control/format rune;
    the empty value is valid; a literal U+FFFD is accepted (it is printable), only (RuneError, width ≤ 1) is malformed. -/
theorem valid_iff (T : Tables) (hT : T.Sane) (maxLen : Nat) (b : List UInt8) :
    valid T maxLen b = true ↔
      b.length ≤ maxLen ∧
      ∃ rs, runesOf b = some rs ∧ (∀ r ∈ rs, RuneOK T r) ∧ rs.head? ≠ some 0x20 ∧ rs.getLast? ≠ some 0x20 ∧
        NoDoubleSpace rs := by
  rw [valid_eq]
  simp only [Bool.and_eq_true, decide_eq_true_eq, Bool.or_eq_true]
  cases b with
  | nil =>
    simp only [List.length_nil, Nat.zero_le, List.isEmpty_nil, true_or, and_self, true_and, true_iff]
    exact ⟨[], rfl, by simp, by simp, by simp, by simp [NoDoubleSpace]⟩
  | cons c rest =>
    simp only [List.isEmpty_cons, Bool.false_eq_true, false_or, and_congr_right_iff]
    intro _
    unfold validL runesOf
    rw [validLoop_iff T hT]
    constructor
    · rintro ⟨rs, h1, h2⟩
      obtain ⟨g1, g2, _, g4, g5⟩ := (goodR_iff T hT rs true).1 h2
      exact ⟨rs, h1, g1, g2 rfl, g4, g5⟩
    · rintro ⟨rs, h1, g1, g2, g4, g5⟩
      refine ⟨rs, h1, (goodR_iff T hT rs true).2 ⟨g1, fun _ => g2, ?_, g4, g5⟩⟩
      intro h
      exact absurd h (decodeAll_cons_ne_nil _ c rest rs h1)

/-- force_valid restated on the property's own notion: the forced value is at most maxLen bytes of well-formed UTF-8
    whose runes are printable, with only ASCII spaces, none leading, trailing or doubled. -/
theorem force_valid_spec (T : Tables) (hT : T.Sane) (maxLen : Nat) (b : List UInt8) :
    (force T maxLen b).length ≤ maxLen ∧
    ∃ rs, runesOf (force T maxLen b) = some rs ∧ (∀ r ∈ rs, RuneOK T r) ∧ rs.head? ≠ some 0x20 ∧
      rs.getLast? ≠ some 0x20 ∧ NoDoubleSpace rs :=
  (valid_iff T hT maxLen _).1 (force_valid T hT maxLen b).1

/-- the runes of a valid value are the same notion of well-formedness the strict-normalisation theorems use -/
theorem runesOf_utf8Valid (b : List UInt8) (rs : List Nat) (h : runesOf b = some rs) : utf8Valid b = true :=
  decodeAll_utf8Ok _ b rs h

/-! non-vacuity: "a b" / "Ж" decode and satisfy every clause; one failing witness per clause -/
example : runesOf [0x61, 0x20, 0xD0, 0x96] = some [0x61, 0x20, 0x416] := by decide
example : valid G 128 [0x61, 0x20, 0xD0, 0x96] = true := by decide
example : valid G 128 [0x20, 0x61] = false ∧ valid G 128 [0x61, 0x20] = false ∧
    valid G 128 [0x61, 0x20, 0x20, 0x62] = false ∧ valid G 128 [0x61, 0xC2, 0xA0, 0x62] = false ∧
    valid G 128 [0x61, 0x09, 0x62] = false ∧ valid G 128 [0x61, 0xC2, 0xAD] = false ∧
    valid G 128 [0x61, 0xC0, 0x80] = false ∧ valid G 2 [0x61, 0x62, 0x63] = false := by decide
example : RuneOK G 0x416 ∧ RuneOK G 0x20 ∧ ¬ RuneOK G 0xA0 ∧ ¬ RuneOK G 0xAD ∧ ¬ RuneOK G 0x09 := by
  unfold RuneOK; decide

/-! ### in place: ForceValidStringValueBytes(b) calls appendValidStringValue(b[:0], b, …) — dst aliases src -/

/-- For every backing array `arr` (the caller's b[:cap(b)]) and every slice length n ≤ cap, the in-place call —
    modelled at the level of the shared array, each read looking at the array as it is at that moment — returns
    exactly the out-of-place `force` of the slice's bytes.  (What makes it safe in the code as it is: the slow path
    writes into the local `buf` and touches the shared array only after the last read, lemma slowIP_buffered; the
    fast path copies the bytes onto themselves, lemma poke_self.) -/
theorem force_in_place_eq (T : Tables) (maxLen : Nat) (arr : List UInt8) (n : Nat) (hn : n ≤ arr.length) :
    (forceInPlace .buffered T maxLen arr n).value = force T maxLen (arr.take n) := by
  rw [forceInPlace_buffered T maxLen arr n hn]
  by_cases h0 : (arr.take n).isEmpty = true
  · simp only [h0, ↓reduceIte]
    have : arr.take n = [] := by simpa using h0
    rw [this]; rfl
  · simp only [h0, Bool.false_eq_true, ↓reduceIte]
    unfold appendAtZero
    split <;> rfl

/-- … and the caller's array afterwards: the result sits at its start when it fits the capacity (the returned slice
    aliases the array), otherwise the array is untouched and the result lives in a fresh array. -/
theorem force_in_place_memory (T : Tables) (maxLen : Nat) (arr : List UInt8) (n : Nat) (hn : n ≤ arr.length)
    (hne : (arr.take n).isEmpty = false) :
    let v := force T maxLen (arr.take n)
    let r := forceInPlace .buffered T maxLen arr n
    (v.length ≤ arr.length → r.aliased = true ∧ r.arr = v ++ arr.drop v.length) ∧
    (arr.length < v.length → r.aliased = false ∧ r.arr = arr) := by
  intro v r
  have hr : r = appendAtZero arr v := by
    show forceInPlace .buffered T maxLen arr n = _
    rw [forceInPlace_buffered T maxLen arr n hn]; simp [hne, v]
  rw [hr]
  unfold appendAtZero
  constructor
  · intro h; simp [h, poke]
  · intro h
    have : ¬ v.length ≤ arr.length := by omega
    simp [this]

/-- non-vacuity (and the growing case: 1 input byte, 3 output bytes, capacity 2: reallocated, caller's array intact) -/
example : forceInPlace .buffered G 128 [0x01, 0xAA] 1 = ⟨[0xEF, 0xBF, 0xBD], [0x01, 0xAA], false⟩ := by decide
example : forceInPlace .buffered G 128 [0x20, 0x61, 0x20, 0x20, 0x62, 0xAA] 5 =
    ⟨[0x61, 0x20, 0x62], [0x61, 0x20, 0x62, 0x20, 0x62, 0xAA], true⟩ := by decide
/-- why the local buffer matters: appending each rune straight to dst (`WriteMode.direct`) lets the write index
    overtake the read index as soon as a rune grows (0x01 → U+FFFD) and the unread "host" is decoded from clobbered
    bytes — the behaviour of the independently seeded change seeded/C11-2 ("\x01host" → five U+FFFD). -/
example : (forceInPlace .direct G 128 [0x01, 0x68, 0x6F, 0x73, 0x74, 0xAA, 0xAA, 0xAA, 0xAA, 0xAA, 0xAA, 0xAA, 0xAA, 0xAA, 0xAA] 5).value
      = [0xEF, 0xBF, 0xBD, 0xEF, 0xBF, 0xBD, 0xEF, 0xBF, 0xBD, 0xEF, 0xBF, 0xBD, 0xEF, 0xBF, 0xBD] ∧
    force G 128 [0x01, 0x68, 0x6F, 0x73, 0x74] = [0xEF, 0xBF, 0xBD, 0x68, 0x6F, 0x73, 0x74] := by decide

/-- The invariant that would make appending straight to dst safe — "the write index never overtakes the read index":
    if every rune the slow path writes is no longer than what it consumed (`nonGrowing`: spaces collapsing, valid
    printable text; NOT a control byte or a 2-byte non-printable turning into the 3-byte U+FFFD), the direct variant
    reads the same bytes as the buffered code and returns the same value (lemma direct_eq_buffered keeps
    `len(written) ≤ read index`, so no unread byte is overwritten).  The code as it is does not need this hypothesis
    (force_in_place_eq); the example above shows the hypothesis cannot be dropped for the direct variant. -/
theorem direct_safe_when_not_growing (T : Tables) (maxLen : Nat) (arr : List UInt8) (n : Nat) (hn : n ≤ arr.length)
    (hg : nonGrowing T (n + 1) (arr.take n) true = true) :
    (forceInPlace .direct T maxLen arr n).value = force T maxLen (arr.take n) := by
  rw [← force_in_place_eq T maxLen arr n hn]
  unfold forceInPlace
  by_cases h0 : (arr.take n).isEmpty = true
  · simp only [h0, ↓reduceIte]
  · simp only [h0, Bool.false_eq_true, ↓reduceIte]
    by_cases h1 : (decide ((arr.take n).length ≤ maxLen) && fastOk (arr.take n)) = true
    · simp only [h1, ↓reduceIte]
    · simp only [h1, Bool.false_eq_true, ↓reduceIte]
      obtain ⟨e1, e2, _⟩ := direct_eq_buffered T maxLen (n + 1) n 0
        { arr := arr, detached := false, out := [], prev := true }
        { arr := arr, detached := false, out := [], prev := true } hn rfl rfl rfl (by simp) rfl
        (by simpa using hg)
      rw [e1, e2]
      unfold appendAtZero
      split <;> rfl

/-- non-vacuity: messy spacing only shrinks, so it is nonGrowing; "\x01host" is not -/
example : nonGrowing G 6 [0x20, 0x61, 0x20, 0x20, 0x62] true = true ∧
    nonGrowing G 6 [0x01, 0x68, 0x6F, 0x73, 0x74] true = false := by decide


/-! ### no input length is special: whitespace runs of any length -/

/-- "trimmed": whitespace in front of a value — the encodings of any number of runes the table calls spaces, hence
    any number of BYTES — does not take part in the result: forcing `ws ++ s` is forcing `s`.  (The output has at most
    maxLen bytes but the bytes that form it may lie arbitrarily far into the input: no cut of the input at a fixed
    offset is sound — seeded/C11-r3-1 cut at 132 bytes, seeded/C11-r4-1 at 512.) -/
theorem force_ignores_leading_whitespace_length (T : Tables) (hT : T.Sane) (maxLen : Nat) (ws s : List UInt8)
    (hws : WsOnly T ws) : force T maxLen (ws ++ s) = force T maxLen s := by
  obtain ⟨rs, he, hs⟩ := hws
  rw [force_eq_slow T hT, force_eq_slow T hT, slow_skip_ws T maxLen ws rs he hs]

/-- "single ASCII spaces": a non-empty whitespace run of any length after whole runes `a` acts exactly like one
    ASCII space, whatever follows. -/
theorem force_whitespace_run_length (T : Tables) (hT : T.Sane) (maxLen : Nat) (a ws s : List UInt8) (ra : List Nat)
    (ha : Encoded a ra) (hws : WsOnly T ws) (hne : ws ≠ []) :
    force T maxLen (a ++ ws ++ s) = force T maxLen (a ++ (0x20 : UInt8) :: s) := by
  rw [force_eq_slow T hT, force_eq_slow T hT, List.append_assoc,
    slow_prefix_congr T maxLen a ra ha (ws ++ s) (0x20 :: s) (fun o p => slow_ws_run T hT maxLen ws hws hne s o p)]

/-- the same for the string variant (ForceValidStringValue) and for strict normalisation when it succeeds -/
theorem forceStr_ignores_leading_whitespace_length (T : Tables) (hT : T.Sane) (maxLen : Nat) (ws s : List UInt8)
    (hws : WsOnly T ws) : forceStr T maxLen (ws ++ s) = forceStr T maxLen s := by
  rw [forceStr_eq_force T hT, forceStr_eq_force T hT, force_ignores_leading_whitespace_length T hT maxLen ws s hws]

theorem strict_ignores_leading_whitespace_length (T : Tables) (hT : T.Sane) (maxLen : Nat) (dst ws s v : List UInt8)
    (hws : WsOnly T ws) (h : strict T maxLen dst (ws ++ s) = some v) : v = dst ++ force T maxLen s := by
  rw [← force_ignores_leading_whitespace_length T hT maxLen ws s hws]
  exact strict_agrees_with_force T maxLen dst _ v h

/-- non-vacuity, and the seeded inputs for EVERY run length k: k spaces then "host-42" (600 in the seed's test);
    "\tdc1", k newlines, "rack7 " (700 in the seed's test); k EM SPACEs (U+2003, 3 bytes each) then "arg" -/
example (k : Nat) : force G 128 (List.replicate k 0x20 ++ str "host-42") = str "host-42" ∧
    forceStr G 128 (List.replicate k 0x20 ++ str "host-42") = str "host-42" := by
  have hw := wsOnly_spaces G gen_tables_sane k
  rw [forceStr_ignores_leading_whitespace_length G gen_tables_sane 128 _ _ hw,
    force_ignores_leading_whitespace_length G gen_tables_sane 128 _ _ hw]
  decide
example (k : Nat) (hk : 0 < k) :
    force G 128 (str "\tdc1" ++ List.replicate k 0x0A ++ str "rack7 ") = str "dc1 rack7" := by
  rw [force_whitespace_run_length G gen_tables_sane 128 _ _ _ _ (encoded_ascii (str "\tdc1") (by decide))
    (wsOnly_replicate_ascii G 0x0A (by decide) (by decide) k) (by cases k with | zero => omega | succ k => simp)]
  decide
example (k : Nat) : force G 128 ((List.replicate k [0xE2, 0x80, 0x83]).flatten ++ str "arg") = str "arg" := by
  have hw := wsOnly_replicate G 0x2003 (by unfold Scalar; omega) (by decide) k
  have he : encodeRune 0x2003 = [0xE2, 0x80, 0x83] := by decide
  rw [he] at hw
  rw [force_ignores_leading_whitespace_length G gen_tables_sane 128 _ _ hw]
  decide
/-- the whitespace hypothesis cannot be dropped: a non-printable rune in front is not ignored -/
example : force G 128 ([0x01] ++ str "a") ≠ force G 128 (str "a") := by decide

end Normalisation

end SH.C11
