/-
  C11 — Tag values are normalized and raw tag values parsed exactly.

  "Forcing any byte string into a tag value yields a valid value (UTF-8, at most 128 bytes, trimmed, single ASCII
   spaces, printable) that equals the input when the input was already valid, and forcing is idempotent; strict
   normalization fails only on invalid UTF-8 and otherwise agrees with forcing. Raw tags accept exactly the decimal
   integers in [-2^31, 2^32-1] (64-bit raw tags: [-2^63, 2^64-1]) and store their bit pattern so that it decodes
   back to the same number."

  Models: SH.Model.Norm, SH.Model.RawTag (tied to /repo by the C11 correspondence); unicode tables: SH.Gen.C11
  (regenerated from the Go toolchain on every run).
-/
import SH.Model.Norm
import SH.Model.RawTag
import SH.Gen.C11
import SH.Lemmas.NormC11

namespace SH.C11

/-! ## Raw tags -/
section Raw
open SH.RawTag

/-- value of a digit string -/
def natVal (d : List UInt8) (acc : Nat) : Nat := d.foldl (fun a c => a * 10 + (c.toNat - 0x30)) acc

def AllDigits (d : List UInt8) : Prop := ∀ c ∈ d, isDigit c = true

theorem digitsVal_iff (d : List UInt8) : ∀ (acc n : Nat), digitsVal d acc = some n ↔ AllDigits d ∧ n = natVal d acc := by
  induction d with
  | nil =>
    intro acc n
    simp only [digitsVal, AllDigits, natVal, List.foldl_nil, Option.some.injEq, List.not_mem_nil, false_imp_iff,
      implies_true, true_and]
    exact eq_comm
  | cons c rest ih =>
    intro acc n
    simp only [digitsVal]
    by_cases hc : isDigit c = true
    · simp only [hc, ↓reduceIte, ih]
      simp [AllDigits, hc, natVal]
    · simp only [hc, Bool.false_eq_true, ↓reduceIte]
      constructor
      · intro h; cases h
      · intro h; exact absurd (h.1 c (by simp)) hc

/-- "decimal integer": one or more ASCII digits with an optional sign; the number it denotes -/
inductive Decimal : List UInt8 → Int → Prop
  | pos (d : List UInt8) : d ≠ [] → AllDigits d → Decimal d (natVal d 0)
  | plus (d : List UInt8) : d ≠ [] → AllDigits d → Decimal (plus :: d) (natVal d 0)
  | neg (d : List UInt8) : d ≠ [] → AllDigits d → Decimal (minus :: d) (-(natVal d 0 : Int))

theorem magnitude_iff (s : List UInt8) (n : Nat) : magnitude s = some n ↔ s ≠ [] ∧ AllDigits s ∧ n = natVal s 0 := by
  unfold magnitude
  cases s with
  | nil => simp
  | cons c rest => simp [digitsVal_iff]

theorem not_digit_plus : isDigit plus = false := by decide
theorem not_digit_minus : isDigit minus = false := by decide

/-- strconv.ParseInt(s, 10, 64) accepts exactly the decimal integers of the int64 range -/
theorem parseInt64_iff (s : List UInt8) (v : Int) :
    parseInt64 s = some v ↔ Decimal s v ∧ -(2 ^ 63 : Int) ≤ v ∧ v < (2 ^ 63 : Int) := by
  cases s with
  | nil =>
    simp only [parseInt64]
    constructor
    · intro h; cases h
    · rintro ⟨h, _⟩; cases h with
      | pos d hd _ => exact absurd rfl hd
  | cons c rest =>
    simp only [parseInt64]
    by_cases hp : c = plus
    · subst hp
      simp only [↓reduceIte]
      constructor
      · intro h
        cases hm : magnitude rest with
        | none => simp [hm] at h
        | some n =>
          simp only [hm] at h
          obtain ⟨h1, h2, h3⟩ := (magnitude_iff rest n).1 hm
          split at h
          · cases h
            subst h3
            exact ⟨Decimal.plus rest h1 h2, by omega, by omega⟩
          · cases h
      · rintro ⟨hd, hlo, hhi⟩
        cases hd with
        | pos d hd had => exact absurd (had plus (by simp)) (by simp [not_digit_plus])
        | plus d hd had =>
          have := (magnitude_iff rest (natVal rest 0)).2 ⟨hd, had, rfl⟩
          simp only [this]
          have : natVal rest 0 < 2 ^ 63 := by omega
          simp [this]
    · by_cases hm' : c = minus
      · subst hm'
        have hne : minus ≠ plus := by decide
        simp only [hne, ↓reduceIte]
        constructor
        · intro h
          cases hm : magnitude rest with
          | none => simp [hm] at h
          | some n =>
            simp only [hm] at h
            obtain ⟨h1, h2, h3⟩ := (magnitude_iff rest n).1 hm
            split at h
            · cases h
              subst h3
              exact ⟨Decimal.neg rest h1 h2, by omega, by omega⟩
            · cases h
        · rintro ⟨hd, hlo, hhi⟩
          cases hd with
          | pos d hd had => exact absurd (had minus (by simp)) (by simp [not_digit_minus])
          | neg d hd had =>
            have := (magnitude_iff rest (natVal rest 0)).2 ⟨hd, had, rfl⟩
            simp only [this]
            have : natVal rest 0 ≤ 2 ^ 63 := by omega
            simp [this]
      · simp only [hp, hm', ↓reduceIte]
        constructor
        · intro h
          cases hm : magnitude (c :: rest) with
          | none => simp [hm] at h
          | some n =>
            simp only [hm] at h
            obtain ⟨h1, h2, h3⟩ := (magnitude_iff _ n).1 hm
            split at h
            · cases h
              subst h3
              exact ⟨Decimal.pos _ h1 h2, by omega, by omega⟩
            · cases h
        · rintro ⟨hd, hlo, hhi⟩
          cases hd with
          | pos d hd had =>
            have := (magnitude_iff (c :: rest) (natVal (c :: rest) 0)).2 ⟨hd, had, rfl⟩
            simp only [this]
            have : natVal (c :: rest) 0 < 2 ^ 63 := by omega
            simp [this]
          | plus d _ _ => exact absurd rfl hp
          | neg d _ _ => exact absurd rfl hm'

/-- strconv.ParseUint(s, 10, 64) accepts exactly the unsigned digit strings (no sign at all) below 2^64 -/
theorem parseUint64_iff (s : List UInt8) (n : Nat) :
    parseUint64 s = some n ↔ s ≠ [] ∧ AllDigits s ∧ n = natVal s 0 ∧ n < 2 ^ 64 := by
  unfold parseUint64
  cases s with
  | nil => simp
  | cons c rest =>
    simp only [List.isEmpty_cons, Bool.false_eq_true, ↓reduceIte, ne_eq, reduceCtorEq, not_false_eq_true, true_and]
    cases hd : digitsVal (c :: rest) 0 with
    | none =>
      constructor
      · intro h; cases h
      · rintro ⟨h1, h2, _⟩
        have := (digitsVal_iff (c :: rest) 0 _).2 ⟨h1, rfl⟩
        rw [hd] at this; cases this
    | some m =>
      obtain ⟨h1, h2⟩ := (digitsVal_iff _ _ _).1 hd
      simp only
      constructor
      · intro h
        split at h
        · cases h; exact ⟨h1, h2, by omega⟩
        · cases h
      · rintro ⟨_, h3, h4⟩
        have : m = n := by omega
        subst this
        simp [h4]

/-- "Raw tags accept exactly the decimal integers in [-2^31, 2^32-1] … and store their bit pattern":
    ContainsRawTagValueBytes answers (p, true) iff the bytes are a decimal integer (optional sign, leading zeros
    allowed) whose value v lies in [-2^31, 2^32-1], and then p is v's 32-bit two's complement pattern. -/
theorem raw32_accepts_iff (s : List UInt8) (p : Nat) :
    raw32 s = some p ↔ ∃ v, Decimal s v ∧ -(2 ^ 31 : Int) ≤ v ∧ v ≤ (2 ^ 32 - 1 : Int) ∧ p = pattern 32 v := by
  unfold raw32
  constructor
  · intro h
    cases hp : parseInt64 s with
    | none => simp [hp] at h
    | some i =>
      simp only [hp] at h
      obtain ⟨hd, _, _⟩ := (parseInt64_iff s i).1 hp
      split at h
      · rename_i hr; cases h; exact ⟨i, hd, hr.1, hr.2, rfl⟩
      · cases h
  · rintro ⟨v, hd, hlo, hhi, rfl⟩
    have := (parseInt64_iff s v).2 ⟨hd, by omega, by omega⟩
    simp only [this]
    rw [if_pos ⟨hlo, hhi⟩]

/-- "… so that it decodes back to the same number": negative numbers read back through the signed reading of the
    pattern, non-negative ones through the unsigned reading (and below 2^31 both readings agree). -/
theorem raw32_roundtrip (v : Int) (hlo : -(2 ^ 31 : Int) ≤ v) (hhi : v ≤ (2 ^ 32 - 1 : Int)) :
    pattern 32 v < 2 ^ 32 ∧ (v < 0 → asSigned 32 (pattern 32 v) = v) ∧ (0 ≤ v → asUnsigned (pattern 32 v) = v) ∧
    (0 ≤ v → v < (2 ^ 31 : Int) → asSigned 32 (pattern 32 v) = v) := by
  unfold pattern asSigned asUnsigned
  refine ⟨by omega, ?_, ?_, ?_⟩
  · intro h; split <;> omega
  · intro h; omega
  · intro h1 h2; split <;> omega

/-- 64-bit raw tags: accepted iff a decimal integer WITHOUT an explicit plus sign (strconv.ParseUint takes none —
    unlike the 32-bit parser) whose value lies in [-2^63, 2^64-1]; the result is its 64-bit pattern. -/
theorem raw64_accepts_iff (s : List UInt8) (p : Nat) :
    raw64 s = some p ↔
      ∃ v, Decimal s v ∧ s.head? ≠ some plus ∧ -(2 ^ 63 : Int) ≤ v ∧ v ≤ (2 ^ 64 - 1 : Int) ∧ p = pattern 64 v := by
  unfold raw64
  cases s with
  | nil =>
    constructor
    · intro h; cases h
    · rintro ⟨v, hd, _⟩; cases hd with | pos d hd _ => exact absurd rfl hd
  | cons c rest =>
    by_cases hm : c = minus
    · subst hm
      simp only [↓reduceIte, Option.map_eq_some_iff, List.head?_cons, ne_eq, Option.some.injEq]
      constructor
      · rintro ⟨i, hp, rfl⟩
        obtain ⟨hd, h1, h2⟩ := (parseInt64_iff _ i).1 hp
        exact ⟨i, hd, by decide, h1, by omega, rfl⟩
      · rintro ⟨v, hd, _, h1, h2, rfl⟩
        refine ⟨v, (parseInt64_iff _ v).2 ⟨hd, h1, ?_⟩, rfl⟩
        cases hd with
        | pos d hd had => exact absurd (had minus (by simp)) (by simp [not_digit_minus])
        | neg d hd had => omega
    · simp only [hm, ↓reduceIte, List.head?_cons, ne_eq, Option.some.injEq]
      constructor
      · intro h
        obtain ⟨h1, h2, h3, h4⟩ := (parseUint64_iff _ p).1 h
        refine ⟨(natVal (c :: rest) 0 : Int), Decimal.pos _ h1 h2, ?_, by omega, by omega, ?_⟩
        · intro hc; subst hc; exact absurd (h2 plus (by simp)) (by simp [not_digit_plus])
        · subst h3; unfold pattern; omega
      · rintro ⟨v, hd, hpl, h1, h2, rfl⟩
        cases hd with
        | pos d hd had =>
          refine (parseUint64_iff _ _).2 ⟨hd, had, ?_, ?_⟩
          · unfold pattern; omega
          · unfold pattern; omega
        | plus d _ _ => exact absurd rfl hpl
        | neg d _ _ => exact absurd rfl hm

theorem raw64_roundtrip (v : Int) (hlo : -(2 ^ 63 : Int) ≤ v) (hhi : v ≤ (2 ^ 64 - 1 : Int)) :
    pattern 64 v < 2 ^ 64 ∧ (v < 0 → asSigned 64 (pattern 64 v) = v) ∧ (0 ≤ v → asUnsigned (pattern 64 v) = v) ∧
    (0 ≤ v → v < (2 ^ 63 : Int) → asSigned 64 (pattern 64 v) = v) := by
  unfold pattern asSigned asUnsigned
  refine ⟨by omega, ?_, ?_, ?_⟩
  · intro h; split <;> omega
  · intro h; omega
  · intro h1 h2; split <;> omega

/-! non-vacuity and the boundaries (ASCII: '0' = 0x30, '+' = 0x2B, '-' = 0x2D) -/
def str (s : String) : List UInt8 := s.toList.map (fun c => UInt8.ofNat c.toNat)

example : raw32 (str "-2147483648") = some 2147483648 ∧ raw32 (str "-2147483649") = none := by decide
example : raw32 (str "4294967295") = some 4294967295 ∧ raw32 (str "4294967296") = none := by decide
example : raw32 (str "+007") = some 7 ∧ raw32 (str "-0") = some 0 ∧ raw32 (str "-1") = some 4294967295 := by decide
example : raw32 (str "") = none ∧ raw32 (str "+") = none ∧ raw32 (str "1_0") = none ∧ raw32 (str " 1") = none := by decide
example : raw64 (str "-9223372036854775808") = some 9223372036854775808 ∧ raw64 (str "-9223372036854775809") = none := by
  decide
example : raw64 (str "18446744073709551615") = some 18446744073709551615 ∧ raw64 (str "18446744073709551616") = none := by
  decide
/-- the asymmetry between the two parsers: an explicit plus sign is a raw value for 32-bit tags only -/
example : raw32 (str "+5") = some 5 ∧ raw64 (str "+5") = none := by decide
example : Decimal (str "-12") (-12) := Decimal.neg (str "12") (by decide) (by unfold AllDigits; decide)

end Raw

/-! ## Normalisation -/
section Normalisation
open SH.Norm

set_option maxRecDepth 200000 in
/-- the four sanity facts hold for the tables dumped from the Go toolchain on this run -/
theorem gen_tables_sane : SH.Gen.C11.tables.Sane where
  print_ascii := by decide
  space_ascii := fun c h1 h2 =>
    (by decide : ∀ c, c < 128 → 0x20 ≤ c → c ≤ 0x7e → SH.Gen.C11.tables.isSpace c = decide (c = 0x20)) c (by omega) h1 h2
  print_fffd := by decide
  space_fffd := by decide

/-- "Forcing any byte string into a tag value yields a valid value (UTF-8, at most 128 bytes, trimmed, single ASCII
    spaces, printable)": for every byte string, every IsSpace/IsPrint tables with the sanity facts and every length
    limit, the forced value passes validStringValue — which checks the length, rejects malformed UTF-8, leading,
    trailing, doubled and non-ASCII spaces and non-printable runes — and is at most maxLen bytes long. -/
theorem force_valid (T : Tables) (hT : T.Sane) (maxLen : Nat) (b : List UInt8) :
    valid T maxLen (force T maxLen b) = true ∧ (force T maxLen b).length ≤ maxLen := by
  have h := force_valid_aux T hT maxLen b
  refine ⟨h, ?_⟩
  rw [valid_eq] at h
  simp only [Bool.and_eq_true, decide_eq_true_eq] at h
  exact h.1

/-- "… that equals the input when the input was already valid" -/
theorem force_id_on_valid (T : Tables) (hT : T.Sane) (maxLen : Nat) (b : List UInt8) (hv : valid T maxLen b = true) :
    force T maxLen b = b := by
  rw [valid_eq] at hv
  simp only [Bool.and_eq_true, decide_eq_true_eq, Bool.or_eq_true] at hv
  unfold force appendValid
  by_cases h0 : b.isEmpty = true
  · simp only [h0, ↓reduceIte, Option.getD_some]
    cases b with
    | nil => rfl
    | cons _ _ => simp at h0
  · simp only [h0, Bool.false_eq_true, ↓reduceIte, List.nil_append]
    by_cases h1 : (decide (b.length ≤ maxLen) && fastOk b) = true
    · simp [h1]
    · simp only [h1, Bool.false_eq_true, ↓reduceIte]
      have hvl : validL T b true = true := by
        rcases hv.2 with h | h
        · exact absurd h h0
        · exact h
      rw [slow_id T hT true maxLen (b.length + 1) b [] true (Nat.le_refl _) hvl (by simpa using hv.1)]
      simp [trimLast]

/-- "… and forcing is idempotent" -/
theorem force_idempotent (T : Tables) (hT : T.Sane) (maxLen : Nat) (b : List UInt8) :
    force T maxLen (force T maxLen b) = force T maxLen b :=
  force_id_on_valid T hT maxLen _ (force_valid T hT maxLen b).1

/-- ForceValidStringValue (the string version with the "already valid" shortcut) is the same function -/
theorem forceStr_eq_force (T : Tables) (hT : T.Sane) (maxLen : Nat) (b : List UInt8) :
    forceStr T maxLen b = force T maxLen b := by
  unfold forceStr
  by_cases hv : valid T maxLen b = true
  · simp [hv, force_id_on_valid T hT maxLen b hv]
  · simp [hv]

/-- "strict normalization fails only on invalid UTF-8 …": on well-formed UTF-8 it succeeds, with the forced value
    appended to dst … -/
theorem strict_ok_on_utf8 (T : Tables) (maxLen : Nat) (dst b : List UInt8) (hu : utf8Valid b = true) :
    strict T maxLen dst b = some (dst ++ force T maxLen b) :=
  strict_of_utf8 T maxLen dst b hu

theorem strict_fails_only_on_bad_utf8 (T : Tables) (maxLen : Nat) (dst b : List UInt8)
    (h : strict T maxLen dst b = none) : utf8Valid b = false := by
  cases hu : utf8Valid b with
  | false => rfl
  | true => rw [strict_of_utf8 T maxLen dst b hu] at h; cases h

/-- "… and otherwise agrees with forcing": whenever it does not fail — also on malformed input whose damage lies
    beyond the point where the output is full — the result is dst followed by the forced value. -/
theorem strict_agrees_with_force (T : Tables) (maxLen : Nat) (dst b v : List UInt8)
    (h : strict T maxLen dst b = some v) : v = dst ++ force T maxLen b :=
  strict_some_eq T maxLen dst b v h

/-- The converse of strict_fails_only_on_bad_utf8 is FALSE for the code as it is (and the property does not claim it):
    malformed bytes after the 128-byte cut are never looked at. Statement kept for the record:
      theorem strict_agrees (T) (b) : strict T maxLen [] b = if utf8Valid b then some (force T maxLen b) else none
    Counterexample (maxLen 2 to keep it small; same with 128): -/
example : utf8Valid [0x61, 0x62, 0x63, 0xFF] = false ∧
    strict SH.Gen.C11.tables 2 [] [0x61, 0x62, 0x63, 0xFF] = some [0x61, 0x62] := by decide

/-- a valid value is well-formed UTF-8 of at most maxLen bytes -/
theorem valid_is_utf8 (T : Tables) (maxLen : Nat) (b : List UInt8) (hv : valid T maxLen b = true) :
    utf8Valid b = true ∧ b.length ≤ maxLen := by
  rw [valid_eq] at hv
  simp only [Bool.and_eq_true, decide_eq_true_eq, Bool.or_eq_true] at hv
  refine ⟨?_, hv.1⟩
  rcases hv.2 with h | h
  · cases b with
    | nil => rfl
    | cons _ _ => simp at h
  · exact valid_utf8_aux T _ b true h

/-! non-vacuity, on the toolchain's tables (bytes: 0x20 ' ', 0x09 tab, 0xC2 0xA0 = U+00A0, 0xE2 0x80 0x8B = U+200B) -/
def G := SH.Gen.C11.tables
set_option maxRecDepth 200000

example : force G 128 [0x20, 0x61, 0x09, 0x20, 0xC2, 0xA0, 0x62, 0x20] = [0x61, 0x20, 0x62] := by decide
example : force G 128 [0x61, 0xFF, 0xE2, 0x80, 0x8B] = [0x61, 0xEF, 0xBF, 0xBD, 0xEF, 0xBF, 0xBD] := by decide
example : strict G 128 [0x70] [0x61, 0xFF] = none ∧ strict G 128 [0x70] [0x20, 0x61] = some [0x70, 0x61] := by decide
example : valid G 128 [0x61, 0x20, 0xD0, 0x96] = true ∧ valid G 128 [0x61, 0x20, 0x20, 0x62] = false ∧
    valid G 128 [0x61, 0x20] = false ∧ valid G 128 [0xED, 0xA0, 0x80] = false := by decide
/-- truncation never splits a rune and never leaves a trailing space (limit 4 to keep it small) -/
example : force G 4 [0x61, 0x20, 0xD0, 0x96, 0xD0, 0x96] = [0x61, 0x20, 0xD0, 0x96] ∧
    force G 4 [0x61, 0x62, 0x63, 0x20, 0x64] = [0x61, 0x62, 0x63] ∧
    force G 4 [0x61, 0x62, 0x63, 0xD0, 0x96] = [0x61, 0x62, 0x63] := by decide

end Normalisation

end SH.C11
