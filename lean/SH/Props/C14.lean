/-
  C14 — Every protocol message and frame round-trips through its encodings.

  "For every generated TL type used by StatsHouse components (statshouse, metadata, engine, barsic, binlog and sqlite
   checkpoint schemas), writing a value in bare or boxed TL1, TL2 or JSON form and reading it back yields an equal
   value, and the byte-slice and string variants of a type produce identical encodings. Compressed bucket frames
   decompress to the original bytes, and undersized or oversized frames are rejected rather than misread."

  What is proved here (model: SH.Model.TL, primitives: SH.Lemmas.TL):
    * `tl1_roundtrip`  — ONE theorem for every TL1 descriptor (nat, fixed width, string in its three length forms with
      padding, vector, tuple, constructor with nat arguments and fields conditional on mask bits, boxed, union), every
      environment of nat arguments, every well-typed value and every trailing byte string: ReadTL1 (WriteTL1 v ++ rest)
      = (v, rest). By the mutual recursor of Desc / Flds / Alts.
    * `tl1_boxed_roundtrip`, `tl1_injective` (equal encodings ⇒ equal values: this is why the Go oracle may compare
      values through their canonical TL1 bytes), `tl1_prefix_free`.
    * `schema_roundtrip` — the instance for every descriptor of SH.Gen.C14.table / results, i.e. for the schema as it
      is in /repo *now* (the Gen file is regenerated from the .tl files on every run; `schema_tags_ok` re-checks by
      evaluation that every union of the current schema has pairwise distinct 32-bit tags, without which some values
      would not be well-typed).
    * frames: `frame_roundtrip` (lz4 abstract: any pair with unlz (lz x) |x| = x), `undersized_rejected`,
      `oversized_rejected`, `never_misread`, and `oversized_compressible_not_roundtrip` which shows that the size
      bound in `frame_roundtrip` is necessary (a compressible payload above MaxUncompressedBucketSize is framed by
      CompressAndFrame but refused by Decompress).
    * TL2: `tl2_size_roundtrip` (the size codec that frames every TL2 string/object/vector/dictionary, all three forms,
      every n ≤ MaxInt), `tl2_size_length`, `tl2_string_roundtrip`; tied to basictl2.go at every form boundary.
    * TL2 of the generated types: `tl2_roundtrip` — a second generic codec over the SAME descriptors and values
      (SH.Model.TL2: size-prefixed objects, presence-bit blocks with trimming, omitted defaults, conditional fields,
      enums, vectors, dictionaries), one theorem by the mutual recursor like `tl1_roundtrip`; `tl2_field_roundtrip`,
      `tl2_absent_is_default`; `schema_tl2_supported` (by evaluation: every type with generated TL2 code lies in the
      modelled fragment) and `schema_tl2_roundtrip` (the instance for each of them).
  Partial: JSON is not modelled (Go-side round-trip oracle for every type only: number and string *text* formatting); the "bytes and string
  variants encode identically" clause is a fact about two copies of generated Go code — in the model both are the one
  `Desc.str`, so it is checked by the Go oracle, not stated as a theorem.
-/
import SH.Lemmas.TL
import SH.Lemmas.TL2
import SH.Gen.C14

namespace SH.C14
open SH.TL

/-- the round-trip statement for one descriptor / field list / alternative list -/
def RT (d : Desc) : Prop := ∀ (env : Env) (v : Val) (r : Bytes), wt d env v = true →
    dec d env (enc d env v ++ r) = some (v, r)
def RTF (fs : Flds) : Prop := ∀ (env : Env) (vs : Vals) (r : Bytes), wtFlds fs env vs = true →
    decFlds fs env (encFlds fs env vs ++ r) = some (vs, r)
def RTA (alts : Alts) : Prop := ∀ (env : Env) (i : Nat) (v : Val) (r : Bytes) (k : Nat), wtAlt alts env i v = true →
    tagAt alts i < 4294967296 ∧
    decAlts alts env (tagAt alts i) (encAlt alts env i v ++ r) k = some (.alt (k + i) v, r)

theorem rt_nat : RT .nat := by
  intro env v r h
  cases v <;> simp [wt] at h
  simp [enc, dec, readNat_le32 _ h]

theorem wt_fixed (w : Nat) (env : Env) (v : Val) (h : wt (.fixed w) env v = true) : ∃ b, v = .raw b ∧ b.length = w := by
  cases v <;> simp [wt] at h
  exact ⟨_, rfl, h⟩

theorem rt_fixed (w : Nat) : RT (.fixed w) := by
  intro env v r h
  obtain ⟨b, rfl, hw⟩ := wt_fixed w env v h
  rw [enc, dec, ← hw, takeN_append]

theorem rt_str : RT .str := by
  intro env v r h
  cases v <;> simp [wt] at h
  simp [enc, dec, decStr_encStr _ _ h]

theorem wt_vec (t : Desc) (env : Env) (v : Val) (h : wt (.vec t) env v = true) :
    ∃ vs, v = .list vs ∧ vs.length < 4294967296 ∧ allVals (wt t env) vs = true := by
  cases v <;> simp [wt] at h
  exact ⟨_, rfl, h.1, h.2⟩

theorem rt_vec (t : Desc) (ih : RT t) : RT (.vec t) := by
  intro env v r h
  obtain ⟨vs, rfl, h1, h2⟩ := wt_vec t env v h
  have key := decN_encVals (enc t env) (dec t env) (wt t env) (fun v r hv => ih env v r hv) vs r h2
  rw [enc, dec, List.append_assoc, readNat_le32 _ h1]
  simp only [key]

theorem wt_tup (n : NatE) (t : Desc) (env : Env) (v : Val) (h : wt (.tup n t) env v = true) :
    ∃ vs, v = .list vs ∧ vs.length = n.eval env ∧ allVals (wt t env) vs = true := by
  cases v <;> simp [wt] at h
  exact ⟨_, rfl, h.1, h.2⟩

theorem rt_tup (n : NatE) (t : Desc) (ih : RT t) : RT (.tup n t) := by
  intro env v r h
  obtain ⟨vs, rfl, h1, h2⟩ := wt_tup n t env v h
  have key := decN_encVals (enc t env) (dec t env) (wt t env) (fun v r hv => ih env v r hv) vs r h2
  rw [enc, dec, ← h1]
  simp only [key]

theorem wt_struct (args : List NatE) (fs : Flds) (env : Env) (v : Val) (h : wt (.struct args fs) env v = true) :
    ∃ vs, v = .recd vs ∧ wtFlds fs (evalArgs env args) vs = true := by
  cases v <;> simp [wt] at h
  exact ⟨_, rfl, h⟩

theorem rt_struct (args : List NatE) (fs : Flds) (ih : RTF fs) : RT (.struct args fs) := by
  intro env v r h
  obtain ⟨vs, rfl, h1⟩ := wt_struct args fs env v h
  simp only [enc, dec, ih (evalArgs env args) vs r h1]

theorem rt_boxed (tag : Nat) (t : Desc) (ih : RT t) : RT (.boxed tag t) := by
  intro env v r h
  simp only [wt, Bool.and_eq_true, decide_eq_true_eq] at h
  simp only [enc, dec, List.append_assoc, readNat_le32 _ h.1, if_true, ih env v r h.2]

theorem wt_union (alts : Alts) (env : Env) (v : Val) (h : wt (.union alts) env v = true) :
    ∃ i w, v = .alt i w ∧ wtAlt alts env i w = true := by
  cases v <;> simp [wt] at h
  exact ⟨_, _, rfl, h⟩

theorem rt_union (alts : Alts) (ih : RTA alts) : RT (.union alts) := by
  intro env v r h
  obtain ⟨i, w, rfl, h1⟩ := wt_union alts env v h
  obtain ⟨ht, hd⟩ := ih env i w r 0 h1
  simp only [enc, dec, List.append_assoc, readNat_le32 _ ht, hd, Nat.zero_add]

theorem rtf_nil : RTF .nil := by
  intro env vs r h
  cases vs <;> simp [wtFlds] at h
  simp [encFlds, decFlds]

theorem wt_natF (rest : Flds) (env : Env) (vs : Vals) (h : wtFlds (.natF rest) env vs = true) :
    ∃ n vs', vs = .cons (.nat n) vs' ∧ n < 4294967296 ∧ wtFlds rest (env ++ [n]) vs' = true := by
  cases vs with
  | nil => simp [wtFlds] at h
  | cons v vs' =>
    cases v <;> simp [wtFlds] at h
    exact ⟨_, _, rfl, h.1, h.2⟩

theorem rtf_natF (rest : Flds) (ih : RTF rest) : RTF (.natF rest) := by
  intro env vs r h
  obtain ⟨n, vs', rfl, h1, h2⟩ := wt_natF rest env vs h
  simp only [encFlds, decFlds, List.append_assoc, readNat_le32 _ h1, ih (env ++ [n]) vs' r h2]

theorem rtf_fld (t : Desc) (rest : Flds) (iht : RT t) (ih : RTF rest) : RTF (.fld t rest) := by
  intro env vs r h
  cases vs with
  | nil => simp [wtFlds] at h
  | cons v vs' =>
    simp only [wtFlds, Bool.and_eq_true] at h
    simp only [encFlds, decFlds, List.append_assoc, iht env v _ h.1, ih env vs' r h.2]

theorem rtf_opt (m : NatE) (bit : Nat) (t : Desc) (rest : Flds) (iht : RT t) (ih : RTF rest) : RTF (.opt m bit t rest) := by
  intro env vs r h
  cases vs with
  | nil => simp [wtFlds] at h
  | cons v vs' =>
    by_cases hb : bitSet env m bit = true
    · simp only [wtFlds, hb, if_true, Bool.and_eq_true] at h
      simp only [encFlds, decFlds, hb, if_true, List.append_assoc, iht env v _ h.1, ih env vs' r h.2]
    · have hb' : bitSet env m bit = false := by simpa using hb
      cases v <;> simp [wtFlds, hb', Val.isNone] at h
      simp only [encFlds, decFlds, hb', Bool.false_eq_true, if_false, ih env vs' r h]

theorem rta_nil : RTA .nil := by
  intro env i v r k h
  simp [wtAlt] at h

theorem rta_cons (tag : Nat) (t : Desc) (rest : Alts) (iht : RT t) (ih : RTA rest) : RTA (.cons tag t rest) := by
  intro env i v r k h
  cases i with
  | zero =>
    simp only [wtAlt, Bool.and_eq_true, decide_eq_true_eq] at h
    refine ⟨by simpa [tagAt] using h.1, ?_⟩
    simp only [tagAt, encAlt, decAlts, if_true, iht env v r h.2, Nat.add_zero]
  | succ i =>
    simp only [wtAlt, Bool.and_eq_true, bne_iff_ne, ne_eq] at h
    obtain ⟨ht, hd⟩ := ih env i v r (k + 1) h.2
    refine ⟨by simpa [tagAt] using ht, ?_⟩
    simp only [tagAt, encAlt, decAlts, h.1, if_false, hd]
    congr 3
    omega

/-- **TL1 round trip, every descriptor.** For every descriptor `d`, environment of nat arguments, well-typed value
    `v` and trailing bytes `rest`: reading what was written yields the value and leaves the trailing bytes alone. -/
theorem tl1_roundtrip (d : Desc) (env : Env) (v : Val) (rest : Bytes) (hv : wt d env v = true) :
    dec d env (enc d env v ++ rest) = some (v, rest) :=
  (Desc.rec (motive_1 := RT) (motive_2 := RTF) (motive_3 := RTA)
    rt_nat rt_fixed rt_str rt_vec rt_tup rt_struct rt_boxed rt_union
    rtf_nil rtf_natF rtf_fld rtf_opt rta_nil rta_cons d) env v rest hv

/-- boxed form (ReadTL1Boxed ∘ WriteTL1Boxed) of any constructor with a 32-bit tag -/
theorem tl1_boxed_roundtrip (tag : Nat) (ht : tag < 4294967296) (d : Desc) (env : Env) (v : Val) (rest : Bytes)
    (hv : wt d env v = true) :
    dec (.boxed tag d) env (enc (.boxed tag d) env v ++ rest) = some (v, rest) := by
  apply tl1_roundtrip
  simp [wt, ht, hv]

/-- two well-typed values followed by anything: if the byte strings agree, the values and the trailers agree
    (no encoding is a proper prefix of another one) -/
theorem tl1_prefix_free (d : Desc) (env : Env) (v1 v2 : Val) (r1 r2 : Bytes)
    (h1 : wt d env v1 = true) (h2 : wt d env v2 = true) (he : enc d env v1 ++ r1 = enc d env v2 ++ r2) :
    v1 = v2 ∧ r1 = r2 := by
  have a := tl1_roundtrip d env v1 r1 h1
  have b := tl1_roundtrip d env v2 r2 h2
  rw [he, b] at a
  simpa using a.symm

/-- equal TL1 bytes ⇒ equal values -/
theorem tl1_injective (d : Desc) (env : Env) (v1 v2 : Val)
    (h1 : wt d env v1 = true) (h2 : wt d env v2 = true) (he : enc d env v1 = enc d env v2) : v1 = v2 := by
  have := tl1_prefix_free d env v1 v2 [] [] h1 h2 (by rw [he])
  exact this.1

/-- the round trip for every type of the schema as translated from /repo's .tl files on this run, bare and boxed -/
theorem schema_roundtrip (name : String) (tag : Nat) (isU : Bool) (d : Desc)
    (_hm : (name, tag, isU, d) ∈ SH.Gen.C14.table) (v : Val) (rest : Bytes) (hv : wt d [] v = true) :
    dec d [] (enc d [] v ++ rest) = some (v, rest) ∧
    (tag < 4294967296 → dec (.boxed tag d) [] (enc (.boxed tag d) [] v ++ rest) = some (v, rest)) :=
  ⟨tl1_roundtrip d [] v rest hv, fun ht => tl1_boxed_roundtrip tag ht d [] v rest hv⟩

/-- the same for every function result type, in any environment (the function's `#` fields) -/
theorem schema_result_roundtrip (name : String) (d : Desc) (_hm : (name, d) ∈ SH.Gen.C14.results)
    (env : Env) (v : Val) (rest : Bytes) (hv : wt d env v = true) :
    dec d env (enc d env v ++ rest) = some (v, rest) :=
  tl1_roundtrip d env v rest hv

/-! #### the hypotheses are satisfiable by the current schema -/

/-- tags of a union -/
def altTags : Alts → List Nat
  | .nil => []
  | .cons tag _ rest => tag :: altTags rest

mutual
/-- every boxed / union tag fits 32 bits and the tags of one union are pairwise distinct (so every alternative of
    every union has well-typed values, cf. `wtAlt`) -/
def tagsOk : Desc → Bool
  | .vec t => tagsOk t
  | .tup _ t => tagsOk t
  | .struct _ fs => tagsOkF fs
  | .boxed tag t => tag < 4294967296 && tagsOk t
  | .union alts => (altTags alts).Nodup && tagsOkA alts
  | _ => true
def tagsOkF : Flds → Bool
  | .nil => true
  | .natF rest => tagsOkF rest
  | .fld t rest => tagsOk t && tagsOkF rest
  | .opt _ _ t rest => tagsOk t && tagsOkF rest
def tagsOkA : Alts → Bool
  | .nil => true
  | .cons tag t rest => tag < 4294967296 && tagsOk t && tagsOkA rest
end

set_option maxRecDepth 1000000 in
/-- evaluated on the regenerated schema: a schema edit that makes two constructors of a union share a tag fails here -/
theorem schema_tags_ok :
    SH.Gen.C14.table.all (fun e => tagsOk e.2.2.2 && e.2.1 < 4294967296) = true ∧
    SH.Gen.C14.results.all (fun e => tagsOk e.2) = true := by
  constructor <;> decide

/-! non-vacuity: a statshouse.multiItem with skeys (bit 12), t (bit 10), a multiValue tail that takes the mask as its
    nat argument (counter, bit 0) and a 253/254-byte string boundary is exercised by the correspondence; here a small
    concrete value of the *generated* descriptor is well-typed and round-trips by evaluation. -/
def exItem : Val :=
  .recd (.cons (.nat 0x1401) (.cons (.raw [1, 0, 0, 0]) (.cons (.list (.cons (.raw [2, 0, 0, 0]) .nil))
    (.cons (.list (.cons (.str [0x61, 0x62]) .nil)) (.cons .none (.cons (.nat 7)
    (.cons (.recd (.cons (.raw [0, 0, 0, 0, 0, 0, 0xf0, 0x3f]) (.cons .none (.cons .none (.cons .none (.cons .none
      (.cons .none (.cons .none (.cons .none (.cons .none (.cons .none (.cons .none (.cons .none (.cons .none
      (.cons .none (.cons .none (.cons .none .nil)))))))))))))))))
    (.cons .none .nil))))))))

example : wt SH.Gen.C14.d_data_model_statshouse_multiItem [] exItem = true := by decide
example : enc SH.Gen.C14.d_data_model_statshouse_multiItem [] exItem =
    [1, 0x14, 0, 0,  1, 0, 0, 0,  1, 0, 0, 0, 2, 0, 0, 0,  1, 0, 0, 0, 2, 0x61, 0x62, 0,  7, 0, 0, 0,
     0, 0, 0, 0, 0, 0, 0xf0, 0x3f] := by decide
example : dec SH.Gen.C14.d_data_model_statshouse_multiItem []
    (enc SH.Gen.C14.d_data_model_statshouse_multiItem [] exItem ++ [9]) = some (exItem, [9]) := by decide
/-- a union value (Bool inside engine.reindexStatusDone is boxed boolTrue) and a non-canonical string are handled -/
example : dec (.union (.cons 5 (.struct [] .nil) (.cons 7 .nat .nil))) [] [7, 0, 0, 0, 9, 0, 0, 0] =
    some (.alt 1 (.nat 9), []) := by decide
example : dec .str [] [254, 3, 0, 0, 1, 2, 3, 0] = none := by decide        -- medium form for a short length
example : dec .str [] [3, 1, 2, 3] = some (.str [1, 2, 3], []) := by decide
example : dec .str [] [2, 1, 2, 1] = none := by decide                       -- non-zero padding

/-! ### TL2: the size codec and strings (basictl2.go)

  Every TL2 string, object, vector and dictionary is framed by `TL2WriteSize`; the three forms switch at 254 and
  254 + 2^16. The generated TL2 object codecs themselves stay oracle-only. -/

/-- TL2ParseSize (TL2WriteSize n ++ rest) = (n, rest) for every size an `int` can hold -/
theorem tl2_size_roundtrip (n : Nat) (hn : n ≤ maxInt) (r : Bytes) :
    tl2ParseSize (tl2WriteSize n ++ r) = some (n, r) := tl2_size_rt n hn r

/-- TL2CalculateSize is the number of bytes TL2WriteSize / TL2PutSize produce -/
theorem tl2_size_length (n : Nat) : (tl2WriteSize n).length = tl2CalculateSize n := tl2_size_len n

/-- StringReadTL2 (StringWriteTL2 b ++ rest) = (b, rest) -/
theorem tl2_string_roundtrip (b r : Bytes) (hn : b.length ≤ maxInt) :
    tl2ReadStr (tl2WriteStr b ++ r) = some (b, r) := tl2_string_rt b r hn

example : tl2WriteSize 65789 = [254, 255, 255] := by decide
example : tl2WriteSize 65790 = [255, 254, 0, 1, 0, 0, 0, 0, 0] := by decide
example : tl2ParseSize [254, 0, 0, 7] = some (254, [7]) := by decide
example : tl2ParseSize [255, 3, 0, 0, 0, 0, 0, 0, 0] = some (3, []) := by decide          -- non-canonical huge form accepted
example : tl2ParseSize [255, 0, 0, 0, 0, 0, 0, 0, 128] = none := by decide                -- > MaxInt
example : tl2ParseSize [254, 1] = none := by decide

/-! ### TL2 of the generated types (SH.Model.TL2): a second codec over the same descriptors and values

  `wt2` (SH.Lemmas.TL2) = the values of the modelled fragment: `#`/int/long, strings, Bool, enums, objects with plain and
  conditional fields, vectors and dictionaries, every body short enough for its size prefix. -/

/-- **TL2 round trip, every descriptor of the fragment**: reading what WriteTL2 wrote (top level, vector element or
    payload of a conditional field — always written in full) yields the value and leaves the trailing bytes alone. -/
theorem tl2_roundtrip (d : Desc) (v : Val) (rest : Bytes) (hs : tl2Supported d = true) (hb : headIsBool d = false)
    (hv : wt2 d v = true) : decE d (encE d v ++ rest) = some (v, rest) :=
  (rt2_all d hs).elem v rest hv hb

/-- a plain field that is written (non-empty bytes) reads back as the value … -/
theorem tl2_field_roundtrip (d : Desc) (v : Val) (rest : Bytes) (hs : tl2Supported d = true) (hv : wt2 d v = true)
    (hp : encF d v ≠ []) : decE d (encF d v ++ rest) = some (v, rest) :=
  (rt2_all d hs).fld v rest hv hp

/-- … and a plain field that is omitted is exactly the default value the reader fills in for a clear presence bit. -/
theorem tl2_absent_is_default (d : Desc) (v : Val) (hs : tl2Supported d = true) (hv : wt2 d v = true)
    (ha : encF d v = []) : v = defaultV d :=
  (rt2_all d hs).fdef v hv ha

/-- every type the generator produced TL2 code for (table regenerated from /repo on this run) lies in the fragment -/
theorem schema_tl2_supported :
    SH.Gen.C14.tl2table.all (fun e => tl2Supported e.2 && !headIsBool e.2) = true := by decide

/-- the TL2 round trip for every generated type that has TL2 -/
theorem schema_tl2_roundtrip (name : String) (d : Desc) (hm : (name, d) ∈ SH.Gen.C14.tl2table)
    (v : Val) (rest : Bytes) (hv : wt2 d v = true) : decE d (encE d v ++ rest) = some (v, rest) := by
  have h := List.all_eq_true.1 schema_tl2_supported (name, d) hm
  simp only [Bool.and_eq_true, Bool.not_eq_true'] at h
  exact tl2_roundtrip d v rest h.1 h.2 hv

/-! non-vacuity on generated descriptors: a statshouseApi.tagValue (mask, Bool, string, non-zero enum), and a
    statshouseApi.query whose only non-default fields sit in the second and third block of slots (the first block
    byte is 0, the body is cut right after the last presence byte) -/
def exTagValue : Val :=
  .recd (.cons (.nat 5) (.cons (.alt 1 (.recd .nil)) (.cons (.str [0x61]) (.cons (.alt 2 (.recd .nil)) .nil))))

example : wt2 SH.Gen.C14.d_data_model_statshouseApi_tagValue exTagValue = true := by decide
example : encE SH.Gen.C14.d_data_model_statshouseApi_tagValue exTagValue =
    [11, 0x1e, 5, 0, 0, 0, 1, 1, 0x61, 2, 1, 2] := by decide
example : decE SH.Gen.C14.d_data_model_statshouseApi_tagValue
    (encE SH.Gen.C14.d_data_model_statshouseApi_tagValue exTagValue ++ [9]) = some (exTagValue, [9]) := by decide
example : wt SH.Gen.C14.d_data_model_statshouseApi_tagValue [] exTagValue = true := by decide   -- the same value is TL1 well-typed

def exQuery : Val :=
  .recd (.cons (.nat 0) (.cons (.raw [0, 0, 0, 0]) (.cons (.raw [0, 0, 0, 0]) (.cons (.str [])
    (.cons (.raw [0, 0, 0, 0, 0, 0, 0, 0]) (.cons (.raw [0, 0, 0, 0, 0, 0, 0, 0]) (.cons (.str [])
    (.cons (.alt 0 (.recd .nil)) (.cons (.list (.cons (.str [0x61]) .nil)) (.cons (.list .nil) (.cons (.list .nil)
    (.cons .none (.cons .none (.cons .none (.cons .none (.cons .none (.cons .none (.cons .none
    (.cons (.recd .nil) .nil)))))))))))))))))))

example : wt2 SH.Gen.C14.d_data_model_statshouseApi_query exQuery = true := by decide
/-- size 7; block 0 empty; block 1: group_by (slot 9); the vector (size 3, one element "a"); block 2: max_host_flag (slot 19) -/
example : encE SH.Gen.C14.d_data_model_statshouseApi_query exQuery = [7, 0, 2, 3, 1, 1, 0x61, 8] := by decide
example : decE SH.Gen.C14.d_data_model_statshouseApi_query
    (encE SH.Gen.C14.d_data_model_statshouseApi_query exQuery ++ [9]) = some (exQuery, [9]) := by decide

/-! ### reused destinations

  The generated readers fill an existing object (`item.ReadTL1(w)` without Reset, slices and maps reused). In this
  model `dec` is a *function* of the descriptor, the environment and the bytes — there is no destination whose previous
  content it could depend on — so "reading into a used object yields the same value as reading into a fresh one" is
  not a theorem about the model but an obligation on the correspondence: the harness produces the observation of some
  `dec` ops from an object (both the string and the []byte variant) that has just read another, fully populated value
  of the same type, and the driver's answer must still match; the Go oracle additionally compares the reused object
  field by field with a freshly read one (`tl1-reused-*`, `tl2-reused-*`). -/

/-! ### bucket frames

  `frameOf lz x` and `encE d v` are values: functions of their arguments. The Go functions have hidden state the model
  has no place for (a scratch buffer CompressAndFrame might reuse, the optional shared TL2WriteContext of WriteTL2). That
  a frame handed to the caller stays what it was while later payloads are compressed, and that the TL2 bytes do not depend
  on which values went through the same context before, is therefore checked where the state lives: the harness keeps
  every frame of a case alive across the later CompressAndFrame calls and re-checks it (`frame-changed-after-later-compress`),
  and writes every TL2 value through a context shared with values of other types, comparing with the fresh-context bytes
  and with the model's encoding (`tl2-shared-context-differs`, `tl2-write-panic`). -/

theorem deFrame_le32 (n : Nat) (hn : n < 4294967296) (body : Bytes) : deFrame (le32 n ++ body) = some (n, body) := by
  unfold deFrame
  have hl : ¬ (le32 n ++ body).length < 4 := by simp [le32]
  simp only [hl, if_false, readNat_le32 n hn]

/-- **Compressed bucket frames decompress to the original bytes**: for every payload `x` within the bucket size limit
    (and below the 32-bit size field), every compressor output `lz` and every decompressor `unlz` that inverts it. -/
theorem frame_roundtrip (maxU : Nat) (unlz : Bytes → Nat → Option Bytes) (x lz : Bytes)
    (hmax : x.length ≤ maxU) (h32 : x.length < 4294967296)
    (hinv : unlz lz x.length = some x) :
    unframe maxU unlz (frameOf lz x) = some x := by
  unfold unframe frameOf
  rw [deFrame_le32 _ h32]
  by_cases hc : lz.length ≥ x.length
  · simp [hc, decompress]
  · have hne : ¬ x.length = lz.length := by omega
    have hb : tooBig maxU x.length = false := by simp [tooBig]; omega
    simp [hc, decompress, hne, hb, hinv]

/-- the bound is needed: a payload above the limit that lz4 does shrink is framed but then refused -/
theorem oversized_compressible_not_roundtrip (maxU : Nat) (unlz : Bytes → Nat → Option Bytes) (x lz : Bytes)
    (hbig : x.length > maxU) (h32 : x.length < 4294967296) (hshrink : lz.length < x.length) :
    unframe maxU unlz (frameOf lz x) = none := by
  unfold unframe frameOf
  rw [deFrame_le32 _ h32]
  have hc : ¬ lz.length ≥ x.length := by omega
  have hne : ¬ x.length = lz.length := by omega
  have hb : tooBig maxU x.length = true := by simp [tooBig]; omega
  simp [hc, decompress, hne, hb]

/-- **undersized frames are rejected** (fewer than the four size bytes) -/
theorem undersized_rejected (maxU : Nat) (unlz : Bytes → Nat → Option Bytes) (f : Bytes) (h : f.length < 4) :
    unframe maxU unlz f = none := by
  simp [unframe, deFrame, h]

/-- **oversized frames are rejected**: a size field above the limit that is not simply the length of an uncompressed
    body is refused whatever lz4 would have said (it is not even called) -/
theorem oversized_rejected (maxU : Nat) (unlz : Bytes → Nat → Option Bytes) (size : Nat) (data : Bytes)
    (hbig : size > maxU) (hne : size ≠ data.length) : decompress maxU unlz size data = none := by
  have hb : tooBig maxU size = true := by simp [tooBig]; omega
  simp [decompress, hne, hb]

/-- **rather than misread**: whatever comes out has exactly the announced size -/
theorem never_misread (maxU : Nat) (unlz : Bytes → Nat → Option Bytes) (size : Nat) (data out : Bytes)
    (h : decompress maxU unlz size data = some out) : out.length = size := by
  unfold decompress at h
  by_cases h1 : size = data.length
  · simp [h1] at h; subst h; exact h1.symm
  · simp only [h1, if_false] at h
    by_cases h2 : tooBig maxU size = true
    · simp [h2] at h
    · simp only [h2] at h
      cases hu : unlz data size with
      | none => simp [hu] at h
      | some o =>
        simp only [hu] at h
        by_cases h3 : o.length = size
        · simp [h3] at h; subst h; exact h3
        · simp [h3] at h

/-- non-vacuity of `frame_roundtrip` / `oversized_rejected` / `never_misread` with a toy inverse pair -/
example : unframe 100 (fun d n => if d = [9] ∧ n = 4 then some [7, 7, 7, 7] else none) (frameOf [9] [7, 7, 7, 7])
    = some [7, 7, 7, 7] := by decide
example : unframe 100 (fun _ _ => none) (frameOf [1, 2, 3, 4, 5] [7, 7]) = some [7, 7] := by decide   -- stored raw
example : decompress 100 (fun _ _ => some [1]) 101 [1, 2] = none := by decide
example : decompress 100 (fun _ _ => some [1]) 3 [1, 2] = none := by decide                              -- short output
example : SH.Gen.C14.maxUncompressedBucketSize = 10485760 := by decide

end SH.C14
