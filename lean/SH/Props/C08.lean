/-
  C08 — Agent places every accepted event in exactly one correct send second.

  "Every event an agent shard accepts is delivered to sending in exactly one bucket, never in a bucket earlier than the
   event's clamped timestamp, with timestamps of low-resolution metrics rounded down to a multiple of the resolution. All
   agents therefore place the same series in the same second regardless of mapping-cache contents or tag order: when the
   row is not late, its send second depends only on the metric, its original tag values and the timestamp. Events are
   dropped only while the receive queue has a gap, during shutdown, or on a secondary shard before its configured start
   time."
  Quantifier: all sequences of events (any timestamps, resolutions, tag orders, cached/uncached mappings) interleaved with
  flush iterations under any clock progression including pauses and jumps.

  Model: SH.Model.AgentQueue (state machine of one agent.Shard: CurrentTime, SendTime, the ring as a list of
  (cell, event) pairs, stop flag, the preprocess channel, ghost ids). A history is an arbitrary `List Op`
  (events through every entry point / ApplyMetric, `flush nowMs` with an ARBITRARY clock value per call — pauses, jumps
  ahead and back are just values —, consumer drains or not, stop, final FlushAllData). Constants come from SH.Gen.C08,
  regenerated from /repo on every run, so a changed superQueueLen / superQueueFutureSlots / gap literal / resolution table
  re-checks `slot_in_window` (the one place where they must fit together).

  Reading:
    exactly one bucket        → `exactly_once` (always: ring cell or one pushed bucket, exactly once) and
                                `delivered_exactly_once` (after FlushAllData: ring empty, once in the pushed buckets)
    never earlier, rounded    → `slot_in_window` (one step, all inputs) lifted to all histories in `delivered_not_early`
                                / `resident_not_early` through the invariant `TInv`
    same second on all agents → `placement_deterministic`, `same_second_on_all_agents`, `delivered_not_early` (bucket second
                                = slot when no jump-ahead lap in between) and `resolution_hash_input_independent`
                                (`ov_cache_independent`, `ov_order_independent`)
    drops                     → `drop_only_when`, `accepted_iff_placed`
    two shards (ApplyMetric)  → `am2Step` (primary always with dropIfBefore 0, secondary iff configured, with its start):
                                `run2_shard`, `two_shard_exactly_once`, `two_shard_delivered`, `primary_independent_of_secondary`,
                                `primary_drop_only_gap_or_stop`, `secondary_drop_only_when`, `unconfigured_shard_untouched`
  Assumptions (hypotheses `OpOk`, `hw ∈ allowedResolutions`): resolutions are values of format.AllowedResolution — enforced in
  the code by MetricMetaValue.RestoreCachedInfo and Config validation. uint32 wrap-around is outside the model.
-/
import SH.Model.AgentQueue
namespace SH.C08
open SH.AgentQueue SH.Gen.C08

/-- unfold the regenerated constants to literals (omega does not look through them) -/
macro "konst" : tactic =>
  `(tactic| try simp only [W, F, K, superQueueLen, superQueueFutureSlots, gapLiteral, agentWindowMs, statusResolution] at *)

theorem allowed_bounds : ∀ r ∈ allowedResolutions, 1 ≤ r ∧ 2 * r ≤ K := by decide

theorem shardNum_lt (hash res : Nat) (hr : 1 ≤ res) : shardNum hash res < res := by
  unfold shardNum
  apply Nat.div_lt_of_lt_mul
  have : hash % 4294967296 < 4294967296 := Nat.mod_lt _ (by decide)
  exact Nat.mul_lt_mul_of_lt_of_le this (Nat.le_refl _) hr

theorem roundTs_le (ts res : Nat) : roundTs ts res ≤ ts := Nat.div_mul_le_self ts res

theorem roundTs_gt (ts res : Nat) (hr : 1 ≤ res) : ts < roundTs ts res + res := by
  unfold roundTs
  exact Nat.lt_div_mul_add hr

theorem roundTs_dvd (ts res : Nat) : res ∣ roundTs ts res := Nat.dvd_mul_left res (ts / res)

theorem clampTs_le (ts cur : Nat) : clampTs ts cur ≤ cur + F := by
  unfold clampTs isFuture
  split
  · exact Nat.le_refl _
  · rename_i h; simp at h; exact h

theorem gap_ok (cur send : Nat) (h : gapPos cur send = false) : cur + K ≤ send + (W - F) := by
  unfold gapPos gap at h
  simp at h
  konst
  omega

/-- late correction of the low-resolution branch lands in [send, send + res) -/
theorem late_fix (s0 send res : Nat) (hr : 1 ≤ res) (hl : s0 < send) :
    send ≤ s0 + (send - s0 + res - 1) / res * res ∧ s0 + (send - s0 + res - 1) / res * res < send + res := by
  have h1 := Nat.div_mul_le_self (send - s0 + res - 1) res
  have h2 : send - s0 + res - 1 < (send - s0 + res - 1) / res * res + res := Nat.lt_div_mul_add hr
  generalize (send - s0 + res - 1) / res * res = m at *
  omega

/-- **slot_in_window.** Whenever the receive queue has no gap and the resolution is one of the allowed ones, the slot chosen
    by resolutionShardFromHashLocked lies in the window [SendTime, SendTime + superQueueLen) — so `slot % superQueueLen`
    names a ring cell that has not yet been flushed for that second and will not be flushed for an earlier one —
    and is never earlier than the clamped timestamp. -/
theorem slot_in_window (cur send ts res hash : Nat) (hg : gapPos cur send = false) (hr : res ∈ allowedResolutions) :
    send ≤ slotOf (clampTs ts cur) res hash send ∧ slotOf (clampTs ts cur) res hash send < send + W ∧
    clampTs ts cur ≤ slotOf (clampTs ts cur) res hash send := by
  have hb := allowed_bounds res hr
  have hc := clampTs_le ts cur
  have hgap := gap_ok cur send hg
  generalize clampTs ts cur = cts at *
  konst
  unfold slotOf
  split
  · unfold slot1; split <;> omega
  · have h1 := roundTs_le cts res
    have h2 := roundTs_gt cts res hb.1
    have h3 := shardNum_lt hash res hb.1
    generalize roundTs cts res = kts at *
    generalize shardNum hash res = sn at *
    unfold slotN slotN0
    split
    · rename_i hl
      have := late_fix (kts + res + sn) send res hb.1 hl
      omega
    · omega

/-- **Ring capacity.** The arithmetic that ties `superQueueLen`, `superQueueFutureSlots`, the literal in
    gapInReceivingQueueLocked and the largest allowed resolution together (all four as regenerated from /repo): for EVERY event a
    shard accepts (shouldDiscardIncomingData false, i.e. not stopping and gap ≤ 0) the target slot is below
    SendTime + superQueueLen, so `slot % superQueueLen` never wraps onto a cell that is flushed before the slot's second —
    and it is not below SendTime, so it never names a cell already flushed for this lap. -/
theorem accepted_slot_within_ring (s : S) (ts res hash : Nat) (ha : AgentQueue.discard s = false) (hr : res ∈ allowedResolutions) :
    slotOf (clampTs ts s.cur) res hash s.send < s.send + superQueueLen ∧ s.send ≤ slotOf (clampTs ts s.cur) res hash s.send := by
  have hg : gapPos s.cur s.send = false := by
    unfold AgentQueue.discard at ha
    cases h1 : s.stop <;> cases h2 : gapPos s.cur s.send <;> simp_all
  have := slot_in_window s.cur s.send ts res hash hg hr
  exact ⟨this.2.1, this.1⟩

/-- gapInReceivingQueueLocked with another literal in place of the 120 (to state what a changed literal would do) -/
def gapWith (k cur send : Nat) : Int := (cur : Int) - ((send : Int) + ((W : Int) - (F : Int)) - (k : Int))

theorem gapWith_K (cur send : Nat) : gapWith K cur send = gap cur send := rfl

theorem keyTs_eq (cts res : Nat) : keyTs cts res = roundTs cts res := by
  unfold keyTs roundTs
  split
  · rename_i h; subst h; simp
  · rfl

/-! ### invariants of the ring: every resident event is due at its slot (plus whole laps added by jump-ahead) -/

/-- the second at which ring cell `c` will next be flushed, seen from SendTime = `send` -/
def due (send c : Nat) : Nat := send + (c + W - send % W) % W

theorem due_slot (send sl : Nat) (h1 : send ≤ sl) (h2 : sl < send + W) : due send (sl % W) = sl := by
  unfold due; konst; omega

theorem due_self (send : Nat) : due send (send % W) = send := by
  unfold due; konst; omega

theorem due_step (send c : Nat) (hc : c < W) (hne : c ≠ send % W) : due (send + 1) c = due send c := by
  unfold due; konst; omega

theorem due_jump (send c k : Nat) : due (send + k * W) c = due send c + k * W := by
  unfold due; konst; omega

/-- what is fixed when an event is created: stored timestamp = clamped timestamp rounded down to the resolution; slot not
    earlier than the clamped timestamp -/
def EvOk (e : Ev) : Prop := e.ts = roundTs e.cts e.res ∧ e.cts ≤ e.slot

def RingOk (s : S) : Prop :=
  ∀ p ∈ s.ring, p.1 = p.2.slot % W ∧ p.2.lap ≤ s.laps ∧ due s.send p.1 = p.2.slot + (s.laps - p.2.lap) * W ∧ EvOk p.2

def OutOk (s : S) : Prop :=
  ∀ b ∈ s.out, ∀ e ∈ b.items, e.lap ≤ b.lap ∧ b.time = e.slot + (b.lap - e.lap) * W ∧ EvOk e

def CfgOk (s : S) : Prop := s.hwRes ∈ allowedResolutions ∧ s.hwSlow ∈ allowedResolutions

def TInv (s : S) : Prop := RingOk s ∧ OutOk s ∧ CfgOk s

theorem discard_false {s : S} (h : ¬ AgentQueue.discard s = true) : s.stop = false ∧ gapPos s.cur s.send = false := by
  unfold AgentQueue.discard at h
  cases hs : s.stop <;> cases hg : gapPos s.cur s.send <;> simp_all

theorem accept_TInv (s : S) (id ts res hash drop : Nat) (aux : Bool) (hr : res ∈ allowedResolutions) (h : TInv s) :
    TInv (accept s id ts res hash drop aux).1 := by
  unfold accept
  split
  · exact h
  · split
    · exact h
    · rename_i hd _
      have hg := (discard_false hd).2
      have hw := slot_in_window s.cur s.send ts res hash hg hr
      refine ⟨?_, h.2.1, h.2.2⟩
      intro p hp
      simp only [insertEv, List.mem_cons] at hp
      rcases hp with rfl | hp
      · refine ⟨rfl, Nat.le_refl _, ?_, keyTs_eq _ _, hw.2.2⟩
        show due s.send (slotOf (clampTs ts s.cur) res hash s.send % W) = slotOf (clampTs ts s.cur) res hash s.send + (s.laps - s.laps) * W
        rw [due_slot _ _ hw.1 hw.2.1]; simp
      · exact h.1 p hp

theorem statusRes_allowed : statusResolution ∈ allowedResolutions := by decide

theorem statusAfter_TInv (s : S) (emits : Bool) (id drop : Nat) (p : Placed) (h : TInv s) :
    TInv (statusAfter s emits id drop p) := by
  unfold statusAfter
  split
  · exact accept_TInv _ _ _ _ _ _ _ statusRes_allowed h
  · exact h

theorem applyEv_TInv (s : S) (emits : Bool) (id ts res hash drop : Nat) (hr : res ∈ allowedResolutions) (h : TInv s) :
    TInv (applyEv s emits id ts res hash drop).1 := by
  have h1 := accept_TInv s id ts res hash drop false hr h
  unfold applyEv
  split
  · rename_i s1 p heq; rw [heq] at h1; exact statusAfter_TInv _ _ _ _ _ h1
  · rename_i s1 heq; rw [heq] at h1; exact h1

theorem cellItems_empty {s : S} {c : Nat} (h : (cellItems s c).isEmpty = true) : ∀ p ∈ s.ring, p.1 ≠ c := by
  intro p hp hc
  unfold cellItems at h
  have : p ∈ s.ring.filter (fun p => p.1 == c) := by simp [List.mem_filter, hp, hc]
  cases hf : s.ring.filter (fun p => p.1 == c) with
  | nil => rw [hf] at this; cases this
  | cons a l => rw [hf] at h; simp at h

theorem singleStep_TInv (s : S) (se : Bool) (h : TInv s) : TInv (singleStep s se) := by
  obtain ⟨hr, ho, hc⟩ := h
  unfold singleStep
  split
  · rename_i hk
    refine ⟨?_, ho, hc⟩
    have he : (cellItems s (s.send % W)).isEmpty = true := by
      unfold skipEmpty at hk; simp at hk; simpa using hk.1
    have hne := cellItems_empty he
    intro p hp
    have := hr p hp
    refine ⟨this.1, this.2.1, ?_, this.2.2.2⟩
    show due (s.send + 1) p.1 = _
    rw [due_step _ _ (by rw [this.1]; exact Nat.mod_lt _ (by decide)) (hne p hp)]
    exact this.2.2.1
  · refine ⟨?_, ?_, hc⟩
    · intro p hp
      simp only [List.mem_filter] at hp
      have := hr p hp.1
      refine ⟨this.1, this.2.1, ?_, this.2.2.2⟩
      show due (s.send + 1) p.1 = _
      have hne : p.1 ≠ s.send % W := by simpa using hp.2
      rw [due_step _ _ (by rw [this.1]; exact Nat.mod_lt _ (by decide)) hne]
      exact this.2.2.1
    · intro b hb e he
      simp only [List.mem_append, List.mem_singleton] at hb
      rcases hb with hb | rfl
      · exact ho b hb e he
      · simp only [cellItems, List.mem_map, List.mem_filter] at he
        obtain ⟨p, ⟨hp, hpc⟩, rfl⟩ := he
        have := hr p hp
        have hpc : p.1 = s.send % W := by simpa using hpc
        refine ⟨this.2.1, ?_, this.2.2.2⟩
        show s.send = _
        rw [← this.2.2.1, hpc, due_self]

theorem flushLoop_TInv (fuel upTo : Nat) (s : S) (h : TInv s) : TInv (flushLoop fuel upTo s) := by
  induction fuel generalizing s with
  | zero => exact h
  | succ n ih =>
    unfold flushLoop
    split
    · exact h
    · exact ih _ (singleStep_TInv _ _ h)

theorem advanceCur_TInv (s : S) (n : Nat) (h : TInv s) : TInv (advanceCur s n) := by
  unfold advanceCur; split
  · exact h
  · exact h

theorem jump_TInv (s : S) (h : TInv s) : TInv (jump s) := by
  unfold jump
  split
  · obtain ⟨hr, ho, hc⟩ := h
    refine ⟨?_, ho, hc⟩
    intro p hp
    have := hr p hp
    refine ⟨this.1, Nat.le_trans this.2.1 (Nat.le_add_right _ _), ?_, this.2.2.2⟩
    show due (jumpTo s) p.1 = p.2.slot + (s.laps + jumpLaps s - p.2.lap) * W
    unfold jumpTo
    rw [due_jump, this.2.2.1]
    have hl := this.2.1
    generalize jumpLaps s = k
    konst
    omega
  · exact h

theorem flush_TInv (s : S) (nowMs : Nat) (h : TInv s) : TInv (flush s nowMs) := by
  unfold flush
  exact flushLoop_TInv _ _ _ (jump_TInv _ (advanceCur_TInv _ _ h))

theorem iterStep_TInv (n : Nat) (s : S) (h : TInv s) : TInv (iterStep n s) := by
  induction n generalizing s with
  | zero => exact h
  | succ n ih => unfold iterStep; exact ih _ (singleStep_TInv _ _ h)

/-! ### every operation preserves the invariant -/

/-- resolutions come from `format.AllowedResolution` (MetricMetaValue.RestoreCachedInfo, Config.ValidateConfigSource) -/
def OpOk : Op → Prop
  | .ev _ mk _ res _ _ => mk = .normal → res ∈ allowedResolutions
  | .am _ res _ _ => res ∈ allowedResolutions
  | .amSec _ res _ _ => res ∈ allowedResolutions
  | .rc hw hwSlow => hw ∈ allowedResolutions ∧ hwSlow ∈ allowedResolutions
  | _ => True

theorem resolutionOf_allowed (s : S) (mk : MK) (res : Nat) (hc : CfgOk s) (h : mk = .normal → res ∈ allowedResolutions) :
    resolutionOf s mk res ∈ allowedResolutions := by
  cases mk
  · show 1 ∈ allowedResolutions; decide
  · exact h rfl
  · exact hc.1
  · exact hc.2

theorem bump_TInv (s : S) (h : TInv s) : TInv (bump s) := h

theorem flushAll_TInv (s : S) (h : TInv s) : TInv (flushAll s) := by
  have h1 := iterStep_TInv W s h
  unfold flushAll
  generalize iterStep W s = t at *
  exact h1

theorem step_TInv (s : S) (op : Op) (hop : OpOk op) (h : TInv s) : TInv (step s op) := by
  cases op with
  | ev e mk ts res hash drop =>
    exact bump_TInv _ (applyEv_TInv _ _ _ _ _ _ _ (resolutionOf_allowed s mk res h.2.2 hop) h)
  | rc hw hwSlow => exact ⟨h.1, h.2.1, hop⟩
  | am ts res hash scr =>
    exact bump_TInv _ (applyEv_TInv _ _ _ _ _ _ _ hop (accept_TInv _ _ _ _ _ _ _ statusRes_allowed h))
  | amSec ts res hash start =>
    exact bump_TInv _ (applyEv_TInv _ _ _ _ _ _ _ hop (accept_TInv _ _ _ _ _ _ _ statusRes_allowed h))
  | skip => exact h
  | flush nowMs => exact flush_TInv _ _ h
  | drain => exact h
  | stop => exact h
  | flushAll => exact flushAll_TInv _ h

theorem run_TInv (ops : List Op) (s : S) (hops : ∀ op ∈ ops, OpOk op) (h : TInv s) : TInv (run s ops) := by
  induction ops generalizing s with
  | nil => exact h
  | cons op ops ih =>
    exact ih _ (fun o ho => hops o (List.mem_cons_of_mem _ ho)) (step_TInv _ _ (hops op List.mem_cons_self) h)

theorem init_TInv (t0 hw hws : Nat) (h1 : hw ∈ allowedResolutions) (h2 : hws ∈ allowedResolutions) : TInv (init t0 hw hws) := by
  refine ⟨?_, ?_, h1, h2⟩
  · intro p hp; cases hp
  · intro b hb; cases hb

/-! ### exactly once: the ids in the ring and in the pushed buckets are a permutation of the accepted ids -/

def PN (s : S) : Prop := (locations s).Perm s.acc ∧ s.acc.Nodup

theorem accept_PN (s : S) (id ts res hash drop : Nat) (aux : Bool) (hf : id ∉ s.acc) (h : PN s) :
    PN (accept s id ts res hash drop aux).1 := by
  unfold accept
  split
  · exact h
  · split
    · exact h
    · refine ⟨?_, List.nodup_cons.mpr ⟨hf, h.2⟩⟩
      show ((id :: ringIds s) ++ outIds s).Perm (id :: s.acc)
      exact List.Perm.cons _ h.1

theorem accept_acc (s : S) (id ts res hash drop : Nat) (aux : Bool) :
    ∀ x ∈ (accept s id ts res hash drop aux).1.acc, x = id ∨ x ∈ s.acc := by
  intro x hx
  unfold accept at hx
  split at hx
  · exact Or.inr hx
  · split at hx
    · exact Or.inr hx
    · simp only [insertEv, mkEv, List.mem_cons] at hx; exact hx

theorem accept_next (s : S) (id ts res hash drop : Nat) (aux : Bool) : (accept s id ts res hash drop aux).1.next = s.next := by
  unfold accept; split
  · rfl
  · split <;> rfl

theorem statusAfter_PN (s : S) (emits : Bool) (id drop : Nat) (p : Placed) (hf : id ∉ s.acc) (h : PN s) :
    PN (statusAfter s emits id drop p) := by
  unfold statusAfter; split
  · exact accept_PN _ _ _ _ _ _ _ hf h
  · exact h

theorem statusAfter_acc (s : S) (emits : Bool) (id drop : Nat) (p : Placed) :
    ∀ x ∈ (statusAfter s emits id drop p).acc, x = id ∨ x ∈ s.acc := by
  unfold statusAfter; split
  · exact accept_acc _ _ _ _ _ _ _
  · intro x hx; exact Or.inr hx

theorem statusAfter_next (s : S) (emits : Bool) (id drop : Nat) (p : Placed) : (statusAfter s emits id drop p).next = s.next := by
  unfold statusAfter; split
  · exact accept_next _ _ _ _ _ _ _
  · rfl

theorem applyEv_PN (s : S) (emits : Bool) (id ts res hash drop : Nat) (hf : id ∉ s.acc) (hf1 : id + 1 ∉ s.acc) (h : PN s) :
    PN (applyEv s emits id ts res hash drop).1 := by
  have h1 := accept_PN s id ts res hash drop false hf h
  have h2 := accept_acc s id ts res hash drop false
  unfold applyEv
  split
  · rename_i s1 p heq
    rw [heq] at h1 h2
    refine statusAfter_PN _ _ _ _ _ ?_ h1
    intro hm
    rcases h2 _ hm with h3 | h3
    · omega
    · exact hf1 h3
  · rename_i s1 heq; rw [heq] at h1; exact h1

theorem applyEv_acc (s : S) (emits : Bool) (id ts res hash drop : Nat) :
    ∀ x ∈ (applyEv s emits id ts res hash drop).1.acc, x = id ∨ x = id + 1 ∨ x ∈ s.acc := by
  have h2 := accept_acc s id ts res hash drop false
  unfold applyEv
  split
  · rename_i s1 p heq
    rw [heq] at h2
    intro x hx
    rcases statusAfter_acc _ _ _ _ _ x hx with h3 | h3
    · exact Or.inr (Or.inl h3)
    · rcases h2 x h3 with h4 | h4
      · exact Or.inl h4
      · exact Or.inr (Or.inr h4)
  · rename_i s1 heq; rw [heq] at h2
    intro x hx
    rcases h2 x hx with h4 | h4
    · exact Or.inl h4
    · exact Or.inr (Or.inr h4)

theorem applyEv_next (s : S) (emits : Bool) (id ts res hash drop : Nat) : (applyEv s emits id ts res hash drop).1.next = s.next := by
  have h1 := accept_next s id ts res hash drop false
  unfold applyEv
  split
  · rename_i s1 p heq; rw [heq] at h1; rw [statusAfter_next]; exact h1
  · rename_i s1 heq; rw [heq] at h1; exact h1

/-- exactly-once invariant: ring ∪ pushed buckets is a duplicate-free rearrangement of the accepted ids; ids are fresh -/
def Cons (s : S) : Prop := PN s ∧ ∀ id ∈ s.acc, id < 4 * s.next

theorem outIds_append (out : List Bucket) (b : Bucket) :
    (out ++ [b]).flatMap (fun b => b.items.map (·.id)) = out.flatMap (fun b => b.items.map (·.id)) ++ b.items.map (·.id) := by
  simp [List.flatMap_append]

theorem singleStep_locations (s : S) (se : Bool) : (locations (singleStep s se)).Perm (locations s) := by
  unfold singleStep
  split
  · exact List.Perm.refl _
  · unfold locations ringIds outIds
    show (List.map (fun x => x.2.id) (s.ring.filter (fun p => !(p.1 == s.send % W))) ++
      (s.out ++ [({ time := s.send, items := cellItems s (s.send % W), lap := s.laps } : Bucket)]).flatMap
        (fun (b : Bucket) => b.items.map (·.id))).Perm _
    rw [outIds_append]
    generalize s.out.flatMap (fun b => b.items.map (·.id)) = O
    have hp : (s.ring.filter (fun p => p.1 == s.send % W) ++ s.ring.filter (fun p => !(p.1 == s.send % W))).Perm s.ring :=
      List.filter_append_perm _ _
    have hm := hp.map (fun x => x.2.id)
    rw [List.map_append] at hm
    have hB : List.map (fun x => x.id) (cellItems s (s.send % W)) = List.map (fun x => x.2.id) (s.ring.filter (fun p => p.1 == s.send % W)) := by
      unfold cellItems; rw [List.map_map]; rfl
    dsimp only
    rw [hB]
    generalize List.map (fun x => x.2.id) (s.ring.filter (fun p => !(p.1 == s.send % W))) = A at *
    generalize List.map (fun x => x.2.id) (s.ring.filter (fun p => p.1 == s.send % W)) = B at *
    generalize List.map (fun x => x.2.id) s.ring = R at *
    -- A ++ (O ++ B) ~ R ++ O  from  B ++ A ~ R
    have h1 : (A ++ (O ++ B)).Perm ((O ++ B) ++ A) := List.perm_append_comm
    have h2 : ((O ++ B) ++ A).Perm (O ++ R) := by rw [List.append_assoc]; exact List.Perm.append_left O hm
    exact (h1.trans h2).trans List.perm_append_comm

theorem singleStep_acc (s : S) (se : Bool) : (singleStep s se).acc = s.acc ∧ (singleStep s se).next = s.next := by
  unfold singleStep; split <;> exact ⟨rfl, rfl⟩

theorem singleStep_Cons (s : S) (se : Bool) (h : Cons s) : Cons (singleStep s se) := by
  obtain ⟨⟨hp, hn⟩, hb⟩ := h
  have ha := singleStep_acc s se
  refine ⟨⟨?_, ?_⟩, ?_⟩
  · rw [ha.1]; exact (singleStep_locations s se).trans hp
  · rw [ha.1]; exact hn
  · rw [ha.1, ha.2]; exact hb

theorem flushLoop_Cons (fuel upTo : Nat) (s : S) (h : Cons s) : Cons (flushLoop fuel upTo s) := by
  induction fuel generalizing s with
  | zero => exact h
  | succ n ih =>
    unfold flushLoop
    split
    · exact h
    · exact ih _ (singleStep_Cons _ _ h)

theorem iterStep_Cons (n : Nat) (s : S) (h : Cons s) : Cons (iterStep n s) := by
  induction n generalizing s with
  | zero => exact h
  | succ n ih => unfold iterStep; exact ih _ (singleStep_Cons _ _ h)

theorem advanceCur_Cons (s : S) (n : Nat) (h : Cons s) : Cons (advanceCur s n) := by
  unfold advanceCur; split <;> exact h

theorem jump_Cons (s : S) (h : Cons s) : Cons (jump s) := by
  unfold jump; split <;> exact h

theorem flush_Cons (s : S) (nowMs : Nat) (h : Cons s) : Cons (flush s nowMs) := by
  unfold flush
  exact flushLoop_Cons _ _ _ (jump_Cons _ (advanceCur_Cons _ _ h))

theorem evStep_Cons (s : S) (e : Entry) (mk : MK) (ts res hash drop : Nat) (h : Cons s) :
    Cons (evStep s e mk ts res hash drop).1 := by
  obtain ⟨hpn, hb⟩ := h
  have f0 : 4 * s.next ∉ s.acc := fun hm => by have := hb _ hm; omega
  have f1 : 4 * s.next + 1 ∉ s.acc := fun hm => by have := hb _ hm; omega
  refine ⟨applyEv_PN _ _ _ _ _ _ _ f0 f1 hpn, ?_⟩
  intro x hx
  show x < 4 * ((applyEv s e.emits (4 * s.next) ts (resolutionOf s mk res) hash drop).1.next + 1)
  rw [applyEv_next]
  rcases applyEv_acc _ _ _ _ _ _ _ x hx with h1 | h1 | h1
  · omega
  · omega
  · have := hb _ h1; omega

theorem amStepD_Cons (s : S) (ts res hash drop : Nat) (h : Cons s) : Cons (amStepD s ts res hash drop).1 := by
  obtain ⟨hpn, hb⟩ := h
  show Cons (bump (applyEv (accept s (4 * s.next + 2) 0 statusResolution 0 drop true).1 true (4 * s.next) ts res hash drop).1)
  have f2 : 4 * s.next + 2 ∉ s.acc := fun hm => by have := hb _ hm; omega
  have hA := accept_PN s (4 * s.next + 2) 0 statusResolution 0 drop true f2 hpn
  have hAa := accept_acc s (4 * s.next + 2) 0 statusResolution 0 drop true
  have hAn := accept_next s (4 * s.next + 2) 0 statusResolution 0 drop true
  generalize (accept s (4 * s.next + 2) 0 statusResolution 0 drop true).1 = s1 at *
  have f0 : 4 * s.next ∉ s1.acc := fun hm => by
    rcases hAa _ hm with h1 | h1
    · omega
    · have := hb _ h1; omega
  have f1 : 4 * s.next + 1 ∉ s1.acc := fun hm => by
    rcases hAa _ hm with h1 | h1
    · omega
    · have := hb _ h1; omega
  refine ⟨applyEv_PN _ _ _ _ _ _ _ f0 f1 hA, ?_⟩
  intro x hx
  show x < 4 * ((applyEv s1 true (4 * s.next) ts res hash drop).1.next + 1)
  rw [applyEv_next, hAn]
  rcases applyEv_acc _ _ _ _ _ _ _ x hx with h1 | h1 | h1
  · omega
  · omega
  · rcases hAa _ h1 with h2 | h2
    · omega
    · have := hb _ h2; omega

theorem amStep_Cons (s : S) (ts res hash : Nat) (h : Cons s) : Cons (amStep s ts res hash).1 := amStepD_Cons s ts res hash 0 h

theorem flushAll_Cons (s : S) (h : Cons s) : Cons (flushAll s) := by
  have h1 := iterStep_Cons W s h
  unfold flushAll
  generalize iterStep W s = t at *
  exact h1

theorem step_Cons (s : S) (op : Op) (h : Cons s) : Cons (step s op) := by
  cases op with
  | ev e mk ts res hash drop => exact evStep_Cons _ _ _ _ _ _ _ h
  | am ts res hash scr => exact amStep_Cons _ _ _ _ h
  | amSec ts res hash start => exact amStepD_Cons _ _ _ _ _ h
  | skip => exact ⟨h.1, fun id hid => by have := h.2 id hid; show id < 4 * (s.next + 1); omega⟩
  | rc hw hwSlow => exact h
  | flush nowMs => exact flush_Cons _ _ h
  | drain => exact h
  | stop => exact h
  | flushAll => exact flushAll_Cons _ h

theorem run_Cons (ops : List Op) (s : S) (h : Cons s) : Cons (run s ops) := by
  induction ops generalizing s with
  | nil => exact h
  | cons op ops ih => exact ih _ (step_Cons _ _ h)

theorem init_Cons (t0 hw hws : Nat) : Cons (init t0 hw hws) := by
  refine ⟨⟨List.Perm.refl _, List.nodup_nil⟩, ?_⟩
  intro id hid; cases hid

/-! ### FlushAllData empties the ring -/

theorem singleStep_mem (s : S) (se : Bool) : ∀ p ∈ (singleStep s se).ring, p ∈ s.ring ∧ p.1 ≠ s.send % W := by
  intro p hp
  unfold singleStep at hp
  split at hp
  · rename_i hk
    have he : (cellItems s (s.send % W)).isEmpty = true := by
      unfold skipEmpty at hk; simp at hk; simpa using hk.1
    exact ⟨hp, cellItems_empty he p hp⟩
  · simp only [List.mem_filter] at hp
    exact ⟨hp.1, by simpa using hp.2⟩

theorem singleStep_send (s : S) (se : Bool) : (singleStep s se).send = s.send + 1 := by
  unfold singleStep; split <;> rfl

theorem iterStep_mem (n : Nat) (s : S) :
    (iterStep n s).send = s.send + n ∧ ∀ p ∈ (iterStep n s).ring, p ∈ s.ring ∧ ∀ j, j < n → p.1 ≠ (s.send + j) % W := by
  induction n generalizing s with
  | zero => exact ⟨rfl, fun p hp => ⟨hp, fun j hj => absurd hj (Nat.not_lt_zero _)⟩⟩
  | succ n ih =>
    unfold iterStep
    have h1 := ih (singleStep s false)
    rw [singleStep_send] at h1
    refine ⟨by rw [h1.1]; omega, ?_⟩
    intro p hp
    have h2 := h1.2 p hp
    have h3 := singleStep_mem s false p h2.1
    refine ⟨h3.1, ?_⟩
    intro j hj
    cases j with
    | zero => simpa using h3.2
    | succ j =>
      have := h2.2 j (by omega)
      rwa [show s.send + 1 + j = s.send + (j + 1) by omega] at this

theorem flushAll_ring_empty (s : S) (h : ∀ p ∈ s.ring, p.1 < W) : (flushAll s).ring = [] := by
  have h1 := (iterStep_mem W s).2
  unfold flushAll
  generalize iterStep W s = t at *
  show t.ring = []
  cases ht : t.ring with
  | nil => rfl
  | cons p l =>
    exfalso
    have hp : p ∈ t.ring := by rw [ht]; exact List.mem_cons_self
    have h2 := h1 p hp
    have h3 := h p h2.1
    have h4 := h2.2 ((p.1 + W - s.send % W) % W) (Nat.mod_lt _ (by decide))
    apply h4
    konst
    omega

/-! ## The property -/

/-- **Exactly once.** After ANY sequence of events, flushes under any clock (pauses, jumps ahead and back), consumer stalls,
    stop and final flush, every accepted event id is in exactly one place — a ring cell or one pushed bucket — exactly once,
    and nothing that was not accepted is anywhere. -/
theorem exactly_once (t0 hw hws : Nat) (ops : List Op) :
    (∀ id ∈ (run (init t0 hw hws) ops).acc, (locations (run (init t0 hw hws) ops)).count id = 1) ∧
    (∀ id, id ∉ (run (init t0 hw hws) ops).acc → (locations (run (init t0 hw hws) ops)).count id = 0) := by
  have h := run_Cons ops _ (init_Cons t0 hw hws)
  generalize run (init t0 hw hws) ops = s at *
  obtain ⟨⟨hp, hn⟩, _⟩ := h
  constructor
  · intro id hid
    rw [hp.count_eq, hn.count, if_pos hid]
  · intro id hid
    rw [hp.count_eq]
    exact List.count_eq_zero_of_not_mem hid

/-- **Delivered exactly once.** When the script ends with Agent.FlushAllData, the ring is empty and every accepted event id
    occurs exactly once in the buckets pushed to BucketsToPreprocess (hence in exactly one bucket). -/
theorem delivered_exactly_once (t0 hw hws : Nat) (ops : List Op) (h1 : hw ∈ allowedResolutions) (h2 : hws ∈ allowedResolutions)
    (hops : ∀ op ∈ ops, OpOk op) :
    (run (init t0 hw hws) (ops ++ [.flushAll])).ring = [] ∧
    ∀ id ∈ (run (init t0 hw hws) (ops ++ [.flushAll])).acc, (outIds (run (init t0 hw hws) (ops ++ [.flushAll]))).count id = 1 := by
  have hT := run_TInv ops _ hops (init_TInv t0 hw hws h1 h2)
  have hE := exactly_once t0 hw hws (ops ++ [.flushAll])
  have hr : (run (init t0 hw hws) (ops ++ [.flushAll])).ring = [] := by
    unfold run
    rw [List.foldl_append]
    show (flushAll (run (init t0 hw hws) ops)).ring = []
    apply flushAll_ring_empty
    intro p hp
    rw [(hT.1 p hp).1]
    exact Nat.mod_lt _ (by decide)
  refine ⟨hr, ?_⟩
  intro id hid
  have := hE.1 id hid
  unfold locations ringIds at this
  rw [hr] at this
  simpa using this

/-- **Never early, rounded.** Every event of every pushed bucket: the bucket's second is not earlier than the event's
    clamped timestamp; the stored timestamp is the clamped one rounded down to a multiple of the resolution; the
    bucket's second is the slot chosen at placement plus one whole lap of the ring per jump-ahead lap in between
    (so exactly the slot when no jump-ahead happened meanwhile). -/
theorem delivered_not_early (t0 hw hws : Nat) (ops : List Op) (h1 : hw ∈ allowedResolutions) (h2 : hws ∈ allowedResolutions)
    (hops : ∀ op ∈ ops, OpOk op) :
    ∀ b ∈ (run (init t0 hw hws) ops).out, ∀ e ∈ b.items,
      e.cts ≤ b.time ∧ e.ts ≤ e.cts ∧ e.ts = e.cts / e.res * e.res ∧ e.res ∣ e.ts ∧
      b.time = e.slot + (b.lap - e.lap) * W ∧ (b.lap = e.lap → b.time = e.slot) := by
  have hT := run_TInv ops _ hops (init_TInv t0 hw hws h1 h2)
  intro b hb e he
  obtain ⟨hl, ht, hts, hsl⟩ := hT.2.1 b hb e he
  refine ⟨?_, ?_, hts, ?_, ht, ?_⟩
  · rw [ht]; exact Nat.le_trans hsl (Nat.le_add_right _ _)
  · rw [hts]; exact roundTs_le _ _
  · rw [hts]; exact roundTs_dvd _ _
  · intro hbl; rw [ht, hbl]; simp

/-- the same for events still waiting in the ring: their cell will be flushed at a second ≥ their clamped timestamp -/
theorem resident_not_early (t0 hw hws : Nat) (ops : List Op) (h1 : hw ∈ allowedResolutions) (h2 : hws ∈ allowedResolutions)
    (hops : ∀ op ∈ ops, OpOk op) :
    ∀ p ∈ (run (init t0 hw hws) ops).ring, p.1 < W ∧ p.2.cts ≤ due (run (init t0 hw hws) ops).send p.1 ∧
      p.2.ts = p.2.cts / p.2.res * p.2.res := by
  have hT := run_TInv ops _ hops (init_TInv t0 hw hws h1 h2)
  intro p hp
  obtain ⟨hc, hl, hd, hts, hsl⟩ := hT.1 p hp
  refine ⟨by rw [hc]; exact Nat.mod_lt _ (by decide), ?_, hts⟩
  rw [hd]; exact Nat.le_trans hsl (Nat.le_add_right _ _)

/-! ### placement is a function of (resolution, hash of original tag values, timestamp) when not late and not clamped -/

/-- the canonical send second of a row -/
def canonSlot (ts res hash : Nat) : Nat := if res = 1 then ts else roundTs ts res + res + shardNum hash res

/-- **Deterministic placement.** For an explicit timestamp that is not clamped to the future (ts ≤ CurrentTime + future slots)
    and a row that is not late (its canonical second has not been sent yet), the chosen slot and the stored timestamp do not
    depend on CurrentTime or SendTime at all: they are `canonSlot ts res hash` and `ts` rounded down. -/
theorem placement_deterministic (cur send ts res hash : Nat) (h0 : ts ≠ 0) (hf : ts ≤ cur + F)
    (hl : send ≤ canonSlot ts res hash) :
    slotOf (clampTs ts cur) res hash send = canonSlot ts res hash ∧ keyTs (clampTs ts cur) res = roundTs ts res := by
  have hc : clampTs ts cur = ts := by
    unfold clampTs tsOrCur isFuture
    simp [h0]; omega
  rw [hc, keyTs_eq]
  refine ⟨?_, rfl⟩
  unfold slotOf canonSlot at *
  split
  · rename_i h1; simp only [h1, if_true] at hl; unfold slot1; split <;> omega
  · rename_i h1; simp only [h1, if_false] at hl
    unfold slotN slotN0
    split
    · omega
    · rfl

/-- two agents (or one agent at two moments) with different clocks, send cursors, mapping caches and tag orders place the
    same row in the same second -/
theorem same_second_on_all_agents (cur₁ send₁ cur₂ send₂ ts res hash : Nat) (h0 : ts ≠ 0)
    (hf₁ : ts ≤ cur₁ + F) (hf₂ : ts ≤ cur₂ + F)
    (hl₁ : send₁ ≤ canonSlot ts res hash) (hl₂ : send₂ ≤ canonSlot ts res hash) :
    slotOf (clampTs ts cur₁) res hash send₁ = slotOf (clampTs ts cur₂) res hash send₂ ∧
    keyTs (clampTs ts cur₁) res = keyTs (clampTs ts cur₂) res := by
  have a := placement_deterministic cur₁ send₁ ts res hash h0 hf₁ hl₁
  have b := placement_deterministic cur₂ send₂ ts res hash h0 hf₂ hl₂
  exact ⟨a.1.trans b.1.symm, a.2.trans b.2.symm⟩

/-! ### drops -/

theorem accept_none (s : S) (id ts res hash drop : Nat) (aux : Bool) (h : (accept s id ts res hash drop aux).2 = none) :
    (accept s id ts res hash drop aux).1 = s ∧
    (s.stop = true ∨ gap s.cur s.send > 0 ∨ keyTs (clampTs ts s.cur) res < drop) := by
  unfold accept at *
  split at h
  · rename_i hd
    refine ⟨by simp [hd], ?_⟩
    unfold AgentQueue.discard gapPos at hd
    cases hs : s.stop
    · simp [hs] at hd; exact Or.inr (Or.inl hd)
    · exact Or.inl rfl
  · split at h
    · rename_i hd hb
      refine ⟨by simp [hd, hb], ?_⟩
      unfold beforeStart at hb
      exact Or.inr (Or.inr (by simpa using hb))
    · cases h

theorem applyEv_none (s : S) (emits : Bool) (id ts res hash drop : Nat) (h : (applyEv s emits id ts res hash drop).2 = none) :
    (accept s id ts res hash drop false).2 = none ∧ (applyEv s emits id ts res hash drop).1 = (accept s id ts res hash drop false).1 := by
  unfold applyEv at *
  split at h
  · cases h
  · rename_i s1 heq; rw [heq]; exact ⟨rfl, rfl⟩

/-- **Drops.** An event handed to any Shard entry point is dropped only during shutdown, while the receive queue has a gap
    (CurrentTime too far ahead of SendTime), or — `dropIfBeforeTimestamp` is non-zero only on a secondary shard — because its
    clamped, rounded timestamp is before that shard's configured start time. A dropped event leaves no trace. -/
theorem drop_only_when (s : S) (e : Entry) (mk : MK) (ts res hash drop : Nat)
    (h : (evStep s e mk ts res hash drop).2 = none) :
    (evStep s e mk ts res hash drop).1 = bump s ∧
    (s.stop = true ∨ gap s.cur s.send > 0 ∨ (0 < drop ∧ keyTs (clampTs ts s.cur) (resolutionOf s mk res) < drop)) := by
  have h1 := applyEv_none s e.emits (4 * s.next) ts (resolutionOf s mk res) hash drop h
  have h2 := accept_none s (4 * s.next) ts (resolutionOf s mk res) hash drop false h1.1
  refine ⟨?_, ?_⟩
  · show bump (applyEv s e.emits (4 * s.next) ts (resolutionOf s mk res) hash drop).1 = bump s
    rw [h1.2, h2.1]
  · rcases h2.2 with h3 | h3 | h3
    · exact Or.inl h3
    · exact Or.inr (Or.inl h3)
    · exact Or.inr (Or.inr ⟨by omega, h3⟩)

theorem accept_some_mem (s : S) (id ts res hash drop : Nat) (aux : Bool) (h : (accept s id ts res hash drop aux).2 ≠ none) :
    id ∈ (accept s id ts res hash drop aux).1.acc := by
  unfold accept at *
  split
  · rename_i hd; simp [hd] at h
  · split
    · rename_i hd hb; simp [hd, hb] at h
    · simp [insertEv, mkEv]

theorem accept_acc_mono (s : S) (id ts res hash drop : Nat) (aux : Bool) : ∀ x ∈ s.acc, x ∈ (accept s id ts res hash drop aux).1.acc := by
  intro x hx
  unfold accept
  split
  · exact hx
  · split
    · exact hx
    · exact List.mem_cons_of_mem _ hx

theorem statusAfter_acc_mono (s : S) (emits : Bool) (id drop : Nat) (p : Placed) : ∀ x ∈ s.acc, x ∈ (statusAfter s emits id drop p).acc := by
  intro x hx
  unfold statusAfter
  split
  · exact accept_acc_mono _ _ _ _ _ _ _ x hx
  · exact hx

theorem applyEv_some_mem (s : S) (emits : Bool) (id ts res hash drop : Nat) (h : (applyEv s emits id ts res hash drop).2 ≠ none) :
    id ∈ (applyEv s emits id ts res hash drop).1.acc := by
  have h1 := accept_some_mem s id ts res hash drop false
  unfold applyEv at *
  split
  · rename_i s1 p heq
    rw [heq] at h1
    exact statusAfter_acc_mono _ _ _ _ _ _ (h1 (by simp))
  · rename_i s1 heq
    rw [heq] at h
    exact absurd rfl h

/-- an event is accepted iff its ghost id enters the accepted set (what `exactly_once` quantifies over) -/
theorem accepted_iff_placed (s : S) (e : Entry) (mk : MK) (ts res hash drop : Nat) (hc : Cons s) :
    (evStep s e mk ts res hash drop).2 ≠ none ↔ 4 * s.next ∈ (evStep s e mk ts res hash drop).1.acc := by
  have f0 : 4 * s.next ∉ s.acc := fun hm => by have := hc.2 _ hm; omega
  constructor
  · intro h
    exact applyEv_some_mem s e.emits (4 * s.next) ts (resolutionOf s mk res) hash drop h
  · intro h hn
    have := (drop_only_when s e mk ts res hash drop hn).1
    rw [this] at h
    exact f0 h

/-! ### the resolution hash input does not depend on tag order or on the mapping cache -/

theorem mapTag_ov (cache : List (Bytes × Int)) (h : Hdr) (t : Nat × Bytes) : (mapTag cache h t).ov = h.ov.set t.1 t.2 := by
  unfold mapTag
  split
  · rfl
  · split <;> rfl

theorem foldl_mapTag_ov (cache : List (Bytes × Int)) (tags : List (Nat × Bytes)) (h : Hdr) :
    (tags.foldl (mapTag cache) h).ov = tags.foldl (fun ov t => ov.set t.1 t.2) h.ov := by
  induction tags generalizing h with
  | nil => rfl
  | cons t tags ih => simp only [List.foldl_cons]; rw [ih, mapTag_ov]

/-- **Mapping-cache independence.** OriginalTagValues (the only input of the resolution hash besides the metric id) is the
    same whatever the mappings cache contains — although the Key tags themselves differ (mapped int vs. string). -/
theorem ov_cache_independent (c₁ c₂ : List (Bytes × Int)) (tags : List (Nat × Bytes)) :
    (mapAll c₁ tags).ov = (mapAll c₂ tags).ov := by
  unfold mapAll; rw [foldl_mapTag_ov, foldl_mapTag_ov]

theorem keys_inj : ∀ (l : List (Nat × Bytes)), (l.map (·.1)).Nodup → ∀ x ∈ l, ∀ y ∈ l, x.1 = y.1 → x = y := by
  intro l
  induction l with
  | nil => intro _ x hx; cases hx
  | cons a l ih =>
    intro hn x hx y hy hxy
    simp only [List.map_cons, List.nodup_cons, List.mem_map] at hn
    rcases List.mem_cons.mp hx with rfl | hx' <;> rcases List.mem_cons.mp hy with rfl | hy'
    · rfl
    · exact absurd ⟨y, hy', hxy.symm⟩ hn.1
    · exact absurd ⟨x, hx', hxy⟩ hn.1
    · exact ih hn.2 x hx' y hy' hxy

/-- **Tag-order independence.** For tags with pairwise distinct names (indices), any reordering of the tags in the incoming
    event gives the same OriginalTagValues. -/
theorem ov_order_independent (c : List (Bytes × Int)) (tags₁ tags₂ : List (Nat × Bytes)) (hp : tags₁.Perm tags₂)
    (hn : (tags₁.map (·.1)).Nodup) : (mapAll c tags₁).ov = (mapAll c tags₂).ov := by
  unfold mapAll; rw [foldl_mapTag_ov, foldl_mapTag_ov]
  apply hp.foldl_eq'
  intro x hx y hy z
  by_cases hxy : x.1 = y.1
  · rw [keys_inj tags₁ hn x hx y hy hxy]
  · exact List.set_comm _ _ hxy

/-- **Scratch independence.** OriginalHash is handed the receiver's long-living scratch buffer (left non-empty by
    sharding.Shard → Key.XXHash with the MAPPED key, or by earlier events). Whatever it contains, the returned buffer and the
    hash are those of the marshalled original tag values alone. -/
theorem resolution_hash_ignores_scratch_prefix (H : Bytes → Nat) (scratch₁ scratch₂ : Bytes) (metric : Nat) (ov : List Bytes) :
    originalHash H scratch₁ metric ov = originalHash H scratch₂ metric ov ∧
    (originalHash H scratch₁ metric ov).2 = H (marshal metric ov) ∧ (originalHash H scratch₁ metric ov).1 = marshal metric ov := by
  simp [originalHash, marshalAppend]

/-- **Ingestion-path independence.** ApplyMetric computes the same resolution hash for a caller that supplies a scratch buffer
    (receivers) and for one that does not (internal/stats system metrics writer): the hash is never skipped. -/
theorem resolution_hash_same_with_or_without_scratch (H : Bytes → Nat) (res : Nat) (scratch : Bytes) (metric : Nat) (ov : List Bytes) :
    applyMetricHash H res none metric ov = applyMetricHash H res (some scratch) metric ov ∧
    (res ≠ 1 → applyMetricHash H res none metric ov = H (marshal metric ov)) := by
  unfold applyMetricHash
  constructor
  · split
    · rfl
    · simp [originalHash, marshalAppend]
  · intro h; simp [h, originalHash, marshalAppend]

/-- the effective resolution of hardware metrics follows the applied (remote) config: fast metrics use its
    hardware-metric-resolution, slow ones its hardware-slow-metric-resolution -/
theorem resolution_after_remote_config (s : S) (hw hwSlow res : Nat) :
    resolutionOf (remoteConfig s hw hwSlow) .hw res = hw ∧ resolutionOf (remoteConfig s hw hwSlow) .hwslow res = hwSlow ∧
    resolutionOf (remoteConfig s hw hwSlow) .normal res = res ∧ resolutionOf (remoteConfig s hw hwSlow) .none res = 1 :=
  ⟨rfl, rfl, rfl, rfl⟩

/-- hence the marshalled bytes that are hashed (and so the hash, whatever function it is) agree between any two agents -/
theorem resolution_hash_input_independent (metric : Nat) (c₁ c₂ : List (Bytes × Int)) (tags₁ tags₂ : List (Nat × Bytes))
    (hp : tags₁.Perm tags₂) (hn : (tags₁.map (·.1)).Nodup) (H : Bytes → Nat) :
    H (marshal metric (mapAll c₁ tags₁).ov) = H (marshal metric (mapAll c₂ tags₂).ov) := by
  rw [ov_cache_independent c₁ c₂ tags₁, ov_order_independent c₂ tags₁ tags₂ hp hn]

/-- the resolution hash as Agent.ApplyMetric computes it (mapAllTags, then OriginalHash on the shared scratch) is the same for
    any two agents: any mapping caches, any order of (distinctly named) tags, any leftover scratch content -/
theorem resolution_hash_same_on_all_agents (metric : Nat) (c₁ c₂ : List (Bytes × Int)) (tags₁ tags₂ : List (Nat × Bytes))
    (hp : tags₁.Perm tags₂) (hn : (tags₁.map (·.1)).Nodup) (H : Bytes → Nat) (scratch₁ scratch₂ : Bytes) :
    (originalHash H scratch₁ metric (mapAll c₁ tags₁).ov).2 = (originalHash H scratch₂ metric (mapAll c₂ tags₂).ov).2 := by
  rw [(resolution_hash_ignores_scratch_prefix H scratch₁ scratch₂ metric _).1,
    ov_cache_independent c₁ c₂ tags₁, ov_order_independent c₂ tags₁ tags₂ hp hn]

/-! ## Two shards: the routing of Agent.ApplyMetric (primary always with dropIfBeforeTimestamp = 0, secondary iff configured,
    with its start timestamp) -/

/-- ShardFixedKey names one of the two shards (otherwise ApplyMetric reports a sharding error and applies nothing) -/
def K1Ok (k1 : Nat) : Prop := k1 = 1 ∨ k1 = 2

def Op2Ok : Op2 → Prop
  | .am2 _ k1 _ _ _ res _ => K1Ok k1 ∧ res ∈ allowedResolutions
  | _ => True

theorem amPrimary_eq (s : S) (kind : Kind) (ts res hash : Nat) : amPrimary s kind ts res hash = amStep s ts res hash := by
  cases kind <;> rfl

theorem amSecondary_eq (s : S) (kind : Kind) (ts res hash start : Nat) :
    amSecondary s kind ts res hash start = amStepD s ts res hash start := by
  cases kind <;> rfl

/-- each shard of the two-shard agent performs an ordinary single-shard step -/
theorem am2_shard_step (a : A2) (kind : Kind) (k1 k2 start ts res hash : Nat) (hk : K1Ok k1) (i : Nat) (hi : i < 2) :
    ((am2Step a kind k1 k2 start ts res hash).1).get i = step (a.get i) (opFor a i (.am2 kind k1 k2 start ts res hash)) := by
  have hi' : i = 0 ∨ i = 1 := by omega
  unfold am2Step opFor
  rcases hk with rfl | rfl <;> rcases hi' with rfl | rfl <;> cases hs : secondaryOf 2 _ k2 <;>
    simp [A2.get, A2.set, amPrimary_eq, amSecondary_eq, step, hs]

theorem step2_shard (a : A2) (op : Op2) (hop : Op2Ok op) (i : Nat) (hi : i < 2) :
    (step2 a op).get i = step (a.get i) (opFor a i op) := by
  have hi' : i = 0 ∨ i = 1 := by omega
  cases op with
  | am2 kind k1 k2 start ts res hash => exact am2_shard_step a kind k1 k2 start ts res hash hop.1 i hi
  | flush nowMs => rcases hi' with rfl | rfl <;> simp [step2, opFor, A2.get, step]
  | drain => rcases hi' with rfl | rfl <;> simp [step2, opFor, A2.get, step]
  | flushAll => rcases hi' with rfl | rfl <;> simp [step2, opFor, A2.get, step]

theorem opFor_ok (a : A2) (i : Nat) (op : Op2) (hop : Op2Ok op) : OpOk (opFor a i op) := by
  cases op with
  | am2 kind k1 k2 start ts res hash =>
    show OpOk (if i = k1 - 1 then Op.am ts res hash true
      else match secondaryOf 2 k1 k2 with
        | some _ => Op.amSec (carryTs (a.get (k1 - 1)) ts res) res hash start
        | none => Op.skip)
    split
    · exact hop.2
    · cases secondaryOf 2 k1 k2 with
      | some q => exact hop.2
      | none => trivial
  | flush nowMs => trivial
  | drain => trivial
  | flushAll => trivial

/-- **Projection.** Whatever two-shard history the agent goes through, each shard goes through a single-shard history — so
    every single-shard theorem above (exactly once, never early, rounded) holds for each shard of the two-shard agent. -/
theorem run2_shard (ops : List Op2) (a : A2) (hops : ∀ op ∈ ops, Op2Ok op) (i : Nat) (hi : i < 2) :
    ∃ l : List Op, (run2 a ops).get i = run (a.get i) l ∧ ∀ o ∈ l, OpOk o := by
  induction ops generalizing a with
  | nil => exact ⟨[], rfl, fun o ho => by cases ho⟩
  | cons op ops ih =>
    obtain ⟨l, hl, hok⟩ := ih (step2 a op) (fun o ho => hops o (List.mem_cons_of_mem _ ho))
    refine ⟨opFor a i op :: l, ?_, ?_⟩
    · show (run2 (step2 a op) ops).get i = run (step (a.get i) (opFor a i op)) l
      rw [hl, step2_shard a op (hops op List.mem_cons_self) i hi]
    · intro o ho
      rcases List.mem_cons.mp ho with rfl | ho
      · exact opFor_ok a i op (hops op List.mem_cons_self)
      · exact hok o ho

theorem init2_get (t0 hw hws i : Nat) : (init2 t0 hw hws).get i = init t0 hw hws := by
  unfold init2 A2.get; split <;> rfl

/-- **Exactly once, per shard.** On an agent with two shards, after any history of ApplyMetric calls (any event kind, any
    primary shard, secondary shard configured or not, start time before or after the event), flushes, drains and the final
    flush, on EACH shard every accepted id is in exactly one place exactly once and nothing else is anywhere. -/
theorem two_shard_exactly_once (t0 hw hws : Nat) (ops : List Op2) (hops : ∀ op ∈ ops, Op2Ok op) (i : Nat) (hi : i < 2) :
    (∀ id ∈ ((run2 (init2 t0 hw hws) ops).get i).acc, (locations ((run2 (init2 t0 hw hws) ops).get i)).count id = 1) ∧
    (∀ id, id ∉ ((run2 (init2 t0 hw hws) ops).get i).acc → (locations ((run2 (init2 t0 hw hws) ops).get i)).count id = 0) := by
  obtain ⟨l, hl, _⟩ := run2_shard ops (init2 t0 hw hws) hops i hi
  rw [hl, init2_get]
  exact exactly_once t0 hw hws l

/-- … and after Agent.FlushAllData each shard's ring is empty and every id it accepted is in its pushed buckets exactly once;
    every delivered event sits in a bucket not earlier than its clamped timestamp, with the rounded timestamp -/
theorem two_shard_delivered (t0 hw hws : Nat) (ops : List Op2) (h1 : hw ∈ allowedResolutions) (h2 : hws ∈ allowedResolutions)
    (hops : ∀ op ∈ ops, Op2Ok op) (i : Nat) (hi : i < 2) :
    ((run2 (init2 t0 hw hws) (ops ++ [.flushAll])).get i).ring = [] ∧
    (∀ id ∈ ((run2 (init2 t0 hw hws) (ops ++ [.flushAll])).get i).acc,
      (outIds ((run2 (init2 t0 hw hws) (ops ++ [.flushAll])).get i)).count id = 1) ∧
    (∀ b ∈ ((run2 (init2 t0 hw hws) (ops ++ [.flushAll])).get i).out, ∀ e ∈ b.items,
      e.cts ≤ b.time ∧ e.ts = e.cts / e.res * e.res) := by
  obtain ⟨l, hl, hok⟩ := run2_shard ops (init2 t0 hw hws) hops i hi
  have hrun : (run2 (init2 t0 hw hws) (ops ++ [.flushAll])).get i = run (init t0 hw hws) (l ++ [.flushAll]) := by
    have : run2 (init2 t0 hw hws) (ops ++ [.flushAll]) = step2 (run2 (init2 t0 hw hws) ops) .flushAll := by
      unfold run2; rw [List.foldl_append]; rfl
    rw [this, step2_shard _ Op2.flushAll (by trivial) i hi, hl, init2_get]
    unfold run; rw [List.foldl_append]; rfl
  rw [hrun]
  have hd := delivered_exactly_once t0 hw hws l h1 h2 hok
  refine ⟨hd.1, hd.2, ?_⟩
  intro b hb e he
  have hok' : ∀ o ∈ l ++ [Op.flushAll], OpOk o := by
    intro o ho
    rcases List.mem_append.mp ho with ho | ho
    · exact hok o ho
    · simp at ho; subst ho; trivial
  have := delivered_not_early t0 hw hws (l ++ [.flushAll]) h1 h2 hok' b hb e he
  exact ⟨this.1, this.2.2.1⟩

/-- **The primary shard ignores the secondary's configuration.** What ApplyMetric does on the primary shard — the state it
    leaves and whether the event is accepted — is the single-shard `amStep` (dropIfBeforeTimestamp = 0) whatever
    ShardFixedKey2 / ShardFixedKey2Timestamp are and whatever the event kind is. -/
theorem primary_independent_of_secondary (a : A2) (kind kind' : Kind) (k1 k2 k2' start start' ts res hash : Nat) (hk : K1Ok k1) :
    ((am2Step a kind k1 k2 start ts res hash).1).get (k1 - 1) = (amStep (a.get (k1 - 1)) ts res hash).1 ∧
    (am2Step a kind k1 k2 start ts res hash).2.1 = (amStep (a.get (k1 - 1)) ts res hash).2 ∧
    ((am2Step a kind k1 k2 start ts res hash).1).get (k1 - 1) = ((am2Step a kind' k1 k2' start' ts res hash).1).get (k1 - 1) ∧
    (am2Step a kind k1 k2 start ts res hash).2.1 = (am2Step a kind' k1 k2' start' ts res hash).2.1 := by
  have key : ∀ (kd : Kind) (q st : Nat), ((am2Step a kd k1 q st ts res hash).1).get (k1 - 1) = (amStep (a.get (k1 - 1)) ts res hash).1 ∧
      (am2Step a kd k1 q st ts res hash).2.1 = (amStep (a.get (k1 - 1)) ts res hash).2 := by
    intro kd q st
    unfold am2Step
    rcases hk with rfl | rfl <;> cases hs : secondaryOf 2 _ q <;> simp [A2.get, A2.set, amPrimary_eq]
  exact ⟨(key kind k2 start).1, (key kind k2 start).2, (key kind k2 start).1.trans (key kind' k2' start').1.symm,
    (key kind k2 start).2.trans (key kind' k2' start').2.symm⟩

theorem accept_fields (s : S) (id ts res hash drop : Nat) (aux : Bool) :
    (accept s id ts res hash drop aux).1.stop = s.stop ∧ (accept s id ts res hash drop aux).1.cur = s.cur ∧
    (accept s id ts res hash drop aux).1.send = s.send := by
  unfold accept
  split
  · exact ⟨rfl, rfl, rfl⟩
  · split <;> exact ⟨rfl, rfl, rfl⟩

theorem amStepD_none (s : S) (ts res hash drop : Nat) (h : (amStepD s ts res hash drop).2 = none) :
    s.stop = true ∨ gap s.cur s.send > 0 ∨ (0 < drop ∧ keyTs (clampTs ts s.cur) res < drop) := by
  have hf := accept_fields s (4 * s.next + 2) 0 statusResolution 0 drop true
  have h' : (applyEv (accept s (4 * s.next + 2) 0 statusResolution 0 drop true).1 true (4 * s.next) ts res hash drop).2 = none := h
  have h1 := applyEv_none _ _ _ _ _ _ _ h'
  have h2 := (accept_none _ _ _ _ _ _ _ h1.1).2
  rw [hf.1, hf.2.1, hf.2.2] at h2
  rcases h2 with h3 | h3 | h3
  · exact Or.inl h3
  · exact Or.inr (Or.inl h3)
  · exact Or.inr (Or.inr ⟨by omega, h3⟩)

/-- **Drops on the primary shard.** Through ApplyMetric an event is dropped on its primary shard only during shutdown or
    while that shard's receive queue has a gap — never because of the secondary shard's start time. -/
theorem primary_drop_only_gap_or_stop (a : A2) (kind : Kind) (k1 k2 start ts res hash : Nat) (hk : K1Ok k1)
    (h : (am2Step a kind k1 k2 start ts res hash).2.1 = none) :
    (a.get (k1 - 1)).stop = true ∨ gap (a.get (k1 - 1)).cur (a.get (k1 - 1)).send > 0 := by
  rw [(primary_independent_of_secondary a kind kind k1 k2 k2 start start ts res hash hk).2.1] at h
  rcases amStepD_none (a.get (k1 - 1)) ts res hash 0 h with h1 | h1 | h1
  · exact Or.inl h1
  · exact Or.inr h1
  · omega

/-- **Drops on the secondary shard**: shutdown, gap, or the (carried, clamped, rounded) timestamp is before its start time -/
theorem secondary_drop_only_when (a : A2) (kind : Kind) (k1 k2 start ts res hash : Nat)
    (hs : secondaryOf 2 k1 k2 ≠ none) (h : (am2Step a kind k1 k2 start ts res hash).2.2 = none) :
    (a.get (1 - (k1 - 1))).stop = true ∨ gap (a.get (1 - (k1 - 1))).cur (a.get (1 - (k1 - 1))).send > 0 ∨
    (0 < start ∧ keyTs (clampTs (carryTs (a.get (k1 - 1)) ts res) (a.get (1 - (k1 - 1))).cur) res < start) := by
  unfold am2Step at h
  cases hq : secondaryOf 2 k1 k2 with
  | none => exact absurd hq hs
  | some q =>
    rw [hq] at h
    simp only [amSecondary_eq] at h
    exact amStepD_none _ _ _ _ _ h

/-- a shard that is neither primary nor (effective) secondary is not touched -/
theorem unconfigured_shard_untouched (a : A2) (kind : Kind) (k1 k2 start ts res hash : Nat) (hk : K1Ok k1)
    (hs : secondaryOf 2 k1 k2 = none) :
    ((am2Step a kind k1 k2 start ts res hash).1).get (1 - (k1 - 1)) = bump (a.get (1 - (k1 - 1))) := by
  unfold am2Step
  rw [hs]
  rcases hk with rfl | rfl <;> simp [A2.get, A2.set]

/-! ## Non-vacuity and sharpness witnesses

  The witnesses use concrete numbers, so they are stated for the constants as they are in the pinned tree (`Pinned`); if
  a constant changes, the theorems above are re-proved against the new value and these examples become vacuous instead of
  failing the build. -/

/-- the regenerated constants have the values the witnesses below were written for -/
def Pinned : Prop := (W, F, K, statusResolution, maxTags) = (128, 3, 120, 1, 48)
instance : Decidable Pinned := by unfold Pinned; infer_instance

-- hypotheses of `slot_in_window` are satisfiable at the boundary gap = 0 with the largest resolution
example : Pinned → gapPos 1005 1000 = false ∧ 60 ∈ allowedResolutions := by decide
-- … and the gap bound is sharp: one more second of gap (gap = 1) and a 60 s row would wrap around the ring,
-- i.e. land in a cell that is flushed `superQueueLen` seconds too early
example : Pinned → gapPos 1197 1191 = true ∧ ¬ (slotOf (clampTs 1200 1197) 60 4294967295 1191 < 1191 + W) := by decide
-- the same with the literal itself changed: with 119 in place of 120 the shard still accepts at CurrentTime - SendTime = 6
-- (gap = 0), and a 60 s row with timestamp >= CurrentTime + 3 and a resolution hash in the last sub-slot gets slot =
-- SendTime + superQueueLen, i.e. the cell that is flushed NEXT (at second SendTime, 128 s before the row's second)
example : Pinned → gapWith 119 1197 1191 = 0 ∧ gapWith K 1197 1191 = 1 ∧
    slotOf (clampTs 1200 1197) 60 4294967295 1191 = 1191 + superQueueLen ∧
    slotOf (clampTs 1200 1197) 60 4294967295 1191 % superQueueLen = 1191 % superQueueLen := by decide
-- … and so is the future clamp: without it (cts = ts = cur + 4) the same happens at gap = 0
example : Pinned → gapPos 1196 1191 = false ∧ ¬ (slotOf 1200 60 4294967295 1191 < 1191 + W) := by decide

-- hypotheses of `placement_deterministic`: an on-time 5 s row
example : Pinned → (1000003 : Nat) ≠ 0 ∧ 1000003 ≤ 1000000 + F ∧ 999998 ≤ canonSlot 1000003 5 4294967295 := by decide
-- a late row is NOT placed at its canonical second (the hypothesis is needed)
example : Pinned → slotOf (clampTs 999000 1000000) 5 0 999998 ≠ canonSlot 999000 5 0 := by decide

example : Pinned → OpOk (.ev .counter .normal 1000003 5 4294967295 0) := by intro _ _; decide
example : Pinned → OpOk (.am 1000003 60 7 false) := by intro _; show 60 ∈ allowedResolutions; decide

/-- a small history with an on-time low-resolution row, a late row, a future-clamped row (which also emits its ingestion
    status), a back-pressure stall, a pause that opens a gap (a dropped event), a long sleep (jump-ahead of 3 laps), an
    event dropped because it is before the secondary shard's start, and an accepted one still waiting in the ring -/
def demo : List Op :=
  [ .ev .counter .normal 1000003 5 4294967295 0, .ev .addCounterHost .normal 999000 1 0 0, .ev .values .normal 1000100 1 0 0,
    .flush 1000002500, .flush 1000003500, .drain, .flush 1000012000, .ev .counter .normal 1000012 1 0 0, .drain,
    .flush 1000400000, .drain, .flush 1000400100, .drain,
    .ev .unique .normal 1000399 2 123456789 1000500, .ev .unique .normal 1000399 2 123456789 0 ]

set_option maxRecDepth 20000 in
example : Pinned ∧ agentWindowMs = 1300 →
    (run (init 1000000 5 15) demo).laps = 3 ∧ (run (init 1000000 5 15) demo).ring.map (fun p => (p.1, p.2.id)) = [(80, 20)] ∧
    (run (init 1000000 5 15) demo).acc = [20, 9, 8, 4, 0] ∧
    (run (init 1000000 5 15) demo).out.map (fun b => (b.time, b.items.map (·.id))) =
      [(999998, [4]), (1000003, [9, 8]), (1000393, [0]), (1000395, [])] := by decide

-- the buggy variant "append after the caller's content, hash the whole buffer" is NOT prefix independent (for an injective-enough H)
example : marshalAppend [1] 7 [] ≠ marshalAppend [] 7 [] := by decide

-- the Key tags do depend on the mapping cache, OriginalTagValues do not (`ov_cache_independent` is not trivial)
example : Pinned → (mapAll [([97], 5)] [(1, [97])]).tagsI ≠ (mapAll [] [(1, [97])]).tagsI := by decide
-- hypotheses of `ov_order_independent`
example : [((3 : Nat), ([97, 98] : Bytes)), (1, [120])].Perm [(1, [120]), (3, [97, 98])] ∧
    ([((3 : Nat), ([97, 98] : Bytes)), (1, [120])].map (·.1)).Nodup := ⟨List.Perm.swap _ _ _, by decide⟩
-- a tag sent twice makes the result order dependent (the distinct-names hypothesis is needed)
example : Pinned → (mapAll [] [(1, [97]), (1, [98])]).ov ≠ (mapAll [] [(1, [98]), (1, [97])]).ov := by decide

-- two shards: a unique-values event whose metric has a secondary shard starting in the future is accepted on the primary and
-- dropped on the secondary; once the start time has passed both accept it; without a (valid) secondary the other shard is skipped
example : Pinned → Op2Ok (.am2 .unique 1 2 2000000 1000000 5 7) := by intro _; exact ⟨Or.inl rfl, by decide⟩
example : Pinned → (am2Step (init2 1000000 5 15) .unique 1 2 2000000 1000000 5 7).2.1 ≠ none ∧
    (am2Step (init2 1000000 5 15) .unique 1 2 2000000 1000000 5 7).2.2 = none ∧ secondaryOf 2 1 2 ≠ none := by decide
example : Pinned → (am2Step (init2 1000000 5 15) .values 2 1 999000 1000000 5 7).2.1 ≠ none ∧
    (am2Step (init2 1000000 5 15) .values 2 1 999000 1000000 5 7).2.2 ≠ none := by decide
example : secondaryOf 2 1 1 = none ∧ secondaryOf 2 1 3 = none ∧ secondaryOf 2 1 0 = none ∧ secondaryOf 2 2 1 = some 0 := by decide
-- handing the secondary's start time to the PRIMARY call would drop the event there too (so `primary_drop_only_gap_or_stop`
-- is a statement about the 0 in `shard.ApplyUnique(…, 0)`, not a triviality)
example : Pinned → (amStepD (init 1000000 5 15) 1000000 5 7 2000000).2 = none ∧ (amStep (init 1000000 5 15) 1000000 5 7).2 ≠ none := by decide

end SH.C08
