/-
  SH.Props.C18 — fsbinlog replays exactly what was appended, across rotation and damage.

  Property (properties.jsonl): "A reader replaying a binlog delivers exactly the appended events in order, each at the offset the
  writer returned, across any number of file rotations, and resuming from any committed position (with its snapshot meta)
  delivers exactly the remaining suffix. Commit notifications are monotone and never exceed the bytes written before the last
  fsync; a truncated binlog replays up to its last complete event and never yields a partial event, and any corruption of bytes
  covered by a later checksum record makes replay fail with a checksum error when that record is reached."

  Model: SH/Model/Binlog.lean (putLevToBuffer, writer loop + file system, reader loop, scan/seek, engine stub).
  crc32 is the parameter `Cfg.upd`; md5 hashes and clocks are inputs.

  What is proved here (all kernel-checked, for ALL inputs of the stated shape; helper developments in SH/Lemmas/Binlog*.lean):
    * `crcUpdate_append`          the driver's crc32 satisfies the streaming law the reader/writer rely on
    * `readStep_cont`, `reach_consumed`, `crc_record_checked`   after ANY bytes the running crc is `upd crc0 (consumed bytes)`; a crc
                                  record is rejected with a checksum error iff the stored value differs (reduction form)
    * `replay_all`                one chunk (round 1)
    * `replay_rotating` (via `sim`) from any writer state, through any number of rotations and crc records (round 2)
    * `readAll_resume`, `readAll_from_commit`   `readAllFromPosition` END TO END: directory scan + sort (`scan_allFiles`), choice of
                                  the chunk of the commit position (`indexByPos_split`), seek with checksum verification against the
                                  snapshot meta (`seek_resume`, hypotheses discharged by the accounting invariant `Acc` over the
                                  append decomposition `allFiles_append`/`splitC_inv`), replay of the remaining chunks:
                                  `readAll (files of pre ++ post) (commit after pre, its meta) = ok (events of post at their offsets)`
    * `readAll_reduce`            the general wrapper lemma: chunks closed by earlier sessions + current chunk + layout with an
                                  arbitrary continuation of the last chunk; with the commit's meta or WITHOUT meta
    * `Sessions`, `sessions_good`, `readAll_resume_sessions`   ANY number of writer sessions (fresh binlog, batches of appends,
                                  restarts with `wsInit`): the invariant `Good` (closed chunks scan and precede the current one,
                                  `Acc`, `CurOK`) holds along every history, and readAll at any commit, with or without its
                                  meta, = ok (exactly the later events at their offsets)
    * `restart_takes_replay_result`   the writer state a restart builds with `wsInit` from the result of `readAll` (no assumed
                                  position/checksum) satisfies `Good` again, and that replay delivered exactly the later events
    * `readAll_resume_older_meta` readAll(P2, meta of an older commit P1 < P2 of the same chunk) = ok (events after P2);
                                  `seek_older`; the C18-r5-2 mutation as `seekBad` with a `decide` witness
    * `readAll_damaged_prefix_or_collision`   `crc_record_checked` lifted through readAll: arbitrary bytes behind a written prefix —
                                  the prefix is delivered, and any crc record reached in the damaged part fails readAll with a
                                  checksum error unless the stored value equals the checksum of the damaged bytes (collision)
    * `readAll_truncated`         the truncation theorems lifted through readAll (scan, sort, chunk choice, seek included)
    * `commit_covered_per_file`   every committed offset is covered, file by file (closed chunks incl. their ROTATE_TO), by that
                                  file's fsync; the C18-r3-2 mutation (`rotateFSBad`) violates it (`decide` witness)
    * `readAll_from_start`        the same from offset 0 without meta: LevStart and tag are skipped (`step_start`, `step_tag`)
    * `iter_files_layout`         one writer-loop iteration leaves on disk exactly `allFiles` (contents: `writeBuffer_split`)
    * `apNext_buff`               the layout's bytes are exactly what `putLevToBuffer` puts into the buffer (+ rotatePos entry)
    * `truncate_prefix`           last chunk cut anywhere behind its ROTATE_FROM header: exactly the complete events, no error
    * `truncate_tail_files`       a chunk cut anywhere (event, crc record, ROTATE_TO) with ALL later files removed: exactly the
                                  complete events of the remaining chunks, no error; excluded shape: cut inside a ROTATE_FROM header
                                  (known finding, `decide` witnesses at the end)
    * `commit_monotone`, `commit_all_synced_partial`, `commit_le_fsynced`   commits never decrease / never exceed the fsynced bytes
    * `append_after_stop_refused_or_durable`   no acknowledged append is lost around shutdown
    * `putLev_no_panic`           a writer restarted in the first chunk never takes the out-of-range hashBuff2 slice
  Remaining gaps: see the comment block at the end.
-/
import SH.Model.Binlog
import SH.Lemmas.Binlog
import SH.Lemmas.BinlogCut
import SH.Lemmas.BinlogWriter
import SH.Lemmas.BinlogAll
import SH.Lemmas.BinlogWB
import SH.Lemmas.BinlogMulti
open SH.Binlog
namespace SH.C18



/-- **replay_all / offsets_match_writer / resume_suffix (single file).**  Start the reader at ANY writer state `w`
    (position `w.offG`, running crc `w.crc`: the start of the binlog, or a later event boundary with the crc the writer's
    Commit reported there = resume with snapshot meta) on the bytes the subsequent appends `es` put into the buffer.
    Then the loop ends without error, delivers exactly `es`, in order, each at the offset the writer assigned
    (`offsets` = the values `Append` returned), and ends at the writer's final position and crc. -/
theorem replay_all (cfg : Cfg) (hm : cfg.evMagic < 4294967296) (hsvc : cfg.evMagic ∉ serviceMagics) :
    ∀ (es : List Ev) (w : WS) (s : RS) (fuel : Nat),
      NoRotate cfg w es →
      (∀ e ∈ es, e.body.length < 4294967296 ∧ e.ts < 4294967296) →
      (writeAll cfg w es).buff = w.buff ++ s.rest →
      s.pos = w.offG → s.crc = w.crc → s.eng.off = w.offG → s.dk = false → s.slack = 0 →
      ((writeAll cfg w es).offG : Int) - s.commitPos ≤ uncommittedMax →
      2 * es.length + 1 ≤ fuel →
      (readLoop cfg fuel s).err = none ∧ (readLoop cfg fuel s).rotated = false ∧
      (readLoop cfg fuel s).s.eng.evs = (offsets cfg w es).reverse ++ s.eng.evs ∧
      (readLoop cfg fuel s).s.pos = (writeAll cfg w es).offG ∧
      (readLoop cfg fuel s).s.crc = (writeAll cfg w es).crc
  | [], w, s, fuel, _, _, hbuf, hpos, hcrc, _, _, _, _, hf => by
    have hr : s.rest = [] := by
      simp only [writeAll] at hbuf
      exact (List.append_right_eq_self.mp hbuf.symm)
    obtain ⟨f, rfl⟩ : ∃ f, fuel = f + 1 := ⟨fuel - 1, by omega⟩
    rw [readLoop_nil cfg f s hr]
    simp [writeAll, offsets, hpos, hcrc]
  | e :: es, w, s, fuel, hnr, hsz, hbuf, hpos, hcrc, hoff, hdk, hsl, hsmall, hf => by
    obtain ⟨hb, ho, hc⟩ := wnext_fields cfg w e hnr.1
    obtain ⟨X, hX, hle⟩ := writeAll_buff cfg es (wnext cfg w e) hnr.2
    have hbody := (hsz e (List.mem_cons_self ..)).1
    have hts := (hsz e (List.mem_cons_self ..)).2
    -- the reader's rest starts with the bytes of this append
    have hrest : s.rest = padded (evBytes cfg e) ++ (crcPart cfg w e ++ X) := by
      simp only [writeAll] at hbuf
      rw [hX, hb, List.append_assoc] at hbuf
      have := List.append_cancel_left hbuf
      rw [← this, List.append_assoc]
    have hbig : bigTail s = false := by
      simp only [bigTail, decide_eq_false_iff_not, hpos]; simp only [writeAll] at hsmall; omega
    obtain ⟨f1, rfl⟩ : ∃ f, fuel = f + 1 := ⟨fuel - 1, by omega⟩
    have st1 := readStep_event cfg s e.body (crcPart cfg w e ++ X) hm (kindOf_user hsvc) hbody hrest hdk (by rw [hoff, hpos])
      hbig (by rw [hsl]; exact Nat.zero_le _)
    by_cases hcN : needCrc cfg (appendLev cfg w (evBytes cfg e)) = true
    · -- event followed by a crc record
      have hcp : crcPart cfg w e = encCrc e.ts (w.offG + pad4 (8 + e.body.length)) (cfg.upd w.crc (padded (evBytes cfg e))) := by
        show (if needCrc cfg (appendLev cfg w (evBytes cfg e)) = true then _ else _) = _
        rw [if_pos hcN]; simp [appendLev, evBytes]
      obtain ⟨f2, rfl⟩ : ∃ f, f1 = f + 1 := ⟨f1 - 1, by simp at hf; omega⟩
      have hcN' : needCrc cfg (appendLev cfg w (encEvent cfg.evMagic e.body)) = true := hcN
      have hlen : (crcPart cfg w e).length = 20 := by rw [hcp]; simp
      have hbig2 : bigTail (afterEvent cfg s e.body (crcPart cfg w e ++ X)) = false := by
        simp only [bigTail, afterEvent, decide_eq_false_iff_not, hpos]; simp only [writeAll] at hsmall; omega
      have st2 := readStep_crcRec cfg (afterEvent cfg s e.body (crcPart cfg w e ++ X)) e.ts (w.offG + pad4 (8 + e.body.length)) X hts
        (by simp only [afterEvent, hcrc, evBytes] at *; rw [hcp]) (by simp [afterEvent, hoff, hpos]) hbig2
      have ih := replay_all cfg hm hsvc es (wnext cfg w e)
        (afterCrc cfg (afterEvent cfg s e.body (crcPart cfg w e ++ X)) e.ts (w.offG + pad4 (8 + e.body.length)) X) f2
        hnr.2 (fun e' he' => hsz e' (List.mem_cons_of_mem _ he')) (by simpa [afterCrc] using hX)
        (by simp [afterCrc, afterEvent, ho, hpos, hlen] <;> omega)
        (by simp [afterCrc, afterEvent, hc, hcrc, evBytes, hcN'])
        (by simp [afterCrc, afterEvent, ho, hoff, hlen] <;> omega) rfl (by simp [afterCrc, afterEvent, hsl])
        (by simpa [afterCrc, afterEvent, writeAll] using hsmall) (by simp at hf; omega)
      simp only [readLoop, st1, st2]
      simp only [writeAll, offsets]
      refine ⟨ih.1, ih.2.1, ?_, ih.2.2.2.1, ih.2.2.2.2⟩
      rw [ih.2.2.1]; simp [afterCrc, afterEvent, hoff, evBytes]
    · -- event only
      have hcN' : ¬ needCrc cfg (appendLev cfg w (encEvent cfg.evMagic e.body)) = true := hcN
      have hcp : crcPart cfg w e = [] := by
        show (if needCrc cfg (appendLev cfg w (evBytes cfg e)) = true then _ else _) = _
        rw [if_neg hcN]
      have ih := replay_all cfg hm hsvc es (wnext cfg w e) (afterEvent cfg s e.body (crcPart cfg w e ++ X)) f1
        hnr.2 (fun e' he' => hsz e' (List.mem_cons_of_mem _ he')) (by simpa [afterEvent, hcp] using hX)
        (by simp [afterEvent, ho, hpos, hcp])
        (by simp [afterEvent, hc, hcrc, evBytes, hcN'])
        (by simp [afterEvent, ho, hoff, hcp]) rfl (by simp [afterEvent, hsl])
        (by simpa [afterEvent, writeAll] using hsmall) (by simp at hf; omega)
      simp only [readLoop, st1]
      simp only [writeAll, offsets]
      refine ⟨ih.1, ih.2.1, ?_, ih.2.2.2.1, ih.2.2.2.2⟩
      rw [ih.2.2.1]; simp [afterEvent, hoff, evBytes]



/-! ### replay across rotations, truncation (Lemmas/BinlogRot, BinlogSim, BinlogCut) -/

/-- **replay_rotating (replay_all + offsets_match_writer + resume_suffix across ROTATIONS).**  For every list of appends, every
    chunk size and crc interval: let the reader stand at ANY writer state `w` (the start of the log after its header, or any
    later commit position with the crc reported there — i.e. after `seek` with the snapshot meta), let the rest of the current
    file and the later files be what the writer lays out for the appends `as` (any number of ROTATE_TO / ROTATE_FROM boundaries,
    crc records included).  Then `readLoop` on the current file followed by `readFiles` on the later ones ends without error,
    delivers exactly the events of `as`, in order, each at the offset `Append` returned, and ends at the writer's position/crc. -/
theorem replay_rotating (cfg : Cfg) (hm : cfg.evMagic < 4294967296) (hsvc : cfg.evMagic ∉ serviceMagics)
    (as : List Ap) (w : WS) (s : RS) (fuel : Nat)
    (hsz : ∀ a ∈ as, a.body.length < 4294967296 ∧ a.ts < 4294967296)
    (hbound : (runAll cfg w as).offG < 9223372036854775808)
    (h : At s w.offG w.crc (layoutC cfg w as ([], [])).1)
    (hf : (layoutC cfg w as ([], [])).1.length / 4 + 2 ≤ fuel) :
    (finish cfg (readLoop cfg fuel s) ((layoutC cfg w as ([], [])).2.map hdrOf)).2.2.1 = none ∧
    (finish cfg (readLoop cfg fuel s) ((layoutC cfg w as ([], [])).2.map hdrOf)).2.2.2.1.evs = (offsR cfg w as).reverse ++ s.eng.evs ∧
    (finish cfg (readLoop cfg fuel s) ((layoutC cfg w as ([], [])).2.map hdrOf)).1 = ((runAll cfg w as).offG : Int) ∧
    (finish cfg (readLoop cfg fuel s) ((layoutC cfg w as ([], [])).2.map hdrOf)).2.1 = (runAll cfg w as).crc := by
  obtain ⟨s', fuel', hat, hfl, hev, hfin⟩ := sim cfg hm hsvc as w ([], []) s fuel hsz hbound h hf
  obtain ⟨f, rfl⟩ : ∃ f, fuel' = f + 1 := ⟨fuel' - 1, by omega⟩
  rw [hfin, readLoop_nil cfg f s' hat.hrest]
  simp [finish, readFiles, hev, hat.hpos, hat.hcrc]

/-- **truncate_prefix.**  The appends are `pre ++ post` where `post` is the run written into the LAST chunk (no rotation in it);
    the last chunk is cut `t` bytes after the point where `post` starts (for a rotated chunk: `36 + t` bytes into the file, i.e.
    the file keeps its complete ROTATE_FROM header — the excluded case is the known finding below).  Then replay ends without
    error and delivers exactly the events of `pre` followed by the first `complete … t` events of `post`: those that lie, with
    their padding, inside the cut (a cut crc record ends the replay) — a prefix of the appended list, never a partial event. -/
theorem truncate_prefix (cfg : Cfg) (hm : cfg.evMagic < 4294967296) (hsvc : cfg.evMagic ∉ serviceMagics)
    (pre post : List Ap) (w : WS) (s : RS) (fuel t : Nat)
    (hsz : ∀ a ∈ pre ++ post, a.body.length < 4294967296 ∧ a.ts < 4294967296)
    (hbound : (runAll cfg w pre).offG < 9223372036854775808)
    (hnr : NoRotR cfg (runAll cfg w pre) post)
    (ht : t ≤ (layoutC cfg (runAll cfg w pre) post ([], [])).1.length)
    (h : At s w.offG w.crc (layoutC cfg w pre ((layoutC cfg (runAll cfg w pre) post ([], [])).1.take t, [])).1)
    (hf : (layoutC cfg w pre ((layoutC cfg (runAll cfg w pre) post ([], [])).1.take t, [])).1.length / 4 + 2 ≤ fuel) :
    (finish cfg (readLoop cfg fuel s)
        ((layoutC cfg w pre ((layoutC cfg (runAll cfg w pre) post ([], [])).1.take t, [])).2.map hdrOf)).2.2.1 = none ∧
    (finish cfg (readLoop cfg fuel s)
        ((layoutC cfg w pre ((layoutC cfg (runAll cfg w pre) post ([], [])).1.take t, [])).2.map hdrOf)).2.2.2.1.evs
      = ((offsR cfg (runAll cfg w pre) post).take (complete cfg (runAll cfg w pre) post t)).reverse ++
        ((offsR cfg w pre).reverse ++ s.eng.evs) := by
  obtain ⟨s', fuel', hat, hfl, hev, hfin⟩ := sim cfg hm hsvc pre w (_, []) s fuel
    (fun a ha => hsz a (List.mem_append_left _ ha)) hbound h hf
  have hlen : ((layoutC cfg (runAll cfg w pre) post ([], [])).1.take t).length = t := by simp; omega
  have hc := read_cut cfg hm hsvc post (runAll cfg w pre) s' t fuel' hnr (fun a ha => hsz a (List.mem_append_right _ ha)) hat
    (by simp only [hlen] at hfl; exact hfl) ht
  rw [hfin]
  simp only [finish, List.map_nil, hc.1, readFiles, hc.2.2, hev, and_self]


/-- tie between the layout and the writer model's buffer: one append puts exactly the layout's bytes into `buffEx.buff`
    (event, crc record, and — when it rotates — ROTATE_TO and ROTATE_FROM, with the rotation position recorded between them) -/
theorem apNext_buff (cfg : Cfg) (w : WS) (a : Ap) :
    (apNext cfg w a).buff = w.buff ++ apA cfg w a ++ (if rotates cfg w a then apRT cfg w a ++ apRF cfg w a else []) ∧
    (apNext cfg w a).rotPos = w.rotPos ++ (if rotates cfg w a then [(w.buff ++ apA cfg w a ++ apRT cfg w a).length] else []) :=
  apNext_buffL cfg w a

/-- **seek with the snapshot meta.**  The file holds `A ++ R`, its header says it starts at `h.pos` with checksum `h.crc`, the
    meta of a commit names the position behind `A` and the checksum of everything up to there.  Then `readAndUpdateCRCIfNeed`
    accepts (it re-computes the checksum over `A` and compares) and the loop starts at the commit position, with the commit's
    checksum, on `R` — the precondition `At` of `replay_rotating` / `truncate_prefix` once the engine is at that offset. -/
theorem seek_resume (cfg : Cfg) (h : Hdr) (A R : Bytes) (m : Meta) (ts : Nat) (hd : h.data = A ++ R)
    (hpos : m.pos = h.pos + A.length) (hcrc : cfg.upd h.crc A = m.crc) :
    seek cfg h m.pos (some m) ts = .ok (m.pos, m.crc, R, m.ts) := by
  have h1 : ¬ (m.pos > m.pos) := Int.lt_irrefl _
  have h2 : h.pos ≤ m.pos := by omega
  have h3 : (m.pos - h.pos).toNat = A.length := by omega
  have h4 : atLeast h.data A.length = true := by rw [atLeast_iff, hd]; simp
  have t1 : h.data.take A.length = A := by rw [hd]; exact List.take_left' rfl
  have t2 : h.data.drop A.length = R := by rw [hd]; exact List.drop_left' rfl
  simp [seek, h2, h3, h4, t1, t2, hcrc]

/-- the same position reached WITHOUT meta: the checksum is recomputed from the file header -/
theorem seek_nometa (cfg : Cfg) (h : Hdr) (A R : Bytes) (ts : Nat) (hd : h.data = A ++ R) (ha : A.length ≠ 0) :
    seek cfg h (h.pos + A.length) none ts = .ok (h.pos + A.length, cfg.upd h.crc (h.data.take A.length), R, ts) := by
  have h4 : atLeast h.data A.length = true := by rw [atLeast_iff, hd]; simp
  have t2 : h.data.drop A.length = R := by rw [hd]; exact List.drop_left' rfl
  have h1 : h.pos < h.pos + (A.length : Int) := by omega
  have h3 : (h.pos + (A.length : Int) - h.pos).toNat = A.length := by omega
  simp [seek, h1, h3, h4, t2]


/-- **truncate_tail_files.**  The appends are `pre ++ post`; of the chunk in which `post` starts only the first `t` bytes behind
    that point are left and EVERY later chunk is removed (a crash/cleanup that lost whole files, the last remaining one possibly
    cut — inside an event, a crc record or its ROTATE_TO).  Replay ends without error and delivers the events of `pre` followed
    by exactly the events of `post` that are complete in what is left of that chunk: a prefix of the appended list, never a
    partial event.  (`t` = the whole rest of the chunk: only later files are missing, every event of the chunk is delivered.)
    The one excluded shape is a file cut inside its own ROTATE_FROM header: the layout keeps `apRF` whole (known finding). -/
theorem truncate_tail_files (cfg : Cfg) (hm : cfg.evMagic < 4294967296) (hsvc : cfg.evMagic ∉ serviceMagics)
    (pre post : List Ap) (w : WS) (s : RS) (fuel t : Nat)
    (hsz : ∀ a ∈ pre ++ post, a.body.length < 4294967296 ∧ a.ts < 4294967296)
    (hbound : (runAll cfg w pre).offG < 9223372036854775808)
    (ht : t ≤ (layoutC cfg (runAll cfg w pre) post ([], [])).1.length)
    (h : At s w.offG w.crc (layoutC cfg w pre ((layoutC cfg (runAll cfg w pre) post ([], [])).1.take t, [])).1)
    (hf : (layoutC cfg w pre ((layoutC cfg (runAll cfg w pre) post ([], [])).1.take t, [])).1.length / 4 + 2 ≤ fuel) :
    (finish cfg (readLoop cfg fuel s)
        ((layoutC cfg w pre ((layoutC cfg (runAll cfg w pre) post ([], [])).1.take t, [])).2.map hdrOf)).2.2.1 = none ∧
    (finish cfg (readLoop cfg fuel s)
        ((layoutC cfg w pre ((layoutC cfg (runAll cfg w pre) post ([], [])).1.take t, [])).2.map hdrOf)).2.2.2.1.evs
      = ((offsR cfg (runAll cfg w pre) post).take (completeC cfg (runAll cfg w pre) post t)).reverse ++
        ((offsR cfg w pre).reverse ++ s.eng.evs) := by
  obtain ⟨s', fuel', hat, hfl, hev, hfin⟩ := sim cfg hm hsvc pre w (_, []) s fuel
    (fun a ha => hsz a (List.mem_append_left _ ha)) hbound h hf
  have hlen : ((layoutC cfg (runAll cfg w pre) post ([], [])).1.take t).length = t := by simp; omega
  have hc := read_chunk_cut cfg hm hsvc post (runAll cfg w pre) s' t fuel' (fun a ha => hsz a (List.mem_append_right _ ha)) hat
    (by simp only [hlen] at hfl; exact hfl) ht
  rw [hfin]
  simp only [finish, List.map_nil, hc.1, readFiles, hc.2, hev, and_self]


/-! ### readAllFromPosition end to end (Lemmas/BinlogAll) -/

theorem runAll_append (cfg : Cfg) : ∀ (pre post : List Ap) (w : WS), runAll cfg w (pre ++ post) = runAll cfg (runAll cfg w pre) post
  | [], _, _ => rfl
  | a :: as, post, w => by simp only [List.cons_append, runAll]; exact runAll_append cfg as post _

theorem readFiles_first (cfg : Cfg) (h : Hdr) (hs : List Hdr) (fromPos : Int) (si : Option Meta) (ts : Nat) (eng : Eng) (p : Int) (c : UInt32) :
    readFiles cfg (h :: hs) true fromPos si ts eng p c = finish cfg (readFile cfg h fromPos si ts eng) hs := by
  unfold finish
  rw [readFiles]
  rfl

/-- **readAll_resume (replay_rotating stated on `readAllFromPosition`).**  `w`/`c0` describe the chunk being written when the
    appends start (position/checksum accounting `Acc`, header scans `CurOK`).  The appends are `pre ++ post`; the files are the
    ones the writer lays out; a commit after `pre` announced `(wk.offG, wk.crc)`.  Then `readAll files wk.offG meta` — directory
    scan and sort, choice of the chunk by `getBinlogIndexByPosition`, seek with checksum verification against the meta, replay of
    the rest of that chunk and of all later chunks — ends without error and delivers exactly the events of `post`, in order, at
    the offsets `Append` returned, ending at the writer's final position and checksum. -/
theorem readAll_resume (cfg : Cfg) (hm : cfg.evMagic < 4294967296) (hsvc : cfg.evMagic ∉ serviceMagics)
    (hupd : ∀ c a b, cfg.upd (cfg.upd c a) b = cfg.upd c (a ++ b))
    (pre post : List Ap) (w : WS) (c0 : Cur) (ts0 mts : Nat)
    (hsz : ∀ a ∈ pre ++ post, a.body.length < 4294967296 ∧ a.ts < 4294967296)
    (hb : (runAll cfg w (pre ++ post)).offG < 9223372036854775808)
    (ha : Acc cfg w c0) (hk : CurOK cfg c0) (wk : WS) (hwk : wk = runAll cfg w pre) (r : RA)
    (hr : r = readAll cfg (allFiles cfg w (pre ++ post) c0.bytes) wk.offG (some ⟨wk.offG, wk.crc, mts⟩) ts0 ⟨wk.offG, [], []⟩) :
    r.err = none ∧ r.eng.evs = (offsR cfg wk post).reverse ∧ r.pos = ((runAll cfg wk post).offG : Int) ∧
      r.crc = (runAll cfg wk post).crc := by
  subst hwk
  generalize hwk : runAll cfg w pre = wk at hr ⊢
  have hbk : (runAll cfg wk post).offG < 9223372036854775808 := by rw [← hwk, ← runAll_append]; exact hb
  have hbk0 : wk.offG < 9223372036854775808 := Nat.lt_of_le_of_lt (runAll_mono cfg post wk) hbk
  obtain ⟨hscan, hinc⟩ := scan_allFiles cfg w (pre ++ post) c0 hb ha hk
  obtain ⟨hacc, hck⟩ := splitC_inv cfg hupd pre w c0 (by rw [hwk]; exact hbk0) ha hk
  rw [hwk] at hacc
  -- the files, split at the commit position
  have hfiles := allFiles_append cfg pre post w c0
  rw [hwk] at hfiles
  generalize hD : (splitC cfg w pre c0).1 = D at hfiles
  generalize hcK : (splitC cfg w pre c0).2 = cK at hfiles hacc hck
  have hlat := laterOK_facts cfg _ _ (layout_laterOK cfg post wk hbk)
  let c2 := (layoutC cfg wk post ([], [])).1
  let l2 := (layoutC cfg wk post ([], [])).2
  have hcf : cK.bytes ++ c2 = cK.hd ++ (cK.body ++ c2) := by simp [Cur.bytes, List.append_assoc]
  have hcpos : (gh (cK.bytes ++ c2)).pos = (cK.pos : Int) := by rw [hcf]; exact (hck _).2.1
  have hccrc : (gh (cK.bytes ++ c2)).crc = cK.crc := by rw [hcf]; exact (hck _).2.2
  have hH : (allFiles cfg w (pre ++ post) c0.bytes).map gh = (D.map gh ++ [gh (cK.bytes ++ c2)]) ++ l2.map gh := by
    rw [hfiles]; simp [allFiles, c2, l2]
  rw [hH] at hscan hinc
  have hPk : (cK.pos : Int) ≤ (wk.offG : Int) := by have := hacc.1; omega
  -- every file up to the current one starts at or before the commit position, the next one behind it
  have hle : ∀ h ∈ D.map gh ++ [gh (cK.bytes ++ c2)], h.pos ≤ (wk.offG : Int) := by
    intro h hh
    rcases List.mem_append.mp hh with hh | hh
    · have := (List.pairwise_append.mp (List.pairwise_append.mp hinc).1).2.2 h hh (gh (cK.bytes ++ c2)) (by simp)
      omega
    · simp only [List.mem_singleton] at hh; subst hh; omega
  have hgt : ∀ h ∈ (l2.map gh).head?, (wk.offG : Int) < h.pos := by
    intro h hh
    exact hlat.2.2.2 h (List.mem_of_mem_head? hh)
  have hidx := indexByPos_split (wk.offG : Int) (D.map gh ++ [gh (cK.bytes ++ c2)]) (l2.map gh) 0 0 (by simp) hle hgt
  have hidx' : indexByPos (wk.offG : Int) ((D.map gh ++ [gh (cK.bytes ++ c2)]) ++ l2.map gh) 0 0 = D.length := by
    rw [hidx]; simp
  have hdrop : ((D.map gh ++ [gh (cK.bytes ++ c2)]) ++ l2.map gh).drop D.length = gh (cK.bytes ++ c2) :: l2.map hdrOf := by
    rw [List.append_assoc, List.drop_append_of_le_length (by simp), List.drop_of_length_le (by simp)]
    simp only [List.nil_append, List.singleton_append]
    rw [hlat.2.1]
  -- the seek
  have hseek := seek_resume cfg (gh (cK.bytes ++ c2)) cK.bytes c2 ⟨wk.offG, wk.crc, mts⟩ ts0 (gh_data _)
    (by simp only [hcpos]; have := hacc.1; omega) (by rw [hccrc]; exact hacc.2)
  -- the replay
  have hat : At { pos := (wk.offG : Int), crc := wk.crc, rest := c2, slack := c2.length % 4, dk := false, ts := mts, commitPos := 0,
                  eng := ⟨wk.offG, [], []⟩ } wk.offG wk.crc c2 := ⟨rfl, rfl, rfl, rfl, rfl, rfl⟩
  have hrep := replay_rotating cfg hm hsvc post wk _ (c2.length / 2 + 4)
    (fun a ha' => hsz a (List.mem_append_right _ ha')) hbk hat
    (by show (layoutC cfg wk post ([], [])).1.length / 4 + 2 ≤ (layoutC cfg wk post ([], [])).1.length / 2 + 4; omega)
  -- unfold readAll
  obtain ⟨h0, hs, hcons⟩ : ∃ h0 hs, (D.map gh ++ [gh (cK.bytes ++ c2)]) ++ l2.map gh = h0 :: hs := by
    cases hl : (D.map gh ++ [gh (cK.bytes ++ c2)]) ++ l2.map gh with
    | nil => simp at hl
    | cons a b => exact ⟨a, b, rfl⟩
  have hlow : ¬ ((wk.offG : Int) < h0.pos) := by
    have hmem : h0 ∈ D.map gh ++ [gh (cK.bytes ++ c2)] := by
      cases hd : D.map gh ++ [gh (cK.bytes ++ c2)] with
      | nil => simp at hd
      | cons a b => rw [hd] at hcons; simp at hcons; rw [← hcons.1]; simp
    have := hle h0 hmem; omega
  rw [hcons] at hscan hidx' hdrop
  simp only [readAll, hscan, hlow, if_false, hidx', Int.lt_irrefl, or_false, ne_eq, not_true_eq_false, hdrop, readFiles_first,
    readFile, hseek] at hr
  rw [hr]
  exact ⟨hrep.1, by simpa using hrep.2.1, hrep.2.2.1, hrep.2.2.2⟩


/-- the writer state with which a session on a fresh binlog starts: behind the 44-byte head, checksum of the head -/
def StartsAt (cfg : Cfg) (w : WS) (sy ty : Bytes) : Prop := w.offG = 44 ∧ w.crc = cfg.upd 0 (initBytes cfg sy ty)

theorem initCur_acc (cfg : Cfg) (w : WS) (sy ty : Bytes) (hsy : sy.length = 16) (hty : ty.length = 16) (h : StartsAt cfg w sy ty) :
    Acc cfg w (initCur cfg sy ty) := by
  refine ⟨?_, ?_⟩
  · simp [initCur, Cur.bytes, initBytes, hsy, hty, h.1]
  · simp [initCur, Cur.bytes, h.2]

/-- **readAll = ok (suffix) for every committed position.**  The binlog is the head written by `CreateEmptyFsBinlog` followed by
    what the writer lays out for `pre ++ post`; a commit after `pre` carried `(offset, crc)` of the writer at that moment.
    `readAllFromPosition(offset, meta)` delivers exactly the events of `post` at the offsets `Append` returned. -/
theorem readAll_from_commit (cfg : Cfg) (hm : cfg.evMagic < 4294967296) (hsvc : cfg.evMagic ∉ serviceMagics)
    (hupd : ∀ c a b, cfg.upd (cfg.upd c a) b = cfg.upd c (a ++ b)) (hs : cfg.schema < 4294967296)
    (pre post : List Ap) (w : WS) (sy ty : Bytes) (hsy : sy.length = 16) (hty : ty.length = 16) (hw : StartsAt cfg w sy ty)
    (ts0 mts : Nat) (hsz : ∀ a ∈ pre ++ post, a.body.length < 4294967296 ∧ a.ts < 4294967296)
    (hb : (runAll cfg w (pre ++ post)).offG < 9223372036854775808) (wk : WS) (hwk : wk = runAll cfg w pre) (r : RA)
    (hr : r = readAll cfg (allFiles cfg w (pre ++ post) (initBytes cfg sy ty)) wk.offG (some ⟨wk.offG, wk.crc, mts⟩) ts0 ⟨wk.offG, [], []⟩) :
    r.err = none ∧ r.eng.evs = (offsR cfg wk post).reverse ∧ r.pos = ((runAll cfg wk post).offG : Int) ∧
      r.crc = (runAll cfg wk post).crc :=
  readAll_resume cfg hm hsvc hupd pre post w (initCur cfg sy ty) ts0 mts hsz hb (initCur_acc cfg w sy ty hsy hty hw)
    (initCur_ok cfg sy ty hs hsy) wk hwk r (by rw [hr]; simp [initCur, Cur.bytes])

/-- **replay from offset 0.**  `readAllFromPosition(0, no meta)` on the same files: LevStart and the tag are skipped, then every
    appended event is delivered at the offset `Append` returned, through all rotations. -/
theorem readAll_from_start (cfg : Cfg) (hm : cfg.evMagic < 4294967296) (hsvc : cfg.evMagic ∉ serviceMagics)
    (hupd : ∀ c a b, cfg.upd (cfg.upd c a) b = cfg.upd c (a ++ b)) (hs : cfg.schema < 4294967296)
    (as : List Ap) (w : WS) (sy ty : Bytes) (hsy : sy.length = 16) (hty : ty.length = 16) (hw : StartsAt cfg w sy ty) (ts0 : Nat)
    (hsz : ∀ a ∈ as, a.body.length < 4294967296 ∧ a.ts < 4294967296)
    (hb : (runAll cfg w as).offG < 9223372036854775808) (r : RA)
    (hr : r = readAll cfg (allFiles cfg w as (initBytes cfg sy ty)) 0 none ts0 ⟨0, [], []⟩) :
    r.err = none ∧ r.eng.evs = (offsR cfg w as).reverse ∧ r.pos = ((runAll cfg w as).offG : Int) ∧ r.crc = (runAll cfg w as).crc := by
  have hk := initCur_ok cfg sy ty hs hsy
  have ha := initCur_acc cfg w sy ty hsy hty hw
  obtain ⟨hscan, hinc⟩ := scan_allFiles cfg w as (initCur cfg sy ty) hb ha hk
  have hcb : (initCur cfg sy ty).bytes = initBytes cfg sy ty := by simp [initCur, Cur.bytes]
  rw [hcb] at hscan hinc
  have hlat := laterOK_facts cfg _ _ (layout_laterOK cfg as w hb)
  have hk0 := hk ((layoutC cfg w as ([], [])).1)
  have hpos0 : (gh (initBytes cfg sy ty ++ (layoutC cfg w as ([], [])).1)).pos = 0 := by simpa [initCur] using hk0.2.1
  have hcrc0 : (gh (initBytes cfg sy ty ++ (layoutC cfg w as ([], [])).1)).crc = 0 := by simpa [initCur] using hk0.2.2
  have hH : (allFiles cfg w as (initBytes cfg sy ty)).map gh
      = gh (initBytes cfg sy ty ++ (layoutC cfg w as ([], [])).1) :: (layoutC cfg w as ([], [])).2.map hdrOf := by
    simp [allFiles, hlat.2.1]
  have hidx : indexByPos 0 (gh (initBytes cfg sy ty ++ (layoutC cfg w as ([], [])).1) :: (layoutC cfg w as ([], [])).2.map hdrOf) 0 0 = 0 := by
    have := indexByPos_split 0 [gh (initBytes cfg sy ty ++ (layoutC cfg w as ([], [])).1)] ((layoutC cfg w as ([], [])).2.map hdrOf) 0 0
      (by simp) (by intro h hh; simp at hh; subst hh; omega)
      (by intro h hh; rw [← hlat.2.1] at hh; have := hlat.2.2.2 h (List.mem_of_mem_head? hh); omega)
    simpa using this
  rw [hH] at hscan
  -- the first file from its start
  have hat0 : At { pos := 0, crc := 0, rest := initBytes cfg sy ty ++ (layoutC cfg w as ([], [])).1,
                   slack := (initBytes cfg sy ty ++ (layoutC cfg w as ([], [])).1).length % 4, dk := false, ts := ts0, commitPos := 0,
                   eng := ⟨0, [], []⟩ } 0 0
      ((le32 magicStart ++ (le32 cfg.schema ++ sy)) ++ ((le32 magicTag ++ ty) ++ (layoutC cfg w as ([], [])).1)) :=
    ⟨rfl, rfl, by simp [initBytes, List.append_assoc], rfl, rfl, by simp [initBytes, List.append_assoc]⟩
  obtain ⟨s1, st1, at1, ev1⟩ := step_start cfg _ 0 0 (le32 cfg.schema ++ sy) _ (by simp [hsy]) hat0
  obtain ⟨s2, st2, at2, ev2⟩ := step_tag cfg s1 _ _ ty _ hty at1
  have at2' : At s2 w.offG w.crc (layoutC cfg w as ([], [])).1 := by
    have e : cfg.upd (cfg.upd 0 (le32 magicStart ++ (le32 cfg.schema ++ sy))) (le32 magicTag ++ ty) = w.crc := by
      rw [hupd, hw.2]; rfl
    rw [hw.1, ← e]; simpa using at2
  have hlen : (initBytes cfg sy ty ++ (layoutC cfg w as ([], [])).1).length = 44 + (layoutC cfg w as ([], [])).1.length := by
    simp [initBytes, hsy, hty]; omega
  have hrep := replay_rotating cfg hm hsvc as w s2 ((44 + (layoutC cfg w as ([], [])).1.length) / 2 + 2) hsz hb at2' (by omega)
  have hfuel : (initBytes cfg sy ty ++ (layoutC cfg w as ([], [])).1).length / 2 + 4
      = ((44 + (layoutC cfg w as ([], [])).1.length) / 2 + 2) + 1 + 1 := by rw [hlen]
  have hseek : seek cfg (gh (initBytes cfg sy ty ++ (layoutC cfg w as ([], [])).1)) 0 none ts0
      = .ok (0, 0, initBytes cfg sy ty ++ (layoutC cfg w as ([], [])).1, ts0) := by
    simp [seek, hpos0, hcrc0, gh_data]
  simp only [readAll, hscan, hpos0, Int.lt_irrefl, if_false, hidx, List.drop_zero, readFiles_first, readFile, hseek, hfuel,
    readLoop_cont _ st1, readLoop_cont _ st2] at hr
  rw [hr]
  exact ⟨hrep.1, by simpa [ev2, ev1] using hrep.2.1, hrep.2.2.1, hrep.2.2.2⟩


/-! ### readAll for any history of sessions, with or without meta, and on truncated file lists (Lemmas/BinlogMulti) -/

theorem curOK_nonempty (cfg : Cfg) (c : Cur) (hk : CurOK cfg c) : c.bytes.length ≠ 0 := by
  intro h
  have hb : c.hd = [] := by
    have : c.hd.length = 0 := by simp only [Cur.bytes, List.length_append] at h; omega
    exact List.eq_nil_of_length_eq_zero this
  have := (hk []).1
  rw [hb] at this
  simp [scanHeader] at this

/-- how the reader was asked to start at the commit `(pos, crc)`: without snapshot meta, or with the meta of that commit -/
def MetaFor (pos : Nat) (crc : UInt32) (si : Option Meta) : Prop := si = none ∨ ∃ mts, si = some ⟨pos, crc, mts⟩

/-- **readAll reduces to the replay of the remaining chunks** — for the general file list: chunks `D0` closed by earlier writer
    sessions, the chunk `c0` being written when the appends `pre ++ post` start (`w` is the writer state at that moment — the one
    of a fresh binlog or one rebuilt by a restart), the later chunks of the layout, the last chunk continued by arbitrary bytes
    `k1` (e.g. a cut).  `readAllFromPosition` called with the offset of a commit after `pre`, with that commit's meta or without
    meta, passes scan, sort, chunk choice and seek (checksum verified or recomputed) and equals `finish` of the loop started in
    a state that matches the writer after `pre` on the rest of that chunk. -/
theorem readAll_reduce (cfg : Cfg) (hupd : ∀ c a b, cfg.upd (cfg.upd c a) b = cfg.upd c (a ++ b))
    (D0 : List Bytes) (pre post : List Ap) (w : WS) (c0 : Cur) (k1 : Bytes) (ts0 : Nat) (si : Option Meta)
    (hb : (runAll cfg w (pre ++ post)).offG < 9223372036854775808)
    (hp : PreOK cfg D0 c0.pos) (ha : Acc cfg w c0) (hk : CurOK cfg c0) (wk : WS) (hwk : wk = runAll cfg w pre)
    (hsi : MetaFor wk.offG wk.crc si) :
    ∃ (s : RS) (fuel : Nat), At s wk.offG wk.crc (layoutC cfg wk post (k1, [])).1 ∧
      (layoutC cfg wk post (k1, [])).1.length / 4 + 2 ≤ fuel ∧ s.eng.evs = [] ∧
      (let r := readAll cfg (D0 ++ allFilesK cfg w (pre ++ post) c0.bytes k1) wk.offG si ts0 ⟨wk.offG, [], []⟩
       let f := finish cfg (readLoop cfg fuel s) ((layoutC cfg wk post (k1, [])).2.map hdrOf)
       r.pos = f.1 ∧ r.crc = f.2.1 ∧ r.err = f.2.2.1 ∧ r.eng = f.2.2.2.1) := by
  subst hwk
  generalize hwk : runAll cfg w pre = wk at hsi ⊢
  have hbk : (runAll cfg wk post).offG < 9223372036854775808 := by rw [← hwk, ← runAll_append]; exact hb
  have hbk0 : wk.offG < 9223372036854775808 := Nat.lt_of_le_of_lt (runAll_mono cfg post wk) hbk
  obtain ⟨hscan, hinc⟩ := scan_filesK cfg D0 w (pre ++ post) c0 k1 hb hp ha hk
  obtain ⟨hacc, hck⟩ := splitC_inv cfg hupd pre w c0 (by rw [hwk]; exact hbk0) ha hk
  have hpre := splitC_preOK cfg pre w c0 D0 (by rw [hwk]; exact hbk0) (by have := ha.1; omega) hk hp
  rw [hwk] at hacc
  have hfiles := allFilesK_append cfg k1 pre post w c0
  rw [hwk] at hfiles
  generalize hD : (splitC cfg w pre c0).1 = D at hfiles hpre
  generalize hcK : (splitC cfg w pre c0).2 = cK at hfiles hacc hck hpre
  have hlat := laterOK_facts cfg _ _ (layout_laterOK_K cfg k1 post wk hbk)
  let c2 := (layoutC cfg wk post (k1, [])).1
  let l2 := (layoutC cfg wk post (k1, [])).2
  have hcf : cK.bytes ++ c2 = cK.hd ++ (cK.body ++ c2) := by simp [Cur.bytes, List.append_assoc]
  have hcpos : (gh (cK.bytes ++ c2)).pos = (cK.pos : Int) := by rw [hcf]; exact (hck _).2.1
  have hccrc : (gh (cK.bytes ++ c2)).crc = cK.crc := by rw [hcf]; exact (hck _).2.2
  have hH : (D0 ++ allFilesK cfg w (pre ++ post) c0.bytes k1).map gh = ((D0 ++ D).map gh ++ [gh (cK.bytes ++ c2)]) ++ l2.map gh := by
    rw [hfiles]; simp [allFilesK, c2, l2]
  rw [hH] at hscan hinc
  have hPk : (cK.pos : Int) ≤ (wk.offG : Int) := by have := hacc.1; omega
  have hle : ∀ h ∈ (D0 ++ D).map gh ++ [gh (cK.bytes ++ c2)], h.pos ≤ (wk.offG : Int) := by
    intro h hh
    rcases List.mem_append.mp hh with hh | hh
    · have := hpre.2.2 h hh; omega
    · simp only [List.mem_singleton] at hh; subst hh; omega
  have hgt : ∀ h ∈ (l2.map gh).head?, (wk.offG : Int) < h.pos := by
    intro h hh
    exact hlat.2.2.2 h (List.mem_of_mem_head? hh)
  have hidx := indexByPos_split (wk.offG : Int) ((D0 ++ D).map gh ++ [gh (cK.bytes ++ c2)]) (l2.map gh) 0 0 (by simp) hle hgt
  have hidx' : indexByPos (wk.offG : Int) (((D0 ++ D).map gh ++ [gh (cK.bytes ++ c2)]) ++ l2.map gh) 0 0 = (D0 ++ D).length := by
    rw [hidx]; simp
  have hdrop : (((D0 ++ D).map gh ++ [gh (cK.bytes ++ c2)]) ++ l2.map gh).drop (D0 ++ D).length = gh (cK.bytes ++ c2) :: l2.map hdrOf := by
    rw [List.append_assoc, List.drop_append_of_le_length (by simp), List.drop_of_length_le (by simp)]
    simp only [List.nil_append, List.singleton_append]
    rw [hlat.2.1]
  obtain ⟨h0, hs, hcons⟩ : ∃ h0 hs, ((D0 ++ D).map gh ++ [gh (cK.bytes ++ c2)]) ++ l2.map gh = h0 :: hs := by
    cases hl : ((D0 ++ D).map gh ++ [gh (cK.bytes ++ c2)]) ++ l2.map gh with
    | nil => simp at hl
    | cons a b => exact ⟨a, b, rfl⟩
  have hlow : ¬ ((wk.offG : Int) < h0.pos) := by
    have hmem : h0 ∈ (D0 ++ D).map gh ++ [gh (cK.bytes ++ c2)] := by
      cases hd : (D0 ++ D).map gh ++ [gh (cK.bytes ++ c2)] with
      | nil => simp at hd
      | cons a b => rw [hd] at hcons; simp at hcons; rw [← hcons.1]; simp
    have := hle h0 hmem; omega
  rw [hcons] at hscan hidx' hdrop
  have hfuel : (layoutC cfg wk post (k1, [])).1.length / 4 + 2 ≤ (layoutC cfg wk post (k1, [])).1.length / 2 + 4 := by omega
  -- the seek, with or without meta
  rcases hsi with rfl | ⟨mts, rfl⟩
  · have hne := curOK_nonempty cfg cK hck
    have hseek := seek_nometa cfg (gh (cK.bytes ++ c2)) cK.bytes c2 ts0 (gh_data _) hne
    have hpos : (gh (cK.bytes ++ c2)).pos + (cK.bytes.length : Int) = (wk.offG : Int) := by rw [hcpos]; have := hacc.1; omega
    rw [hpos, gh_data, List.take_left' rfl, hccrc, hacc.2] at hseek
    refine ⟨{ pos := (wk.offG : Int), crc := wk.crc, rest := c2, slack := c2.length % 4, dk := false, ts := ts0, commitPos := 0,
              eng := ⟨wk.offG, [], []⟩ }, c2.length / 2 + 4, ⟨rfl, rfl, rfl, rfl, rfl, rfl⟩, hfuel, rfl, ?_⟩
    simp only [readAll, hscan, hlow, if_false, hidx', hdrop, readFiles_first, readFile, hseek]
    exact ⟨rfl, rfl, rfl, rfl⟩
  · have hseek := seek_resume cfg (gh (cK.bytes ++ c2)) cK.bytes c2 ⟨wk.offG, wk.crc, mts⟩ ts0 (gh_data _)
      (by simp only [hcpos]; have := hacc.1; omega) (by rw [hccrc]; exact hacc.2)
    refine ⟨{ pos := (wk.offG : Int), crc := wk.crc, rest := c2, slack := c2.length % 4, dk := false, ts := mts, commitPos := 0,
              eng := ⟨wk.offG, [], []⟩ }, c2.length / 2 + 4, ⟨rfl, rfl, rfl, rfl, rfl, rfl⟩, hfuel, rfl, ?_⟩
    simp only [readAll, hscan, hlow, if_false, hidx', Int.lt_irrefl, or_false, ne_eq, not_true_eq_false, hdrop, readFiles_first,
      readFile, hseek]
    exact ⟨rfl, rfl, rfl, rfl⟩


/-! ### any number of writer sessions -/

/-- what the file list and the writer satisfy at any moment of any history of sessions: the closed chunks scan and lie in
    front of the current chunk, the current chunk accounts for the writer's position and checksum, its header scans -/
structure Good (cfg : Cfg) (D0 : List Bytes) (w : WS) (c : Cur) : Prop where
  pre : PreOK cfg D0 c.pos
  acc : Acc cfg w c
  ok : CurOK cfg c

/-- histories: a fresh binlog; a batch of accepted appends (closing chunks as they rotate); a writer restart — the new writer
    state is `wsInit` of what a replay returned (position, checksum, last header, timestamp: any values for the latter two) -/
inductive Sessions (cfg : Cfg) (sy ty : Bytes) : List Bytes → WS → Cur → Prop
  | start (w : WS) : StartsAt cfg w sy ty → Sessions cfg sy ty [] w (initCur cfg sy ty)
  | append {D0 : List Bytes} {w : WS} {c : Cur} (as : List Ap) : Sessions cfg sy ty D0 w c →
      (runAll cfg w as).offG < 9223372036854775808 →
      Sessions cfg sy ty (D0 ++ (splitC cfg w as c).1) (runAll cfg w as) (splitC cfg w as c).2
  | restart {D0 : List Bytes} {w : WS} {c : Cur} (b : Bool) (last : Hdr) (ts : Nat) : Sessions cfg sy ty D0 w c →
      Sessions cfg sy ty D0 (wsInit cfg b w.offG w.crc last ts) c

/-- the accounting invariant only looks at the writer's position and checksum, which `wsInit` takes over from the replay -/
theorem acc_wsInit (cfg : Cfg) (w : WS) (c : Cur) (b : Bool) (last : Hdr) (ts : Nat) (h : Acc cfg w c) :
    Acc cfg (wsInit cfg b w.offG w.crc last ts) c := h

theorem sessions_good (cfg : Cfg) (hupd : ∀ c a b, cfg.upd (cfg.upd c a) b = cfg.upd c (a ++ b)) (hs : cfg.schema < 4294967296)
    (sy ty : Bytes) (hsy : sy.length = 16) (hty : ty.length = 16) {D0 : List Bytes} {w : WS} {c : Cur}
    (h : Sessions cfg sy ty D0 w c) : Good cfg D0 w c := by
  induction h with
  | start w hw => exact ⟨preOK_nil cfg _, initCur_acc cfg w sy ty hsy hty hw, initCur_ok cfg sy ty hs hsy⟩
  | append as _ hb ih =>
    obtain ⟨ha, hk⟩ := splitC_inv cfg hupd as _ _ hb ih.acc ih.ok
    exact ⟨splitC_preOK cfg as _ _ _ hb (by have := ih.acc.1; omega) ih.ok ih.pre, ha, hk⟩
  | restart b last ts _ ih => exact ⟨ih.pre, acc_wsInit cfg _ _ b last ts ih.acc, ih.ok⟩

/-- **readAll = ok (suffix), any history, with or without meta.**  After any history of sessions (`Good`), the appends
    `pre ++ post` are made; `readAllFromPosition` at the offset of a commit issued after `pre`, with that commit's snapshot meta
    or with no meta, delivers exactly the events of `post`, in order, at the offsets `Append` returned. -/
theorem readAll_resume_sessions (cfg : Cfg) (hm : cfg.evMagic < 4294967296) (hsvc : cfg.evMagic ∉ serviceMagics)
    (hupd : ∀ c a b, cfg.upd (cfg.upd c a) b = cfg.upd c (a ++ b))
    (D0 : List Bytes) (pre post : List Ap) (w : WS) (c0 : Cur) (ts0 : Nat) (si : Option Meta)
    (hsz : ∀ a ∈ pre ++ post, a.body.length < 4294967296 ∧ a.ts < 4294967296)
    (hb : (runAll cfg w (pre ++ post)).offG < 9223372036854775808) (hg : Good cfg D0 w c0)
    (wk : WS) (hwk : wk = runAll cfg w pre) (hsi : MetaFor wk.offG wk.crc si) (r : RA)
    (hr : r = readAll cfg (D0 ++ allFiles cfg w (pre ++ post) c0.bytes) wk.offG si ts0 ⟨wk.offG, [], []⟩) :
    r.err = none ∧ r.eng.evs = (offsR cfg wk post).reverse ∧ r.pos = ((runAll cfg wk post).offG : Int) ∧
      r.crc = (runAll cfg wk post).crc := by
  obtain ⟨s, fuel, hat, hf, hev, hred⟩ := readAll_reduce cfg hupd D0 pre post w c0 [] ts0 si hb hg.pre hg.acc hg.ok wk hwk hsi
  have hbk : (runAll cfg wk post).offG < 9223372036854775808 := by rw [hwk, ← runAll_append]; exact hb
  have hrep := replay_rotating cfg hm hsvc post wk s fuel (fun a ha' => hsz a (List.mem_append_right _ ha')) hbk hat hf
  rw [allFilesK_nil] at hred
  rw [← hr] at hred
  obtain ⟨h1, h2, h3, h4⟩ := hred
  refine ⟨by rw [h3]; exact hrep.1, by rw [h4, hrep.2.1, hev]; simp, by rw [h1]; exact hrep.2.2.1, by rw [h2]; exact hrep.2.2.2⟩

/-- **truncation through readAll.**  Any history (`Good`), then appends `pre1 ++ pre2 ++ post`.  Of the chunk in which `post`
    starts only `t` bytes behind that point are left, all later files are gone.  `readAllFromPosition` at the commit after
    `pre1` (with its meta or without) — scan, sort, chunk choice, seek, replay — ends WITHOUT error and delivers the events of
    `pre2` and then exactly the events of `post` that are complete in what is left: a prefix, never a partial event.
    Excluded shape (the known finding): a file cut inside its own ROTATE_FROM header — here every remaining file keeps its header. -/
theorem readAll_truncated (cfg : Cfg) (hm : cfg.evMagic < 4294967296) (hsvc : cfg.evMagic ∉ serviceMagics)
    (hupd : ∀ c a b, cfg.upd (cfg.upd c a) b = cfg.upd c (a ++ b))
    (D0 : List Bytes) (pre1 pre2 post : List Ap) (w : WS) (c0 : Cur) (ts0 t : Nat) (si : Option Meta)
    (hsz : ∀ a ∈ pre2 ++ post, a.body.length < 4294967296 ∧ a.ts < 4294967296)
    (hb : (runAll cfg w (pre1 ++ pre2)).offG < 9223372036854775808) (hg : Good cfg D0 w c0)
    (wk : WS) (hwk : wk = runAll cfg w pre1) (hsi : MetaFor wk.offG wk.crc si)
    (ht : t ≤ (layoutC cfg (runAll cfg wk pre2) post ([], [])).1.length) (r : RA)
    (hr : r = readAll cfg (D0 ++ allFilesK cfg w (pre1 ++ pre2) c0.bytes ((layoutC cfg (runAll cfg wk pre2) post ([], [])).1.take t))
            wk.offG si ts0 ⟨wk.offG, [], []⟩) :
    r.err = none ∧
    r.eng.evs = ((offsR cfg (runAll cfg wk pre2) post).take (completeC cfg (runAll cfg wk pre2) post t)).reverse ++
      (offsR cfg wk pre2).reverse := by
  obtain ⟨s, fuel, hat, hf, hev, hred⟩ := readAll_reduce cfg hupd D0 pre1 pre2 w c0
    ((layoutC cfg (runAll cfg wk pre2) post ([], [])).1.take t) ts0 si hb hg.pre hg.acc hg.ok wk hwk hsi
  have hbk : (runAll cfg wk pre2).offG < 9223372036854775808 := by rw [hwk, ← runAll_append]; exact hb
  have htr := truncate_tail_files cfg hm hsvc pre2 post wk s fuel t hsz hbk ht hat hf
  rw [← hr] at hred
  obtain ⟨_, _, h3, h4⟩ := hred
  refine ⟨by rw [h3]; exact htr.1, by rw [h4, htr.2, hev]; simp⟩


/-! ### restart = replay result; resume with the meta of an older commit -/

theorem good_append (cfg : Cfg) (hupd : ∀ c a b, cfg.upd (cfg.upd c a) b = cfg.upd c (a ++ b))
    (D0 : List Bytes) (w : WS) (c : Cur) (as : List Ap) (hb : (runAll cfg w as).offG < 9223372036854775808) (h : Good cfg D0 w c) :
    Good cfg (D0 ++ (splitC cfg w as c).1) (runAll cfg w as) (splitC cfg w as c).2 := by
  obtain ⟨ha, hk⟩ := splitC_inv cfg hupd as _ _ hb h.acc h.ok
  exact ⟨splitC_preOK cfg as _ _ _ hb (by have := h.acc.1; omega) h.ok h.pre, ha, hk⟩

/-- **a restart takes over exactly what the replay returns.**  Any history (`Good`), then the appends `pre ++ post`; the engine
    restarts: it replays the files with `readAllFromPosition` from a commit after `pre` (with its meta or without) and builds the
    new writer state with `wsInit` from the RESULT of that replay (`r.pos`, `r.crc`, `r.ts`; no assumed position/checksum).
    The replay delivered exactly the events of `post`, and the new writer state together with the file list satisfies the
    invariant `Good` again — so every theorem about further appends, commits and resumes applies to the restarted writer. -/
theorem restart_takes_replay_result (cfg : Cfg) (hm : cfg.evMagic < 4294967296) (hsvc : cfg.evMagic ∉ serviceMagics)
    (hupd : ∀ c a b, cfg.upd (cfg.upd c a) b = cfg.upd c (a ++ b))
    (D0 : List Bytes) (pre post : List Ap) (w : WS) (c0 : Cur) (ts0 : Nat) (si : Option Meta)
    (hsz : ∀ a ∈ pre ++ post, a.body.length < 4294967296 ∧ a.ts < 4294967296)
    (hb : (runAll cfg w (pre ++ post)).offG < 9223372036854775808) (hg : Good cfg D0 w c0)
    (wk : WS) (hwk : wk = runAll cfg w pre) (hsi : MetaFor wk.offG wk.crc si) (r : RA)
    (hr : r = readAll cfg (D0 ++ allFiles cfg w (pre ++ post) c0.bytes) wk.offG si ts0 ⟨wk.offG, [], []⟩)
    (b : Bool) (last : Hdr) :
    r.err = none ∧ r.eng.evs = (offsR cfg wk post).reverse ∧
    Good cfg (D0 ++ (splitC cfg w (pre ++ post) c0).1) (wsInit cfg b r.pos.toNat r.crc last r.ts) (splitC cfg w (pre ++ post) c0).2 ∧
    (wsInit cfg b r.pos.toNat r.crc last r.ts).offG = (runAll cfg w (pre ++ post)).offG ∧
    (wsInit cfg b r.pos.toNat r.crc last r.ts).crc = (runAll cfg w (pre ++ post)).crc := by
  obtain ⟨h1, h2, h3, h4⟩ := readAll_resume_sessions cfg hm hsvc hupd D0 pre post w c0 ts0 si hsz hb hg wk hwk hsi r hr
  have hrun : runAll cfg wk post = runAll cfg w (pre ++ post) := by rw [hwk, runAll_append]
  rw [hrun] at h3 h4
  have hpos : r.pos.toNat = (runAll cfg w (pre ++ post)).offG := by rw [h3]; simp
  have hgood := good_append cfg hupd D0 w c0 (pre ++ post) hb hg
  refine ⟨h1, h2, ⟨hgood.pre, ?_, hgood.ok⟩, ?_, ?_⟩
  · rw [hpos, h4]; exact acc_wsInit cfg _ _ b last r.ts hgood.acc
  · rw [hpos]; rfl
  · rw [h4]; rfl


theorem splitC_append (cfg : Cfg) : ∀ (p1 p2 : List Ap) (w : WS) (c : Cur),
    (splitC cfg w (p1 ++ p2) c).1 = (splitC cfg w p1 c).1 ++ (splitC cfg (runAll cfg w p1) p2 (splitC cfg w p1 c).2).1 ∧
    (splitC cfg w (p1 ++ p2) c).2 = (splitC cfg (runAll cfg w p1) p2 (splitC cfg w p1 c).2).2
  | [], _, _, _ => by simp [splitC, runAll]
  | a :: as, p2, w, c => by
    by_cases hr : rotates cfg w a = true
    · have ih := splitC_append cfg as p2 (apNext cfg w a) (rfCur cfg w a)
      simp only [List.cons_append, splitC, hr, if_true, runAll, ih.1, ih.2, and_self]
    · have hr' : rotates cfg w a = false := by simpa using hr
      have ih := splitC_append cfg as p2 (apNext cfg w a) { c with body := c.body ++ apA cfg w a }
      simp only [List.cons_append, splitC, hr', Bool.false_eq_true, if_false, runAll, ih.1, ih.2, and_self]

theorem splitC_noRot (cfg : Cfg) : ∀ (as : List Ap) (w : WS) (c : Cur), NoRotR cfg w as →
    (splitC cfg w as c).1 = [] ∧ (splitC cfg w as c).2.hd = c.hd ∧ (splitC cfg w as c).2.pos = c.pos ∧
    (splitC cfg w as c).2.crc = c.crc ∧ ∃ X, (splitC cfg w as c).2.body = c.body ++ X
  | [], _, _, _ => ⟨rfl, rfl, rfl, rfl, [], by simp [splitC]⟩
  | a :: as, w, c, h => by
    have hr' : rotates cfg w a = false := h.1
    obtain ⟨i1, i2, i3, i4, X, i5⟩ := splitC_noRot cfg as (apNext cfg w a) { c with body := c.body ++ apA cfg w a } h.2
    simp only [splitC, hr', Bool.false_eq_true, if_false]
    exact ⟨i1, i2, i3, i4, apA cfg w a ++ X, by rw [i5, List.append_assoc]⟩

theorem runAll_grows (cfg : Cfg) (as : List Ap) (w : WS) (h : as ≠ []) : w.offG < (runAll cfg w as).offG := by
  cases as with
  | nil => exact absurd rfl h
  | cons a as =>
    have := runAll_mono cfg as (apNext cfg w a)
    obtain ⟨hge, hnx⟩ := apNext_offG_ge cfg w a
    have h8 := apA_length cfg w a
    have hm := (apMid_fields cfg w a).1
    simp only [runAll]; split at hnx <;> omega

/-- **seek with the meta of an OLDER commit of the same file.**  The file holds `A1 ++ A2 ++ R`; the meta names the position
    behind `A1` with the checksum up to there; the reader is asked to start behind `A2`.  The checksum is verified against the
    meta over `A1`, recomputed over `A2`, and the loop starts behind `A2` on `R`. -/
theorem seek_older (cfg : Cfg) (h : Hdr) (A1 A2 R : Bytes) (m : Meta) (ts : Nat) (hd : h.data = A1 ++ (A2 ++ R))
    (hpos : m.pos = h.pos + A1.length) (hcrc : cfg.upd h.crc A1 = m.crc) (h2 : A2.length ≠ 0) :
    seek cfg h (m.pos + A2.length) (some m) ts = .ok (m.pos + A2.length, cfg.upd m.crc A2, R, m.ts) := by
  have e1 : ¬ (m.pos > m.pos + (A2.length : Int)) := by omega
  have e2 : h.pos ≤ m.pos := by omega
  have e3 : (m.pos - h.pos).toNat = A1.length := by omega
  have e4 : atLeast h.data A1.length = true := by rw [atLeast_iff, hd]; simp
  have t1 : h.data.take A1.length = A1 := by rw [hd]; exact List.take_left' rfl
  have t2 : h.data.drop A1.length = A2 ++ R := by rw [hd]; exact List.drop_left' rfl
  have e5 : m.pos < m.pos + (A2.length : Int) := by omega
  have e6 : (m.pos + (A2.length : Int) - m.pos).toNat = A2.length := by omega
  have e7 : atLeast (A2 ++ R) A2.length = true := by rw [atLeast_iff]; simp
  simp [seek, e1, e2, e3, e4, t1, t2, hcrc, e5, e6, e7]

/-- readAll with the meta of an older commit of the same chunk reduces to the replay of the remaining chunks -/
theorem readAll_reduce_older (cfg : Cfg) (hupd : ∀ c a b, cfg.upd (cfg.upd c a) b = cfg.upd c (a ++ b))
    (D0 : List Bytes) (pre1 pre2 post : List Ap) (w : WS) (c0 : Cur) (k1 : Bytes) (ts0 mts : Nat)
    (hb : (runAll cfg w ((pre1 ++ pre2) ++ post)).offG < 9223372036854775808)
    (hp : PreOK cfg D0 c0.pos) (ha : Acc cfg w c0) (hk : CurOK cfg c0) (w1 : WS) (hw1 : w1 = runAll cfg w pre1)
    (hnr : NoRotR cfg w1 pre2) (hne : pre2 ≠ []) (wk : WS) (hwk : wk = runAll cfg w (pre1 ++ pre2)) :
    ∃ (s : RS) (fuel : Nat), At s wk.offG wk.crc (layoutC cfg wk post (k1, [])).1 ∧
      (layoutC cfg wk post (k1, [])).1.length / 4 + 2 ≤ fuel ∧ s.eng.evs = [] ∧
      (let r := readAll cfg (D0 ++ allFilesK cfg w ((pre1 ++ pre2) ++ post) c0.bytes k1) wk.offG (some ⟨w1.offG, w1.crc, mts⟩) ts0 ⟨wk.offG, [], []⟩
       let f := finish cfg (readLoop cfg fuel s) ((layoutC cfg wk post (k1, [])).2.map hdrOf)
       r.pos = f.1 ∧ r.crc = f.2.1 ∧ r.err = f.2.2.1 ∧ r.eng = f.2.2.2.1) := by
  -- the chunk of the older commit is the chunk of the resume position: `pre2` does not rotate
  have hsp := splitC_append cfg pre1 pre2 w c0
  rw [← hw1] at hsp
  obtain ⟨hn1, hn2, hn3, hn4, X, hn5⟩ := splitC_noRot cfg pre2 w1 (splitC cfg w pre1 c0).2 hnr
  have hb1 : (runAll cfg w pre1).offG < 9223372036854775808 := by
    have := runAll_mono cfg (pre2 ++ post) (runAll cfg w pre1)
    rw [← runAll_append, ← List.append_assoc] at this; omega
  obtain ⟨hacc1, _⟩ := splitC_inv cfg hupd pre1 w c0 hb1 ha hk
  rw [← hw1] at hacc1
  have hX : X.length ≠ 0 := by
    intro hx
    have hbX : (runAll cfg w (pre1 ++ pre2)).offG < 9223372036854775808 := by
      have := runAll_mono cfg post (runAll cfg w (pre1 ++ pre2)); rw [← runAll_append] at this; omega
    obtain ⟨hacc2, _⟩ := splitC_inv cfg hupd (pre1 ++ pre2) w c0 hbX ha hk
    have hgrow := runAll_grows cfg pre2 w1 hne
    rw [hw1, ← runAll_append] at hgrow
    have e1 := hacc1.1; have e2 := hacc2.1
    rw [hsp.2] at e2
    simp only [Cur.bytes, hn2, hn3, hn5, List.length_append] at e1 e2
    rw [hw1] at e1
    omega
  generalize hpre : pre1 ++ pre2 = pre at *
  subst hwk
  generalize hwk : runAll cfg w pre = wk at *
  have hbk : (runAll cfg wk post).offG < 9223372036854775808 := by rw [← hwk, ← runAll_append]; exact hb
  have hbk0 : wk.offG < 9223372036854775808 := Nat.lt_of_le_of_lt (runAll_mono cfg post wk) hbk
  obtain ⟨hscan, hinc⟩ := scan_filesK cfg D0 w (pre ++ post) c0 k1 hb hp ha hk
  obtain ⟨hacc, hck⟩ := splitC_inv cfg hupd pre w c0 (by rw [hwk]; exact hbk0) ha hk
  have hpre' := splitC_preOK cfg pre w c0 D0 (by rw [hwk]; exact hbk0) (by have := ha.1; omega) hk hp
  rw [hwk] at hacc
  have hfiles := allFilesK_append cfg k1 pre post w c0
  rw [hwk] at hfiles
  generalize hD : (splitC cfg w pre c0).1 = D at hfiles hpre'
  generalize hcK : (splitC cfg w pre c0).2 = cK at hfiles hacc hck hpre'
  have hlat := laterOK_facts cfg _ _ (layout_laterOK_K cfg k1 post wk hbk)
  let c2 := (layoutC cfg wk post (k1, [])).1
  let l2 := (layoutC cfg wk post (k1, [])).2
  have hcf : cK.bytes ++ c2 = cK.hd ++ (cK.body ++ c2) := by simp [Cur.bytes, List.append_assoc]
  have hcpos : (gh (cK.bytes ++ c2)).pos = (cK.pos : Int) := by rw [hcf]; exact (hck _).2.1
  have hccrc : (gh (cK.bytes ++ c2)).crc = cK.crc := by rw [hcf]; exact (hck _).2.2
  have hH : (D0 ++ allFilesK cfg w (pre ++ post) c0.bytes k1).map gh = ((D0 ++ D).map gh ++ [gh (cK.bytes ++ c2)]) ++ l2.map gh := by
    rw [hfiles]; simp [allFilesK, c2, l2]
  rw [hH] at hscan hinc
  have hPk : (cK.pos : Int) ≤ (wk.offG : Int) := by have := hacc.1; omega
  have hle : ∀ h ∈ (D0 ++ D).map gh ++ [gh (cK.bytes ++ c2)], h.pos ≤ (wk.offG : Int) := by
    intro h hh
    rcases List.mem_append.mp hh with hh | hh
    · have := hpre'.2.2 h hh; omega
    · simp only [List.mem_singleton] at hh; subst hh; omega
  have hgt : ∀ h ∈ (l2.map gh).head?, (wk.offG : Int) < h.pos := by
    intro h hh
    exact hlat.2.2.2 h (List.mem_of_mem_head? hh)
  have hidx := indexByPos_split (wk.offG : Int) ((D0 ++ D).map gh ++ [gh (cK.bytes ++ c2)]) (l2.map gh) 0 0 (by simp) hle hgt
  have hidx' : indexByPos (wk.offG : Int) (((D0 ++ D).map gh ++ [gh (cK.bytes ++ c2)]) ++ l2.map gh) 0 0 = (D0 ++ D).length := by
    rw [hidx]; simp
  have hdrop : (((D0 ++ D).map gh ++ [gh (cK.bytes ++ c2)]) ++ l2.map gh).drop (D0 ++ D).length = gh (cK.bytes ++ c2) :: l2.map hdrOf := by
    rw [List.append_assoc, List.drop_append_of_le_length (by simp), List.drop_of_length_le (by simp)]
    simp only [List.nil_append, List.singleton_append]
    rw [hlat.2.1]
  obtain ⟨h0, hs, hcons⟩ : ∃ h0 hs, ((D0 ++ D).map gh ++ [gh (cK.bytes ++ c2)]) ++ l2.map gh = h0 :: hs := by
    cases hl : ((D0 ++ D).map gh ++ [gh (cK.bytes ++ c2)]) ++ l2.map gh with
    | nil => simp at hl
    | cons a b => exact ⟨a, b, rfl⟩
  have hlow : ¬ ((wk.offG : Int) < h0.pos) := by
    have hmem : h0 ∈ (D0 ++ D).map gh ++ [gh (cK.bytes ++ c2)] := by
      cases hd : (D0 ++ D).map gh ++ [gh (cK.bytes ++ c2)] with
      | nil => simp at hd
      | cons a b => rw [hd] at hcons; simp at hcons; rw [← hcons.1]; simp
    have := hle h0 hmem; omega
  rw [hcons] at hscan hidx' hdrop
  have hfuel : (layoutC cfg wk post (k1, [])).1.length / 4 + 2 ≤ (layoutC cfg wk post (k1, [])).1.length / 2 + 4 := by omega
  -- the seek with the OLDER meta: checksum verified up to the older commit, recomputed from there to the resume position
  have hcKb : cK.bytes = (splitC cfg w pre1 c0).2.bytes ++ X := by
    rw [← hcK, hsp.2]; simp only [Cur.bytes, hn2, hn5, List.append_assoc]
  have hcKp : cK.pos = (splitC cfg w pre1 c0).2.pos := by rw [← hcK, hsp.2]; exact hn3
  have hcKc : cK.crc = (splitC cfg w pre1 c0).2.crc := by rw [← hcK, hsp.2]; exact hn4
  have hP1 : (cK.pos : Int) ≤ (w1.offG : Int) := by rw [hcKp]; have := hacc1.1; omega
  have hP12 : w1.offG ≤ wk.offG := by
    have := runAll_mono cfg pre2 w1; rw [hw1, ← runAll_append, hpre, hwk] at this; rw [hw1]; exact this
  have hseek := seek_older cfg (gh (cK.bytes ++ c2)) (splitC cfg w pre1 c0).2.bytes X c2 ⟨w1.offG, w1.crc, mts⟩ ts0
    (by rw [gh_data, hcKb, List.append_assoc])
    (by simp only [hcpos, hcKp]; have := hacc1.1; omega) (by rw [hccrc, hcKc]; exact hacc1.2) hX
  have hend : ((⟨w1.offG, w1.crc, mts⟩ : Meta).pos + (X.length : Int)) = (wk.offG : Int) := by
    have e1 := hacc1.1; have e2 := hacc.1
    rw [hcKb, hcKp] at e2; simp only [List.length_append] at e2; show (w1.offG : Int) + _ = _; omega
  have hcrc2 : cfg.upd w1.crc X = wk.crc := by
    rw [← hacc.2, hcKb, hcKc, ← hupd, hacc1.2]
  rw [hend, hcrc2] at hseek
  -- the older meta passes the "same chunk" test
  have hle1 : ∀ h ∈ (D0 ++ D).map gh ++ [gh (cK.bytes ++ c2)], h.pos ≤ (w1.offG : Int) := by
    intro h hh
    rcases List.mem_append.mp hh with hh | hh
    · have := hpre'.2.2 h hh; omega
    · simp only [List.mem_singleton] at hh; subst hh; omega
  have hgt1 : ∀ h ∈ (l2.map gh).head?, (w1.offG : Int) < h.pos := by
    intro h hh; have := hgt h hh; omega
  have hidx1 := indexByPos_split (w1.offG : Int) ((D0 ++ D).map gh ++ [gh (cK.bytes ++ c2)]) (l2.map gh) 0 0 (by simp) hle1 hgt1
  have hidx1' : indexByPos (w1.offG : Int) (h0 :: hs) 0 0 = (D0 ++ D).length := by
    rw [← hcons, hidx1]; simp
  have hnlt : ¬ ((wk.offG : Int) < (w1.offG : Int)) := by omega
  refine ⟨{ pos := (wk.offG : Int), crc := wk.crc, rest := c2, slack := c2.length % 4, dk := false, ts := mts, commitPos := 0,
            eng := ⟨wk.offG, [], []⟩ }, c2.length / 2 + 4, ⟨rfl, rfl, rfl, rfl, rfl, rfl⟩, hfuel, rfl, ?_⟩
  simp only [readAll, hscan, hlow, if_false, hidx', hidx1', hnlt, or_false, ne_eq, not_true_eq_false, hdrop, readFiles_first,
    readFile, hseek]
  exact ⟨rfl, rfl, rfl, rfl⟩


/-- **readAll_resume_older_meta.**  Any history (`Good`); appends `pre1 ++ pre2 ++ post`, `pre2` non-empty and without rotation
    (the commits after `pre1` and after `pre2` lie in the same chunk).  `readAllFromPosition(offset after pre2, meta of the OLDER
    commit after pre1)` delivers exactly the events of `post`, at the offsets `Append` returned, ending at the writer's position
    and checksum. -/
theorem readAll_resume_older_meta (cfg : Cfg) (hm : cfg.evMagic < 4294967296) (hsvc : cfg.evMagic ∉ serviceMagics)
    (hupd : ∀ c a b, cfg.upd (cfg.upd c a) b = cfg.upd c (a ++ b))
    (D0 : List Bytes) (pre1 pre2 post : List Ap) (w : WS) (c0 : Cur) (ts0 mts : Nat)
    (hsz : ∀ a ∈ post, a.body.length < 4294967296 ∧ a.ts < 4294967296)
    (hb : (runAll cfg w ((pre1 ++ pre2) ++ post)).offG < 9223372036854775808) (hg : Good cfg D0 w c0)
    (w1 : WS) (hw1 : w1 = runAll cfg w pre1) (hnr : NoRotR cfg w1 pre2) (hne : pre2 ≠ [])
    (wk : WS) (hwk : wk = runAll cfg w (pre1 ++ pre2)) (r : RA)
    (hr : r = readAll cfg (D0 ++ allFiles cfg w ((pre1 ++ pre2) ++ post) c0.bytes) wk.offG (some ⟨w1.offG, w1.crc, mts⟩) ts0 ⟨wk.offG, [], []⟩) :
    r.err = none ∧ r.eng.evs = (offsR cfg wk post).reverse ∧ r.pos = ((runAll cfg wk post).offG : Int) ∧
      r.crc = (runAll cfg wk post).crc := by
  obtain ⟨s, fuel, hat, hf, hev, hred⟩ := readAll_reduce_older cfg hupd D0 pre1 pre2 post w c0 [] ts0 mts hb hg.pre hg.acc hg.ok
    w1 hw1 hnr hne wk hwk
  have hbk : (runAll cfg wk post).offG < 9223372036854775808 := by rw [hwk, ← runAll_append]; exact hb
  have hrep := replay_rotating cfg hm hsvc post wk s fuel hsz hbk hat hf
  rw [allFilesK_nil] at hred
  rw [← hr] at hred
  obtain ⟨h1, h2, h3, h4⟩ := hred
  refine ⟨by rw [h3]; exact hrep.1, by rw [h4, hrep.2.1, hev]; simp, by rw [h1]; exact hrep.2.2.1, by rw [h2]; exact hrep.2.2.2⟩

/-- the seeded mutation C18-r5-2 as a variant of the seek: after the checksum was verified against the meta the position is
    set to the requested start although only the bytes up to the meta's position were read -/
def seekBad (cfg : Cfg) (h : Hdr) (startPos : Int) (m : Meta) : Option (Int × UInt32 × Bytes) :=
  let need := (m.pos - h.pos).toNat
  if cfg.upd h.crc (h.data.take need) ≠ m.crc then none else some (startPos, m.crc, h.data.drop need)


/-! ### the writer loop writes the layout (Lemmas/BinlogWB) -/

theorem flat_nil (cfg : Cfg) (w : WS) (as : List Ap) (h : flat cfg w as = []) : as = [] := by
  cases as with
  | nil => rfl
  | cons a as =>
    have := apA_length cfg w a
    have hl := congrArg List.length h
    simp only [flat, List.length_append, List.length_nil] at hl
    omega

/-- **writeBuffer contents = layout chunks.**  The writer state is what the accepted appends `as` made of a state `w0` with an
    empty buffer; one loop iteration (any flags) then leaves on disk: the files that were already closed, followed by exactly
    `allFiles` — the current file extended by the rest of its chunk and the later chunks of `layoutC`, byte for byte. -/
theorem iter_files_layout (cfg : Cfg) (s : Sys) (w0 : WS) (as : List Ap) (t st : Bool)
    (hb : w0.buff = []) (hr : w0.rotPos = []) (hw : s.w = runAll cfg w0 as) :
    ((iter s t st).l.older.reverse ++ [(iter s t st).l.cur]).map (·.data)
      = s.l.older.reverse.map (·.data) ++ allFiles cfg w0 as s.l.cur.data := by
  obtain ⟨hbuf, hrp⟩ := runAll_buff cfg as w0
  rw [← hw, hb] at hbuf
  rw [← hw, hr, hb] at hrp
  simp only [List.nil_append, List.length_nil] at hbuf hrp
  have hsplit := allFiles_append cfg as [] w0 (mkCur s.l.cur.data)
  have hall : allFiles cfg w0 as s.l.cur.data
      = (splitC cfg w0 as (mkCur s.l.cur.data)).1 ++ [(splitC cfg w0 as (mkCur s.l.cur.data)).2.bytes] := by
    have : (mkCur s.l.cur.data).bytes = s.l.cur.data := by simp [mkCur, Cur.bytes]
    rw [List.append_nil, this] at hsplit
    rw [hsplit]; simp [allFiles, layoutC]
  -- the files after `written`
  have hwr : (written s).cur.data = (splitC cfg w0 as (mkCur s.l.cur.data)).2.bytes ∧
      (written s).older.map (·.data) = (splitC cfg w0 as (mkCur s.l.cur.data)).1.reverse ++ s.l.older.map (·.data) := by
    unfold written
    split
    · rename_i he
      have : flat cfg w0 as = [] := by rw [← hbuf]; simpa [List.isEmpty_iff] using he
      have := flat_nil cfg w0 as this
      subst this
      simp [splitC, mkCur, Cur.bytes]
    · have := writeBuffer_split cfg as w0 s.l [] 0 (Nat.le_refl _)
      simp only [List.nil_append, List.length_nil, List.drop_nil, List.append_nil] at this
      rw [hbuf, hrp]
      exact this
  have hit : (iter s t st).l.cur.data = (written s).cur.data ∧ (iter s t st).l.older = (written s).older := by
    simp only [iter]; split <;> simp [syncCommit, FileS.sync]
  rw [List.map_append, List.map_reverse, hit.2, hwr.2, hall]
  simp [hit.1, hwr.1]


/-! ### the driver's crc32 satisfies the streaming law -/

/-- hash/crc32.Update is a fold: updating with `a` then `b` is updating with `a ++ b` -/
theorem crcUpdate_append (c : UInt32) (a b : Bytes) : crcUpdate (crcUpdate c a) b = crcUpdate c (a ++ b) := by
  simp [crcUpdate, List.foldl_append]

theorem crcUpdate_nil (c : UInt32) : crcUpdate c [] = c := by simp [crcUpdate]

/-! ### corruption covered by a later checksum record is detected (reduction form) -/

/-- `t` is reachable from `s` by continuing reader steps -/
inductive Reach (cfg : Cfg) : RS → RS → Prop
  | refl (s : RS) : Reach cfg s s
  | step {s s' t : RS} : readStep cfg s = .cont s' → Reach cfg s' t → Reach cfg s t

/-- after any number of steps the reader's position, rest and running checksum are those of "k bytes consumed":
    the checksum is `upd crc0 (first k bytes)` whatever the bytes are (also for corrupted files) -/
theorem reach_consumed {cfg : Cfg} (hupd : ∀ c a b, cfg.upd (cfg.upd c a) b = cfg.upd c (a ++ b)) (hnil : ∀ c, cfg.upd c [] = c)
    {s t : RS} (h : Reach cfg s t) : ∃ k, Consumed cfg s t k := by
  induction h with
  | refl s => exact ⟨0, by simp, by simp [hnil], by simp, rfl⟩
  | step hs _ ih =>
    obtain ⟨n, a1, b1, c1, d1⟩ := readStep_cont hs
    obtain ⟨k, a2, b2, c2, d2⟩ := ih
    refine ⟨n + k, ?_, ?_, ?_, ?_⟩
    · rw [a2, a1, List.drop_drop]
    · rw [b2, b1, a1, hupd, List.take_add]
    · rw [c2, c1]; push_cast; omega
    · rw [d2, d1]

/-- **crc_checked_at_next_record.**  Let the reader start at `s0` (running crc `s0.crc`) and reach, after consuming `k` bytes
    of whatever is in the file, a state whose next record is a complete crc record. That record makes replay fail with a
    checksum error iff the stored checksum differs from `upd s0.crc (the k bytes actually read)`. So a corruption of the
    bytes in front of the record is detected there exactly when the checksum function distinguishes the two byte strings. -/
theorem crc_record_checked {cfg : Cfg} (hupd : ∀ c a b, cfg.upd (cfg.upd c a) b = cfg.upd c (a ++ b)) (hnil : ∀ c, cfg.upd c [] = c)
    {s0 s : RS} (h : Reach cfg s0 s) (hrec : atLeast s.rest levCrcSize = true) (hm : rd32 s.rest = magicCrc) :
    ∃ k, s.rest = s0.rest.drop k ∧
      ((∃ s', readStep cfg s = .fail .crc s') ↔
        UInt32.ofNat (rd32 ((s0.rest.drop k).drop 16)) ≠ cfg.upd s0.crc (s0.rest.take k)) := by
  obtain ⟨k, a, b, _, _⟩ := reach_consumed hupd hnil h
  refine ⟨k, a, ?_⟩
  have h4 : atLeast s.rest 4 = true := by
    rw [atLeast_iff] at *; simp only [levCrcSize] at hrec; omega
  have hk : kindOf (rd32 s.rest) = .crc := by rw [hm]; decide
  have hstep : readStep cfg s = stepCrc cfg (preCommit s) := by
    simp [readStep, h4, hk, stepKind]
  rw [hstep, ← a, ← b]
  simp only [stepCrc, pre_rest, hrec, if_true]
  by_cases hmm : crcMismatch (preCommit s) = true
  · simp only [hmm, if_true]
    constructor
    · intro _; simpa [crcMismatch] using hmm
    · intro _; exact ⟨_, rfl⟩
  · simp only [hmm]
    constructor
    · rintro ⟨s', hs'⟩
      simp only [Bool.false_eq_true, if_false, skipLev] at hs'
      split at hs' <;> cases hs'
    · intro hne; exact absurd (by simpa [crcMismatch] using hne) hmm

/-! ### a damaged file list: prefix, error, or checksum collision -/

/-- `t` is reached from `s` by exactly `n` continuing reader steps -/
inductive ReachN (cfg : Cfg) : Nat → RS → RS → Prop
  | refl (s : RS) : ReachN cfg 0 s s
  | step {n : Nat} {s s' t : RS} : readStep cfg s = .cont s' → ReachN cfg n s' t → ReachN cfg (n + 1) s t

theorem ReachN.toReach {cfg : Cfg} {n : Nat} {s t : RS} (h : ReachN cfg n s t) : Reach cfg s t := by
  induction h with
  | refl s => exact .refl s
  | step hs _ ih => exact .step hs ih

theorem readLoop_reachN {cfg : Cfg} {n : Nat} {s t : RS} (h : ReachN cfg n s t) (f : Nat) :
    readLoop cfg (f + n) s = readLoop cfg f t := by
  induction h with
  | refl s => rfl
  | step hs _ ih => rw [← Nat.add_assoc, readLoop_cont _ hs]; exact ih

theorem finish_nil (cfg : Cfg) (r : FR) : (finish cfg r []).2.2.1 = r.err ∧ (finish cfg r []).2.2.2.1 = r.s.eng := by
  unfold finish
  cases h : r.err with
  | none => simp [readFiles, h]
  | some e => simp [h]

/-- **readAll_damaged_prefix_or_collision.**  Any history (`Good`), appends `pre ++ post1`; behind the bytes of `post1` the last
    chunk holds ARBITRARY bytes `dmg` (the written rest with a byte changed, anything).  `readAllFromPosition` from the commit after
    `pre` (with its meta or without) first delivers exactly the events of `post1` — the written prefix in front of the damage —
    and then runs the loop on `dmg` from the writer's position/checksum.  Whatever the loop does there: whenever it reaches, after
    consuming `k` bytes of `dmg`, a complete crc record, `readAll` fails with a checksum error UNLESS the value stored in that
    record equals `upd crc (first k bytes of dmg)` — i.e. unless the damaged bytes collide, under the checksum, with the bytes
    the writer summed when it stored that value.  (`n + 1 ≤ fuel`: the loop's step budget reaches that record.) -/
theorem readAll_damaged_prefix_or_collision (cfg : Cfg) (hm : cfg.evMagic < 4294967296) (hsvc : cfg.evMagic ∉ serviceMagics)
    (hupd : ∀ c a b, cfg.upd (cfg.upd c a) b = cfg.upd c (a ++ b)) (hnil : ∀ c, cfg.upd c [] = c)
    (D0 : List Bytes) (pre post1 : List Ap) (w : WS) (c0 : Cur) (dmg : Bytes) (ts0 : Nat) (si : Option Meta)
    (hsz : ∀ a ∈ post1, a.body.length < 4294967296 ∧ a.ts < 4294967296)
    (hb : (runAll cfg w (pre ++ post1)).offG < 9223372036854775808) (hg : Good cfg D0 w c0)
    (wk : WS) (hwk : wk = runAll cfg w pre) (hsi : MetaFor wk.offG wk.crc si) (r : RA)
    (hr : r = readAll cfg (D0 ++ allFilesK cfg w (pre ++ post1) c0.bytes dmg) wk.offG si ts0 ⟨wk.offG, [], []⟩) :
    ∃ (s : RS) (fuel : Nat),
      At s (runAll cfg wk post1).offG (runAll cfg wk post1).crc dmg ∧ s.eng.evs = (offsR cfg wk post1).reverse ∧
      r.err = (readLoop cfg fuel s).err ∧ r.eng = (readLoop cfg fuel s).s.eng ∧
      ∀ (n : Nat) (t : RS), ReachN cfg n s t → n + 1 ≤ fuel → atLeast t.rest levCrcSize = true → rd32 t.rest = magicCrc →
        ∃ k, t.rest = dmg.drop k ∧
          (UInt32.ofNat (rd32 ((dmg.drop k).drop 16)) ≠ cfg.upd (runAll cfg wk post1).crc (dmg.take k) → r.err = some .crc) := by
  obtain ⟨s0, fuel0, hat0, hf0, hev0, hred⟩ := readAll_reduce cfg hupd D0 pre post1 w c0 dmg ts0 si hb hg.pre hg.acc hg.ok wk hwk hsi
  have hbk : (runAll cfg wk post1).offG < 9223372036854775808 := by rw [hwk, ← runAll_append]; exact hb
  obtain ⟨s, fuel, hat, _, hev, hfin⟩ := sim cfg hm hsvc post1 wk (dmg, []) s0 fuel0 hsz hbk hat0 hf0
  rw [← hr] at hred
  obtain ⟨_, _, h3, h4⟩ := hred
  rw [hfin] at h3 h4
  have hfn := finish_nil cfg (readLoop cfg fuel s)
  simp only [List.map_nil] at h3 h4
  rw [hfn.1] at h3; rw [hfn.2] at h4
  refine ⟨s, fuel, hat, by rw [hev, hev0]; simp, h3, h4, ?_⟩
  intro n t hreach hn h20 hmagic
  obtain ⟨k, hk, hiff⟩ := crc_record_checked hupd hnil hreach.toReach h20 hmagic
  rw [hat.hrest] at hk hiff
  rw [hat.hcrc] at hiff
  refine ⟨k, hk, fun hne => ?_⟩
  obtain ⟨s', hs'⟩ := hiff.mpr hne
  obtain ⟨f, rfl⟩ : ∃ f, fuel = (f + 1) + n := ⟨fuel - 1 - n, by omega⟩
  rw [h3, readLoop_reachN hreach]
  simp only [readLoop, hs']


/-! ### writer loop: commits are monotone; at a commit nothing written is unsynced -/

inductive WOp
  | put (inOff : Int) (body : Bytes) (asap : Bool) (ts h1 h2 : Nat)     -- Append / AppendASAP with any arguments
  | iter (timer stop : Bool)                                             -- one writer loop iteration

def sysStep (cfg : Cfg) (s : Sys) : WOp → Sys
  | .put inOff body asap ts h1 h2 => { s with w := (putLev cfg s.w inOff body asap ts h1 h2).1 }
  | .iter t st => iter s t st

def run (cfg : Cfg) (s : Sys) (ops : List WOp) : Sys := ops.foldl (sysStep cfg) s

/-- commits (newest first) never decrease and none is ahead of the append position -/
def CommitInv (s : Sys) : Prop :=
  s.l.commits.Pairwise (fun a b => b.off ≤ a.off) ∧ ∀ c ∈ s.l.commits, c.off ≤ (s.w.offG : Int)

/-- every rotated-away file is completely covered by an fsync -/
def OlderSynced (l : LS) : Prop := ∀ f ∈ l.older, f.synced = f.data.length

theorem appendLev_offG (cfg : Cfg) (w : WS) (d : Bytes) : w.offG ≤ (appendLev cfg w d).offG := by
  simp [appendLev]

theorem putLev_offG (cfg : Cfg) (w : WS) (inOff : Int) (body : Bytes) (asap : Bool) (ts h1 h2 : Nat) :
    w.offG ≤ (putLev cfg w inOff body asap ts h1 h2).1.offG := by
  have a := appendLev_offG cfg w body
  have hc : w.offG ≤ (putCrc cfg w body ts).offG := by
    simp only [putCrc]; split <;> simp only [addCrc, appendLev] at * <;> omega
  unfold putLev
  split
  · exact Nat.le_refl _
  · split
    · exact Nat.le_refl _
    · simp only []
      split
      · exact hc
      · simp only [putBody]
        split <;> split <;> simp only [addRotate, appendLev] at * <;> omega

theorem iter_offG (s : Sys) (t st : Bool) : (iter s t st).w.offG = s.w.offG := rfl

theorem writeBuffer_commits (buff : Bytes) : ∀ (ps : List Nat) (l : LS) (prev : Nat), (writeBuffer l buff prev ps).commits = l.commits
  | [], _, _ => rfl
  | p :: ps, l, prev => by
    simp only [writeBuffer]; rw [writeBuffer_commits buff ps]; rfl

theorem written_commits (s : Sys) : (written s).commits = s.l.commits := by
  unfold written; split
  · rfl
  · exact writeBuffer_commits _ _ _ _

theorem writeBuffer_older (buff : Bytes) : ∀ (ps : List Nat) (l : LS) (prev : Nat), OlderSynced l → OlderSynced (writeBuffer l buff prev ps)
  | [], _, _, h => h
  | p :: ps, l, prev, h => by
    simp only [writeBuffer]
    apply writeBuffer_older buff ps
    intro f hf
    simp only [rotateFS, List.mem_cons] at hf
    rcases hf with rfl | hf
    · rfl
    · exact h f hf

theorem written_older (s : Sys) (h : OlderSynced s.l) : OlderSynced (written s) := by
  unfold written; split
  · exact h
  · exact writeBuffer_older _ _ _ _ h

theorem commitInv_step (cfg : Cfg) (s : Sys) (op : WOp) (h : CommitInv s) : CommitInv (sysStep cfg s op) := by
  cases op with
  | put inOff body asap ts h1 h2 =>
    refine ⟨h.1, fun c hc => ?_⟩
    have := h.2 c hc
    have m := putLev_offG cfg s.w inOff body asap ts h1 h2
    simp only [sysStep]; omega
  | iter t st =>
    simp only [sysStep, CommitInv, iter_offG]
    simp only [iter]
    split
    · simp only [syncCommit, List.pairwise_cons, List.mem_cons, written_commits]
      refine ⟨⟨fun c hc => h.2 c hc, h.1⟩, ?_⟩
      rintro c (rfl | hc)
      · exact Int.le_refl _
      · exact h.2 c hc
    · rw [written_commits]; exact h

/-- **commit_all_synced_partial.**  When an iteration of the writer loop issues a commit, no byte written to any file is left
    without an fsync (`syncedEnd = writtenEnd`), and this holds again after every later iteration that commits; rotated-away
    files stay fully synced.  (The missing half of `commit_monotone_le_fsynced`, "the committed offset is not larger than the
    number of bytes written", needs the well-formedness of `rotatePos` w.r.t. the buffer and is checked by the oracle only.) -/
theorem commit_all_synced_partial (s : Sys) (t st : Bool) (h : OlderSynced s.l)
    (hc : (iter s t st).l.commits.length > s.l.commits.length) :
    syncedEnd (iter s t st).l = writtenEnd (iter s t st).l ∧ OlderSynced (iter s t st).l := by
  have ho := written_older s h
  simp only [iter] at hc ⊢
  split at hc
  · rename_i hs
    simp only [hs, if_true]
    refine ⟨?_, ho⟩
    simp only [syncedEnd, writtenEnd, syncCommit, FileS.sync]
    congr 1
    exact List.map_congr_left (fun f hf => ho f hf) |> congrArg List.sum
  · simp [written_commits] at hc

/-- **commit_monotone.**  For every schedule of appends (any arguments, accepted or refused) and writer-loop iterations (any
    timer/stop flags) the sequence of `Engine.Commit` offsets is non-decreasing, and no commit is ahead of the append position. -/
theorem commit_monotone (cfg : Cfg) (ops : List WOp) (s : Sys) (h : CommitInv s) : CommitInv (run cfg s ops) := by
  induction ops generalizing s with
  | nil => exact h
  | cons op ops ih => exact ih _ (commitInv_step cfg s op h)


/-! ### commits never exceed the fsynced bytes (Lemmas/BinlogWriter) -/

/-- the invariant behind "commits never exceed the fsynced bytes"; `B` = global position of the first byte of the oldest file -/
structure FsInv (B : Nat) (s : Sys) : Prop where
  winv : Winv (B + writtenEnd s.l) s.w
  older : OlderSynced s.l
  sle : SyncedLe s.l
  commits : ∀ c ∈ s.l.commits, c.off ≤ ((B + syncedEnd s.l : Nat) : Int)

theorem syncedEnd_of_older {l : LS} (h : OlderSynced l) : syncedEnd l = (l.older.map (·.data.length)).sum + l.cur.synced := by
  simp only [syncedEnd]
  congr 1
  exact congrArg List.sum (List.map_congr_left (fun f hf => h f hf))

theorem written_fs (B : Nat) (s : Sys) (h : FsInv B s) :
    s.w.offG = B + writtenEnd (written s) ∧ OlderSynced (written s) ∧ SyncedLe (written s) ∧ syncedEnd s.l ≤ syncedEnd (written s) := by
  unfold written
  split
  · rename_i he
    have : s.w.buff.length = 0 := by simpa [List.isEmpty_iff] using he
    exact ⟨by have := h.winv.1; omega, h.older, h.sle, Nat.le_refl _⟩
  · have hw := writeBuffer_written s.w.buff s.w.rotPos s.l 0 h.winv.2
    have hs := writeBuffer_synced s.w.buff s.w.rotPos s.l 0 h.sle
    refine ⟨?_, writeBuffer_older _ _ _ _ h.older, hs.2, hs.1⟩
    have := h.winv.1
    have e : writtenEnd { writeBuffer s.l s.w.buff 0 s.w.rotPos with dirty := true } = writtenEnd (writeBuffer s.l s.w.buff 0 s.w.rotPos) := rfl
    rw [e, hw]; omega

theorem fsInv_step (cfg : Cfg) (B : Nat) (s : Sys) (op : WOp) (h : FsInv B s) : FsInv B (sysStep cfg s op) := by
  cases op with
  | put inOff body asap ts h1 h2 => exact ⟨putLev_winv cfg inOff body asap ts h1 h2 h.winv, h.older, h.sle, h.commits⟩
  | iter t st =>
    obtain ⟨ho, hold, hsle, hmono⟩ := written_fs B s h
    simp only [sysStep, iter]
    split
    · -- sync + commit
      have hse : syncedEnd (syncCommit (written s) s.w (lastRotTs s.w.buff s.w.rotPos s.w.lastTs)) = writtenEnd (written s) := by
        rw [syncedEnd_of_older (by simpa [syncCommit, OlderSynced] using hold)]
        simp [syncCommit, FileS.sync, writtenEnd]
      have hwe : writtenEnd (syncCommit (written s) s.w (lastRotTs s.w.buff s.w.rotPos s.w.lastTs)) = writtenEnd (written s) := by
        simp [syncCommit, FileS.sync, writtenEnd]
      refine ⟨⟨?_, ?_⟩, ?_, ?_, ?_⟩
      · simp only [takeBuf, List.length_nil, hwe]; omega
      · simp [takeBuf, WF]
      · simpa [syncCommit, OlderSynced] using hold
      · simp [syncCommit, SyncedLe, FileS.sync]
      · intro c hc
        rw [hse]
        simp only [syncCommit, List.mem_cons] at hc
        rcases hc with rfl | hc
        · simp only; omega
        · have h1 := h.commits c (by rwa [written_commits] at hc)
          have h2 : syncedEnd (written s) ≤ writtenEnd (written s) := by
            rw [syncedEnd_of_older hold]; simp only [writtenEnd]; have := hsle; simp only [SyncedLe] at this; omega
          omega
    · refine ⟨⟨?_, ?_⟩, hold, hsle, ?_⟩
      · simp only [takeBuf, List.length_nil]; omega
      · simp [takeBuf, WF]
      · intro c hc
        have h1 := h.commits c (by rwa [written_commits] at hc)
        show c.off ≤ ((B + syncedEnd (written s) : Nat) : Int)
        omega

/-- **commit_le_fsynced (commit_monotone_le_fsynced, second half).**  For every schedule of appends (any arguments) and writer-loop
    iterations (any timer/stop flags), every `Engine.Commit` offset ever issued is at most the number of bytes of the global
    stream that are in the files AND covered by an fsync (`B` + synced prefix), hence also at most the bytes written. -/
theorem commit_le_fsynced (cfg : Cfg) (B : Nat) (ops : List WOp) (s : Sys) (h : FsInv B s) :
    FsInv B (run cfg s ops) ∧
    (∀ c ∈ (run cfg s ops).l.commits, c.off ≤ ((B + syncedEnd (run cfg s ops).l : Nat) : Int)) ∧
    syncedEnd (run cfg s ops).l ≤ writtenEnd (run cfg s ops).l := by
  have hinv : FsInv B (run cfg s ops) := by
    induction ops generalizing s with
    | nil => exact h
    | cons op ops ih => exact ih _ (fsInv_step cfg B s op h)
  refine ⟨hinv, hinv.commits, ?_⟩
  rw [syncedEnd_of_older hinv.older]; simp only [writtenEnd]; have := hinv.sle; simp only [SyncedLe] at this; omega


/-! ### durability per file: every committed offset is covered by an fsync of the file that holds it -/

/-- walking the files oldest first from global position `p`: of each file, the bytes below the committed offset `c` lie inside
    the prefix covered by that file's last fsync (`FileS.synced` is the ghost "synced" mark of the file) -/
def coveredFrom (c : Int) : Int → List FileS → Bool
  | _, [] => true
  | p, f :: fs => decide (min (c - p) (f.data.length : Int) ≤ (f.synced : Int)) && coveredFrom c (p + f.data.length) fs

def Covered (B : Nat) (l : LS) (c : Int) : Bool := coveredFrom c B (l.older.reverse ++ [l.cur])

theorem coveredFrom_all (c : Int) : ∀ (p : Int) (fs : List FileS), (∀ f ∈ fs, f.synced = f.data.length) → coveredFrom c p fs = true
  | _, [], _ => rfl
  | p, f :: fs, h => by
    have hf := h f (List.mem_cons_self ..)
    simp only [coveredFrom, Bool.and_eq_true, decide_eq_true_eq]
    exact ⟨by rw [hf]; omega, coveredFrom_all c _ fs (fun x hx => h x (List.mem_cons_of_mem _ hx))⟩

theorem coveredFrom_snoc (c : Int) (y : FileS) : ∀ (p : Int) (xs : List FileS),
    coveredFrom c p (xs ++ [y]) = (coveredFrom c p xs && decide (min (c - (p + ((xs.map (·.data.length)).sum : Nat))) (y.data.length : Int) ≤ (y.synced : Int)))
  | p, [] => by simp [coveredFrom]
  | p, x :: xs => by
    have e : (p + (x.data.length : Int)) + (((xs.map (·.data.length)).sum : Nat) : Int)
        = p + ((((x :: xs).map (·.data.length)).sum : Nat) : Int) := by
      simp only [List.map_cons, List.sum_cons]; push_cast; omega
    simp only [List.cons_append, coveredFrom, coveredFrom_snoc c y _ xs, e, Bool.and_assoc]

/-- **commit_covered_per_file.**  For every schedule of appends and writer-loop iterations, for every offset ever announced
    through `Engine.Commit` and for EVERY file — the closed chunks with their ROTATE_TO record as well as the current one — the
    bytes of that file below the committed offset were covered by an fsync of that file. -/
theorem commit_covered_per_file (cfg : Cfg) (B : Nat) (ops : List WOp) (s : Sys) (h : FsInv B s) :
    ∀ c ∈ (run cfg s ops).l.commits, Covered B (run cfg s ops).l c.off = true := by
  obtain ⟨hinv, hc, _⟩ := commit_le_fsynced cfg B ops s h
  intro c hcm
  have hle := hc c hcm
  have hold := hinv.older
  simp only [Covered, coveredFrom_snoc, Bool.and_eq_true, decide_eq_true_eq]
  refine ⟨coveredFrom_all _ _ _ (fun f hf => hold f (List.mem_reverse.mp hf)), ?_⟩
  rw [syncedEnd_of_older hold] at hle
  have hsum : ((run cfg s ops).l.older.reverse.map (·.data.length)).sum = ((run cfg s ops).l.older.map (·.data.length)).sum := by
    rw [List.map_reverse, List.sum_reverse]
  rw [hsum]
  push_cast at hle ⊢
  omega


/-! ### appends around shutdown: refused or durable -/

/-- when the writer loop is not dirty, nothing written is without an fsync -/
def CleanSynced (l : LS) : Prop := l.dirty = false → syncedEnd l = writtenEnd l

theorem syncCommit_synced (l : LS) (w : WS) (ts : Nat) (h : OlderSynced l) : syncedEnd (syncCommit l w ts) = writtenEnd l := by
  rw [syncedEnd_of_older (by simpa [syncCommit, OlderSynced] using h)]
  simp [syncCommit, FileS.sync, writtenEnd]

theorem written_dirty (s : Sys) : (written s).dirty = false → written s = s.l := by
  unfold written; split
  · intro _; rfl
  · intro h; simp at h

theorem clean_step (cfg : Cfg) (B : Nat) (s : Sys) (op : WOp) (h : FsInv B s) (hc : CleanSynced s.l) : CleanSynced (sysStep cfg s op).l := by
  cases op with
  | put inOff body asap ts h1 h2 => exact hc
  | iter t st =>
    obtain ⟨_, hold, _, _⟩ := written_fs B s h
    simp only [sysStep, iter]
    split
    · intro _
      rw [syncCommit_synced _ _ _ hold]; simp [syncCommit, FileS.sync, writtenEnd]
    · intro hd
      have := written_dirty s hd
      rw [this] at hd ⊢
      exact hc hd

theorem inv_run (cfg : Cfg) (B : Nat) (ops : List WOp) (s : Sys) (h : FsInv B s) (hc : CleanSynced s.l) :
    FsInv B (run cfg s ops) ∧ CleanSynced (run cfg s ops).l := by
  induction ops generalizing s with
  | nil => exact ⟨h, hc⟩
  | cons op ops ih => exact ih _ (fsInv_step cfg B s op h) (clean_step cfg B s op h hc)

/-- the stop iteration: the writer stops accepting, the buffer is empty, and every byte ever accepted by an Append
    (`offsetGlobal` counts exactly those) is in the files and covered by an fsync -/
theorem stop_durable (B : Nat) (s : Sys) (t : Bool) (h : FsInv B s) (hc : CleanSynced s.l) :
    (iter s t true).w.stopped = true ∧ (iter s t true).w.buff = [] ∧
    (iter s t true).w.offG = B + syncedEnd (iter s t true).l := by
  obtain ⟨ho, hold, _, _⟩ := written_fs B s h
  refine ⟨by simp [iter, takeBuf], by simp [iter, takeBuf], ?_⟩
  simp only [iter, takeBuf]
  split
  · rw [syncCommit_synced _ _ _ hold]; exact ho
  · rename_i hms
    have hd : (written s).dirty = false := by
      simpa [mustSync] using hms
    have hw := written_dirty s hd
    rw [hw] at hd ho ⊢
    rw [hc hd]; exact ho

theorem stopped_refuses (cfg : Cfg) (w : WS) (inOff : Int) (body : Bytes) (asap : Bool) (ts h1 h2 : Nat) (h : w.stopped = true) :
    putLev cfg w inOff body asap ts h1 h2 = (w, .stopped, w.offG) := by
  simp [putLev, h]

theorem stopped_run (cfg : Cfg) (ops : List WOp) (s : Sys) (h : s.w.stopped = true) :
    (run cfg s ops).w.stopped = true ∧ (run cfg s ops).w.offG = s.w.offG := by
  induction ops generalizing s with
  | nil => exact ⟨h, rfl⟩
  | cons op ops ih =>
    cases op with
    | put inOff body asap ts h1 h2 =>
      have e : sysStep cfg s (.put inOff body asap ts h1 h2) = s := by
        simp [sysStep, stopped_refuses cfg s.w inOff body asap ts h1 h2 h]
      simp only [run, List.foldl_cons, e]; exact ih s h
    | iter t st =>
      have h' : (iter s t st).w.stopped = true := by simp [iter, takeBuf, h]
      have := ih (iter s t st) h'
      simp only [run, List.foldl_cons, sysStep] at this ⊢
      exact ⟨this.1, by rw [this.2]; rfl⟩

/-- **append_after_stop_refused_or_durable.**  Any schedule `ops1` of appends and writer iterations, then the iteration that
    sees the shutdown request, then any further schedule `ops2` (appends racing with the final write/fsync/commit included —
    they come after the `replaceBuff` of the stop iteration).  (a) At the end of the stop iteration every byte accepted by an
    Append so far is in the files and fsynced; (b) every later Append is refused (`stopped`): the append position never moves
    again.  So an Append is either refused or durably written — none is acknowledged and lost. -/
theorem append_after_stop_refused_or_durable (cfg : Cfg) (B : Nat) (ops1 ops2 : List WOp) (s0 : Sys) (t : Bool)
    (h : FsInv B s0) (hc : CleanSynced s0.l) :
    (iter (run cfg s0 ops1) t true).w.offG = B + syncedEnd (iter (run cfg s0 ops1) t true).l ∧
    (run cfg (iter (run cfg s0 ops1) t true) ops2).w.stopped = true ∧
    (run cfg (iter (run cfg s0 ops1) t true) ops2).w.offG = (iter (run cfg s0 ops1) t true).w.offG := by
  obtain ⟨h1, c1⟩ := inv_run cfg B ops1 s0 h hc
  obtain ⟨hs, _, hd⟩ := stop_durable B (run cfg s0 ops1) t h1 c1
  obtain ⟨a, b⟩ := stopped_run cfg ops2 _ hs
  exact ⟨hd, a, b⟩


/-! ### restart inside the first chunk: the Rotate lev never slices hashBuff2 out of range (after the fix) -/

/-- in the first file hashBuff2 covers everything beyond the hash boundary, and offsetLocal is the distance from the file start -/
def HashInv (cfg : Cfg) (w : WS) : Prop :=
  w.firstFile = true → w.offL ≤ w.hb2 + (cfg.chunk - hashDataSize) ∧ w.offL = w.offG - w.fileStart ∧ w.fileStart ≤ w.offG

theorem wsInit_hashInv (cfg : Cfg) (pos : Nat) (crc : UInt32) (last : Hdr) (ts : Nat) :
    HashInv cfg (wsInit cfg true pos crc last ts) := by
  intro h
  have h0 : last.pos = 0 := by simpa [wsInit] using h
  refine ⟨?_, ?_, ?_⟩ <;> simp [wsInit, h0, hashDataSize] <;> omega

theorem appendLev_hashInv (cfg : Cfg) (w : WS) (d : Bytes) (h : HashInv cfg w) : HashInv cfg (appendLev cfg w d) := by
  intro hf
  obtain ⟨a, b, c⟩ := h hf
  simp only [hashDataSize] at a
  by_cases hb : ((cfg.chunk : Int) - (16384 : Nat) < (w.offL : Int) + ((padded d).length : Nat))
  · simp only [appendLev, beyondHashBoundary, hashDataSize, hb, decide_true, if_true]
    omega
  · simp only [appendLev, beyondHashBoundary, hashDataSize, hb, decide_false, Bool.false_eq_true, if_false]
    omega

theorem putCrc_hashInv (cfg : Cfg) (w : WS) (body : Bytes) (ts : Nat) (h : HashInv cfg w) : HashInv cfg (putCrc cfg w body ts) := by
  simp only [putCrc]
  split
  · exact appendLev_hashInv cfg _ _ (appendLev_hashInv cfg w body h)
  · exact appendLev_hashInv cfg w body h

/-- a rotation that is due in a state satisfying the invariant does not hit the out-of-range slice -/
theorem rotate_no_panic (cfg : Cfg) (w : WS) (h : HashInv cfg w) (hr : needRotate cfg w = true) : hashSlicePanics w = false := by
  by_cases hf : w.firstFile = true
  · obtain ⟨a, b, c⟩ := h hf
    simp only [needRotate, decide_eq_true_eq] at hr
    simp only [hashDataSize] at a
    by_cases h1 : 2 * hashDataSize - levRotateSize ≤ w.offL
    · have h2 : ¬ (w.hb2 < hashDataSize - levRotateSize) := by
        simp only [hashDataSize, levRotateSize] at *; omega
      simp [hashSlicePanics, h2]
    · simp [hashSlicePanics, h1]
  · simp [hashSlicePanics, hf]

/-- **append_never_panics (fixed code).**  A writer started by `wsInit … restoreTail := true` (WriteLoop re-reads the tail of the
    first chunk) satisfies `HashInv`; every accepted append keeps it; hence no `Append` ever takes the panicking slice. -/
theorem putLev_no_panic (cfg : Cfg) (w : WS) (inOff : Int) (body : Bytes) (asap : Bool) (ts h1 h2 : Nat) (h : HashInv cfg w) :
    (putLev cfg w inOff body asap ts h1 h2).2.1 ≠ .panic ∧ HashInv cfg (putLev cfg w inOff body asap ts h1 h2).1 := by
  by_cases hs : w.stopped = true
  · simp only [putLev, hs, if_true]; exact ⟨by simp, h⟩
  · have hs' : w.stopped = false := by simpa using hs
    by_cases ho : inOff ≠ (w.offG : Int)
    · rw [putLev, if_neg (by simp [hs']), if_pos ho]; exact ⟨by simp, h⟩
    · have h2' := putCrc_hashInv cfg w body ts h
      have hnp : (needRotate cfg (putCrc cfg w body ts) && hashSlicePanics (putCrc cfg w body ts)) = false := by
        by_cases hr : needRotate cfg (putCrc cfg w body ts) = true
        · simp [rotate_no_panic cfg _ h2' hr]
        · simp [hr]
      rw [putLev, if_neg (by simp [hs']), if_neg ho]
      simp only [hnp, Bool.false_eq_true, if_false]
      refine ⟨by simp, ?_⟩
      simp only [putBody]
      have hrot : HashInv cfg (if needRotate cfg (putCrc cfg w body ts) = true then addRotate cfg (putCrc cfg w body ts) ts h1 h2
          else putCrc cfg w body ts) := by
        split
        · intro hf; simp [addRotate, appendLev] at hf
        · exact h2'
      split
      · intro hf; exact hrot hf
      · exact hrot


/-! ### non-vacuity: concrete instances (kernel-evaluated) -/

/-- a toy checksum with the streaming law (the theorems never use more about `upd`) -/
def updT (c : UInt32) (b : Bytes) : UInt32 := b.foldl (fun a x => a * 31 + x.toUInt32) c

/-- crc record every 16 bytes, no rotation -/
def cfgT : Cfg := { upd := updT, evMagic := 0x12345, chunk := 100000, crcEvery := 16, schema := 0 }

def wT : WS := { crc := 7, offG := 44, offL := 44, lastCrcPos := 44, fileStart := 0, firstFile := true, curHash := 0,
                 buff := [], rotPos := [], asap := false, lastTs := 0, stopped := false }

def evsT : List Ev := [⟨[1, 2, 3], false, 5⟩, ⟨[], true, 6⟩, ⟨[9, 9, 9, 9, 9], false, 7⟩]

def sT (rest : Bytes) : RS :=
  { pos := 44, crc := 7, rest := rest, slack := 0, dk := false, ts := 0, commitPos := 0, eng := { off := 44, evs := [], commits := [] } }

example : ∀ c a b, updT (updT c a) b = updT c (a ++ b) := by intro c a b; simp [updT, List.foldl_append]
example : ∀ c a b, crcUpdate (crcUpdate c a) b = crcUpdate c (a ++ b) := crcUpdate_append
example : cfgT.evMagic ∉ serviceMagics := by decide
-- the hypotheses of `replay_all` hold for this instance, a crc record IS produced (after the second event: 12 + 8 >= 16
-- bytes), and the conclusion is what evaluation gives: three events at 44, 56 and 84 (= 56 + 8 + the 20 byte crc record)
example : NoRotate cfgT wT evsT := ⟨by decide, by decide, by decide, trivial⟩
example : crcPart cfgT (wnext cfgT wT ⟨[1, 2, 3], false, 5⟩) ⟨[], true, 6⟩ ≠ [] := by decide
example : (offsets cfgT wT evsT).map (·.1) = [44, 56, 84] := by decide
set_option maxRecDepth 20000 in
example : ((readLoop cfgT 7 (sT (writeAll cfgT wT evsT).buff)).s.eng.evs.map (·.1)) = [84, 56, 44] := by decide
set_option maxRecDepth 20000 in
example : (readLoop cfgT 7 (sT (writeAll cfgT wT evsT).buff)).err = none := by decide

/-- flip one bit of the first event's body (2 -> 3): both events still parse, the crc record behind them is reached (the
    reader consumed the 20 bytes in front of it) and rejects — `crc_record_checked` with a checksum that distinguishes the
    two byte strings -/
def flipped : Bytes := (writeAll cfgT wT evsT).buff.set 9 3
def sF1 : RS := afterEvent cfgT (sT flipped) [1, 3, 3] (flipped.drop 12)
def sF2 : RS := afterEvent cfgT sF1 [] (flipped.drop 20)

set_option maxRecDepth 20000 in
example : (readLoop cfgT 7 (sT flipped)).err = some .crc := by decide
set_option maxRecDepth 20000 in
example : Reach cfgT (sT flipped) sF2 := .step (s' := sF1) (by decide) (.step (s' := sF2) (by decide) (.refl _))
set_option maxRecDepth 20000 in
example : atLeast sF2.rest levCrcSize = true ∧ rd32 sF2.rest = magicCrc := by decide

/-- writer loop: an ASAP batch, a batch that only the timer flushes, a rotation (chunk 40), stop -/
def cfgR : Cfg := { cfgT with chunk := 40, crcEvery := 65536 }
def sys0 : Sys :=
  { w := { wT with offG := 0, offL := 0, lastCrcPos := 0, crc := 0 },
    l := { cur := { data := [], synced := 0 }, older := [], lastFsync := 0, dirty := false, commits := [] } }
def opsT : List WOp :=
  [.put 0 (encEvent 0x12345 [1, 2, 3]) true 5 11 12, .iter false false, .put 12 (encEvent 0x12345 [4]) false 5 11 12,
   .iter false false, .iter true false, .put 24 (encEvent 0x12345 [5, 6, 7, 8, 9, 10, 11, 12, 13]) false 6 11 12,
   .put 7 [1] false 6 0 0, .iter false true]

example : CommitInv sys0 := ⟨List.Pairwise.nil, fun _ h => by cases h⟩
example : OlderSynced sys0.l := fun _ h => by cases h
set_option maxRecDepth 20000 in
example : ((run cfgR sys0 opsT).l.commits.map (·.off)) = [116, 24, 12] := by decide
set_option maxRecDepth 20000 in
example : (run cfgR sys0 opsT).l.older.length = 1 ∧ syncedEnd (run cfgR sys0 opsT).l = 116 := by decide



/-! rotation / truncation / commit≤fsynced instances -/

/-- chunk size 100, crc record every 16 bytes: the third append rotates, the last two live in the second chunk -/
def cfgX : Cfg := { cfgT with chunk := 100 }
def apsT : List Ap :=
  [⟨[1, 2, 3], false, 5, 11, 12⟩, ⟨[], true, 6, 13, 14⟩, ⟨[9, 9, 9, 9, 9], false, 7, 15, 16⟩, ⟨[4, 4], false, 8, 17, 18⟩, ⟨[5], true, 8, 19, 20⟩]

set_option maxRecDepth 40000 in
example : At (sT (layoutC cfgX wT apsT ([], [])).1) wT.offG wT.crc (layoutC cfgX wT apsT ([], [])).1 :=
  ⟨rfl, rfl, rfl, rfl, rfl, by decide⟩
set_option maxRecDepth 40000 in
example : (layoutC cfgX wT apsT ([], [])).2.map (·.length) = [80] := by decide
set_option maxRecDepth 40000 in
example : (offsR cfgX wT apsT).map (·.1) = [44, 56, 84, 192, 224] := by decide
set_option maxRecDepth 40000 in
example : (finish cfgX (readLoop cfgX 40 (sT (layoutC cfgX wT apsT ([], [])).1))
    ((layoutC cfgX wT apsT ([], [])).2.map hdrOf)).2.2.2.1.evs.map (·.1) = [224, 192, 84, 56, 44] := by decide
-- seek_resume: the second chunk of the instance above, resumed at the commit position 224 (behind ROTATE_FROM and the 32 bytes of
-- the append at 192) with the checksum the writer had there
def file1 : Bytes := (layoutC cfgX wT apsT ([], [])).2.headD []
set_option maxRecDepth 40000 in
example : seek cfgX (hdrOf file1) 224 (some ⟨224, (runAll cfgX wT (apsT.take 4)).crc, 0⟩) 0
    = .ok (224, (runAll cfgX wT (apsT.take 4)).crc, file1.drop 68, 0) :=
  seek_resume cfgX (hdrOf file1) (file1.take 68) (file1.drop 68) ⟨224, (runAll cfgX wT (apsT.take 4)).crc, 0⟩ 0
    (List.take_append_drop 68 file1).symm (by decide) (by decide)
-- truncate_prefix: pre = the three appends up to the rotation, post = the two appends of the last chunk; cut 20 bytes after the
-- ROTATE_FROM header: the 12-byte event at 192 is complete, its 20-byte crc record is cut -> exactly one more event
set_option maxRecDepth 40000 in
example : NoRotR cfgX (runAll cfgX wT (apsT.take 3)) (apsT.drop 3) := ⟨by decide, by decide, trivial⟩
set_option maxRecDepth 40000 in
example : complete cfgX (runAll cfgX wT (apsT.take 3)) (apsT.drop 3) 20 = 1 := by decide
set_option maxRecDepth 40000 in
example : (finish cfgX (readLoop cfgX 40
      (sT (layoutC cfgX wT (apsT.take 3) ((layoutC cfgX (runAll cfgX wT (apsT.take 3)) (apsT.drop 3) ([], [])).1.take 20, [])).1))
    ((layoutC cfgX wT (apsT.take 3) ((layoutC cfgX (runAll cfgX wT (apsT.take 3)) (apsT.drop 3) ([], [])).1.take 20, [])).2.map hdrOf)).2.2.2.1.evs.map (·.1)
    = [192, 84, 56, 44] := by decide
-- the hypothesis "the last chunk keeps its complete ROTATE_FROM header" of `truncate_prefix` (built into the layout: the cut is
-- applied behind `apRF`) is NEEDED: see the `decide` witnesses of the known finding below (`chunk1.take 10`: scan error,
-- `chunk1.take 2`: panic, although every event of `chunk0` is complete).

example : FsInv 0 sys0 :=
  ⟨⟨by decide, Nat.zero_le _⟩, (fun _ h => by cases h), (Nat.le_refl _), (fun _ h => by cases h)⟩
set_option maxRecDepth 20000 in
example : ((run cfgR sys0 opsT).l.commits.map (·.off)) = [116, 24, 12] ∧ syncedEnd (run cfgR sys0 opsT).l = 116 := by decide



/-! round 3: readAll end to end, replay from 0, files of the writer loop, truncation that removes later files -/

def syT : Bytes := List.replicate 16 1
def tyT : Bytes := List.replicate 16 2
/-- the writer of the instance above, started behind the 44-byte head of a fresh binlog -/
def wS : WS := { wT with crc := updT 0 (initBytes cfgX syT tyT) }

example : StartsAt cfgX wS syT tyT := ⟨rfl, rfl⟩
set_option maxRecDepth 60000 in
example : (allFiles cfgX wS apsT (initBytes cfgX syT tyT)).map (·.length) = [156, 80] := by decide
-- readAll_from_start: two files, LevStart + tag skipped, all five events through the rotation
set_option maxRecDepth 60000 in
example : (readAll cfgX (allFiles cfgX wS apsT (initBytes cfgX syT tyT)) 0 none 0 ⟨0, [], []⟩).eng.evs.map (·.1)
    = [224, 192, 84, 56, 44] := by decide
-- readAll_from_commit: resume at the commit behind the second append (offset 84, first file) with its meta: the remaining three
-- events, the last two from the second file
set_option maxRecDepth 60000 in
example : (readAll cfgX (allFiles cfgX wS apsT (initBytes cfgX syT tyT)) 84
      (some ⟨84, (runAll cfgX wS (apsT.take 2)).crc, 9⟩) 0 ⟨84, [], []⟩).eng.evs.map (·.1) = [224, 192, 84] := by decide
-- ... and a meta with a wrong checksum is refused by the seek (the hypothesis `wk.crc` of the theorem matters)
set_option maxRecDepth 60000 in
example : (readAll cfgX (allFiles cfgX wS apsT (initBytes cfgX syT tyT)) 84 (some ⟨84, 12345, 9⟩) 0 ⟨84, [], []⟩).err
    = some .seekCrc := by decide
-- truncate_tail_files: the second file is gone and the first chunk (112 bytes behind the head) is cut inside its ROTATE_TO
-- (t = 100): the three events of the chunk; cut at 20 bytes: the first two
set_option maxRecDepth 60000 in
example : [20, 100, 112].map (completeC cfgX wS apsT) = [2, 3, 3] := by decide
set_option maxRecDepth 60000 in
example : (finish cfgX (readLoop cfgX 40 { sT ((layoutC cfgX wS apsT ([], [])).1.take 100) with crc := wS.crc }) []).2.2.2.1.evs.map (·.1)
    = [84, 56, 44] := by decide
-- iter_files_layout: three appends (the third rotates at chunk size 40) into an empty first file, one stop iteration
def aps2 : List Ap := [⟨[1, 2, 3], true, 5, 11, 12⟩, ⟨[4], false, 5, 11, 12⟩, ⟨[5, 6, 7, 8, 9, 10, 11, 12, 13], false, 6, 11, 12⟩]
def sysA : Sys := { sys0 with w := runAll cfgR sys0.w aps2 }
set_option maxRecDepth 60000 in
example : ((iter sysA false true).l.older.reverse ++ [(iter sysA false true).l.cur]).map (·.data.length) = [80, 36] := by decide

/-! shutdown window -/

example : CleanSynced sys0.l := fun _ => by decide
/-- the seeded variant (stopAccept only after the loop): the stop iteration does not set `stopped`; an append made right
    after it is acknowledged although nothing will ever take the buffer — the property fails for that variant -/
def iterNoStop (s : Sys) (t : Bool) : Sys := { iter s t true with w := { (iter s t true).w with stopped := s.w.stopped } }
set_option maxRecDepth 20000 in
example : (putLev cfgR (iterNoStop (run cfgR sys0 (opsT.take 4)) false).w 24 (encEvent 0x12345 [7]) false 5 0 0).2.1 = .ok ∧
          (putLev cfgR (iter (run cfgR sys0 (opsT.take 4)) false true).w 24 (encEvent 0x12345 [7]) false 5 0 0).2.1 = .stopped := by decide



/-! round 4: sessions, resume without meta, truncation through readAll -/

def w3 : WS := runAll cfgX wS (apsT.take 3)
def D3 : List Bytes := (splitC cfgX wS (apsT.take 3) (initCur cfgX syT tyT)).1
def c3 : Cur := (splitC cfgX wS (apsT.take 3) (initCur cfgX syT tyT)).2
/-- the writer rebuilt by a restart after the third append (position and checksum from the replay) -/
def wR : WS := wsInit cfgX true w3.offG w3.crc (hdrOf c3.bytes) 0
/-- first session: three appends (the third rotates); restart; second session: two appends into the second chunk -/
def filesR : List Bytes := D3 ++ allFiles cfgX wR (apsT.drop 3) c3.bytes

set_option maxRecDepth 60000 in
example : Sessions cfgX syT tyT ([] ++ D3) wR c3 :=
  .restart true (hdrOf c3.bytes) 0 (.append (apsT.take 3) (.start wS ⟨rfl, rfl⟩) (by decide))
set_option maxRecDepth 60000 in
example : (filesR.map (·.length), (offsR cfgX wR (apsT.drop 3)).map (·.1)) = ([156, 80], [192, 204]) := by decide
-- readAll_resume_sessions: resume at the restart position 192 without meta and with the meta of that commit
set_option maxRecDepth 60000 in
example : (readAll cfgX filesR 192 none 0 ⟨192, [], []⟩).eng.evs.map (·.1) = [204, 192] ∧
          (readAll cfgX filesR 192 (some ⟨192, wR.crc, 5⟩) 0 ⟨192, [], []⟩).eng.evs.map (·.1) = [204, 192] := by decide
-- readAll_truncated: the second chunk cut 20 bytes behind its header (the event at 192 is complete, the one at 204 is cut)
set_option maxRecDepth 60000 in
example : completeC cfgX wR (apsT.drop 3) 20 = 1 ∧
    (readAll cfgX (D3 ++ allFilesK cfgX wR [] c3.bytes ((layoutC cfgX wR (apsT.drop 3) ([], [])).1.take 20)) 192 none 0 ⟨192, [], []⟩).err = none ∧
    (readAll cfgX (D3 ++ allFilesK cfgX wR [] c3.bytes ((layoutC cfgX wR (apsT.drop 3) ([], [])).1.take 20)) 192 none 0
      ⟨192, [], []⟩).eng.evs.map (·.1) = [192] := by decide


/-! last round: older meta -/

-- readAll_resume_older_meta on the two-session instance: resume at 204 with the meta of the older commit at 192 (same chunk)
set_option maxRecDepth 60000 in
example : (readAll cfgX filesR 204 (some ⟨192, wR.crc, 5⟩) 0 ⟨204, [], []⟩).err = none ∧
          (readAll cfgX filesR 204 (some ⟨192, wR.crc, 5⟩) 0 ⟨204, [], []⟩).eng.evs.map (·.1) = [204] := by decide
-- the C18-r5-2 variant: position says 204 but the rest still starts with the 12 bytes of the event at 192, checksum is the old one
set_option maxRecDepth 60000 in
example : (seekBad cfgX (hdrOf (filesR.getLastD [])) 204 ⟨192, wR.crc, 5⟩).map (fun x => (x.1, x.2.2.length))
            = some (204, (filesR.getLastD []).length - 36) ∧
          (match seek cfgX (hdrOf (filesR.getLastD [])) 204 (some ⟨192, wR.crc, 5⟩) 0 with
           | .ok x => decide ((x.1, x.2.2.1.length) = (204, (filesR.getLastD []).length - 48)) | .error _ => false) = true := by decide


/-! very last round: a flipped byte -/

-- `ReachN` for the round-1 flipped stream: two steps to the crc record that rejects it (`(readLoop cfgT 7 (sT flipped)).err = some .crc` above)
set_option maxRecDepth 20000 in
example : ReachN cfgT 2 (sT flipped) sF2 := .step (s' := sF1) (by decide) (.step (s' := sF2) (by decide) (.refl _))

/-! durability order at rotation: the mutated variant -/

/-- the seeded mutation C18-r3-2 as a variant: after ROTATE_TO was written to the old chunk, the final Sync goes to the NEW fd -/
def rotateFSBad (l : LS) (rotTo rotFrom : Bytes) : LS :=
  let old := l.cur.sync
  let new : FileS := { data := rotFrom, synced := rotFrom.length }
  { l with cur := new.sync, older := (old.write rotTo) :: l.older }

def writeBufferBad (l : LS) (buff : Bytes) : Nat → List Nat → LS
  | prev, [] => { l with cur := l.cur.write (buff.drop prev) }
  | prev, pos :: ps =>
    let to := pos - levRotateSize
    let l1 := { l with cur := l.cur.write (slice buff prev to) }
    let l2 := rotateFSBad l1 (slice buff to pos) (slice buff pos (pos + levRotateSize))
    writeBufferBad l2 buff (pos + levRotateSize) ps

def iterBad (s : Sys) (timer stop : Bool) : Sys :=
  let ts := lastRotTs s.w.buff s.w.rotPos s.w.lastTs
  let l1 : LS := if s.w.buff.isEmpty then s.l else { writeBufferBad s.l s.w.buff 0 s.w.rotPos with dirty := true }
  { w := takeBuf s.w stop ts, l := if mustSync l1 s.w.asap timer stop s.w.offG then syncCommit l1 s.w ts else l1 }

def sysStepBad (cfg : Cfg) (s : Sys) : WOp → Sys
  | .put inOff body asap ts h1 h2 => { s with w := (putLev cfg s.w inOff body asap ts h1 h2).1 }
  | .iter t st => iterBad s t st

-- the schedule `opsT` (rotation at 80, commit 116): with the code's order every commit is covered in every file; with the
-- mutated order Commit(116) is announced while the 36 bytes of ROTATE_TO in the closed chunk (bytes 44..80) are not fsynced
set_option maxRecDepth 60000 in
example : ((run cfgR sys0 opsT).l.commits.map (fun c => Covered 0 (run cfgR sys0 opsT).l c.off)) = [true, true, true] := by decide
set_option maxRecDepth 60000 in
example : ((opsT.foldl (sysStepBad cfgR) sys0).l.commits.map (·.off)) = [116, 24, 12] ∧
    Covered 0 (opsT.foldl (sysStepBad cfgR) sys0).l 116 = false ∧
    (opsT.foldl (sysStepBad cfgR) sys0).l.older.map (fun f => (f.data.length, f.synced)) = [(80, 44)] := by decide


/-! ### defect fixed by fixes/C18-restart-first-chunk-hash.diff (sig=append-panic): witness on the old behaviour

  Before the fix WriteLoop left hashBuff2 empty after a restart (`restoreTail := false`).  MaxChunkSize 40000, the first
  session wrote 39664 bytes of the first chunk, the restarted writer appends a 400 byte event: the chunk is due for rotation,
  offsetLocal = 40072 >= 2*16384-36 but hashBuff2 holds only the 408 bytes appended since the restart, so
  `hashBuff2[len-(16384-36):]` panics.  With the fix (`restoreTail := true`, theorem `putLev_no_panic`) the same append is
  accepted. -/

def cfgP : Cfg := { cfgT with chunk := 40000, crcEvery := 65536 }
def hdr0 : Hdr := { pos := 0, crc := 0, ts := 0, curHash := 0, data := [] }

set_option maxRecDepth 20000 in
example : (putLev cfgP (wsInit cfgP false 39664 0 hdr0 0) 39664 (List.replicate 400 0) false 0 0 0).2.1 = .panic := by decide
set_option maxRecDepth 20000 in
example : (putLev cfgP (wsInit cfgP true 39664 0 hdr0 0) 39664 (List.replicate 400 0) false 0 0 0).2.1 = .ok := by decide
example : HashInv cfgP (wsInit cfgP true 39664 0 hdr0 0) := wsInit_hashInv _ _ _ _ _

/-! ### known finding (sig=truncated-file-header): the full truncation statement is FALSE for the current code

  Full statement (not provable): "for every binlog and every truncation point of its last file, `readAll` ends without error
  and delivers exactly the complete events".  Witness: first chunk = LevStart + one event + ROTATE_TO (nothing missing), second
  chunk = the first 10 bytes of its ROTATE_FROM (what a crash inside `binlogWriter.rotate` before the fsync of the new file can
  leave).  `ScanForFilesFromPos` refuses the directory, so not even the complete event of the first chunk is replayed; with the
  torn file removed the same event is delivered. -/

def chunk0 : Bytes :=
  le32 magicStart ++ le32 0 ++ le32 0 ++ le32 0 ++ le32 0 ++ le32 1 ++ padded (encEvent 0x12345 [1, 2, 3]) ++ encRotTo 5 72 0 1 2
def chunk1 : Bytes := encRotFrom 5 72 0 1 2
def eng0 : Eng := { off := 0, evs := [], commits := [] }

set_option maxRecDepth 20000 in
example : (readAll cfgT [chunk0, chunk1.take 10] 0 none 0 eng0).err = some .scan := by decide
set_option maxRecDepth 20000 in
example : (readAll cfgT [chunk0, chunk1.take 2] 0 none 0 eng0).err = some .scanPanic := by decide
set_option maxRecDepth 20000 in
example : (readAll cfgT [chunk0] 0 none 0 eng0).err = none ∧
          (readAll cfgT [chunk0] 0 none 0 eng0).eng.evs = [(24, encEvent 0x12345 [1, 2, 3])] := by decide
set_option maxRecDepth 20000 in
example : (readAll cfgT [chunk0, chunk1] 0 none 0 eng0).err = none ∧
          (readAll cfgT [chunk0, chunk1] 0 none 0 eng0).eng.evs = [(24, encEvent 0x12345 [1, 2, 3])] := by decide

/-! ### md5 chain: the Go reader does NOT verify PrevLogHash/CurLogHash (deepening target "a ROTATE_FROM whose prev-hash does not
  match is rejected" is false of the code; the property text does not ask for it).  Witness: the second chunk's ROTATE_FROM
  carries prev-hash 999 instead of the 1 announced by ROTATE_TO, replay is unchanged.  (The exhaustive bit-flip slice of the
  correspondence flips these header bytes on the real reader with the same result.) -/
set_option maxRecDepth 20000 in
example : (readAll cfgT [chunk0, encRotFrom 5 72 0 999 2] 0 none 0 eng0).err = none ∧
          (readAll cfgT [chunk0, encRotFrom 5 72 0 999 2] 0 none 0 eng0).eng.evs = [(24, encEvent 0x12345 [1, 2, 3])] := by decide

/-
  STILL NOT PROVED (covered by the correspondence + oracle of go/C18):
  * (closed in the last round: `restart_takes_replay_result` builds the restarted writer from the RESULT of readAll;
    `readAll_resume_older_meta` covers the meta of an older commit of the same chunk.)
  * `readAll_damaged_prefix_or_collision` carries the side condition `n + 1 ≤ fuel` (the loop's step budget reaches the crc
    record); that the budget `rest.length / 2 + 4` always suffices is not proved.
-/

end SH.C18
