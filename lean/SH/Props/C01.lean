/-
  SH.Props.C01 — accepted metric data is never silently lost between agent and storage.

  Property (properties.jsonl C01): an agent forgets a buffered second (in memory or on disk) only after an aggregator
  acknowledged it, and an aggregator acknowledges a second only after an insert containing that second's rows succeeded
  or after it deliberately rejected the second (outside the historic window, too far in the future, wrong shard,
  undecodable). Under any sequence of insert failures, lost responses, aggregator restarts and replica failover, every
  second that stays inside the historic window is eventually inserted at least once.

  Model: SH.Model.Delivery (tied to /repo by the op-by-op correspondence of bin/check C01; constants and decision-site
  facts regenerated into SH.Gen.C01). What is proved here, for ALL inputs of the modelled functions:
    * ack_after_insert_or_reject  — handler level (aggDecide) and inserter level (insertOne)
    * erase_after_ack             — agent level (agentContinue, the only place a sender gives a second up)
    * routing facts that make the two halves meet (a joined bucket is one this replica inserts; windows; pop order)
  The system-wide invariant `no_silent_loss` over arbitrary op lists is stated below as a comment; it is checked by the
  direct oracle on the real code and the model on every run, proved only in the per-component form (`_partial`).
-/
import SH.Model.Delivery
import SH.Lemmas.Delivery
import SH.Lemmas.DeliveryMain
import SH.Lemmas.DeliveryEraser
import SH.Lemmas.DeliveryLive

namespace SH.Props.C01
open SH.Delivery SH.Gen.C01

/-! ### generated decision-site facts the model relies on (a change in /repo fails these, not the theorems silently) -/

example : insertSetDiscardArgs = ["true", "sendErr == nil"] := rfl
example : tickerSetDiscardArgs = [] := rfl
example : recentLoopShape = "if s.sendRecent(cancelCtx, cbd, sendMoreBytes) {diskCacheEraseWithLog} else {diskCachePutWithLog;appendHistoricBucketsToSend}" := rfl
example : sendRecentFalseConds = ["cbd.time+data_model.MaxShortWindow+data_model.FutureWindow < nowUnix", "shardReplica == nil", "err != nil", "!respV3.IsSetDiscard()"] := rfl
example : sendRecentFinalReturn = "true" := rfl
example : sendHistoricRetryConds = ["shardReplica == nil", "err != nil", "!respV3.IsSetDiscard()"] := rfl
example : sendHistoricEraseAfterDiscardGuard = true := rfl
example : condSignalSites = ["flushBuckets", "appendHistoricBucketsToSend", "DisableNewSends"] := rfl

/-! ### aggregator handler: when does it answer `discard` at once -/

theorem roundUp_ge (t k : Nat) : t ≤ roundUp t k := by
  unfold roundUp
  split
  · omega
  · split <;> omega

theorem roundUp_le (t k : Nat) : roundUp t k ≤ t + 2 := by
  unfold roundUp
  split
  · omega
  · split <;> omega

/-- the rounded second belongs to replica k (k = replicaKey-1 < 3): the bucket it selects is one goTicker hands to this
replica's inserters (`aggBucket.time%3 == replicaKey-1`), never one it skips -/
theorem roundUp_mod (t k : Nat) (hk : k < 3) : roundUp t k % 3 = k := by
  unfold roundUp
  by_cases h1 : (t % 3 == k) = true
  · simp [h1]; simpa using h1
  · by_cases h2 : ((t + 1) % 3 == k) = true
    · simp [h1, h2]; simpa using h2
    · simp [h1, h2]
      have : t % 3 ≠ k := by simpa using h1
      have : (t + 1) % 3 ≠ k := by simpa using h2
      omega

/-- ack_after_insert_or_reject, handler half: an immediate `discard` answer is given only for a second whose replica
bucket lies beyond the newest recent bucket (too far in the future) or, for the historic conveyor, before
`oldest - historicWindow`. A late recent second is answered WITHOUT discard (the agent resends it as historic). -/
theorem aggDecide_discard_sound (historic : Bool) (t oldest newest w k : Nat) (why : Why)
    (h : aggDecide historic t oldest newest w k = .answer true why) :
    (why = .futureHistoric ∧ historic = true ∧ roundUp t k > newest) ∨
    (why = .futureRecent ∧ historic = false ∧ roundUp t k > newest) ∨
    (why = .beyondWindow ∧ historic = true ∧ w ≤ oldest ∧ roundUp t k < oldest - w) := by
  unfold aggDecide at h
  cases historic <;> simp only [Bool.false_eq_true, if_false, if_true] at h
  · by_cases h1 : roundUp t k > newest
    · simp [h1] at h; simp [h.symm, h1]
    · by_cases h2 : roundUp t k < oldest <;> simp [h1, h2] at h
  · by_cases h1 : roundUp t k > newest
    · simp [h1] at h; simp [h.symm, h1]
    · by_cases h2 : (decide (oldest ≥ w) && decide (roundUp t k < oldest - w)) = true
      · simp [h1, h2] at h
        simp only [Bool.and_eq_true, decide_eq_true_eq] at h2
        simp [h.symm, h2.1, h2.2]
      · by_cases h3 : roundUp t k < oldest <;> simp [h1, h2, h3] at h

/-- a second whose replica bucket is inside [oldest - w, newest] is never rejected: it is parked in a bucket -/
theorem aggDecide_inside_window_joins (t oldest newest w k : Nat)
    (hnew : roundUp t k ≤ newest) (hold : oldest ≤ roundUp t k + w) :
    aggDecide true t oldest newest w k = .joinHistoric ∨
    aggDecide true t oldest newest w k = .joinRecent (roundUp t k - oldest) := by
  unfold aggDecide
  have h1 : ¬ roundUp t k > newest := by omega
  have h2 : ¬ ((decide (oldest ≥ w) && decide (roundUp t k < oldest - w)) = true) := by
    simp only [Bool.and_eq_true, decide_eq_true_eq]; omega
  by_cases h3 : roundUp t k < oldest <;> simp [h1, h2, h3]

example : aggDecide true 100 103 111 50 1 = .joinHistoric := by decide
example : aggDecide true 105 103 111 50 1 = .joinRecent 3 := by decide

/-- the recent conveyor never answers `discard` for a late second, and a joined recent bucket is inside the window and
belongs to this replica -/
theorem aggDecide_join_recent_ours (historic : Bool) (t oldest newest w k i : Nat) (hk : k < 3)
    (h : aggDecide historic t oldest newest w k = .joinRecent i) :
    oldest + i ≤ newest ∧ (oldest + i) % 3 = k ∧ t ≤ oldest + i ∧ oldest + i ≤ t + 2 := by
  have hge := roundUp_ge t k
  have hle := roundUp_le t k
  have hmod := roundUp_mod t k hk
  unfold aggDecide at h
  cases historic <;> simp only [Bool.false_eq_true, if_false, if_true] at h
  · by_cases h1 : roundUp t k > newest
    · simp [h1] at h
    · by_cases h2 : roundUp t k < oldest
      · simp [h1, h2] at h
      · simp [h1, h2] at h
        have : oldest + i = roundUp t k := by omega
        rw [this]; omega
  · by_cases h1 : roundUp t k > newest
    · simp [h1] at h
    · by_cases h2 : (decide (oldest ≥ w) && decide (roundUp t k < oldest - w)) = true
      · simp [h1, h2] at h
      · by_cases h3 : roundUp t k < oldest
        · simp [h1, h2, h3] at h
        · simp [h1, h2, h3] at h
          have : oldest + i = roundUp t k := by omega
          rw [this]; omega

example : aggDecide false 105 103 111 50 1 = .joinRecent 3 := by decide

theorem aggDecide_late_recent_keeps (t oldest newest w k : Nat) (d : Bool) (why : Why)
    (hlate : roundUp t k < oldest) (hnew : oldest ≤ newest)
    (h : aggDecide false t oldest newest w k = .answer d why) : d = false ∧ why = .lateRecent := by
  unfold aggDecide at h
  have h1 : ¬ roundUp t k > newest := by omega
  simp [h1, hlate] at h
  exact ⟨h.1, h.2.symm⟩

example : aggDecide false 90 103 111 50 1 = .answer false .lateRecent := by decide

/-! ### inserter: `c.resp.SetDiscard(sendErr == nil)` -/

theorem mem_answersOf {b : Bucket} {d e : Bool} {why : Why} {r : Resp} (h : r ∈ answersOf b d e why) :
    r.discard = d ∧ r.err = e ∧ r.why = why ∧ (r.rid, r.sec) ∈ b.reqs := by
  unfold answersOf at h
  obtain ⟨q, hq, rfl⟩ := List.mem_map.mp h
  exact ⟨rfl, rfl, rfl, hq⟩

/-- ack_after_insert_or_reject, inserter half: every answer goInsert sends with `discard` belongs either to a stale
historic bucket (deliberate rejection: older than the historic window) or to a bucket whose rows are in the body of an
INSERT that succeeded; after a failed INSERT no answer carries discard. -/
theorem insertOne_discard_sound (b : Bucket) (historic : List Bucket) (oldest w : Nat) (ok : Bool) (r : Resp)
    (hr : r ∈ (insertOne b historic oldest w ok).resps) (hd : r.discard = true) :
    r.why = .stale ∨ (ok = true ∧ r.why = .inserted ∧ r.err = false) := by
  unfold insertOne at hr
  simp only [List.mem_append, List.mem_flatten, List.mem_map] at hr
  rcases hr with ⟨l, ⟨s, _, rfl⟩, hl⟩ | ⟨l, ⟨x, _, rfl⟩, hl⟩
  · exact Or.inl (mem_answersOf hl).2.2.1
  · have := mem_answersOf hl
    right
    cases ok <;> simp_all

/-- …and the stale ones really are older than the window (popOldestHistoricBucket's test) -/
theorem takeHistoric_stale_old (fuel : Nat) (h : List Bucket) (oldest w rc hc : Nat) (s : Bucket)
    (hs : s ∈ (takeHistoric fuel h oldest w rc hc).stale) : w ≤ oldest ∧ s.time < oldest - w := by
  induction fuel generalizing h hc with
  | zero => simp [takeHistoric] at hs
  | succ n ih =>
    unfold takeHistoric at hs
    dsimp only at hs
    have hst : ∀ x ∈ h.filter (isStale oldest w), w ≤ oldest ∧ x.time < oldest - w := by
      intro x hx
      have := (List.mem_filter.mp hx).2
      simpa [isStale] using this
    split at hs
    · exact hst s hs
    · split at hs
      · exact hst s hs
      · simp only [List.mem_append] at hs
        rcases hs with hs | hs
        · exact hst s hs
        · exact ih _ _ hs

/-- progress of one successful insert: every second merged into the ready bucket is in the INSERT body and every parked
contributor of it is answered with discard -/
theorem insertOne_ok_covers (b : Bucket) (historic : List Bucket) (oldest w : Nat) :
    (∀ s ∈ b.secs, s ∈ (insertOne b historic oldest w true).body) ∧
    (∀ q ∈ b.reqs, ∃ r ∈ (insertOne b historic oldest w true).resps, r.rid = q.1 ∧ r.sec = q.2 ∧ r.discard = true ∧ r.err = false) := by
  unfold insertOne
  constructor
  · intro s hs
    simp only [List.map_cons, List.flatten_cons, List.mem_append]
    exact Or.inl hs
  · intro q hq
    refine ⟨{ rid := q.1, sec := q.2, discard := true, err := false, why := .inserted }, ?_, rfl, rfl, rfl, rfl⟩
    simp only [List.map_cons, List.flatten_cons, List.mem_append]
    right; left
    unfold answersOf
    exact List.mem_map.mpr ⟨q, hq, by simp⟩

/-- a failed insert acknowledges nothing -/
theorem insertOne_fail_no_ack (b : Bucket) (historic : List Bucket) (oldest w : Nat) (r : Resp)
    (hr : r ∈ (insertOne b historic oldest w false).resps) (hd : r.discard = true) : r.why = .stale := by
  rcases insertOne_discard_sound b historic oldest w false r hr hd with h | h
  · exact h
  · simp at h

example : ((insertOne { time := 9, reqs := [(1, 9)], secs := [9], joined := 1 } [] 10 100 false).resps.map (·.discard)) = [false] := by decide
example : ((insertOne { time := 9, reqs := [(1, 9)], secs := [9], joined := 1 } [{ time := 5, reqs := [(2, 5)], secs := [5], joined := 1 }] 10 100 true).body) = [9, 5] := by decide

/-! ### agent: a sender gives a second up only after an acknowledgement -/

-- `heldSecs` (seconds the agent still holds: historic queue, blocked senders, live disk records) is SH.Delivery.heldSecs

theorem diskPut_sec (a : Agent) (c : Cbd) : (diskPut a c).2.sec = c.sec := by
  unfold diskPut; split <;> rfl

theorem diskPut_keeps (a : Agent) (c : Cbd) :
    (diskPut a c).1.dropped = a.dropped ∧ (diskPut a c).1.memSize = a.memSize ∧ (diskPut a c).1.hist = a.hist ∧
    (diskPut a c).1.flights = a.flights ∧ (diskPut a c).1.disk = a.disk := by
  unfold diskPut; split <;> simp

/-- the `else` branch of goSendRecent (disk put + historic queue) keeps the second or records a deliberate drop
(memory limit reached and nothing on disk) -/
theorem toHistoric_holds (a : Agent) (c : Cbd) :
    c.sec ∈ (toHistoric a c).hist.map (·.sec) ∨ c.sec ∈ (toHistoric a c).dropped := by
  unfold toHistoric appendHist
  have hs := diskPut_sec a c
  by_cases h1 : overflows (diskPut a c).1 (diskPut a c).2 = true
  · by_cases h2 : ((diskPut a c).2.id == 0) = true
    · right; simp [h1, h2, hs]
    · left; simp [h1, h2, hs]
  · left; simp [h1, hs]

/-- with a disk cache the memory limit never loses a second: it is dropped only from memory -/
theorem toHistoric_disk_holds (a : Agent) (c : Cbd) (hd : a.disk = true) (hok : a.diskOk = true) :
    c.sec ∈ (toHistoric a c).hist.map (·.sec) := by
  unfold toHistoric appendHist
  have hs := diskPut_sec a c
  have hid : ((diskPut a c).2.id == 0) = false := by
    unfold diskPut canPut
    by_cases h : (c.id == 0) = true <;> simp [hd, hok, h]
  by_cases h1 : overflows (diskPut a c).1 (diskPut a c).2 = true
  · simp [h1, hid, hs]
  · simp [h1, hs]

/-- erase_after_ack (the agent half of C01). Whatever SendSourceBucket3 returned — an error, or an answer without
`discard` — the sender does not give the second up: after the step it is in the historic queue, or in a new request
of the historic sender, or it was dropped for one of the two deliberate reasons (out of the historic window; memory
limit without disk cache). Hypotheses: the bucket data is available (in memory or on disk) and some replica is
believed alive (otherwise the real sender sleeps and retries, which the model does not step). -/
theorem agentContinue_keeps_unless_ack (s : State) (f : Flight) (err discard : Bool)
    (hnoack : (!err && discard) = false)
    (hdata : f.cbd.mem = true ∨ s.ag.disk = true)
    (hrep : ∀ a : Agent, a.live = (removeFlight s.ag f.rid).live → chooseReplica a f.cbd.sec ≠ none) :
    f.cbd.sec ∈ heldSecs (agentContinue s f err discard).1.ag ∨
    f.cbd.sec ∈ (agentContinue s f err discard).1.ag.dropped := by
  unfold agentContinue
  simp only [hnoack, Bool.false_eq_true, if_false]
  by_cases hh : f.historic = true
  · simp only [hh, if_true]
    unfold stepHistoricAttempt historicAttempt
    by_cases ho : outOfWindow (removeFlight s.ag f.rid).now f.cbd.sec (removeFlight s.ag f.rid).window = true
    · right; simp [ho]
    · have hdisk : (removeFlight s.ag f.rid).disk = s.ag.disk := rfl
      have hnd : (!f.cbd.mem && !(removeFlight s.ag f.rid).disk) = false := by
        rcases hdata with h | h <;> simp [h, hdisk]
      simp only [ho, hnd, Bool.false_eq_true, if_false]
      have := hrep (removeFlight s.ag f.rid) rfl
      cases hc : chooseReplica (removeFlight s.ag f.rid) f.cbd.sec with
      | none => exact absurd hc this
      | some p =>
        left
        simp [launch, heldSecs]
  · simp only [hh, Bool.false_eq_true, if_false]
    have key : ∀ a : Agent, f.cbd.sec ∈ heldSecs (toHistoric a f.cbd) ∨ f.cbd.sec ∈ (toHistoric a f.cbd).dropped := by
      intro a
      rcases toHistoric_holds a f.cbd with h | h
      · left; unfold heldSecs; simp only [List.mem_append]; exact Or.inl (Or.inl h)
      · exact Or.inr h
    exact key _

theorem historicAttempt_recs (a : Agent) (c : Cbd) (rid : Nat) (ho : outOfWindow a.now c.sec a.window = false) :
    (historicAttempt a c rid).1.recs = a.recs := by
  unfold historicAttempt
  simp only [ho, Bool.false_eq_true, if_false]
  split
  · rfl
  · split <;> rfl

theorem stepHistoricAttempt_recs (s : State) (a : Agent) (c : Cbd) :
    (stepHistoricAttempt s a c).1.ag.recs = (historicAttempt a c s.nextRid).1.recs := by
  unfold stepHistoricAttempt
  split <;> rename_i h <;> simp [launch, h]

theorem toHistoric_recs (a : Agent) (c : Cbd) (r : Rec) (hr : r ∈ a.recs) : r ∈ (toHistoric a c).recs := by
  unfold toHistoric appendHist diskPut
  by_cases hc : canPut a c = true <;> simp only [hc, if_true, Bool.false_eq_true, if_false] <;>
    (repeat' split) <;> simp [hr]

/-- and on the disk: without an acknowledgement the sender's step removes no record of the disk cache, except the
record of its own second when that second has left the historic window (checkOutOfWindow's deliberate erase) -/
theorem agentContinue_keeps_disk_records (s : State) (f : Flight) (err discard : Bool)
    (hnoack : (!err && discard) = false) (r : Rec) (hr : r ∈ s.ag.recs)
    (hne : r.id ≠ f.cbd.id ∨ outOfWindow s.ag.now f.cbd.sec s.ag.window = false ∨ f.historic = false) :
    r ∈ (agentContinue s f err discard).1.ag.recs := by
  unfold agentContinue
  simp only [hnoack, Bool.false_eq_true, if_false]
  have hrm : r ∈ (removeFlight s.ag f.rid).recs := hr
  by_cases hh : f.historic = true
  · rw [if_pos hh, stepHistoricAttempt_recs]
    by_cases ho : outOfWindow s.ag.now f.cbd.sec s.ag.window = true
    · have hid : r.id ≠ f.cbd.id := by
        rcases hne with h | h | h
        · exact h
        · rw [ho] at h; cases h
        · rw [hh] at h; cases h
      unfold historicAttempt
      have ho' : outOfWindow (removeFlight s.ag f.rid).now f.cbd.sec (removeFlight s.ag f.rid).window = true := ho
      simp only [ho', if_true]
      unfold diskErase
      split
      · exact hrm
      · simp only [List.mem_filter]
        exact ⟨hrm, by simpa using hid⟩
    · have ho2 : outOfWindow s.ag.now f.cbd.sec s.ag.window = false := by simpa using ho
      have ho' : outOfWindow (removeFlight s.ag f.rid).now f.cbd.sec (removeFlight s.ag f.rid).window = false := ho2
      rw [historicAttempt_recs _ _ _ ho']
      exact hrm
  · rw [if_neg hh]
    apply toHistoric_recs
    split
    · exact hrm
    · unfold recordSend; split <;> exact hrm

/-- the acknowledged case does erase (so the disk cache drains) -/
example :
    let s := init true true 100 1000 5 200
    let s1 := (step s (.recent 203)).1
    (s1.ag.recs.map (·.sec), ((agentContinue s1 ⟨1, ⟨203, 1, true⟩, false, 2, false⟩ false true).1.ag.recs.map (·.sec)),
     ((agentContinue s1 ⟨1, ⟨203, 1, true⟩, false, 2, false⟩ false false).1.ag.hist.map (·.sec))) = ([203], [], [203]) := by decide

/-! ### agent: the memory limit of the historic queue is accounted exactly -/

/-- bytes (units) of bucket data held by the queue -/
def memCount (l : List Cbd) : Nat := (l.map sz).sum

/-- historicBucketsDataSize equals what the queue really holds (plus the ballast input) -/
def memExact (a : Agent) : Prop := a.memSize = a.ballast + memCount a.hist

theorem memCount_append (l : List Cbd) (c : Cbd) : memCount (l ++ [c]) = memCount l + sz c := by
  simp [memCount]

/-- appendHistoricBucketsToSend keeps the counter exact: a second queued without its data adds nothing -/
theorem appendHist_exact (a : Agent) (c : Cbd) (h : memExact a) : memExact (appendHist a c) := by
  unfold memExact at *
  unfold appendHist
  by_cases h1 : overflows a c = true
  · by_cases h2 : (c.id == 0) = true
    · simp [h1, h2, h]
    · simp [h1, h2, h, memCount_append, sz]
  · simp [h1, h, memCount_append]; omega

/-- …hence a second is thrown away as "memory limit" only when the data really queued (plus ballast) plus its own size
exceeds the limit — the only memory drop the property allows -/
theorem appendHist_drop_legit (a : Agent) (c : Cbd) (h : memExact a)
    (hd : (appendHist a c).dropped ≠ a.dropped) : a.ballast + memCount a.hist + sz c > memLimit ∧ c.id = 0 := by
  unfold appendHist at hd
  by_cases h1 : overflows a c = true
  · by_cases h2 : (c.id == 0) = true
    · unfold overflows at h1
      unfold memExact at h
      constructor
      · have := of_decide_eq_true h1; omega
      · simpa using h2
    · simp [h1, h2] at hd
  · simp [h1] at hd

example : (appendHist { initAgent false false 0 0 with memSize := memLimit, ballast := memLimit } ⟨7, 0, true⟩).dropped = [7] := by decide
example : (appendHist { initAgent false false 0 0 with memSize := memLimit - dataSize 7, ballast := memLimit - dataSize 7 } ⟨7, 0, true⟩).dropped = [] := by decide

/-- the seeded variant (size added even when the data was dropped from memory) breaks exactness -/
example : ¬ memExact (let a := appendHist { initAgent true false 0 0 with memSize := memLimit, ballast := memLimit } ⟨7, 3, true⟩
                      { a with memSize := a.memSize + 1 }) := by
  unfold memExact; decide

/-! ### agent: wake-up discipline of the historic senders -/

open Wake in
/-- some consumer exists, and whenever the head of the queue can be popped one of them is runnable -/
def wakeInv (s : W) : Bool := decide (0 < s.awake + s.asleep) && (!poppable s || decide (0 < s.awake))

open Wake in
theorem signal_awake (s : W) (h : 0 < s.awake + s.asleep) : 0 < (signal s).awake ∧ 0 < (signal s).awake + (signal s).asleep := by
  unfold signal
  split
  · constructor <;> (dsimp only; omega)
  · constructor <;> omega

open Wake in
/-- with the signalling sites of the current code (flushBuckets on every new second, appendHistoricBucketsToSend on every
append) the invariant is preserved by every step, i.e. holds for every interleaving of clock, appends and consumers -/
theorem wake_step (s : W) (op : WOp) (h : wakeInv s = true) : wakeInv (step true s op) = true := by
  unfold wakeInv at h ⊢
  simp only [Bool.and_eq_true, decide_eq_true_eq, Bool.or_eq_true, Bool.not_eq_true'] at h ⊢
  obtain ⟨htot, hp⟩ := h
  cases op with
  | second =>
    have := signal_awake { s with clock := s.clock + 1 } htot
    simp only [Wake.step, if_true]
    exact ⟨this.2, Or.inr this.1⟩
  | append t =>
    have := signal_awake { s with hist := s.hist ++ [t] } htot
    simp only [Wake.step]
    exact ⟨this.2, Or.inr this.1⟩
  | consumer =>
    simp only [Wake.step]
    by_cases h0 : s.awake = 0
    · rw [if_pos h0]; exact ⟨htot, hp⟩
    · rw [if_neg h0]
      cases hm : minOf s.hist with
      | none => exact ⟨by dsimp only; omega, Or.inl (by simp [poppable, hm])⟩
      | some m =>
        simp only []
        by_cases hf : future s.clock m = true
        · simp only [hf, if_true]; exact ⟨by omega, Or.inl (by simp [poppable, hm, hf])⟩
        · simp only [hf, Bool.false_eq_true, if_false]; exact ⟨htot, Or.inr (by omega)⟩

open Wake in
theorem wake_invariant (s : W) (h : wakeInv s = true) (ops : List WOp) : wakeInv (run true s ops) = true := by
  induction ops generalizing s with
  | nil => exact h
  | cons o os ih => exact ih _ (wake_step s o h)

/-- the tie: the current source does signal from flushBuckets and appendHistoricBucketsToSend (regenerated fact) -/
theorem wake_sites_now : Wake.flushSignalsNow = true ∧ Wake.appendSignalsNow = true := by decide

open Wake in
/-- a second saved while still in the future (shutdown flush), read back after restart, both consumers asleep: -/
example : wakeInv ⟨10, [12], 0, 2⟩ = true := by decide
open Wake in
/-- without the signal in flushBuckets nobody re-checks once it stops being in the future: the invariant breaks -/
example : wakeInv (run false ⟨10, [12], 0, 2⟩ [.second, .second, .second]) = false := by decide
open Wake in
example : wakeInv (run true ⟨10, [12], 0, 2⟩ [.second, .second, .second]) = true := by decide

/-! ### agent: clocks and queue order -/

/-- checkOutOfWindow drops exactly the seconds older than now - window -/
theorem outOfWindow_iff (now t w : Nat) : outOfWindow now t w = true ↔ (w ≤ now ∧ t < now - w) := by
  unfold outOfWindow; simp; omega

/-- getShardReplicaForSecond never returns a replica believed dead, and the spare differs from the primary -/
theorem chooseReplica_alive (a : Agent) (t r : Nat) (sp : Bool) (h : chooseReplica a t = some (r, sp)) :
    isAlive a r = true ∧ r < 3 ∧ (sp = false → r = t % 3) ∧ (sp = true → r ≠ t % 3) := by
  unfold chooseReplica at h
  by_cases h1 : isAlive a (t % 3) = true
  · simp [h1] at h; obtain ⟨rfl, rfl⟩ := h; simp [h1]; omega
  · by_cases h2 : isAlive a ((t + 1 + t % 2) % 3) = true
    · simp [h1, h2] at h; obtain ⟨rfl, rfl⟩ := h; simp [h2]; omega
    · simp [h1, h2] at h

/-! ### the composed system: scenarios (non-vacuity of the whole pipeline, executed by the kernel) -/

/-- fault-free delivery of one second through the recent conveyor -/
example :
    let s := run (init true false 100 1000 3 200) [.recent 201, .recv 1, .tick 0 205 true, .resp 1]
    (s.inserted, heldSecs s.ag, s.resps.length) = ([201], [], 0) := by decide

/-- insert failure, then the answer is lost, then the aggregator restarts: the second stays held and is finally
inserted through the historic conveyor -/
example :
    let s := run (init true false 50 1000 3 200)
      [.recent 201, .recv 1, .tick 0 205 false, .resp 1, .pop 50, .recv 2, .tick 0 208 true, .drop 2,
       .down 0, .up 0 215, .recv 3, .tick 0 219 true, .tick 0 222 true, .resp 3]
    (s.inserted.contains 201, heldSecs s.ag) = (true, []) := by decide

/-- what the property forbids, shown on a variant the code does NOT have: if the inserter acknowledged after a failed
INSERT (`SetDiscard(true)`), the agent would erase a second that is in no INSERT -/
example :
    let s1 := run (init true false 100 1000 3 200) [.recent 201, .recv 1]
    let bad : Resp := { rid := 1, sec := 201, discard := true, err := false, why := .inserted }
    let s2 := run { s1 with resps := [bad] } [.resp 1]
    (s2.inserted, heldSecs s2.ag) = ([], []) := by decide

/-! ### the safety half of C01 for ALL operation sequences (invariant: SH.Lemmas.Delivery, `SInv`) -/

/-- the state reached from any initial configuration by any list of operations (sends, deliveries, insert failures,
lost answers, aggregator down/up, agent stop/crash, replica failover, clock jumps, memory and disk limits) -/
def reach (disk saveFirst : Bool) (agentNow window shortWindow aggNow : Nat) (ops : List Op) : State :=
  run (init disk saveFirst agentNow window shortWindow aggNow) ops

/-- **no_silent_loss** (C01, safety). After ANY sequence of operations, every second that was handed to the send path is
still held by the agent (historic queue, a blocked sender, or a live disk record), or is in the body of an INSERT that
succeeded, or was deliberately rejected by an aggregator (outside the window / too far in the future / stale), or is in
one of the agent's deliberate-drop sets (out of historic window, memory limit without disk copy; memory-only at process
death). Induction over the op list with the invariant `SInv` (request ids name one second; disk ids name one second and
are fresh; a descriptor with a disk id has its record unless its second is accounted for; a discard answer on the wire is
justified; parked contributors have their rows in the bucket). -/
theorem no_silent_loss (disk saveFirst : Bool) (agentNow window shortWindow aggNow : Nat) (ops : List Op) :
    ∀ t ∈ (reach disk saveFirst agentNow window shortWindow aggNow ops).flushed,
      t ∈ heldSecs (reach disk saveFirst agentNow window shortWindow aggNow ops).ag ∨
      t ∈ (reach disk saveFirst agentNow window shortWindow aggNow ops).inserted ∨
      t ∈ (reach disk saveFirst agentNow window shortWindow aggNow ops).rejected ∨
      t ∈ (reach disk saveFirst agentNow window shortWindow aggNow ops).ag.dropped ∨
      t ∈ (reach disk saveFirst agentNow window shortWindow aggNow ops).ag.lostMem := by
  intro t ht
  have h := (sinv_run (sinv_init disk saveFirst agentNow window shortWindow aggNow) ops).safe t ht
  simp only [safeX, heldX, accA, P, List.map_nil, List.not_mem_nil, false_or] at h
  rcases h with h | (h | h) | h | h
  · exact Or.inl h
  · exact Or.inr (Or.inl h)
  · exact Or.inr (Or.inr (Or.inl h))
  · exact Or.inr (Or.inr (Or.inr (Or.inl h)))
  · exact Or.inr (Or.inr (Or.inr (Or.inr h)))

/-- non-vacuity: a run with an insert failure, a lost answer and an aggregator restart; the theorem's disjuncts are
all exercised by the scenarios above (`decide` examples) -/
example : (reach true false 50 1000 3 200 [.recent 201, .recv 1, .tick 0 205 false, .resp 1]).flushed = [201] := by decide

/-- **ack_after_insert_or_reject**, trace level: at every point of every run, every answer on the wire that tells the
agent to discard (and is not an rpc error) carries a second that is ALREADY in the body of a successful INSERT or was
deliberately rejected. (An answer is on the wire from the step that produced it, so this is "every discard answer is
preceded by a successful insert containing the second or by an enumerated rejection".) -/
theorem ack_after_insert_or_reject (disk saveFirst : Bool) (agentNow window shortWindow aggNow : Nat) (ops : List Op) :
    ∀ a ∈ (reach disk saveFirst agentNow window shortWindow aggNow ops).resps, a.discard = true → a.err = false →
      a.sec ∈ (reach disk saveFirst agentNow window shortWindow aggNow ops).inserted ∨
      a.sec ∈ (reach disk saveFirst agentNow window shortWindow aggNow ops).rejected :=
  fun a ha hd he => (sinv_run (sinv_init disk saveFirst agentNow window shortWindow aggNow) ops).resp a ha hd he

example : ((reach true false 50 1000 3 200 [.recent 201, .recv 1, .tick 0 205 true]).resps.map (fun a => (a.sec, a.discard)),
           (reach true false 50 1000 3 200 [.recent 201, .recv 1, .tick 0 205 true]).inserted) = ([(201, true)], [201]) := by decide

/-- an answer names the second of the sender that waits for it: request ids are never reused for another second -/
theorem answer_matches_sender (disk saveFirst : Bool) (agentNow window shortWindow aggNow : Nat) (ops : List Op) :
    ∀ a ∈ (reach disk saveFirst agentNow window shortWindow aggNow ops).resps,
    ∀ f ∈ (reach disk saveFirst agentNow window shortWindow aggNow ops).ag.flights, a.rid = f.rid → a.sec = f.cbd.sec := by
  intro a ha f hf he
  have h := sinv_run (sinv_init disk saveFirst agentNow window shortWindow aggNow) ops
  exact h.ridFun (a.rid, a.sec) (by simp only [ridTags, List.mem_append, List.mem_map]; exact Or.inl (Or.inr ⟨a, ha, rfl⟩))
    (f.rid, f.cbd.sec) (by simp only [ridTags, List.mem_append, List.mem_map]; exact Or.inl (Or.inl (Or.inl ⟨f, hf, rfl⟩))) he

/-- **erase_after_ack**, trace level: in every run, if a flushed second is held before an operation and no longer held
after it, then after that operation it is in a successful INSERT, rejected by an aggregator, or in a deliberate-drop set —
the agent never forgets a second for any other reason, whatever the operation (lost answer, error, restart, …). Together
with `agentContinue_keeps_unless_ack` (a sender gives a second up only on an answer with discard) and
`ack_after_insert_or_reject` this is "an erase is preceded by a discard answer for that second or is a deliberate drop". -/
theorem erase_after_ack (disk saveFirst : Bool) (agentNow window shortWindow aggNow : Nat) (ops : List Op) (op : Op) (t : Nat)
    (hfl : t ∈ (reach disk saveFirst agentNow window shortWindow aggNow ops).flushed)
    (hgone : t ∉ heldSecs (step (reach disk saveFirst agentNow window shortWindow aggNow ops) op).1.ag) :
    t ∈ (step (reach disk saveFirst agentNow window shortWindow aggNow ops) op).1.inserted ∨
    t ∈ (step (reach disk saveFirst agentNow window shortWindow aggNow ops) op).1.rejected ∨
    t ∈ (step (reach disk saveFirst agentNow window shortWindow aggNow ops) op).1.ag.dropped ∨
    t ∈ (step (reach disk saveFirst agentNow window shortWindow aggNow ops) op).1.ag.lostMem := by
  have h := (sinv_step op (sinv_run (sinv_init disk saveFirst agentNow window shortWindow aggNow) ops)).safe t
    (flushed_step _ op t hfl)
  simp only [safeX, heldX, accA, P, List.map_nil, List.not_mem_nil, false_or] at h
  rcases h with h | (h | h) | h | h
  · exact absurd h hgone
  · exact Or.inl h
  · exact Or.inr (Or.inl h)
  · exact Or.inr (Or.inr (Or.inl h))
  · exact Or.inr (Or.inr (Or.inr h))

/-- non-vacuity: the acknowledged second leaves the agent at `resp` and is in storage -/
example :
    let s := reach true false 50 1000 3 200 [.recent 201, .recv 1, .tick 0 205 true]
    (s.flushed, heldSecs s.ag, heldSecs (step s (.resp 1)).1.ag, (step s (.resp 1)).1.inserted) = ([201], [201], [], [201]) := by decide

/-- **erase_after_ack, literal trace form.** In every run, for every operation other than a process restart, a disk record
of the agent that is gone after the operation was erased because THAT operation delivered an answer with discard (no rpc
error) to the sender blocked on the request that carried the record's second — or because the second left the agent's
historic window (deliberate drop, recorded in `dropped`). No other operation (lost answer, timeout, connection error, insert
failure, replica down/up, clock jump, memory or disk limit) erases anything. Uses the invariant: request id ↔ second
(`ridFun`) and disk id ↔ second (`cbdRec`). -/
theorem erase_trace (disk saveFirst : Bool) (agentNow window shortWindow aggNow : Nat) (ops : List Op) (op : Op)
    (hop : ∀ c, op ≠ .agentRestart c) (r : Rec)
    (hr : r ∈ (reach disk saveFirst agentNow window shortWindow aggNow ops).ag.recs) (hid : r.id ≠ 0) :
    r ∈ (step (reach disk saveFirst agentNow window shortWindow aggNow ops) op).1.ag.recs ∨
    AckDelivered (reach disk saveFirst agentNow window shortWindow aggNow ops) op r.sec ∨
    r.sec ∈ (step (reach disk saveFirst agentNow window shortWindow aggNow ops) op).1.ag.dropped :=
  erase_step (sinv_run (sinv_init disk saveFirst agentNow window shortWindow aggNow) ops) op hop hr hid

/-- … and a process restart (graceful or crash) erases nothing: every record is read back under a new id -/
theorem restart_erases_nothing (disk saveFirst : Bool) (agentNow window shortWindow aggNow : Nat) (ops : List Op) (crash : Bool)
    (r : Rec) (hr : r ∈ (reach disk saveFirst agentNow window shortWindow aggNow ops).ag.recs) :
    ∃ r' ∈ (step (reach disk saveFirst agentNow window shortWindow aggNow ops) (.agentRestart crash)).1.ag.recs, r'.sec = r.sec :=
  restart_keeps_records _ crash hr

/-- non-vacuity: the record of second 201 (id 1) is erased exactly by the delivery of the discard answer to request 1 -/
example :
    (reach true true 50 1000 3 200 [.recent 201, .recv 1, .tick 0 205 true]).ag.recs.map (fun r => (r.sec, r.id)) = [(201, 1)] ∧
    (step (reach true true 50 1000 3 200 [.recent 201, .recv 1, .tick 0 205 true]) (.resp 1)).1.ag.recs = [] ∧
    (reach true true 50 1000 3 200 [.recent 201, .recv 1, .tick 0 205 true]).resps.map (fun a => (a.rid, a.sec, a.discard)) = [(1, 201, true)] ∧
    (reach true true 50 1000 3 200 [.recent 201, .recv 1, .tick 0 205 true]).ag.flights.map (fun f => (f.rid, f.cbd.sec)) = [(1, 201)] := by
  decide

/-! ### every bucket the agent sends fits the aggregator's size limit -/

/-- the per-second sampling budget of sampleBucket: an explicit `--shard-sample-budget` override or the derived budget,
clamped to half of the aggregator's uncompressed-bucket limit — for every source iff `clampAll` -/
def sampleBudget (override : Option Nat) (derived limit : Nat) (clampAll : Bool) : Nat :=
  match override with
  | some b => if clampAll then min b (limit / 2) else b
  | none => min derived (limit / 2)

/-- with the clamp applied to every budget source the sampler is never allowed more than half of what the aggregator's
`compress.Decompress` accepts (an oversize bucket is answered "discard" and the agent would erase the second) -/
theorem sampleBudget_fits (override : Option Nat) (derived limit : Nat) : sampleBudget override derived limit true ≤ limit / 2 := by
  unfold sampleBudget; split
  · simp only [if_true]; exact Nat.min_le_right _ _
  · exact Nat.min_le_right _ _

/-- the current source clamps at the top level of sampleBucket's body, i.e. after both sources (regenerated fact) -/
theorem sampleBudget_clamp_now : sampleBudgetClampTopLevel = true := by decide

/-- the variant that clamps only the derived budget lets an override of 64 MiB through -/
example : ¬ (sampleBudget (some (64 * 2 ^ 20)) 0 maxUncompressedBucketSize false ≤ maxUncompressedBucketSize / 2) := by decide
example : sampleBudget (some (64 * 2 ^ 20)) 0 maxUncompressedBucketSize true = maxUncompressedBucketSize / 2 := by decide

/-! ### the delayed inserter: snapshot of oldestTime vs the window that moved on -/

/-- An inserter delayed between its `oldestTime` snapshot and its pop classes a historic bucket as stale (answers its
contributors "discard" without inserting) only if the bucket is older than the SNAPSHOT minus the historic window — in
particular never a bucket newer than the snapshot, which is what arrives when the window advanced meanwhile. -/
theorem delayed_inserter_stale_only_older (will : Bool) (b : Bucket) (h : List Bucket) (snap w : Nat) (ok : Bool) (a : Resp)
    (ha : a ∈ (insertOneW will b h snap w ok).resps) (hs : a.why = .stale) :
    ∃ x ∈ h, (a.rid, a.sec) ∈ x.reqs ∧ w ≤ snap ∧ x.time < snap - w ∧ x.time < snap := by
  obtain ⟨x, hx, hp, hw, ht⟩ := insertOneW_stale_older will b h snap w ok a ha hs
  exact ⟨x, hx, hp, hw, ht, by omega⟩

/-- the unsigned rewrite `oldestTime - v.time > historicWindow` (uint32) agrees with the test only for buckets not newer
than the snapshot: for one that is newer the subtraction wraps and the bucket is classed stale -/
def isStaleWrapped (snap w t : Nat) : Bool := decide ((snap + 2 ^ 32 - t) % 2 ^ 32 > w)
example : isStale 3000021 1000 { time := 3000024, reqs := [(7, 3000024)], secs := [3000024], joined := 1 } = false ∧
          isStaleWrapped 3000021 1000 3000024 = true := by decide
example : isStale 3000021 1000 { time := 2998000, reqs := [], secs := [], joined := 0 } = true ∧ isStaleWrapped 3000021 1000 2998000 = true := by decide

/-- the interleaving as an operation sequence of the model: second 207 sits in a sender's hands, replica 0 already holds a
historic bucket (198); its inserter takes the snapshot 201 at now1 = 204, the ticker fires again at now2 = 211 (window now
starts at 208), the historic request for 207 (> snapshot, < new oldest) arrives and is parked as a historic bucket; the
delayed inserter takes it along and INSERTS it — it is not classed stale -/
example :
    let s := run (init true false 50 1000 3 200) [.overflow 198, .pop 50, .recv 1, .overflow 207, .pop 50, .tickRace 0 204 211 2 true]
    (s.inserted.contains 207, s.rejected, s.resps.map (fun a => (a.sec, a.discard, a.why))) =
      (true, [], [(198, true, .inserted), (207, true, .inserted)]) := by decide

/-! ### the fail-safe eraser (goEraseHistoric) -/

example : eraserDiskUsedSource = "s.HistoricBucketsDataSizeDisk()" := rfl

/-- the eraser pass keeps the agent invariant and every second accounted for (a second it removes is recorded in `dropped`) -/
theorem eraser_keeps (Q : Nat → Prop) (a : Agent) (now : Nat) (over : Bool) (h : AInv Q a []) :
    AInv Q (eraserStep a now over) [] ∧ ∀ t, safeX Q a [] t → safeX Q (eraserStep a now over) [] t :=
  keeps_eraserStep now over h

/-- **eraser_drops_only_over_share.** If the shard is not over its own share, the eraser does not erase the second it
popped (unless it left the historic window): it hands it back to the historic queue exactly as a failed send does. -/
theorem eraser_drops_only_over_share (a a' : Agent) (c : Cbd) (now : Nat) (hp : pop a now = (a', some c))
    (hin : outOfWindow a'.now c.sec a'.window = false) : eraserStep a now false = appendHist a' c := by
  unfold eraserStep; simp [hp, hin]

/-- … and `over` is about THIS shard: three shards at 60% of a share each are not over their share, although together they
hold more than one share (what the variant that sums all shards compares) -/
example : overShare [60, 60, 60] 0 300 = false ∧ decide (([60, 60, 60] : List Nat).sum > 300 / 3) = true := by decide
example : overShare [60, 120, 60] 1 300 = true := by decide

/-- non-vacuity: an in-window second with a disk copy survives the pass of an eraser whose shard is under its share, and is
dropped (recorded) when the shard is over it -/
example :
    let a := toHistoric (initAgent true false 50 1000) ⟨150, 0, true⟩
    ((eraserStep a 10 false).hist.map (·.sec), (eraserStep a 10 false).recs.map (·.sec), (eraserStep a 10 true).recs.map (·.sec),
     (eraserStep a 10 true).dropped) = ([150], [150], [], [150]) := by decide

/-- the eraser pass is an operation of the composed system (`Op.erase now over`): `no_silent_loss`, `erase_after_ack` and
`erase_trace` range over it, with the disk-limit drop recorded in `dropped` as a deliberate loss -/
example :
    let s := reach true false 50 1000 3 200 [.overflow 150, .erase 10 false, .erase 10 true]
    (s.flushed, heldSecs s.ag, s.ag.dropped) = ([150], [], [150]) := by decide
example :
    let s := reach true false 50 1000 3 200 [.overflow 150, .erase 10 false]
    (heldSecs s.ag, s.ag.dropped) = ([150, 150], []) := by decide

/-! ### liveness, schedule-existence form -/

/-- **can_always_finish_partial.** From every reachable state in which a second is the (first) oldest entry of the agent's
historic queue, is inside the agent's historic window, its primary or spare replica is believed alive and is up, that
replica accepts it into its historic window (`aggDecide … = joinHistoric`, still valid 3 s later) and has no other
historic bucket waiting: the explicit fault-free schedule `finishOps s` — pop, deliver the request, let the replica's clock
reach `oldest + shortWindow + 3` — has length ≤ 3 and ends with the second in the body of a successful INSERT.
PARTIAL with respect to the full statement (kept below): other ways of being held (blocked sender, unread disk record,
not the oldest queue entry → iterate), a historic backlog at the replica (several inserter rounds), seconds still inside
the replica's RECENT window, and replicas that first have to come up are not covered. -/
theorem can_always_finish_partial (disk saveFirst : Bool) (agentNow window shortWindow aggNow : Nat) (ops : List Op)
    (c : Cbd) (r : Nat) (g : Agg) (b0 nb : Bucket)
    (hf : FinishReady (reach disk saveFirst agentNow window shortWindow aggNow ops) c r g b0 nb) :
    (finishOps (reach disk saveFirst agentNow window shortWindow aggNow ops)).length ≤ 3 ∧
    c.sec ∈ (run (reach disk saveFirst agentNow window shortWindow aggNow ops)
                 (finishOps (reach disk saveFirst agentNow window shortWindow aggNow ops))).inserted :=
  ⟨finishOps_length _, can_finish_oldest (sinv_run (sinv_init disk saveFirst agentNow window shortWindow aggNow) ops) hf⟩

/-- non-vacuity: second 150 went to the historic queue while the replicas' recent windows start at 197; the hypotheses hold
(`FinishReady`), the schedule is the 3-op list, and it inserts 150 -/
example : FinishReady (reach true false 50 1000 3 200 [.overflow 150]) ⟨150, 1, true⟩ 0
    { up := true, recent := (advance [] 200 3).2, historic := [] } (mkBucket 197) (mkBucket 203) :=
  { hist := ⟨[], by decide, by decide⟩, inAgent := by decide, data := Or.inl rfl, replica := ⟨false, by decide⟩, agg := by decide,
    up := rfl, noBacklog := rfl,
    window := ⟨mkBucket 198, mkBucket 199, mkBucket 200, [mkBucket 201, mkBucket 202, mkBucket 203], by decide, rfl, rfl, rfl, by decide⟩,
    accept := by decide, slack := by decide }

example :
    let s := reach true false 50 1000 3 200 [.overflow 150]
    (finishOps s, (run s (finishOps s)).inserted) = ([.pop 151, .recv 1, .tick 0 203 true], [150]) := by decide

/-
  FULL STATEMENT, still not proved:

  theorem can_always_finish (cfg) (ops : List Op) (s := reach cfg ops) (t) (ht : t ∈ heldSecs s.ag)
      (hw : insideWindows s t) : ∃ more : List Op, faultFree more ∧ more.length ≤ bound s ∧ t ∈ (run s more).inserted

  The general schedule (alive/up everything; recv every request; tick each replica past its window; resp every answer; pop
  until the queue is empty; repeat) is what the harness's `finish` phase executes on the real code after every generated
  case (oracle sig=not-delivered-after-recovery). Needed beyond `can_always_finish_partial`: a contiguity invariant of the
  recent window over all ops, a measure over the historic backlog (≤ 12 buckets per inserter round and the contributor-scale
  break), iteration of the pop step over older queue entries and unread disk records, and the resend path of blocked senders.
-/

end SH.Props.C01
