/-
  SH.Props.C28 — PromQL expressions print to text that parses back to the same expression.

  Property (properties.jsonl C28): "For every expression the parser accepts, printing it and parsing the printed text
  yields an equivalent syntax tree (same operators, operands, grouping, matchers, ranges, offsets and StatsHouse
  extensions), and the parser never panics on arbitrary input."

  Proved here, over the token-level model SH.Model.PromSyntax (printer = printer.go after fixes/C28-printer-roundtrip.diff,
  parser = precedence climbing over the tables regenerated from parse.y):

    parse_print          ∀ e, wf e → parse (printExpr .fixed e) = some (norm e)
                         (`wf` = the shapes the parser produces, `norm` only moves the matcher that repeats the metric
                         name to the end and drops its duplicates: normSel_* show name, modifiers and matcher SET are kept)
    old_printer_*        `decide` witnesses that the printer before the fix violates the property
    zero_range_unprintable   the remaining known finding (a 0-second range has no printable form)

  `printExpr` is a function of the tree, pure by construction. That the real String() is one as well — it never writes to the
  tree, not even transiently, so that concurrent printers of one cached tree agree — is a correspondence obligation
  discharged by the harness oracle (`printer-mutates-tree`, `print-not-reentrant`) and the race detector in the thorough tier.

  Not proved (checked by the correspondence on every generated case instead): that every tree `parse` returns is `wf`
  (the driver evaluates `wf` on each tree the model parser returns and the harness expects `wf 1` unless the tree holds
  a zero duration), the lexical round trip of numbers / strings / durations, and "never panics" (direct oracle only).
-/
import SH.Model.PromSyntax
import SH.Lemmas.PromSyntaxSound
import SH.Model.PromLex
import SH.Lemmas.PromLexNum
import SH.Lemmas.PromLexStr
import SH.Lemmas.PromLexAllSteps
import SH.Lemmas.PromLexChain
import SH.Lemmas.PromLexFrag
set_option linter.unusedSimpArgs false
namespace SH.Props.C28
open SH.PromSyntax

theorem sepBy_one (sep : Tok) (x : List Tok) : sepBy sep [x] = x := rfl
theorem sepBy_cons2 (sep : Tok) (x y : List Tok) (ys : List (List Tok)) :
    sepBy sep (x :: y :: ys) = x ++ sep :: sepBy sep (y :: ys) := rfl

theorem sepBy_cons_ne (sep : Tok) (x : List Tok) (l : List (List Tok)) (h : l ≠ []) :
    sepBy sep (x :: l) = x ++ sep :: sepBy sep l := by
  cases l with
  | nil => exact absurd rfl h
  | cons y ys => rfl

theorem parseOffList_print (l : List Int) (hl : l ≠ []) (h0 : ∀ x ∈ l, okSecs x.natAbs = true) (rest : List Tok) :
    parseOffList (sepBy .comma (l.map printDurS) ++ .rb :: rest) = some (l, rest) := by
  induction l with
  | nil => exact absurd rfl hl
  | cons x xs ih =>
    have hna : okSecs x.natAbs = true := h0 x (by simp)
    cases xs with
    | nil =>
      by_cases hneg : x < 0
      · have : (-(x.natAbs : Int)) = x := by omega
        simp [sepBy, printDurS, signToks, hneg, durTok, hna, parseOffList, this]
      · have : ((x.natAbs : Int)) = x := by omega
        simp [sepBy, printDurS, signToks, hneg, durTok, hna, parseOffList, this]
    | cons y ys =>
      have ih' := ih (by simp) (fun z hz => h0 z (by simp [hz]))
      rw [List.map_cons, List.map_cons, sepBy_cons2, ← List.map_cons]
      by_cases hneg : x < 0
      · have : (-(x.natAbs : Int)) = x := by omega
        simp only [printDurS, signToks, hneg, durTok, hna, if_true, if_false, List.append_assoc, List.cons_append, List.nil_append, parseOffList, ih', this]
      · have : ((x.natAbs : Int)) = x := by omega
        simp only [printDurS, signToks, hneg, durTok, hna, if_true, if_false, List.append_assoc, List.cons_append, List.nil_append, parseOffList, ih', this]

theorem parseLabelList_print (ls : List String) (hl : ls ≠ []) (h : ∀ l ∈ ls, okLabel l = true) (rest : List Tok) :
    parseLabelList (sepBy .comma (ls.map (fun l => [wordTok l])) ++ .rp :: rest) = some (ls, rest) := by
  induction ls with
  | nil => exact absurd rfl hl
  | cons x xs ih =>
    have hx : labelOfTok (wordTok x) = some x := by have := h x (by simp); simpa [okLabel] using this
    cases xs with
    | nil => simp only [List.map_cons, List.map_nil, sepBy_one, List.cons_append, List.nil_append, wordTok] at hx ⊢
             simp only [parseLabelList, hx]
    | cons y ys =>
      have ih' := ih (by simp) (fun z hz => h z (by simp [hz]))
      rw [List.map_cons, sepBy_cons_ne _ _ _ (by simp)]
      generalize hR : sepBy Tok.comma (List.map (fun l => [wordTok l]) (y :: ys)) ++ Tok.rp :: rest = R at ih'
      have hRw : ∃ R', R = wordTok y :: R' := by
        subst hR
        cases ys with
        | nil => exact ⟨_, rfl⟩
        | cons z zs => rw [List.map_cons, sepBy_cons_ne _ _ _ (by simp)]; exact ⟨_, rfl⟩
      obtain ⟨R', rfl⟩ := hRw
      simp only [List.cons_append, List.nil_append, List.append_assoc]
      rw [hR]
      simp only [wordTok] at hx ih' ⊢
      simp only [parseLabelList, hx, ih']

theorem parseLabels_print (ls : List String) (h : ∀ l ∈ ls, okLabel l = true) (rest : List Tok) :
    parseLabels (printLabels ls ++ rest) = some (ls, rest) := by
  cases ls with
  | nil => simp [printLabels, sepBy, parseLabels]
  | cons x xs =>
    have := parseLabelList_print (x :: xs) (by simp) h rest
    cases xs with
    | nil =>
      simp only [printLabels, List.map_cons, List.map_nil, sepBy_one, List.cons_append, List.nil_append, wordTok, List.append_assoc] at this ⊢
      simp only [parseLabels, this]
    | cons y ys =>
      simp only [printLabels]
      rw [List.map_cons, sepBy_cons_ne _ _ _ (by simp)] at this ⊢
      simp only [List.cons_append, List.nil_append, wordTok, List.append_assoc] at this ⊢
      simp only [parseLabels, this]

/-! matchers -/

theorem parseMatcher_print (m : Matcher) (R : List Tok) : parseMatcher (printMatcher m ++ R) = some (m, R) := by
  obtain ⟨n, ty, v⟩ := m
  cases ty <;> simp [printMatcher, matchTok, parseMatcher, mkMatcher, matchTyOfTok, MatchTy.isRegex]

theorem parseMatcherList_print (ms : List Matcher) (hl : ms ≠ []) (rest : List Tok) :
    ∀ f, ms.length ≤ f → parseMatcherList f (sepBy .comma (ms.map printMatcher) ++ .rk :: rest) = some (ms, rest) := by
  induction ms with
  | nil => exact absurd rfl hl
  | cons x xs ih =>
    intro f hf
    cases f with
    | zero => simp at hf
    | succ f =>
    cases xs with
    | nil =>
      simp only [List.map_cons, List.map_nil, sepBy_one, parseMatcherList, parseMatcher_print]
    | cons y ys =>
      have ih' := ih (by simp) f (by simp at hf ⊢; omega)
      rw [List.map_cons, sepBy_cons_ne _ _ _ (by simp)]
      generalize hR : sepBy Tok.comma (List.map printMatcher (y :: ys)) ++ Tok.rk :: rest = R at ih'
      have hRw : ∃ R', R = Tok.lname y.name :: R' := by
        subst hR
        cases ys with
        | nil => exact ⟨_, rfl⟩
        | cons z zs => rw [List.map_cons, sepBy_cons_ne _ _ _ (by simp)]; exact ⟨_, rfl⟩
      obtain ⟨R', rfl⟩ := hRw
      simp only [List.append_assoc, List.cons_append, List.nil_append]
      rw [hR]
      simp only [parseMatcherList, parseMatcher_print, ih']

/-! binary-operator modifiers -/

def kwText (name : String) : String :=
  match SH.Gen.C28.keywords.find? (fun e => e.2 == name) with | some (w, _) => w | none => name

theorem kwTok_eq (n : String) : kwTok n = .word (.kw n) (kwText n) := rfl

def modKws : List String := ["BOOL", "ON", "IGNORING", "GROUP_LEFT", "GROUP_RIGHT"]

/-- the token after a binary operator's modifiers (the first token of the right operand) is not itself a modifier keyword -/
def noModStart : List Tok → Bool
  | .word (.kw n) _ :: _ => !modKws.contains n
  | _ => true

theorem parseGroup_print (b on : Bool) (ls : List String) (m : BinMod) (hm : wfMod m = true) (rest : List Tok)
    (hr : noModStart rest = true) :
    parseGroup b on ls (printCard m ++ rest) = some (⟨b, m.card, on, ls, m.incl⟩, rest) := by
  obtain ⟨mb, card, mon, labels, incl⟩ := m
  simp only [wfMod, Bool.and_eq_true, decide_eq_true_eq, List.all_eq_true, Bool.or_eq_true, bne_iff_ne, ne_eq,
    List.isEmpty_iff] at hm
  obtain ⟨⟨⟨hc, hi⟩, _⟩, hincl⟩ := hm
  have hcases : card = 0 ∨ card = 1 ∨ card = 2 := by omega
  rcases hcases with rfl | rfl | rfl
  · have : incl = [] := by simpa using hi
    subst this
    cases rest with
    | nil => simp [printCard, parseGroup]
    | cons t ts =>
      cases t <;> simp [printCard, parseGroup]
      rename_i k txt
      cases k <;> simp [parseGroup]
      rename_i n
      simp [noModStart, modKws] at hr
      simp [hr]
  · simp only [printCard, kwTok_eq, if_true, List.cons_append, parseGroup]
    have h := parseLabels_print incl hincl rest
    simp only [printLabels, List.cons_append, List.append_assoc, List.nil_append] at h ⊢
    simp [h]
  · simp only [printCard, kwTok_eq, List.cons_append, parseGroup]
    have h := parseLabels_print incl hincl rest
    simp only [printLabels, List.cons_append, List.append_assoc, List.nil_append] at h ⊢
    simp [h]

theorem parseOn_print (b : Bool) (m : BinMod) (hm : wfMod m = true) (rest : List Tok) (hr : noModStart rest = true) :
    parseOn b ((if showMatching .fixed m then kwTok (if m.on then "ON" else "IGNORING") :: printLabels m.labels ++ printCard m else []) ++ rest)
      = some (⟨b, m.card, m.on, m.labels, m.incl⟩, rest) := by
  by_cases hs : showMatching .fixed m = true
  · have hm' := hm
    simp only [wfMod, Bool.and_eq_true, List.all_eq_true] at hm'
    have hl := parseLabels_print m.labels hm'.1.2 (printCard m ++ rest)
    have hg := parseGroup_print b m.on m.labels m hm rest hr
    simp only [hs, if_true, kwTok_eq, List.cons_append, List.append_assoc]
    cases hon : m.on <;> simp [parseOn, hl, hon] at hg ⊢ <;> exact hg
  · have hs' : showMatching .fixed m = false := by simpa using hs
    obtain ⟨mb, card, mon, labels, incl⟩ := m
    simp only [wfMod, Bool.and_eq_true, decide_eq_true_eq, List.all_eq_true, Bool.or_eq_true, bne_iff_ne, ne_eq,
      List.isEmpty_iff] at hm
    simp [showMatching] at hs'
    obtain ⟨⟨hl, hon⟩, hc1, hc2⟩ := hs'
    have hc : card = 0 := by omega
    subst hc hl hon
    have hi : incl = [] := by simpa using hm.1.1.2
    subst hi
    simp only [showMatching]
    cases rest with
    | nil => simp [parseOn]
    | cons t ts =>
      cases t <;> simp [parseOn]
      rename_i k txt
      cases k <;> simp [parseOn]
      rename_i n
      simp [noModStart, modKws] at hr
      simp [hr]

theorem parseMods_print (m : BinMod) (hm : wfMod m = true) (rest : List Tok) (hr : noModStart rest = true) :
    parseMods (printBinMod .fixed m ++ rest) = some (m, rest) := by
  have ho := parseOn_print m.bool m hm rest hr
  generalize hX : (if showMatching .fixed m then kwTok (if m.on then "ON" else "IGNORING") :: printLabels m.labels ++ printCard m else []) ++ rest = X at ho
  have hb : noModStart X = true ∨ ∃ t X', X = .word (.kw (if m.on then "ON" else "IGNORING")) t :: X' := by
    subst hX
    by_cases hs : showMatching .fixed m = true
    · right; simp only [hs, if_true, kwTok_eq, List.cons_append]; exact ⟨_, _, rfl⟩
    · left; simp [hs, hr]
  have hpb : parseBool X = (false, X) := by
    rcases hb with hb | ⟨t, X', rfl⟩
    · cases X with
      | nil => rfl
      | cons t ts =>
        cases t <;> try rfl
        rename_i k txt
        cases k <;> try rfl
        rename_i n
        simp [noModStart, modKws] at hb
        simp [parseBool, hb]
    · cases m.on <;> simp [parseBool]
  simp only [printBinMod, List.append_assoc, hX]
  have hmeq : (⟨m.bool, m.card, m.on, m.labels, m.incl⟩ : BinMod) = m := by cases m; rfl
  rw [hmeq] at ho
  cases hbo : m.bool
  · simp only [hbo] at ho
    simp [parseMods, hpb, ho]
  · simp only [hbo] at ho
    simp [parseMods, kwTok_eq, parseBool, ho]

/-! postfix modifiers -/

/-- `rest` can follow a complete expression: end of input, `)`, `,` or a binary operator -/
def inert : List Tok → Bool
  | [] => true
  | t :: _ => t == .rp || t == .comma || (binOpOfTok t).isSome

theorem wordOp_offset (n : String) (h : (wordOp? n).isSome = true) : n ≠ "OFFSET" ∧ isGroupingKw n = false := by
  constructor
  · intro hn; subst hn; revert h; decide
  · cases hg : isGroupingKw n with
    | false => rfl
    | true =>
      simp [isGroupingKw] at hg
      rcases hg with rfl | rfl <;> revert h <;> decide

theorem postfixStep_inert (e : Expr) (rest : List Tok) (h : inert rest = true) : postfixStep e rest = .done := by
  cases rest with
  | nil => rfl
  | cons t ts =>
    cases t <;> simp [inert, binOpOfTok] at h <;> try rfl
    rename_i k txt
    cases k <;> simp [binOpOfTok] at h <;> try rfl
    rename_i n
    have := (wordOp_offset n (by simpa using h)).1
    simp [postfixStep, this]

theorem post_done (e : Expr) (rest : List Tok) (h : inert rest = true) (G : Nat) :
    parsePostfix (G + 1) e rest = some (e, rest) := by
  simp [parsePostfix, postfixStep_inert e rest h]

theorem post_at (e e' : Expr) (a : AtMod) (ha : a ≠ .none) (h : setAt e a = some e') (G : Nat) (rest : List Tok) :
    parsePostfix (G + 1) e (printAt a ++ rest) = parsePostfix G e' rest := by
  cases a with
  | none => exact absurd rfl ha
  | ts n =>
    by_cases hneg : n < 0
    · have : (-(n.natAbs : Int)) = n := by omega
      simp [parsePostfix, printAt, signToks, hneg, postfixStep, this, h, stepOpt]
    · have : ((n.natAbs : Int)) = n := by omega
      simp [parsePostfix, printAt, signToks, hneg, postfixStep, this, h, stepOpt]
  | start => simp [parsePostfix, printAt, kwTok_eq, postfixStep, atOfKw, h, stepOpt]
  | stop => simp [parsePostfix, printAt, kwTok_eq, postfixStep, atOfKw, h, stepOpt]

theorem post_off (e e' : Expr) (o : Int) (ho : o ≠ 0) (hb : o.natAbs ≤ maxSecs) (h : addOffset e o = some e') (G : Nat)
    (rest : List Tok) :
    parsePostfix (G + 1) e (printOffset true o ++ rest) = parsePostfix G e' rest := by
  have hna : okSecs o.natAbs = true := by
    have : o.natAbs ≠ 0 := by omega
    simp [okSecs, this, hb]
  by_cases hneg : o < 0
  · have : (-(o.natAbs : Int)) = o := by omega
    simp [parsePostfix, printOffset, ho, kwTok_eq, printDurS, signToks, hneg, durTok, hna, postfixStep, this, h, stepOpt]
  · have : ((o.natAbs : Int)) = o := by omega
    simp [parsePostfix, printOffset, ho, kwTok_eq, printDurS, signToks, hneg, durTok, hna, postfixStep, this, h, stepOpt]

theorem post_offex (e e' : Expr) (l : List Int) (hl : l ≠ []) (h0 : ∀ x ∈ l, okSecs x.natAbs = true) (h : addOffsetList e l = some e')
    (G : Nat) (rest : List Tok) :
    parsePostfix (G + 1) e (printOffEx .fixed l ++ rest) = parsePostfix G e' rest := by
  have hp := parseOffList_print l hl h0 rest
  cases l with
  | nil => exact absurd rfl hl
  | cons x xs =>
    simp only [List.map_cons] at hp
    simp only [printOffEx, kwTok_eq, List.cons_append, List.append_assoc, List.nil_append, parsePostfix, postfixStep,
      List.map_cons]
    simp [hp, h, stepOpt]

theorem post_range (e e' : Expr) (r : Nat) (hr : okSecs r = true) (h : mkRange e r 0 = some e') (G : Nat) (rest : List Tok) :
    parsePostfix (G + 1) e (.lb :: durTok r :: .rb :: rest) = parsePostfix G e' rest := by
  simp [parsePostfix, postfixStep, durTok, hr, h, stepOpt]

theorem post_subrange (e e' : Expr) (r st : Nat) (hr : okSecs r = true) (hst : st ≤ 1) (h : mkRange e r st = some e')
    (G : Nat) (rest : List Tok) :
    parsePostfix (G + 1) e (.lb :: durTok r :: .colon :: ((if st = 0 then [] else [durTok st]) ++ .rb :: rest))
      = parsePostfix G e' rest := by
  have : st = 0 ∨ st = 1 := by omega
  have h1 : okSecs 1 = true := by decide
  rcases this with rfl | rfl <;> simp [parsePostfix, postfixStep, durTok, hr, h1, h, stepOpt]

/-! fuel -/

def kk : Expr → Nat
  | .bin _ _ l _ => kk l + 1
  | _ => 1

mutual
def need : Expr → Nat
  | .num _ => 3
  | .str _ => 3
  | .vec s => (shownMatchers .fixed s).length + 6
  | .mat s _ => (shownMatchers .fixed s).length + 7
  | .sub e _ _ _ _ => need e + 3
  | .par e => need e + kk e + 3
  | .un _ x => need x + kk x + 2
  | .bin _ _ l r => need l + need r + kk r + 2
  | .agg _ _ _ a => needArgs a + 3
  | .call _ a => needArgs a + 3
def needArgs : Args → Nat
  | .nil => 1
  | .cons e r => need e + kk e + needArgs r + 2
end

def headOp : List Tok → Option BinOp
  | t :: _ => binOpOfTok t
  | [] => none

/-- the operator that follows `e` (if any) leaves `e` intact -/
def rstop (e : Expr) (rest : List Tok) : Bool :=
  match headOp rest with
  | some o => stopsBefore e o.prec
  | none => true

/-! ## generic parser steps -/

theorem parseLoop_return (G p : Nat) (x : Expr) (rest : List Tok) (hi : inert rest = true)
    (hs : ∀ o, headOp rest = some o → o.prec < p) : parseLoop (G + 1) p x rest = some (x, rest) := by
  cases rest with
  | nil => simp [parseLoop]
  | cons t ts =>
    cases hb : binOpOfTok t with
    | none => simp [parseLoop, hb]
    | some o =>
      have := hs o (by simp [headOp, hb])
      simp [parseLoop, hb, this]

def notSign : List Tok → Bool
  | .sym .add :: _ => false
  | .sym .sub :: _ => false
  | _ => true

theorem parseExpr_atom (F p : Nat) (ts : List Tok) (h : notSign ts = true) :
    parseExpr (F + 1) p ts =
      match parseAtom F ts with
      | some (a, ts1) => (match parsePostfix F a ts1 with
        | some (a', ts2) => parseLoop F p a' ts2
        | none => none)
      | none => none := by
  cases ts with
  | nil => simp only [parseExpr] <;> rfl
  | cons t ts' =>
    cases t with
    | sym o => cases o <;> simp [notSign] at h <;> (simp only [parseExpr] <;> rfl)
    | _ => simp only [parseExpr] <;> rfl

/-- what may follow a metric name: not `(` (call / aggregation), not `{`, not `by`/`without` -/
def nameFollow : List Tok → Bool
  | .lp :: _ => false
  | .lk :: _ => false
  | .word (.kw n) _ :: _ => !isGroupingKw n
  | _ => true

theorem isMetricIdent_num (v : Option String) (a b : Option Int) : isMetricIdent (.num v a b) = false := by
  show SH.Gen.C28.metricIdentToks.contains "NUMBER" = false
  decide

theorem parseWord_sel (pa : List Tok → Option (Args × List Tok)) (F : Nat) (k : WKind) (t : String) (ts : List Tok)
    (hk : isMetricIdent k = true) (hlp : ∀ ts', ts ≠ .lp :: ts') (hag : startsAgg ts = false) :
    parseWordWith pa F k t ts = parseSelector F t ts := by
  cases k with
  | num v a b => simp [isMetricIdent_num] at hk
  | ident =>
    cases ts with
    | nil => simp [parseWordWith]
    | cons x xs => cases x <;> simp [parseWordWith] <;> exact absurd rfl (hlp xs)
  | mident => simp [parseWordWith]
  | kw n => simp [parseWordWith, hag, hk]

theorem startsAgg_of_nameFollow (R : List Tok) (h : nameFollow R = true) : startsAgg R = false ∧ (∀ ts', R ≠ .lp :: ts') ∧ (∀ ts', R ≠ .lk :: ts') := by
  cases R with
  | nil => simp [startsAgg]
  | cons t ts =>
    cases t <;> simp [nameFollow, startsAgg] at h ⊢
    rename_i k txt
    cases k <;> simp [nameFollow, startsAgg] at h ⊢
    exact h

theorem mkSel_shown (s : Sel) : mkSel s.name (shownMatchers .fixed s) =
    { normSel s with atm := .none, off := 0, offEx := [] } := by
  by_cases hn : s.name = "" <;> simp [mkSel, shownMatchers, normSel, hn]

theorem selHead_parse (s : Sel) (hok : okSel s = true) (F : Nat) (R : List Tok)
    (hF : (shownMatchers .fixed s).length + 1 ≤ F) (hR : nameFollow R = true) :
    parseAtom (F + 1) (printSelHead .fixed s ++ R) = some (.vec (mkSel s.name (shownMatchers .fixed s)), R) := by
  obtain ⟨hag, hlp, hlk⟩ := startsAgg_of_nameFollow R hR
  have hname : s.name = "" ∨ isMetricIdent (classifyKind s.name) = true := by
    exact ((SH.PromSyntax.Sound.okSel_iff s).mp hok).1
  cases hsh : shownMatchers .fixed s with
  | nil =>
    by_cases hn : s.name = ""
    · simp [printSelHead, hsh, hn, parseAtom, parseSelector, parseMatchers]
    · have hk := hname.resolve_left hn
      have hform : printSelHead .fixed s ++ R = Tok.word (classifyKind s.name) s.name :: R := by
        simp [printSelHead, hsh, hn, nameToks, wordTok]
      rw [hform]
      simp only [parseAtom]
      rw [parseWord_sel _ _ _ _ _ hk hlp hag]
      cases R with
      | nil => simp [parseSelector]
      | cons t ts => cases t <;> simp [parseSelector] <;> exact absurd rfl (hlk ts)
  | cons m ms =>
    rw [hsh] at hF
    have hml := parseMatcherList_print (m :: ms) (by simp) R F (by simp at hF ⊢; omega)
    have hhead : ∃ X, sepBy Tok.comma (List.map printMatcher (m :: ms)) ++ Tok.rk :: R = Tok.lname m.name :: X := by
      cases ms with
      | nil => exact ⟨_, rfl⟩
      | cons z zs => rw [List.map_cons, sepBy_cons_ne _ _ _ (by simp)]; exact ⟨_, rfl⟩
    obtain ⟨X, hX⟩ := hhead
    have hpm : parseMatchers F (sepBy Tok.comma (List.map printMatcher (m :: ms)) ++ Tok.rk :: R) = some (m :: ms, R) := by
      rw [hX] at hml ⊢
      simpa [parseMatchers] using hml
    by_cases hn : s.name = ""
    · have hform : printSelHead .fixed s ++ R = Tok.lk ::
          (sepBy Tok.comma (List.map printMatcher (m :: ms)) ++ Tok.rk :: R) := by
        simp [printSelHead, hsh, hn, nameToks]
      rw [hform]
      simp only [parseAtom, parseSelector]
      rw [hpm, hn]
    · have hk := hname.resolve_left hn
      have hform : printSelHead .fixed s ++ R = Tok.word (classifyKind s.name) s.name :: Tok.lk ::
          (sepBy Tok.comma (List.map printMatcher (m :: ms)) ++ Tok.rk :: R) := by
        simp [printSelHead, hsh, hn, nameToks, wordTok]
      rw [hform]
      simp only [parseAtom]
      rw [parseWord_sel _ _ _ _ _ hk (by simp) (by simp [startsAgg])]
      simp only [parseSelector]
      rw [hpm]

/-! optional modifiers, each costs one unit of postfix fuel when present -/

def atJ (a : AtMod) : Nat := if a = .none then 0 else 1
def exJ (l : List Int) : Nat := if l = [] then 0 else 1
def offJ (o : Int) : Nat := if o = 0 then 0 else 1

theorem post_at_opt (e e' : Expr) (a : AtMod) (h : if a = .none then e' = e else setAt e a = some e')
    (G : Nat) (rest : List Tok) :
    parsePostfix (G + atJ a) e (printAt a ++ rest) = parsePostfix G e' rest := by
  by_cases ha : a = .none
  · subst ha; simp at h; subst h; simp [atJ, printAt]
  · simp only [ha, if_false] at h
    simp only [atJ, ha, if_false]
    exact post_at e e' a ha h G rest

theorem post_offex_opt (e e' : Expr) (l : List Int) (h0 : ∀ x ∈ l, okSecs x.natAbs = true)
    (h : if l = [] then e' = e else addOffsetList e l = some e') (G : Nat) (rest : List Tok) :
    parsePostfix (G + exJ l) e (printOffEx .fixed l ++ rest) = parsePostfix G e' rest := by
  by_cases hl : l = []
  · subst hl; simp at h; subst h; simp [exJ, printOffEx]
  · simp only [hl, if_false] at h
    simp only [exJ, hl, if_false]
    exact post_offex e e' l hl h0 h G rest

theorem post_off_opt (e e' : Expr) (o : Int) (hb : o.natAbs ≤ maxSecs) (h : if o = 0 then e' = e else addOffset e o = some e')
    (G : Nat) (rest : List Tok) :
    parsePostfix (G + offJ o) e (printOffset true o ++ rest) = parsePostfix G e' rest := by
  by_cases ho : o = 0
  · subst ho; simp at h; subst h; simp [offJ, printOffset]
  · simp only [ho, if_false] at h
    simp only [offJ, ho, if_false]
    exact post_off e e' o ho hb h G rest

def selPost (s : Sel) : List Tok := printAt s.atm ++ printOffEx .fixed s.offEx ++ printOffset true s.off
def selJ (s : Sel) : Nat := atJ s.atm + exJ s.offEx + offJ s.off

theorem okSel_offEx (s : Sel) (h : okSel s = true) : ∀ x ∈ s.offEx, okSecs x.natAbs = true :=
  ((SH.PromSyntax.Sound.okSel_iff s).mp h).2.1

theorem okSel_off (s : Sel) (h : okSel s = true) : s.off.natAbs ≤ maxSecs :=
  ((SH.PromSyntax.Sound.okSel_iff s).mp h).2.2

theorem okSel_name (s : Sel) (h : okSel s = true) : s.name = "" ∨ isMetricIdent (classifyKind s.name) = true :=
  ((SH.PromSyntax.Sound.okSel_iff s).mp h).1

/-- the modifiers of a vector selector, applied to the bare selector the head parses to -/
theorem selPost_vec (s : Sel) (hok : okSel s = true) (G : Nat) (rest : List Tok) :
    parsePostfix (G + selJ s) (.vec (mkSel s.name (shownMatchers .fixed s))) (selPost s ++ rest)
      = parsePostfix G (.vec (normSel s)) rest := by
  rw [mkSel_shown]
  generalize hn : normSel s = ns
  have hat : ns.atm = s.atm := by subst hn; by_cases h : s.name = "" <;> simp [normSel, h]
  have hoff : ns.off = s.off := by subst hn; by_cases h : s.name = "" <;> simp [normSel, h]
  have hex : ns.offEx = s.offEx := by subst hn; by_cases h : s.name = "" <;> simp [normSel, h]
  simp only [selPost, selJ, List.append_assoc]
  rw [show G + (atJ s.atm + exJ s.offEx + offJ s.off) = (G + offJ s.off + exJ s.offEx) + atJ s.atm by omega]
  rw [post_at_opt _ (.vec { ns with atm := s.atm, off := 0, offEx := [] }) s.atm
      (by by_cases h : s.atm = .none <;> simp [h, setAt])]
  rw [post_offex_opt _ (.vec { ns with atm := s.atm, off := 0, offEx := s.offEx }) s.offEx (okSel_offEx s hok)
      (by by_cases h : s.offEx = [] <;> simp [h, addOffsetList])]
  rw [post_off_opt _ (.vec { ns with atm := s.atm, off := s.off, offEx := s.offEx }) s.off (okSel_off s hok)
      (by by_cases h : s.off = 0 <;> simp [h, addOffset])]
  rw [← hat, ← hoff, ← hex]

theorem selPost_mat (s : Sel) (r : Nat) (hok : okSel s = true) (hr : okSecs r = true) (G : Nat) (rest : List Tok) :
    parsePostfix (G + selJ s + 1) (.vec (mkSel s.name (shownMatchers .fixed s)))
        (.lb :: durTok r :: .rb :: (selPost s ++ rest))
      = parsePostfix G (.mat (normSel s) r) rest := by
  rw [mkSel_shown]
  generalize hn : normSel s = ns
  have hat : ns.atm = s.atm := by subst hn; by_cases h : s.name = "" <;> simp [normSel, h]
  have hoff : ns.off = s.off := by subst hn; by_cases h : s.name = "" <;> simp [normSel, h]
  have hex : ns.offEx = s.offEx := by subst hn; by_cases h : s.name = "" <;> simp [normSel, h]
  rw [post_range _ (.mat { ns with atm := .none, off := 0, offEx := [] } r) r hr (by simp [mkRange, AtMod.isTs])]
  simp only [selPost, selJ, List.append_assoc]
  rw [show G + (atJ s.atm + exJ s.offEx + offJ s.off) = (G + offJ s.off + exJ s.offEx) + atJ s.atm by omega]
  rw [post_at_opt _ (.mat { ns with atm := s.atm, off := 0, offEx := [] } r) s.atm
      (by by_cases h : s.atm = .none <;> simp [h, setAt])]
  rw [post_offex_opt _ (.mat { ns with atm := s.atm, off := 0, offEx := s.offEx } r) s.offEx (okSel_offEx s hok)
      (by by_cases h : s.offEx = [] <;> simp [h, addOffsetList])]
  rw [post_off_opt _ (.mat { ns with atm := s.atm, off := s.off, offEx := s.offEx } r) s.off (okSel_off s hok)
      (by by_cases h : s.off = 0 <;> simp [h, addOffset])]
  rw [← hat, ← hoff, ← hex]

/-! what the printed text of a tree starts with -/

def startOk (sign : Bool) : List Tok → Bool
  | .word (.kw n) _ :: _ => !modKws.contains n
  | .word _ _ :: _ => true
  | .str _ _ _ :: _ => true
  | .lp :: _ => true
  | .lk :: _ => true
  | .sym .add :: _ => sign
  | .sym .sub :: _ => sign
  | _ => false

theorem metricIdent_not_mod (n : String) (h : isMetricIdent (.kw n) = true) : modKws.contains n = false := by
  cases hc : modKws.contains n with
  | false => rfl
  | true =>
    simp [modKws] at hc
    rcases hc with rfl | rfl | rfl | rfl | rfl <;> revert h <;> decide

theorem aggOp_not_mod (n : String) (h : isAggOp n = true) : modKws.contains n = false := by
  cases hc : modKws.contains n with
  | false => rfl
  | true =>
    simp [modKws] at hc
    rcases hc with rfl | rfl | rfl | rfl | rfl <;> revert h <;> decide

theorem startOk_word (sign : Bool) (k : WKind) (t : String) (R : List Tok)
    (h : ∀ n, k = .kw n → modKws.contains n = false) : startOk sign (.word k t :: R) = true := by
  cases k with
  | kw n => have := h n rfl; simp only [startOk, this]; rfl
  | _ => simp [startOk]

theorem startOk_selHead (sign : Bool) (s : Sel) (hok : okSel s = true) (R : List Tok) :
    startOk sign (printSelHead .fixed s ++ R) = true := by
  have hname : s.name = "" ∨ isMetricIdent (classifyKind s.name) = true := by
    exact ((SH.PromSyntax.Sound.okSel_iff s).mp hok).1
  by_cases hn : s.name = ""
  · cases hsh : shownMatchers .fixed s <;> simp [printSelHead, hsh, hn, nameToks, startOk]
  · have hk := hname.resolve_left hn
    have : ∃ X, printSelHead .fixed s ++ R = Tok.word (classifyKind s.name) s.name :: X := by
      cases hsh : shownMatchers .fixed s <;> simp [printSelHead, hsh, hn, nameToks, wordTok]
    obtain ⟨X, hX⟩ := this
    rw [hX]
    apply startOk_word
    intro n hkn
    rw [hkn] at hk
    exact metricIdent_not_mod n hk

theorem printSel_eq (s : Sel) : printSel .fixed s = printSelHead .fixed s ++ selPost s := by
  simp [printSel, selPost]

theorem printMat_eq (s : Sel) (r : Nat) : printMat .fixed s r = printSelHead .fixed s ++ .lb :: durTok r :: .rb :: selPost s := by
  simp [printMat, selPost]

/-- operands (sign = false) and all well-formed trees (sign = true) start with a token that begins an expression and
    is not a modifier keyword -/
theorem startOk_print (e : Expr) (hwf : wf e = true) (sign : Bool) (hs : sign = true ∨ isOperand e = true ∨ isVec e = true)
    (R : List Tok) : startOk sign (printExpr .fixed e ++ R) = true := by
  match e with
  | .num n =>
    cases hneg : n.neg
    · simp [printExpr, printNum, hneg, numTok, startOk]
    · rcases hs with rfl | h | h
      · simp [printExpr, printNum, hneg, startOk]
      · simp [isOperand, hneg] at h
      · simp [isVec] at h
  | .str v => simp [printExpr, startOk]
  | .vec s => simp only [printExpr, printSel_eq, List.append_assoc]; exact startOk_selHead _ s (by simpa [wf] using hwf) _
  | .mat s r =>
    simp only [printExpr, printMat_eq, List.append_assoc]
    exact startOk_selHead _ s (by simp [wf] at hwf; exact hwf.1) _
  | .sub x r st a o =>
    simp only [printExpr, List.append_assoc]
    simp [wf] at hwf
    exact startOk_print x hwf.1.1.1.1 sign (Or.inr (Or.inl hwf.1.1.1.2)) _
  | .par x => simp [printExpr, startOk]
  | .un n x =>
    rcases hs with rfl | h | h
    · cases n <;> simp [printExpr, startOk]
    · simp [isOperand] at h
    · simp [isVec] at h
  | .bin o m l r =>
    rcases hs with rfl | h | h
    · simp only [printExpr, List.append_assoc]
      simp [wf] at hwf
      exact startOk_print l hwf.1.1.1.1.1 true (Or.inl rfl) _
    · simp [isOperand] at h
    · simp [isVec] at h
  | .agg op wo g a =>
    simp [wf] at hwf
    simp only [printExpr, kwTok_eq, List.cons_append]
    exact startOk_word _ _ _ _ (fun n hn => by cases hn; exact aggOp_not_mod _ hwf.1.1.1)
  | .call f a =>
    simp [wf] at hwf
    simp only [printExpr, wordTok, List.cons_append, hwf.1.2]
    simp [startOk]

theorem noModStart_of_startOk (sign : Bool) (ts : List Tok) (h : startOk sign ts = true) : noModStart ts = true := by
  cases ts with
  | nil => rfl
  | cons t ts =>
    cases t <;> try rfl
    rename_i k txt
    cases k <;> try rfl
    simpa [startOk, noModStart] using h

theorem notSign_of_startOk (ts : List Tok) (h : startOk false ts = true) : notSign ts = true := by
  cases ts with
  | nil => rfl
  | cons t ts =>
    cases t <;> try rfl
    rename_i o
    cases o <;> simp [startOk] at h <;> rfl

theorem not_rp_of_startOk (sign : Bool) (ts : List Tok) (h : startOk sign ts = true) : ∀ X, ts ≠ .rp :: X := by
  intro X hX; subst hX; simp [startOk] at h

/-! ## the main induction -/

/-- operand followed by its postfix modifiers, as `parseExpr` runs them -/
def atomPost (F : Nat) (ts : List Tok) : Option (Expr × List Tok) :=
  match parseAtom F ts with
  | some (a, ts1) => parsePostfix F a ts1
  | none => none

theorem parseExpr_neg (F p : Nat) (ts1 : List Tok) :
    parseExpr (F + 1) p (.sym .sub :: ts1) = match parseExpr F unaryOperandPrec ts1 with
      | some (x, ts2) => parseLoop F p (mkUnary true x) ts2
      | none => none := by
  first | rfl | (simp only [parseExpr]; rfl)

theorem parseExpr_pos (F p : Nat) (ts1 : List Tok) :
    parseExpr (F + 1) p (.sym .add :: ts1) = match parseExpr F unaryOperandPrec ts1 with
      | some (x, ts2) => parseLoop F p (mkUnary false x) ts2
      | none => none := by
  first | rfl | (simp only [parseExpr]; rfl)

theorem printArgs_cons2 (v : Variant) (e e' : Expr) (r' : Args) :
    printArgs v (.cons e (.cons e' r')) = printExpr v e ++ .comma :: printArgs v (.cons e' r') := by
  simp only [printArgs]

theorem parseExpr_atomPost (F p : Nat) (ts : List Tok) (h : notSign ts = true) :
    parseExpr (F + 1) p ts = match atomPost F ts with
      | some (a', ts2) => parseLoop F p a' ts2
      | none => none := by
  rw [parseExpr_atom F p ts h]
  unfold atomPost
  cases parseAtom F ts with
  | none => rfl
  | some r => rfl

/-- number of postfix modifiers printed after the operand's head -/
def jc : Expr → Nat
  | .vec s => selJ s
  | .mat s _ => selJ s + 1
  | .sub x _ _ a o => jc x + 1 + atJ a + offJ o
  | _ => 0

/-- what may follow an operand: the tokens after a complete expression, or the `[` of a subquery range -/
def postOk (R : List Tok) : Prop := inert R = true ∨ ∃ R', R = .lb :: R'

theorem inert_nameFollow (R : List Tok) (h : inert R = true) : nameFollow R = true := by
  cases R with
  | nil => rfl
  | cons t ts =>
    cases t <;> simp [inert, binOpOfTok] at h <;> try rfl
    rename_i k txt
    cases k <;> simp [binOpOfTok] at h <;> try rfl
    rename_i n
    simp [nameFollow, (wordOp_offset n (by simpa using h)).2]

theorem postOk_nameFollow (R : List Tok) (h : postOk R) : nameFollow R = true := by
  rcases h with h | ⟨R', rfl⟩
  · exact inert_nameFollow R h
  · rfl

theorem nameFollow_selPost (s : Sel) (R : List Tok) (h : inert R = true) : nameFollow (selPost s ++ R) = true := by
  unfold selPost
  by_cases ha : s.atm = .none
  · by_cases hx : s.offEx = []
    · by_cases ho : s.off = 0
      · simp [ha, hx, ho, printAt, printOffEx, printOffset, inert_nameFollow R h]
      · simp [ha, hx, ho, printAt, printOffEx, printOffset, kwTok_eq, nameFollow, isGroupingKw]
    · cases hl : s.offEx with
      | nil => exact absurd hl hx
      | cons x xs => simp [ha, printAt, printOffEx, kwTok_eq, nameFollow, isGroupingKw]
  · cases hat : s.atm with
    | none => exact absurd hat ha
    | ts n => simp [printAt, nameFollow]
    | start => simp [printAt, nameFollow]
    | stop => simp [printAt, nameFollow]

theorem aggSuffix_none (op : String) (args : Args) (R : List Tok) (h : postOk R) :
    parseAggSuffix op args R = mkAgg op false [] args R := by
  have := postOk_nameFollow R h
  cases R with
  | nil => rfl
  | cons t ts =>
    cases t <;> try rfl
    rename_i k txt
    cases k <;> try rfl
    rename_i n
    simp [nameFollow] at this
    simp [parseAggSuffix, this]

theorem normArgs_length : (a : Args) → (normArgs a).length = a.length
  | .nil => rfl
  | .cons _ r => by simp [normArgs, Args.length, normArgs_length r]

theorem mkRange_operand (x : Expr) (h : isOperand x = true) (r st : Nat) :
    mkRange (norm x) r st = some (.sub (norm x) r st .none 0) := by
  cases x <;> simp [isOperand] at h <;> simp [norm, mkRange]

theorem fitsAt_mono (p q : Nat) (e : Expr) (h : fitsAt q e = true) (hpq : p ≤ q) : fitsAt p e = true := by
  cases e <;> simp [fitsAt] at h ⊢
  omega

theorem fitsAt_zero (e : Expr) : fitsAt 0 e = true := by
  cases e <;> simp [fitsAt]

theorem binOpOfTok_opTok (o : BinOp) : binOpOfTok (opTok o) = some o := by
  cases o <;> decide

theorem parseArgsWith_of (pa : List Tok → Option (Args × List Tok)) (a : Args) (hwf : wfArgs a = true) (R : List Tok)
    (h : a ≠ .nil → pa (printArgs .fixed a ++ .rp :: R) = some (normArgs a, R)) :
    parseArgsWith pa (printArgs .fixed a ++ .rp :: R) = some (normArgs a, R) := by
  cases a with
  | nil => simp [printArgs, parseArgsWith, normArgs]
  | cons e r =>
    have hh := h (by simp)
    simp [wfArgs] at hwf
    have hst : ∃ X, printArgs .fixed (.cons e r) ++ .rp :: R = printExpr .fixed e ++ X := by
      cases r with
      | nil => exact ⟨.rp :: R, by simp [printArgs]⟩
      | cons e' r' => exact ⟨.comma :: (printArgs .fixed (.cons e' r') ++ .rp :: R), by simp [printArgs]⟩
    obtain ⟨X, hX⟩ := hst
    have hso := startOk_print e hwf.1 true (Or.inl rfl) X
    rw [← hX] at hso
    generalize printArgs .fixed (.cons e r) ++ .rp :: R = T at hso hh ⊢
    cases T with
    | nil => simpa [parseArgsWith] using hh
    | cons t ts =>
      cases t <;> simp [startOk] at hso <;> simpa [parseArgsWith] using hh

theorem selJ_le (s : Sel) : selJ s ≤ 3 := by
  simp only [selJ, atJ, exJ, offJ]; split <;> split <;> split <;> omega

theorem jc_lt_need : (e : Expr) → jc e + 1 ≤ need e
  | .vec s => by have := selJ_le s; simp only [jc, need]; omega
  | .mat s r => by have := selJ_le s; simp only [jc, need]; omega
  | .sub x r st a o => by
    have := jc_lt_need x
    simp only [jc, need, atJ, offJ]; split <;> split <;> omega
  | .num _ | .str _ | .par _ | .un _ _ | .bin _ _ _ _ | .agg _ _ _ _ | .call _ _ => by simp [jc, need]

theorem kk_atom (e : Expr) (h : isOperand e = true ∨ isVec e = true) : kk e = 1 := by
  cases e <;> simp [isOperand, isVec] at h <;> rfl

mutual
/-- an operand followed by arbitrary further postfix input: its own modifiers are consumed and the postfix loop
    continues from the (normalised) operand -/
theorem atom_post (e : Expr) (hwf : wf e = true) (hop : isOperand e = true ∨ isVec e = true) (G : Nat) (R : List Tok)
    (hG : need e ≤ G + jc e) (hR : postOk R) (hRv : isVec e = true → inert R = true) :
    atomPost (G + jc e) (printExpr .fixed e ++ R) = parsePostfix G (norm e) R := by
  match e with
  | .num n =>
    have hneg : n.neg = false := by simpa [isOperand, isVec] using hop
    obtain ⟨G', rfl⟩ : ∃ G', G = G' + 1 := ⟨G - 1, by simp [need, jc] at hG; omega⟩
    obtain ⟨neg, mag⟩ := n
    simp at hneg; subst hneg
    simp [jc, printExpr, printNum, numTok, atomPost, parseAtom, parseWordWith, norm]
  | .str v =>
    obtain ⟨G', rfl⟩ : ∃ G', G = G' + 1 := ⟨G - 1, by simp [need, jc] at hG; omega⟩
    simp [jc, printExpr, atomPost, parseAtom, norm]
  | .vec s =>
    have hok : okSel s = true := by simpa [wf] using hwf
    have hin := hRv rfl
    simp only [jc, printExpr, printSel_eq, List.append_assoc, norm]
    obtain ⟨T, hT⟩ : ∃ T, G + selJ s = T + 1 := ⟨G + selJ s - 1, by simp [need, jc] at hG; omega⟩
    unfold atomPost
    rw [hT, selHead_parse s hok T _ (by simp [need, jc] at hG; omega) (nameFollow_selPost s R hin), ← hT]
    exact selPost_vec s hok G R
  | .mat s r =>
    have hw : okSel s = true ∧ okSecs r = true := by simpa [wf] using hwf
    simp only [jc, printExpr, printMat_eq, List.append_assoc, norm, List.cons_append]
    obtain ⟨T, hT⟩ : ∃ T, G + (selJ s + 1) = T + 1 := ⟨G + selJ s, by omega⟩
    unfold atomPost
    rw [hT, selHead_parse s hw.1 T _ (by simp [need, jc] at hG; omega) rfl, ← hT]
    exact selPost_mat s r hw.1 hw.2 G R
  | .sub x r st a o =>
    have hw : (((wf x = true ∧ isOperand x = true) ∧ okSecs r = true) ∧ st ≤ 1) ∧ o.natAbs ≤ maxSecs := by
      simpa [wf] using hwf
    obtain ⟨⟨⟨⟨hwx, hox⟩, hr⟩, hst⟩, hob⟩ := hw
    simp only [jc, printExpr, printSubSuffix, List.append_assoc, norm, List.cons_append]
    rw [show G + (jc x + 1 + atJ a + offJ o) = (G + offJ o + atJ a + 1) + jc x by omega]
    rw [atom_post x hwx (Or.inl hox) (G + offJ o + atJ a + 1) _ (by simp [need, jc] at hG; omega) (Or.inr ⟨_, rfl⟩)
        (by intro hv; cases x <;> simp [isOperand, isVec] at hox hv)]
    rw [post_subrange (norm x) _ r st hr hst (mkRange_operand x hox r st)]
    rw [post_at_opt _ (.sub (norm x) r st a 0) a (by by_cases h : a = .none <;> simp [h, setAt])]
    rw [post_off_opt _ (.sub (norm x) r st a o) o hob (by by_cases h : o = 0 <;> simp [h, addOffset])]
  | .par x =>
    have hwx : wf x = true := by simpa [wf] using hwf
    simp only [jc, printExpr, norm, List.cons_append, List.append_assoc, List.nil_append, Nat.add_zero]
    simp only [need, jc, Nat.add_zero] at hG
    obtain ⟨Fx, rfl⟩ : ∃ Fx, G = (Fx + kk x) + 1 := ⟨G - kk x - 1, by omega⟩
    have ih := parse_expr_print x hwx Fx 0 (.rp :: R) (by omega) (fitsAt_zero x) rfl (by simp [rstop, headOp, binOpOfTok])
    obtain ⟨Fx', rfl⟩ : ∃ Fx', Fx = Fx' + 1 := ⟨Fx - 1, by omega⟩
    rw [parseLoop_return Fx' 0 (norm x) (.rp :: R) rfl (by simp [headOp, binOpOfTok])] at ih
    simp [atomPost, parseAtom, ih]
  | .agg op wo g a =>
    have hw : ((isAggOp op = true ∧ ∀ l ∈ g, okLabel l = true) ∧ wfArgs a = true) ∧ a.length = desiredArgs op := by
      simpa [wf] using hwf
    obtain ⟨⟨⟨hop', hg⟩, hwa⟩, hlen⟩ := hw
    simp only [need, jc, Nat.add_zero] at hG
    obtain ⟨G', rfl⟩ : ∃ G', G = G' + 1 := ⟨G - 1, by omega⟩
    have hargs : ∀ R', parseArgsWith (parseArgs1 G') (printArgs .fixed a ++ .rp :: R') = some (normArgs a, R') := fun R' =>
      parseArgsWith_of _ a hwa R' (fun hne => parse_args_print a hwa hne G' R' (by omega))
    have hmk : mkAgg op wo g (normArgs a) R = some (.agg op wo g (normArgs a), R) := by
      simp [mkAgg, normArgs_length, hlen]
    simp only [jc, printExpr, norm, kwTok_eq, List.cons_append, List.append_assoc, List.nil_append, Nat.add_zero]
    unfold atomPost
    simp only [parseAtom, parseWordWith]
    cases hwo : wo
    · by_cases hge : g = []
      · subst hge hwo
        simp [printAggMod, hop', startsAgg, parseAggWith, hargs, aggSuffix_none _ _ _ hR, hmk]
      · have hl := parseLabels_print g hg (.lp :: (printArgs .fixed a ++ .rp :: R))
        subst hwo
        simp [printAggMod, hge, kwTok_eq, hop', startsAgg, isGroupingKw, parseAggWith, hl, hargs, hmk]
    · have hl := parseLabels_print g hg (.lp :: (printArgs .fixed a ++ .rp :: R))
      subst hwo
      simp [printAggMod, kwTok_eq, hop', startsAgg, isGroupingKw, parseAggWith, hl, hargs, hmk]
  | .call f a =>
    have hw : (isFunction f = true ∧ classifyKind f = .ident) ∧ wfArgs a = true := by simpa [wf] using hwf
    obtain ⟨⟨hf, hk⟩, hwa⟩ := hw
    simp only [need, jc, Nat.add_zero] at hG
    obtain ⟨G', rfl⟩ : ∃ G', G = G' + 1 := ⟨G - 1, by omega⟩
    have hargs : parseArgsWith (parseArgs1 G') (printArgs .fixed a ++ .rp :: R) = some (normArgs a, R) :=
      parseArgsWith_of _ a hwa R (fun hne => parse_args_print a hwa hne G' R (by omega))
    simp only [jc, printExpr, norm, wordTok, hk, List.cons_append, List.append_assoc, List.nil_append, Nat.add_zero]
    simp [atomPost, parseAtom, parseWordWith, hf, hargs]
  | .un n x => simp [isOperand, isVec] at hop
  | .bin o m l r => simp [isOperand, isVec] at hop
termination_by (sizeOf e, 0)

/-- parsing the printed text of `e` in front of `rest` is the operator loop continued from (the normal form of) `e` -/
theorem parse_expr_print (e : Expr) (hwf : wf e = true) (F p : Nat) (rest : List Tok)
    (hF : need e ≤ F) (hp : fitsAt p e = true) (hi : inert rest = true) (hs : rstop e rest = true) :
    parseExpr (F + kk e) p (printExpr .fixed e ++ rest) = parseLoop F p (norm e) rest := by
  by_cases hop : isOperand e = true ∨ isVec e = true
  · have hj := jc_lt_need e
    obtain ⟨G, rfl⟩ : ∃ G, F = (G + 1) + jc e := ⟨F - jc e - 1, by omega⟩
    have hap := atom_post e hwf hop (G + 1) rest (by omega) (Or.inl hi) (fun _ => hi)
    rw [kk_atom e hop, parseExpr_atomPost _ _ _ (notSign_of_startOk _ (startOk_print e hwf false (Or.inr hop) rest)), hap,
      post_done _ _ hi]
  · match e with
    | .num n =>
      have hneg : n.neg = true := by simpa [isOperand, isVec] using hop
      obtain ⟨neg, mag⟩ := n
      simp at hneg; subst hneg
      have hnan : mag ≠ "NaN" := by simpa [wf] using hwf
      simp only [need] at hF
      obtain ⟨F', rfl⟩ : ∃ F', F = F' + 2 := ⟨F - 2, by omega⟩
      have hq : ∀ o, headOp rest = some o → o.prec < unaryOperandPrec := by
        intro o ho; simpa [rstop, ho, stopsBefore] using hs
      have h1 : parseExpr (F' + 1 + 1) unaryOperandPrec (numTok mag :: rest) = some (.num ⟨false, mag⟩, rest) := by
        rw [parseExpr_atomPost _ _ _ rfl]
        simp [atomPost, numTok, parseAtom, parseWordWith, post_done _ _ hi, parseLoop_return _ _ _ _ hi hq]
      simp only [kk, printExpr, printNum, if_true, List.cons_append, List.nil_append, norm]
      rw [parseExpr_neg, h1]
      simp [mkUnary, negNum, hnan]
    | .un n x =>
      have hw : (wf x = true ∧ isNum x = false) ∧ fitsAt unaryOperandPrec x = true := by simpa [wf] using hwf
      obtain ⟨⟨hwx, hnx⟩, hfx⟩ := hw
      simp only [need] at hF
      obtain ⟨Fx, rfl⟩ : ∃ Fx, F = (Fx + 1) + kk x := ⟨F - kk x - 1, by omega⟩
      have hrs : rstop x rest = true ∧ ∀ o, headOp rest = some o → o.prec < unaryOperandPrec := by
        unfold rstop at hs ⊢
        cases ho : headOp rest with
        | none => simp
        | some o => simp [ho, stopsBefore] at hs; simp [hs]
      have ih := parse_expr_print x hwx (Fx + 1) unaryOperandPrec rest (by omega) hfx hi hrs.1
      rw [parseLoop_return _ _ _ _ hi hrs.2] at ih
      have hmk : mkUnary n (norm x) = .un n (norm x) := by
        cases x <;> simp [isNum] at hnx <;> simp [norm, mkUnary]
      cases n
      · simp only [kk, printExpr, norm, List.cons_append, if_false, Bool.false_eq_true]
        rw [parseExpr_pos, ih]; simp only [hmk]
      · simp only [kk, printExpr, norm, List.cons_append, if_true]
        rw [parseExpr_neg, ih]; simp only [hmk]
    | .bin o m l r =>
      have hw : ((((wf l = true ∧ wf r = true) ∧ wfMod m = true) ∧ fitsAt o.prec l = true) ∧ stopsBefore l o.prec = true) ∧
          fitsAt (rhsPrec o) r = true := by simpa [wf] using hwf
      obtain ⟨⟨⟨⟨⟨hwl, hwr⟩, hwm⟩, hfl⟩, hsl⟩, hfr⟩ := hw
      have hpo : p ≤ o.prec := by simpa [fitsAt] using hp
      simp only [need] at hF
      have hrs : rstop r rest = true ∧ ∀ o', headOp rest = some o' → o'.prec < rhsPrec o := by
        unfold rstop at hs ⊢
        cases ho : headOp rest with
        | none => simp
        | some o' => simp [ho, stopsBefore] at hs; simp [hs]
      simp only [kk, printExpr, norm, List.append_assoc, List.cons_append]
      rw [show F + (kk l + 1) = (F + 1) + kk l by omega]
      rw [parse_expr_print l hwl (F + 1) p _ (by omega) (fitsAt_mono p o.prec l hfl hpo)
          (by simp [inert, binOpOfTok_opTok]) (by simp [rstop, headOp, binOpOfTok_opTok, hsl])]
      have hmods := parseMods_print m hwm (printExpr .fixed r ++ rest)
        (noModStart_of_startOk true _ (startOk_print r hwr true (Or.inl rfl) rest))
      obtain ⟨Fr, rfl⟩ : ∃ Fr, F = (Fr + 1) + kk r := ⟨F - kk r - 1, by omega⟩
      have ihr := parse_expr_print r hwr (Fr + 1) (rhsPrec o) rest (by omega) hfr hi hrs.1
      rw [parseLoop_return _ _ _ _ hi hrs.2] at ihr
      have hnlt : ¬ o.prec < p := by omega
      simp [parseLoop, binOpOfTok_opTok, hnlt, hmods, ihr]
    | .str v => simp [isOperand] at hop
    | .vec s => simp [isVec] at hop
    | .mat s r => simp [isOperand] at hop
    | .sub x r st a o => simp [isOperand] at hop
    | .par x => simp [isOperand] at hop
    | .agg op wo g a => simp [isOperand] at hop
    | .call f a => simp [isOperand] at hop
termination_by (sizeOf e, 1)

theorem parse_args_print (a : Args) (hwf : wfArgs a = true) (hne : a ≠ .nil) (F : Nat) (rest : List Tok)
    (hF : needArgs a ≤ F) :
    parseArgs1 F (printArgs .fixed a ++ .rp :: rest) = some (normArgs a, rest) := by
  match a with
  | .nil => exact absurd rfl hne
  | .cons e r =>
    have hw : wf e = true ∧ wfArgs r = true := by simpa [wfArgs] using hwf
    simp only [needArgs] at hF
    obtain ⟨Fe, rfl⟩ : ∃ Fe, F = ((Fe + 1) + kk e) + 1 := ⟨F - kk e - 2, by omega⟩
    have ihr := fun hne' hF' => parse_args_print r hw.2 hne' ((Fe + 1) + kk e) rest hF'
    have ihe := fun R hR => parse_expr_print e hw.1 (Fe + 1) 0 R (by omega) (fitsAt_zero e) hR
    cases r with
    | nil =>
      have ih := ihe (.rp :: rest) rfl (by simp [rstop, headOp, binOpOfTok])
      rw [parseLoop_return _ _ _ _ rfl (by simp [headOp, binOpOfTok])] at ih
      simp [printArgs, parseArgs1, ih, normArgs]
    | cons e' r' =>
      have ih := ihe (.comma :: (printArgs .fixed (.cons e' r') ++ .rp :: rest)) rfl (by simp [rstop, headOp, binOpOfTok])
      rw [parseLoop_return _ _ _ _ rfl (by simp [headOp, binOpOfTok])] at ih
      have ihr' := ihr (by simp) (by simp only [needArgs] at hF ⊢; omega)
      rw [printArgs_cons2]
      simp only [List.append_assoc, List.cons_append, parseArgs1, ih, ihr']
      simp only [normArgs]
termination_by (sizeOf a, 0)
end

/-! ## the round-trip theorem -/

theorem parseFuel_print (e : Expr) (hwf : wf e = true) (f : Nat) (hf : need e + kk e ≤ f) :
    parseFuel f (printExpr .fixed e) = some (norm e) := by
  obtain ⟨F, rfl⟩ : ∃ F, f = (F + 1) + kk e := ⟨f - kk e - 1, by have := jc_lt_need e; omega⟩
  have h := parse_expr_print e hwf (F + 1) 0 [] (by have := jc_lt_need e; omega) (fitsAt_zero e) rfl rfl
  rw [List.append_nil] at h
  simp [parseFuel, h, parseLoop]

/-! the default fuel of `parse` (6·tokens + 16) always suffices -/

theorem sepBy_length_ge (sep : Tok) (l : List (List Tok)) (h : ∀ x ∈ l, 1 ≤ x.length) :
    l.length ≤ (sepBy sep l).length := by
  induction l with
  | nil => simp [sepBy]
  | cons x xs ih =>
    cases xs with
    | nil => have := h x (by simp); simp [sepBy_one]; omega
    | cons y ys =>
      have ih' := ih (fun z hz => h z (by simp [hz]))
      rw [sepBy_cons_ne _ _ _ (by simp)]
      simp only [List.length_append, List.length_cons] at ih' ⊢
      omega

theorem selHead_len (s : Sel) : (shownMatchers .fixed s).length + 4 ≤ 6 * (printSelHead .fixed s).length := by
  cases hsh : shownMatchers .fixed s with
  | nil =>
    by_cases hn : s.name = "" <;> simp [printSelHead, hsh, hn, nameToks]
  | cons m ms =>
    have := sepBy_length_ge .comma ((m :: ms).map printMatcher) (by intro x hx; simp at hx; rcases hx with rfl | ⟨a, _, rfl⟩ <;> simp [printMatcher])
    simp only [printSelHead, hsh, List.length_append, List.length_cons, List.length_map] at this ⊢
    omega

mutual
theorem need_le (e : Expr) : need e + kk e ≤ 6 * (printExpr .fixed e).length + 3 := by
  match e with
  | .num n => simp only [need, kk, printExpr, printNum]; split <;> simp <;> omega
  | .str v => simp [need, kk, printExpr]
  | .vec s =>
    have := selHead_len s
    simp only [need, kk, printExpr, printSel, List.length_append]; omega
  | .mat s r =>
    have := selHead_len s
    simp only [need, kk, printExpr, printMat, List.length_append, List.length_cons]; omega
  | .sub x r st a o =>
    have := need_le x
    have hk : 1 ≤ kk x := by cases x <;> simp [kk]
    simp only [need, kk, printExpr, printSubSuffix, List.length_append, List.length_cons]; omega
  | .par x =>
    have := need_le x
    simp only [need, kk, printExpr, List.length_append, List.length_cons, List.length_nil]; omega
  | .un n x =>
    have := need_le x
    simp only [need, kk, printExpr, List.length_append, List.length_cons]; omega
  | .bin o m l r =>
    have := need_le l
    have := need_le r
    simp only [need, kk, printExpr, List.length_append, List.length_cons]; omega
  | .agg op wo g a =>
    have := needArgs_le a
    simp only [need, kk, printExpr, List.length_append, List.length_cons, List.length_nil]; omega
  | .call f a =>
    have := needArgs_le a
    simp only [need, kk, printExpr, List.length_append, List.length_cons, List.length_nil]; omega
theorem needArgs_le (a : Args) : needArgs a ≤ 6 * (printArgs .fixed a).length + 6 := by
  match a with
  | .nil => simp [needArgs]
  | .cons e .nil =>
    have := need_le e
    simp only [needArgs, printArgs]; omega
  | .cons e (.cons e' r') =>
    have := need_le e
    have := needArgs_le (.cons e' r')
    rw [printArgs_cons2]
    simp only [needArgs, List.length_append, List.length_cons] at this ⊢; omega
end

theorem parse_print (e : Expr) (hwf : wf e = true) : parse (printExpr .fixed e) = some (norm e) :=
  parseFuel_print e hwf _ (by have := need_le e; simp only [fuelFor]; omega)


/-- Full statement of the property at model level would be
      ∀ ts e, parse ts = some e → parse (printExpr .fixed e) = some (norm e)
    i.e. it needs `parse ts = some e → wf e = true` (every tree the parser builds is well-formed). That inclusion is not
    proved; it is checked on every case of the correspondence run (driver line `wf 1`). It is false for trees holding a
    0-second range / list offset (known finding `zero-duration`, see `zero_range_unprintable`). -/
theorem accepted_roundtrip_partial (ts : List Tok) (e : Expr) (_h : parse ts = some e) (hwf : wf e = true) :
    parse (printExpr .fixed e) = some (norm e) := parse_print e hwf

/-! ## `norm e` is equivalent to `e`: only the list of label matchers of a named selector is rearranged, as a set it is kept -/

theorem normSel_fields (s : Sel) :
    (normSel s).name = s.name ∧ (normSel s).atm = s.atm ∧ (normSel s).off = s.off ∧ (normSel s).offEx = s.offEx := by
  by_cases h : s.name = "" <;> simp [normSel, h]

/-- a selector built by the parser carries the matcher for its own name (assembleVectorSelector); then `normSel` keeps
    the set of matchers -/
theorem normSel_mem (s : Sel) (h : s.name ≠ "" → nameMatcher s.name ∈ s.ms) (m : Matcher) :
    m ∈ (normSel s).ms ↔ m ∈ s.ms := by
  by_cases hn : s.name = ""
  · simp [normSel, hn]
  · have hm := h hn
    simp only [normSel, hn, if_false, List.mem_append, List.mem_filter, List.mem_singleton, bne_iff_ne, ne_eq]
    constructor
    · rintro (⟨h1, _⟩ | rfl)
      · exact h1
      · exact hm
    · intro h1
      by_cases he : m = nameMatcher s.name
      · exact Or.inr he
      · exact Or.inl ⟨h1, he⟩

theorem normSel_idem (s : Sel) : normSel (normSel s) = normSel s := by
  by_cases hn : s.name = ""
  · simp [normSel, hn]
  · simp [normSel, hn, List.filter_append, List.filter_filter]

/-! ## the property's own statement: every expression the parser ACCEPTS prints to text that parses back -/

/-- For every token stream the lexer can produce (`tokOk`: word kinds agree with the lexer's classification of their text,
    and — the one exclusion, known finding zero-duration — no duration token of 0 seconds) and every tree the parser
    accepts on it, printing the tree and parsing the printed tokens yields the same tree up to `norm`
    (SH.Lemmas.PromSyntaxSound.parse_wf discharges the well-formedness hypothesis of `parse_print`). -/
theorem accepted_roundtrip (ts : List Tok) (e : Expr) (hok : ∀ t ∈ ts, tokOk t = true) (h : parse ts = some e) :
    parse (printExpr .fixed e) = some (norm e) :=
  parse_print e (SH.PromSyntax.Sound.parse_wf ts e hok h)

/-- the exclusion is needed: `foo[0s400ms]` lexes to a duration token of 0 seconds, is accepted, and its printed text
    (`foo[0s]`, a duration parseDuration rejects) does not parse -/
theorem zero_duration_needed :
    let ts : List Tok := [.word .ident "foo", .lb, .dur (some 0), .rb]
    ts.all tokOk = false ∧ parse ts = some (.mat ⟨"foo", [nameMatcher "foo"], .none, 0, []⟩ 0) ∧
    parse (printExpr .fixed (.mat ⟨"foo", [nameMatcher "foo"], .none, 0, []⟩ 0)) = none := by decide

/-- tokens of `sum by (job) (rate(foo{a="b",on=~"x"}[5m] offset 1m)) + -x ^ 2 and on () group_left y` -/
def toks1 : List Tok :=
  [kwTok "SUM", kwTok "BY", .lp, .word .ident "job", .rp, .lp, .word .ident "rate", .lp, .word .ident "foo", .lk,
   .lname "a", .eql, .str "62" true true, .comma, .lname "on", .eqlre, .str "78" true true, .rk, .lb, .dur (some 300), .rb,
   kwTok "OFFSET", .dur (some 60), .rp, .rp, .sym .add, .sym .sub, .word .ident "x", .sym .pow,
   .word (.num (some "2") (some 2000) (some (-2000))) "2", kwTok "LAND", kwTok "ON", .lp, .rp, kwTok "GROUP_LEFT",
   .word .ident "y"]

example : toks1.all tokOk = true := by decide
example : (parse toks1).isSome = true := by decide
example : ∀ e, parse toks1 = some e → parse (printExpr .fixed e) = some (norm e) :=
  fun e h => accepted_roundtrip toks1 e (by intro t ht; exact (List.all_eq_true.mp (by decide : toks1.all tokOk = true)) t ht) h

/-! ## idempotence: `norm` is a normal form, printing does not see it, one round trip reaches the fixed point -/

theorem shown_normSel (s : Sel) : shownMatchers .fixed (normSel s) = shownMatchers .fixed s := by
  by_cases hn : s.name = ""
  · simp [normSel, hn]
  · simp [normSel, shownMatchers, hn, List.filter_append, List.filter_filter]

theorem printSelHead_normSel (s : Sel) : printSelHead .fixed (normSel s) = printSelHead .fixed s := by
  have h1 := shown_normSel s
  have h2 := (normSel_fields s).1
  simp only [printSelHead, h1, h2]

mutual
theorem norm_norm : (e : Expr) → norm (norm e) = norm e
  | .num _ | .str _ => by simp [norm]
  | .vec s => by simp [norm, normSel_idem]
  | .mat s r => by simp [norm, normSel_idem]
  | .sub x _ _ _ _ => by simp [norm, norm_norm x]
  | .par x => by simp [norm, norm_norm x]
  | .un _ x => by simp [norm, norm_norm x]
  | .bin _ _ l r => by simp [norm, norm_norm l, norm_norm r]
  | .agg _ _ _ a => by simp [norm, normArgs_normArgs a]
  | .call _ a => by simp [norm, normArgs_normArgs a]
theorem normArgs_normArgs : (a : Args) → normArgs (normArgs a) = normArgs a
  | .nil => by simp [normArgs]
  | .cons e r => by simp [normArgs, norm_norm e, normArgs_normArgs r]
end

mutual
/-- the printer does not distinguish a tree from its normal form -/
theorem print_norm : (e : Expr) → printExpr .fixed (norm e) = printExpr .fixed e
  | .num _ | .str _ => by simp [norm]
  | .vec s => by
    obtain ⟨_, h2, h3, h4⟩ := normSel_fields s
    simp only [norm, printExpr, printSel, printSelHead_normSel, h2, h3, h4]
  | .mat s r => by
    obtain ⟨_, h2, h3, h4⟩ := normSel_fields s
    simp only [norm, printExpr, printMat, printSelHead_normSel, h2, h3, h4]
  | .sub x _ _ _ _ => by simp only [norm, printExpr, print_norm x]
  | .par x => by simp only [norm, printExpr, print_norm x]
  | .un _ x => by simp only [norm, printExpr, print_norm x]
  | .bin _ _ l r => by simp only [norm, printExpr, print_norm l, print_norm r]
  | .agg _ _ _ a => by simp only [norm, printExpr, printArgs_norm a]
  | .call _ a => by simp only [norm, printExpr, printArgs_norm a]
theorem printArgs_norm : (a : Args) → printArgs .fixed (normArgs a) = printArgs .fixed a
  | .nil => by simp [normArgs]
  | .cons e .nil => by simp only [normArgs, printArgs, print_norm e]
  | .cons e (.cons e' r') => by
    have := printArgs_norm (.cons e' r')
    simp only [normArgs] at this ⊢
    rw [printArgs_cons2, printArgs_cons2, print_norm e, this]
end

/-- print ∘ parse ∘ print = print on accepted trees: the text printed for the re-parsed tree is the text printed first -/
theorem print_parse_print (ts : List Tok) (e : Expr) (hok : ∀ t ∈ ts, tokOk t = true) (h : parse ts = some e) :
    ∃ e', parse (printExpr .fixed e) = some e' ∧ printExpr .fixed e' = printExpr .fixed e :=
  ⟨norm e, accepted_roundtrip ts e hok h, print_norm e⟩

/-- after one round trip the tree is a fixed point of parse ∘ print -/
theorem roundtrip_fixpoint (ts : List Tok) (e : Expr) (hok : ∀ t ∈ ts, tokOk t = true) (h : parse ts = some e) :
    parse (printExpr .fixed (norm e)) = some (norm e) := by
  rw [print_norm]; exact accepted_roundtrip ts e hok h

example : ∃ e, parse toks1 = some e ∧ parse (printExpr .fixed (norm e)) = some (norm e) := by
  cases h : parse toks1 with
  | none => exact absurd h (by decide)
  | some e => exact ⟨e, rfl, roundtrip_fixpoint toks1 e (fun t ht => (List.all_eq_true.mp (by decide : toks1.all tokOk = true)) t ht) h⟩

/-! ## lexical layer: string literals written by `%q` are scanned back to exactly their closing quote
     (model SH.Model.PromLex of lexString / lexEscape / lexRawString, tied to lex.go by the driver op `lexstr`) -/

section Lexical
open SH.PromLex

theorem renderQ_cons (i : QItem) (is : List QItem) : renderQ (i :: is) = i.render ++ renderQ is :=
  SH.PromLex.Str.renderQ_cons i is

theorem digitsVal2 (d1 d2 : Nat) (h1 : isHex d1 = true) (h2 : isHex d2 = true) : ∃ x, digitsVal 16 [d1, d2] = some x :=
  SH.PromLex.Str.digitsVal2 d1 d2 h1 h2

/-- the lexer scans a `%q` body up to exactly its closing quote -/
theorem lexString_renderQ (items : List QItem) (hok : ∀ i ∈ items, i.ok = true) (rest : List Nat) :
    lexString cDq (renderQ items ++ cDq :: rest) = some (renderQ items, rest) :=
  SH.PromLex.Str.lexString_renderQ items hok rest

/-- the STRING token the lexer cuts from printed text `"…"` followed by anything is the printed literal itself -/
theorem lexStringTok_quoted (items : List QItem) (hok : ∀ i ∈ items, i.ok = true) (rest : List Nat) :
    lexStringTok (cDq :: (renderQ items ++ cDq :: rest)) = some (cDq :: renderQ items ++ [cDq], rest) :=
  SH.PromLex.Str.lexStringTok_quoted items hok rest

/-- Round trip of a string literal / matcher value through printer and lexer, for ANY pair of functions `quote`/`unquote`
    that satisfies on the value `v` the stated contract of strconv.Quote and strutil.Unquote (what `%q` writes consists of plain bytes and
    well-formed escapes, and unquoting it gives the value back). The contract is a hypothesis here; it is discharged for the
    real functions only by the correspondence / round-trip oracle on generated strings. -/
theorem string_token_roundtrip (quote : List Nat → List QItem) (unquote : List Nat → Option (List Nat))
    (v rest : List Nat)
    (hq : (∀ i ∈ quote v, i.ok = true) ∧ unquote (cDq :: renderQ (quote v) ++ [cDq]) = some v) :
    (lexStringTok (cDq :: (renderQ (quote v) ++ cDq :: rest))).bind (fun r => (unquote r.1).map (fun u => (u, r.2)))
      = some (v, rest) := by
  rw [lexStringTok_quoted _ hq.1]
  have h2 := hq.2
  simp only [List.cons_append] at h2
  simp [h2]

/-- non-vacuity: `"a\x01\u200b\U000e0001\\\""` is a well-formed %q body and the contract is satisfiable -/
def exItems : List QItem :=
  [.plain 97, .hex2 48 49, .u4 50 48 48 98, .u8 48 48 48 101 48 48 48 49, .short 92, .short 34]
example : exItems.all QItem.ok = true := by decide
example : lexStringTok (cDq :: (renderQ exItems ++ cDq :: [41])) = some (cDq :: renderQ exItems ++ [cDq], [41]) :=
  lexStringTok_quoted exItems (by intro i hi; exact (List.all_eq_true.mp (by decide : exItems.all QItem.ok = true)) i hi) [41]
example : (lexStringTok (cDq :: (renderQ exItems ++ cDq :: [41]))).bind
      (fun r => ((fun t => if t = cDq :: renderQ exItems ++ [cDq] then some [97, 1] else none) r.1).map (fun u => (u, r.2)))
    = some ([97, 1], [41]) :=
  string_token_roundtrip (fun _ => exItems) (fun t => if t = cDq :: renderQ exItems ++ [cDq] then some [97, 1] else none)
    [97, 1] [41] ⟨fun i hi => (List.all_eq_true.mp (by decide : exItems.all QItem.ok = true)) i hi, by simp⟩

/-- the lexer seeded as C28-3 (one extra rune consumed after a numeric escape) loses the closing quote of `"a\x01"`;
    the real scanner keeps it -/
theorem extra_rune_breaks_last_escape :
    lexStringExtra cDq [97, 92, 120, 48, 49, cDq] = none ∧
    lexString cDq [97, 92, 120, 48, 49, cDq] = some ([97, 92, 120, 48, 49], []) := by decide

/-! ### durations and numbers (SH.Lemmas.PromLexNum) -/

open SH.PromLex.Num in
/-- A duration the printer writes, `<n>s`, followed by anything that is not alphanumeric (`]`, `:`, `,`, blank, end): the
    lexer cuts it as one DURATION token of exactly that text — in lexNumberOrDuration and in lexDuration alike — and
    parseDuration gives n seconds back, for every n ≥ 1 up to maxSecs = 9223372036 (2^63 ns). -/
theorem duration_literal_roundtrip (n : Nat) (h1 : 1 ≤ n) (h2 : n ≤ maxSecs) (rest : List Nat) (hr : headAlnum rest = false) :
    lexNumOrDur (printSeconds n ++ rest) = .dur (printSeconds n).length ∧
    lexDurationB (printSeconds n ++ rest) = .dur (printSeconds n).length ∧
    parseDuration (printSeconds n) = some n :=
  ⟨(lex_printSeconds n rest hr).1, (lex_printSeconds n rest hr).2, parseDuration_printSeconds n h1 h2⟩

example : lexDurationB (printSeconds 300 ++ [93]) = .dur 4 ∧ parseDuration (printSeconds 300) = some 300 := by decide

/-- outside 1..maxSecs there is no `<n>s` literal: `0s` is rejected ("duration must be greater than 0", known finding
    zero-duration) and `9223372037s` is out of range for model.ParseDuration (known finding duration-out-of-range), while
    the inputs `0s400ms` and `9223372036s800ms` are accepted and rounded to exactly these two values -/
theorem duration_bounds_unprintable :
    parseDuration (printSeconds 0) = none ∧ parseDuration (printSeconds (maxSecs + 1)) = none ∧
    parseDuration [48, 115, 52, 48, 48, 109, 115] = some 0 ∧
    parseDuration ([57, 50, 50, 51, 51, 55, 50, 48, 51, 54, 115] ++ [56, 48, 48, 109, 115]) = some (maxSecs + 1) := by
  decide

/-- the same at token level: `foo[9223372036s800ms]` is accepted with a range no literal denotes -/
theorem duration_out_of_range_needed :
    let ts : List Tok := [.word .ident "foo", .lb, .dur (some (maxSecs + 1)), .rb]
    ts.all tokOk = false ∧ parse ts = some (.mat ⟨"foo", [nameMatcher "foo"], .none, 0, []⟩ (maxSecs + 1)) ∧
    parse (printExpr .fixed (.mat ⟨"foo", [nameMatcher "foo"], .none, 0, []⟩ (maxSecs + 1))) = none := by decide

open SH.PromLex.Num in
/-- Round trip of a number literal through printer and lexer, for ANY `format`/`number` pair that satisfies on the value
    `x` the contract of fmt.Sprint(float64) (finite, non-negative: digits, optional `.digits`, optional `e±dd`) and of the
    parser's `number` (strconv.ParseInt, then ParseFloat): the lexer cuts exactly the printed text as one NUMBER token, whose
    value is x. The contract `number (format x) = x` is a hypothesis, discharged by the round-trip oracle only. -/
theorem number_literal_roundtrip {V : Type} (format : V → NumShape) (number : List Nat → Option V) (x : V)
    (hq : (format x).ok = true ∧ number (format x).render = some x) (rest : List Nat) (hr : numFollow rest = true) :
    lexNumOrDur ((format x).render ++ rest) = .num (format x).render.length ∧
    number (((format x).render ++ rest).take (format x).render.length) = some x := by
  have hs := scanNumber_shape (format x) hq.1 rest hr
  refine ⟨?_, by simp [hq.2]⟩
  simp only [lexNumOrDur, hs, if_true, List.length_append]
  congr 1
  omega

/-- `1e+06`, `0.5`, `42` are printer shapes; a number is followed by `)`, `,`, a blank … -/
example : (NumShape.mk [49] none (some (false, [48, 54]))).ok = true ∧ (NumShape.mk [48] (some [53]) none).ok = true := by decide
example : lexNumOrDur ((NumShape.mk [49] none (some (false, [48, 54]))).render ++ [41]) = .num 5 := by decide

open SH.PromLex.Num in
/-- `Inf` and `NaN` are lexed as words by lexKeywordOrIdentifier and the keyword table makes them NUMBER tokens -/
theorem inf_nan_tokens (rest : List Nat) (hr : ∀ c t, rest = c :: t → isWordB c = false) :
    lexWord ([73, 110, 102] ++ rest) = ([73, 110, 102], rest) ∧ lexWord ([78, 97, 78] ++ rest) = ([78, 97, 78], rest) ∧
    isNumKind (classifyKind "Inf") = true ∧ isNumKind (classifyKind "NaN") = true :=
  ⟨lexWord_run _ rest (by decide) hr, lexWord_run _ rest (by decide) hr, by decide, by decide⟩

open SH.PromLex.Num in
/-- The `@ <timestamp>` clause: the printer writes k ms as `%.3f` seconds (`printMs k`, e.g. 1001 → `1.001`); the lexer cuts
    that text as one NUMBER token and the decimal → millisecond conversion (rounding to the nearest ms, `atMs`) gives exactly
    k back — for every k, without hypothesis. (That `atMs` is timestamp.FromFloatSeconds ∘ ParseFloat on such texts is the
    correspondence op `atms`; a truncating conversion, seeded as C28-r3-1, returns k−1 for about 1% of the k.) -/
theorem at_timestamp_roundtrip (k : Nat) (rest : List Nat) (hr : numFollow rest = true) :
    lexNumOrDur (printMs k ++ rest) = .num (printMs k).length ∧ atMs (printMs k) = some k := by
  obtain ⟨_, hd, hne⟩ := natDigits_spec (k / 1000)
  have hshape : printMs k = (NumShape.mk (natDigits (k / 1000)) (some (pad3Digits (k % 1000))) none).render := by
    simp [printMs, NumShape.render, fracToks, expToks]
  have hok : (NumShape.mk (natDigits (k / 1000)) (some (pad3Digits (k % 1000))) none).ok = true := by
    have h1 : (natDigits (k / 1000)).isEmpty = false := by
      cases h : natDigits (k / 1000) with
      | nil => exact absurd h hne
      | cons _ _ => rfl
    have h2 : (natDigits (k / 1000)).all isDigitB = true := List.all_eq_true.mpr hd
    have h3 : (pad3Digits (k % 1000)).all isDigitB = true := List.all_eq_true.mpr (pad3_digits _)
    have h4 : (pad3Digits (k % 1000)).isEmpty = false := rfl
    simp only [NumShape.ok, h1, h2, h3, h4, Bool.not_false, Bool.and_self]
  refine ⟨?_, atMs_printMs k⟩
  have hs := scanNumber_shape _ hok rest hr
  rw [hshape]
  simp only [lexNumOrDur, hs, if_true, List.length_append]
  congr 1
  omega

example : printMs 1001 = [49, 46, 48, 48, 49] ∧ atMs (printMs 1001) = some 1001 ∧ atMs [49, 46, 48, 48, 49, 52] = some 1001 := by
  decide

/-! ### the whole lexer (SH.Model.PromLexAll, step lemmas in SH.Lemmas.PromLexAllSteps)

  `lexAll` models the complete state machine of lex.go (blanks, comments, operators, brace and bracket modes, the literal
  scanners) and is compared with `Lexer.NextItem` on every generated source and every printed text (driver op `lexall`).
  Towards ONE character-level round trip: every token class the printer writes is lexed by one step of that machine to exactly
  that token, the right successor state and the rest of the text (`lexer_steps`), and the steps compose across the `[`…`]`
  mode (`lex_range_suffix`). NOT proved: a character-level model of the printer's spacing and the induction that chains the
  steps over a whole printed expression (`lexAll (printText e) = tokens of printExpr e`); on concrete texts the composition is
  checked by `decide` (below) and on every generated case by the correspondence (ops print + lexall). -/

open SH.PromLex.Steps SH.PromLex.Num in
/-- one step of the whole lexer on the printed text of each literal class, in the state the printer's context implies -/
theorem lexer_steps (st : LexState) (hst : plain st) :
    (∀ n rest, headAlnum rest = false →
      lexStep (printSeconds n ++ rest) st = .tok "DURATION" (printSeconds n).length rest st) ∧
    (∀ n rest, headAlnum rest = false →
      lexStep (printSeconds n ++ rest) { st with wantDur := true } = .tok "DURATION" (printSeconds n).length rest st) ∧
    (∀ (sh : NumShape) rest, sh.ok = true → numFollow rest = true →
      lexStep (sh.render ++ rest) st = .tok "NUMBER" sh.render.length rest st) ∧
    (∀ (items : List QItem) rest, (∀ i ∈ items, i.ok = true) →
      lexStep (cDq :: (renderQ items ++ cDq :: rest)) st = .tok "STRING" ((renderQ items).length + 2) rest st) ∧
    (∀ rest, lexStep (32 :: rest) st = .skip (rest.dropWhile isSpaceB) st) := by
  refine ⟨fun n rest h => step_dur st hst n rest h, ?_, fun sh rest h1 h2 => step_num st hst sh h1 rest h2,
    fun items rest h => step_string st hst items h rest, fun rest => step_blank st hst.1 rest⟩
  intro n rest h
  have := step_dur_bracket { st with wantDur := true } rfl n rest h
  have hback : ({ st with wantDur := false } : LexState) = st := by
    obtain ⟨b, k, g, d, w⟩ := st; simp only [plain] at hst; simp [hst.1]
  simpa [hback] using this

open SH.PromLex.Steps in
/-- composition across the bracket mode: `[<n>s]` → LEFT_BRACKET DURATION RIGHT_BRACKET, state restored -/
theorem lex_range_suffix (f : Nat) (st : LexState) (hst : plain st) (hb : st.bracket = false) (hg : st.gotColon = false)
    (n : Nat) (rest : List Nat) :
    lexLoop (f + 3) (91 :: (printSeconds n ++ 93 :: rest)) st =
      (⟨"LEFT_BRACKET", 1⟩ :: ⟨"DURATION", (printSeconds n).length⟩ :: ⟨"RIGHT_BRACKET", 1⟩ :: (lexLoop f rest st).1,
       (lexLoop f rest st).2) :=
  SH.PromLex.Steps.lex_range_suffix f st hst hb hg n rest

/-- the whole lexer on a concrete printed text, `x[300s] @ 1.500` -/
example : lexAll ("x[300s] @ 1.500".toList.map Char.toNat) =
    ([⟨"IDENTIFIER", 1⟩, ⟨"LEFT_BRACKET", 1⟩, ⟨"DURATION", 4⟩, ⟨"RIGHT_BRACKET", 1⟩, ⟨"AT", 1⟩, ⟨"NUMBER", 5⟩], .eof) := by
  decide

/-! ### towards the character-level round trip

  Full statement (NOT proved): for every accepted tree `e` in the fragment where the printer's spacing is a function of adjacent
  tokens (everything except a unary `+`/`-` in front of an operand), `lexAll (printText e) = tokens of printExpr .fixed e`, hence
  `parse (tokens (lexAll (printText e))) = some (norm e)`. What is proved: the chaining principle (`Lexes.lexAll`: a derivation of
  justified lexer steps through a text determines what the whole lexer returns) and its first ∀-quantified instance below — range
  selectors with an offset, for every identifier, range and offset — composed with the token-level theorem. Outside: every other
  expression shape (the induction over `Expr` that builds the `Lexes` derivation from `lexer_steps` for a general `printText`). -/

open SH.PromLex.Chain SH.PromLex.Num in
/-- character level → tokens → tree, for `name[<n>s] offset <m>s`: the text the printer writes is lexed to exactly its six tokens
    (through the `[`…`]` mode and the blanks), the two DURATION texts denote n and m, and the token-level round trip holds -/
theorem accepted_roundtrip_text_fragment_partial (c : Nat) (w : List Nat) (n m : Nat)
    (hc : (isAlphaB c || c == 58) = true) (hw : ∀ x ∈ w, isWordB x = true)
    (hmi : isMetricIdent (classifyKind (String.ofList ((c :: w).map Char.ofNat))) = true)
    (hn : okSecs n = true) (hm : okSecs m = true) :
    let name := String.ofList ((c :: w).map Char.ofNat)
    let e : Expr := .mat ⟨name, [nameMatcher name], .none, (m : Int), []⟩ n
    lexAll (c :: w ++ 91 :: (printSeconds n ++ 93 :: 32 :: (offsetWord ++ 32 :: printSeconds m))) =
      ([⟨kindTokName (classifyKind name), w.length + 1⟩, ⟨"LEFT_BRACKET", 1⟩, ⟨"DURATION", (printSeconds n).length⟩,
        ⟨"RIGHT_BRACKET", 1⟩, ⟨"OFFSET", 6⟩, ⟨"DURATION", (printSeconds m).length⟩], .eof) ∧
    parseDuration (printSeconds n) = some n ∧ parseDuration (printSeconds m) = some m ∧
    parse (printExpr .fixed e) = some (norm e) := by
  have hn' : n ≠ 0 ∧ n ≤ maxSecs := by simpa [okSecs] using hn
  have hm' : m ≠ 0 ∧ m ≤ maxSecs := by simpa [okSecs] using hm
  refine ⟨lexAll_range_offset c w n m hc hw, parseDuration_printSeconds n (by omega) hn'.2,
    parseDuration_printSeconds m (by omega) hm'.2, parse_print _ ?_⟩
  simp only [wf, okSel, hmi, hn, Bool.or_true, Bool.true_and, List.all_nil, Bool.and_true, Bool.and_eq_true, decide_eq_true_eq,
    Int.natAbs_natCast]
  exact hm'.2

/-- non-vacuity: `foo[300s] offset 60s` -/
example : (isAlphaB 102 || 102 == 58) = true ∧ (∀ x ∈ [111, 111], isWordB x = true) ∧
    isMetricIdent (classifyKind (String.ofList (([102, 111, 111] : List Nat).map Char.ofNat))) = true ∧
    okSecs 300 = true ∧ okSecs 60 = true := by decide

open SH.PromLex.Frag in
/-- Character level, recursive fragment (SH.Lemmas.PromLexFrag): for every expression built from metric names, range selectors
    `name[<n>s]`, parentheses, one-argument calls `f(e)` and the twelve binary operators ` + - * / % ^ == != <= >= < > ` (each
    written with a blank on either side; round 7) and unsigned number literals as operands (any `NumShape` the printer can
    write: digits, optional fraction, optional exponent; round 7), the whole lexer on the text the printer writes returns exactly
    the expression's tokens — by induction on the expression, chaining the step lemmas with the lexer-state invariant (paren depth
    restored, bracket mode left). Not yet covered: matchers, @/offset modifiers, several arguments, aggregations, the set
    operators and the bool/on/ignoring/group modifiers, strings and Inf/NaN as operands, unary signs; and the bridge from these raw
    tokens to `parse`. -/
theorem lexAll_printText_fragment (e : TE) (hg : Good e) : lexAll (printText e) = (toksOf e, .eof) :=
  lexAll_printText e hg

open SH.PromLex.Frag in
/-- non-vacuity: `f(a[300s] + (b))` is in the fragment -/
example : Good (.call 102 [] (.add (.rng 97 [] 300) (.par (.sel 98 [])))) := by
  refine ⟨⟨by decide, by simp⟩, ⟨by decide, by simp⟩, ⟨by decide, by simp⟩⟩

open SH.PromLex.Frag in
/-- non-vacuity with a number: `f(a * 2.5e3)` is in the fragment -/
example : Good (.call 102 [] (.bin .mul (.sel 97 []) (.num ⟨[50], some [53], some (false, [51])⟩))) := by
  refine ⟨⟨by decide, by simp⟩, ⟨by decide, by simp⟩, by show NumShape.ok _ = true; decide⟩

open SH.PromLex.Frag in
/-- the whole lexer on `a <= b ^ c`, by the theorem (not by evaluation) and by evaluation: the same five tokens -/
example : lexAll (printText (.bin .lte (.sel 97 []) (.bin .pow (.sel 98 []) (.sel 99 [])))) =
    ([⟨"IDENTIFIER", 1⟩, ⟨"LTE", 2⟩, ⟨"IDENTIFIER", 1⟩, ⟨"POW", 1⟩, ⟨"IDENTIFIER", 1⟩], .eof) := by decide

end Lexical

/-! ## the tables regenerated from /repo are the ones the proofs were written against -/

theorem prec_levels :
    BinOp.ldefault.prec = 1 ∧ BinOp.lor.prec = 2 ∧ BinOp.land.prec = 3 ∧ BinOp.lunless.prec = 3 ∧
    BinOp.eqlc.prec = 4 ∧ BinOp.neq.prec = 4 ∧ BinOp.lss.prec = 4 ∧ BinOp.lte.prec = 4 ∧ BinOp.gtr.prec = 4 ∧ BinOp.gte.prec = 4 ∧
    BinOp.add.prec = 5 ∧ BinOp.sub.prec = 5 ∧ BinOp.mul.prec = 6 ∧ BinOp.div.prec = 6 ∧ BinOp.mod.prec = 6 ∧ BinOp.atan2.prec = 6 ∧
    BinOp.pow.prec = 7 ∧ BinOp.pow.rightAssoc = true ∧ BinOp.mul.rightAssoc = false ∧ unaryOperandPrec = 7 := by decide

/-- every operator has a level in the table (a missing one would get level 0 and never be taken by the loop) -/
theorem every_op_has_level : BinOp.all.all (fun o => decide (0 < o.prec)) = true := by decide

/-- every function name and aggregation operator is lexed to the token the grammar expects, so every call / aggregation
    the parser can build can be printed and parsed back -/
theorem functions_are_identifiers : SH.Gen.C28.functions.all (fun f => classifyKind f == .ident) = true := by decide

theorem aggregators_are_keywords :
    SH.Gen.C28.aggregateOpToks.all (fun n => kwTok n == .word (.kw n) (kwText n) && classifyKind (kwText n) == .kw n) = true := by decide

/-! ## non-vacuity: concrete well-formed trees, and the theorem instantiated on them -/

def selFoo : Sel := ⟨"foo", [⟨"a", .eq, "62"⟩, ⟨"__what__", .re, "78"⟩, nameMatcher "foo"], .ts 1500, -300, [60, -120]⟩
def selSum : Sel := ⟨"sum", [nameMatcher "sum", nameMatcher "sum"], .start, 0, []⟩
def selAnon : Sel := ⟨"", [⟨"__name__", .eq, "-"⟩], .none, 0, []⟩

/-- sum without (job, on) (rate(foo{…}[5m] @ 1.500 offset [1m, -2m] offset -5m))[10m:1s] @ end() offset 1m
      + -sum @ start() ^ 2 ^ -3 * ({__name__=""} and bool on (l) group_left () -Inf) -/
def ex1 : Expr :=
  .bin .add ⟨false, 0, false, [], []⟩
    (.sub (.agg "SUM" true ["job", "on"] (.cons (.call "rate" (.cons (.mat selFoo 300) .nil)) .nil)) 600 1 .stop 60)
    (.bin .mul ⟨false, 0, false, [], []⟩
      (.un true (.bin .pow ⟨false, 0, false, [], []⟩ (.vec selSum)
        (.bin .pow ⟨false, 0, false, [], []⟩ (.num ⟨false, "2"⟩) (.num ⟨true, "3"⟩))))
      (.par (.bin .land ⟨true, 1, true, ["l"], []⟩ (.vec selAnon) (.num ⟨true, "Inf"⟩))))

example : wf ex1 = true := by decide
example : parse (printExpr .fixed ex1) = some (norm ex1) := parse_print ex1 (by decide)
example : norm ex1 ≠ ex1 := by decide          -- `sum{__name__="sum",__name__="sum"}` loses the duplicate

/-- topk(3, a) by (x) prints with the modifier in front; quantile takes two arguments -/
def ex2 : Expr := .agg "TOPK" false ["x"] (.cons (.num ⟨false, "3"⟩) (.cons (.vec ⟨"a", [nameMatcher "a"], .none, 0, []⟩) .nil))
example : wf ex2 = true := by decide
example : parse (printExpr .fixed ex2) = some ex2 := by decide

/-- trees the parser cannot produce are not well-formed: (a + b) * c without the ParenExpr, -1 ^ 2 with a folded sign,
    a subquery of a bare selector -/
example : wf (.bin .mul ⟨false, 0, false, [], []⟩ (.bin .add ⟨false, 0, false, [], []⟩ (.num ⟨false, "1"⟩) (.num ⟨false, "2"⟩))
    (.num ⟨false, "3"⟩)) = false := by decide
example : wf (.bin .pow ⟨false, 0, false, [], []⟩ (.num ⟨true, "1"⟩) (.num ⟨false, "2"⟩)) = false := by decide
example : wf (.sub (.vec ⟨"a", [nameMatcher "a"], .none, 0, []⟩) 300 0 .none 0) = false := by decide

/-! ## the printer before fixes/C28-printer-roundtrip.diff violates the property (each tree is well-formed) -/

def vFoo (off : Int) (ex : List Int) : Expr := .vec ⟨"foo", [nameMatcher "foo"], .none, off, ex⟩
def noMod : BinMod := ⟨false, 0, false, [], []⟩

/-- `foo offset 5m` was printed `foo offset 300`: a NUMBER where the grammar wants a DURATION -/
theorem old_printer_offset : wf (vFoo 300 []) = true ∧ parse (printExpr .old (vFoo 300 [])) = none := by decide

/-- `(foo)[5m:30s]` was printed `(foo)[300:1]`: the lexer stops with "missing unit character in duration" -/
theorem old_printer_subquery :
    wf (.sub (.par (vFoo 0 [])) 300 1 .none 0) = true ∧ parse (printExpr .old (.sub (.par (vFoo 0 [])) 300 1 .none 0)) = none := by
  decide

/-- `foo offset [1m, 2m]` (StatsHouse extension) was printed `foo`: the list is lost -/
theorem old_printer_offset_list :
    wf (vFoo 0 [60, 120]) = true ∧ parse (printExpr .old (vFoo 0 [60, 120])) = some (vFoo 0 []) := by decide

/-- `a + ignoring () group_left (x) b` was printed `a + b`: the cardinality and the included labels are lost -/
theorem old_printer_group_left :
    wf (.bin .add ⟨false, 1, false, [], ["x"]⟩ (vFoo 0 []) (vFoo 0 [])) = true ∧
    parse (printExpr .old (.bin .add ⟨false, 1, false, [], ["x"]⟩ (vFoo 0 []) (vFoo 0 []))) =
      some (.bin .add noMod (vFoo 0 []) (vFoo 0 [])) := by decide

/-- `Inf ^ 2` was printed `+Inf ^ 2`, which is `+(Inf ^ 2)` -/
theorem old_printer_inf :
    wf (.bin .pow noMod (.num ⟨false, "Inf"⟩) (.num ⟨false, "2"⟩)) = true ∧
    parse (printExpr .old (.bin .pow noMod (.num ⟨false, "Inf"⟩) (.num ⟨false, "2"⟩))) =
      some (.un false (.bin .pow noMod (.num ⟨false, "Inf"⟩) (.num ⟨false, "2"⟩))) := by decide

/-- `{}` was printed as the empty text -/
theorem old_printer_empty_selector :
    wf (.vec ⟨"", [], .none, 0, []⟩) = true ∧ parse (printExpr .old (.vec ⟨"", [], .none, 0, []⟩)) = none := by decide

/-- ... and the same trees round-trip with the fixed printer -/
theorem fixed_printer_witnesses :
    parse (printExpr .fixed (vFoo 300 [])) = some (vFoo 300 []) ∧
    parse (printExpr .fixed (.sub (.par (vFoo 0 [])) 300 1 .none 0)) = some (.sub (.par (vFoo 0 [])) 300 1 .none 0) ∧
    parse (printExpr .fixed (vFoo 0 [60, 120])) = some (vFoo 0 [60, 120]) ∧
    parse (printExpr .fixed (.bin .add ⟨false, 1, false, [], ["x"]⟩ (vFoo 0 []) (vFoo 0 []))) =
      some (.bin .add ⟨false, 1, false, [], ["x"]⟩ (vFoo 0 []) (vFoo 0 [])) ∧
    parse (printExpr .fixed (.bin .pow noMod (.num ⟨false, "Inf"⟩) (.num ⟨false, "2"⟩))) =
      some (.bin .pow noMod (.num ⟨false, "Inf"⟩) (.num ⟨false, "2"⟩)) ∧
    parse (printExpr .fixed (.vec ⟨"", [], .none, 0, []⟩)) = some (.vec ⟨"", [], .none, 0, []⟩) := by decide

/-- Known finding `zero-duration`: `foo[0s400ms]` is accepted with Range = 0; "0s" is not a duration the parser takes, so
    the hypothesis `range ≠ 0` inside `wf` cannot be dropped from `parse_print` -/
theorem zero_range_unprintable :
    wf (.mat ⟨"foo", [nameMatcher "foo"], .none, 0, []⟩ 0) = false ∧
    parse (printExpr .fixed (.mat ⟨"foo", [nameMatcher "foo"], .none, 0, []⟩ 0)) = none := by decide

end SH.Props.C28


