import SH.Model.PromSyntax
namespace SH.Props.C28
open SH.PromSyntax

theorem prec_levels :
    BinOp.ldefault.prec = 1 ∧ BinOp.lor.prec = 2 ∧ BinOp.land.prec = 3 ∧ BinOp.lunless.prec = 3 ∧
    BinOp.eqlc.prec = 4 ∧ BinOp.add.prec = 5 ∧ BinOp.mul.prec = 6 ∧ BinOp.pow.prec = 7 := by decide

end SH.Props.C28
