/-
  SH.Props.C30 — Access control grants exactly the permissions carried by a valid token.

  Property (properties.jsonl): "An access token is accepted only if it is an EdDSA token signed by a configured key
  whose id it names, issued by vkuth, for a user, and within its validity window (with the 5-second tolerance); only
  bits prefixed with the application name are granted. A non-admin can view or edit a metric only through a matching
  metric, prefix or namespace bit or the default bit for unprotected names, needs edit rights on both old and new
  name to rename, can never view or change remote-config metrics, and can never change weight (except 0->1),
  presort, sharding, host/sum-square skips or raw-tag attributes."
  Quantifier: all tokens (valid, tampered, wrong key or algorithm, expired, premature, foreign issuer or app bits)
  and all bit sets, protected prefixes and metric pairs.

  Every theorem below is for ALL configurations, clocks, tokens, bit lists, protected-prefix lists, names and metric
  descriptions of the model `SH.Model.Access` (which `bin/check C30` ties to /repo by differential correspondence).

    accept_iff, accept_window, tampered_rejected, parse_ok_only_if,
    long_expired_rejected, expOkWrap_agrees, expOkWrap_accepts_long_expired   acceptance (times are unbounded Int)
    parseKeys_sound, parseKeys_complete, accept_signed_by_named_key,
    wrong_key_rejected                                                   key table: kid ↦ its own key
    grant_traced, grants_only_app_bits, grants_nothing, admin_traced    only the application's bits are granted
    view_rule, view_only_through_bit, remote_config_view                 view
    canChange_iff, change_needs_both, edit_needs_both,
    edit_only_through_bits, remote_config_edit                           edit / rename
    frozen_fields, fieldCheck_ok_iff, edit_ok_iff                        attributes a non-admin cannot change
    c30_end_to_end                                                       all of it from the token to the decisions

  PARTIAL with respect to the real system (not with respect to the model): Ed25519 and golang-jwt's base64 / JSON
  decoding are not modelled. `Token.sigValid` (the public keys — as bytes — under which the signature verifies, i.e.
  the relation valid : Key → Token → Bool as data) and the decoded header / claims are inputs; sha256 (the key
  fingerprint) is the parameter `fp`. The key table kid ↦ key bytes IS modelled (`parseKeys` = ParseVkuthKeys,
  `tableGet` = the Keyfunc's lookup), so "signed by a configured key whose id it names" is proved in the form
  "the kid is the fingerprint of one of the listed keys and the signature verifies under THAT key's bytes"
  (accept_iff, parseKeys_sound / parseKeys_complete, accept_signed_by_named_key, wrong_key_rejected).
  Full statement that is NOT proved here (would need a model of Ed25519 + JSON):
    -- theorem accept_only_signed : accepts tokenBytes → ∃ k ∈ configured, kid tokenBytes = id k ∧
    --     Ed25519.verify k.pub (signingInput tokenBytes) (signature tokenBytes)

  STATELESSNESS. In the model the accessInfo is a function of (configuration, clock, token) ALONE: `parseAccessToken`
  takes no state, so "a token is granted only what IT carries, whatever was parsed before" is the model's form, not a
  theorem about the code. What ties it to the code is the correspondence: the harness parses SEQUENCES of tokens
  (privileged, then bit-less / null / [] / fewer / foreign bits, valid and invalid mixed) with one JWTHelper in one
  process, the driver answers each token from the token alone, and the oracle grant-depends-on-previous-token
  re-parses every accepted token after a different history. A reused / pooled decode target that keeps fields of an
  earlier token (encoding/json only overwrites keys that are present) shows up as a disagreement there.

  Observation outside the property: a correctly signed token without `exp` makes Claims.Valid dereference nil
  (`Verdict.panic`); it is not accepted, so the property is unaffected.
-/
import SH.Model.Access
namespace SH.Props.C30
open SH.Access SH.Gen

theorem gen_window : C30.timeWindowMs = 5000 := by decide
theorem gen_issuer : C30.issuer = lit "vkuth" := by decide
theorem gen_kind : C30.kindToken = lit "token" ∧ C30.kindHeaderName = "kind" ∧ C30.kidHeaderName = "kid" := by decide
theorem gen_alg : C30.algEdDSA = lit "EdDSA" ∧ algKnown C30.algEdDSA = true := by decide
theorem gen_remote : C30.remoteConfig = [lit "statshouse_agent_remote_config", lit "statshouse_aggregator_remote_config",
    lit "statshouse_api_remote_config", lit "statshouse_journal_dump"] := by decide
theorem gen_err_bits : C30.errMalformed = 1 ∧ C30.errUnverifiable = 2 ∧ C30.errSignatureInvalid = 4 ∧ C30.errExpired = 16 ∧
    C30.errIssuedAt = 32 ∧ C30.errNotValidYet = 128 ∧ C30.errClaimsInvalid = 512 := by decide

/-- the property's acceptance condition -/
def Valid (cfg : Cfg) (now : Int) (t : Token) : Prop :=
  t.alg = .str C30.algEdDSA ∧ t.kind = .str C30.kindToken ∧
  (∃ kid key, t.kid = .str kid ∧ tableGet cfg.keys kid = some key ∧ key ∈ t.sigValid) ∧
  t.iss = C30.issuer ∧ t.user ≠ [] ∧
  (∃ e, t.exp = some e ∧ now < truncSec e + C30.timeWindowMs) ∧
  (∃ i, t.iat = some i ∧ truncSec i ≤ now + C30.timeWindowMs) ∧
  (∀ n, t.nbf = some n → truncSec n ≤ now)

theorem algCheck_none (a : HV) : algCheck a = none ↔ a = .str C30.algEdDSA := by
  cases a with
  | absent => simp [algCheck]
  | other => simp [algCheck]
  | str s =>
    simp only [algCheck, algAllowed]
    by_cases hk : algKnown s = true
    · by_cases ha : (s == C30.algEdDSA) = true
      · simp [hk, ha]; simpa using ha
      · simp [hk, ha]; intro h; simp [h] at ha
    · simp [hk]; intro h; rw [h] at hk; exact hk (by decide)

theorem kindOk_iff (a : HV) : kindOk a = true ↔ a = .str C30.kindToken := by
  cases a <;> simp [kindOk]

theorem kidKey_some (cfg : Cfg) (a : HV) (key : Key) :
    kidKey cfg a = some key ↔ ∃ kid, a = .str kid ∧ tableGet cfg.keys kid = some key := by
  cases a <;> simp [kidKey]

theorem claimsMask_zero (now exp : Int) (t : Token) :
    claimsMask now exp t = 0 ↔ expOk now exp = true ∧ iatOk now t.iat = true ∧ nbfOk now t.nbf = true ∧ issOk t = true ∧ userOk t = true := by
  unfold claimsMask
  have h1 : C30.errExpired ≠ 0 := by decide
  have h2 : C30.errIssuedAt ≠ 0 := by decide
  have h3 : C30.errNotValidYet ≠ 0 := by decide
  have h4 : C30.errClaimsInvalid ≠ 0 := by decide
  by_cases a : expOk now exp = true <;> by_cases b : iatOk now t.iat = true <;> by_cases c : nbfOk now t.nbf = true <;>
    by_cases d : issOk t = true <;> by_cases e : userOk t = true <;> simp [a, b, c, d, e, h1, h2, h3, h4]


theorem claimsVerdict_accept (now : Int) (t : Token) :
    claimsVerdict now t = .accept ↔
      ∃ e, t.exp = some e ∧ expOk now e = true ∧ iatOk now t.iat = true ∧ nbfOk now t.nbf = true ∧ issOk t = true ∧ userOk t = true := by
  unfold claimsVerdict
  cases he : t.exp with
  | none => simp
  | some e =>
    simp only [Option.some.injEq, exists_eq_left']
    by_cases h : claimsMask now e t = 0
    · simp only [h, if_true, true_iff]; exact (claimsMask_zero now e t).mp h
    · simp only [h, if_false, reduceCtorEq, false_iff]
      exact fun hh => h ((claimsMask_zero now e t).mpr hh)

theorem expOk_iff (now e : Int) : expOk now e = true ↔ now < truncSec e + C30.timeWindowMs := decide_eq_true_iff

theorem iatOk_iff (now : Int) (o : Option Int) : iatOk now o = true ↔ ∃ i, o = some i ∧ truncSec i ≤ now + C30.timeWindowMs := by
  cases o with
  | none => simp [iatOk]
  | some v =>
    have : iatOk now (some v) = true ↔ truncSec v ≤ now + C30.timeWindowMs := decide_eq_true_iff
    simp [this]

theorem nbfOk_iff (now : Int) (o : Option Int) : nbfOk now o = true ↔ ∀ n, o = some n → truncSec n ≤ now := by
  cases o with
  | none => simp [nbfOk]
  | some v =>
    have : nbfOk now (some v) = true ↔ truncSec v ≤ now := decide_eq_true_iff
    simp [this]

theorem sigVerdict_accept (now : Int) (t : Token) (k : Key) :
    sigVerdict now t k = .accept ↔ k ∈ t.sigValid ∧ claimsVerdict now t = .accept := by
  unfold sigVerdict
  by_cases hs : t.sigValid.contains k = true
  · have : k ∈ t.sigValid := by simpa using hs
    simp [this]
  · have : ¬ k ∈ t.sigValid := by simpa using hs
    simp [this]

theorem keyVerdict_accept (cfg : Cfg) (now : Int) (t : Token) :
    keyVerdict cfg now t = .accept ↔
      kindOk t.kind = true ∧ ∃ k, kidKey cfg t.kid = some k ∧ k ∈ t.sigValid ∧ claimsVerdict now t = .accept := by
  unfold keyVerdict
  by_cases hk : kindOk t.kind = true
  · simp only [hk, if_true, true_and]
    cases hkid : kidKey cfg t.kid with
    | none => simp
    | some k => simp [sigVerdict_accept]
  · simp [hk]

theorem verify_accept (cfg : Cfg) (now : Int) (t : Token) :
    verify cfg now t = .accept ↔ algCheck t.alg = none ∧ keyVerdict cfg now t = .accept := by
  unfold verify
  cases algCheck t.alg <;> simp

/-- **Acceptance, exact.** A decoded token is accepted iff it is an EdDSA token of kind "token" whose kid names an
    entry of the key table and whose signature verifies under THE key bytes stored in that entry, issued by vkuth, for a non-empty user, with
    now − 5 s < exp, iat ≤ now + 5 s and (if present) nbf ≤ now. -/
theorem accept_iff (cfg : Cfg) (now : Int) (t : Token) : verify cfg now t = .accept ↔ Valid cfg now t := by
  rw [verify_accept, keyVerdict_accept, algCheck_none, kindOk_iff, claimsVerdict_accept]
  simp only [kidKey_some, iatOk_iff, nbfOk_iff, Valid]
  constructor
  · rintro ⟨ha, hk, key, ⟨kid, h1, h2⟩, hs, e, he, h3, h4, h5, h6, h7⟩
    exact ⟨ha, hk, ⟨kid, key, h1, h2, hs⟩, by simpa [issOk] using h6, by simpa [userOk] using h7,
      ⟨e, he, (expOk_iff _ _).mp h3⟩, h4, h5⟩
  · rintro ⟨ha, hk, ⟨kid, key, h1, h2, hs⟩, h6, h7, ⟨e, he, h3⟩, h4, h5⟩
    exact ⟨ha, hk, key, ⟨kid, h1, h2⟩, hs, e, he, (expOk_iff _ _).mpr h3, h4, h5, by simpa [issOk] using h6,
      by simpa [userOk] using h7⟩

/-! ## the key table: kid ↦ key, kid = fingerprint of the key -/

theorem tableGet_filter (m : List (Str × Key)) (id id' : Str) (h : id ≠ id') :
    tableGet (m.filter (fun e => e.1 != id)) id' = tableGet m id' := by
  induction m with
  | nil => rfl
  | cons e r ih =>
    by_cases he : e.1 = id
    · have hf : List.filter (fun e => e.1 != id) (e :: r) = List.filter (fun e => e.1 != id) r := by
        simp [he]
      have h2 : ¬ e.1 = id' := fun h' => h (he.symm.trans h')
      rw [hf, ih]
      simp only [tableGet, h2, if_false]
    · have hf : List.filter (fun e => e.1 != id) (e :: r) = e :: List.filter (fun e => e.1 != id) r := by
        simp [he]
      rw [hf]
      simp only [tableGet, ih]

theorem tableGet_set (m : List (Str × Key)) (id id' : Str) (k : Key) :
    tableGet (tableSet m id k) id' = if id = id' then some k else tableGet m id' := by
  unfold tableSet
  by_cases h : id = id'
  · simp [tableGet, h]
  · simp [tableGet, h, tableGet_filter m id id' h]

theorem foldl_tableSet_inv (fp : Key → Str) (P : Str → Key → Prop) : ∀ (ks : List Key) (m : List (Str × Key)),
    (∀ id key, tableGet m id = some key → P id key) → (∀ k ∈ ks, P (fp k) k) →
    ∀ id key, tableGet (ks.foldl (fun m k => tableSet m (fp k) k) m) id = some key → P id key := by
  intro ks
  induction ks with
  | nil => intro m hm _ id key h; exact hm id key h
  | cons k ks ih =>
    intro m hm hk id key h
    simp only [List.foldl_cons] at h
    refine ih (tableSet m (fp k) k) ?_ (fun a ha => hk a (List.mem_cons_of_mem _ ha)) id key h
    intro id' key' h'
    rw [tableGet_set] at h'
    split at h'
    · next e => cases h'; rw [← e]; exact hk k (List.mem_cons_self ..)
    · exact hm id' key' h'

/-- **Every entry of the configured key table is one of the listed keys, stored under ITS OWN fingerprint** — an id
    never leads to the bytes of a different listed key. -/
theorem parseKeys_sound (fp : Key → Str) (ks : List Key) (id : Str) (key : Key)
    (h : tableGet (parseKeys fp ks) id = some key) : key ∈ ks ∧ fp key = id :=
  foldl_tableSet_inv fp (fun id key => key ∈ ks ∧ fp key = id) ks [] (by intro _ _ h; cases h)
    (fun k hk => ⟨hk, rfl⟩) id key h

theorem foldl_tableSet_keeps (fp : Key → Str) (id : Str) : ∀ (ks : List Key) (m : List (Str × Key)),
    (tableGet m id).isSome = true → (tableGet (ks.foldl (fun m k => tableSet m (fp k) k) m) id).isSome = true := by
  intro ks
  induction ks with
  | nil => intro m h; exact h
  | cons k ks ih =>
    intro m h
    simp only [List.foldl_cons]
    apply ih
    rw [tableGet_set]
    split
    · rfl
    · exact h

theorem parseKeys_defined (fp : Key → Str) : ∀ (ks : List Key) (m : List (Str × Key)) (k : Key), k ∈ ks →
    (tableGet (ks.foldl (fun m k => tableSet m (fp k) k) m) (fp k)).isSome = true := by
  intro ks
  induction ks with
  | nil => intro m k h; cases h
  | cons a ks ih =>
    intro m k h
    simp only [List.foldl_cons]
    rcases List.mem_cons.mp h with h | h
    · subst h
      apply foldl_tableSet_keeps
      simp [tableGet_set]
    · exact ih _ k h

/-- **Every listed key is reachable under its fingerprint and maps to its own bytes** (fingerprints of distinct
    listed keys are distinct — sha256 collisions aside). -/
theorem parseKeys_complete (fp : Key → Str) (ks : List Key) (k : Key) (hk : k ∈ ks)
    (hinj : ∀ a ∈ ks, ∀ b ∈ ks, fp a = fp b → a = b) : tableGet (parseKeys fp ks) (fp k) = some k := by
  have h : (tableGet (parseKeys fp ks) (fp k)).isSome = true := parseKeys_defined fp ks [] k hk
  cases hg : tableGet (parseKeys fp ks) (fp k) with
  | none => rw [hg] at h; cases h
  | some k' =>
    obtain ⟨h1, h2⟩ := parseKeys_sound fp ks _ _ hg
    rw [hinj k' h1 k hk h2]

/-- **"Signed by a configured key whose id it names."** With the key table built by ParseVkuthKeys from the listed
    keys `ks`, an accepted token names (by fingerprint) one of the listed keys, and its signature verifies under that
    very key — not merely under some configured key. -/
theorem accept_signed_by_named_key (fp : Key → Str) (ks : List Key) (cfg : Cfg) (now : Int) (t : Token)
    (hc : cfg.keys = parseKeys fp ks) (h : verify cfg now t = .accept) :
    ∃ key ∈ ks, t.kid = .str (fp key) ∧ key ∈ t.sigValid := by
  obtain ⟨_, _, ⟨kid, key, h1, h2, h3⟩, _⟩ := (accept_iff cfg now t).mp h
  rw [hc] at h2
  obtain ⟨hm, hf⟩ := parseKeys_sound fp ks kid key h2
  exact ⟨key, hm, by rw [hf]; exact h1, h3⟩

/-- … and a signature that verifies only under OTHER keys (configured or not) than the one the kid names is rejected -/
theorem wrong_key_rejected (fp : Key → Str) (ks : List Key) (cfg : Cfg) (now : Int) (t : Token)
    (hc : cfg.keys = parseKeys fp ks) (h : ∀ key ∈ ks, t.kid = .str (fp key) → key ∉ t.sigValid) :
    verify cfg now t ≠ .accept := by
  intro hv
  obtain ⟨key, hm, hk, hs⟩ := accept_signed_by_named_key fp ks cfg now t hc hv
  exact h key hm hk hs


/-! ## bits -/

theorem isPrefixOf_iff (p b : Str) : p.isPrefixOf b = true ↔ b = p ++ b.drop p.length := by
  rw [List.isPrefixOf_iff_prefix, List.prefix_iff_eq_append]; exact eq_comm

theorem isPrefixOf_append (p s : Str) : p.isPrefixOf (p ++ s) = true := by
  rw [List.isPrefixOf_iff_prefix]; exact List.prefix_append p s

theorem stripFullBit_eq (app b s : Str) (hs : s ≠ []) : stripFullBit app b = s ↔ b = appPrefix app ++ s := by
  unfold stripFullBit
  constructor
  · intro h
    split at h
    · next hp => rw [← h]; exact (isPrefixOf_iff _ _).mp hp
    · exact absurd h.symm hs
  · intro h
    subst h
    simp [isPrefixOf_append]

theorem mem_appBits (app : Str) (bits : List Str) (s : Str) :
    s ∈ appBits app bits ↔ s ≠ [] ∧ appPrefix app ++ s ∈ bits := by
  unfold appBits
  simp only [List.mem_filter, List.mem_map, Bool.not_eq_eq_eq_not, Bool.not_true, List.isEmpty_eq_false_iff]
  constructor
  · rintro ⟨⟨b, hb, he⟩, hs⟩
    exact ⟨hs, by rw [← (stripFullBit_eq app b s hs).mp he]; exact hb⟩
  · rintro ⟨hs, hb⟩
    exact ⟨⟨_, hb, (stripFullBit_eq app _ s hs).mpr rfl⟩, hs⟩

/-- what it means that an accessInfo carries grant `g` -/
def Granted (ai : AI) : Grant → Prop
  | .admin => ai.admin = true
  | .developer => ai.developer = true
  | .viewDefault => ai.viewDefault = true
  | .editDefault => ai.editDefault = true
  | .viewPrefix p => p ∈ ai.viewPrefix
  | .editPrefix p => p ∈ ai.editPrefix
  | .viewMetric m => m ∈ ai.viewMetric
  | .editMetric m => m ∈ ai.editMetric
  | .nothing => False

theorem granted_applyGrant (ai : AI) (g g' : Grant) :
    Granted (applyGrant ai g') g ↔ Granted ai g ∨ (g = g' ∧ g ≠ .nothing) := by
  cases g <;> cases g' <;> simp [Granted, applyGrant, or_comm]

theorem granted_applyBits (bs : List Str) : ∀ (ai : AI) (g : Grant),
    Granted (applyBits ai bs) g ↔ Granted ai g ∨ (g ≠ .nothing ∧ ∃ b ∈ bs, classify b = g) := by
  induction bs with
  | nil => intro ai g; simp [applyBits]
  | cons b bs ih =>
    intro ai g
    have : applyBits ai (b :: bs) = applyBits (applyGrant ai (classify b)) bs := by simp [applyBits]
    rw [this, ih, granted_applyGrant]
    simp only [List.mem_cons, exists_eq_or_imp]
    constructor
    · rintro ((h | ⟨h1, h2⟩) | ⟨h1, h2⟩)
      · exact .inl h
      · exact .inr ⟨h2, .inl h1.symm⟩
      · exact .inr ⟨h1, .inr h2⟩
    · rintro (h | ⟨h1, h2 | h2⟩)
      · exact .inl (.inl h)
      · exact .inl (.inr ⟨h2.symm, h1⟩)
      · exact .inr ⟨h1, h2⟩

theorem granted_empty (u : Str) (sv : Bool) (p : List Str) (g : Grant) : ¬ Granted (emptyAI u sv p) g := by
  cases g <;> simp [Granted, emptyAI]

theorem classify_nil : classify [] = .nothing := by decide

/-- **Only bits prefixed with the application name are granted.** Every flag, prefix or metric the accessInfo of an
    accepted token carries comes from a bit `app ++ ":" ++ s` of the token whose remainder `s` the switch maps to
    exactly that grant — and every such bit is honoured. -/
theorem grant_traced (cfg : Cfg) (t : Token) (g : Grant) :
    Granted (grants cfg t) g ↔ g ≠ .nothing ∧ ∃ s, appPrefix cfg.app ++ s ∈ t.bits ∧ classify s = g := by
  unfold grants
  rw [granted_applyBits]
  simp only [granted_empty, false_or, mem_appBits]
  constructor
  · rintro ⟨hg, s, ⟨_, hb⟩, hc⟩
    exact ⟨hg, s, hb, hc⟩
  · rintro ⟨hg, s, hb, hc⟩
    refine ⟨hg, s, ⟨?_, hb⟩, hc⟩
    intro h; subst h; rw [classify_nil] at hc; exact hg hc.symm


def hasApp (app b : Str) : Bool := (appPrefix app).isPrefixOf b

theorem appBits_filter (app : Str) (bits : List Str) : appBits app (bits.filter (hasApp app)) = appBits app bits := by
  induction bits with
  | nil => rfl
  | cons b bs ih =>
    by_cases h : hasApp app b = true
    · rw [List.filter_cons_of_pos h]
      unfold appBits at ih ⊢
      simp only [List.map_cons, List.filter_cons]
      rw [ih]
    · rw [List.filter_cons_of_neg h, ih]
      have hb : stripFullBit app b = [] := by
        unfold stripFullBit; unfold hasApp at h; simp [h]
      unfold appBits
      simp [hb]

/-- **Foreign bits grant nothing**: the accessInfo is a function of the bits that carry the application prefix. -/
theorem grants_only_app_bits (cfg : Cfg) (t : Token) :
    grants cfg { t with bits := t.bits.filter (hasApp cfg.app) } = grants cfg t := by
  unfold grants
  simp only [appBits_filter]

/-- a token none of whose bits carries the application prefix grants nothing at all -/
theorem grants_nothing (cfg : Cfg) (t : Token) (h : ∀ b ∈ t.bits, hasApp cfg.app b = false) :
    grants cfg t = emptyAI t.user t.service cfg.prot := by
  rw [← grants_only_app_bits]
  have : t.bits.filter (hasApp cfg.app) = [] := by
    rw [List.filter_eq_nil_iff]; intro b hb; simp [h b hb]
  simp [grants, this, appBits, applyBits]

/-- the shape of the bit switch: which remainders `s` produce which grant -/
inductive BitForm : Str → Grant → Prop
  | admin : BitForm (lit "admin") .admin
  | developer : BitForm (lit "developer") .developer
  | viewDefault : BitForm (lit "view_default") .viewDefault
  | editDefault : BitForm (lit "edit_default") .editDefault
  | viewPrefix (x : Str) : BitForm (pViewPrefix ++ x) (.viewPrefix (extractNamespace x))
  | editPrefix (x : Str) : BitForm (pEditPrefix ++ x) (.editPrefix (extractNamespace x))
  | viewMetric (x : Str) : BitForm (pViewMetric ++ x) (.viewMetric (extractNamespace x))
  | editMetric (x : Str) : BitForm (pEditMetric ++ x) (.editMetric (extractNamespace x))
  | viewNamespace (y : Str) : BitForm (pViewNamespace ++ y) (.viewPrefix (y ++ [colon]))
  | editNamespace (y : Str) : BitForm (pEditNamespace ++ y) (.editPrefix (y ++ [colon]))

theorem classify_form (s : Str) (g : Grant) (h : classify s = g) (hg : g ≠ .nothing) : BitForm s g := by
  unfold classify at h
  repeat' split at h
  all_goals subst h
  · next h => rw [h]; exact .admin
  · next h => rw [h]; exact .developer
  · next h => rw [h]; exact .viewDefault
  · next h => rw [h]; exact .editDefault
  · next h => rw [(isPrefixOf_iff _ _).mp h, List.drop_left]; exact .viewPrefix _
  · next h => rw [(isPrefixOf_iff _ _).mp h, List.drop_left]; exact .editPrefix _
  · next h => rw [(isPrefixOf_iff _ _).mp h, List.drop_left]; exact .viewMetric _
  · next h => rw [(isPrefixOf_iff _ _).mp h, List.drop_left]; exact .editMetric _
  · next h => rw [(isPrefixOf_iff _ _).mp h, List.drop_left]; exact .viewNamespace _
  · next h => rw [(isPrefixOf_iff _ _).mp h, List.drop_left]; exact .editNamespace _
  · exact absurd rfl hg


/-! ## policy -/

/-- no protected prefix matches the name -/
def Unprotected (prot : List Str) (name : Str) : Prop := ∀ p ∈ prot, ¬ p <+: name

theorem hasPrefixAccess_iff (m : List Str) (name : Str) : hasPrefixAccess m name = true ↔ ∃ p ∈ m, p <+: name := by
  simp [hasPrefixAccess, List.any_eq_true]

theorem protectedMetric_false (ai : AI) (name : Str) : protectedMetric ai name = false ↔ Unprotected ai.prot name := by
  simp [protectedMetric, Unprotected]

/-- the three ways the property allows a name to be viewed -/
def ViewRight (ai : AI) (name : Str) : Prop :=
  name ∈ ai.viewMetric ∨ (∃ p ∈ ai.viewPrefix, p <+: name) ∨ (ai.viewDefault = true ∧ Unprotected ai.prot name)

/-- … and edited -/
def EditRight (ai : AI) (name : Str) : Prop :=
  name ∈ ai.editMetric ∨ (∃ p ∈ ai.editPrefix, p <+: name) ∨ (ai.editDefault = true ∧ Unprotected ai.prot name)

theorem viewRight_iff (ai : AI) (name : Str) : viewRight ai name = true ↔ ViewRight ai name := by
  simp only [viewRight, ViewRight, Bool.or_eq_true, Bool.and_eq_true, Bool.not_eq_eq_eq_not, Bool.not_true,
    List.contains_iff_mem, hasPrefixAccess_iff, protectedMetric_false, or_assoc]

/-- **View rule.** A name is viewable iff (it is not a remote-config metric, or the caller is admin) and there is a
    matching metric grant, a prefix/namespace grant, or the default grant on an unprotected name. -/
theorem view_rule (ai : AI) (name : Str) :
    canViewName ai name = true ↔ (remoteConfig name = true → ai.admin = true) ∧ ViewRight ai name := by
  unfold canViewName
  rw [← viewRight_iff]
  by_cases hr : remoteConfig name = true <;> by_cases ha : ai.admin = true <;> simp [hr, ha]

/-- **A non-admin can never view remote-config metrics.** -/
theorem remote_config_view (ai : AI) (name : Str) (ha : ai.admin = false) (hr : remoteConfig name = true) :
    canViewName ai name = false := by
  simp [canViewName, ha, hr]

theorem canChange_iff (ai : AI) (c : Bool) (o n : Str) :
    canChange ai c o n = true ↔
      ai.admin = true ∨ (remoteConfig o = false ∧ remoteConfig n = false ∧
        ((o ∈ ai.editMetric ∧ n ∈ ai.editMetric) ∨
         ((∃ p ∈ ai.editPrefix, p <+: o) ∧ (∃ p ∈ ai.editPrefix, p <+: n)) ∨
         (ai.editDefault = true ∧ Unprotected ai.prot o ∧ Unprotected ai.prot n))) := by
  unfold canChange changeRight
  by_cases ha : ai.admin = true
  · simp [ha]
  · by_cases ho : remoteConfig o = true
    · simp [ha, ho]
    · by_cases hn : remoteConfig n = true
      · simp [ha, ho, hn]
      · simp only [ha, ho, hn, Bool.false_eq_true, if_false, Bool.or_self, false_or, Bool.or_eq_true, Bool.and_eq_true,
          Bool.not_eq_eq_eq_not, Bool.not_true, List.contains_iff_mem, hasPrefixAccess_iff, protectedMetric_false,
          true_and, or_assoc, and_assoc]

/-- **Rename needs edit rights on both names; remote-config metrics cannot be changed.** -/
theorem change_needs_both (ai : AI) (c : Bool) (o n : Str) (ha : ai.admin = false) (h : canChange ai c o n = true) :
    remoteConfig o = false ∧ remoteConfig n = false ∧ EditRight ai o ∧ EditRight ai n := by
  rw [canChange_iff] at h
  rcases h with h | ⟨h1, h2, h3⟩
  · rw [ha] at h; cases h
  · refine ⟨h1, h2, ?_⟩
    rcases h3 with ⟨a, b⟩ | ⟨a, b⟩ | ⟨a, b, c⟩
    · exact ⟨.inl a, .inl b⟩
    · exact ⟨.inr (.inl a), .inr (.inl b)⟩
    · exact ⟨.inr (.inr ⟨a, b⟩), .inr (.inr ⟨a, c⟩)⟩

theorem canEdit_not_forbidden (ai : AI) (c : Bool) (o n : Meta) :
    canEdit ai c o n ≠ .forbidden → canChange ai c o.name n.name = true := by
  unfold canEdit
  by_cases h : canChange ai c o.name n.name = true <;> simp [h]

theorem edit_needs_both (ai : AI) (c : Bool) (o n : Meta) (ha : ai.admin = false) (h : canEdit ai c o n ≠ .forbidden) :
    remoteConfig o.name = false ∧ remoteConfig n.name = false ∧ EditRight ai o.name ∧ EditRight ai n.name :=
  change_needs_both ai c _ _ ha (canEdit_not_forbidden ai c o n h)

/-- **A non-admin can never change remote-config metrics.** -/
theorem remote_config_edit (ai : AI) (c : Bool) (o n : Meta) (ha : ai.admin = false)
    (hr : remoteConfig o.name = true ∨ remoteConfig n.name = true) : canEdit ai c o n = .forbidden := by
  refine Classical.byContradiction fun h => ?_
  obtain ⟨h1, h2, _⟩ := edit_needs_both ai c o n ha h
  rcases hr with hr | hr
  · rw [h1] at hr; cases hr
  · rw [h2] at hr; cases hr

theorem noneRaw_iff : ∀ (a : List Bool), noneRaw a = true ↔ ∀ i, a.getD i false = false := by
  intro a
  induction a with
  | nil => simp [noneRaw]
  | cons x xs ih =>
    simp only [noneRaw, Bool.and_eq_true, Bool.not_eq_eq_eq_not, Bool.not_true, ih]
    constructor
    · rintro ⟨h1, h2⟩ i
      cases i with
      | zero => simp [h1]
      | succ i => simpa using h2 i
    · intro h
      exact ⟨by simpa using h 0, fun i => by simpa using h (i + 1)⟩

theorem rawSame_iff : ∀ (a b : List Bool), rawSame a b = true ↔ ∀ i, a.getD i false = b.getD i false := by
  intro a
  induction a with
  | nil =>
    intro b
    simp only [rawSame, noneRaw_iff]
    constructor
    · intro h i; simpa using (h i).symm
    · intro h i; simpa using (h i).symm
  | cons x xs ih =>
    intro b
    cases b with
    | nil =>
      have := noneRaw_iff (x :: xs)
      simp only [noneRaw] at this
      simp only [rawSame, this]
      constructor
      · intro h i; simpa using h i
      · intro h i; simpa using h i
    | cons y ys =>
      simp only [rawSame, Bool.and_eq_true, beq_iff_eq, ih]
      constructor
      · rintro ⟨h1, h2⟩ i
        cases i with
        | zero => simp [h1]
        | succ i => simpa using h2 i
      · intro h
        exact ⟨by simpa using h 0, fun i => by simpa using h (i + 1)⟩

/-- the attributes a non-admin may not touch are the same in the old and the new description -/
structure Frozen (o n : Meta) : Prop where
  weight : n.weightQ = o.weightQ ∨ (o.weightQ = 0 ∧ n.weightQ = 4)
  preKeyFrom : n.preKeyFrom = o.preKeyFrom
  preKeyOnly : n.preKeyOnly = o.preKeyOnly
  skipMaxHost : n.skipMaxHost = o.skipMaxHost
  skipMinHost : n.skipMinHost = o.skipMinHost
  skipSumSquare : n.skipSumSquare = o.skipSumSquare
  strategy : n.strategy = o.strategy
  shardNum : n.shardNum = o.shardNum
  fixedKey : n.fixedKey = o.fixedKey
  fixedKey2 : n.fixedKey2 = o.fixedKey2
  fixedKey2Ts : n.fixedKey2Ts = o.fixedKey2Ts
  /-- raw-ness of every tag position (a missing tag is not raw) -/
  rawTags : ∀ i, o.rawTags.getD i false = n.rawTags.getD i false

theorem fieldCheck_ok_iff (o n : Meta) : fieldCheck o n = .ok ↔ Frozen o n := by
  unfold fieldCheck
  constructor
  · intro h
    repeat' split at h
    all_goals first | cases h | skip
    rename_i h1 h2 h3 h4 h5 h6 h7 h8 h9 h10
    simp only [weightFrozen, skipsSame, Bool.not_eq_false, bne_iff_ne, ne_eq, Decidable.not_not,
      Bool.or_eq_true, Bool.and_eq_true, beq_iff_eq, Bool.not_eq_eq_eq_not, Bool.not_true] at *
    exact ⟨by rcases h1 with h | h; exact .inl h.symm; exact .inr h, h2.symm, h3.symm, h4.1.1.symm, h4.1.2.symm, h4.2.symm,
      h5.symm, h6.symm, h7.symm, h8.symm, h9.symm, (rawSame_iff _ _).mp h10⟩
  · intro f
    have hw : weightFrozen o n = true := by
      simp only [weightFrozen, Bool.or_eq_true, Bool.and_eq_true, beq_iff_eq]
      rcases f.weight with h | h
      · exact .inl h.symm
      · exact .inr h
    have hs : skipsSame o n = true := by simp [skipsSame, f.skipMaxHost, f.skipMinHost, f.skipSumSquare]
    have hr : rawSame o.rawTags n.rawTags = true := (rawSame_iff _ _).mpr f.rawTags
    simp [hw, hs, hr, f.preKeyFrom, f.preKeyOnly, f.strategy, f.shardNum, f.fixedKey, f.fixedKey2, f.fixedKey2Ts]

/-- **Frozen fields.** If a non-admin edit is accepted then weight is unchanged or goes 0→1, and presort (from, only),
    the three skips, sharding strategy, shard number, both fixed shards and the fixed-shard timestamp and the
    raw-ness of every tag are unchanged. -/
theorem frozen_fields (ai : AI) (c : Bool) (o n : Meta) (ha : ai.admin = false) (h : canEdit ai c o n = .ok) : Frozen o n := by
  unfold canEdit at h
  by_cases hc : canChange ai c o.name n.name = true
  · simp only [hc, Bool.not_true, Bool.false_eq_true, if_false, ha] at h
    exact (fieldCheck_ok_iff o n).mp h
  · simp [hc] at h

/-- exact characterisation of an accepted edit -/
theorem edit_ok_iff (ai : AI) (c : Bool) (o n : Meta) :
    canEdit ai c o n = .ok ↔ canChange ai c o.name n.name = true ∧ (ai.admin = true ∨ Frozen o n) := by
  unfold canEdit
  by_cases hc : canChange ai c o.name n.name = true
  · by_cases ha : ai.admin = true
    · simp [hc, ha]
    · simp [hc, ha, fieldCheck_ok_iff]
  · simp [hc]


/-! ## from the token to the decisions -/

theorem applyGrant_fixed (ai : AI) (g : Grant) :
    (applyGrant ai g).prot = ai.prot ∧ (applyGrant ai g).user = ai.user ∧ (applyGrant ai g).service = ai.service := by
  cases g <;> simp [applyGrant]

theorem applyBits_fixed (bs : List Str) : ∀ ai : AI,
    (applyBits ai bs).prot = ai.prot ∧ (applyBits ai bs).user = ai.user ∧ (applyBits ai bs).service = ai.service := by
  induction bs with
  | nil => intro ai; simp [applyBits]
  | cons b bs ih =>
    intro ai
    have : applyBits ai (b :: bs) = applyBits (applyGrant ai (classify b)) bs := by simp [applyBits]
    rw [this]
    obtain ⟨h1, h2, h3⟩ := ih (applyGrant ai (classify b))
    obtain ⟨g1, g2, g3⟩ := applyGrant_fixed ai (classify b)
    exact ⟨h1.trans g1, h2.trans g2, h3.trans g3⟩

/-- user, service flag and protected prefixes of the accessInfo are the token's / the configuration's -/
theorem grants_fixed (cfg : Cfg) (t : Token) :
    (grants cfg t).prot = cfg.prot ∧ (grants cfg t).user = t.user ∧ (grants cfg t).service = t.service := by
  simpa [grants, emptyAI] using applyBits_fixed (appBits cfg.app t.bits) (emptyAI t.user t.service cfg.prot)

/-- the `admin` flag is set iff the token carries the bit `app:admin` -/
theorem admin_traced (cfg : Cfg) (t : Token) :
    (grants cfg t).admin = true ↔ appPrefix cfg.app ++ lit "admin" ∈ t.bits := by
  have h := grant_traced cfg t .admin
  simp only [Granted] at h
  rw [h]
  constructor
  · rintro ⟨_, s, hb, hc⟩
    have hf := classify_form s _ hc (by simp)
    cases hf
    exact hb
  · intro hb
    exact ⟨by simp, lit "admin", hb, by decide⟩

/-- the remainder `s` of a bit `app:s` that lets `name` be VIEWED -/
inductive ViewBit (prot : List Str) (name : Str) : Str → Prop
  | metric (x : Str) : extractNamespace x = name → ViewBit prot name (pViewMetric ++ x)
  | pref (x : Str) : extractNamespace x <+: name → ViewBit prot name (pViewPrefix ++ x)
  | namespace (y : Str) : (y ++ [colon]) <+: name → ViewBit prot name (pViewNamespace ++ y)
  | default : Unprotected prot name → ViewBit prot name (lit "view_default")

/-- the remainder `s` of a bit `app:s` that lets `name` be EDITED -/
inductive EditBit (prot : List Str) (name : Str) : Str → Prop
  | metric (x : Str) : extractNamespace x = name → EditBit prot name (pEditMetric ++ x)
  | pref (x : Str) : extractNamespace x <+: name → EditBit prot name (pEditPrefix ++ x)
  | namespace (y : Str) : (y ++ [colon]) <+: name → EditBit prot name (pEditNamespace ++ y)
  | default : Unprotected prot name → EditBit prot name (lit "edit_default")

theorem view_right_traced (cfg : Cfg) (t : Token) (name : Str) (h : ViewRight (grants cfg t) name) :
    ∃ s, appPrefix cfg.app ++ s ∈ t.bits ∧ ViewBit cfg.prot name s := by
  rcases h with h | ⟨p, hp, hpre⟩ | ⟨hd, hu⟩
  · obtain ⟨_, s, hb, hc⟩ := (grant_traced cfg t (.viewMetric name)).mp h
    have hf := classify_form s _ hc (by simp)
    cases hf with
    | viewMetric x => exact ⟨_, hb, .metric x rfl⟩
  · obtain ⟨_, s, hb, hc⟩ := (grant_traced cfg t (.viewPrefix p)).mp hp
    have hf := classify_form s _ hc (by simp)
    cases hf with
    | viewPrefix x => exact ⟨_, hb, .pref x hpre⟩
    | viewNamespace y => exact ⟨_, hb, .namespace y hpre⟩
  · obtain ⟨_, s, hb, hc⟩ := (grant_traced cfg t .viewDefault).mp hd
    have hf := classify_form s _ hc (by simp)
    cases hf
    rw [(grants_fixed cfg t).1] at hu
    exact ⟨_, hb, .default hu⟩

theorem edit_right_traced (cfg : Cfg) (t : Token) (name : Str) (h : EditRight (grants cfg t) name) :
    ∃ s, appPrefix cfg.app ++ s ∈ t.bits ∧ EditBit cfg.prot name s := by
  rcases h with h | ⟨p, hp, hpre⟩ | ⟨hd, hu⟩
  · obtain ⟨_, s, hb, hc⟩ := (grant_traced cfg t (.editMetric name)).mp h
    have hf := classify_form s _ hc (by simp)
    cases hf with
    | editMetric x => exact ⟨_, hb, .metric x rfl⟩
  · obtain ⟨_, s, hb, hc⟩ := (grant_traced cfg t (.editPrefix p)).mp hp
    have hf := classify_form s _ hc (by simp)
    cases hf with
    | editPrefix x => exact ⟨_, hb, .pref x hpre⟩
    | editNamespace y => exact ⟨_, hb, .namespace y hpre⟩
  · obtain ⟨_, s, hb, hc⟩ := (grant_traced cfg t .editDefault).mp hd
    have hf := classify_form s _ hc (by simp)
    cases hf
    rw [(grants_fixed cfg t).1] at hu
    exact ⟨_, hb, .default hu⟩

/-- **A metric can be viewed only through a matching metric, prefix or namespace bit or the default bit for an
    unprotected name** — stated on the token: if the holder of token `t` may view `name`, then `t` carries a bit
    `app:s` of one of these four forms, and if `name` is a remote-config metric it also carries `app:admin`. -/
theorem view_only_through_bit (cfg : Cfg) (t : Token) (name : Str) (h : canViewName (grants cfg t) name = true) :
    (remoteConfig name = true → appPrefix cfg.app ++ lit "admin" ∈ t.bits) ∧
    ∃ s, appPrefix cfg.app ++ s ∈ t.bits ∧ ViewBit cfg.prot name s := by
  obtain ⟨h1, h2⟩ := (view_rule _ _).mp h
  exact ⟨fun hr => (admin_traced cfg t).mp (h1 hr), view_right_traced cfg t name h2⟩

/-- **A non-admin can edit (create, change, rename) only with an edit bit for the old AND for the new name, and never
    a remote-config metric** — stated on the token. -/
theorem edit_only_through_bits (cfg : Cfg) (t : Token) (c : Bool) (o n : Meta)
    (hna : appPrefix cfg.app ++ lit "admin" ∉ t.bits) (h : canEdit (grants cfg t) c o n ≠ .forbidden) :
    remoteConfig o.name = false ∧ remoteConfig n.name = false ∧
    (∃ s, appPrefix cfg.app ++ s ∈ t.bits ∧ EditBit cfg.prot o.name s) ∧
    (∃ s, appPrefix cfg.app ++ s ∈ t.bits ∧ EditBit cfg.prot n.name s) := by
  have ha : (grants cfg t).admin = false := by
    cases hh : (grants cfg t).admin with
    | false => rfl
    | true => exact absurd ((admin_traced cfg t).mp hh) hna
  obtain ⟨h1, h2, h3, h4⟩ := edit_needs_both _ c o n ha h
  exact ⟨h1, h2, edit_right_traced cfg t _ h3, edit_right_traced cfg t _ h4⟩

/-- **Nothing is granted without an accepted token.** Outside local / insecure mode parseAccessToken succeeds only on
    a decodable token that satisfies `Valid`, and the result is exactly `grants`. -/
theorem parse_ok_only_if (cfg : Cfg) (now : Int) (inp : Input) (ai : AI)
    (hl : cfg.localMode = false) (hi : cfg.insecure = false) (h : parseAccessToken cfg now inp = .ok ai) :
    ∃ t, inp = .tok t ∧ Valid cfg now t ∧ ai = grants cfg t := by
  unfold parseAccessToken at h
  simp only [hl, hi, Bool.or_self, Bool.false_eq_true, if_false] at h
  cases inp with
  | empty => cases h
  | malformed => cases h
  | tok t =>
    refine ⟨t, rfl, ?_⟩
    cases hv : verify cfg now t with
    | accept =>
      simp only [hv, ofVerdict, Res.ok.injEq] at h
      exact ⟨(accept_iff cfg now t).mp hv, h.symm⟩
    | err m => simp [hv, ofVerdict] at h
    | panic => simp [hv, ofVerdict] at h

/-- **C30, end to end.** Outside local / insecure mode, whenever parseAccessToken returns an accessInfo `ai`:
    the input is a token satisfying the acceptance condition; every grant in `ai` is a bit of that token with the
    application prefix; whatever `ai` may view is covered by a view bit (and `app:admin` for remote-config metrics);
    and if the token has no `app:admin` bit, every edit that is not refused outright has edit bits for both names,
    touches no remote-config metric, and, if accepted, leaves the frozen attributes unchanged. -/
theorem c30_end_to_end (cfg : Cfg) (now : Int) (inp : Input) (ai : AI)
    (hl : cfg.localMode = false) (hi : cfg.insecure = false) (h : parseAccessToken cfg now inp = .ok ai) :
    ∃ t, inp = .tok t ∧ Valid cfg now t ∧
      (∀ g, Granted ai g ↔ g ≠ .nothing ∧ ∃ s, appPrefix cfg.app ++ s ∈ t.bits ∧ classify s = g) ∧
      (∀ name, canViewName ai name = true →
        (remoteConfig name = true → appPrefix cfg.app ++ lit "admin" ∈ t.bits) ∧
        ∃ s, appPrefix cfg.app ++ s ∈ t.bits ∧ ViewBit cfg.prot name s) ∧
      (appPrefix cfg.app ++ lit "admin" ∉ t.bits → ∀ c o n,
        (canEdit ai c o n ≠ .forbidden →
          remoteConfig o.name = false ∧ remoteConfig n.name = false ∧
          (∃ s, appPrefix cfg.app ++ s ∈ t.bits ∧ EditBit cfg.prot o.name s) ∧
          (∃ s, appPrefix cfg.app ++ s ∈ t.bits ∧ EditBit cfg.prot n.name s)) ∧
        (canEdit ai c o n = .ok → Frozen o n)) := by
  obtain ⟨t, rfl, hv, rfl⟩ := parse_ok_only_if cfg now inp ai hl hi h
  refine ⟨t, rfl, hv, grant_traced cfg t, view_only_through_bit cfg t, ?_⟩
  intro hna c o n
  refine ⟨edit_only_through_bits cfg t c o n hna, ?_⟩
  have ha : (grants cfg t).admin = false := by
    cases hh : (grants cfg t).admin with
    | false => rfl
    | true => exact absurd ((admin_traced cfg t).mp hh) hna
  exact frozen_fields _ c o n ha


/-! ## window in raw milliseconds, and the rejection of every one-aspect tampering -/

theorem truncSec_le (x : Int) : truncSec x ≤ x ∧ x < truncSec x + 1000 := by
  unfold truncSec; omega

/-- an accepted token is inside its validity window: not later than 5 s after `exp`; `iat` / `nbf` are NumericDates
    (whole seconds), so they are at most 5 s (+ the sub-second fraction golang-jwt drops) resp. the fraction ahead -/
theorem accept_window (cfg : Cfg) (now : Int) (t : Token) (h : verify cfg now t = .accept) :
    ∃ e i, t.exp = some e ∧ t.iat = some i ∧ now < e + 5000 ∧ i < now + 6000 ∧ ∀ n, t.nbf = some n → n < now + 1000 := by
  obtain ⟨_, _, _, _, _, ⟨e, he, h1⟩, ⟨i, hi, h2⟩, h3⟩ := (accept_iff cfg now t).mp h
  refine ⟨e, i, he, hi, ?_, ?_, ?_⟩
  · have := truncSec_le e; rw [gen_window] at h1; omega
  · have := truncSec_le i; rw [gen_window] at h2; omega
  · intro n hn; have := truncSec_le n; have := h3 n hn; omega

/-! ### the expiry decision must be a comparison on unbounded time, not on a wrapping Duration

  `expOk` compares instants (time.Time.Before). The variant below is the seeded change C30-r5-2: the decision is the
  sign of `time.Duration(expireAtNow.Unix() - exp.Unix()) * time.Second`, an int64 number of nanoseconds that wraps
  when the token expired more than 2^63 ns (≈ 292 years) ago. It agrees with `expOk` inside ±292 years and ACCEPTS
  tokens that expired between ≈ 292 and ≈ 584 years ago. -/

/-- two's-complement int64 -/
def wrap64 (x : Int) : Int := (x + 9223372036854775808) % 18446744073709551616 - 9223372036854775808

/-- variant (NOT the code): `delta := Duration(expireAtNow.Unix()-exp.Unix()) * Second; expired iff delta >= 0` -/
def expOkWrap (now exp : Int) : Bool :=
  decide (wrap64 (((now - window) / 1000 - exp / 1000) * 1000000000) < 0)

theorem wrap64_id (x : Int) (h : -9223372036854775808 ≤ x ∧ x < 9223372036854775808) : wrap64 x = x := by
  unfold wrap64
  rw [Int.emod_eq_of_lt (by omega) (by omega)]
  omega

/-- inside ±9.2e9 s (≈ 292 years) the variant is the same decision … -/
theorem expOkWrap_agrees (now exp : Int)
    (h : -9223372036 < (now - window) / 1000 - exp / 1000 ∧ (now - window) / 1000 - exp / 1000 < 9223372036) :
    expOkWrap now exp = expOk now exp := by
  unfold expOkWrap expOk truncSec
  have hw : window = 5000 := by decide
  rw [hw] at h ⊢
  rw [wrap64_id _ (by omega)]
  by_cases hlt : now < exp / 1000 * 1000 + 5000
  · have : ((now - 5000) / 1000 - exp / 1000) * 1000000000 < 0 := by omega
    simp [hlt, this]
  · have : ¬ ((now - 5000) / 1000 - exp / 1000) * 1000000000 < 0 := by omega
    simp [hlt, this]

/-- … but a token that expired 370 years ago (exp = −10 000 000 000 s, now = 1 700 000 000 s) is expired for the code
    and NOT expired for the variant: `expOk` cannot be replaced by wrapping Duration arithmetic. -/
theorem expOkWrap_accepts_long_expired :
    expOk 1700000000000 (-10000000000000) = false ∧ expOkWrap 1700000000000 (-10000000000000) = true ∧
    expOk 1700000000000 (-12000000000000) = false ∧ expOkWrap 1700000000000 (-12000000000000) = true := by decide

/-- the model rejects every expired token, however long ago it expired (no lower bound on `exp`) -/
theorem long_expired_rejected (cfg : Cfg) (now : Int) (t : Token) (e : Int) (he : t.exp = some e) (h : e + 5000 ≤ now) :
    verify cfg now t ≠ .accept := by
  intro hv
  obtain ⟨_, _, _, _, _, ⟨e', he', h1⟩, _⟩ := (accept_iff cfg now t).mp hv
  rw [he] at he'; cases he'
  have := truncSec_le e
  rw [gen_window] at h1
  omega

/-- **Every token outside the property's acceptance set is rejected** (wrong or missing alg, wrong kind header, kid
    missing / not a string / naming no configured key, signature not valid under the named key, foreign issuer, no
    user, no or passed expiry, issue time missing or in the future, not-before in the future). -/
theorem tampered_rejected (cfg : Cfg) (now : Int) (t : Token)
    (h : t.alg ≠ .str C30.algEdDSA ∨ t.kind ≠ .str C30.kindToken ∨
         (∀ k, t.kid = .str k → tableGet cfg.keys k = none) ∨
         (∀ k key, t.kid = .str k → tableGet cfg.keys k = some key → key ∉ t.sigValid) ∨
         t.iss ≠ C30.issuer ∨ t.user = [] ∨
         t.exp = none ∨ (∃ e, t.exp = some e ∧ e + 5000 ≤ now) ∨
         t.iat = none ∨ (∃ i, t.iat = some i ∧ now + 6000 ≤ i) ∨
         (∃ n, t.nbf = some n ∧ now + 1000 ≤ n)) :
    verify cfg now t ≠ .accept := by
  intro hv
  obtain ⟨e, i, he, hi, h1, h2, h3⟩ := accept_window cfg now t hv
  obtain ⟨ha, hk, ⟨k, key, hk1, hk2, hk3⟩, hiss, hu, _⟩ := (accept_iff cfg now t).mp hv
  rcases h with h | h | h | h | h | h | h | ⟨e', he', h⟩ | h | ⟨i', hi', h⟩ | ⟨n, hn, h⟩
  · exact h ha
  · exact h hk
  · rw [h k hk1] at hk2; cases hk2
  · exact h k key hk1 hk2 hk3
  · exact h hiss
  · exact hu h
  · rw [h] at he; cases he
  · rw [he] at he'; cases he'; omega
  · rw [h] at hi; cases hi
  · rw [hi] at hi'; cases hi'; omega
  · have := h3 n hn; omega

/-! ## non-vacuity: concrete tokens, bits and metric pairs (all by kernel evaluation of the model) -/

def kA : Str := lit "key-a"
def kB : Str := lit "key-b"
def pubA : Key := [1, 2, 3]
def pubB : Key := [4, 5, 6]
def pubC : Key := [7, 8, 9]
def fp0 (k : Key) : Str := if k = pubA then kA else if k = pubB then kB else lit "key-c"
def cfg0 : Cfg := { app := lit "statshouse", keys := parseKeys fp0 [pubA, pubB], prot := [lit "foo_"], localMode := false, insecure := false }
def tok0 : Token :=
  { alg := .str (lit "EdDSA"), kind := .str (lit "token"), kid := .str kA, sigValid := [pubA], iss := lit "vkuth", user := lit "u",
    exp := some 1000000, iat := some 900000, nbf := none, service := false,
    bits := [lit "statshouse:view_default", lit "other:admin", lit "admin", lit "statshouse2:admin",
             lit "statshouse:edit_prefix.ns@foo_", lit "statshouse:view_metric.foo_bar", lit "statshouse:edit_namespace.team"] }

-- a valid token is accepted; the window boundaries are where the code puts them
example : verify cfg0 950000 tok0 = .accept := by decide
example : verify cfg0 1004999 tok0 = .accept ∧ verify cfg0 1005000 tok0 = .err 16 := by decide
example : verify cfg0 895000 tok0 = .accept ∧ verify cfg0 894999 tok0 = .err 32 := by decide
example : verify cfg0 950000 { tok0 with nbf := some 950000 } = .accept ∧
          verify cfg0 950000 { tok0 with nbf := some 951000 } = .err 128 := by decide
-- one-aspect tampering
example : verify cfg0 950000 { tok0 with alg := .str (lit "HS256") } = .err 4 := by decide
example : verify cfg0 950000 { tok0 with alg := .str (lit "none") } = .err 4 := by decide
example : verify cfg0 950000 { tok0 with alg := .str (lit "XX") } = .err 2 := by decide
example : verify cfg0 950000 { tok0 with alg := .absent } = .err 2 := by decide
example : verify cfg0 950000 { tok0 with kind := .str (lit "cookie") } = .err 2 := by decide
example : verify cfg0 950000 { tok0 with kind := .absent } = .err 2 := by decide
example : verify cfg0 950000 { tok0 with kid := .str kB } = .err 4 := by decide            -- signed by A, names B
example : verify cfg0 950000 { tok0 with kid := .str kB, sigValid := [pubB] } = .accept := by decide   -- rotation: the other key
example : verify cfg0 950000 { tok0 with sigValid := [pubB] } = .err 4 := by decide       -- names A, signed by configured B
example : verify cfg0 950000 { tok0 with sigValid := [pubC] } = .err 4 := by decide       -- names A, signed by unconfigured C
example : verify cfg0 950000 { tok0 with kid := .str (lit "key-c"), sigValid := [pubC] } = .err 2 := by decide
example : tableGet cfg0.keys kA = some pubA ∧ tableGet cfg0.keys kB = some pubB ∧ tableGet cfg0.keys (lit "key-c") = none := by decide
-- the aliasing defect shape (every id ↦ the LAST key) is a different table: it accepts B's signature under A's id
example : verify { cfg0 with keys := [(kA, pubB), (kB, pubB)] } 950000 { tok0 with sigValid := [pubB] } = .accept ∧
          verify { cfg0 with keys := [(kA, pubB), (kB, pubB)] } 950000 tok0 = .err 4 := by decide
example : verify cfg0 950000 { tok0 with kid := .other } = .err 2 := by decide
example : verify cfg0 950000 { tok0 with sigValid := [] } = .err 4 := by decide
example : verify cfg0 950000 { tok0 with iss := lit "vkuth2" } = .err 512 := by decide
example : verify cfg0 950000 { tok0 with user := [] } = .err 512 := by decide
example : verify cfg0 950000 { tok0 with iat := none } = .err 32 := by decide
example : verify cfg0 950000 { tok0 with exp := none } = .panic := by decide
-- expiry is decided on unbounded time: 1970, before 1970, ±292 / ±584 years, the int64-second extremes
example : verify cfg0 950000 { tok0 with exp := some 0 } = .err 16 ∧
          verify cfg0 950000 { tok0 with exp := some (-1) } = .err 16 ∧
          verify cfg0 1700000000000 { tok0 with exp := some (-10000000000000) } = .err 16 ∧
          verify cfg0 1700000000000 { tok0 with exp := some (1700000000000 - 9223372036000) } = .err 16 ∧
          verify cfg0 1700000000000 { tok0 with exp := some (1700000000000 - 18446744073000) } = .err 16 ∧
          verify cfg0 1700000000000 { tok0 with exp := some (-9223372036854775808000) } = .err 16 ∧
          verify cfg0 1700000000000 { tok0 with exp := some 253402300799000 } = .accept ∧
          verify cfg0 1700000000000 { tok0 with exp := some 9007199254740992000 } = .accept := by decide
example : verify cfg0 2000000 { tok0 with iss := [], iat := none } = .err (16 + 32 + 512) := by decide
-- the hypotheses of c30_end_to_end are satisfiable, local mode ignores the token
example : parseAccessToken cfg0 950000 (.tok tok0) = .ok (grants cfg0 tok0) := by decide
example : parseAccessToken cfg0 950000 .empty = .err 0 ∧ parseAccessToken cfg0 950000 .malformed = .err 1 := by decide
example : parseAccessToken { cfg0 with insecure := true } 0 .malformed = .ok (insecureAI { cfg0 with insecure := true }) := by decide
-- only the application's bits count
example : (grants cfg0 tok0).admin = false ∧ (grants cfg0 tok0).viewDefault = true ∧ (grants cfg0 tok0).editDefault = false ∧
          (grants cfg0 tok0).editPrefix = [lit "team:", lit "ns:foo_"] ∧ (grants cfg0 tok0).viewMetric = [lit "foo_bar"] ∧
          (grants cfg0 tok0).viewPrefix = [] := by decide
-- view: metric bit beats protection, default does not, remote config is admin only
example : canViewName (grants cfg0 tok0) (lit "foo_bar") = true ∧ canViewName (grants cfg0 tok0) (lit "foo_baz") = false ∧
          canViewName (grants cfg0 tok0) (lit "abc") = true ∧
          canViewName (grants cfg0 tok0) (lit "statshouse_api_remote_config") = false := by decide
example : canViewName (grants cfg0 { tok0 with bits := [lit "statshouse:admin", lit "statshouse:view_default"] })
            (lit "statshouse_api_remote_config") = true := by decide
example : canViewName (grants cfg0 { tok0 with bits := [lit "statshouse:admin"] }) (lit "abc") = false := by decide

def m0 : Meta :=
  { name := lit "ns:foo_a", weightQ := 0, preKeyFrom := 0, preKeyOnly := false, skipMaxHost := false, skipMinHost := true,
    skipSumSquare := false, strategy := [], shardNum := 0, fixedKey := 0, fixedKey2 := 0, fixedKey2Ts := 0, rawTags := [false, true] }

-- edit: rights on both names, frozen attributes
example : canEdit (grants cfg0 tok0) false m0 m0 = .ok := by decide
example : canEdit (grants cfg0 tok0) false m0 { m0 with name := lit "ns:foo_b", weightQ := 4 } = .ok := by decide
example : canEdit (grants cfg0 tok0) false m0 { m0 with name := lit "team:x" } = .ok := by decide
example : canEdit (grants cfg0 tok0) false m0 { m0 with name := lit "abc" } = .forbidden := by decide
example : canEdit (grants cfg0 tok0) false { m0 with name := lit "abc" } m0 = .forbidden := by decide
example : canEdit (grants cfg0 tok0) false m0 { m0 with weightQ := 8 } = .weight := by decide
example : canEdit (grants cfg0 tok0) false { m0 with weightQ := 4 } { m0 with weightQ := 0 } = .weight := by decide
example : canEdit (grants cfg0 tok0) false m0 { m0 with preKeyFrom := 1 } = .presort := by decide
example : canEdit (grants cfg0 tok0) false m0 { m0 with preKeyOnly := true } = .presortOnly := by decide
example : canEdit (grants cfg0 tok0) false m0 { m0 with skipMinHost := false, skipSumSquare := true } = .skips := by decide
example : canEdit (grants cfg0 tok0) false m0 { m0 with strategy := lit "fixed_shard" } = .strategy := by decide
example : canEdit (grants cfg0 tok0) false m0 { m0 with fixedKey2Ts := 1 } = .shard := by decide
example : canEdit (grants cfg0 tok0) false m0 { m0 with rawTags := [false] } = .raw := by decide
example : canEdit (grants cfg0 tok0) false m0 { m0 with rawTags := [false, true, false] } = .ok := by decide
example : canEdit (grants cfg0 tok0) false m0 { m0 with rawTags := [false, true, true] } = .raw := by decide
example : canEdit (grants cfg0 { tok0 with bits := [lit "statshouse:admin"] }) false m0
            { m0 with name := lit "statshouse_journal_dump", weightQ := 40, rawTags := [] } = .ok := by decide
example : canEdit (grants cfg0 { tok0 with bits := [lit "statshouse:edit_default"] }) true
            { m0 with name := lit "statshouse_journal_dump" } { m0 with name := lit "statshouse_journal_dump" } = .forbidden := by decide

end SH.Props.C30
