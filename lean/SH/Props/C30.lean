import SH.Model.Access
namespace SH.Props.C30
open SH.Access
theorem gen_window : window = 5000 := by decide
end SH.Props.C30
