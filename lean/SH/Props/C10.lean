/-
  C10 — Shard and replica routing is deterministic and consistent end to end.

  "For every metric and key, the shard an agent writes to is within the configured shard count, does not depend
   on the event timestamp, and for fixed or by-metric sharding equals the shard the API reads that metric from;
   a secondary shard, when configured, differs from the primary. Each second goes to one primary replica, its
   spare is always a different replica and the two remaining replicas share spare traffic, and the aggregator
   files every accepted second into a bucket it will itself insert at most two seconds later, or into its
   historic queue."

  Model: SH.Model.Routing (tied to /repo by the C10 correspondence, incl. a real Aggregator).

  Timestamp independence: the model functions `shardRaw`/`agentShard`/`apiShard` do not take the event timestamp
  at all — the only channel through which it could enter the real code is Key.XXHash (which skips the first four
  marshalled bytes); that is checked on the real code by the direct oracle (signature shard-depends-on-timestamp),
  not by a theorem: a Lean statement about a function that has no such argument would be vacuous.
-/
import SH.Model.Routing
import SH.Gen.C10

namespace SH.C10
open SH.Routing

/-! ### shard choice -/

/-- "the shard an agent writes to is within the configured shard count": whatever the metric says (any strategy,
    any fixed keys, any hash, any by-metric count), Agent.shard returns a shard index below len(s.Shards). -/
theorem shard_lt_count (m : Meta) (km : Int) (hash cnt ns : Nat) (hns : 0 < ns) (a : AgentShard)
    (h : agentShard m km hash cnt ns = some a) : a.shard1 < ns := by
  simp only [agentShard, Option.map_eq_some_iff] at h
  obtain ⟨raw, _, rfl⟩ := h
  unfold agentShardOf
  by_cases ho : overflow raw ns = true
  · simp [ho, hns]
  · simp only [ho]
    simp [overflow] at ho
    exact ho.2

example : agentShard ⟨0, .byMetric, 0, -7, 0⟩ (-7) 0 5 8 = some ⟨4, true, none⟩ := by decide

/-- when the agent accepts the shard (`ok`), it is exactly what sharding.Shard computed -/
theorem shard_ok_is_raw (m : Meta) (km : Int) (hash cnt ns : Nat) (a : AgentShard)
    (h : agentShard m km hash cnt ns = some a) (hok : a.ok = true) :
    ∃ raw, shardRaw m km hash cnt = some (raw, true) ∧ a.shard1 = raw ∧ raw < ns := by
  simp only [agentShard, Option.map_eq_some_iff] at h
  obtain ⟨raw, hr, rfl⟩ := h
  unfold agentShardOf at hok ⊢
  by_cases ho : overflow raw ns = true
  · simp [ho] at hok
  · simp only [ho]
    simp [overflow] at ho
    refine ⟨raw.1, ?_, rfl, ho.2⟩
    rw [hr]; congr 1; exact Prod.ext rfl ho.1

/-- by-metric and tags-hash sharding stay below the by-metric shard count (hash is a uint64) -/
theorem shardRaw_lt_count (m : Meta) (km : Int) (hash cnt : Nat) (hh : hash < u32 * u32) (hfk : m.fixedKey = 0)
    (hs : m.strategy = .byMetric ∨ m.strategy = .tagsHash) (hc : 0 < cnt) (s : Nat) (ok : Bool)
    (h : shardRaw m km hash cnt = some (s, ok)) : s < cnt ∧ ok = true := by
  unfold shardRaw at h
  simp only [hfk, Nat.lt_irrefl, ↓reduceIte] at h
  rcases hs with hs | hs
  · simp only [hs] at h
    have : cnt ≠ 0 := by omega
    simp only [this, ↓reduceIte, Option.some.injEq, Prod.mk.injEq] at h
    exact ⟨h.1 ▸ Nat.mod_lt _ hc, h.2.symm⟩
  · simp only [hs, Option.some.injEq, Prod.mk.injEq] at h
    refine ⟨?_, h.2.symm⟩
    rw [← h.1]
    unfold shardByMappedTags
    have h1 : hash / u32 < u32 := Nat.div_lt_of_lt_mul hh
    have h2 : hash / u32 * cnt < u32 * cnt := Nat.mul_lt_mul_of_pos_right h1 hc
    exact Nat.div_lt_of_lt_mul h2

example : shardRaw ⟨0, .tagsHash, 0, 1, 0⟩ 1 (u32 * u32 - 1) 16 = some (15, true) := by decide

/-- "for fixed or by-metric sharding [the agent's shard] equals the shard the API reads that metric from":
    whenever the API considers the metric sharded and the agent accepted its shard, both are the same number
    (same metric id in key and meta, same by-metric count on both sides, count a positive uint32). -/
theorem agent_api_agree (m : Meta) (hash cnt ns : Nat) (hc : 0 < cnt) (hc' : cnt < u32) (a : AgentShard)
    (hsh : apiSharded m = true)
    (h : agentShard m m.metricID hash cnt ns = some a) (hok : a.ok = true) :
    apiShard m cnt = some (a.shard1 : Int) := by
  obtain ⟨raw, hr, h1, _⟩ := shard_ok_is_raw m m.metricID hash cnt ns a h hok
  subst h1
  unfold shardRaw at hr
  unfold apiShard
  unfold apiSharded at hsh
  by_cases hfk : m.fixedKey > 0
  · simp only [hfk, ↓reduceIte, Option.some.injEq, Prod.mk.injEq, and_true] at hr ⊢
    simp [hr]
  · simp only [hfk, ↓reduceIte] at hr hsh ⊢
    cases hs : m.strategy <;> simp only [hs] at hr hsh ⊢
    · simp at hr; simp [hr]
    · have hcm : cnt % u32 = cnt := Nat.mod_eq_of_lt hc'
      have : cnt ≠ 0 := by omega
      simp [this] at hr
      simp [hcm, this, hr]
    all_goals simp at hsh

example : agentShard ⟨0, .byMetric, 0, -7, 0⟩ (-7) 0 5 8 = some ⟨4, true, none⟩ ∧
    apiShard ⟨0, .byMetric, 0, -7, 0⟩ 5 = some 4 := by decide

/-- "a secondary shard, when configured, differs from the primary" (and is a real shard) -/
theorem shard2_ne_shard1 (m : Meta) (km : Int) (hash cnt ns : Nat) (a : AgentShard) (s2 : Nat)
    (h : agentShard m km hash cnt ns = some a) (h2 : a.shard2 = some s2) : s2 ≠ a.shard1 ∧ s2 < ns := by
  simp only [agentShard, Option.map_eq_some_iff] at h
  obtain ⟨raw, _, rfl⟩ := h
  unfold agentShardOf at h2 ⊢
  have key : ∀ s1, secondary m s1 ns = some s2 → s2 ≠ s1 ∧ s2 < ns := by
    intro s1 hs
    unfold secondary at hs
    split at hs
    · split at hs
      · rename_i hc; simp at hs; subst hs; exact ⟨hc.2, hc.1⟩
      · simp at hs
    · simp at hs
  by_cases ho : overflow raw ns = true
  · simp only [ho, ↓reduceIte] at h2 ⊢; exact key 0 h2
  · simp only [ho] at h2 ⊢; exact key _ h2

example : agentShard ⟨3, .fixed, 0, 1, 5⟩ 1 0 8 8 = some ⟨2, true, some 4⟩ := by decide
/-- the same key configured twice yields no secondary -/
example : agentShard ⟨3, .fixed, 0, 1, 3⟩ 1 0 8 8 = some ⟨2, true, none⟩ := by decide



/-! ### agent ↔ API with two counts: the by-metric shard count may be smaller than the number of shards -/

theorem agentShardV_shards (m : Meta) (km : Int) (hash cnt ns : Nat) :
    agentShardV .shards m km hash cnt ns = agentShard m km hash cnt ns := rfl

/-- "for fixed or by-metric sharding [the agent's shard] equals the shard the API reads that metric from", in the
    direction that matters for readers: for EVERY configuration with a by-metric count ≥ 1 — equal to the number of
    shards, below it (cluster grown, by-metric metrics pinned to the former shards), or 1 — whenever the API reads one
    specific shard `s` (chutil: Sharded(), Shard(byMetric) below the real shard count), the agent accepts the metric
    and writes it to exactly `s`; this covers fixed keys and fixed_shard numbers on every index up to the highest
    shard, also those ≥ the by-metric count. -/
theorem agent_shard_eq_api_shard (m : Meta) (hash cnt ns s : Nat) (hc : 1 ≤ cnt) (hc' : cnt < u32)
    (h : apiReadShard m cnt ns = some s) :
    ∃ a, agentShard m m.metricID hash cnt ns = some a ∧ a.ok = true ∧ a.shard1 = s ∧ s < ns := by
  unfold apiReadShard at h
  by_cases hsh : apiSharded m = true
  · simp only [hsh, ↓reduceIte] at h
    unfold apiSharded at hsh
    unfold apiShard at h
    have key : ∀ raw : Nat, shardRaw m m.metricID hash cnt = some (raw, true) → raw < ns →
        ∃ a, agentShard m m.metricID hash cnt ns = some a ∧ a.ok = true ∧ a.shard1 = raw := by
      intro raw hr hlt
      refine ⟨agentShardOf m (raw, true) ns, by unfold agentShard; rw [hr]; rfl, ?_, ?_⟩
      all_goals
        unfold agentShardOf
        have ho : overflow (raw, true) ns = false := by simp [overflow]; omega
        simp [ho]
    by_cases hfk : m.fixedKey > 0
    · simp only [hfk, ↓reduceIte] at h
      split at h
      · rename_i hr
        simp only [Option.some.injEq] at h
        have hs : s = m.fixedKey - 1 := by omega
        have hraw : shardRaw m m.metricID hash cnt = some (m.fixedKey - 1, true) := by unfold shardRaw; simp [hfk]
        obtain ⟨a, h1, h2, h3⟩ := key _ hraw (by omega)
        exact ⟨a, h1, h2, by omega, by omega⟩
      · cases h
    · simp only [hfk, ↓reduceIte] at h hsh
      cases hst : m.strategy <;> simp only [hst] at h hsh
      · split at h
        · rename_i hr
          simp only [Option.some.injEq] at h
          have hraw : shardRaw m m.metricID hash cnt = some (m.shardNum, true) := by unfold shardRaw; simp [hfk, hst]
          obtain ⟨a, h1, h2, h3⟩ := key _ hraw (by omega)
          exact ⟨a, h1, h2, by omega, by omega⟩
        · cases h
      · have hcm : cnt % u32 = cnt := Nat.mod_eq_of_lt hc'
        have hne : cnt ≠ 0 := by omega
        simp only [hcm, hne, ↓reduceIte] at h
        split at h
        · rename_i hr
          simp only [Option.some.injEq] at h
          have hraw : shardRaw m m.metricID hash cnt = some (toU32 m.metricID % cnt, true) := by
            unfold shardRaw; simp [hfk, hst, hne]
          obtain ⟨a, h1, h2, h3⟩ := key _ hraw (by omega)
          exact ⟨a, h1, h2, by omega, by omega⟩
        · cases h
      all_goals simp at hsh
  · simp [hsh] at h

/-- with 1 ≤ byMetric ≤ shards a by-metric metric is always read from one specific shard (never "all shards") -/
theorem by_metric_reads_one_shard (m : Meta) (cnt ns : Nat) (hc : 1 ≤ cnt) (hcn : cnt ≤ ns) (hc' : cnt < u32)
    (hfk : m.fixedKey = 0) (hst : m.strategy = .byMetric) :
    apiReadShard m cnt ns = some (toU32 m.metricID % cnt) := by
  have hcm : cnt % u32 = cnt := Nat.mod_eq_of_lt hc'
  have hne : cnt ≠ 0 := by omega
  have hlt : toU32 m.metricID % cnt < cnt := Nat.mod_lt _ (by omega)
  unfold apiReadShard apiSharded apiShard
  simp only [hfk, Nat.lt_irrefl, ↓reduceIte, hst, hcm, hne]
  have : (0 : Int) ≤ ((toU32 m.metricID % cnt : Nat) : Int) ∧ ((toU32 m.metricID % cnt : Nat) : Int) < (ns : Int) := by omega
  rw [if_pos this, Int.toNat_natCast]

/-- non-vacuity: 8 shards, by-metric count 4, metric pinned to the highest shard by key resp. by fixed_shard number;
    a by-metric metric under the same configuration -/
example : apiReadShard ⟨8, .byMetric, 0, 5, 0⟩ 4 8 = some 7 ∧
    agentShard ⟨8, .byMetric, 0, 5, 0⟩ 5 0 4 8 = some ⟨7, true, none⟩ := by decide
example : apiReadShard ⟨0, .fixed, 7, 5, 0⟩ 4 8 = some 7 ∧ agentShard ⟨0, .fixed, 7, 5, 0⟩ 5 0 4 8 = some ⟨7, true, none⟩ := by
  decide
example : apiReadShard ⟨0, .byMetric, 0, -7, 0⟩ 4 8 = some 1 ∧ agentShard ⟨0, .byMetric, 0, -7, 0⟩ (-7) 0 4 8 = some ⟨1, true, none⟩ := by
  decide
/-- the variant that compares with the by-metric count (seeded/C10-r4-1) breaks the statement exactly there: the API
    reads shard 7, the agent reports a sharding failure and falls back to shard 0; with equal counts both variants agree -/
example : agentShardV .byMetric ⟨8, .byMetric, 0, 5, 0⟩ 5 0 4 8 = some ⟨0, false, none⟩ ∧
    agentShardV .byMetric ⟨0, .fixed, 1, 0, 0⟩ 0 0 1 2 = some ⟨0, false, none⟩ ∧ apiReadShard ⟨0, .fixed, 1, 0, 0⟩ 1 2 = some 1 ∧
    agentShardV .byMetric ⟨8, .byMetric, 0, 5, 0⟩ 5 0 8 8 = agentShardV .shards ⟨8, .byMetric, 0, 5, 0⟩ 5 0 8 8 := by decide

/-! ### tags_hash sharding and the event timestamp (xxh3 as data: any function `H` of the hashed bytes) -/

theorem le32_length (n : Nat) : (le32 n).length = 4 := rfl

/-- Key.XXHash hashes `MarshalAppend(key)[4:]`; the four bytes it skips are exactly the little-endian timestamp, so
    the hashed bytes do not change when only the timestamp changes (marshalKey is tied byte for byte to the real
    MarshalAppend by the correspondence op `key`). -/
theorem hashInput_ignores_ts (k : Key) (t : Nat) : hashInput { k with ts := t } = hashInput k := by
  unfold hashInput marshalKey
  simp only
  rw [List.drop_append_of_le_length (by simp [le32_length]), List.drop_append_of_le_length (by simp [le32_length])]
  simp [le32]

/-- "[the shard] does not depend on the event timestamp": for every metric configuration (all strategies, including
    tags_hash where the key hash enters), every hash function, two keys that differ only in their timestamp are
    routed identically — primary, validity flag and secondary. -/
theorem shard_ignores_ts (H : List UInt8 → Nat) (m : Meta) (k : Key) (t cnt ns : Nat) :
    agentShardKey H m { k with ts := t } cnt ns = agentShardKey H m k cnt ns := by
  unfold agentShardKey
  rw [hashInput_ignores_ts]

/-- tags_hash: with a 64-bit hash and a by-metric shard count not above the number of shards, the agent accepts the
    shard `(hash >> 32) * count >> 32`, which is below the count (hence within the configured shards). -/
theorem tags_hash_lt_count (H : List UInt8 → Nat) (hH : ∀ b, H b < u32 * u32) (m : Meta) (hfk : m.fixedKey = 0)
    (hs : m.strategy = .tagsHash) (k : Key) (cnt ns : Nat) (hc : 0 < cnt) (hcn : cnt ≤ ns) :
    ∃ a, agentShardKey H m k cnt ns = some a ∧ a.ok = true ∧
      a.shard1 = shardByMappedTags (H (hashInput k)) cnt ∧ a.shard1 < cnt := by
  have hraw : shardRaw m k.metric (H (hashInput k)) cnt = some (shardByMappedTags (H (hashInput k)) cnt, true) := by
    unfold shardRaw; simp [hfk, hs]
  have hlt := (shardRaw_lt_count m k.metric (H (hashInput k)) cnt (hH _) hfk (Or.inr hs) hc _ _ hraw).1
  refine ⟨agentShardOf m (shardByMappedTags (H (hashInput k)) cnt, true) ns, ?_, ?_, ?_, ?_⟩
  · unfold agentShardKey agentShard; rw [hraw]; rfl
  all_goals
    unfold agentShardOf
    have ho : overflow (shardByMappedTags (H (hashInput k)) cnt, true) ns = false := by
      simp [overflow]; omega
    simp [ho]
  exact hlt

/-- non-vacuity: a key with integer and string tags, two timestamps, a stand-in hash -/
example : hashInput ⟨1700000000, -7, [5, 0, 9, 0], [[], [0x61]]⟩ = hashInput ⟨1, -7, [5, 0, 9, 0], [[], [0x61]]⟩ ∧
    (marshalKey ⟨1, -7, [5, 0, 9, 0], [[], [0x61]]⟩).take 4 = [1, 0, 0, 0] ∧
    (marshalKey ⟨1700000000, -7, [5, 0, 9, 0], [[], [0x61]]⟩).take 4 ≠ [1, 0, 0, 0] := by decide
example : agentShardKey (fun b => b.length * 2 ^ 59) ⟨0, .tagsHash, 0, -7, 0⟩ ⟨1, -7, [5], []⟩ 16 16 =
    some ⟨5, true, none⟩ := by decide

/-! ### replicas -/

/-- "Each second goes to one primary replica, its spare is always a different replica" — for every uint32 second,
    including the last one where `timestamp+1+timestamp%2` wraps. -/
theorem spare_nowrap (t : Nat) (h : t + 2 < u32) : spare t = (t + 1 + t % 2) % 3 := by
  unfold spare
  rw [Nat.mod_eq_of_lt (show t + 1 + t % 2 < u32 by unfold u32 at *; omega)]

theorem spare_ne_primary (t : Nat) (ht : t < u32) : spare t ≠ primary t ∧ spare t < 3 ∧ primary t < 3 := by
  by_cases h : t + 2 < u32
  · rw [spare_nowrap t h]; unfold primary; omega
  · have : t = 4294967294 ∨ t = 4294967295 := by unfold u32 at *; omega
    rcases this with rfl | rfl <;> decide

/-- what getShardReplicaForSecond returns: the primary when it is alive (never flagged spare); otherwise the spare
    (flagged, and a different replica) when that is alive; otherwise nothing — the third replica is never used. -/
theorem replicaFor_spec (alive : Nat → Bool) (t : Nat) (ht : t < u32) :
    (alive (primary t) = true → replicaFor alive t = (some (primary t), false)) ∧
    (alive (primary t) = false → alive (spare t) = true →
        replicaFor alive t = (some (spare t), true) ∧ spare t ≠ primary t) ∧
    (alive (primary t) = false → alive (spare t) = false → replicaFor alive t = (none, false)) := by
  refine ⟨?_, ?_, ?_⟩
  · intro h; simp [replicaFor, h]
  · intro h1 h2; exact ⟨by simp [replicaFor, h1, h2], (spare_ne_primary t ht).1⟩
  · intro h1 h2; simp [replicaFor, h1, h2]

example : replicaFor (fun i => i != 1) 4 = (some 2, true) := by decide

/-- "the two remaining replicas share spare traffic": in any 6 consecutive seconds every ordered pair
    (primary p, spare q ≠ p) occurs … -/
theorem spares_balanced_exists (t0 : Nat) (h0 : t0 + 7 < u32) (p q : Nat) (hp : p < 3) (hq : q < 3) (hpq : p ≠ q) :
    ∃ t, t0 ≤ t ∧ t < t0 + 6 ∧ primary t = p ∧ spare t = q := by
  -- the residue class mod 6 that realises (p, q)
  have hcls : ∃ c, c < 6 ∧ c % 3 = p ∧ (c + 1 + c % 2) % 3 = q := by
    have : p = 0 ∨ p = 1 ∨ p = 2 := by omega
    have : q = 0 ∨ q = 1 ∨ q = 2 := by omega
    rcases ‹p = 0 ∨ p = 1 ∨ p = 2› with rfl | rfl | rfl <;> rcases ‹q = 0 ∨ q = 1 ∨ q = 2› with rfl | rfl | rfl
    all_goals first
      | exact absurd rfl hpq
      | exact ⟨0, by omega⟩ | exact ⟨1, by omega⟩ | exact ⟨2, by omega⟩
      | exact ⟨3, by omega⟩ | exact ⟨4, by omega⟩ | exact ⟨5, by omega⟩
  obtain ⟨c, hc, hcp, hcq⟩ := hcls
  refine ⟨t0 + (c + 6 - t0 % 6) % 6, by omega, by omega, ?_, ?_⟩
  · unfold primary; omega
  · have h0' : t0 + 7 < 4294967296 := h0
    rw [spare_nowrap (t0 + (c + 6 - t0 % 6) % 6) (show _ < 4294967296 by omega)]
    have : t0 % 6 = 0 ∨ t0 % 6 = 1 ∨ t0 % 6 = 2 ∨ t0 % 6 = 3 ∨ t0 % 6 = 4 ∨ t0 % 6 = 5 := by omega
    have : c = 0 ∨ c = 1 ∨ c = 2 ∨ c = 3 ∨ c = 4 ∨ c = 5 := by omega
    rcases ‹t0 % 6 = 0 ∨ _› with h | h | h | h | h | h <;>
      rcases ‹c = 0 ∨ _› with rfl | rfl | rfl | rfl | rfl | rfl <;> omega

/-- … exactly once. -/
theorem spares_balanced_unique (t0 t t' : Nat) (h0 : t0 + 7 < u32)
    (h1 : t0 ≤ t) (h2 : t < t0 + 6) (h1' : t0 ≤ t') (h2' : t' < t0 + 6)
    (hp : primary t = primary t') (hs : spare t = spare t') : t = t' := by
  have h0' : t0 + 7 < 4294967296 := h0
  rw [spare_nowrap t (show _ < 4294967296 by omega), spare_nowrap t' (show _ < 4294967296 by omega)] at hs
  unfold primary at hp
  have : t' = t ∨ t' = t + 3 ∨ t = t' + 3 := by omega
  rcases this with h | h | h
  · exact h.symm
  · subst h
    have : t % 2 = 0 ∨ t % 2 = 1 := by omega
    rcases this with h | h <;> omega
  · subst h
    have : t' % 2 = 0 ∨ t' % 2 = 1 := by omega
    rcases this with h | h <;> omega

example : (List.range 6).map (fun t => (primary (1700000000 + t), spare (1700000000 + t))) =
    [(2, 0), (0, 2), (1, 2), (2, 1), (0, 1), (1, 0)] := by decide

/-! ### aggregator: rounding to the replica's own second -/

/-- the rounding loop ends on a second this replica owns, for every uint32 second (even across the 2^32 wrap),
    provided the replica key is one of 1,2,3 (`r` = replicaKey-1) -/
theorem inc32_eq (t : Nat) (ht : t < u32) :
    (t + 1 = 4294967296 ∧ inc32 t = 0) ∨ (t + 1 < 4294967296 ∧ inc32 t = t + 1) := by
  unfold inc32 u32 at *
  omega

theorem inc32_lt (t : Nat) : inc32 t < u32 := Nat.mod_lt _ (by decide)

theorem round_owned (t r : Nat) (ht : t < u32) (hr : r < 3) : roundUp t r % 3 = r ∧ roundUp t r < u32 := by
  have e1 := inc32_eq t ht
  have l1 := inc32_lt t
  have e2 := inc32_eq _ l1
  have l2 := inc32_lt (inc32 t)
  have e3 := inc32_eq _ l2
  have l3 := inc32_lt (inc32 (inc32 t))
  have e4 := inc32_eq _ l3
  have l4 := inc32_lt (inc32 (inc32 (inc32 t)))
  simp only [roundUp, roundLoop, notOurs, bne_iff_ne, ne_eq, ite_not]
  generalize inc32 (inc32 (inc32 (inc32 t))) = a4 at *
  generalize inc32 (inc32 (inc32 t)) = a3 at *
  generalize inc32 (inc32 t) = a2 at *
  generalize inc32 t = a1 at *
  unfold u32 at *
  repeat' split
  all_goals omega

/-- "at most two seconds later": without wrap the rounded second is t, t+1 or t+2 -/
theorem round_le_2 (t r : Nat) (ht : t + 2 < u32) (hr : r < 3) :
    t ≤ roundUp t r ∧ roundUp t r ≤ t + 2 ∧ roundUp t r % 3 = r := by
  have e1 := inc32_eq t (by omega)
  have l1 := inc32_lt t
  have e2 := inc32_eq _ l1
  have l2 := inc32_lt (inc32 t)
  have e3 := inc32_eq _ l2
  have l3 := inc32_lt (inc32 (inc32 t))
  have e4 := inc32_eq _ l3
  simp only [roundUp, roundLoop, notOurs, bne_iff_ne, ne_eq, ite_not]
  generalize inc32 (inc32 (inc32 (inc32 t))) = a4 at *
  generalize inc32 (inc32 (inc32 t)) = a3 at *
  generalize inc32 (inc32 t) = a2 at *
  generalize inc32 t = a1 at *
  unfold u32 at *
  repeat' split
  all_goals omega

example : roundUp 1700000000 0 = 1700000001 ∧ roundUp 1700000000 1 = 1700000002 ∧ roundUp 1700000000 2 = 1700000000 := by
  decide

/-- with a replica key outside 1..3 the loop never finds its second (the real loop would spin forever) -/
example : roundUp 10 3 % 3 ≠ 3 := by decide

/-! ### aggregator: the recent window -/

/-- advanceRecentBuckets never loses a bucket: ready ++ kept is the old window, for ANY window -/
theorem ready_append_kept (now sw : Nat) (w : Window) : readyOf now sw w ++ dropReady now sw w = w := by
  induction w with
  | nil => simp [readyOf, dropReady]
  | cons b rest ih =>
    simp only [readyOf, dropReady]
    split <;> simp [ih]

theorem ready_drop_range (now sw : Nat) : ∀ (n a : Nat), ∃ k, k ≤ n ∧
    readyOf now sw (List.range' a n) = List.range' a k ∧
    dropReady now sw (List.range' a n) = List.range' (a + k) (n - k) := by
  intro n
  induction n with
  | zero => intro a; exact ⟨0, by simp [dropReady, readyOf]⟩
  | succ n ih =>
    intro a
    simp only [List.range'_succ, dropReady, readyOf]
    split
    · obtain ⟨k, hk, hr, he⟩ := ih (a + 1)
      refine ⟨k + 1, by omega, ?_, ?_⟩
      · rw [hr, List.range'_succ]
      · rw [he]; congr 1 <;> omega
    · exact ⟨0, by omega, by simp, by simp [List.range'_succ]⟩

theorem extend_range (first : Nat) : ∀ (f n : Nat), first + n + f ≤ u32 →
    extend first f (List.range' first n) = List.range' first (n + f) := by
  intro f
  induction f with
  | zero => intro n _; simp [extend]
  | succ f ih =>
    intro n h
    simp only [extend, List.length_range']
    have hm : (first + n) % u32 = first + n := Nat.mod_eq_of_lt (by omega)
    rw [hm]
    have : List.range' first n ++ [first + n] = List.range' first (n + 1) := by
      rw [List.range'_concat]; simp
    rw [this, ih (n + 1) (by omega)]
    congr 1; omega

/-- advanceRecentBuckets on a window that is a run of `n` consecutive seconds starting at `a` (n = 0: before the first
    call): the buckets handed out as ready are exactly the first `k` of the window, nothing else leaves it, the
    buckets that stay keep their seconds, and the new window is again a run of exactly ShortWindow+FutureWindow
    consecutive seconds (away from the uint32 edges). -/
theorem advance_window (now sw fw a n : Nat) (hlen : n ≤ sw + fw) (hpos : 0 < sw + fw)
    (hnow : sw ≤ now) (hmax : now + sw + fw < u32) (ha : a + n + sw + fw < u32) :
    ∃ k a', k ≤ n ∧ (advance now sw fw (List.range' a n)).1 = List.range' a k ∧
      (advance now sw fw (List.range' a n)).2 = List.range' a' (sw + fw) ∧
      (k < n → a' = a + k) ∧ (k = n → a' = now - sw) := by
  obtain ⟨k, hk, hr, hd⟩ := ready_drop_range now sw n a
  unfold advance
  simp only [hr, hd]
  by_cases hkn : k = n
  · subst hkn
    refine ⟨k, now - sw, Nat.le_refl _, rfl, ?_, by omega, fun _ => rfl⟩
    have h1 : (now + u32 - sw % u32) % u32 = now - sw := by unfold u32 at *; omega
    simp only [Nat.sub_self, List.range'_zero, List.isEmpty_nil, ↓reduceIte, h1, List.headD_cons, List.length_cons,
      List.length_nil]
    have := extend_range (now - sw) (sw + fw - 1) 1 (by unfold u32 at *; omega)
    simp only [List.range'_one] at this
    rw [show 0 + 1 = 1 from rfl, this]
    congr 1; omega
  · refine ⟨k, a + k, hk, rfl, ?_, fun _ => rfl, fun h => absurd h hkn⟩
    obtain ⟨m, hm⟩ : ∃ m, n - k = m + 1 := ⟨n - k - 1, by omega⟩
    simp only [hm, List.range'_succ, List.isEmpty_cons, Bool.false_eq_true, ↓reduceIte, List.headD_cons, List.length_cons,
      List.length_range']
    have := extend_range (a + k) (sw + fw - (m + 1)) (m + 1) (by unfold u32 at *; omega)
    simp only [List.range'_succ] at this
    rw [this]
    congr 1; omega

example : advance 100 5 4 [] = ([], [95, 96, 97, 98, 99, 100, 101, 102, 103]) := by decide
example : advance 103 5 4 [95, 96, 97, 98, 99, 100, 101, 102, 103] =
    ([95, 96, 97], [98, 99, 100, 101, 102, 103, 104, 105, 106]) := by decide


/-! ### the window under a ShortWindow that changes at run time (remote config) -/

/-- ready_drop_range plus: a bucket is dropped only when the clock is past its admission window -/
theorem ready_drop_range_lt (now sw : Nat) : ∀ (n a : Nat), a + n + sw < u32 → ∃ k, k ≤ n ∧
    readyOf now sw (List.range' a n) = List.range' a k ∧
    dropReady now sw (List.range' a n) = List.range' (a + k) (n - k) ∧ (0 < k → a + k + sw ≤ now) := by
  intro n
  induction n with
  | zero => intro a _; exact ⟨0, by simp [dropReady, readyOf]⟩
  | succ n ih =>
    intro a hb
    simp only [List.range'_succ, dropReady, readyOf]
    have hm : (a + sw) % u32 = a + sw := Nat.mod_eq_of_lt (by omega)
    rw [hm]
    split
    · rename_i hgt
      obtain ⟨k, hk, hr, he, hlt⟩ := ih (a + 1) (by omega)
      refine ⟨k + 1, by omega, ?_, ?_, ?_⟩
      · rw [hr, List.range'_succ]
      · rw [he]; congr 1 <;> omega
      · intro _
        by_cases hk0 : 0 < k
        · have := hlt hk0; omega
        · have : k = 0 := by omega
          subst this; omega
    · exact ⟨0, by omega, by simp, by simp [List.range'_succ], by omega⟩

/-- advance_window without the assumption that the window is at most ShortWindow+FutureWindow long (it is longer
    right after ShortWindow was lowered): one call of advanceRecentBuckets with ANY ShortWindow turns a run of
    consecutive seconds into a run of consecutive seconds, at least ShortWindow+FutureWindow long; the buckets that
    stay keep their seconds, what leaves is handed out as ready, and the start moves forward to at most now-sw. -/
theorem advance_window_any (now sw fw a n : Nat) (hpos : 0 < sw + fw)
    (hnow : sw ≤ now) (hmax : now + sw + fw < u32) (ha : a + n + sw + fw < u32) :
    ∃ k a' n', k ≤ n ∧ (advance now sw fw (List.range' a n)).1 = List.range' a k ∧
      (advance now sw fw (List.range' a n)).2 = List.range' a' n' ∧
      sw + fw ≤ n' ∧ n' ≤ max n (sw + fw) ∧ (k < n → a' = a + k) ∧ (k = n → a' = now - sw ∧ n' = sw + fw) ∧
      a' ≤ max a (now - sw) := by
  obtain ⟨k, hk, hr, hd, hlt⟩ := ready_drop_range_lt now sw n a (by omega)
  unfold advance
  simp only [hr, hd]
  by_cases hkn : k = n
  · subst hkn
    refine ⟨k, now - sw, sw + fw, Nat.le_refl _, rfl, ?_, Nat.le_refl _, by omega, by omega, fun _ => ⟨rfl, rfl⟩, by omega⟩
    have h1 : (now + u32 - sw % u32) % u32 = now - sw := by unfold u32 at *; omega
    simp only [Nat.sub_self, List.range'_zero, List.isEmpty_nil, ↓reduceIte, h1, List.headD_cons, List.length_cons,
      List.length_nil]
    have := extend_range (now - sw) (sw + fw - 1) 1 (by unfold u32 at *; omega)
    simp only [List.range'_one] at this
    rw [show 0 + 1 = 1 from rfl, this]
    congr 1; omega
  · obtain ⟨m, hm⟩ : ∃ m, n - k = m + 1 := ⟨n - k - 1, by omega⟩
    refine ⟨k, a + k, (m + 1) + (sw + fw - (m + 1)), hk, rfl, ?_, by omega, by omega, fun _ => rfl,
      fun h => absurd h hkn, ?_⟩
    · simp only [hm, List.range'_succ, List.isEmpty_cons, Bool.false_eq_true, ↓reduceIte, List.headD_cons,
        List.length_cons, List.length_range']
      have := extend_range (a + k) (sw + fw - (m + 1)) (m + 1) (by unfold u32 at *; omega)
      simp only [List.range'_succ] at this
      rw [this]
    · by_cases hk0 : 0 < k
      · have := hlt hk0; omega
      · omega

/-- a schedule of ticks, each with the clock value and the ShortWindow in force at that tick -/
def runAdvance (fw : Nat) : List (Nat × Nat) → Window → Window
  | [], w => w
  | (now, sw) :: rest, w => runAdvance fw rest (advance now sw fw w).2

/-- For ANY sequence of ticks with ANY ShortWindow values up to S (raised, lowered, by 1, by 2, …) and any clock
    values up to N (forward, backward, jumps), recentBuckets stays a run of consecutive seconds
    (recentBuckets[i].time = recentBuckets[0].time + i), non-empty after the first tick — which is what
    filed_in_own_bucket / filed_general assume about the window.  (A, L bound start and length so that nothing comes
    near 2^32.) -/
theorem window_always_contiguous (fw S N A L : Nat) (hfw : 0 < fw) (hb : A + L + S + fw < u32) (hN : N ≤ A)
    (hL : S + fw ≤ L) : ∀ (steps : List (Nat × Nat)),
    (∀ p ∈ steps, p.2 ≤ p.1 ∧ p.1 ≤ N ∧ p.2 ≤ S) → ∀ a n, a ≤ A → n ≤ L →
    ∃ a' n', runAdvance fw steps (List.range' a n) = List.range' a' n' ∧ a' ≤ A ∧ n' ≤ L ∧ (steps ≠ [] → 0 < n') := by
  intro steps
  induction steps with
  | nil => intro _ a n ha hn; exact ⟨a, n, rfl, ha, hn, fun h => absurd rfl h⟩
  | cons p rest ih =>
    intro hs a n ha hn
    obtain ⟨now, sw⟩ := p
    have hp := hs (now, sw) (by simp)
    simp only at hp
    obtain ⟨k, a', n', _, _, hw, hge, hle, _, _, hst⟩ :=
      advance_window_any now sw fw a n (by omega) hp.1 (by unfold u32 at *; omega) (by unfold u32 at *; omega)
    simp only [runAdvance, hw]
    obtain ⟨a'', n'', h1, h2, h3, h4⟩ := ih (fun q hq => hs q (by simp [hq])) a' n' (by omega) (by omega)
    refine ⟨a'', n'', h1, h2, h3, fun _ => ?_⟩
    cases rest with
    | nil => simp only [runAdvance] at h1; have := congrArg List.length h1; simp at this; omega
    | cons q r => exact h4 (by simp)

/-- non-vacuity: ShortWindow raised 3 → 5 between two ticks one second apart (the schedule on which computing new
    bucket times from the clock instead of from recentBuckets[0] duplicates a second), then lowered again -/
example : runAdvance 4 [(100, 3), (101, 5), (102, 3), (103, 4)] [] = [99, 100, 101, 102, 103, 104, 105, 106] := by
  decide
example : (advance 101 5 4 [97, 98, 99, 100, 101, 102, 103]).2 = [97, 98, 99, 100, 101, 102, 103, 104, 105] := by decide

/-! ### aggregator: where an accepted second is filed -/

theorem getLastD_range (a n : Nat) : (List.range' a (n + 1)).getLastD 0 = a + n := by
  induction n generalizing a with
  | zero => simp [List.getLastD]
  | succ n ih =>
    rw [List.range'_succ]
    have := ih (a + 1)
    rw [List.range'_succ] at this
    simp only [List.getLastD_cons] at this ⊢
    rw [List.range'_succ]
    simp only [List.getLastD_cons] at this ⊢
    omega

theorem getD_range (a n i : Nat) (h : i < n) : (List.range' a n).getD i 0 = a + i := by
  simp [List.getD_eq_getElem?_getD, h]

/-- "the aggregator files every accepted second into a bucket it will itself insert at most two seconds later, or
    into its historic queue."  Window = run of n > 0 consecutive seconds from `a` (advance_window), replica key in
    1..3 (`r` = key-1), second `t` not within 2 of the uint32 limit.  Whatever the handler answers:
    * `recent idx bt`: idx is inside the window, the bucket's time is a+idx, this replica's goTicker test lets that
      bucket through to the inserters (`insertsOwn`), and bt ∈ {t, t+1, t+2};
    * `historic k`: only for requests flagged historic, under the second's own time;
    * everything else is a rejection (the agent is told to discard or to resend through the historic conveyor). -/
theorem filed_in_own_bucket (a n r hw t : Nat) (hist : Bool) (hn : 0 < n) (hr : r < 3) (ht : t + 2 < u32) :
    match file (List.range' a n) r hw hist t with
    | .recent idx bt => idx < n ∧ bt = a + idx ∧ insertsOwn bt r = true ∧ t ≤ bt ∧ bt ≤ t + 2
    | .historic k => hist = true ∧ k = t
    | .noWindow => False
    | _ => True := by
  obtain ⟨m, rfl⟩ : ∃ m, n = m + 1 := ⟨n - 1, by omega⟩
  obtain ⟨h1, h2, h3⟩ := round_le_2 t r ht hr
  have hl := getLastD_range a m
  have hrec : ∀ rd, t ≤ rd → rd ≤ t + 2 → rd % 3 = r → ¬ rd > a + m → ¬ rd < a →
      rd - a < m + 1 ∧ (List.range' a (m + 1)).getD (rd - a) 0 = a + (rd - a) ∧
      insertsOwn ((List.range' a (m + 1)).getD (rd - a) 0) r = true ∧
      t ≤ (List.range' a (m + 1)).getD (rd - a) 0 ∧ (List.range' a (m + 1)).getD (rd - a) 0 ≤ t + 2 := by
    intro rd k1 k2 k3 k4 k5
    have hi : rd - a < m + 1 := by omega
    rw [getD_range a (m + 1) (rd - a) hi]
    have : a + (rd - a) = rd := by omega
    rw [this]
    refine ⟨hi, rfl, ?_, k1, k2⟩
    simp [insertsOwn, notOurs, k3]
  have hfile : file (List.range' a (m + 1)) r hw hist t =
      (if hist then
        if isFuture (roundUp t r) (a + m) then .futureHistoric
        else if isBeyond (roundUp t r) a hw then .beyondWindow
        else if isLate (roundUp t r) a then .historic t
        else .recent (roundUp t r - a) ((List.range' a (m + 1)).getD (roundUp t r - a) 0)
      else
        if isFuture (roundUp t r) (a + m) then .futureRecent
        else if isLate (roundUp t r) a then .lateRecent
        else .recent (roundUp t r - a) ((List.range' a (m + 1)).getD (roundUp t r - a) 0)) := by
    unfold file
    rw [List.range'_succ] at hl ⊢
    simp only [hl]
  rw [hfile]
  generalize roundUp t r = rd at *
  cases hist
  · simp only [Bool.false_eq_true, ↓reduceIte]
    by_cases c1 : isFuture rd (a + m) = true
    · simp [c1]
    · by_cases c2 : isLate rd a = true
      · simp [c1, c2]
      · simp only [c1, c2, Bool.false_eq_true, ↓reduceIte]
        simp only [isFuture, isLate, decide_eq_true_eq] at c1 c2
        exact hrec rd h1 h2 h3 c1 c2
  · simp only [↓reduceIte]
    by_cases c1 : isFuture rd (a + m) = true
    · simp [c1]
    · by_cases c3 : isBeyond rd a hw = true
      · simp [c1, c3]
      · by_cases c2 : isLate rd a = true
        · simp [c1, c2, c3]
        · simp only [c1, c2, c3, Bool.false_eq_true, ↓reduceIte]
          simp only [isFuture, isLate, decide_eq_true_eq] at c1 c2
          exact hrec rd h1 h2 h3 c1 c2

/-- non-vacuity: a second rounded forward into the replica's own bucket, one filed historic, and a late recent one -/
example : file (List.range' 98 9) 1 86400 false 101 = .recent 5 103 := by decide
example : file (List.range' 98 9) 1 86400 true 50 = .historic 50 := by decide
example : file (List.range' 98 9) 1 86400 false 50 = .lateRecent := by decide
example : file (List.range' 98 9) 1 10 true 50 = .beyondWindow := by decide
/-- a second below the oldest bucket is still accepted when its rounded second is the oldest bucket -/
example : file (List.range' 100 9) 1 86400 false 98 = .recent 0 100 := by decide


/-! ### the uint32 wrap: what the code does in the region `t + 2 ≥ 2^32` that filed_in_own_bucket excludes -/

/-- the rounding loop for every uint32 second: it ends on a second the replica owns; either that second is t, t+1 or
    t+2 (no wrap), or — only when t is one of the last two seconds before 2^32 — `roundedToOurTime++` wrapped and the
    result is second 0, 1 or 2. -/
theorem round_general (t r : Nat) (ht : t < u32) (hr : r < 3) :
    roundUp t r % 3 = r ∧
    ((t ≤ roundUp t r ∧ roundUp t r ≤ t + 2 ∧ roundUp t r < u32) ∨ (u32 ≤ t + 2 ∧ roundUp t r ≤ 2)) := by
  have e1 := inc32_eq t ht
  have l1 := inc32_lt t
  have e2 := inc32_eq _ l1
  have l2 := inc32_lt (inc32 t)
  have e3 := inc32_eq _ l2
  have l3 := inc32_lt (inc32 (inc32 t))
  have e4 := inc32_eq _ l3
  simp only [roundUp, roundLoop, notOurs, bne_iff_ne, ne_eq, ite_not]
  generalize inc32 (inc32 (inc32 (inc32 t))) = a4 at *
  generalize inc32 (inc32 (inc32 t)) = a3 at *
  generalize inc32 (inc32 t) = a2 at *
  generalize inc32 t = a1 at *
  unfold u32 at *
  repeat' split
  all_goals omega

/-- filed_in_own_bucket without its hypothesis `t + 2 < 2^32`: for EVERY uint32 second the chosen recent bucket is
    inside the window and owned by this replica; it is at most 2 seconds after t, except that for the last two
    seconds before 2^32 the wrapped rounding can file the second into bucket 0, 1 or 2 (possible only while the
    aggregator's own window still contains those seconds, i.e. its clock is within seconds of the epoch). -/
theorem filed_general (a n r hw t : Nat) (hist : Bool) (hn : 0 < n) (hr : r < 3) (ht : t < u32) :
    match file (List.range' a n) r hw hist t with
    | .recent idx bt => idx < n ∧ bt = a + idx ∧ insertsOwn bt r = true ∧
        ((t ≤ bt ∧ bt ≤ t + 2) ∨ (u32 ≤ t + 2 ∧ bt ≤ 2))
    | .historic k => hist = true ∧ k = t
    | .noWindow => False
    | _ => True := by
  obtain ⟨m, rfl⟩ : ∃ m, n = m + 1 := ⟨n - 1, by omega⟩
  obtain ⟨h3, h12⟩ := round_general t r ht hr
  have hl := getLastD_range a m
  have hrec : ∀ rd, ((t ≤ rd ∧ rd ≤ t + 2 ∧ rd < u32) ∨ (u32 ≤ t + 2 ∧ rd ≤ 2)) → rd % 3 = r → ¬ rd > a + m → ¬ rd < a →
      rd - a < m + 1 ∧ (List.range' a (m + 1)).getD (rd - a) 0 = a + (rd - a) ∧
      insertsOwn ((List.range' a (m + 1)).getD (rd - a) 0) r = true ∧
      ((t ≤ (List.range' a (m + 1)).getD (rd - a) 0 ∧ (List.range' a (m + 1)).getD (rd - a) 0 ≤ t + 2) ∨
        (u32 ≤ t + 2 ∧ (List.range' a (m + 1)).getD (rd - a) 0 ≤ 2)) := by
    intro rd k12 k3 k4 k5
    have hi : rd - a < m + 1 := by omega
    rw [getD_range a (m + 1) (rd - a) hi]
    have : a + (rd - a) = rd := by omega
    rw [this]
    refine ⟨hi, rfl, ?_, ?_⟩
    · simp [insertsOwn, notOurs, k3]
    · rcases k12 with k | k
      · exact Or.inl ⟨k.1, k.2.1⟩
      · exact Or.inr k
  have hfile : file (List.range' a (m + 1)) r hw hist t =
      (if hist then
        if isFuture (roundUp t r) (a + m) then .futureHistoric
        else if isBeyond (roundUp t r) a hw then .beyondWindow
        else if isLate (roundUp t r) a then .historic t
        else .recent (roundUp t r - a) ((List.range' a (m + 1)).getD (roundUp t r - a) 0)
      else
        if isFuture (roundUp t r) (a + m) then .futureRecent
        else if isLate (roundUp t r) a then .lateRecent
        else .recent (roundUp t r - a) ((List.range' a (m + 1)).getD (roundUp t r - a) 0)) := by
    unfold file
    rw [List.range'_succ] at hl ⊢
    simp only [hl]
  rw [hfile]
  generalize roundUp t r = rd at *
  cases hist
  · simp only [Bool.false_eq_true, ↓reduceIte]
    by_cases c1 : isFuture rd (a + m) = true
    · simp [c1]
    · by_cases c2 : isLate rd a = true
      · simp [c1, c2]
      · simp only [c1, c2, Bool.false_eq_true, ↓reduceIte]
        simp only [isFuture, isLate, decide_eq_true_eq] at c1 c2
        exact hrec rd h12 h3 c1 c2
  · simp only [↓reduceIte]
    by_cases c1 : isFuture rd (a + m) = true
    · simp [c1]
    · by_cases c3 : isBeyond rd a hw = true
      · simp [c1, c3]
      · by_cases c2 : isLate rd a = true
        · simp [c1, c2, c3]
        · simp only [c1, c2, c3, Bool.false_eq_true, ↓reduceIte]
          simp only [isFuture, isLate, decide_eq_true_eq] at c1 c2
          exact hrec rd h12 h3 c1 c2

/-- the wrap really happens in the model (and on the real handler: correspondence case "agg send 4294967295" with a
    window starting at second 1): the last uint32 second lands in bucket 2 of replica 3, i.e. the full-strength
    reading "at most two seconds later" is false at the wrap -/
example : file (List.range' 1 6) 2 86400 false 4294967295 = .recent 1 2 := by decide
example : roundUp 4294967294 1 = 1 ∧ roundUp 4294967295 0 = 4294967295 ∧ roundUp 4294967295 2 = 2 := by decide
/-- away from the epoch the wrapped second is simply rejected as late (recent) or beyond the window (historic) -/
example : file (List.range' 1700000000 9) 2 86400 false 4294967295 = .lateRecent ∧
    file (List.range' 1700000000 9) 2 86400 true 4294967295 = .beyondWindow := by decide

/-! ### the tie for goTicker (an endless wall-clock loop that cannot be called) -/

/-- goTicker ranges over what advanceRecentBuckets returned, and the only condition under which a ready bucket is
    skipped before `a.bucketsToSend <- aggBucket` is the text below — the expression `notOurs`/`insertsOwn` model.
    SH/Gen/C10.lean is regenerated from the working tree (go/parser) on every run, so an edit of that guard makes
    this obligation fail. -/
theorem gen_ticker_guard :
    SH.Gen.C10.tickerSkipConds = ["aggBucket.time%3 != uint32(a.replicaKey-1)"] ∧
    SH.Gen.C10.tickerRangeOver = "readyBuckets" ∧
    SH.Gen.C10.tickerSource = "a.advanceRecentBuckets(now, false)" ∧
    SH.Gen.C10.tickerSends = true := by decide


/-- chutil (the API's ClickHouse layer) picks the shard to read exactly as `apiReadShard` models it: the by-metric
    count defaults to the real shard count when 0, `shard = meta.Metric.Shard(shardCnt)`, and a shard at or above the
    real shard count becomes -1 (= all shards).  Pinned as source text (go/parser) like goTicker's guard. -/
theorem gen_api_clamp :
    SH.Gen.C10.apiShardCall = "shard = meta.Metric.Shard(shardCnt)" ∧
    SH.Gen.C10.apiClampCond = "shard >= shardMax" ∧ SH.Gen.C10.apiClampBody = "{ shard = -1 }" ∧
    SH.Gen.C10.apiZeroCond = "shardCnt == 0" ∧ SH.Gen.C10.apiZeroBody = "{ shardCnt = shardMax }" := by decide

/-- the window constants the theorems above are instantiated with (`advance_window` needs 0 < sw + fw) -/
theorem gen_window_constants : 0 < SH.Gen.C10.futureWindow ∧ 2 ≤ SH.Gen.C10.maxShortWindow := by decide

end SH.C10
