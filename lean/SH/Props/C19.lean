/-
  C19 — Tag mappings form a stable bijection and creation obeys flood limits.

  "A string is mapped to at most one positive id and an id to at most one string; once created, a mapping never changes
   until it is explicitly deleted, repeated get-or-create calls return the same id, and deleted ids are never handed out
   again. Once the global budget is exhausted, the number of new mappings a metric can create in any time span is at most
   its remaining budget (the maximum budget, or the value set by a flood reset) plus the per-step bonus times the number
   of elapsed steps, and requests beyond that fail with a flood-limit error."

  Model: SH.Model.Meta (getOrCreate, putMany, deleteIds, resetFlood, calcBudget). A history is an arbitrary `List Op`
  with the clock value carried by every request (any clock progression, including backwards).
-/
import SH.Model.Meta

namespace SH.C19
open SH.Meta

/-! ### C19.1  the mapping table is a bijection in every reachable state -/

structure MInv (s : State) : Prop where
  keyUniq : ∀ p1 ∈ s.maps, ∀ p2 ∈ s.maps, p1.2 = p2.2 → p1 = p2
  idUniq : ∀ p1 ∈ s.maps, ∀ p2 ∈ s.maps, p1.1 = p2.1 → p1 = p2
  seqBound : ∀ p ∈ s.maps, p.1 ≤ (s.mapSeq : Int)

theorem minv_empty : MInv State.empty := by constructor <;> simp [State.empty]

theorem lookupKey_none {maps : List (Int × Nat)} {k : Nat} (h : lookupKey maps k = none) : ∀ p ∈ maps, p.2 ≠ k := by
  intro p hp
  unfold lookupKey at h
  have h' : maps.find? (fun p => p.2 == k) = none := by
    cases hf : maps.find? (fun p => p.2 == k) with
    | none => rfl
    | some x => simp [hf] at h
  have := List.find?_eq_none.mp h' p hp
  simpa using this

theorem lookupKey_some {maps : List (Int × Nat)} {k : Nat} {id : Int} (h : lookupKey maps k = some id) : (id, k) ∈ maps := by
  unfold lookupKey at h
  cases hf : maps.find? (fun p => p.2 == k) with
  | none => simp [hf] at h
  | some x =>
    simp only [hf, Option.map_some, Option.some.injEq] at h
    have h1 := List.mem_of_find?_eq_some hf
    have h2 := List.find?_some hf
    have : x.2 = k := by simpa using h2
    have hx : x = (id, k) := Prod.ext h this
    rw [← hx]; exact h1

/-- what get-or-create does to the mapping table: nothing, or it adds the pair (mapSeq + 1, key) for an unmapped key -/
theorem getOrCreate_maps (c : Cfg) (s : State) (m k now : Nat) :
    ((getOrCreate c s m k now).1.maps = s.maps ∧ (getOrCreate c s m k now).1.mapSeq = s.mapSeq ∧
      ∀ id, (getOrCreate c s m k now).2 ≠ .created id) ∨
    (lookupKey s.maps k = none ∧ (getOrCreate c s m k now).1.maps = (((s.mapSeq + 1 : Nat) : Int), k) :: s.maps ∧
      (getOrCreate c s m k now).1.mapSeq = s.mapSeq + 1 ∧ (getOrCreate c s m k now).2 = .created ((s.mapSeq + 1 : Nat) : Int)) := by
  unfold getOrCreate
  cases hk : lookupKey s.maps k with
  | some id => left; simp
  | none =>
    simp only
    unfold createMapping
    cases hf : lookupFlood s.flood m with
    | some f =>
      dsimp only
      by_cases hh : floodHit c s f (roundTime now c.step) = true
      · left; simp [hh]
      · right; simp [hh, insertMapping]
    | none => right; simp [insertMapping]

theorem minv_getOrCreate (c : Cfg) (s : State) (m k now : Nat) (hi : MInv s) : MInv (getOrCreate c s m k now).1 := by
  rcases getOrCreate_maps c s m k now with ⟨h1, h2, _⟩ | ⟨hk, h1, h2, _⟩
  · constructor
    · rw [h1]; exact hi.keyUniq
    · rw [h1]; exact hi.idUniq
    · rw [h1, h2]; exact hi.seqBound
  · have hfreshk := lookupKey_none hk
    constructor
    · rw [h1]
      intro p1 hp1 p2 hp2 hkk
      rcases List.mem_cons.mp hp1 with e1 | e1 <;> rcases List.mem_cons.mp hp2 with e2 | e2
      · rw [e1, e2]
      · subst e1; exact absurd hkk.symm (hfreshk p2 e2)
      · subst e2; exact absurd hkk (hfreshk p1 e1)
      · exact hi.keyUniq p1 e1 p2 e2 hkk
    · rw [h1]
      intro p1 hp1 p2 hp2 hid
      rcases List.mem_cons.mp hp1 with e1 | e1 <;> rcases List.mem_cons.mp hp2 with e2 | e2
      · rw [e1, e2]
      · subst e1; have := hi.seqBound p2 e2; simp only at hid; push_cast at hid; omega
      · subst e2; have := hi.seqBound p1 e1; simp only at hid; push_cast at hid; omega
      · exact hi.idUniq p1 e1 p2 e2 hid
    · rw [h1, h2]
      intro p hp
      rcases List.mem_cons.mp hp with e | e
      · subst e; simp
      · have := hi.seqBound p e; push_cast; omega

theorem minv_putOne (s : State) (k : Nat) (v : Int) (hi : MInv s) : MInv (putOne s k v) := by
  have hmem : ∀ p, p ∈ (putOne s k v).maps ↔ p = (v, k) ∨ (p ∈ s.maps ∧ p.1 ≠ v ∧ p.2 ≠ k) := by
    intro p; simp [putOne, List.mem_filter]
  constructor
  · intro p1 hp1 p2 hp2 hkk
    rcases (hmem p1).mp hp1 with e1 | e1 <;> rcases (hmem p2).mp hp2 with e2 | e2
    · rw [e1, e2]
    · subst e1; exact absurd hkk.symm e2.2.2
    · subst e2; exact absurd hkk e1.2.2
    · exact hi.keyUniq p1 e1.1 p2 e2.1 hkk
  · intro p1 hp1 p2 hp2 hid
    rcases (hmem p1).mp hp1 with e1 | e1 <;> rcases (hmem p2).mp hp2 with e2 | e2
    · rw [e1, e2]
    · subst e1; exact absurd hid.symm e2.2.1
    · subst e2; exact absurd hid e1.2.1
    · exact hi.idUniq p1 e1.1 p2 e2.1 hid
  · intro p hp
    rcases (hmem p).mp hp with e | e
    · subst e
      simp only [putOne]
      split
      · rename_i h; have : 0 ≤ v := by omega
        rw [Int.toNat_of_nonneg this]; exact Int.le_refl _
      · rename_i h; omega
    · have := hi.seqBound p e.1
      simp only [putOne]
      split
      · rename_i h; have h0 : 0 ≤ v := by omega
        rw [Int.toNat_of_nonneg h0]; omega
      · exact this

theorem minv_putMany : ∀ (kvs : List (Nat × Int)) (s : State), MInv s → MInv (putMany s kvs) := by
  intro kvs
  induction kvs with
  | nil => intro s hi; exact hi
  | cons kv rest ih => intro s hi; obtain ⟨k, v⟩ := kv; exact ih _ (minv_putOne s k v hi)

theorem minv_delete (s : State) (ids : List Int) (hi : MInv s) : MInv (deleteIds s ids).1 := by
  have hsub : ∀ p ∈ (deleteIds s ids).1.maps, p ∈ s.maps := by
    intro p hp; simp only [deleteIds, List.mem_filter] at hp; exact hp.1
  constructor
  · intro p1 h1 p2 h2; exact hi.keyUniq p1 (hsub p1 h1) p2 (hsub p2 h2)
  · intro p1 h1 p2 h2; exact hi.idUniq p1 (hsub p1 h1) p2 (hsub p2 h2)
  · intro p hp; exact hi.seqBound p (hsub p hp)

theorem save_maps (s : State) (a : SaveReq) : (save s a).1.maps = s.maps ∧ (save s a).1.mapSeq = s.mapSeq ∧
    (save s a).1.flood = s.flood ∧ (save s a).1.lastCreated = s.lastCreated := by
  unfold save saveV
  split
  · simp
  · split
    · simp
    · unfold saveResolved
      split
      · simp
      · split
        · unfold saveCreate; split <;> simp
        · split
          · simp
          · unfold saveEdit
            split
            · simp
            · split
              · split <;> simp
              · simp

theorem minv_step (c : Cfg) (s : State) (op : Op) (hi : MInv s) : MInv (step c s op) := by
  cases op with
  | save a =>
    obtain ⟨h1, h2, _, _⟩ := save_maps s a
    exact ⟨by simp only [step]; rw [h1]; exact hi.keyUniq, by simp only [step]; rw [h1]; exact hi.idUniq,
           by simp only [step]; rw [h1, h2]; exact hi.seqBound⟩
  | getOrCreate m k now => exact minv_getOrCreate c s m k now hi
  | put kvs => exact minv_putMany kvs s hi
  | delete ids => exact minv_delete s ids hi
  | reset m l now =>
    have h : (resetFlood c s m l now).1.maps = s.maps ∧ (resetFlood c s m l now).1.mapSeq = s.mapSeq := by
      unfold resetFlood; split <;> simp
    exact ⟨by simp only [step]; rw [h.1]; exact hi.keyUniq, by simp only [step]; rw [h.1]; exact hi.idUniq,
           by simp only [step]; rw [h.1, h.2]; exact hi.seqBound⟩

/-- "A string is mapped to at most one id and an id to at most one string", in every state reachable by any history of
    get-or-create, put, delete, reset-flood (and entity) requests under any clock. -/
theorem bijection_invariant (c : Cfg) : ∀ (ops : List Op) (s : State), MInv s → MInv (run c s ops) := by
  intro ops
  induction ops with
  | nil => intro s hi; exact hi
  | cons op ops ih => intro s hi; exact ih _ (minv_step c s op hi)

theorem reachable_bijection (c : Cfg) (ops : List Op) : MInv (run c State.empty ops) := bijection_invariant c ops _ minv_empty

/-- ids handed out by get-or-create are positive -/
theorem created_positive (c : Cfg) (s : State) (m k now : Nat) (id : Int)
    (h : (getOrCreate c s m k now).2 = .created id) : 0 < id := by
  rcases getOrCreate_maps c s m k now with ⟨_, _, h3⟩ | ⟨_, _, _, h4⟩
  · exact absurd h (h3 id)
  · rw [h4] at h; injection h with h; subst h; push_cast; omega

/-! ### C19.2  a mapping never changes until it is explicitly deleted (or explicitly overwritten by put) -/

/-- get-or-create of a mapped key returns the stored id and changes nothing at all -/
theorem get_or_create_stable (c : Cfg) (s : State) (m k now : Nat) (id : Int) (h : lookupKey s.maps k = some id) :
    getOrCreate c s m k now = (s, .got id) := by
  unfold getOrCreate; simp [h]

/-- "repeated get-or-create calls return the same id": whatever the first call answered with an id, the second call
    (any metric, any later or earlier time) answers `got` with that id and leaves the state unchanged -/
theorem get_idempotent (c : Cfg) (s : State) (m k now m' now' : Nat) (id : Int)
    (h : (getOrCreate c s m k now).2 = .created id ∨ (getOrCreate c s m k now).2 = .got id) :
    getOrCreate c (getOrCreate c s m k now).1 m' k now' = ((getOrCreate c s m k now).1, .got id) := by
  apply get_or_create_stable
  rcases getOrCreate_maps c s m k now with ⟨h1, _, h3⟩ | ⟨_, h1, _, h4⟩
  · rcases h with h | h
    · exact absurd h (h3 id)
    · rw [h1]
      unfold getOrCreate at h
      cases hk : lookupKey s.maps k with
      | some id' => simp [hk] at h; rw [h]
      | none =>
        exfalso
        simp only [hk] at h
        unfold createMapping at h
        cases hf : lookupFlood s.flood m with
        | some f => simp only [hf] at h; split at h <;> simp [insertMapping] at h
        | none => simp [hf, insertMapping] at h
  · rw [h1]
    rcases h with h | h
    · rw [h4] at h; injection h with h; subst h; simp [lookupKey]
    · rw [h4] at h; cases h

/-- every operation other than put and delete keeps every existing pair -/
theorem mapping_kept_by_non_explicit_ops (c : Cfg) (s : State) (op : Op)
    (hput : ∀ kvs, op ≠ .put kvs) (hdel : ∀ ids, op ≠ .delete ids) :
    ∀ p ∈ s.maps, p ∈ (step c s op).maps := by
  intro p hp
  cases op with
  | save a => simp only [step]; rw [(save_maps s a).1]; exact hp
  | getOrCreate m k now =>
    rcases getOrCreate_maps c s m k now with ⟨h1, _, _⟩ | ⟨_, h1, _, _⟩
    · simp only [step]; rw [h1]; exact hp
    · simp only [step]; rw [h1]; exact List.mem_cons_of_mem _ hp
  | put kvs => exact absurd rfl (hput kvs)
  | delete ids => exact absurd rfl (hdel ids)
  | reset m l now =>
    have h : (resetFlood c s m l now).1.maps = s.maps := by unfold resetFlood; split <;> simp
    simp only [step]; rw [h]; exact hp

/-- delete removes exactly the listed ids and reports how many of them were present -/
theorem delete_exact (s : State) (ids : List Int) (p : Int × Nat) :
    p ∈ (deleteIds s ids).1.maps ↔ p ∈ s.maps ∧ p.1 ∉ ids := by
  simp [deleteIds, List.mem_filter]

/-! ### C19.3  deleted ids are never handed out again -/

theorem putMany_seq : ∀ (kvs : List (Nat × Int)) (s : State), s.mapSeq ≤ (putMany s kvs).mapSeq := by
  intro kvs
  induction kvs with
  | nil => intro s; exact Nat.le_refl _
  | cons kv rest ih =>
    intro s
    obtain ⟨k, v⟩ := kv
    refine Nat.le_trans ?_ (ih (putOne s k v))
    simp only [putOne]
    split
    · rename_i h; omega
    · exact Nat.le_refl _

/-- the AUTOINCREMENT high-water mark never decreases (delete does not lower it) -/
theorem mapSeq_mono (c : Cfg) (s : State) (op : Op) : s.mapSeq ≤ (step c s op).mapSeq := by
  cases op with
  | save a => simp only [step]; rw [(save_maps s a).2.1]; exact Nat.le_refl _
  | getOrCreate m k now =>
    rcases getOrCreate_maps c s m k now with ⟨_, h2, _⟩ | ⟨_, _, h2, _⟩
    · simp only [step]; rw [h2]; exact Nat.le_refl _
    · simp only [step]; rw [h2]; exact Nat.le_succ _
  | put kvs => exact putMany_seq kvs s
  | delete ids => simp [step, deleteIds]
  | reset m l now =>
    have h : (resetFlood c s m l now).1.mapSeq = s.mapSeq := by unfold resetFlood; split <;> simp
    simp only [step]; rw [h]; exact Nat.le_refl _

theorem mapSeq_mono_run (c : Cfg) : ∀ (ops : List Op) (s : State), s.mapSeq ≤ (run c s ops).mapSeq := by
  intro ops
  induction ops with
  | nil => intro s; exact Nat.le_refl _
  | cons op ops ih => intro s; exact Nat.le_trans (mapSeq_mono c s op) (ih _)

/-- "deleted ids are never handed out again": take any id `p.1` present in a reachable state `s`; after ANY further history
    `ops` (which may delete it), an id created by get-or-create is strictly greater than it. -/
theorem ids_never_reused (c : Cfg) (s : State) (hi : MInv s) (p : Int × Nat) (hp : p ∈ s.maps)
    (ops : List Op) (m k now : Nat) (id : Int)
    (h : (getOrCreate c (run c s ops) m k now).2 = .created id) : p.1 < id := by
  have h1 := hi.seqBound p hp
  have h2 := mapSeq_mono_run c ops s
  rcases getOrCreate_maps c (run c s ops) m k now with ⟨_, _, h3⟩ | ⟨_, _, _, h4⟩
  · exact absurd h (h3 id)
  · rw [h4] at h; injection h with h; subst h; push_cast; omega


/-! ### C19.4  flood limits

  FULL STATEMENT (kept for reference): for every history `ops`, every metric `m` and every window of the history that lies after
  the global budget was exhausted and contains no reset of `m`:
      #(mappings created for m in the window) ≤ free_m(at window start, maxBudget if m has no row) + bonus · (elapsed steps),
  and every request of `m` for an unmapped key made when `attempt` is negative answers flood-limit and changes nothing.

  Proved below: (1) the arithmetic of calcBudget as a token bucket (`attempt_*`), (2) the bound for EVERY sequence of attempts
  against one flood row, with the elapsed steps as the code measures them (`flood_bound_partial`), (3) the one-step tie between
  the bucket and the full model: in limited mode get-or-create of an unmapped key is exactly one bucket attempt on the metric's
  row (`create_limited`, `create_first`, `beyond_budget_is_flood_error`), (4) nothing but reset and the metric's own creations
  writes a flood row of the metric is NOT proved in Lean (frame lemmas over the full op list are missing); the composition of
  (2) and (3) along a full history is covered by the correspondence and by the token-bucket oracle of the harness only.
  Under a non-decreasing clock the measured steps of successive creations telescope to at most the real number of elapsed
  steps (`lastTimeUpdate` is always a rounded time except right after ResetFlood, see the note in checks/C19.py). -/

/-- calcBudget for one creation (expense 1) as a function of the measured number of elapsed steps -/
def attempt (c : Cfg) (free : Int) (el : Nat) : Int :=
  if overMax free c.maxBudget then free - 1
  else if c.maxBudget ≤ free - 1 + (el : Int) * c.bonus then c.maxBudget - 1 else free - 1 + (el : Int) * c.bonus

theorem calcBudget_eq_attempt (c : Cfg) (free : Int) (last now : Nat) :
    calcBudget free 1 last now c.maxBudget c.bonus c.step = attempt c free (subU32 now last / c.step) := by
  unfold calcBudget attempt; rfl

/-- one creation costs one unit; the refill is at most bonus per measured step -/
theorem attempt_le (c : Cfg) (hb : 0 ≤ c.bonus) (free : Int) (el : Nat) :
    attempt c free el ≤ free - 1 + (el : Int) * c.bonus := by
  unfold attempt overMax
  have h0 : 0 ≤ (el : Int) * c.bonus := Int.mul_nonneg (Int.natCast_nonneg el) hb
  split
  · omega
  · split <;> omega

/-- the refill never lifts the budget above maxBudget − 1 (a budget above maxBudget, set by ResetFlood, only shrinks) -/
theorem attempt_cap (c : Cfg) (free : Int) (el : Nat) :
    (free ≤ c.maxBudget → attempt c free el ≤ c.maxBudget - 1) ∧ (c.maxBudget < free → attempt c free el = free - 1) := by
  unfold attempt overMax
  constructor
  · intro h
    have : ¬ (decide (c.maxBudget < free) = true) := by simpa using Int.not_lt.mpr h
    simp only [this]
    split <;> omega
  · intro h
    have : decide (c.maxBudget < free) = true := by simpa using h
    simp only [this, if_true]

/-- a sequence of creation attempts against one flood row: `el` is the number of elapsed steps the code measures at that
    attempt; a refused attempt (flood-limit error) leaves the row untouched. Returns (#created, final budget, Σ steps of the
    successful attempts). -/
def bucketRun (c : Cfg) : Int → List Nat → Nat × Int × Nat
  | free, [] => (0, free, 0)
  | free, el :: els =>
    if attempt c free el < 0 then bucketRun c free els
    else ((bucketRun c (attempt c free el) els).1 + 1, (bucketRun c (attempt c free el) els).2.1,
          (bucketRun c (attempt c free el) els).2.2 + el)

theorem bucket_potential (c : Cfg) (hb : 0 ≤ c.bonus) : ∀ (els : List Nat) (free : Int),
    ((bucketRun c free els).1 : Int) + (bucketRun c free els).2.1 ≤ free + ((bucketRun c free els).2.2 : Int) * c.bonus ∧
    (0 < (bucketRun c free els).1 → 0 ≤ (bucketRun c free els).2.1) := by
  intro els
  induction els with
  | nil => intro free; simp [bucketRun]
  | cons el els ih =>
    intro free
    simp only [bucketRun]
    by_cases h : attempt c free el < 0
    · simp only [h, if_true]; exact ih free
    · simp only [h, if_false]
      obtain ⟨h1, h2⟩ := ih (attempt c free el)
      have h3 := attempt_le c hb free el
      constructor
      · push_cast
        have : ((bucketRun c (attempt c free el) els).2.2 + el : Int) * c.bonus
            = ((bucketRun c (attempt c free el) els).2.2 : Int) * c.bonus + (el : Int) * c.bonus := by
          rw [Int.add_mul]
        rw [this]; omega
      · intro _
        by_cases hz : 0 < (bucketRun c (attempt c free el) els).1
        · exact h2 hz
        · have hz' : (bucketRun c (attempt c free el) els).1 = 0 := by omega
          -- no further creation: the budget is the one left by this attempt, which was not negative
          have : ∀ (els : List Nat) (f : Int), (bucketRun c f els).1 = 0 → (bucketRun c f els).2.1 = f := by
            intro els
            induction els with
            | nil => intro f _; rfl
            | cons e es ih2 =>
              intro f hf
              simp only [bucketRun] at hf ⊢
              by_cases h' : attempt c f e < 0
              · simp only [h', if_true] at hf ⊢; exact ih2 f hf
              · simp only [h', if_false] at hf; omega
          rw [this els _ hz']; omega

/-- PARTIAL (see the full statement above): for every sequence of attempts against one flood row,
    #created ≤ remaining budget at the start + bonus · (steps the code measured at the successful attempts);
    the remaining budget of a row written by the system is at most max(maxBudget, reset value) (`attempt_cap`, `resetAfter_le`). -/
theorem flood_bound_partial (c : Cfg) (hb : 0 ≤ c.bonus) (free : Int) (hf : 0 ≤ free) (els : List Nat) :
    ((bucketRun c free els).1 : Int) ≤ free + ((bucketRun c free els).2.2 : Int) * c.bonus := by
  obtain ⟨h1, h2⟩ := bucket_potential c hb els free
  by_cases hz : 0 < (bucketRun c free els).1
  · have := h2 hz; omega
  · have : (bucketRun c free els).1 = 0 := by omega
    have h0 : 0 ≤ ((bucketRun c free els).2.2 : Int) * c.bonus := Int.mul_nonneg (Int.natCast_nonneg _) hb
    rw [this]; push_cast; omega

theorem resetAfter_le (c : Cfg) (limit : Int) : resetAfter c limit ≤ max c.maxBudget maxResetLimit := by
  unfold resetAfter maxResetLimit
  split
  · exact Int.le_max_left _ _
  · split
    · exact Int.le_max_right _ _
    · rename_i h1 h2
      have : limit ≤ 10000 := by simpa [maxResetLimit] using Int.not_lt.mp h2
      exact Int.le_trans this (Int.le_max_right _ _)

/-- limited mode: the global budget no longer exempts creations from the per-metric limit -/
def Limited (c : Cfg) (s : State) : Prop := skipFlood c s = false

/-- the one-step tie: in limited mode, get-or-create of an unmapped key for a metric that has a flood row IS one bucket
    attempt on that row, with the elapsed steps measured by unsigned 32-bit subtraction of the rounded times -/
theorem create_limited (c : Cfg) (s : State) (m k now : Nat) (f : Flood) (hl : Limited c s)
    (hk : lookupKey s.maps k = none) (hf : lookupFlood s.flood m = some f) :
    let el := subU32 (roundTime now c.step) (u32 f.last) / c.step
    (attempt c f.free el < 0 → getOrCreate c s m k now = (s, .flood)) ∧
    (¬ attempt c f.free el < 0 →
      (getOrCreate c s m k now).2 = .created ((s.mapSeq + 1 : Nat) : Int) ∧
      lookupFlood (getOrCreate c s m k now).1.flood m
        = some { metric := m, last := roundTime now c.step, free := attempt c f.free el }) := by
  intro el
  have hb : budgetFor c s f (roundTime now c.step) = attempt c f.free el := by
    unfold budgetFor
    unfold Limited at hl
    simp only [hl]
    exact calcBudget_eq_attempt c f.free (u32 f.last) (roundTime now c.step)
  have hhit : floodHit c s f (roundTime now c.step) = decide (attempt c f.free el < 0) := by
    unfold floodHit
    unfold Limited at hl
    simp [hl, hb]
  constructor
  · intro hneg
    unfold getOrCreate createMapping
    simp [hk, hf, hhit, hneg]
  · intro hpos
    unfold getOrCreate createMapping
    simp only [hk, hf, hhit, hpos, decide_false]
    simp [insertMapping, setFlood, lookupFlood, hb]

/-- "requests beyond that fail with a flood-limit error" — and change nothing -/
theorem beyond_budget_is_flood_error (c : Cfg) (s : State) (m k now : Nat) (f : Flood) (hl : Limited c s)
    (hk : lookupKey s.maps k = none) (hf : lookupFlood s.flood m = some f)
    (hneg : attempt c f.free (subU32 (roundTime now c.step) (u32 f.last) / c.step) < 0) :
    getOrCreate c s m k now = (s, .flood) :=
  (create_limited c s m k now f hl hk hf).1 hneg

/-- a metric without a flood row starts with the maximum budget: the creation succeeds and leaves maxBudget − 1 -/
theorem create_first (c : Cfg) (s : State) (m k now : Nat) (hk : lookupKey s.maps k = none)
    (hf : lookupFlood s.flood m = none) :
    (getOrCreate c s m k now).2 = .created ((s.mapSeq + 1 : Nat) : Int) ∧
    lookupFlood (getOrCreate c s m k now).1.flood m
      = some { metric := m, last := roundTime now c.step, free := c.maxBudget - 1 } := by
  unfold getOrCreate createMapping
  simp only [hk, hf]
  simp [insertMapping, setFlood, lookupFlood]

/-- reset-flood sets exactly the requested budget (capped at 10000), or removes the row so that the metric starts again
    from maxBudget -/
theorem reset_sets_budget (c : Cfg) (s : State) (m : Nat) (limit : Int) (now : Nat) :
    (limit ≤ 0 → lookupFlood (resetFlood c s m limit now).1.flood m = none) ∧
    (0 < limit → lookupFlood (resetFlood c s m limit now).1.flood m
        = some { metric := m, last := now, free := resetAfter c limit }) := by
  constructor
  · intro h
    unfold resetFlood
    simp only [h, if_true]
    unfold lookupFlood
    rw [List.find?_eq_none]
    intro x hx
    simp only [List.mem_filter] at hx
    simpa using hx.2
  · intro h
    have : ¬ limit ≤ 0 := by omega
    unfold resetFlood
    simp only [this, if_false]
    simp [setFlood, lookupFlood]

/-! ### non-vacuity and the observed quirks -/

def c3 : Cfg := { maxBudget := 3, step := 60, bonus := 1, globalBudget := 0 }
def gcs (reqs : List (Nat × Nat)) : List Op := reqs.map (fun r => Op.getOrCreate 1 r.1 r.2)

-- budget 3, no time passes: three creations, then flood-limit; one step later one more creation
example : ((gcs [(1, 600), (2, 600), (3, 600)]).foldl (step c3) State.empty).maps.map (·.1) = [3, 2, 1] := by decide
example : (getOrCreate c3 (run c3 State.empty (gcs [(1, 600), (2, 600), (3, 600)])) 1 4 600).2 = .flood := by decide
example : (getOrCreate c3 (run c3 State.empty (gcs [(1, 600), (2, 600), (3, 600)])) 1 4 660).2 = .created 4 := by decide
example : (getOrCreate c3 (run c3 State.empty (gcs [(1, 600), (2, 600), (3, 600)])) 1 2 9999).2 = .got 2 := by decide
example : bucketRun c3 2 [0, 0, 0, 0, 1, 0] = (3, 0, 1) := by decide
-- a deleted id is not handed out again
example : (getOrCreate c3 (run c3 State.empty (gcs [(1, 600), (2, 600)] ++ [.delete [2]])) 1 9 600).2 = .created 3 := by decide
-- put displaces both the pair using the key and the pair using the id
example : (run c3 State.empty (gcs [(1, 600), (2, 600)] ++ [.put [(1, 2)]])).maps = [(2, 1)] := by decide

/-- Observation 1 (reported): ResetFlood stores the UNROUNDED time. A reset to 1 at t = 630 followed by a creation at t = 640
    (same 60 s step) measures 2^32 − 30 elapsed seconds by unsigned wrap, so the budget is refilled to maxBudget − 1 = 2
    instead of going from 1 to 0. -/
example : (run c3 State.empty (gcs [(1, 600)] ++ [.reset 1 1 630, .getOrCreate 1 2 640])).flood
    = [{ metric := 1, last := 600, free := 2 }] := by decide
/-- Observation 2 (reported): the same wrap refills the budget when the clock moves backwards by one step -/
example : (getOrCreate c3 (run c3 State.empty (gcs [(1, 600), (2, 600), (3, 600)])) 1 4 540).2 = .created 4 := by decide

end SH.C19
