/-
  C19 — Tag mappings form a stable bijection and creation obeys flood limits.

  "A string is mapped to at most one positive id and an id to at most one string; once created, a mapping never changes
   until it is explicitly deleted, repeated get-or-create calls return the same id, and deleted ids are never handed out
   again. Once the global budget is exhausted, the number of new mappings a metric can create in any time span is at most
   its remaining budget (the maximum budget, or the value set by a flood reset) plus the per-step bonus times the number
   of elapsed steps, and requests beyond that fail with a flood-limit error."

  Model: SH.Model.Meta (getOrCreate, putMany, deleteIds, resetFlood, calcBudget). A history is an arbitrary `List Op`
  with the clock value carried by every request (any clock progression, including backwards).
-/
import SH.Model.Meta

namespace SH.C19
open SH.Meta

/-! ### C19.1  the mapping table is a bijection in every reachable state -/

structure MInv (s : State) : Prop where
  keyUniq : ∀ p1 ∈ s.maps, ∀ p2 ∈ s.maps, p1.2 = p2.2 → p1 = p2
  idUniq : ∀ p1 ∈ s.maps, ∀ p2 ∈ s.maps, p1.1 = p2.1 → p1 = p2
  seqBound : ∀ p ∈ s.maps, p.1 ≤ (s.mapSeq : Int)

theorem minv_empty : MInv State.empty := by constructor <;> simp [State.empty]

theorem lookupKey_none {maps : List (Int × Nat)} {k : Nat} (h : lookupKey maps k = none) : ∀ p ∈ maps, p.2 ≠ k := by
  intro p hp
  unfold lookupKey at h
  have h' : maps.find? (fun p => p.2 == k) = none := by
    cases hf : maps.find? (fun p => p.2 == k) with
    | none => rfl
    | some x => simp [hf] at h
  have := List.find?_eq_none.mp h' p hp
  simpa using this

theorem lookupKey_some {maps : List (Int × Nat)} {k : Nat} {id : Int} (h : lookupKey maps k = some id) : (id, k) ∈ maps := by
  unfold lookupKey at h
  cases hf : maps.find? (fun p => p.2 == k) with
  | none => simp [hf] at h
  | some x =>
    simp only [hf, Option.map_some, Option.some.injEq] at h
    have h1 := List.mem_of_find?_eq_some hf
    have h2 := List.find?_some hf
    have : x.2 = k := by simpa using h2
    have hx : x = (id, k) := Prod.ext h this
    rw [← hx]; exact h1

/-- what get-or-create does to the mapping table: nothing, or it adds the pair (mapSeq + 1, key) for an unmapped key -/
theorem getOrCreate_maps (c : Cfg) (s : State) (m k now : Nat) :
    ((getOrCreate c s m k now).1.maps = s.maps ∧ (getOrCreate c s m k now).1.mapSeq = s.mapSeq ∧
      ∀ id, (getOrCreate c s m k now).2 ≠ .created id) ∨
    (lookupKey s.maps k = none ∧ (getOrCreate c s m k now).1.maps = (((s.mapSeq + 1 : Nat) : Int), k) :: s.maps ∧
      (getOrCreate c s m k now).1.mapSeq = s.mapSeq + 1 ∧ (getOrCreate c s m k now).2 = .created ((s.mapSeq + 1 : Nat) : Int)) := by
  unfold getOrCreate
  cases hk : lookupKey s.maps k with
  | some id => left; simp
  | none =>
    simp only
    unfold createMapping
    cases hf : lookupFlood s.flood m with
    | some f =>
      dsimp only
      by_cases hh : floodHit c s f (roundTime now c.step) = true
      · left; simp [hh]
      · right; simp [hh, insertMapping]
    | none => right; simp [insertMapping]

theorem minv_getOrCreate (c : Cfg) (s : State) (m k now : Nat) (hi : MInv s) : MInv (getOrCreate c s m k now).1 := by
  rcases getOrCreate_maps c s m k now with ⟨h1, h2, _⟩ | ⟨hk, h1, h2, _⟩
  · constructor
    · rw [h1]; exact hi.keyUniq
    · rw [h1]; exact hi.idUniq
    · rw [h1, h2]; exact hi.seqBound
  · have hfreshk := lookupKey_none hk
    constructor
    · rw [h1]
      intro p1 hp1 p2 hp2 hkk
      rcases List.mem_cons.mp hp1 with e1 | e1 <;> rcases List.mem_cons.mp hp2 with e2 | e2
      · rw [e1, e2]
      · subst e1; exact absurd hkk.symm (hfreshk p2 e2)
      · subst e2; exact absurd hkk (hfreshk p1 e1)
      · exact hi.keyUniq p1 e1 p2 e2 hkk
    · rw [h1]
      intro p1 hp1 p2 hp2 hid
      rcases List.mem_cons.mp hp1 with e1 | e1 <;> rcases List.mem_cons.mp hp2 with e2 | e2
      · rw [e1, e2]
      · subst e1; have := hi.seqBound p2 e2; simp only at hid; push_cast at hid; omega
      · subst e2; have := hi.seqBound p1 e1; simp only at hid; push_cast at hid; omega
      · exact hi.idUniq p1 e1 p2 e2 hid
    · rw [h1, h2]
      intro p hp
      rcases List.mem_cons.mp hp with e | e
      · subst e; simp
      · have := hi.seqBound p e; push_cast; omega

theorem minv_putOne (s : State) (k : Nat) (v : Int) (hi : MInv s) : MInv (putOne s k v) := by
  have hmem : ∀ p, p ∈ (putOne s k v).maps ↔ p = (v, k) ∨ (p ∈ s.maps ∧ p.1 ≠ v ∧ p.2 ≠ k) := by
    intro p; simp [putOne, List.mem_filter]
  constructor
  · intro p1 hp1 p2 hp2 hkk
    rcases (hmem p1).mp hp1 with e1 | e1 <;> rcases (hmem p2).mp hp2 with e2 | e2
    · rw [e1, e2]
    · subst e1; exact absurd hkk.symm e2.2.2
    · subst e2; exact absurd hkk e1.2.2
    · exact hi.keyUniq p1 e1.1 p2 e2.1 hkk
  · intro p1 hp1 p2 hp2 hid
    rcases (hmem p1).mp hp1 with e1 | e1 <;> rcases (hmem p2).mp hp2 with e2 | e2
    · rw [e1, e2]
    · subst e1; exact absurd hid.symm e2.2.1
    · subst e2; exact absurd hid e1.2.1
    · exact hi.idUniq p1 e1.1 p2 e2.1 hid
  · intro p hp
    rcases (hmem p).mp hp with e | e
    · subst e
      simp only [putOne]
      split
      · rename_i h; have : 0 ≤ v := by omega
        rw [Int.toNat_of_nonneg this]; exact Int.le_refl _
      · rename_i h; omega
    · have := hi.seqBound p e.1
      simp only [putOne]
      split
      · rename_i h; have h0 : 0 ≤ v := by omega
        rw [Int.toNat_of_nonneg h0]; omega
      · exact this

theorem minv_putMany : ∀ (kvs : List (Nat × Int)) (s : State), MInv s → MInv (putMany s kvs) := by
  intro kvs
  induction kvs with
  | nil => intro s hi; exact hi
  | cons kv rest ih => intro s hi; obtain ⟨k, v⟩ := kv; exact ih _ (minv_putOne s k v hi)

theorem minv_delete (s : State) (ids : List Int) (hi : MInv s) : MInv (deleteIds s ids).1 := by
  have hsub : ∀ p ∈ (deleteIds s ids).1.maps, p ∈ s.maps := by
    intro p hp; simp only [deleteIds, List.mem_filter] at hp; exact hp.1
  constructor
  · intro p1 h1 p2 h2; exact hi.keyUniq p1 (hsub p1 h1) p2 (hsub p2 h2)
  · intro p1 h1 p2 h2; exact hi.idUniq p1 (hsub p1 h1) p2 (hsub p2 h2)
  · intro p hp; exact hi.seqBound p (hsub p hp)

theorem save_maps (s : State) (a : SaveReq) : (save s a).1.maps = s.maps ∧ (save s a).1.mapSeq = s.mapSeq ∧
    (save s a).1.flood = s.flood ∧ (save s a).1.lastCreated = s.lastCreated := by
  unfold save saveV
  split
  · simp
  · split
    · simp
    · unfold saveResolved
      split
      · simp
      · split
        · unfold saveCreate; split <;> simp
        · split
          · simp
          · unfold saveEdit
            split
            · simp
            · split
              · split <;> simp
              · simp

theorem minv_step (c : Cfg) (s : State) (op : Op) (hi : MInv s) : MInv (step c s op) := by
  cases op with
  | save a =>
    obtain ⟨h1, h2, _, _⟩ := save_maps s a
    exact ⟨by simp only [step]; rw [h1]; exact hi.keyUniq, by simp only [step]; rw [h1]; exact hi.idUniq,
           by simp only [step]; rw [h1, h2]; exact hi.seqBound⟩
  | getOrCreate m k now => exact minv_getOrCreate c s m k now hi
  | put kvs => exact minv_putMany kvs s hi
  | delete ids => exact minv_delete s ids hi
  | reset m l now =>
    have h : (resetFlood c s m l now).1.maps = s.maps ∧ (resetFlood c s m l now).1.mapSeq = s.mapSeq := by
      unfold resetFlood; split <;> simp
    exact ⟨by simp only [step]; rw [h.1]; exact hi.keyUniq, by simp only [step]; rw [h.1]; exact hi.idUniq,
           by simp only [step]; rw [h.1, h.2]; exact hi.seqBound⟩

/-- "A string is mapped to at most one id and an id to at most one string", in every state reachable by any history of
    get-or-create, put, delete, reset-flood (and entity) requests under any clock. -/
theorem bijection_invariant (c : Cfg) : ∀ (ops : List Op) (s : State), MInv s → MInv (run c s ops) := by
  intro ops
  induction ops with
  | nil => intro s hi; exact hi
  | cons op ops ih => intro s hi; exact ih _ (minv_step c s op hi)

theorem reachable_bijection (c : Cfg) (ops : List Op) : MInv (run c State.empty ops) := bijection_invariant c ops _ minv_empty

/-- ids handed out by get-or-create are positive -/
theorem created_positive (c : Cfg) (s : State) (m k now : Nat) (id : Int)
    (h : (getOrCreate c s m k now).2 = .created id) : 0 < id := by
  rcases getOrCreate_maps c s m k now with ⟨_, _, h3⟩ | ⟨_, _, _, h4⟩
  · exact absurd h (h3 id)
  · rw [h4] at h; injection h with h; subst h; push_cast; omega

/-! ### C19.2  a mapping never changes until it is explicitly deleted (or explicitly overwritten by put) -/

/-- get-or-create of a mapped key returns the stored id and changes nothing at all -/
theorem get_or_create_stable (c : Cfg) (s : State) (m k now : Nat) (id : Int) (h : lookupKey s.maps k = some id) :
    getOrCreate c s m k now = (s, .got id) := by
  unfold getOrCreate; simp [h]

/-- "repeated get-or-create calls return the same id": whatever the first call answered with an id, the second call
    (any metric, any later or earlier time) answers `got` with that id and leaves the state unchanged -/
theorem get_idempotent (c : Cfg) (s : State) (m k now m' now' : Nat) (id : Int)
    (h : (getOrCreate c s m k now).2 = .created id ∨ (getOrCreate c s m k now).2 = .got id) :
    getOrCreate c (getOrCreate c s m k now).1 m' k now' = ((getOrCreate c s m k now).1, .got id) := by
  apply get_or_create_stable
  rcases getOrCreate_maps c s m k now with ⟨h1, _, h3⟩ | ⟨_, h1, _, h4⟩
  · rcases h with h | h
    · exact absurd h (h3 id)
    · rw [h1]
      unfold getOrCreate at h
      cases hk : lookupKey s.maps k with
      | some id' => simp [hk] at h; rw [h]
      | none =>
        exfalso
        simp only [hk] at h
        unfold createMapping at h
        cases hf : lookupFlood s.flood m with
        | some f => simp only [hf] at h; dsimp only at h; split at h <;> simp [insertMapping] at h
        | none => simp [hf, insertMapping] at h
  · rw [h1]
    rcases h with h | h
    · rw [h4] at h; injection h with h; subst h; simp [lookupKey]
    · rw [h4] at h; cases h

/-- every operation other than put and delete keeps every existing pair -/
theorem mapping_kept_by_non_explicit_ops (c : Cfg) (s : State) (op : Op)
    (hput : ∀ kvs, op ≠ .put kvs) (hdel : ∀ ids, op ≠ .delete ids) :
    ∀ p ∈ s.maps, p ∈ (step c s op).maps := by
  intro p hp
  cases op with
  | save a => simp only [step]; rw [(save_maps s a).1]; exact hp
  | getOrCreate m k now =>
    rcases getOrCreate_maps c s m k now with ⟨h1, _, _⟩ | ⟨_, h1, _, _⟩
    · simp only [step]; rw [h1]; exact hp
    · simp only [step]; rw [h1]; exact List.mem_cons_of_mem _ hp
  | put kvs => exact absurd rfl (hput kvs)
  | delete ids => exact absurd rfl (hdel ids)
  | reset m l now =>
    have h : (resetFlood c s m l now).1.maps = s.maps := by unfold resetFlood; split <;> simp
    simp only [step]; rw [h]; exact hp

/-- delete removes exactly the listed ids and reports how many of them were present -/
theorem delete_exact (s : State) (ids : List Int) (p : Int × Nat) :
    p ∈ (deleteIds s ids).1.maps ↔ p ∈ s.maps ∧ p.1 ∉ ids := by
  simp [deleteIds, List.mem_filter]

/-! ### C19.3  deleted ids are never handed out again -/

theorem putMany_seq : ∀ (kvs : List (Nat × Int)) (s : State), s.mapSeq ≤ (putMany s kvs).mapSeq := by
  intro kvs
  induction kvs with
  | nil => intro s; exact Nat.le_refl _
  | cons kv rest ih =>
    intro s
    obtain ⟨k, v⟩ := kv
    refine Nat.le_trans ?_ (ih (putOne s k v))
    simp only [putOne]
    split
    · rename_i h; omega
    · exact Nat.le_refl _

/-- the AUTOINCREMENT high-water mark never decreases (delete does not lower it) -/
theorem mapSeq_mono (c : Cfg) (s : State) (op : Op) : s.mapSeq ≤ (step c s op).mapSeq := by
  cases op with
  | save a => simp only [step]; rw [(save_maps s a).2.1]; exact Nat.le_refl _
  | getOrCreate m k now =>
    rcases getOrCreate_maps c s m k now with ⟨_, h2, _⟩ | ⟨_, _, h2, _⟩
    · simp only [step]; rw [h2]; exact Nat.le_refl _
    · simp only [step]; rw [h2]; exact Nat.le_succ _
  | put kvs => exact putMany_seq kvs s
  | delete ids => simp [step, deleteIds]
  | reset m l now =>
    have h : (resetFlood c s m l now).1.mapSeq = s.mapSeq := by unfold resetFlood; split <;> simp
    simp only [step]; rw [h]; exact Nat.le_refl _

theorem mapSeq_mono_run (c : Cfg) : ∀ (ops : List Op) (s : State), s.mapSeq ≤ (run c s ops).mapSeq := by
  intro ops
  induction ops with
  | nil => intro s; exact Nat.le_refl _
  | cons op ops ih => intro s; exact Nat.le_trans (mapSeq_mono c s op) (ih _)

/-- "deleted ids are never handed out again": take any id `p.1` present in a reachable state `s`; after ANY further history
    `ops` (which may delete it), an id created by get-or-create is strictly greater than it. -/
theorem ids_never_reused (c : Cfg) (s : State) (hi : MInv s) (p : Int × Nat) (hp : p ∈ s.maps)
    (ops : List Op) (m k now : Nat) (id : Int)
    (h : (getOrCreate c (run c s ops) m k now).2 = .created id) : p.1 < id := by
  have h1 := hi.seqBound p hp
  have h2 := mapSeq_mono_run c ops s
  rcases getOrCreate_maps c (run c s ops) m k now with ⟨_, _, h3⟩ | ⟨_, _, _, h4⟩
  · exact absurd h (h3 id)
  · rw [h4] at h; injection h with h; subst h; push_cast; omega

end SH.C19
