/-
  C19 — Tag mappings form a stable bijection and creation obeys flood limits.

  "A string is mapped to at most one positive id and an id to at most one string; once created, a mapping never changes
   until it is explicitly deleted, repeated get-or-create calls return the same id, and deleted ids are never handed out
   again. Once the global budget is exhausted, the number of new mappings a metric can create in any time span is at most
   its remaining budget (the maximum budget, or the value set by a flood reset) plus the per-step bonus times the number
   of elapsed steps, and requests beyond that fail with a flood-limit error."

  Model: SH.Model.Meta (getOrCreate, putMany, deleteIds, resetFlood, calcBudget). A history is an arbitrary `List Op`
  with the clock value carried by every request (any clock progression, including backwards).
-/
import SH.Model.Meta
import SH.Lemmas.MetaFlood

namespace SH.C19
open SH.Meta SH.MetaFlood

/-! ### C19.1  the mapping table is a bijection in every reachable state -/

structure MInv (s : State) : Prop where
  keyUniq : ∀ p1 ∈ s.maps, ∀ p2 ∈ s.maps, p1.2 = p2.2 → p1 = p2
  idUniq : ∀ p1 ∈ s.maps, ∀ p2 ∈ s.maps, p1.1 = p2.1 → p1 = p2
  seqBound : ∀ p ∈ s.maps, p.1 ≤ (s.mapSeq : Int)

theorem minv_empty : MInv State.empty := by constructor <;> simp [State.empty]

theorem lookupKey_none {maps : List (Int × Nat)} {k : Nat} (h : lookupKey maps k = none) : ∀ p ∈ maps, p.2 ≠ k := by
  intro p hp
  unfold lookupKey at h
  have h' : maps.find? (fun p => p.2 == k) = none := by
    cases hf : maps.find? (fun p => p.2 == k) with
    | none => rfl
    | some x => simp [hf] at h
  have := List.find?_eq_none.mp h' p hp
  simpa using this

theorem lookupKey_some {maps : List (Int × Nat)} {k : Nat} {id : Int} (h : lookupKey maps k = some id) : (id, k) ∈ maps := by
  unfold lookupKey at h
  cases hf : maps.find? (fun p => p.2 == k) with
  | none => simp [hf] at h
  | some x =>
    simp only [hf, Option.map_some, Option.some.injEq] at h
    have h1 := List.mem_of_find?_eq_some hf
    have h2 := List.find?_some hf
    have : x.2 = k := by simpa using h2
    have hx : x = (id, k) := Prod.ext h this
    rw [← hx]; exact h1

/-- what get-or-create does to the mapping table: nothing, or it adds the pair (mapSeq + 1, key) for an unmapped key -/
theorem getOrCreate_maps (c : Cfg) (s : State) (m k now : Nat) :
    ((getOrCreate c s m k now).1.maps = s.maps ∧ (getOrCreate c s m k now).1.mapSeq = s.mapSeq ∧
      ∀ id, (getOrCreate c s m k now).2 ≠ .created id) ∨
    (lookupKey s.maps k = none ∧ (getOrCreate c s m k now).1.maps = (((s.mapSeq + 1 : Nat) : Int), k) :: s.maps ∧
      (getOrCreate c s m k now).1.mapSeq = s.mapSeq + 1 ∧ (getOrCreate c s m k now).2 = .created ((s.mapSeq + 1 : Nat) : Int)) := by
  unfold getOrCreate
  cases hk : lookupKey s.maps k with
  | some id => left; simp
  | none =>
    simp only
    unfold createMapping
    cases hf : lookupFlood s.flood m with
    | some f =>
      dsimp only
      by_cases hh : floodHit c s f (roundTime now c.step) = true
      · left; simp [hh]
      · right; simp [hh, insertMapping]
    | none => right; simp [insertMapping]

theorem minv_getOrCreate (c : Cfg) (s : State) (m k now : Nat) (hi : MInv s) : MInv (getOrCreate c s m k now).1 := by
  rcases getOrCreate_maps c s m k now with ⟨h1, h2, _⟩ | ⟨hk, h1, h2, _⟩
  · constructor
    · rw [h1]; exact hi.keyUniq
    · rw [h1]; exact hi.idUniq
    · rw [h1, h2]; exact hi.seqBound
  · have hfreshk := lookupKey_none hk
    constructor
    · rw [h1]
      intro p1 hp1 p2 hp2 hkk
      rcases List.mem_cons.mp hp1 with e1 | e1 <;> rcases List.mem_cons.mp hp2 with e2 | e2
      · rw [e1, e2]
      · subst e1; exact absurd hkk.symm (hfreshk p2 e2)
      · subst e2; exact absurd hkk (hfreshk p1 e1)
      · exact hi.keyUniq p1 e1 p2 e2 hkk
    · rw [h1]
      intro p1 hp1 p2 hp2 hid
      rcases List.mem_cons.mp hp1 with e1 | e1 <;> rcases List.mem_cons.mp hp2 with e2 | e2
      · rw [e1, e2]
      · subst e1; have := hi.seqBound p2 e2; simp only at hid; push_cast at hid; omega
      · subst e2; have := hi.seqBound p1 e1; simp only at hid; push_cast at hid; omega
      · exact hi.idUniq p1 e1 p2 e2 hid
    · rw [h1, h2]
      intro p hp
      rcases List.mem_cons.mp hp with e | e
      · subst e; simp
      · have := hi.seqBound p e; push_cast; omega

theorem minv_putOne (s : State) (k : Nat) (v : Int) (hi : MInv s) : MInv (putOne s k v) := by
  have hmem : ∀ p, p ∈ (putOne s k v).maps ↔ p = (v, k) ∨ (p ∈ s.maps ∧ p.1 ≠ v ∧ p.2 ≠ k) := by
    intro p; simp [putOne, List.mem_filter]
  constructor
  · intro p1 hp1 p2 hp2 hkk
    rcases (hmem p1).mp hp1 with e1 | e1 <;> rcases (hmem p2).mp hp2 with e2 | e2
    · rw [e1, e2]
    · subst e1; exact absurd hkk.symm e2.2.2
    · subst e2; exact absurd hkk e1.2.2
    · exact hi.keyUniq p1 e1.1 p2 e2.1 hkk
  · intro p1 hp1 p2 hp2 hid
    rcases (hmem p1).mp hp1 with e1 | e1 <;> rcases (hmem p2).mp hp2 with e2 | e2
    · rw [e1, e2]
    · subst e1; exact absurd hid.symm e2.2.1
    · subst e2; exact absurd hid e1.2.1
    · exact hi.idUniq p1 e1.1 p2 e2.1 hid
  · intro p hp
    rcases (hmem p).mp hp with e | e
    · subst e
      simp only [putOne]
      split
      · rename_i h; have : 0 ≤ v := by omega
        rw [Int.toNat_of_nonneg this]; exact Int.le_refl _
      · rename_i h; omega
    · have := hi.seqBound p e.1
      simp only [putOne]
      split
      · rename_i h; have h0 : 0 ≤ v := by omega
        rw [Int.toNat_of_nonneg h0]; omega
      · exact this

theorem minv_putMany : ∀ (kvs : List (Nat × Int)) (s : State), MInv s → MInv (putMany s kvs) := by
  intro kvs
  induction kvs with
  | nil => intro s hi; exact hi
  | cons kv rest ih => intro s hi; obtain ⟨k, v⟩ := kv; exact ih _ (minv_putOne s k v hi)

theorem minv_delete (s : State) (ids : List Int) (hi : MInv s) : MInv (deleteIds s ids).1 := by
  have hsub : ∀ p ∈ (deleteIds s ids).1.maps, p ∈ s.maps := by
    intro p hp; simp only [deleteIds, List.mem_filter] at hp; exact hp.1
  constructor
  · intro p1 h1 p2 h2; exact hi.keyUniq p1 (hsub p1 h1) p2 (hsub p2 h2)
  · intro p1 h1 p2 h2; exact hi.idUniq p1 (hsub p1 h1) p2 (hsub p2 h2)
  · intro p hp; exact hi.seqBound p (hsub p hp)

theorem save_maps (s : State) (a : SaveReq) : (save s a).1.maps = s.maps ∧ (save s a).1.mapSeq = s.mapSeq ∧
    (save s a).1.flood = s.flood ∧ (save s a).1.lastCreated = s.lastCreated := by
  unfold save saveV
  split
  · simp
  · split
    · simp
    · unfold saveResolved
      split
      · simp
      · split
        · unfold saveCreate; split <;> simp
        · split
          · simp
          · unfold saveEdit
            split
            · simp
            · split
              · split <;> simp
              · simp

theorem minv_step (c : Cfg) (s : State) (op : Op) (hi : MInv s) : MInv (step c s op) := by
  cases op with
  | save a =>
    obtain ⟨h1, h2, _, _⟩ := save_maps s a
    exact ⟨by simp only [step]; rw [h1]; exact hi.keyUniq, by simp only [step]; rw [h1]; exact hi.idUniq,
           by simp only [step]; rw [h1, h2]; exact hi.seqBound⟩
  | getOrCreate m k now => exact minv_getOrCreate c s m k now hi
  | put kvs => exact minv_putMany kvs s hi
  | delete ids => exact minv_delete s ids hi
  | reset m l now =>
    have h : (resetFlood c s m l now).1.maps = s.maps ∧ (resetFlood c s m l now).1.mapSeq = s.mapSeq := by
      unfold resetFlood; split <;> simp
    exact ⟨by simp only [step]; rw [h.1]; exact hi.keyUniq, by simp only [step]; rw [h.1]; exact hi.idUniq,
           by simp only [step]; rw [h.1, h.2]; exact hi.seqBound⟩

/-- "A string is mapped to at most one id and an id to at most one string", in every state reachable by any history of
    get-or-create, put, delete, reset-flood (and entity) requests under any clock. -/
theorem bijection_invariant (c : Cfg) : ∀ (ops : List Op) (s : State), MInv s → MInv (run c s ops) := by
  intro ops
  induction ops with
  | nil => intro s hi; exact hi
  | cons op ops ih => intro s hi; exact ih _ (minv_step c s op hi)

theorem reachable_bijection (c : Cfg) (ops : List Op) : MInv (run c State.empty ops) := bijection_invariant c ops _ minv_empty

/-- ids handed out by get-or-create are positive -/
theorem created_positive (c : Cfg) (s : State) (m k now : Nat) (id : Int)
    (h : (getOrCreate c s m k now).2 = .created id) : 0 < id := by
  rcases getOrCreate_maps c s m k now with ⟨_, _, h3⟩ | ⟨_, _, _, h4⟩
  · exact absurd h (h3 id)
  · rw [h4] at h; injection h with h; subst h; push_cast; omega

/-! ### C19.2  a mapping never changes until it is explicitly deleted (or explicitly overwritten by put) -/

/-- get-or-create of a mapped key returns the stored id and changes nothing at all -/
theorem get_or_create_stable (c : Cfg) (s : State) (m k now : Nat) (id : Int) (h : lookupKey s.maps k = some id) :
    getOrCreate c s m k now = (s, .got id) := by
  unfold getOrCreate; simp [h]

/-- "repeated get-or-create calls return the same id": whatever the first call answered with an id, the second call
    (any metric, any later or earlier time) answers `got` with that id and leaves the state unchanged -/
theorem get_idempotent (c : Cfg) (s : State) (m k now m' now' : Nat) (id : Int)
    (h : (getOrCreate c s m k now).2 = .created id ∨ (getOrCreate c s m k now).2 = .got id) :
    getOrCreate c (getOrCreate c s m k now).1 m' k now' = ((getOrCreate c s m k now).1, .got id) := by
  apply get_or_create_stable
  rcases getOrCreate_maps c s m k now with ⟨h1, _, h3⟩ | ⟨_, h1, _, h4⟩
  · rcases h with h | h
    · exact absurd h (h3 id)
    · rw [h1]
      unfold getOrCreate at h
      cases hk : lookupKey s.maps k with
      | some id' => simp [hk] at h; rw [h]
      | none =>
        exfalso
        simp only [hk] at h
        unfold createMapping at h
        cases hf : lookupFlood s.flood m with
        | some f => simp only [hf] at h; split at h <;> simp [insertMapping] at h
        | none => simp [hf, insertMapping] at h
  · rw [h1]
    rcases h with h | h
    · rw [h4] at h; injection h with h; subst h; simp [lookupKey]
    · rw [h4] at h; cases h

/-- every operation other than put and delete keeps every existing pair -/
theorem mapping_kept_by_non_explicit_ops (c : Cfg) (s : State) (op : Op)
    (hput : ∀ kvs, op ≠ .put kvs) (hdel : ∀ ids, op ≠ .delete ids) :
    ∀ p ∈ s.maps, p ∈ (step c s op).maps := by
  intro p hp
  cases op with
  | save a => simp only [step]; rw [(save_maps s a).1]; exact hp
  | getOrCreate m k now =>
    rcases getOrCreate_maps c s m k now with ⟨h1, _, _⟩ | ⟨_, h1, _, _⟩
    · simp only [step]; rw [h1]; exact hp
    · simp only [step]; rw [h1]; exact List.mem_cons_of_mem _ hp
  | put kvs => exact absurd rfl (hput kvs)
  | delete ids => exact absurd rfl (hdel ids)
  | reset m l now =>
    have h : (resetFlood c s m l now).1.maps = s.maps := by unfold resetFlood; split <;> simp
    simp only [step]; rw [h]; exact hp

/-- delete removes exactly the listed ids and reports how many of them were present -/
theorem delete_exact (s : State) (ids : List Int) (p : Int × Nat) :
    p ∈ (deleteIds s ids).1.maps ↔ p ∈ s.maps ∧ p.1 ∉ ids := by
  simp [deleteIds, List.mem_filter]

/-! ### C19.3  deleted ids are never handed out again -/

theorem putMany_seq : ∀ (kvs : List (Nat × Int)) (s : State), s.mapSeq ≤ (putMany s kvs).mapSeq := by
  intro kvs
  induction kvs with
  | nil => intro s; exact Nat.le_refl _
  | cons kv rest ih =>
    intro s
    obtain ⟨k, v⟩ := kv
    refine Nat.le_trans ?_ (ih (putOne s k v))
    simp only [putOne]
    split
    · rename_i h; omega
    · exact Nat.le_refl _

/-- the AUTOINCREMENT high-water mark never decreases (delete does not lower it) -/
theorem mapSeq_mono (c : Cfg) (s : State) (op : Op) : s.mapSeq ≤ (step c s op).mapSeq := by
  cases op with
  | save a => simp only [step]; rw [(save_maps s a).2.1]; exact Nat.le_refl _
  | getOrCreate m k now =>
    rcases getOrCreate_maps c s m k now with ⟨_, h2, _⟩ | ⟨_, _, h2, _⟩
    · simp only [step]; rw [h2]; exact Nat.le_refl _
    · simp only [step]; rw [h2]; exact Nat.le_succ _
  | put kvs => exact putMany_seq kvs s
  | delete ids => simp [step, deleteIds]
  | reset m l now =>
    have h : (resetFlood c s m l now).1.mapSeq = s.mapSeq := by unfold resetFlood; split <;> simp
    simp only [step]; rw [h]; exact Nat.le_refl _

theorem mapSeq_mono_run (c : Cfg) : ∀ (ops : List Op) (s : State), s.mapSeq ≤ (run c s ops).mapSeq := by
  intro ops
  induction ops with
  | nil => intro s; exact Nat.le_refl _
  | cons op ops ih => intro s; exact Nat.le_trans (mapSeq_mono c s op) (ih _)

/-- "deleted ids are never handed out again": take any id `p.1` present in a reachable state `s`; after ANY further history
    `ops` (which may delete it), an id created by get-or-create is strictly greater than it. -/
theorem ids_never_reused (c : Cfg) (s : State) (hi : MInv s) (p : Int × Nat) (hp : p ∈ s.maps)
    (ops : List Op) (m k now : Nat) (id : Int)
    (h : (getOrCreate c (run c s ops) m k now).2 = .created id) : p.1 < id := by
  have h1 := hi.seqBound p hp
  have h2 := mapSeq_mono_run c ops s
  rcases getOrCreate_maps c (run c s ops) m k now with ⟨_, _, h3⟩ | ⟨_, _, _, h4⟩
  · exact absurd h (h3 id)
  · rw [h4] at h; injection h with h; subst h; push_cast; omega


/-! ### C19.4  flood limits

  FULL STATEMENT (kept for reference): for every history `ops`, every metric `m` and every window of the history that lies after
  the global budget was exhausted and contains no reset of `m`:
      #(mappings created for m in the window) ≤ free_m(at window start, maxBudget if m has no row) + bonus · (elapsed steps),
  and every request of `m` for an unmapped key made when `attempt` is negative answers flood-limit and changes nothing.

  Proved below: (1) the arithmetic of calcBudget as a token bucket (`attempt_*`), (2) the bound for EVERY sequence of attempts
  against one flood row, with the elapsed steps as the code measures them (`flood_bound_partial`), (3) the one-step tie between
  the bucket and the full model: in limited mode get-or-create of an unmapped key is exactly one bucket attempt on the metric's
  row (`create_limited`, `create_first`, `beyond_budget_is_flood_error`), (4) nothing but reset and the metric's own creations
  writes a flood row of the metric is NOT proved in Lean (frame lemmas over the full op list are missing); the composition of
  (2) and (3) along a full history is covered by the correspondence and by the token-bucket oracle of the harness only.
  Under a non-decreasing clock the measured steps of successive creations telescope to at most the real number of elapsed
  steps (`lastTimeUpdate` is always a rounded time except right after ResetFlood, see the note in checks/C19.py). -/

/-- calcBudget for one creation (expense 1) as a function of the measured number of elapsed steps -/
def attempt (c : Cfg) (free : Int) (el : Nat) : Int :=
  if overMax free c.maxBudget then free - 1
  else if c.maxBudget ≤ free - 1 + (el : Int) * c.bonus then c.maxBudget - 1 else free - 1 + (el : Int) * c.bonus

theorem calcBudget_eq_attempt (c : Cfg) (free : Int) (last now : Nat) :
    calcBudget free 1 last now c.maxBudget c.bonus c.step = attempt c free (subU32 now last / c.step) := by
  unfold calcBudget attempt; rfl

/-- one creation costs one unit; the refill is at most bonus per measured step -/
theorem attempt_le (c : Cfg) (hb : 0 ≤ c.bonus) (free : Int) (el : Nat) :
    attempt c free el ≤ free - 1 + (el : Int) * c.bonus := by
  unfold attempt overMax
  have h0 : 0 ≤ (el : Int) * c.bonus := Int.mul_nonneg (Int.natCast_nonneg el) hb
  split
  · omega
  · split <;> omega

/-- the refill never lifts the budget above maxBudget − 1 (a budget above maxBudget, set by ResetFlood, only shrinks) -/
theorem attempt_cap (c : Cfg) (free : Int) (el : Nat) :
    (free ≤ c.maxBudget → attempt c free el ≤ c.maxBudget - 1) ∧ (c.maxBudget < free → attempt c free el = free - 1) := by
  unfold attempt overMax
  constructor
  · intro h
    have : ¬ (decide (c.maxBudget < free) = true) := by simpa using Int.not_lt.mpr h
    simp only [this]
    split <;> omega
  · intro h
    have : decide (c.maxBudget < free) = true := by simpa using h
    simp only [this, if_true]

/-- a sequence of creation attempts against one flood row: `el` is the number of elapsed steps the code measures at that
    attempt; a refused attempt (flood-limit error) leaves the row untouched. Returns (#created, final budget, Σ steps of the
    successful attempts). -/
def bucketRun (c : Cfg) : Int → List Nat → Nat × Int × Nat
  | free, [] => (0, free, 0)
  | free, el :: els =>
    if attempt c free el < 0 then bucketRun c free els
    else ((bucketRun c (attempt c free el) els).1 + 1, (bucketRun c (attempt c free el) els).2.1,
          (bucketRun c (attempt c free el) els).2.2 + el)

theorem bucket_potential (c : Cfg) (hb : 0 ≤ c.bonus) : ∀ (els : List Nat) (free : Int),
    ((bucketRun c free els).1 : Int) + (bucketRun c free els).2.1 ≤ free + ((bucketRun c free els).2.2 : Int) * c.bonus ∧
    (0 < (bucketRun c free els).1 → 0 ≤ (bucketRun c free els).2.1) := by
  intro els
  induction els with
  | nil => intro free; simp [bucketRun]
  | cons el els ih =>
    intro free
    simp only [bucketRun]
    by_cases h : attempt c free el < 0
    · simp only [h, if_true]; exact ih free
    · simp only [h, if_false]
      obtain ⟨h1, h2⟩ := ih (attempt c free el)
      have h3 := attempt_le c hb free el
      constructor
      · push_cast
        have : ((bucketRun c (attempt c free el) els).2.2 + el : Int) * c.bonus
            = ((bucketRun c (attempt c free el) els).2.2 : Int) * c.bonus + (el : Int) * c.bonus := by
          rw [Int.add_mul]
        rw [this]; omega
      · intro _
        by_cases hz : 0 < (bucketRun c (attempt c free el) els).1
        · exact h2 hz
        · have hz' : (bucketRun c (attempt c free el) els).1 = 0 := by omega
          -- no further creation: the budget is the one left by this attempt, which was not negative
          have : ∀ (els : List Nat) (f : Int), (bucketRun c f els).1 = 0 → (bucketRun c f els).2.1 = f := by
            intro els
            induction els with
            | nil => intro f _; rfl
            | cons e es ih2 =>
              intro f hf
              simp only [bucketRun] at hf ⊢
              by_cases h' : attempt c f e < 0
              · simp only [h', if_true] at hf ⊢; exact ih2 f hf
              · simp only [h', if_false] at hf; omega
          rw [this els _ hz']; omega

/-- PARTIAL (see the full statement above): for every sequence of attempts against one flood row,
    #created ≤ remaining budget at the start + bonus · (steps the code measured at the successful attempts);
    the remaining budget of a row written by the system is at most max(maxBudget, reset value) (`attempt_cap`, `resetAfter_le`). -/
theorem flood_bound_partial (c : Cfg) (hb : 0 ≤ c.bonus) (free : Int) (hf : 0 ≤ free) (els : List Nat) :
    ((bucketRun c free els).1 : Int) ≤ free + ((bucketRun c free els).2.2 : Int) * c.bonus := by
  obtain ⟨h1, h2⟩ := bucket_potential c hb els free
  by_cases hz : 0 < (bucketRun c free els).1
  · have := h2 hz; omega
  · have : (bucketRun c free els).1 = 0 := by omega
    have h0 : 0 ≤ ((bucketRun c free els).2.2 : Int) * c.bonus := Int.mul_nonneg (Int.natCast_nonneg _) hb
    rw [this]; push_cast; omega

theorem resetAfter_le (c : Cfg) (limit : Int) : resetAfter c limit ≤ max c.maxBudget maxResetLimit := by
  unfold resetAfter maxResetLimit
  split
  · exact Int.le_max_left _ _
  · split
    · exact Int.le_max_right _ _
    · rename_i h1 h2
      have : limit ≤ 10000 := by simpa [maxResetLimit] using Int.not_lt.mp h2
      exact Int.le_trans this (Int.le_max_right _ _)

/-- limited mode: the global budget no longer exempts creations from the per-metric limit -/
def Limited (c : Cfg) (s : State) : Prop := skipFlood c s = false

/-- the one-step tie: in limited mode, get-or-create of an unmapped key for a metric that has a flood row IS one bucket
    attempt on that row, with the elapsed steps measured by unsigned 32-bit subtraction of the rounded times -/
theorem create_limited (c : Cfg) (s : State) (m k now : Nat) (f : Flood) (hl : Limited c s)
    (hk : lookupKey s.maps k = none) (hf : lookupFlood s.flood m = some f) :
    let el := subU32 (roundTime now c.step) (u32 f.last) / c.step
    (attempt c f.free el < 0 → getOrCreate c s m k now = (s, .flood)) ∧
    (¬ attempt c f.free el < 0 →
      (getOrCreate c s m k now).2 = .created ((s.mapSeq + 1 : Nat) : Int) ∧
      lookupFlood (getOrCreate c s m k now).1.flood m
        = some { metric := m, last := roundTime now c.step, free := attempt c f.free el }) := by
  intro el
  have hb : budgetFor c s f (roundTime now c.step) = attempt c f.free el := by
    unfold budgetFor
    unfold Limited at hl
    simp only [hl]
    exact calcBudget_eq_attempt c f.free (u32 f.last) (roundTime now c.step)
  have hhit : floodHit c s f (roundTime now c.step) = decide (attempt c f.free el < 0) := by
    unfold floodHit
    unfold Limited at hl
    simp [hl, hb]
  constructor
  · intro hneg
    unfold getOrCreate createMapping
    simp [hk, hf, hhit, hneg]
  · intro hpos
    unfold getOrCreate createMapping
    simp only [hk, hf, hhit, hpos, decide_false]
    simp [insertMapping, setFlood, lookupFlood, hb]

/-- "requests beyond that fail with a flood-limit error" — and change nothing -/
theorem beyond_budget_is_flood_error (c : Cfg) (s : State) (m k now : Nat) (f : Flood) (hl : Limited c s)
    (hk : lookupKey s.maps k = none) (hf : lookupFlood s.flood m = some f)
    (hneg : attempt c f.free (subU32 (roundTime now c.step) (u32 f.last) / c.step) < 0) :
    getOrCreate c s m k now = (s, .flood) :=
  (create_limited c s m k now f hl hk hf).1 hneg

/-- a metric without a flood row starts with the maximum budget: the creation succeeds and leaves maxBudget − 1 -/
theorem create_first (c : Cfg) (s : State) (m k now : Nat) (hk : lookupKey s.maps k = none)
    (hf : lookupFlood s.flood m = none) :
    (getOrCreate c s m k now).2 = .created ((s.mapSeq + 1 : Nat) : Int) ∧
    lookupFlood (getOrCreate c s m k now).1.flood m
      = some { metric := m, last := roundTime now c.step, free := c.maxBudget - 1 } := by
  unfold getOrCreate createMapping
  simp only [hk, hf]
  simp [insertMapping, setFlood, lookupFlood]

/-- reset-flood sets exactly the requested budget (capped at 10000), or removes the row so that the metric starts again
    from maxBudget -/
theorem reset_sets_budget (c : Cfg) (s : State) (m : Nat) (limit : Int) (now : Nat) :
    (limit ≤ 0 → lookupFlood (resetFlood c s m limit now).1.flood m = none) ∧
    (0 < limit → lookupFlood (resetFlood c s m limit now).1.flood m
        = some { metric := m, last := now, free := resetAfter c limit }) := by
  constructor
  · intro h
    unfold resetFlood
    simp only [h, if_true]
    unfold lookupFlood
    rw [List.find?_eq_none]
    intro x hx
    simp only [List.mem_filter] at hx
    simpa using hx.2
  · intro h
    have : ¬ limit ≤ 0 := by omega
    unfold resetFlood
    simp only [this, if_false]
    simp [setFlood, lookupFlood]

/-- a small configuration for the concrete witnesses: budget 3, one unit per 60 s, no global budget -/
def c3 : Cfg := { maxBudget := 3, step := 60, bonus := 1, globalBudget := 0 }
def gcs (reqs : List (Nat × Nat)) : List Op := reqs.map (fun r => Op.getOrCreate 1 r.1 r.2)

/-! ### C19.5  the composed flood bound over full mixed histories (with restarts)

  "Once the global budget is exhausted, the number of new mappings a metric can create in any time span is at most its remaining
   budget (the maximum budget, or the value set by a flood reset) plus the per-step bonus times the number of elapsed steps."

  A history is any `List HOp`: get-or-create for any metrics and keys, put, delete, reset-flood, entity saves and restarts. A time
  span is any segment `ops` of such a history, started in the state `s` the prefix produced. Hypotheses, each one necessary:
  * `Exhausted c s` — the global budget is exhausted (the last created id is not inside it and the id sequence is past it); this
    is preserved by every operation (`exhausted_hstep`), so it is a condition on the start of the span only;
  * no reset-flood of `m` inside the span (a reset hands out a new budget: it starts a new span; resets of other metrics are fine);
  * the clock seen by `m`'s get-or-create requests is non-decreasing from `t0` and stays ≤ `T < 2^32` (other requests may carry any
    time). Without it the bound is false: `backwards_clock_breaks_bound`.
  * `CfgOk`: stepSec ≥ 1, bonus ≥ 0, maxBudget ≥ 1 (with maxBudget = 0 a first creation still succeeds: `zero_budget_creates`). -/

def isCreated : MapOut → Bool
  | .created _ => true
  | _ => false

/-- the operation creates a mapping on behalf of metric `m` when run in state `s` -/
def createdNow (c : Cfg) (s : State) (m : Nat) : HOp → Bool
  | .op (.getOrCreate m' k now) => m' == m && isCreated (getOrCreate c s m' k now).2
  | _ => false

/-- number of mappings created for metric `m` while `ops` runs from `s` -/
def createdFor (c : Cfg) (m : Nat) : State → List HOp → Nat
  | _, [] => 0
  | s, o :: os => (if createdNow c s m o then 1 else 0) + createdFor c m (hstep c s o) os

def noReset (m : Nat) : HOp → Bool
  | .op (.reset m' _ _) => m' != m
  | _ => true

/-- the times carried by the get-or-create requests of metric `m` are non-decreasing, start at `t0` or later and end at `T` or
    earlier; nothing is required of any other request -/
def clockOk (m T : Nat) : Nat → List HOp → Bool
  | _, [] => true
  | t0, .op (.getOrCreate m' _ now) :: os =>
    if m' == m then decide (t0 ≤ now) && decide (now ≤ T) && clockOk m T now os else clockOk m T t0 os
  | t0, _ :: os => clockOk m T t0 os

/-- the remaining budget of a metric: its flood row, or the maximum budget when it has none -/
def budget (c : Cfg) (s : State) (m : Nat) : Int :=
  match lookupFlood s.flood m with
  | some f => f.free
  | none => c.maxBudget

structure CfgOk (c : Cfg) : Prop where
  step : 1 ≤ c.step
  bonus : 0 ≤ c.bonus
  maxB : 1 ≤ c.maxBudget

/-- "the global budget is exhausted" -/
def Exhausted (c : Cfg) (s : State) : Prop := skipFlood c s = false ∧ c.globalBudget ≤ (s.mapSeq : Int)

theorem skipFlood_of_last (c : Cfg) (s t : State) (h : t.lastCreated = s.lastCreated) : skipFlood c t = skipFlood c s := by
  unfold skipFlood; rw [h]

/-- once exhausted, always exhausted — whatever happens next, restarts included -/
theorem exhausted_hstep (c : Cfg) (s : State) (o : HOp) (h : Exhausted c s) : Exhausted c (hstep c s o) := by
  obtain ⟨h1, h2⟩ := h
  cases o with
  | reopen => exact ⟨by simp [hstep, reopen, skipFlood], h2⟩
  | op o =>
    have hseq := mapSeq_mono c s o
    cases o with
    | save a =>
      obtain ⟨_, hl, hs, _⟩ := save_frame s a
      exact ⟨by simp only [hstep, step]; rw [skipFlood_of_last c s _ hl]; exact h1, by simp only [hstep, step]; rw [hs]; exact h2⟩
    | put kvs =>
      refine ⟨?_, by simp only [hstep] at *; omega⟩
      simp only [hstep, step]; rw [skipFlood_of_last c s _ (putMany_frame kvs s).2]; exact h1
    | delete ids => exact ⟨by simpa [hstep, step, deleteIds, skipFlood] using h1, by simpa [hstep, step, deleteIds] using h2⟩
    | reset m l now =>
      refine ⟨?_, by simp only [hstep] at *; omega⟩
      have : (resetFlood c s m l now).1.lastCreated = s.lastCreated := by unfold resetFlood; split <;> rfl
      simp only [hstep, step]; rw [skipFlood_of_last c s _ this]; exact h1
    | getOrCreate m k now =>
      simp only [hstep, step]
      have hs := goc_shape c s m k now
      generalize getOrCreate c s m k now = p at hs
      cases hs with
      | got id hk => exact ⟨h1, h2⟩
      | flood f hk hf hh => exact ⟨h1, h2⟩
      | created free hk hfree =>
        refine ⟨?_, by simp only; push_cast; omega⟩
        simp only [skipFlood, Bool.and_eq_false_iff, decide_eq_false_iff_not]
        right; push_cast; omega

theorem exhausted_hrun (c : Cfg) : ∀ (ops : List HOp) (s : State), Exhausted c s → Exhausted c (hrun c s ops) := by
  intro ops
  induction ops with
  | nil => intro s h; exact h
  | cons o os ih => intro s h; exact ih _ (exhausted_hstep c s o h)

/-- FRAME: what one operation does to the flood row of metric `m` — nothing, unless it is a reset of `m` (excluded by `noReset`)
    or a successful creation for `m`, which rewrites the row as one bucket attempt -/
theorem hstep_row (c : Cfg) (s : State) (m : Nat) (o : HOp) (hex : Exhausted c s) (hr : noReset m o = true) :
    (lookupFlood (hstep c s o).flood m = lookupFlood s.flood m ∧ createdNow c s m o = false) ∨
    (∃ k now free, o = .op (.getOrCreate m k now) ∧ createdNow c s m o = true ∧
      lookupFlood (hstep c s o).flood m = some { metric := m, last := roundTime now c.step, free := free } ∧
      ((∃ f, lookupFlood s.flood m = some f ∧
            ¬ attempt c f.free (subU32 (roundTime now c.step) (u32 f.last) / c.step) < 0 ∧
            free = attempt c f.free (subU32 (roundTime now c.step) (u32 f.last) / c.step)) ∨
       (lookupFlood s.flood m = none ∧ free = c.maxBudget - 1))) := by
  cases o with
  | reopen => left; exact ⟨rfl, rfl⟩
  | op o =>
    cases o with
    | save a => left; exact ⟨by simp only [hstep, step]; rw [(save_frame s a).1], rfl⟩
    | put kvs => left; exact ⟨by simp only [hstep, step]; rw [(putMany_frame kvs s).1], rfl⟩
    | delete ids => left; exact ⟨rfl, rfl⟩
    | reset m' l now =>
      left
      have hne : m' ≠ m := by simpa [noReset] using hr
      refine ⟨?_, rfl⟩
      simp only [hstep, step, resetFlood]
      split
      · exact lookup_filter_ne m m' hne s.flood
      · exact lookup_setFlood_ne s.flood _ m hne
    | getOrCreate m' k now =>
      have hs := goc_shape c s m' k now
      by_cases hm : m' = m
      · subst hm
        simp only [hstep, step, createdNow, beq_self_eq_true, Bool.true_and]
        generalize getOrCreate c s m' k now = p at hs
        cases hs with
        | got id hk => left; exact ⟨rfl, rfl⟩
        | flood f hk hf hh => left; exact ⟨rfl, rfl⟩
        | created free hk hfree =>
          right
          refine ⟨k, now, free, rfl, rfl, lookup_setFlood_eq s.flood _, ?_⟩
          rcases hfree with ⟨f, hf, hh, hfr⟩ | ⟨hf, hfr⟩
          · left
            have hb : budgetFor c s f (roundTime now c.step)
                = attempt c f.free (subU32 (roundTime now c.step) (u32 f.last) / c.step) := by
              unfold budgetFor; rw [hex.1]; exact calcBudget_eq_attempt c f.free (u32 f.last) (roundTime now c.step)
            refine ⟨f, hf, ?_, by rw [hfr, hb]⟩
            unfold floodHit at hh
            rw [hex.1, hb] at hh
            simpa using hh
          · right; exact ⟨hf, hfr⟩
      · left
        have hmb : (m' == m) = false := by simpa using hm
        refine ⟨?_, by simp [createdNow, hmb]⟩
        simp only [hstep, step]
        generalize getOrCreate c s m' k now = p at hs
        cases hs with
        | got id hk => rfl
        | flood f hk hf hh => rfl
        | created free hk hfree => exact lookup_setFlood_ne s.flood _ m hm

/-- how the clock hypothesis moves along one operation -/
theorem clock_step (m T t0 : Nat) (o : HOp) (os : List HOp) (h : clockOk m T t0 (o :: os) = true) :
    ∃ t1, t0 ≤ t1 ∧ (t0 ≤ T → t1 ≤ T) ∧ clockOk m T t1 os = true ∧ (∀ k now, o = .op (.getOrCreate m k now) → t1 = now ∧ now ≤ T) := by
  cases o with
  | reopen => exact ⟨t0, Nat.le_refl _, id, h, by intro k now h'; cases h'⟩
  | op o =>
    cases o with
    | save a => exact ⟨t0, Nat.le_refl _, id, h, by intro k now h'; cases h'⟩
    | put kvs => exact ⟨t0, Nat.le_refl _, id, h, by intro k now h'; cases h'⟩
    | delete ids => exact ⟨t0, Nat.le_refl _, id, h, by intro k now h'; cases h'⟩
    | reset m' l now => exact ⟨t0, Nat.le_refl _, id, h, by intro k now h'; cases h'⟩
    | getOrCreate m' k now =>
      simp only [clockOk] at h
      by_cases hm : (m' == m) = true
      · simp only [hm, if_true, Bool.and_eq_true, decide_eq_true_eq] at h
        refine ⟨now, h.1.1, fun _ => h.1.2, h.2, ?_⟩
        intro k' now' h'; injection h' with h'; injection h' with _ _ h3; exact ⟨h3, h3 ▸ h.1.2⟩
      · simp only [hm] at h
        refine ⟨t0, Nat.le_refl _, id, h, ?_⟩
        intro k' now' h'; injection h' with h'; injection h' with h1 _ _
        exact absurd (by simp [h1]) hm

/-- PHASE 2: the row of `m` was written by a creation at step index `kl` (its time is rounded) and the clock has not gone back:
    the measured steps are the real ones and the budget is a potential — every creation costs 1, every step refills `bonus` -/
theorem clean_phase (c : Cfg) (hc : CfgOk c) (m T : Nat) (hT : T < two32) : ∀ (ops : List HOp) (s : State) (kl : Nat) (free : Int) (t0 : Nat),
    Exhausted c s → lookupFlood s.flood m = some { metric := m, last := c.step * kl, free := free } →
    kl ≤ t0 / c.step → t0 ≤ T → (∀ o ∈ ops, noReset m o = true) → clockOk m T t0 ops = true →
    (createdFor c m s ops : Int) ≤ max 0 (free + c.bonus * ((T / c.step - kl : Nat) : Int)) := by
  intro ops
  induction ops with
  | nil => intro s kl free t0 _ _ _ _ _ _; simp [createdFor]; omega
  | cons o os ih =>
    intro s kl free t0 hex hrow hkl ht0 hnr hck
    obtain ⟨t1, ht01, ht1T, hck', hnow⟩ := clock_step m T t0 o os hck
    have hex' := exhausted_hstep c s o hex
    have hnr' : ∀ o' ∈ os, noReset m o' = true := fun o' h => hnr o' (List.mem_cons_of_mem _ h)
    have hk1 : kl ≤ t1 / c.step := Nat.le_trans hkl (Nat.div_le_div_right ht01)
    simp only [createdFor]
    rcases hstep_row c s m o hex (hnr o (List.mem_cons_self)) with ⟨hsame, hcr⟩ | ⟨k, now, free', ho, hcr, hnew, hfrom⟩
    · rw [hcr]
      have := ih (hstep c s o) kl free t1 hex' (by rw [hsame]; exact hrow) hk1 (ht1T ht0) hnr' hck'
      simpa using this
    · rw [hcr]
      obtain ⟨ht1, hnowT⟩ := hnow k now ho
      subst ht1
      have hn32 : t1 < two32 := by omega
      rcases hfrom with ⟨f, hf, hpos, hfr⟩ | ⟨hf, _⟩
      · rw [hrow] at hf
        injection hf with hf
        subst hf
        simp only at hpos hfr
        rw [measured_steps_clean c.step kl t1 hc.step hn32 hk1] at hpos hfr
        have hle := attempt_le c hc.bonus free (t1 / c.step - kl)
        have hnew' : lookupFlood (hstep c s o).flood m = some { metric := m, last := c.step * (t1 / c.step), free := free' } := by
          rw [hnew, roundTime_eq t1 c.step hn32]
        have hih := ih (hstep c s o) (t1 / c.step) free' t1 hex' hnew' (Nat.le_refl _) hnowT hnr' hck'
        have hKT : t1 / c.step ≤ T / c.step := Nat.div_le_div_right hnowT
        have hsplit : (T / c.step - kl : Nat) = (t1 / c.step - kl) + (T / c.step - t1 / c.step) := by omega
        have hmul : c.bonus * ((T / c.step - kl : Nat) : Int)
            = ((t1 / c.step - kl : Nat) : Int) * c.bonus + c.bonus * ((T / c.step - t1 / c.step : Nat) : Int) := by
          rw [hsplit]; push_cast; rw [Int.mul_add, Int.mul_comm c.bonus]
        have hnn : 0 ≤ c.bonus * ((T / c.step - t1 / c.step : Nat) : Int) := Int.mul_nonneg hc.bonus (Int.natCast_nonneg _)
        rw [hmul]
        rw [← hfr] at hle hpos
        simp only [if_true]
        push_cast
        omega
      · rw [hrow] at hf; cases hf

/-- "…at most its remaining budget (the maximum budget, or the value set by a flood reset) plus the per-step bonus times the
    number of elapsed steps": for every span `ops` of every mixed history (any metrics, keys, puts, deletes, resets of other metrics,
    entity saves, restarts) started with the global budget exhausted, under a non-decreasing clock of `m`'s requests in [t0, T],
        #created(m) ≤ max(maxBudget, remaining budget of m at the start) + bonus · (⌊T/step⌋ − ⌊t0/step⌋). -/
theorem flood_bound (c : Cfg) (hc : CfgOk c) (m T : Nat) (hT : T < two32) : ∀ (ops : List HOp) (s : State) (t0 : Nat),
    Exhausted c s → t0 ≤ T → (∀ o ∈ ops, noReset m o = true) → clockOk m T t0 ops = true →
    (createdFor c m s ops : Int) ≤ max c.maxBudget (budget c s m) + c.bonus * ((T / c.step - t0 / c.step : Nat) : Int) := by
  intro ops
  induction ops with
  | nil =>
    intro s t0 _ _ _ _
    have h0 : 0 ≤ c.bonus * ((T / c.step - t0 / c.step : Nat) : Int) := Int.mul_nonneg hc.bonus (Int.natCast_nonneg _)
    have := hc.maxB
    simp [createdFor]; omega
  | cons o os ih =>
    intro s t0 hex ht0 hnr hck
    obtain ⟨t1, ht01, ht1T, hck', hnow⟩ := clock_step m T t0 o os hck
    have hex' := exhausted_hstep c s o hex
    have hnr' : ∀ o' ∈ os, noReset m o' = true := fun o' h => hnr o' (List.mem_cons_of_mem _ h)
    have hK01 : t0 / c.step ≤ t1 / c.step := Nat.div_le_div_right ht01
    have hK1T : t1 / c.step ≤ T / c.step := Nat.div_le_div_right (ht1T ht0)
    have hmono : c.bonus * ((T / c.step - t1 / c.step : Nat) : Int) ≤ c.bonus * ((T / c.step - t0 / c.step : Nat) : Int) :=
      Int.mul_le_mul_of_nonneg_left (by omega) hc.bonus
    simp only [createdFor]
    rcases hstep_row c s m o hex (hnr o (List.mem_cons_self)) with ⟨hsame, hcr⟩ | ⟨k, now, free', ho, hcr, hnew, hfrom⟩
    · rw [hcr]
      have hb : budget c (hstep c s o) m = budget c s m := by unfold budget; rw [hsame]
      have := ih (hstep c s o) t1 hex' (ht1T ht0) hnr' hck'
      rw [hb] at this
      simp only [Bool.false_eq_true, if_false]
      push_cast
      omega
    · rw [hcr]
      obtain ⟨ht1, hnowT⟩ := hnow k now ho
      subst ht1
      have hn32 : t1 < two32 := by omega
      have hnew' : lookupFlood (hstep c s o).flood m = some { metric := m, last := c.step * (t1 / c.step), free := free' } := by
        rw [hnew, roundTime_eq t1 c.step hn32]
      have hclean := clean_phase c hc m T hT os (hstep c s o) (t1 / c.step) free' t1 hex' hnew' (Nat.le_refl _) hnowT hnr' hck'
      have hnn : 0 ≤ c.bonus * ((T / c.step - t1 / c.step : Nat) : Int) := Int.mul_nonneg hc.bonus (Int.natCast_nonneg _)
      have hfree : 0 ≤ free' ∧ free' ≤ max c.maxBudget (budget c s m) - 1 := by
        rcases hfrom with ⟨f, hf, hpos, hfr⟩ | ⟨hf, hfr⟩
        · have hcap := attempt_cap c f.free (subU32 (roundTime t1 c.step) (u32 f.last) / c.step)
          have hbud : budget c s m = f.free := by unfold budget; rw [hf]
          rw [hbud, hfr]
          refine ⟨by omega, ?_⟩
          by_cases hle : f.free ≤ c.maxBudget
          · have := hcap.1 hle; omega
          · have := hcap.2 (by omega); omega
        · have hbud : budget c s m = c.maxBudget := by unfold budget; rw [hf]
          have := hc.maxB
          rw [hbud, hfr]; omega
      simp only [if_true]
      push_cast
      omega

/-! ### C19.6  spans that contain resets of the metric: every reset contributes the value it sets, capped as the code caps it -/

/-- Σ over the reset-flood requests of `m` in `ops` of max(maxBudget, value the reset sets) — `resetAfter` is the code's own
    capping: maxBudget for a limit ≤ 0, the limit itself up to 10000, 10000 above -/
def resetBudgets (c : Cfg) (m : Nat) : List HOp → Int
  | [] => 0
  | .op (.reset m' l _) :: os => (if m' == m then max c.maxBudget (resetAfter c l) else 0) + resetBudgets c m os
  | _ :: os => resetBudgets c m os

theorem resetBudgets_nonneg (c : Cfg) (hc : CfgOk c) (m : Nat) : ∀ ops, 0 ≤ resetBudgets c m ops := by
  intro ops
  induction ops with
  | nil => simp [resetBudgets]
  | cons o os ih =>
    have := hc.maxB
    cases o with
    | reopen => simpa [resetBudgets] using ih
    | op o =>
      cases o with
      | reset m' l now =>
        simp only [resetBudgets]
        split <;> omega
      | save a => simpa [resetBudgets] using ih
      | getOrCreate m' k now => simpa [resetBudgets] using ih
      | put kvs => simpa [resetBudgets] using ih
      | delete ids => simpa [resetBudgets] using ih

theorem resetBudgets_cons_noReset (c : Cfg) (m : Nat) (o : HOp) (os : List HOp) (h : noReset m o = true) :
    resetBudgets c m (o :: os) = resetBudgets c m os := by
  cases o with
  | reopen => rfl
  | op o =>
    cases o with
    | reset m' l now =>
      have : (m' == m) = false := by simpa [noReset] using h
      simp [resetBudgets, this]
    | save a => rfl
    | getOrCreate m' k now => rfl
    | put kvs => rfl
    | delete ids => rfl

theorem noReset_false (m : Nat) (o : HOp) (h : noReset m o = false) : ∃ l now, o = .op (.reset m l now) := by
  cases o with
  | reopen => simp [noReset] at h
  | op o =>
    cases o with
    | reset m' l now =>
      have : m' = m := by simpa [noReset] using h
      subst this; exact ⟨l, now, rfl⟩
    | save a => simp [noReset] at h
    | getOrCreate m' k now => simp [noReset] at h
    | put kvs => simp [noReset] at h
    | delete ids => simp [noReset] at h

/-- after a reset-flood of `m` its remaining budget is exactly the (capped) value of the reset -/
theorem budget_after_reset (c : Cfg) (s : State) (m : Nat) (l : Int) (now : Nat) :
    budget c (hstep c s (.op (.reset m l now))) m = resetAfter c l := by
  unfold budget
  simp only [hstep, step]
  by_cases h : l ≤ 0
  · rw [(reset_sets_budget c s m l now).1 h]
    simp [resetAfter, h]
  · rw [(reset_sets_budget c s m l now).2 (by omega)]

/-- both phases at once, resets of `m` allowed anywhere -/
theorem flood_multi_aux (c : Cfg) (hc : CfgOk c) (m T : Nat) (hT : T < two32) : ∀ (ops : List HOp),
    (∀ (s : State) (t0 : Nat), Exhausted c s → t0 ≤ T → clockOk m T t0 ops = true →
      (createdFor c m s ops : Int) ≤ max c.maxBudget (budget c s m) + resetBudgets c m ops
        + c.bonus * ((T / c.step - t0 / c.step : Nat) : Int)) ∧
    (∀ (s : State) (kl : Nat) (free : Int) (t0 : Nat), Exhausted c s →
      lookupFlood s.flood m = some { metric := m, last := c.step * kl, free := free } → 0 ≤ free →
      kl ≤ t0 / c.step → t0 ≤ T → clockOk m T t0 ops = true →
      (createdFor c m s ops : Int) ≤ free + resetBudgets c m ops + c.bonus * ((T / c.step - kl : Nat) : Int)) := by
  intro ops
  induction ops with
  | nil =>
    constructor
    · intro s t0 _ _ _
      have h0 : 0 ≤ c.bonus * ((T / c.step - t0 / c.step : Nat) : Int) := Int.mul_nonneg hc.bonus (Int.natCast_nonneg _)
      have := hc.maxB
      simp [createdFor, resetBudgets]; omega
    · intro s kl free t0 _ _ hf _ _ _
      have h0 : 0 ≤ c.bonus * ((T / c.step - kl : Nat) : Int) := Int.mul_nonneg hc.bonus (Int.natCast_nonneg _)
      simp [createdFor, resetBudgets]; omega
  | cons o os ih =>
    obtain ⟨ihA, ihB⟩ := ih
    have hrb := resetBudgets_nonneg c hc m os
    constructor
    · -- dirty phase
      intro s t0 hex ht0 hck
      obtain ⟨t1, ht01, ht1T, hck', hnow⟩ := clock_step m T t0 o os hck
      have hex' := exhausted_hstep c s o hex
      have hK01 : t0 / c.step ≤ t1 / c.step := Nat.div_le_div_right ht01
      have hK1T : t1 / c.step ≤ T / c.step := Nat.div_le_div_right (ht1T ht0)
      have hmono : c.bonus * ((T / c.step - t1 / c.step : Nat) : Int) ≤ c.bonus * ((T / c.step - t0 / c.step : Nat) : Int) :=
        Int.mul_le_mul_of_nonneg_left (by omega) hc.bonus
      by_cases hnr : noReset m o = true
      · rw [resetBudgets_cons_noReset c m o os hnr]
        simp only [createdFor]
        rcases hstep_row c s m o hex hnr with ⟨hsame, hcr⟩ | ⟨k, now, free', ho, hcr, hnew, hfrom⟩
        · rw [hcr]
          have hb : budget c (hstep c s o) m = budget c s m := by unfold budget; rw [hsame]
          have := ihA (hstep c s o) t1 hex' (ht1T ht0) hck'
          rw [hb] at this
          simp only [Bool.false_eq_true, if_false]
          push_cast
          omega
        · rw [hcr]
          obtain ⟨ht1, hnowT⟩ := hnow k now ho
          subst ht1
          have hn32 : t1 < two32 := by omega
          have hnew' : lookupFlood (hstep c s o).flood m = some { metric := m, last := c.step * (t1 / c.step), free := free' } := by
            rw [hnew, roundTime_eq t1 c.step hn32]
          have hfree : 0 ≤ free' ∧ free' ≤ max c.maxBudget (budget c s m) - 1 := by
            rcases hfrom with ⟨f, hf, hpos, hfr⟩ | ⟨hf, hfr⟩
            · have hcap := attempt_cap c f.free (subU32 (roundTime t1 c.step) (u32 f.last) / c.step)
              have hbud : budget c s m = f.free := by unfold budget; rw [hf]
              rw [hbud, hfr]
              refine ⟨by omega, ?_⟩
              by_cases hle : f.free ≤ c.maxBudget
              · have := hcap.1 hle; omega
              · have := hcap.2 (by omega); omega
            · have hbud : budget c s m = c.maxBudget := by unfold budget; rw [hf]
              have := hc.maxB
              rw [hbud, hfr]; omega
          have hclean := ihB (hstep c s o) (t1 / c.step) free' t1 hex' hnew' hfree.1 (Nat.le_refl _) hnowT hck'
          simp only [if_true]
          push_cast
          omega
      · have hnr' : noReset m o = false := by simpa using hnr
        obtain ⟨l, now, ho⟩ := noReset_false m o hnr'
        subst ho
        have hcr : createdNow c s m (.op (.reset m l now)) = false := rfl
        simp only [createdFor, hcr, resetBudgets, beq_self_eq_true, if_true]
        have := ihA (hstep c s (.op (.reset m l now))) t1 hex' (ht1T ht0) hck'
        rw [budget_after_reset] at this
        have hm := hc.maxB
        simp only [Bool.false_eq_true, if_false]
        push_cast
        omega
    · -- clean phase
      intro s kl free t0 hex hrow hfree0 hkl ht0 hck
      obtain ⟨t1, ht01, ht1T, hck', hnow⟩ := clock_step m T t0 o os hck
      have hex' := exhausted_hstep c s o hex
      have hk1 : kl ≤ t1 / c.step := Nat.le_trans hkl (Nat.div_le_div_right ht01)
      have hK1T : t1 / c.step ≤ T / c.step := Nat.div_le_div_right (ht1T ht0)
      by_cases hnr : noReset m o = true
      · rw [resetBudgets_cons_noReset c m o os hnr]
        simp only [createdFor]
        rcases hstep_row c s m o hex hnr with ⟨hsame, hcr⟩ | ⟨k, now, free', ho, hcr, hnew, hfrom⟩
        · rw [hcr]
          have := ihB (hstep c s o) kl free t1 hex' (by rw [hsame]; exact hrow) hfree0 hk1 (ht1T ht0) hck'
          simpa using this
        · rw [hcr]
          obtain ⟨ht1, hnowT⟩ := hnow k now ho
          subst ht1
          have hn32 : t1 < two32 := by omega
          rcases hfrom with ⟨f, hf, hpos, hfr⟩ | ⟨hf, _⟩
          · rw [hrow] at hf
            injection hf with hf
            subst hf
            simp only at hpos hfr
            rw [measured_steps_clean c.step kl t1 hc.step hn32 hk1] at hpos hfr
            have hle := attempt_le c hc.bonus free (t1 / c.step - kl)
            have hnew' : lookupFlood (hstep c s o).flood m = some { metric := m, last := c.step * (t1 / c.step), free := free' } := by
              rw [hnew, roundTime_eq t1 c.step hn32]
            rw [← hfr] at hle hpos
            have hih := ihB (hstep c s o) (t1 / c.step) free' t1 hex' hnew' (by omega) (Nat.le_refl _) hnowT hck'
            have hsplit : (T / c.step - kl : Nat) = (t1 / c.step - kl) + (T / c.step - t1 / c.step) := by omega
            have hmul : c.bonus * ((T / c.step - kl : Nat) : Int)
                = ((t1 / c.step - kl : Nat) : Int) * c.bonus + c.bonus * ((T / c.step - t1 / c.step : Nat) : Int) := by
              rw [hsplit]; push_cast; rw [Int.mul_add, Int.mul_comm c.bonus]
            rw [hmul]
            simp only [if_true]
            push_cast
            omega
          · rw [hrow] at hf; cases hf
      · have hnr' : noReset m o = false := by simpa using hnr
        obtain ⟨l, now, ho⟩ := noReset_false m o hnr'
        subst ho
        have hcr : createdNow c s m (.op (.reset m l now)) = false := rfl
        simp only [createdFor, hcr, resetBudgets, beq_self_eq_true, if_true]
        have := ihA (hstep c s (.op (.reset m l now))) t1 hex' (ht1T ht0) hck'
        rw [budget_after_reset] at this
        have hmono : c.bonus * ((T / c.step - t1 / c.step : Nat) : Int) ≤ c.bonus * ((T / c.step - kl : Nat) : Int) :=
          Int.mul_le_mul_of_nonneg_left (by omega) hc.bonus
        simp only [Bool.false_eq_true, if_false]
        push_cast
        omega

/-- "…at most its remaining budget (the maximum budget, or the value set by a flood reset) plus the per-step bonus times the
    number of elapsed steps", ACROSS RESETS: for every span of every mixed history with restarts — now with any number of
    reset-flood requests of `m` inside — started with the global budget exhausted, under a non-decreasing clock of `m`'s requests,
      #created(m) ≤ max(maxBudget, budget(m) at the start) + Σ_{resets of m in the span} max(maxBudget, value set by the reset)
                    + bonus · (⌊T/step⌋ − ⌊t0/step⌋).
    With no reset of `m` in the span this is `flood_bound`. -/
theorem flood_bound_across_resets (c : Cfg) (hc : CfgOk c) (m T : Nat) (hT : T < two32) (ops : List HOp) (s : State) (t0 : Nat)
    (hex : Exhausted c s) (ht0 : t0 ≤ T) (hck : clockOk m T t0 ops = true) :
    (createdFor c m s ops : Int) ≤ max c.maxBudget (budget c s m) + resetBudgets c m ops
      + c.bonus * ((T / c.step - t0 / c.step : Nat) : Int) :=
  (flood_multi_aux c hc m T hT ops).1 s t0 hex ht0 hck

-- non-vacuity: budget 3; three creations, flood-limit, a reset to 2 (below maxBudget: it still contributes max(3, 2) = 3 because the
-- unrounded reset time makes the next creation wrap, observation 1), three more creations, flood-limit; one step later one more
def withReset : List HOp :=
  [.op (.getOrCreate 1 1 600), .op (.getOrCreate 1 2 600), .op (.getOrCreate 1 3 600), .op (.getOrCreate 1 4 600),
   .op (.reset 1 2 630), .op (.getOrCreate 1 4 640), .op (.getOrCreate 1 5 640), .op (.getOrCreate 1 6 640), .op (.getOrCreate 1 7 640),
   .op (.reset 2 9 650), .op (.getOrCreate 1 7 665)]
example : clockOk 1 665 600 withReset = true ∧ createdFor c3 1 State.empty withReset = 7 ∧ resetBudgets c3 1 withReset = 3 := by decide
example : resetBudgets c3 1 [.op (.reset 1 20000 5), .op (.reset 1 0 6), .op (.reset 1 7 7)] = 10000 + 3 + 7 := by decide

/-- the remaining budget that enters the bound is itself bounded: every flood row the system writes holds at most
    max(maxBudget, 10000) (10000 = the cap of ResetFlood) -/
theorem attempt_le_bound (c : Cfg) (free : Int) (el : Nat) (B : Int) (hB : c.maxBudget ≤ B) (h : free ≤ B) : attempt c free el ≤ B := by
  have hcap := attempt_cap c free el
  by_cases hle : free ≤ c.maxBudget
  · have := hcap.1 hle; omega
  · have := hcap.2 (by omega); omega

/-- every flood row holds at most max(maxBudget, 10000) -/
def FloodBounded (c : Cfg) (s : State) : Prop := ∀ f ∈ s.flood, f.free ≤ max c.maxBudget maxResetLimit

theorem mem_setFlood {fl : List Flood} {f g : Flood} (h : g ∈ setFlood fl f) : g = f ∨ g ∈ fl := by
  unfold setFlood at h
  rcases List.mem_cons.mp h with h | h
  · exact Or.inl h
  · exact Or.inr (List.mem_filter.mp h).1

theorem lookupFlood_mem {fl : List Flood} {m : Nat} {f : Flood} (h : lookupFlood fl m = some f) : f ∈ fl :=
  List.mem_of_find?_eq_some h

theorem floodBounded_hstep (c : Cfg) (s : State) (o : HOp) (h : FloodBounded c s) : FloodBounded c (hstep c s o) := by
  cases o with
  | reopen => exact h
  | op o =>
    cases o with
    | save a => intro f hf; simp only [hstep, step] at hf; rw [(save_frame s a).1] at hf; exact h f hf
    | put kvs => intro f hf; simp only [hstep, step] at hf; rw [(putMany_frame kvs s).1] at hf; exact h f hf
    | delete ids => exact h
    | reset m l now =>
      intro f hf
      simp only [hstep, step, resetFlood] at hf
      split at hf
      · exact h f (List.mem_filter.mp hf).1
      · rcases mem_setFlood hf with hf | hf
        · subst hf; exact resetAfter_le c l
        · exact h f hf
    | getOrCreate m k now =>
      simp only [hstep, step]
      have hs := goc_shape c s m k now
      generalize getOrCreate c s m k now = p at hs
      cases hs with
      | got id hk => exact h
      | flood f hk hf hh => exact h
      | created free hk hfree =>
        intro g hg
        rcases mem_setFlood hg with hg | hg
        · subst hg
          simp only
          rcases hfree with ⟨f, hf, _, hfr⟩ | ⟨_, hfr⟩
          · rw [hfr]
            unfold budgetFor
            split
            · exact Int.le_max_left _ _
            · rw [calcBudget_eq_attempt]
              exact attempt_le_bound c f.free _ _ (Int.le_max_left _ _) (h f (lookupFlood_mem hf))
          · rw [hfr]; have := Int.le_max_left c.maxBudget maxResetLimit; omega
        · exact h g hg

/-- "(the maximum budget, or the value set by a flood reset)": in every state reachable by any history with restarts the
    remaining budget of every metric is at most max(maxBudget, 10000), 10000 being the largest value a reset can set -/
theorem budget_bounded (c : Cfg) : ∀ (ops : List HOp) (s : State), FloodBounded c s → ∀ m,
    budget c (hrun c s ops) m ≤ max c.maxBudget maxResetLimit := by
  intro ops
  induction ops with
  | nil =>
    intro s h m
    unfold budget hrun
    simp only [List.foldl_nil]
    cases hf : lookupFlood s.flood m with
    | none => exact Int.le_max_left _ _
    | some f => exact h f (lookupFlood_mem hf)
  | cons o os ih => intro s h m; exact ih _ (floodBounded_hstep c s o h) m

-- non-vacuity of `flood_bound`: its hypotheses hold on a mixed history (other metric, put, delete, reset of another metric, an
-- entity-free restart) and the bound is attained: 3 = maxBudget creations at once, flood-limit, one more after one step
def mixed : List HOp :=
  [.op (.getOrCreate 1 1 600), .op (.getOrCreate 2 7 600), .op (.getOrCreate 1 2 610), .op (.put [(9, 40)]), .reopen,
   .op (.getOrCreate 1 3 610), .op (.reset 2 5 620), .op (.getOrCreate 1 4 650), .op (.delete [1]), .op (.getOrCreate 1 4 665)]

example : CfgOk c3 := ⟨by decide, by decide, by decide⟩
example : Exhausted c3 State.empty := ⟨by decide, by decide⟩
example : (∀ o ∈ mixed, noReset 1 o = true) ∧ clockOk 1 665 600 mixed = true := by decide
example : createdFor c3 1 State.empty mixed = 4 ∧ budget c3 State.empty 1 = 3 ∧ 665 / 60 - 600 / 60 = 1 := by decide
example : (getOrCreate c3 (hrun c3 State.empty (mixed.take 7)) 1 4 650).2 = .flood := by decide

/-- without the clock hypothesis the bound is false: budget 3, bonus 1 per 60 s; three creations at t = 600 exhaust the budget, then
    the clock goes BACK to 540 and the unsigned subtraction `now − lastTimeUpdate` wraps to ≈ 2^32 s: the budget is refilled to
    maxBudget − 1 and three more mappings are created although no step has elapsed -/
theorem backwards_clock_breaks_bound :
    createdFor c3 1 State.empty ((gcs [(1, 600), (2, 600), (3, 600), (4, 540), (5, 540), (6, 540)]).map HOp.op) = 6 ∧
    clockOk 1 600 0 ((gcs [(1, 600), (2, 600), (3, 600), (4, 540), (5, 540), (6, 540)]).map HOp.op) = false := by decide

/-- what the wrap does in general: whenever the measured steps times the bonus cover the gap to maxBudget the row is reset to
    maxBudget − 1, whatever it held -/
theorem wrap_refills (c : Cfg) (free : Int) (el : Nat) (hf : free ≤ c.maxBudget)
    (hbig : c.maxBudget ≤ free - 1 + (el : Int) * c.bonus) : attempt c free el = c.maxBudget - 1 := by
  unfold attempt overMax
  have : ¬ (decide (c.maxBudget < free) = true) := by simpa using Int.not_lt.mpr hf
  simp only [this, hbig, if_true]
  rfl

/-- maxBudget = 0 is not a "no mappings" configuration: the first creation of a metric succeeds and stores −1 -/
theorem zero_budget_creates :
    (getOrCreate { maxBudget := 0, step := 60, bonus := 0, globalBudget := 0 } State.empty 1 1 600).2 = .created 1 := by decide

/-- "the value set by a flood reset" has a ceiling: whatever value is requested, the row a reset-flood leaves behind holds
    min(requested value, 10000) — in particular never more than the ceiling and never more than what the reply reports -/
theorem reset_budget_le_ceiling (c : Cfg) (s : State) (m : Nat) (limit : Int) (now : Nat) (f : Flood)
    (h : lookupFlood (resetFlood c s m limit now).1.flood m = some f) :
    0 < limit ∧ f.free = min limit maxResetLimit ∧ f.free ≤ maxResetLimit ∧ f.free = (resetFlood c s m limit now).2.2 := by
  by_cases hl : limit ≤ 0
  · rw [(reset_sets_budget c s m limit now).1 hl] at h; cases h
  · have hpos : 0 < limit := by omega
    rw [(reset_sets_budget c s m limit now).2 hpos] at h
    injection h with h
    subst h
    have hafter : (resetFlood c s m limit now).2.2 = resetAfter c limit := by unfold resetFlood; split <;> rfl
    refine ⟨hpos, ?_, ?_, hafter.symm⟩
    · have hc10 : maxResetLimit = 10000 := rfl
      simp only [resetAfter, hl, if_false]
      by_cases h1 : maxResetLimit < limit
      · rw [if_pos h1]; omega
      · rw [if_neg h1]; omega
    · have hc10 : maxResetLimit = 10000 := rfl
      simp only [resetAfter, hl, if_false]
      by_cases h1 : maxResetLimit < limit
      · rw [if_pos h1]; omega
      · rw [if_neg h1]; omega

/-- the seeded variant C19-r4-1 (the reply is clamped, the stored budget is the raw value), next to the model: a reset to 20000
    leaves a budget of 20000 while reporting 10000; a budget above maxBudget is never capped by calcBudget (`attempt_cap`), so the
    metric really gets 20000 creations; `FloodBounded`, which every reachable state of the real model satisfies, fails -/
def resetFloodRaw (c : Cfg) (s : State) (metric : Nat) (limit : Int) (now : Nat) : State × Int × Int :=
  if limit ≤ 0 then resetFlood c s metric limit now
  else ({ s with flood := setFlood s.flood { metric := metric, last := now, free := limit } }, freeCount c s, resetAfter c limit)

example : (resetFloodRaw c3 State.empty 1 20000 600).1.flood = [{ metric := 1, last := 600, free := 20000 }] ∧
    (resetFloodRaw c3 State.empty 1 20000 600).2.2 = 10000 := by decide
example : (resetFlood c3 State.empty 1 20000 600).1.flood = [{ metric := 1, last := 600, free := 10000 }] := by decide
example : attempt c3 20000 0 = 19999 ∧ attempt c3 10001 0 = 10000 := by decide
example : ¬ FloodBounded c3 (resetFloodRaw c3 State.empty 1 20000 600).1 := by
  intro h
  exact absurd (h { metric := 1, last := 600, free := 20000 } (by decide)) (by decide)
-- non-vacuity of `reset_budget_le_ceiling`: values around the ceiling
example : ((resetFlood c3 State.empty 1 9999 5).1.flood.map (·.free), (resetFlood c3 State.empty 1 10000 5).1.flood.map (·.free),
    (resetFlood c3 State.empty 1 10001 5).1.flood.map (·.free), (resetFlood c3 State.empty 1 2147483647 5).1.flood.map (·.free))
    = ([9999], [10000], [10000], [10000]) := by decide

/-! ### where the global-budget decision is read

  `getOrCreate c s m k now` takes NO pre-read argument: `skipFlood c s` looks at `s.lastCreated`, the state in which the request is
  APPLIED (the real code reads db.lastMappingIDToInsert inside the eng.Do callback, where requests are serialised). A history is
  the order of application, so `flood_bound` is about exactly that order. The seeded variant C19-r5-1 decides from a snapshot taken
  when the request ENTERED GetOrCreateMapping: -/

/-- get-or-create whose global-budget decision uses `snap`, a value of lastCreated read earlier (at function entry) -/
def getOrCreateStale (c : Cfg) (s : State) (snap : Int) (m k now : Nat) : State × MapOut :=
  let r := getOrCreate c { s with lastCreated := snap } m k now
  ({ r.1 with lastCreated := match r.2 with
                             | .created id => id
                             | _ => s.lastCreated }, r.2)

/-- reading at apply time is the special case snap = s.lastCreated -/
theorem getOrCreateStale_fresh (c : Cfg) (s : State) (m k now : Nat) :
    (getOrCreateStale c s s.lastCreated m k now).2 = (getOrCreate c s m k now).2 := by
  rfl

/-- budget 1, global budget 2, bonus 1 per hour, the clock never moves. k1, k2 are inside the global budget; the late request
    enters now (snapshot 2); k3 uses up the global budget, k4 spends the metric's budget, k5 is refused -/
def cG : Cfg := { maxBudget := 1, step := 3600, bonus := 1, globalBudget := 2 }
def sLate : State := run cG State.empty [.getOrCreate 1 1 7200, .getOrCreate 1 2 7200, .getOrCreate 1 3 7200, .getOrCreate 1 4 7200]
example : sLate.lastCreated = 4 ∧ sLate.flood = [{ metric := 1, last := 7200, free := 0 }] := by decide
example : Exhausted cG sLate ∧ (getOrCreate cG sLate 1 5 7200).2 = .flood := ⟨⟨by decide, by decide⟩, by decide⟩
-- the code (decision at apply time): the late request is refused like k5, the budget stays spent
example : getOrCreate cG sLate 1 9 7200 = (sLate, .flood) := by decide
-- the seeded variant (snapshot 2 taken at entry, still inside the global budget): the late request is created, the skip path also
-- rewrites the metric's budget to maxBudget, so the next request succeeds as well — 3 creations against a budget of 1, no step elapsed
example : (getOrCreateStale cG sLate 2 1 9 7200).2 = .created 5 ∧
    (getOrCreateStale cG sLate 2 1 9 7200).1.flood = [{ metric := 1, last := 7200, free := 1 }] ∧
    (getOrCreate cG (getOrCreateStale cG sLate 2 1 9 7200).1 1 10 7200).2 = .created 6 := by decide
-- … which `flood_bound` forbids for the real model: from sLate at most max(1, 0) + 1·0 = 1 … in fact 0 further creations
example : createdFor cG 1 sLate [.op (.getOrCreate 1 9 7200), .op (.getOrCreate 1 10 7200)] = 0 := by decide

/-! ### non-vacuity and the observed quirks -/


-- budget 3, no time passes: three creations, then flood-limit; one step later one more creation
example : ((gcs [(1, 600), (2, 600), (3, 600)]).foldl (step c3) State.empty).maps.map (·.1) = [3, 2, 1] := by decide
example : (getOrCreate c3 (run c3 State.empty (gcs [(1, 600), (2, 600), (3, 600)])) 1 4 600).2 = .flood := by decide
example : (getOrCreate c3 (run c3 State.empty (gcs [(1, 600), (2, 600), (3, 600)])) 1 4 660).2 = .created 4 := by decide
example : (getOrCreate c3 (run c3 State.empty (gcs [(1, 600), (2, 600), (3, 600)])) 1 2 9999).2 = .got 2 := by decide
example : bucketRun c3 2 [0, 0, 0, 0, 1, 0] = (3, 0, 1) := by decide
-- a deleted id is not handed out again
example : (getOrCreate c3 (run c3 State.empty (gcs [(1, 600), (2, 600)] ++ [.delete [2]])) 1 9 600).2 = .created 3 := by decide
-- put displaces both the pair using the key and the pair using the id
example : (run c3 State.empty (gcs [(1, 600), (2, 600)] ++ [.put [(1, 2)]])).maps = [(2, 1)] := by decide

/-- Observation 1 (reported): ResetFlood stores the UNROUNDED time. A reset to 1 at t = 630 followed by a creation at t = 640
    (same 60 s step) measures 2^32 − 30 elapsed seconds by unsigned wrap, so the budget is refilled to maxBudget − 1 = 2
    instead of going from 1 to 0. -/
example : (run c3 State.empty (gcs [(1, 600)] ++ [.reset 1 1 630, .getOrCreate 1 2 640])).flood
    = [{ metric := 1, last := 600, free := 2 }] := by decide
/-- Observation 2 (reported): the same wrap refills the budget when the clock moves backwards by one step -/
example : (getOrCreate c3 (run c3 State.empty (gcs [(1, 600), (2, 600), (3, 600)])) 1 4 540).2 = .created 4 := by decide

end SH.C19
