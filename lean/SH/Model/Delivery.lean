/-
  SH.Model.Delivery — message-level model of the agent→aggregator→storage delivery path (property C01).

  Code modelled (branch for branch, one model step = one run of the named Go function between two blocking points):
    internal/agent/agent_shard_send.go   sendToSenders (channel-full path), goSendRecent loop body + sendRecent,
                                         sendHistoric (one loop iteration per request), diskCachePutWithLog,
                                         diskCacheEraseWithLog, appendHistoricBucketsToSend, readHistoricSecondLocked,
                                         popOldestHistoricSecondLocked, checkOutOfWindow
    internal/agent/agent.go              getShardReplicaForSecond; MakeAgent's start-up read of 2*MaxConveyorDelay seconds
    internal/agent/agent_shard_keepalive.go  recordSendResult / appendlastSendSuccessfulLocked
    internal/agent/disk_cache.go         PutBucket / EraseBucket / ReadNextTailSecond as "live records in file order" (details: C09)
    internal/aggregator/aggregator_handlers.go  handleSendSourceBucket: the eight decision sites up to StartLongpoll
    internal/aggregator/aggregator.go    advanceRecentBuckets, goTicker's dispatch of ready buckets, goInsert (historic batching,
                                         popOldestHistoricBucket, stale buckets, SetDiscard(sendErr == nil))
  Seconds are natural numbers (uint32 wrap-around is outside the model: all times are far from 0 and 2^32).
  Everything the environment decides (insert outcome, lost answers, restarts, clocks) is an operation argument.
-/
import SH.Gen.C01

namespace SH.Delivery
open SH.Gen.C01

/-- compressedBucketData: second, disk id (0 = not on disk), data in memory? -/
structure Cbd where
  sec : Nat
  id : Nat
  mem : Bool
deriving DecidableEq, Repr

/-- live (not erased) record of the disk cache, file order; id = 0: not yet read by this process -/
structure Rec where
  sec : Nat
  id : Nat
deriving DecidableEq, Repr

/-- a sender goroutine blocked in SendSourceBucket3 -/
structure Flight where
  rid : Nat
  cbd : Cbd
  historic : Bool
  replica : Nat
  spare : Bool
deriving DecidableEq, Repr

/-- ShardReplica liveness: alive flag and lastSendSuccessful -/
structure Live where
  alive : Bool
  last : List Bool
deriving DecidableEq, Repr

structure Agent where
  hist : List Cbd            -- historicBucketsToSend (slice order)
  recs : List Rec
  lastId : Nat
  disk : Bool                -- --cache-dir given
  saveFirst : Bool           -- SaveSecondsImmediately
  memSize : Nat              -- historicBucketsDataSize in bytes (ballast included)
  ballast : Nat              -- part of memSize that stands for other queued data (an input: lets the limit be reached cheaply)
  diskOk : Bool              -- config.MaxHistoricDiskSize > 0 and the disk accepts writes
  flights : List Flight
  live : List Live           -- three replicas of the shard
  now : Nat                  -- the agent's wall clock (seconds): read by sendRecent and sendHistoric
  window : Nat               -- config.HistoricWindow
  dropped : List Nat         -- ghost: seconds the agent threw away deliberately (out of window, memory overflow without disk)
  oow : Nat                  -- HistoricOutOfWindowDropped
  lostMem : List Nat         -- ghost: seconds that existed only in memory when the process died
deriving DecidableEq, Repr

structure Req where
  rid : Nat
  sec : Nat
  historic : Bool
  spare : Bool
  replica : Nat
deriving DecidableEq, Repr

/-- why an aggregator answered at once -/
inductive Why
  | futureHistoric | beyondWindow | futureRecent | lateRecent | undecodable
  | stale          -- historic bucket found older than the window when popped by an inserter
  | inserted | insertFailed
deriving DecidableEq, Repr

structure Resp where
  rid : Nat
  sec : Nat
  discard : Bool
  err : Bool
  why : Why
deriving DecidableEq, Repr

structure Bucket where
  time : Nat
  reqs : List (Nat × Nat)    -- contributors3: (rid, second it carried)
  secs : List Nat            -- seconds whose rows were merged into this bucket
  joined : Nat               -- contributorsCount(): requests that ever joined (contributorsMetric; not reduced by CancelLongpoll)
deriving DecidableEq, Repr

structure Agg where
  up : Bool
  recent : List Bucket
  historic : List Bucket     -- map keyed by time; kept sorted by insertion, lookups by time
deriving DecidableEq, Repr

structure State where
  ag : Agent
  aggs : List Agg            -- three replicas
  reqs : List Req            -- requests on the wire
  resps : List Resp          -- answers on the wire
  nextRid : Nat
  shortWindow : Nat
  aggWindow : Nat            -- the aggregators' historic window
  inserted : List Nat        -- storage log: seconds contained in a successful INSERT (with repetitions)
  rejected : List Nat        -- ghost: seconds an aggregator deliberately rejected with discard
  flushed : List Nat         -- ghost: seconds handed to the send path
deriving DecidableEq, Repr

/-! ### agent: disk cache -/

def canPut (a : Agent) (c : Cbd) : Bool := a.disk && a.diskOk && c.id == 0

/-- diskCachePutWithLog -/
def diskPut (a : Agent) (c : Cbd) : Agent × Cbd :=
  if canPut a c then
    ({ a with recs := a.recs ++ [{ sec := c.sec, id := a.lastId + 1 }], lastId := a.lastId + 1 }, { c with id := a.lastId + 1 })
  else (a, c)

/-- diskCacheEraseWithLog: erasing an unknown id (0 included) is a NOP -/
def diskErase (a : Agent) (id : Nat) : Agent :=
  if id == 0 then a else { a with recs := a.recs.filter (fun r => r.id != id) }

/-- MaxHistoricBucketsMemorySize / NumShards, in the same units -/
def memLimit : Nat := 1000 * secBase
/-- size of the framed data of second t as the harness generates it: a base bucket plus t % 3 further rows (seconds of
different sizes follow each other in the historic queue, as they do in production) -/
def dataSize (t : Nat) : Nat := secBase + (t % 3) * secRow
/-- len(cbd.data) -/
def sz (c : Cbd) : Nat := if c.mem then dataSize c.sec else 0
def overflows (a : Agent) (c : Cbd) : Bool := decide (a.memSize + sz c > memLimit)

/-- appendHistoricBucketsToSend -/
def appendHist (a : Agent) (c : Cbd) : Agent :=
  if overflows a c then
    if c.id == 0 then { a with dropped := a.dropped ++ [c.sec] }
    else { a with hist := a.hist ++ [{ c with mem := false }] }
  else { a with hist := a.hist ++ [c], memSize := a.memSize + sz c }

def assignFirstUnread (id : Nat) : List Rec → Option (Nat × List Rec)
  | [] => none
  | r :: rs =>
    if r.id == 0 then some (r.sec, { r with id := id } :: rs)
    else match assignFirstUnread id rs with
      | none => none
      | some (s, rs') => some (s, r :: rs')

/-- readHistoricSecondLocked -/
def readNext (a : Agent) : Agent :=
  if !a.disk then a else
  match assignFirstUnread (a.lastId + 1) a.recs with
  | none => a
  | some (s, rs) => { a with recs := rs, lastId := a.lastId + 1, hist := a.hist ++ [{ sec := s, id := a.lastId + 1, mem := false }] }

def readN : Nat → Agent → Agent
  | 0, a => a
  | n + 1, a => readN n (readNext a)

/-- index of the first minimal second -/
def oldestPos : List Cbd → Nat → Nat → Nat → Nat
  | [], _, best, _ => best
  | c :: cs, i, best, bestSec => if c.sec < bestSec then oldestPos cs (i + 1) i c.sec else oldestPos cs (i + 1) best bestSec

def swapRemove (l : List Cbd) (i : Nat) : List Cbd :=
  match l.getLast? with
  | none => []
  | some lastC => ((l.set i lastC).take (l.length - 1))

def inFuture (now : Nat) (c : Cbd) : Bool := decide (c.sec ≥ now) && decide (c.sec ≤ now + maxFutureSecondsOnDisk)

/-- popOldestHistoricSecondLocked -/
def pop (a : Agent) (now : Nat) : Agent × Option Cbd :=
  match a.hist with
  | [] => (a, none)
  | c0 :: cs =>
    let i := oldestPos cs 1 0 c0.sec
    match a.hist[i]? with
    | none => (a, none)
    | some c =>
      if inFuture now c then (a, none)
      else (readNext { a with hist := swapRemove a.hist i, memSize := a.memSize - sz c }, some c)

/-- checkOutOfWindow (the boolean; the caller erases) -/
def outOfWindow (now t w : Nat) : Bool := !(decide (now < w) || decide (t ≥ now - w))

/-- goEraseHistoric, one pass (the fail-safe eraser). `over`: THIS shard's disk usage (sum of its file sizes, which
the model does not track) exceeds the shard's share MaxHistoricDiskSize / NumShards. The popped second is dropped when it
left the historic window or when the shard is over its share (deliberate losses, recorded); otherwise it goes back into
the historic queue. -/
def eraserStep (a : Agent) (now : Nat) (over : Bool) : Agent :=
  match pop a now with
  | (_, none) => a
  | (a', some c) =>
    if outOfWindow a'.now c.sec a'.window then { diskErase a' c.id with dropped := a'.dropped ++ [c.sec], oow := a'.oow + 1 }
    else if over then { diskErase a' c.id with dropped := a'.dropped ++ [c.sec], oow := a'.oow }
    else appendHist a' c

/-- the shard's own usage against its share -/
def overShare (used : List Nat) (shard limit : Nat) : Bool := decide (used.getD shard 0 > limit / used.length)

/-! ### agent: replica choice and liveness -/

def isAlive (a : Agent) (r : Nat) : Bool := match a.live[r]? with | some l => l.alive | none => false

/-- getShardReplicaForSecond: (replica, spare) -/
def chooseReplica (a : Agent) (t : Nat) : Option (Nat × Bool) :=
  if isAlive a (t % 3) then some (t % 3, false)
  else if isAlive a ((t + 1 + t % 2) % 3) then some ((t + 1 + t % 2) % 3, true)
  else none

def pushLast (last : List Bool) (ok : Bool) : List Bool :=
  (if last.length ≥ livenessWindow then (last.drop 1).take (livenessWindow - 1) else last) ++ [ok]

def dies (last : List Bool) : Bool := last.length == livenessWindow && decide ((last.filter id).length < livenessSuccesses)

/-- recordSendResult -/
def recordLive (l : Live) (ok : Bool) : Live :=
  if !l.alive then l
  else if dies (pushLast l.last ok) then { alive := false, last := [] }
  else { l with last := pushLast l.last ok }

def recordSend (a : Agent) (r : Nat) (ok : Bool) : Agent :=
  match a.live[r]? with
  | none => a
  | some l => { a with live := a.live.set r (recordLive l ok) }

/-! ### agent: senders -/

def tooOldForRecent (a : Agent) (t : Nat) : Bool := decide (t + maxShortWindow + futureWindow < a.now)

/-- the `else` branch of goSendRecent's loop body -/
def toHistoric (a : Agent) (c : Cbd) : Agent :=
  let p := diskPut a c
  appendHist p.1 p.2

def removeFlight (a : Agent) (rid : Nat) : Agent := { a with flights := a.flights.filter (fun f => f.rid != rid) }

/-- one iteration of sendHistoric's loop up to the rpc: result is the agent and, if a request is sent, the flight -/
def historicAttempt (a : Agent) (c : Cbd) (rid : Nat) : Agent × Option Flight :=
  if outOfWindow a.now c.sec a.window then ({ diskErase a c.id with dropped := a.dropped ++ [c.sec], oow := a.oow + 1 }, none)
  else if !c.mem && !a.disk then (a, none)
  else match chooseReplica a c.sec with
    | none => (a, some { rid := rid, cbd := { c with mem := true }, historic := true, replica := 3, spare := false })
      -- no live replica: the real sender sleeps 10 s and runs the loop again. Modelled as a request to a replica that does
      -- not exist: when it is "received" (the timer fires) the sender continues as after a connection error
    | some (r, sp) => (a, some { rid := rid, cbd := { c with mem := true }, historic := true, replica := r, spare := sp })

def reqOf (f : Flight) : Req := { rid := f.rid, sec := f.cbd.sec, historic := f.historic, spare := f.spare, replica := f.replica }

/-! ### aggregator -/

def mkBucket (t : Nat) : Bucket := { time := t, reqs := [], secs := [], joined := 0 }

def dropReady : Nat → Nat → Nat → List Bucket → List Bucket × List Bucket
  | 0, _, _, l => ([], l)
  | _ + 1, _, _, [] => ([], [])
  | fuel + 1, now, sw, b :: bs =>
    if now > b.time + sw then
      let r := dropReady fuel now sw bs
      (b :: r.1, r.2)
    else ([], b :: bs)

def extend : Nat → Nat → List Bucket → List Bucket
  | 0, _, l => l
  | fuel + 1, want, l =>
    match l with
    | [] => []
    | b :: _ => if l.length < want then extend fuel want (l ++ [mkBucket (b.time + l.length)]) else l

/-- advanceRecentBuckets: (ready buckets, new window) -/
def advance (recent : List Bucket) (now sw : Nat) : List Bucket × List Bucket :=
  let r := dropReady recent.length now sw recent
  let rest := if r.2.isEmpty then [mkBucket (now - sw)] else r.2
  (r.1, extend (sw + futureWindow) (sw + futureWindow) rest)

def roundUp (t k : Nat) : Nat :=
  if t % 3 == k then t else if (t + 1) % 3 == k then t + 1 else t + 2

inductive Decision
  | answer (discard : Bool) (why : Why)
  | joinRecent (idx : Nat)
  | joinHistoric
deriving DecidableEq, Repr

/-- the decision sites of handleSendSourceBucket; k = replicaKey - 1; w = historic window -/
def aggDecide (historic : Bool) (t oldest newest w k : Nat) : Decision :=
  let rounded := roundUp t k
  if historic then
    if rounded > newest then .answer true .futureHistoric
    else if oldest ≥ w && rounded < oldest - w then .answer true .beyondWindow
    else if rounded < oldest then .joinHistoric
    else .joinRecent (rounded - oldest)
  else
    if rounded > newest then .answer true .futureRecent
    else if rounded < oldest then .answer false .lateRecent
    else .joinRecent (rounded - oldest)

def park (b : Bucket) (rid sec : Nat) : Bucket := { b with reqs := b.reqs ++ [(rid, sec)], secs := b.secs ++ [sec], joined := b.joined + 1 }

/-- recentBuckets[i] gets the request -/
def parkAt : List Bucket → Nat → Nat → Nat → List Bucket
  | [], _, _, _ => []
  | b :: bs, 0, rid, sec => park b rid sec :: bs
  | b :: bs, i + 1, rid, sec => b :: parkAt bs i rid sec

def parkHistoric : List Bucket → Nat → Nat → List Bucket
  | [], rid, sec => [park (mkBucket sec) rid sec]
  | b :: bs, rid, sec => if b.time == sec then park b rid sec :: bs else b :: parkHistoric bs rid sec

def isStale (oldest w : Nat) (b : Bucket) : Bool := decide (oldest ≥ w) && decide (b.time < oldest - w)

def minTime : List Bucket → Option Nat
  | [] => none
  | b :: bs => match minTime bs with
    | none => some b.time
    | some m => some (if b.time < m then b.time else m)

def answersOf (b : Bucket) (discard err : Bool) (why : Why) : List Resp :=
  b.reqs.map (fun r => { rid := r.1, sec := r.2, discard := discard, err := err, why := why })

structure Batch where
  historic : List Bucket     -- what remains in the map
  taken : List Bucket        -- historic buckets added to the insert
  stale : List Bucket
deriving DecidableEq, Repr

/-- the `for willInsertHistoric && len(aggBuckets) < 1+maxHistoricInsertBatch` loop of goInsert -/
def takeHistoric : Nat → List Bucket → Nat → Nat → Nat → Nat → Batch
  | 0, h, _, _, _, _ => { historic := h, taken := [], stale := [] }
  | fuel + 1, h, oldest, w, recentContrib, histContrib =>
    let stale := h.filter (isStale oldest w)
    let rest := h.filter (fun b => !isStale oldest w b)
    match minTime rest with
    | none => { historic := rest, taken := [], stale := stale }
    | some m =>
      let hb := rest.filter (fun b => b.time == m)
      let rest' := rest.filter (fun b => b.time != m)
      let hc := histContrib + (hb.map (fun b => b.joined)).sum
      if hc + 2 > historyContributorsScale * recentContrib then
        { historic := rest', taken := hb, stale := stale }
      else
        let r := takeHistoric fuel rest' oldest w recentContrib hc
        { historic := r.historic, taken := hb ++ r.taken, stale := stale ++ r.stale }

def maxHistoricBatch : Nat := maxHistorySendStreams / (1 + historicInserters)

structure InsertOut where
  historic : List Bucket
  resps : List Resp
  body : List Nat            -- seconds in the INSERT body
  nHistoric : Nat
deriving DecidableEq, Repr

/-- one iteration of goInsert for ready bucket `b` (no other inserter running) -/
def insertOne (b : Bucket) (historic : List Bucket) (oldest w : Nat) (ok : Bool) : InsertOut :=
  let batch := if historic.isEmpty || insertHistoricWhen == 0 then { historic := historic, taken := [], stale := [] }
               else takeHistoric maxHistoricBatch historic oldest w b.joined 0
  let all := b :: batch.taken
  let staleResps := (batch.stale.map (fun s => answersOf s true false .stale)).flatten
  let resps := (all.map (fun x => answersOf x ok (!ok) (if ok then .inserted else .insertFailed))).flatten
  { historic := batch.historic, resps := staleResps ++ resps, body := (all.map (·.secs)).flatten, nHistoric := batch.taken.length }

/-- goInsert iteration whose `willInsertHistoric` was decided earlier (`will`: were there historic buckets when it took
a.mu for its snapshot) and whose stale test uses that snapshot `oldest`, while the historic map it pops from is the
current one -/
def insertOneW (will : Bool) (b : Bucket) (historic : List Bucket) (oldest w : Nat) (ok : Bool) : InsertOut :=
  let batch := if !will then { historic := historic, taken := [], stale := [] }
               else takeHistoric maxHistoricBatch historic oldest w b.joined 0
  let all := b :: batch.taken
  let staleResps := (batch.stale.map (fun s => answersOf s true false .stale)).flatten
  let resps := (all.map (fun x => answersOf x ok (!ok) (if ok then .inserted else .insertFailed))).flatten
  { historic := batch.historic, resps := staleResps ++ resps, body := (all.map (·.secs)).flatten, nHistoric := batch.taken.length }

/-! ### the composed system -/

inductive Op
  | overflow (t : Nat)                 -- sendToSenders with every recent sender busy
  | recent (t : Nat)                   -- a recent sender takes second t from BucketsToSend
  | recv (rid : Nat)                   -- the request reaches its aggregator's handler (or finds it down)
  | tick (r now : Nat) (ok : Bool)     -- replica r: goTicker iteration at `now`; every INSERT of it succeeds/fails
  | resp (rid : Nat)                   -- the answer reaches the agent
  | drop (rid : Nat)                   -- the rpc fails on the agent side (answer lost, timeout, connection reset)
  | pop (now : Nat)                    -- a historic sender calls popOldestHistoricSecondLocked(now) and sends what it got
  | alive (r : Nat) (b : Bool)         -- keep-alive checker result
  | down (r : Nat)                     -- replica r dies (memory lost, connections reset)
  | up (r now : Nat)                   -- replica r (re)starts at `now`
  | agentRestart (crash : Bool)        -- agent process stops (graceful: senders cancelled; crash: killed) and starts again
  | ballast (k : Nat)                  -- other queued data now takes k units of the historic memory budget
  | diskOk (b : Bool)                  -- disk cache switched off/on at run time (MaxHistoricDiskSize = 0, write errors)
  | bad (r : Nat)                      -- an undecodable sendSourceBucket3 request reaches replica r
  | erase (now : Nat) (over : Bool)   -- one pass of the fail-safe eraser goEraseHistoric; `over`: this shard's disk usage exceeds its share
  | tickRace (r now1 now2 rid : Nat) (ok : Bool)
      -- replica r: the ticker fires at now1; the inserter of the first ready bucket takes its oldestTime snapshot and is then
      -- delayed (estimator, budgets, sendMu); meanwhile the ticker fires again at now2 and request `rid` (historic, for
      -- this replica) is handled; only then does the delayed inserter pop historic buckets — with its OLD snapshot
deriving DecidableEq, Repr

/-- what a step shows to an observer -/
inductive Ev
  | req (q : Req)                      -- agent sent a request
  | done                               -- sender finished without (another) request
  | parked (recent : Bool) (time : Nat)
  | answer (a : Resp)
  | connErr
  | ins (time : Nat) (body : List Nat) (nHistoric : Nat) (ok : Bool)
  | popped (c : Cbd)
  | none
deriving DecidableEq, Repr

def findFlight (a : Agent) (rid : Nat) : Option Flight := a.flights.find? (fun f => f.rid == rid)
def findReq (s : State) (rid : Nat) : Option Req := s.reqs.find? (fun q => q.rid == rid)
def findResp (s : State) (rid : Nat) : Option Resp := s.resps.find? (fun q => q.rid == rid)

def setAgg (s : State) (r : Nat) (g : Agg) : State := { s with aggs := s.aggs.set r g }

/-- launch a flight: register it and put its request on the wire -/
def launch (s : State) (a : Agent) (f : Flight) : State × List Ev :=
  ({ s with ag := { a with flights := a.flights ++ [f] }, reqs := s.reqs ++ [reqOf f], nextRid := s.nextRid + 1 }, [.req (reqOf f)])

def addFlushed (s : State) (t : Nat) : State := { s with flushed := s.flushed ++ [t] }

/-- sendRecent for descriptor c of second t (after the optional save-before-send) -/
def recentSend (s : State) (a : Agent) (c : Cbd) (t : Nat) : State × List Ev :=
  if tooOldForRecent a t then ({ s with ag := toHistoric a c }, [.done])
  else match chooseReplica a t with
    | none => ({ s with ag := toHistoric a c }, [.done])
    | some (r, sp) => launch s a { rid := s.nextRid, cbd := c, historic := false, replica := r, spare := sp }

/-- goSendRecent loop body up to the rpc -/
def stepRecent (s : State) (t : Nat) : State × List Ev :=
  if s.ag.saveFirst then recentSend (addFlushed s t) (diskPut s.ag ⟨t, 0, true⟩).1 (diskPut s.ag ⟨t, 0, true⟩).2 t
  else recentSend (addFlushed s t) s.ag ⟨t, 0, true⟩ t

/-- sendHistoric: one loop iteration -/
def stepHistoricAttempt (s : State) (a : Agent) (c : Cbd) : State × List Ev :=
  match historicAttempt a c s.nextRid with
  | (a', none) => ({ s with ag := a' }, [.done])
  | (a', some f) => launch s a' f

/-- the sender continues after SendSourceBucket3 returned: `err`, or an answer with/without discard -/
def agentContinue (s : State) (f : Flight) (err discard : Bool) : State × List Ev :=
  let a := removeFlight s.ag f.rid
  if f.historic then
    if !err && discard then ({ s with ag := diskErase a f.cbd.id }, [.done])
    else stepHistoricAttempt s a f.cbd
  else
    let a := if f.spare then a else recordSend a f.replica (!err)
    if !err && discard then ({ s with ag := diskErase a f.cbd.id }, [.done])
    else ({ s with ag := toHistoric a f.cbd }, [.done])

def unparkBucket (b : Bucket) (rid : Nat) : Bucket := { b with reqs := b.reqs.filter (fun r => r.1 != rid) }
/-- CancelLongpoll: the contributor entry goes away, merged rows stay -/
def unpark (g : Agg) (rid : Nat) : Agg :=
  { g with recent := g.recent.map (unparkBucket · rid), historic := g.historic.map (unparkBucket · rid) }

/-- nobody listens (replica down; or the "replica" of a sender that found no live replica: its 10 s timer fires):
the sender continues as after a connection error -/
def recvRefused (s : State) (rid : Nat) : State × List Ev :=
  match findFlight s.ag rid with
  | none => (s, [.connErr])
  | some f => let r := agentContinue s f true false; (r.1, .connErr :: r.2)

/-- handleSendSourceBucket on replica q.replica (state g) -/
def recvHandle (s : State) (q : Req) (g : Agg) : State × List Ev :=
  match g.recent.head?, g.recent.getLast? with
  | some ob, some nb =>
    match aggDecide q.historic q.sec ob.time nb.time s.aggWindow q.replica with
    | .answer d why =>
      let a : Resp := { rid := q.rid, sec := q.sec, discard := d, err := false, why := why }
      ({ s with resps := s.resps ++ [a], rejected := if d then s.rejected ++ [q.sec] else s.rejected }, [.answer a])
    | .joinRecent i =>
      (setAgg s q.replica { g with recent := parkAt g.recent i q.rid q.sec }, [.parked true (ob.time + i)])
    | .joinHistoric =>
      (setAgg s q.replica { g with historic := parkHistoric g.historic q.rid q.sec }, [.parked false q.sec])
  | _, _ => (s, [.none])

def dropReq (s : State) (rid : Nat) : State := { s with reqs := s.reqs.filter (fun x => x.rid != rid) }

def stepRecv (s : State) (rid : Nat) : State × List Ev :=
  match findReq s rid with
  | none => (s, [.none])
  | some q =>
    match (dropReq s rid).aggs[q.replica]? with
    | none => recvRefused (dropReq s rid) rid
    | some g => if !g.up then recvRefused (dropReq s rid) rid else recvHandle (dropReq s rid) q g

structure TickAcc where
  historic : List Bucket
  resps : List Resp
  inserted : List Nat
  rejected : List Nat
  evs : List Ev
deriving DecidableEq, Repr

def isOurs (b : Bucket) (k : Nat) : Bool := b.time % 3 == k

/-- goTicker: each ready bucket of this replica goes through goInsert -/
def tickBuckets (k oldest w : Nat) (ok : Bool) : List Bucket → TickAcc → TickAcc
  | [], acc => acc
  | b :: bs, acc =>
    if !isOurs b k then tickBuckets k oldest w ok bs acc
    else
      let o := insertOne b acc.historic oldest w ok
      tickBuckets k oldest w ok bs
        { historic := o.historic, resps := acc.resps ++ o.resps,
          inserted := if ok then acc.inserted ++ o.body else acc.inserted,
          rejected := acc.rejected ++ ((o.resps.filter (fun x => x.why == .stale)).map (·.sec)),
          evs := acc.evs ++ [.ins b.time o.body o.nHistoric ok] }

def stepTick (s : State) (r now : Nat) (ok : Bool) : State × List Ev :=
  match s.aggs[r]? with
  | none => (s, [.none])
  | some g =>
    if !g.up then (s, [.none]) else
    let adv := advance g.recent now s.shortWindow
    let oldest := match adv.2.head? with | some b => b.time | none => 0
    let acc := tickBuckets r oldest s.aggWindow ok adv.1 { historic := g.historic, resps := [], inserted := [], rejected := [], evs := [] }
    ({ setAgg s r { g with recent := adv.2, historic := acc.historic } with
        resps := s.resps ++ acc.resps, inserted := s.inserted ++ acc.inserted, rejected := s.rejected ++ acc.rejected },
     acc.evs ++ acc.resps.map .answer)

def headTime (l : List Bucket) : Nat := match l.head? with | some b => b.time | none => 0

/-- ready buckets from the first one this replica inserts -/
def fromFirstOurs (k : Nat) : List Bucket → List Bucket
  | [] => []
  | b :: bs => if isOurs b k then b :: bs else fromFirstOurs k bs

/-- one goInsert iteration folded into the accumulator -/
def tickOne (will : Bool) (oldest w : Nat) (ok : Bool) (b : Bucket) (acc : TickAcc) : TickAcc :=
  let o := insertOneW will b acc.historic oldest w ok
  { historic := o.historic, resps := acc.resps ++ o.resps,
    inserted := if ok then acc.inserted ++ o.body else acc.inserted,
    rejected := acc.rejected ++ ((o.resps.filter (fun x => x.why == .stale)).map (·.sec)),
    evs := acc.evs ++ [.ins b.time o.body o.nHistoric ok] }

/-- the historic request that arrives while the inserter is delayed -/
def raceArrive (s : State) (r : Nat) (g : Agg) (rid : Nat) : State × List Ev :=
  match findReq s rid with
  | none => (s, [.none])
  | some q => if q.replica == r && q.historic then recvHandle (dropReq s rid) q g else (s, [.none])

/-- all inserter iterations of the race: the delayed one (first bucket of this replica among `ready1`, snapshot `snap1`,
`will` decided before the arrival) and then the others with the current snapshot `snap2` -/
def raceAcc (k : Nat) (will : Bool) (snap1 snap2 w : Nat) (ok : Bool) (ready1 ready2 hist : List Bucket) : TickAcc :=
  match fromFirstOurs k ready1 with
  | [] => tickBuckets k snap2 w ok ready2 { historic := hist, resps := [], inserted := [], rejected := [], evs := [] }
  | b :: rest => tickBuckets k snap2 w ok (rest ++ ready2)
      (tickOne will snap1 w ok b { historic := hist, resps := [], inserted := [], rejected := [], evs := [] })

def stepTickRace (s : State) (r now1 now2 rid : Nat) (ok : Bool) : State × List Ev :=
  match s.aggs[r]? with
  | none => (s, [.none])
  | some g =>
    if !g.up then (s, [.none]) else
    let adv1 := advance g.recent now1 s.shortWindow
    let adv2 := advance adv1.2 now2 s.shortWindow
    let g2 : Agg := { g with recent := adv2.2 }
    let a := raceArrive (setAgg s r g2) r g2 rid
    match a.1.aggs[r]? with
    | none => (s, [.none])
    | some g3 =>
      let acc := raceAcc r (!(g.historic.isEmpty || insertHistoricWhen == 0)) (headTime adv1.2) (headTime adv2.2) s.aggWindow ok
                   adv1.1 adv2.1 g3.historic
      ({ setAgg a.1 r { g3 with historic := acc.historic } with
          resps := a.1.resps ++ acc.resps, inserted := a.1.inserted ++ acc.inserted, rejected := a.1.rejected ++ acc.rejected },
       a.2 ++ acc.evs ++ acc.resps.map .answer)

def stepResp (s : State) (rid : Nat) : State × List Ev :=
  match findResp s rid with
  | none => (s, [.none])
  | some a =>
    let s := { s with resps := s.resps.filter (fun x => x.rid != rid) }
    match findFlight s.ag rid with
    | none => (s, [.none])           -- nobody waits for it any more
    | some f => agentContinue s f a.err a.discard

def stepDrop (s : State) (rid : Nat) : State × List Ev :=
  match findFlight s.ag rid with
  | none => (s, [.none])
  | some f =>
    let s := { s with resps := s.resps.filter (fun x => x.rid != rid), aggs := s.aggs.map (unpark · rid) }
    agentContinue s f true false

def stepPop (s : State) (now : Nat) : State × List Ev :=
  match pop s.ag now with
  | (_, none) => (s, [.none])
  | (a, some c) => let r := stepHistoricAttempt s a c; (r.1, .popped c :: r.2)

/-- every flight parked at / heading to replica r gets a connection error, in rid order -/
def failFlights : List Flight → State → State × List Ev
  | [], s => (s, [])
  | f :: fs, s =>
    match findFlight s.ag f.rid with
    | none => failFlights fs s
    | some f' =>
      let r := agentContinue s f' true false
      let r2 := failFlights fs r.1
      (r2.1, r.2 ++ r2.2)

def parkedRids (g : Agg) : List Nat := ((g.recent ++ g.historic).map (fun b => b.reqs.map (·.1))).flatten

def stepDown (s : State) (r : Nat) : State × List Ev :=
  match s.aggs[r]? with
  | none => (s, [.none])
  | some g =>
    let rids := parkedRids g
    let s := setAgg s r { up := false, recent := [], historic := [] }
    failFlights (s.ag.flights.filter (fun f => rids.contains f.rid)) s

def stepUp (s : State) (r now : Nat) : State × List Ev :=
  match s.aggs[r]? with
  | none => (s, [.none])
  | some g => if g.up then (s, [.none]) else
  (setAgg s r { up := true, recent := (advance [] now s.shortWindow).2, historic := [] }, [])

def resetIds (l : List Rec) : List Rec := l.map (fun r => { r with id := 0 })

/-- graceful stop: every blocked recent sender gets `context canceled`, runs its else-branch (disk put) and exits -/
def flushFlights : List Flight → Agent → Agent
  | [], a => a
  | f :: fs, a => flushFlights fs (if f.historic then a else (diskPut a f.cbd).1)

def memOnly (a : Agent) (graceful : Bool) : List Nat :=
  ((a.hist.filter (fun c => c.id == 0)).map (·.sec)) ++
  ((a.flights.filter (fun f => f.cbd.id == 0 && (f.historic || !graceful || !a.disk || !a.diskOk))).map (·.cbd.sec))

/-- the process image after exec: nothing in memory, disk records not yet read, configuration defaults -/
def restarted (a : Agent) (lost : List Nat) : Agent :=
  { a with hist := [], flights := [], recs := resetIds a.recs, lastId := 0, memSize := 0, ballast := 0, diskOk := true,
           live := a.live.map (fun _ => { alive := true, last := [] }), lostMem := a.lostMem ++ lost }

def stepAgentRestart (s : State) (crash : Bool) : State × List Ev :=
  ({ s with ag := readN startupReads (restarted (if crash then s.ag else flushFlights s.ag.flights s.ag) (memOnly s.ag (!crash))),
            aggs := s.aggs.map (fun g => (s.ag.flights.map (·.rid)).foldl unpark g),
            resps := s.resps.filter (fun x => !(s.ag.flights.map (·.rid)).contains x.rid) }, [])

def stepBad (s : State) (r : Nat) : State × List Ev :=
  match s.aggs[r]? with
  | none => (s, [.none])
  | some g => if g.up then (s, [.answer { rid := 0, sec := 0, discard := true, err := false, why := .undecodable }]) else (s, [.connErr])

def step (s : State) : Op → State × List Ev
  | .overflow t => ({ addFlushed s t with ag := toHistoric s.ag { sec := t, id := 0, mem := true } }, [])
  | .recent t => stepRecent s t
  | .recv rid => stepRecv s rid
  | .tick r now ok => stepTick s r now ok
  | .resp rid => stepResp s rid
  | .drop rid => stepDrop s rid
  | .pop now => stepPop s now
  | .alive r b => ({ s with ag := { s.ag with live := s.ag.live.modify r (fun l => { l with alive := b }) } }, [])
  | .down r => stepDown s r
  | .up r now => stepUp s r now
  | .agentRestart crash => stepAgentRestart s crash
  | .ballast k => ({ s with ag := { s.ag with memSize := s.ag.memSize - s.ag.ballast + k, ballast := k } }, [])
  | .diskOk b => ({ s with ag := { s.ag with diskOk := b } }, [])
  | .bad r => stepBad s r
  | .tickRace r now1 now2 rid ok => stepTickRace s r now1 now2 rid ok
  | .erase now over => ({ s with ag := eraserStep s.ag now over }, [])

def initAgent (disk saveFirst : Bool) (now window : Nat) : Agent :=
  { hist := [], recs := [], lastId := 0, disk := disk, saveFirst := saveFirst, memSize := 0, ballast := 0, diskOk := true, flights := [],
    live := [⟨true, []⟩, ⟨true, []⟩, ⟨true, []⟩], now := now, window := window, dropped := [], oow := 0, lostMem := [] }

def init (disk saveFirst : Bool) (agentNow window shortWindow aggNow : Nat) : State :=
  { ag := initAgent disk saveFirst agentNow window,
    aggs := [0, 1, 2].map (fun _ => { up := true, recent := (advance [] aggNow shortWindow).2, historic := [] }),
    reqs := [], resps := [], nextRid := 1, shortWindow := shortWindow, aggWindow := window,
    inserted := [], rejected := [], flushed := [] }

def run (s : State) (ops : List Op) : State := ops.foldl (fun s o => (step s o).1) s


/-! ### wake-up discipline of the historic consumers (goSendHistoric ×N, goEraseHistoric) on `Shard.cond`

  A consumer holds `s.mu`, calls popOldestHistoricSecondLocked(now) and, if that fails, `cond.Wait()`s (atomically).
  `cond.Signal()` wakes one waiting consumer, and is lost when nobody waits. Whether the head of the queue can be popped
  depends on the queue AND on the clock (a second still in the future is not popped), so both must signal. -/
namespace Wake

structure W where
  clock : Nat
  hist : List Nat           -- seconds in historicBucketsToSend
  awake : Nat               -- consumers that will call pop again before they wait
  asleep : Nat              -- consumers in cond.Wait()
deriving DecidableEq, Repr

inductive WOp
  | second                  -- the wall clock reaches the next second and flushBuckets runs
  | consumer                -- an awake consumer takes the mutex: pops the head if it can, otherwise waits
  | append (t : Nat)        -- appendHistoricBucketsToSend
deriving DecidableEq, Repr

def minOf : List Nat → Option Nat
  | [] => none
  | t :: ts => match minOf ts with
    | none => some t
    | some m => some (if t < m then t else m)

def future (now t : Nat) : Bool := decide (t ≥ now) && decide (t ≤ now + maxFutureSecondsOnDisk)

/-- popOldestHistoricSecondLocked would succeed -/
def poppable (s : W) : Bool := match minOf s.hist with | none => false | some m => !future s.clock m

/-- cond.Signal() -/
def signal (s : W) : W := if s.asleep > 0 then { s with asleep := s.asleep - 1, awake := s.awake + 1 } else s

/-- `flushSignals`: does flushBuckets call cond.Signal() when CurrentTime advances (regenerated from /repo) -/
def step (flushSignals : Bool) (s : W) : WOp → W
  | .second => let s' := { s with clock := s.clock + 1 }; if flushSignals then signal s' else s'
  | .consumer =>
    if s.awake = 0 then s
    else match minOf s.hist with
      | none => { s with awake := s.awake - 1, asleep := s.asleep + 1 }
      | some m => if future s.clock m then { s with awake := s.awake - 1, asleep := s.asleep + 1 }
                  else { s with hist := s.hist.erase m }
  | .append t => signal { s with hist := s.hist ++ [t] }

def run (flushSignals : Bool) (s : W) (ops : List WOp) : W := ops.foldl (step flushSignals) s

/-- the functions of agent_shard_send.go that signal/broadcast `s.cond`, as the source says now -/
def flushSignalsNow : Bool := condSignalSites.contains "flushBuckets"
def appendSignalsNow : Bool := condSignalSites.contains "appendHistoricBucketsToSend"

end Wake

end SH.Delivery
