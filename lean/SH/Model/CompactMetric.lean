/-
  SH.Model.CompactMetric — model of internal/format/format.go: MakeCompactMetric + keepCompactMetricDescription, and of
  the event-level part of internal/metajournal/journal_fast.go: compactJournalEvent (property C20: "in compacted form
  for compact journals").

  Input of the model = the fields of the `*MetricMetaValue` that compactJournalEvent hands to MakeCompactMetric, i.e. the
  event's Data AFTER MetricMetaFromEvent (JSON parse + RestoreCachedInfo; that part is exercised, not modelled), plus
  the event's Name (MetricMetaFromEvent copies it into value.Name). Output = the fields that json.Marshal writes into the
  compact event's Data. Strings are byte lists. The cached fields HasPercentiles and EffectiveResolution are derived
  here the way RestoreCachedInfo derives them (kind ∈ {value_p, mixed_p}; AllowedResolution).
-/
import SH.Gen.C20

namespace SH.CompactMetric

abbrev Str := List Nat

structure Tag where
  name : Str
  desc : Str
  raw : Str            -- raw_kind
  ncomm : Nat          -- number of value_comments entries
deriving DecidableEq, Repr

structure Draft where
  key : Str            -- map key of tags_draft
  name : Str
  desc : Str
  raw : Str
deriving DecidableEq, Repr

structure MF where
  desc : Str
  kind : Str
  weight : Nat
  res : Nat
  dis : Bool
  stn : Str            -- string_top_name
  std : Str            -- string_top_description
  pkt : Str            -- pre_key_tag_id
  pkf : Nat            -- pre_key_from
  skipMax : Bool
  skipMin : Bool
  skipSq : Bool
  pkOnly : Bool
  mtype : Str          -- metric_type
  tags : List Tag
  drafts : List Draft  -- sorted by key (json.Marshal sorts map keys)
  -- "restored from event anyway"
  mid : Int
  ns : Int
  vname : Str
  ver : Int
deriving DecidableEq, Repr

def str (s : String) : Str := s.toList.map Char.toNat

/-- `strings.Contains(s, pat)` -/
def hasSub (pat : Str) : Str → Bool
  | [] => pat.isEmpty
  | c :: r => pat.isPrefixOf (c :: r) || hasSub pat r

/-- `RemoteConfigMetric(name)`: the metrics whose description is their payload -/
def remoteConfigMetric (name : Str) : Bool := SH.Gen.C20.remoteConfigNames.any (fun n => str n = name)

/-- `keepCompactMetricDescription` -/
def keepDesc (name desc : Str) : Bool :=
  remoteConfigMetric name || SH.Gen.C20.keepDescMarks.any (fun m => hasSub (str m) desc)

/-- `HasPercentiles` as RestoreCachedInfo sets it -/
def hasPercentiles (kind : Str) : Bool := SH.Gen.C20.percentileKinds.any (fun k => str k = kind)

/-- `AllowedResolution` (allowedResolutionSwitch) -/
def allowedRes (r : Nat) : Nat :=
  if r ≤ 1 then 1 else if r ≤ 6 then r else if r ≤ 10 then 10 else if r ≤ 12 then 12 else if r ≤ 15 then 15
  else if r ≤ 20 then 20 else if r ≤ 30 then 30 else 60

def clearTag (t : Tag) : Tag := { t with desc := [], ncomm := 0 }

def tagKept (t : Tag) : Bool := !t.raw.isEmpty || !t.name.isEmpty

/-- `value.Tags[:cutTags]`: drop the trailing tags that have neither a name nor a raw kind -/
def cutTags : List Tag → List Tag
  | [] => []
  | t :: r =>
    match cutTags r with
    | [] => if tagKept t then [t] else []
    | r' => t :: r'

def clearDraft (d : Draft) : Draft := { d with name := [] }

/-- which description survives: `.orig` = the code, `.seeded` = the variant that clears value.Name BEFORE asking
    keepCompactMetricDescription (so the four special names are never recognised) -/
inductive KeepRule | orig | seeded
deriving DecidableEq, Repr

def descOf (v : KeepRule) (name : Str) (m : MF) : Str :=
  match v with
  | .orig => if keepDesc name m.desc then m.desc else []
  | .seeded => if keepDesc [] m.desc then m.desc else []

/-- weight as RestoreCachedInfo leaves it (0 is the JSON default for 1) -/
def normWeight (w : Nat) : Nat := if w = 0 then 1 else w

/-- `MakeCompactMetric(value)`; `name` = the event's Name (= value.Name on entry) -/
def compactForm (v : KeepRule) (name : Str) (m : MF) : MF :=
  { desc := descOf v name m,
    kind := if hasPercentiles m.kind then m.kind else [],
    weight := if normWeight m.weight = 1 then 0 else m.weight,
    res := if allowedRes m.res = 1 then 0 else m.res,
    dis := m.dis,
    stn := m.stn,
    std := [], pkt := [], pkf := 0, skipMax := false, skipMin := false, skipSq := false, pkOnly := false, mtype := [],
    tags := cutTags (m.tags.map clearTag),
    drafts := m.drafts.map clearDraft,
    mid := 0, ns := 0, vname := [], ver := 0 }

/-- the event around the Data: what `compactJournalEvent` does to the other event fields -/
structure EvHead where
  fieldMask : Nat
  unused : Nat
  updateTime : Nat
  hasMeta : Bool       -- Metadata ≠ ""
deriving DecidableEq, Repr

/-- `event2.ClearMetadata(); event2.Unused = 0; event2.UpdateTime = 0` -/
def compactHead (h : EvHead) : EvHead :=
  { fieldMask := if h.fieldMask / 2 % 2 = 1 then h.fieldMask - 2 else h.fieldMask, unused := 0, updateTime := 0, hasMeta := false }

end SH.CompactMetric
