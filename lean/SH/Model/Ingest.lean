/-
  SH.Model.Ingest — executable model of event validation and accounting on the agent (property C12).

  Modelled, branch for branch, from /repo:
    internal/format/format.go          ValidateCounter, ValidateValue
    internal/data_model/validation.go  ValidateMetricData, MapValidateTag
    internal/agent/agent_mapping.go    Agent.Map, mapAllTags, MapEnvironment, mapEnvironmentTag
    internal/data_model/mapped_metric_header.go  SetTag, SetInvalidString
    internal/agent/agent.go            Agent.shard, Agent.ApplyMetric
    internal/sharding/sharding.go      Shard (fixed key / fixed / by metric id / default)
    internal/agent/agent_shard.go      resolutionShardFromHashLocked (timestamp part), ApplyUnique, ApplyValues,
                                       ApplyCounter, AddCounterHost(StringBytes)SrcIngestionStatus
    internal/data_model/bucket.go      ItemValue.addOnlyValue/Merge, MultiItem.MapStringTop (below capacity),
                                       MultiValue.ApplyValues/ApplyUnique/AddCounterHost, Key.RemoveStringTopTag

  External (inputs of the model, observed by the harness with the real functions): tag-name lookup
  (Name2TagAgentFastBytes, GetTagDraft), string normalisation (AppendValidStringValue, AppendHexStringValue),
  ContainsCorruptedBalancerValue, raw value parsers, the mapping table. Floats are IEEE-754 bit patterns decoded
  into `XR` (nan | ninf | fin q | pinf); arithmetic is exact (`Rat`), the harness stays in float64's exact domain.
  Byte strings are kept as the hex text the harness prints (`Str`, "-" = empty).

  Core Lean only.
-/
import SH.Model.Core
import SH.Gen.C12

namespace SH.Ingest
open SH.Gen.C12

abbrev Str := String

/-! ## extended reals and float64 decoding -/

inductive XR where
  | nan | ninf | fin (q : Rat) | pinf
deriving DecidableEq, Repr

/-- value of an IEEE-754 binary64 bit pattern -/
def ofBits (b : Nat) : XR :=
  let sign : Nat := (b / 2^63) % 2
  let e : Nat := (b / 2^52) % 2048
  let m : Nat := b % 2^52
  if e = 2047 then
    (if m = 0 then (if sign = 1 then .ninf else .pinf) else .nan)
  else
    let mag : Rat :=
      if e = 0 then mkRat (Int.ofNat m) (2^1074)
      else if 1075 ≤ e then (Nat.cast ((2^52 + m) * 2^(e - 1075)) : Rat)
      else mkRat (Int.ofNat (2^52 + m)) (2^(1075 - e))
    .fin (if sign = 1 then -mag else mag)

/-- math.MaxFloat32 -/
def maxF : Rat := (maxFloat32 : Rat)

namespace XR
def isNaN : XR → Bool | .nan => true | _ => false
/-- Go `f < 0` -/
def ltZero : XR → Bool | .ninf => true | .fin q => decide (q < 0) | _ => false
/-- Go `f > math.MaxFloat32` -/
def gtMax : XR → Bool | .pinf => true | .fin q => decide (maxF < q) | _ => false
/-- Go `f < -math.MaxFloat32` -/
def ltNegMax : XR → Bool | .ninf => true | .fin q => decide (q < -maxF) | _ => false
/-- Go `f == 0` -/
def isZero : XR → Bool | .fin q => decide (q = 0) | _ => false
def toRat : XR → Rat | .fin q => q | _ => 0
end XR

/-! ## number validation (format.ValidateCounter / ValidateValue, data_model.ValidateMetricData) -/

def validateCounter (f : XR) : Int :=
  if f.isNaN then stErrNanInfCounter
  else if f.ltZero then stErrNegativeCounter
  else if f.gtMax then stErrTooBigCounter
  else 0

def validateValue (f : XR) : Int :=
  if f.isNaN then stErrNanInfValue
  else if f.gtMax then stErrTooBigValue
  else if f.ltNegMax then stErrTooBigValue
  else 0

def validateValues : List XR → Int
  | [] => 0
  | v :: vs => if validateValue v ≠ 0 then validateValue v else validateValues vs

def validateHist : List (XR × XR) → Int
  | [] => 0
  | p :: hs =>
    if validateValue p.1 ≠ 0 then validateValue p.1
    else if validateCounter p.2 ≠ 0 then validateCounter p.2
    else validateHist hs

/-- one tag of an event together with what the real helper functions say about its bytes -/
structure TagIn where
  isEnv : Bool            -- key == "0"
  metaIdx : Option Int    -- Name2TagAgentFastBytes(key): MetricMetaTag.Index, none = nil
  rawKind : Nat           -- 0 plain, 1 Raw(), 2 Raw64()
  legacy : Bool           -- legacyName result
  keyNorm : Option Str    -- AppendValidStringValue(key), none = error
  keyHex : Str            -- AppendHexStringValue(key)
  draft : Bool            -- GetTagDraft(normalised key) found
  corrupted : Bool        -- ContainsCorruptedBalancerValue(value)
  valNorm : Option Str    -- AppendValidStringValue(value), none = error
  valHex : Str            -- AppendHexStringValue(value)
  raw : Option Int        -- ContainsRawTagValueBytes(normalised value)
  raw64 : Option (Int × Int)  -- ContainsRawTagValue64Bytes(normalised value) = (lo, hi)
deriving DecidableEq, Repr

structure Event where
  pre : Int               -- status set by worker.fillMetricMeta (0 = metric found and enabled)
  hasMeta : Bool          -- h.MetricMeta != nil
  invalid : Str           -- h.InvalidString set by fillMetricMeta
  ts : Nat                -- MetricBytes.Ts
  counter : XR
  values : List XR
  hist : List (XR × XR)
  uniq : List Int
  tags : List TagIn
  /-- sharding.Shard's result for ShardByTagsHash on this event's mapped key (xxh3 is external: observed value) -/
  hashShard : Nat := 0
deriving DecidableEq, Repr

def bothSet (e : Event) : Bool := (e.values.length + e.hist.length != 0) && (e.uniq.length != 0)
def isEmptyEvent (e : Event) : Bool := (e.values.length + e.hist.length == 0) && (e.uniq.length == 0) && e.counter.isZero

def validateMetricData (e : Event) : Int :=
  if bothSet e then stErrValueUniqueBothSet
  else if isEmptyEvent e then stErrZeroCounter
  else if validateCounter e.counter ≠ 0 then validateCounter e.counter
  else if validateValues e.values ≠ 0 then validateValues e.values
  else validateHist e.hist

/-! ## key tags -/

/-- non-zero positions of Key.Tags / Key.STags: (index, int value, string value), sorted by index -/
abbrev KeyTags := List (Nat × Int × Str)

def ktInsert (idx : Nat) (i : Int) (s : Str) : KeyTags → KeyTags
  | [] => [(idx, i, s)]
  | p :: r => if idx < p.1 then (idx, i, s) :: p :: r else p :: ktInsert idx i s r

def ktSet (kt : KeyTags) (idx : Nat) (i : Int) (s : Str) : KeyTags :=
  let r := kt.filter (fun p => p.1 != idx)
  if i == 0 && s == "-" then r else ktInsert idx i s r

def ktGetI (kt : KeyTags) (idx : Nat) : Int :=
  match kt.find? (fun p => p.1 == idx) with
  | some p => p.2.1
  | none => 0

def ktGetS (kt : KeyTags) (idx : Nat) : Str :=
  match kt.find? (fun p => p.1 == idx) with
  | some p => p.2.2
  | none => "-"

/-! ## mapping (MappedMetricHeader, MapValidateTag, mapAllTags) -/

structure Hdr where
  ktags : KeyTags := []
  isSet : List Nat := []
  hkeySet : Bool := false
  status : Int := 0
  statusTagKey : Int := 0
  invalid : Str := "-"
  notFound : Option Str := none
  foundDraft : Option Str := none
  setTwice : Int := 0
  legacyKey : Int := 0
  invalidRaw : Str := "-"
  invalidRawKey : Int := 0
deriving DecidableEq, Repr

def lookupMap (mp : List (Str × Int)) (s : Str) : Option Int :=
  match mp.find? (fun p => p.1 == s) with
  | some p => some p.2
  | none => none

/-- MappedMetricHeader.SetTag (the host tag value itself is not observable in the rows and is not kept) -/
def Hdr.setTag (h : Hdr) (index : Int) (i : Int) (s : Str) (tagIDKey : Int) : Hdr :=
  if index = hostTagIndex then
    { h with setTwice := if h.hkeySet then tagIDKey else h.setTwice, hkeySet := true }
  else
    { h with ktags := ktSet h.ktags index.toNat i s,
             setTwice := if h.isSet.contains index.toNat then tagIDKey else h.setTwice,
             isSet := index.toNat :: h.isSet }

/-- MapValidateTag, branch `tagMeta == nil || tagMeta.Index >= MaxTags` -/
def mapTagUnknown (h : Hdr) (t : TagIn) : Hdr × Bool :=
  match t.keyNorm with
  | none => ({ h with status := stErrMapTagNameEncoding, statusTagKey := 0, invalid := t.keyHex }, false)
  | some k => (if t.draft then { h with foundDraft := some k } else { h with notFound := some k }, true)

/-- the `switch` of mapAllTags for a valid value `v` of a known tag -/
def setValue (mp : List (Str × Int)) (h : Hdr) (t : TagIn) (idx key : Int) (v : Str) : Hdr :=
  if v = "-" then h.setTag idx 0 "-" key
  else if t.rawKind = 2 then
    match t.raw64 with
    | none => { h with invalidRaw := v, invalidRawKey := key }
    | some p => (h.setTag (idx + 1) p.2 "-" (key + 1)).setTag idx p.1 "-" key
  else if t.rawKind = 1 then
    match t.raw with
    | none => { h with invalidRaw := v, invalidRawKey := key }
    | some id => h.setTag idx id "-" key
  else
    match lookupMap mp v with
    | some id => h.setTag idx id "-" key
    | none => h.setTag idx 0 v key

/-- MapValidateTag for a known tag followed by the body of the mapAllTags loop -/
def mapTagKnown (mp : List (Str × Int)) (h : Hdr) (t : TagIn) (idx : Int) : Hdr × Bool :=
  let key := idx + tagIDShift
  let h1 := if t.legacy then { h with legacyKey := key } else h
  match t.valNorm with
  | none => ({ h1 with status := stErrMapTagValueEncoding, statusTagKey := key, invalid := t.valHex }, false)
  | some v =>
    if t.corrupted then ({ h1 with status := stErrMapTagValueCorrupted, statusTagKey := key, invalid := v }, false)
    else (setValue mp h1 t idx key v, true)

def tagKnown (t : TagIn) : Bool :=
  match t.metaIdx with
  | some idx => decide (idx < (maxTags : Int))
  | none => false

/-- one iteration of mapAllTags: new header and "continue with the next tag" -/
def mapTag (mp : List (Str × Int)) (h : Hdr) (t : TagIn) : Hdr × Bool :=
  match t.metaIdx with
  | some idx => if idx < (maxTags : Int) then mapTagKnown mp h t idx else mapTagUnknown h t
  | none => mapTagUnknown h t

def mapAllTags (mp : List (Str × Int)) : Hdr → List TagIn → Hdr
  | h, [] => h
  | h, t :: ts => if (mapTag mp h t).2 then mapAllTags mp (mapTag mp h t).1 ts else (mapTag mp h t).1

/-- Agent.Map -/
def mapEvent (mp : List (Str × Int)) (e : Event) : Hdr :=
  let h := mapAllTags mp {} e.tags
  if h.status ≠ 0 then h else { h with status := validateMetricData e }

/-- Agent.MapEnvironment: only the first tag named "0" is looked at -/
def mapEnvironment (mp : List (Str × Int)) (h : Hdr) : List TagIn → Hdr
  | [] => h
  | t :: ts =>
    if t.isEnv then
      match t.valNorm with
      | none => h
      | some v =>
        if v = "-" then h
        else match lookupMap mp v with
          | some id => { h with ktags := ktSet h.ktags 0 id (ktGetS h.ktags 0) }
          | none => { h with ktags := ktSet h.ktags 0 (ktGetI h.ktags 0) v }
    else mapEnvironment mp h ts

/-- header as worker.HandleMetrics leaves it before ApplyMetric -/
def header (mp : List (Str × Int)) (e : Event) : Hdr :=
  if e.pre = 0 then mapEvent mp e
  else mapEnvironment mp { status := e.pre, invalid := e.invalid } e.tags

/-! ## configuration, sharding -/

structure Metric where
  id : Int
  res : Nat          -- EffectiveResolution
  pct : Bool         -- HasPercentiles
  strategy : Nat     -- 0/3 fixed_shard, 1 by metric id, other: no agent-side strategy
  shardNum : Nat
  fixedKey : Nat     -- ShardFixedKey
  shard2Key : Nat    -- ShardFixedKey2
  shard2Ts : Nat     -- ShardFixedKey2Timestamp
deriving DecidableEq, Repr

structure Cfg where
  nShards : Nat
  now : Nat          -- Shard.CurrentTime of every shard and the receive time
  mapping : List (Str × Int)
  metric : Metric
  /-- agent Config.LegacyApplyValues (--legacy-apply-values): Shard.ApplyValues calls MultiValue.ApplyValuesLegacy -/
  legacy : Bool := false
deriving DecidableEq, Repr

/-- sharding.Shard -/
def shardingShard (cfg : Cfg) : Nat × Bool :=
  if cfg.metric.fixedKey > 0 then (cfg.metric.fixedKey - 1, true)
  else if cfg.metric.strategy = 0 ∨ cfg.metric.strategy = 3 then (cfg.metric.shardNum, true)
  else if cfg.metric.strategy = 1 then (cfg.metric.id.toNat % cfg.nShards, true)
  else (0, false)

def shardOk (cfg : Cfg) : Bool := (shardingShard cfg).2 && decide ((shardingShard cfg).1 < cfg.nShards)
def shard1 (cfg : Cfg) : Nat := if shardOk cfg then (shardingShard cfg).1 else 0
/-- second shard of Agent.shard -/
def shard2 (cfg : Cfg) : Option Nat :=
  if cfg.metric.shard2Key > 0 ∧ cfg.metric.shard2Key - 1 < cfg.nShards ∧ cfg.metric.shard2Key - 1 ≠ shard1 cfg
  then some (cfg.metric.shard2Key - 1) else none

/-! ## rows -/

/-- observable part of a MultiValue -/
structure MV where
  cnt : Rat := 0
  set : Bool := false
  min : Rat := 0
  max : Rat := 0
  sum : Rat := 0
  sq : Rat := 0
  uniq : List Int := []
  td : Bool := false
deriving DecidableEq, Repr

structure Item where
  shard : Nat
  metric : Int
  ts : Nat
  ktags : KeyTags
  tail : MV := {}
  top : List (Int × Str × MV) := []
deriving DecidableEq, Repr

abbrev Store := List Item

def Item.sameKey (it : Item) (shard : Nat) (metric : Int) (ts : Nat) (kt : KeyTags) : Bool :=
  it.shard == shard && it.metric == metric && it.ts == ts && it.ktags == kt

def topEmpty (t : Int × Str) : Bool := t.1 == 0 && t.2 == "-"
/-- TagUnion.Normalize -/
def normTop (t : Int × Str) : Int × Str := if t.1 != 0 then (t.1, "-") else t

def updTop (f : MV → MV) (t : Int × Str) : List (Int × Str × MV) → List (Int × Str × MV)
  | [] => [(t.1, t.2, f {})]
  | p :: r => if p.1 == t.1 && p.2.1 == t.2 then (p.1, p.2.1, f p.2.2) :: r else p :: updTop f t r

/-- MapStringTop (below capacity, sample factor 0) followed by an update of the chosen MultiValue -/
def Item.upd (it : Item) (t : Int × Str) (f : MV → MV) : Item :=
  if topEmpty t then { it with tail := f it.tail } else { it with top := updTop f (normTop t) it.top }

/-- GetOrCreateMultiItem + MapStringTop + update -/
def storeUpd (shard : Nat) (metric : Int) (ts : Nat) (kt : KeyTags) (t : Int × Str) (f : MV → MV) : Store → Store
  | [] => [({ shard := shard, metric := metric, ts := ts, ktags := kt } : Item).upd t f]
  | it :: r => if it.sameKey shard metric ts kt then it.upd t f :: r else it :: storeUpd shard metric ts kt t f r

/-! ## aggregates (bucket.go) -/

/-- ItemCounter.AddCounterHost / ItemCounter.Merge, counter part -/
def addCount (c : Rat) (mv : MV) : MV :=
  if c ≤ 0 then mv else if mv.cnt ≤ 0 then { mv with cnt := c } else { mv with cnt := mv.cnt + c }

/-- ItemValue.addOnlyValue -/
def addOnly (mv : MV) (v w : Rat) : MV :=
  { mv with sum := mv.sum + v * w, sq := mv.sq + v * v * w,
            min := if !mv.set || v < mv.min then v else mv.min,
            max := if !mv.set || mv.max < v then v else mv.max,
            set := true }

/-- `tmp` of MultiValue.ApplyValues / ApplyUnique before scaling -/
def tmpOf (count : Rat) (vals : List (Rat × Rat)) : MV :=
  vals.foldl (fun a p => addOnly a p.1 p.2) { cnt := count }

/-- `if count != totalCount { sum *= count; sum /= totalCount … }` -/
def scale (count total : Rat) (t : MV) : MV :=
  if count ≠ total then { t with sum := t.sum * count / total, sq := t.sq * count / total } else t

/-- ItemValue.Merge -/
def mvMerge (s o : MV) : MV :=
  let s1 := addCount o.cnt s
  if !o.set then s1 else
  { s1 with sum := s1.sum + o.sum, sq := s1.sq + o.sq,
            min := if !s1.set || o.min < s1.min then o.min else s1.min,
            max := if !s1.set || s1.max < o.max then o.max else s1.max,
            set := true }

/-- MultiValue.ApplyValues (TDigest: only its existence) -/
def mvApplyValues (pct : Bool) (vals : List (Rat × Rat)) (count total : Rat) (mv : MV) : MV :=
  if total ≤ 0 then mv else
  let m := mvMerge mv (scale count total (tmpOf count vals))
  if pct && m.min != m.max then { m with td := true } else m

/-- MultiValue.ApplyValuesLegacy: the same temporary aggregate (counter `count`, values scaled by count/total) merged
    into the row; the TDigest is created up front whenever the metric has percentiles -/
def mvApplyValuesLegacy (pct : Bool) (vals : List (Rat × Rat)) (count total : Rat) (mv : MV) : MV :=
  if total ≤ 0 then mv else
  let m := mvMerge mv (scale count total (tmpOf count vals))
  if pct then { m with td := true } else m

/-- `if s.config.LegacyApplyValues { mv.ApplyValuesLegacy(…) } else { mv.ApplyValues(…) }` -/
def valuesFn (legacy pct : Bool) (vals : List (Rat × Rat)) (count total : Rat) (mv : MV) : MV :=
  if legacy then mvApplyValuesLegacy pct vals count total mv else mvApplyValues pct vals count total mv

def insertUniq (l : List Int) (x : Int) : List Int := if l.contains x then l else x :: l

/-- MultiValue.ApplyUnique -/
def mvApplyUnique (hashes : List Int) (count : Rat) (mv : MV) : MV :=
  if hashes.length = 0 then mv else
  let m := mvMerge mv (scale count (hashes.length : Rat) (tmpOf count (hashes.map (fun (h : Int) => ((h : Rat), (1 : Rat))))))
  { m with uniq := hashes.foldl insertUniq mv.uniq }

/-! ## shard operations (agent_shard.go) -/

/-- timestamp part of resolutionShardFromHashLocked: (key timestamp, clampedFuture) -/
def resolveTs (now res ts : Nat) : Nat × Bool :=
  let t0 := if ts = 0 then now else ts
  let c := decide (now + futureSlots < t0)
  let t1 := if c then now + futureSlots else t0
  (if res = 1 then t1 else (t1 / res) * res, c)

def tagsOfList : Nat → List Int → KeyTags
  | _, [] => []
  | i, v :: r => if v == 0 then tagsOfList (i + 1) r else (i, v, "-") :: tagsOfList (i + 1) r

/-- top value of AddCounterHostStringBytesSrcIngestionStatus -/
def statusTop (mp : List (Str × Int)) (str : Str) : Int × Str :=
  if str = "-" then (0, "-") else
  match lookupMap mp str with
  | some id => (id, "-")
  | none => (0, str)

/-- AddCounterHostSrcIngestionStatus / AddCounterHostStringBytesSrcIngestionStatus with count 1 -/
def addStatus (cfg : Cfg) (st : Store) (shard : Nat) (metricID : Int) (res : Nat) (t : Nat) (tags : List Int) (str : Str) (drop : Nat) : Store :=
  let ts := (resolveTs cfg.now res t).1
  if ts < drop then st
  else storeUpd shard metricID ts (tagsOfList 0 tags) (statusTop cfg.mapping str) (addCount 1) st

/-- the event's key as ApplyMetric hands it to the shards (`&h.Key`, mutated in place by the shard) -/
structure EvKey where
  metric : Int
  ts : Nat
  ktags : KeyTags
deriving DecidableEq, Repr

/-- Key.RemoveStringTopTag -/
def EvKey.top (k : EvKey) : Int × Str := (ktGetI k.ktags stringTopTagIndexV3, ktGetS k.ktags stringTopTagIndexV3)
def EvKey.noTop (k : EvKey) : KeyTags := k.ktags.filter (fun p => p.1 != stringTopTagIndexV3)

def clampedTags (k : EvKey) : List Int := [ktGetI k.ktags 0, k.metric, stWarnTimestampClampedFuture, 0, componentAgent]

/-- common tail of Shard.ApplyUnique/ApplyValues/ApplyCounter once `count > 0` is known -/
def shardApply (cfg : Cfg) (st : Store) (k : EvKey) (shard drop : Nat) (f : MV → MV) : Store × EvKey :=
  let r := resolveTs cfg.now cfg.metric.res k.ts
  let k' : EvKey := { k with ts := r.1, ktags := k.noTop }
  if r.1 < drop then (st, k') else
  let st1 := storeUpd shard k.metric r.1 k.noTop k.top f st
  (if r.2 then addStatus cfg st1 shard statusMetricID statusMetricRes r.1 (clampedTags k') "-" drop else st1, k')

def histTotal (values : List XR) (hist : List (XR × XR)) : Rat :=
  hist.foldl (fun a p => a + p.2.toRat) (values.length : Rat)

def valuePairs (values : List XR) (hist : List (XR × XR)) : List (Rat × Rat) :=
  values.map (fun v => (v.toRat, (1 : Rat))) ++ hist.map (fun p => (p.1.toRat, p.2.toRat))

/-- effective count: `if count == 0 { count = totalCount }` -/
def effCount (counter total : Rat) : Rat := if counter = 0 then total else counter

inductive Effect where
  /-- one ingestion-status record: AddCounterHost[StringBytes]SrcIngestionStatus(0, meta, tags, str, 1, drop) on `shard` -/
  | status (shard : Nat) (metricID : Int) (res : Nat) (tags : List Int) (str : Str) (drop : Nat)
  | counter (shard drop : Nat) (count : XR)
  | values (shard drop : Nat) (hist : List (XR × XR)) (values : List XR) (count : XR)
  | unique (shard drop : Nat) (hashes : List Int) (count : XR)
deriving DecidableEq, Repr

def runEffect (cfg : Cfg) (s : Store × EvKey) : Effect → Store × EvKey
  | .status shard mid res tags str drop => (addStatus cfg s.1 shard mid res 0 tags str drop, s.2)
  | .counter shard drop c =>
    if c.toRat ≤ 0 then s else shardApply cfg s.1 s.2 shard drop (addCount c.toRat)
  | .values shard drop hist values c =>
    let total := histTotal values hist
    let count := effCount c.toRat total
    if count ≤ 0 then s
    else shardApply cfg s.1 s.2 shard drop (valuesFn cfg.legacy cfg.metric.pct (valuePairs values hist) count total)
  | .unique shard drop hashes c =>
    let count := effCount c.toRat (hashes.length : Rat)
    if count ≤ 0 then s
    else shardApply cfg s.1 s.2 shard drop (mvApplyUnique hashes count)

/-! ## Agent.ApplyMetric -/

/-- `f shard 0` and, when the metric has a second shard, `f shard2 dropIfBeforeTimestamp` -/
def both (cfg : Cfg) (f : Nat → Nat → Effect) : List Effect :=
  match shard2 cfg with
  | some s2 => [f (shard1 cfg) 0, f s2 cfg.metric.shard2Ts]
  | none => [f (shard1 cfg) 0]

def stTags (env metric code tagKey : Int) : List Int := [env, metric, code, tagKey, componentAgent]

def statusBoth (cfg : Cfg) (env metric code tagKey : Int) (str : Str) : List Effect :=
  both cfg (fun sh drop => .status sh statusMetricID statusMetricRes (stTags env metric code tagKey) str drop)

def warnings (cfg : Cfg) (h : Hdr) (env metric : Int) : List Effect :=
  (match h.notFound with
    | some s => statusBoth cfg env metric stWarnMapTagNameNotFound 0 s
    | none => []) ++
  (match h.foundDraft with
    | some s => statusBoth cfg env metric stWarnMapTagNameFoundDraft 0 s
    | none => []) ++
  (if h.setTwice ≠ 0 then statusBoth cfg env metric stWarnMapTagSetTwice h.setTwice "-" else []) ++
  (if h.invalidRawKey ≠ 0 then statusBoth cfg env metric stWarnMapInvalidRawTagValue h.invalidRawKey h.invalidRaw else []) ++
  (if h.legacyKey ≠ 0 then statusBoth cfg env metric stWarnDeprecatedKeyName h.legacyKey "-" else [])

def payload (cfg : Cfg) (e : Event) : List Effect :=
  if e.uniq.length ≠ 0 then both cfg (fun sh drop => .unique sh drop e.uniq e.counter)
  else if e.hist.length + e.values.length ≠ 0 then both cfg (fun sh drop => .values sh drop e.hist e.values e.counter)
  else both cfg (fun sh drop => .counter sh drop e.counter)

/-- metric id in h.Key.Metric -/
def keyMetric (cfg : Cfg) (e : Event) : Int := if e.hasMeta then cfg.metric.id else 0

/-- everything ApplyMetric does for a mapped event, as a list of shard calls in program order -/
def effects (cfg : Cfg) (e : Event) (h : Hdr) : List Effect :=
  let env := ktGetI h.ktags 0
  let metric := keyMetric cfg e
  if !e.hasMeta then
    [.status 0 noShardMetricID noShardMetricRes [env, metric, h.status, h.statusTagKey] h.invalid 0]
  else if !shardOk cfg then
    [.status 0 noShardMetricID noShardMetricRes [env, metric, stErrShardingFailed, 0] "-" 0]
  else if h.status ≠ 0 then
    statusBoth cfg env metric h.status h.statusTagKey h.invalid
  else
    statusBoth cfg env metric stOKCached h.statusTagKey "-" ++ warnings cfg h env metric ++ payload cfg e

/-- worker.fillTime -/
def eventTs (cfg : Cfg) (e : Event) : Nat := if e.ts ≠ 0 then e.ts else cfg.now

/-- one event through Map/MapEnvironment and ApplyMetric -/
def applyEvent (cfg : Cfg) (st : Store) (e : Event) : Store :=
  let h := header cfg.mapping e
  let k : EvKey := { metric := keyMetric cfg e, ts := eventTs cfg e, ktags := h.ktags }
  ((effects cfg e h).foldl (runEffect cfg) (st, k)).1

/-- the verdict of ingestion for an event: 0 = accepted, otherwise the status naming the reason -/
def verdict (cfg : Cfg) (e : Event) : Int :=
  if !e.hasMeta then (header cfg.mapping e).status
  else if !shardOk cfg then stErrShardingFailed
  else (header cfg.mapping e).status

/-! ## sharding by tags hash

`sharding.Shard` with `ShardByTagsHash` (strategy 4 here) returns `(shardByMappedTags(xxh3(key), n), true)`: apart from
where the number comes from, ApplyMetric then behaves exactly as for a fixed shard with that number. The hash is an
input (`Event.hashShard`, observed by the harness with the real `sharding.Shard` on the mapped key). -/

/-- the configuration ApplyMetric effectively works with for event `e` -/
def effCfg (cfg : Cfg) (e : Event) : Cfg :=
  if cfg.metric.strategy = 4 ∧ cfg.metric.fixedKey = 0
  then { cfg with metric := { cfg.metric with strategy := 0, shardNum := e.hashShard } }
  else cfg

/-- one event, all sharding strategies -/
def applyEventH (cfg : Cfg) (st : Store) (e : Event) : Store := applyEvent (effCfg cfg e) st e

def verdictH (cfg : Cfg) (e : Event) : Int := verdict (effCfg cfg e) e

end SH.Ingest
