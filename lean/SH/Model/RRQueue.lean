/-
  SH.Model.RRQueue — model of internal/util/queue/round_robin_queue.go (property C29, first half).

  All state of the real `Queue` lives under `q.mx`; one model step is one critical section.
  `waitingUsersByPriority` (an LLRB keyed by `order`) is a list of users; `DeleteMin` is `minUser`.
  Blocked `Acquire` calls are query ids parked in their user's list; a grant is `close(ch)`.

  `Variant.loop` is the code after the `fix:` commit (nextQueryLocked grants while active < max and is
  also called from AdjustCapacity). `Variant.eqOnce` is the code before it (`if active == max return`,
  one grant, AdjustCapacity wakes nobody); it is kept so that Props/C29 can exhibit the old defect.
-/
namespace SH.RRQueue

structure User where
  token : Nat
  order : Nat
  qs : List Nat          -- waiting query ids of this user, front first (never empty while stored)
deriving DecidableEq, Repr

structure Q where
  active : Int
  cap : Int
  order : Nat            -- globalOrder
  users : List User      -- waiting users
  /-- ghost (history variable, not in the Go code): `(v, u)` = user `u` was granted a query while user `v`
      has been waiting without being granted since -/
  passed : List (Nat × Nat) := []
  /-- ghost: set by a grant to `u` made while some other user `v` with `(v, u) ∈ passed` is still waiting,
      i.e. `u` is granted twice while `v`, already waiting at the first grant, is still waiting -/
  bad : Bool := false
deriving DecidableEq, Repr

inductive Variant | loop | eqOnce
deriving DecidableEq, Repr

def init (cap : Int) : Q := { active := 0, cap := cap, order := 0, users := [] }

/-- ghost bookkeeping for a grant to user `t` made in state `s` (users = who is waiting at that moment) -/
def overtakes (s : Q) (t : Nat) : Bool :=
  s.users.any (fun v => v.token != t && s.passed.contains (v.token, t))

def passedAfter (s : Q) (t : Nat) : List (Nat × Nat) :=
  s.passed.filter (fun p => p.1 != t) ++ (s.users.filter (fun v => v.token != t)).map (fun v => (v.token, t))

def noteGrant (s : Q) (t : Nat) : Q :=
  { s with bad := s.bad || overtakes s t, passed := passedAfter s t }

/-- user with the least `order` (LLRB.DeleteMin) -/
def minUser : List User → Option User
  | [] => none
  | u :: us =>
    match minUser us with
    | none => some u
    | some m => if u.order ≤ m.order then some u else some m

def removeUser (tok : Nat) (us : List User) : List User := us.filter (fun u => u.token ≠ tok)

def waitingCount (s : Q) : Nat := (s.users.map (·.qs.length)).sum

/-- body of `nextQueryLocked` after its capacity test: pop the min user, grant its front query -/
def grantOne (s : Q) : Option (Q × Nat) :=
  match minUser s.users with
  | none => none
  | some u =>
    match u.qs with
    | [] => none
    | q :: rest =>
      let others := removeUser u.token s.users
      let users' := if rest.isEmpty then others else { u with order := s.order, qs := rest } :: others
      some ({ noteGrant s u.token with active := s.active + 1, order := s.order + 1, users := users' }, q)

/-- `for q.activeQuery < q.maxActiveQuery { … }` — fuel bounds the number of grants -/
def drain : Nat → Q → Q × List Nat
  | 0, s => (s, [])
  | fuel + 1, s =>
    if s.active < s.cap then
      match grantOne s with
      | none => (s, [])
      | some (s', q) =>
        let (s'', gs) := drain fuel s'
        (s'', q :: gs)
    else (s, [])

/-- the pre-fix `nextQueryLocked`: returns only when active == max, grants at most one -/
def nextEqOnce (s : Q) : Q × List Nat :=
  if s.active = s.cap then (s, [])
  else match grantOne s with
    | none => (s, [])
    | some (s', q) => (s', [q])

def next (v : Variant) (s : Q) : Q × List Nat :=
  match v with
  | .loop => drain (waitingCount s) s
  | .eqOnce => nextEqOnce s

inductive Op
  | acquire (tok q : Nat)
  | cancel (q : Nat)
  | release
  | adjust (cap : Int)
deriving DecidableEq, Repr

def hasUser (tok : Nat) (us : List User) : Bool := us.any (fun u => u.token = tok)

def pushQuery (tok q : Nat) (us : List User) : List User :=
  us.map (fun u => if u.token = tok then { u with qs := u.qs ++ [q] } else u)

def dropQuery (q : Nat) (us : List User) : List User :=
  (us.map (fun u => { u with qs := u.qs.filter (· ≠ q) })).filter (fun u => !u.qs.isEmpty)

def isWaiting (q : Nat) (us : List User) : Bool := us.any (fun u => u.qs.contains q)

/-- one critical section; returns the new state and the query ids granted by it -/
def step (v : Variant) (s : Q) : Op → Q × List Nat
  | .acquire tok q =>
    if hasUser tok s.users then
      next v { s with users := pushQuery tok q s.users }
    else
      let s1 := { s with order := s.order + 1 }
      if s1.active < s1.cap then
        ({ noteGrant s1 tok with active := s1.active + 1 }, [q])      -- fast path
      else
        next v { s1 with users := { token := tok, order := s.order, qs := [q] } :: s1.users,
                         passed := s1.passed.filter (fun p => p.1 != tok) }
  | .cancel q =>
    -- ctx.Done fired; a query that was already granted keeps its slot (isClosed branch)
    ({ s with users := dropQuery q s.users }, [])
  | .release => next v { s with active := s.active - 1 }
  | .adjust c =>
    match v with
    | .loop => next v { s with cap := c }
    | .eqOnce => ({ s with cap := c }, [])

def run (v : Variant) (s : Q) : List Op → Q × List (List Nat)
  | [] => (s, [])
  | op :: ops =>
    let (s', g) := step v s op
    let (s'', gs) := run v s' ops
    (s'', g :: gs)

end SH.RRQueue
