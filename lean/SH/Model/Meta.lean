/-
  SH.Model.Meta — executable model of the metadata service's durable state (internal/metadata):
  entities (`metrics_v5`), their history (`entity_history`), tag mappings (`mappings`), flood limits
  (`flood_limits`), the bootstrap blob and the two AUTOINCREMENT high-water marks.  Core Lean only.

  Modelled functions (one model step = one `eng.Do` callback = one SQLite savepoint on the single RW connection):
    dbv2.go          SaveEntity, JournalEvents, GetEntityVersioned, GetHistoryShort, GetMappingByValue, GetMappingByID,
                     GetNewMappings, ResetFlood (incl. `getFreeCount`, which reads the literal metric "abc2"),
                     deleteMappingsByIdBatched, PutMapping, calcBudget, roundTime
    rules.go         resolveEntity = checkNamespace ; resolveNamespace ; checkCreateEntity
    binlog_event.go  getOrCreateMapping, putMapping, insertHistory
  SQLite itself is trusted and appears as: PRIMARY KEY / UNIQUE constraints = explicit `conflict` checks that make the
  statement fail, AUTOINCREMENT = `seq + 1` with `seq` never lowered, `INSERT OR REPLACE` = delete the rows that
  conflict on any unique column, then insert.

  Tokens.  Strings of the real system are opaque to the model: an entity name is a pair `⟨ns, loc⟩` rendered by
  the harness as "w<ns>:w<loc>" (ns > 0) or "w<loc>" (ns = 0), so that `format.SplitNamespace` of the rendered
  string is the rendering of `⟨0, ns⟩`; data, metadata, mapping keys and metric names are natural numbers
  (metric 0 is rendered "abc2", the name `getFreeCount` hard-codes).
-/
import SH.Model.Core

namespace SH.Meta

/-! ### configuration and rows -/

structure Cfg where
  maxBudget : Int
  step : Nat
  bonus : Int
  globalBudget : Int
deriving DecidableEq, Repr

structure Name where
  ns : Nat
  loc : Nat
deriving DecidableEq, Repr

/-- format.MetricEvent … format.NamespaceEvent -/
def tMetric : Nat := 0
def tDashboard : Nat := 1
def tGroup : Nat := 2
def tProm : Nat := 3
def tNamespace : Nat := 4

/-- a row of `metrics_v5` -/
structure Entity where
  id : Int
  name : Name
  nsId : Int
  version : Nat
  updatedAt : Nat
  deletedAt : Nat
  data : Nat
  dataLen : Nat
  typ : Nat
deriving DecidableEq, Repr

/-- `tlmetadata.Event` as returned by SaveEntity, and (the same fields) a row of `entity_history` -/
structure Event where
  id : Int
  name : Name
  nsId : Int
  version : Nat
  updatedAt : Nat
  deletedAt : Nat
  data : Nat
  dataLen : Nat
  typ : Nat
  mdata : Nat
deriving DecidableEq, Repr

/-- a row of `flood_limits` -/
structure Flood where
  metric : Nat
  last : Nat
  free : Int
deriving DecidableEq, Repr

structure State where
  ents : List Entity            -- kept sorted by id (the order SQLite scans the table in)
  entSeq : Nat                  -- sqlite_sequence(metrics_v5)
  hist : List Event             -- in insertion order
  maps : List (Int × Nat)       -- (id, key)
  mapSeq : Nat                  -- sqlite_sequence(mappings)
  flood : List Flood
  lastCreated : Int             -- DBV2.lastMappingIDToInsert (volatile)
  bootstrap : Option (List (Nat × Int))   -- property.bootstrap; only written by binlog replay (C16)
deriving DecidableEq, Repr

def State.empty : State :=
  { ents := [], entSeq := 0, hist := [], maps := [], mapSeq := 0, flood := [], lastCreated := 0, bootstrap := none }

def two32 : Nat := 4294967296

/-! ### entities: SaveEntity -/

structure SaveReq where
  name : Name
  id : Int
  oldVersion : Nat
  data : Nat
  dataLen : Nat
  create : Bool
  deleteTime : Nat
  typ : Nat
  mdata : Nat
  now : Nat
deriving DecidableEq, Repr

inductive Err where
  | nsMissing        -- errNamespaceNotExists
  | renameNs         -- "can't rename namespace"
  | exists           -- errMetricIsExist
  | invalidVersion   -- errInvalidMetricVersion
  | constraint       -- SQLite UNIQUE constraint failed
deriving DecidableEq, Repr

inductive SaveOut where
  | ok (ev : Event) (created : Bool)
  | err (e : Err)
deriving DecidableEq, Repr

def maxVer (ents : List Entity) : Nat := ents.foldr (fun e m => max e.version m) 0

/-- `SELECT … WHERE id = $id` (id is the primary key) -/
def rowOf (ents : List Entity) (id : Int) : Option Entity := ents.find? (fun e => e.id == id)

/-- loadNamespaceName: `WHERE type = namespace AND id = $id AND version = $version` -/
def nsRow (ents : List Entity) (id : Int) (v : Nat) : Option Entity :=
  ents.find? (fun e => e.typ == tNamespace && e.id == id && e.version == v)

/-- resolveNamespace: `SELECT id WHERE type = namespace AND name = $namespaceName` (first row in id order) -/
def nsLookup (ents : List Entity) (k : Nat) : Option Entity :=
  ents.find? (fun e => e.typ == tNamespace && e.name == (⟨0, k⟩ : Name))

/-- checkCreateEntity: `SELECT id WHERE type = $type AND name = $name` has a row -/
def nameTaken (ents : List Entity) (typ : Nat) (name : Name) : Bool :=
  ents.any (fun e => e.typ == typ && e.name == name)

/-- UNIQUE (namespace_id, type, name) would be violated by a row `selfId` carrying this triple -/
def conflict (ents : List Entity) (selfId : Int) (nsId : Int) (typ : Nat) (name : Name) : Bool :=
  ents.any (fun e => e.id != selfId && e.nsId == nsId && e.typ == typ && e.name == name)

def isNsEdit (a : SaveReq) : Bool := a.typ == tNamespace && !a.create

/-- rules.go checkNamespace -/
def checkNamespace (s : State) (a : SaveReq) : Option Err :=
  if isNsEdit a then
    match nsRow s.ents a.id a.oldVersion with
    | none => some .nsMissing
    | some r => if r.name != a.name then some .renameNs else none
  else none

def needsNs (a : SaveReq) : Bool := (a.typ == tMetric || a.typ == tGroup) && a.name.ns != 0

/-- rules.go resolveNamespace -/
def resolveNs (s : State) (a : SaveReq) : Except Err Int :=
  if needsNs a then
    match nsLookup s.ents a.name.ns with
    | none => .error .nsMissing
    | some r => .ok r.id
  else .ok 0

def createBlocked (s : State) (a : SaveReq) : Bool := a.create && nameTaken s.ents a.typ a.name

/-- `createMetric` after the `id < 0` block of SaveEntity -/
def effCreate (s : State) (a : SaveReq) : Bool :=
  if a.id < 0 then (rowOf s.ents a.id).isNone else a.create

def mkEvent (a : SaveReq) (id : Int) (v : Nat) (nsId : Int) : Event :=
  { id := id, name := a.name, nsId := nsId, version := v, updatedAt := a.now % two32, deletedAt := a.deleteTime,
    data := a.data, dataLen := a.dataLen, typ := a.typ, mdata := a.mdata }

def insertById (e : Entity) : List Entity → List Entity
  | [] => [e]
  | x :: xs => if e.id < x.id then e :: x :: xs else x :: insertById e xs

/-- the UPDATE of SaveEntity: every column but `id` and `type` is overwritten -/
def editedRow (r : Entity) (a : SaveReq) (v : Nat) (nsId : Int) : Entity :=
  { r with version := v, data := a.data, dataLen := a.dataLen, updatedAt := a.now, name := a.name,
           deletedAt := a.deleteTime, nsId := nsId }

def replaceRow (r' : Entity) (ents : List Entity) : List Entity :=
  ents.map (fun e => if e.id == r'.id then r' else e)

/-- which SaveEntity is modelled:
    `Variant.old`     = the pinned tree;
    `Variant.untyped` = + fixes/C15-builtin-namespace-rename.diff (commit 36b353ab): a "create" of an existing builtin namespace
                        runs checkNamespace;
    `Variant.fixed`   = + fixes/C15-edit-type-mismatch (commit fb668983): the edit path selects the row by (id, version, TYPE), so a
                        request of a foreign type gets errInvalidMetricVersion. This is the current code. -/
inductive Variant where
  | old
  | untyped
  | fixed
deriving DecidableEq, Repr

/-- `AND type = $type` of the edit path's row selection (fb668983) -/
def typeMatches (var : Variant) (r : Entity) (a : SaveReq) : Bool :=
  match var with
  | .fixed => r.typ == a.typ
  | _ => true

def versionMatches (r : Entity) (a : SaveReq) : Bool := r.version == a.oldVersion

/-- `SELECT … WHERE version = $oldVersion AND id = $id AND type = $type` finds the row -/
def rowMatches (var : Variant) (r : Entity) (a : SaveReq) : Bool := versionMatches r a && typeMatches var r a

def saveEdit (var : Variant) (s : State) (a : SaveReq) (nsId : Int) : State × SaveOut :=
  match rowOf s.ents a.id with
  | none => (s, .err .invalidVersion)
  | some r =>
    if rowMatches var r a then
      if conflict s.ents r.id nsId r.typ a.name then (s, .err .constraint)
      else
        let v := maxVer s.ents + 1
        let ev := mkEvent a r.id v nsId
        ({ s with ents := replaceRow (editedRow r a v nsId) s.ents, hist := s.hist ++ [ev] }, .ok ev false)
    else (s, .err .invalidVersion)

def newId (s : State) (a : SaveReq) : Int := if a.id < 0 then a.id else ((s.entSeq + 1 : Nat) : Int)
def newSeq (s : State) (a : SaveReq) : Nat := if a.id < 0 then s.entSeq else s.entSeq + 1

def createdRow (a : SaveReq) (id : Int) (v : Nat) (nsId : Int) : Entity :=
  { id := id, name := a.name, nsId := nsId, version := v, updatedAt := a.now, deletedAt := a.deleteTime,
    data := a.data, dataLen := a.dataLen, typ := a.typ }

def saveCreate (s : State) (a : SaveReq) (nsId : Int) : State × SaveOut :=
  if conflict s.ents (newId s a) nsId a.typ a.name then (s, .err .constraint)
  else
    let v := maxVer s.ents + 1
    let ev := mkEvent a (newId s a) v nsId
    ({ s with ents := insertById (createdRow a (newId s a) v nsId) s.ents, entSeq := newSeq s a, hist := s.hist ++ [ev] },
     .ok ev true)

/-- the request reached the edit path although its create flag is set (only possible for an existing negative id) -/
def lateNsEdit (a : SaveReq) : Bool := a.typ == tNamespace && a.create

/-- the fix: checkNamespace(…, createEntity = false) inside the `id < 0` block when the row exists -/
def lateCheck (var : Variant) (s : State) (a : SaveReq) : Option Err :=
  match var with
  | .old => none
  | _ =>
    if lateNsEdit a then
      match nsRow s.ents a.id a.oldVersion with
      | none => some .nsMissing
      | some r => if r.name != a.name then some .renameNs else none
    else none

def saveResolved (var : Variant) (s : State) (a : SaveReq) (nsId : Int) : State × SaveOut :=
  if createBlocked s a then (s, .err .exists)
  else if effCreate s a then saveCreate s a nsId
  else
    match lateCheck var s a with
    | some e => (s, .err e)
    | none => saveEdit var s a nsId

/-- dbv2.go SaveEntity (one transaction) -/
def saveV (var : Variant) (s : State) (a : SaveReq) : State × SaveOut :=
  match checkNamespace s a with
  | some e => (s, .err e)
  | none =>
    match resolveNs s a with
    | .error e => (s, .err e)
    | .ok nsId => saveResolved var s a nsId

/-- the behaviour the theorems are about and the driver replays (the fixed code) -/
def save (s : State) (a : SaveReq) : State × SaveOut := saveV .fixed s a

/-! ### journal and history reads -/

def insertByVer (e : Entity) : List Entity → List Entity
  | [] => [e]
  | x :: xs => if e.version < x.version then e :: x :: xs else x :: insertByVer e xs

def sortByVer (l : List Entity) : List Entity := l.foldr insertByVer []

/-- `SELECT … FROM metrics_v5 WHERE version > $version ORDER BY version asc` -/
def journalRows (ents : List Entity) (since : Nat) : List Entity :=
  sortByVer (ents.filter (fun e => since < e.version))

def metricCountReadLimit : Int := 1000
def metricBytesReadLimit : Nat := 1024 * 1024

/-- the row loop of JournalEvents: append, then stop on the byte limit or on the count limit -/
def takeJournal (limit : Int) : Nat → Nat → List Entity → List Entity
  | _, _, [] => []
  | n, bytes, e :: rest =>
    let bytes' := bytes + e.dataLen + 20
    if metricBytesReadLimit < bytes' then [e]
    else if limit ≤ ((n + 1 : Nat) : Int) then [e]
    else e :: takeJournal limit (n + 1) bytes' rest

def journalLimit (page : Int) : Int := if page < metricCountReadLimit then page else metricCountReadLimit

def journal (s : State) (since : Nat) (page : Int) : List Entity :=
  takeJournal (journalLimit page) 0 0 (journalRows s.ents since)

/-- GetEntityVersioned -/
def getVersioned (s : State) (id : Int) (v : Nat) : Option Event :=
  s.hist.find? (fun h => h.id == id && h.version == v)

def insertEvDesc (e : Event) : List Event → List Event
  | [] => [e]
  | x :: xs => if x.version < e.version then e :: x :: xs else x :: insertEvDesc e xs

/-- GetHistoryShort (the 4 MB response cut-off is not modelled) -/
def historyShort (s : State) (id : Int) : List Event :=
  (s.hist.filter (fun h => h.id == id)).foldr insertEvDesc []

/-! ### journal long-poll (rpc_handler.go RawGetJournal / broadcastJournal) -/

/-- a parked `metadata.getJournalnew` request: which client (harness token) and its `From` -/
structure Waiter where
  client : Nat
  since : Nat
deriving DecidableEq, Repr

/-- the per-client trim of broadcastJournal: `for len(ev) != 0 && ev[0].Version <= args.From { ev = ev[1:] }` -/
def trimSeen (since : Nat) (page : List Entity) : List Entity := page.dropWhile (fun e => decide (e.version ≤ since))

def minSince : List Waiter → Nat
  | [] => 0
  | [w] => w.since
  | w :: ws => min w.since (minSince ws)

/-- `h.db.JournalEvents(ctx, minVersion, 100)` of broadcastJournal -/
def broadcastPage (s : State) (ws : List Waiter) : List Entity :=
  if ws.isEmpty then [] else journal s (minSince ws) 100

def answered (page : List Entity) (w : Waiter) : Bool := !(trimSeen w.since page).isEmpty

/-- broadcastJournal: (clients still parked, replies as (client, events)); every reply carries
    CurrentVersion = version of the last event of the page, which is also the last event of the reply -/
def broadcast (s : State) (ws : List Waiter) : List Waiter × List (Nat × List Entity) :=
  (ws.filter (fun w => !answered (broadcastPage s ws) w),
   (ws.filter (answered (broadcastPage s ws))).map (fun w => (w.client, trimSeen w.since (broadcastPage s ws))))

/-- RawGetJournal: an immediate reply when something newer than `From` exists (or the client set return-if-empty),
    otherwise the request is parked (both JournalEvents calls of the handler see the same state: one model step) -/
def subscribe (s : State) (ws : List Waiter) (client since : Nat) (limit : Int) (returnIfEmpty : Bool) :
    List Waiter × Option (List Entity) :=
  if !(journal s since limit).isEmpty then (ws, some (journal s since limit))
  else if returnIfEmpty then (ws, some [])
  else (ws ++ [{ client := client, since := since }], none)

/-! ### mappings and flood limits -/

def u32 (x : Nat) : Nat := x % two32

/-- dbv2.go roundTime -/
def roundTime (now : Nat) (step : Nat) : Nat := u32 now - u32 now % step

/-- unsigned 32-bit subtraction `now - last` -/
def subU32 (now last : Nat) : Nat := (u32 now + two32 - u32 last) % two32

def overMax (old max : Int) : Bool := max < old

/-- dbv2.go calcBudget -/
def calcBudget (old expense : Int) (last now : Nat) (max bonus : Int) (step : Nat) : Int :=
  if overMax old max then old - expense
  else
    let res := old - expense + ((subU32 now last / step : Nat) : Int) * bonus
    if max ≤ res then max - expense else res

def lookupKey (maps : List (Int × Nat)) (key : Nat) : Option Int :=
  (maps.find? (fun p => p.2 == key)).map (·.1)

def lookupId (maps : List (Int × Nat)) (id : Int) : Option Nat :=
  (maps.find? (fun p => p.1 == id)).map (·.2)

def lookupFlood (fl : List Flood) (m : Nat) : Option Flood := fl.find? (fun f => f.metric == m)

def setFlood (fl : List Flood) (f : Flood) : List Flood := f :: fl.filter (fun g => g.metric != f.metric)

inductive MapOut where
  | got (id : Int)
  | created (id : Int)
  | flood
deriving DecidableEq, Repr

/-- `skipFloodLimitModification` -/
def skipFlood (c : Cfg) (s : State) : Bool := 0 < s.lastCreated && s.lastCreated ≤ c.globalBudget

/-- `INSERT INTO mappings (name) VALUES ($name)` on an AUTOINCREMENT table, and the bookkeeping of the caller -/
def insertMapping (s : State) (key : Nat) (fl : List Flood) : State × MapOut :=
  let id : Int := ((s.mapSeq + 1 : Nat) : Int)
  ({ s with maps := (id, key) :: s.maps, mapSeq := s.mapSeq + 1, flood := fl, lastCreated := id }, .created id)

def budgetFor (c : Cfg) (s : State) (f : Flood) (pred : Nat) : Int :=
  if skipFlood c s then c.maxBudget else calcBudget f.free 1 (u32 f.last) pred c.maxBudget c.bonus c.step

def floodHit (c : Cfg) (s : State) (f : Flood) (pred : Nat) : Bool :=
  !skipFlood c s && budgetFor c s f pred < 0

def createMapping (c : Cfg) (s : State) (metric key now : Nat) : State × MapOut :=
  let pred := roundTime now c.step
  match lookupFlood s.flood metric with
  | some f =>
    if floodHit c s f pred then (s, .flood)
    else insertMapping s key (setFlood s.flood { metric := metric, last := pred, free := budgetFor c s f pred })
  | none => insertMapping s key (setFlood s.flood { metric := metric, last := pred, free := c.maxBudget - 1 })

/-- binlog_event.go getOrCreateMapping + the `lastMappingIDToInsert` update of DBV2.GetOrCreateMapping -/
def getOrCreate (c : Cfg) (s : State) (metric key now : Nat) : State × MapOut :=
  match lookupKey s.maps key with
  | some id => (s, .got id)
  | none => createMapping c s metric key now

/-- `INSERT OR REPLACE INTO mappings(id, name)`: rows conflicting on id or on name are deleted first -/
def putOne (s : State) (key : Nat) (id : Int) : State :=
  { s with maps := (id, key) :: s.maps.filter (fun p => p.1 != id && p.2 != key),
           mapSeq := if (s.mapSeq : Int) < id then id.toNat else s.mapSeq }

/-- binlog_event.go putMapping -/
def putMany (s : State) : List (Nat × Int) → State
  | [] => s
  | (k, v) :: rest => putMany (putOne s k v) rest

/-- dbv2.go deleteMappingsByIdBatched: (state, countBeforeDeletion) -/
def deleteIds (s : State) (ids : List Int) : State × Nat :=
  ({ s with maps := s.maps.filter (fun p => !ids.contains p.1) }, (s.maps.filter (fun p => ids.contains p.1)).length)

def maxResetLimit : Int := 10000

def resetAfter (c : Cfg) (limit : Int) : Int :=
  if limit ≤ 0 then c.maxBudget else if maxResetLimit < limit then maxResetLimit else limit

/-- getFreeCount reads the flood row of the literal metric "abc2" (token 0) -/
def freeCount (c : Cfg) (s : State) : Int :=
  match lookupFlood s.flood 0 with
  | some f => f.free
  | none => c.maxBudget

/-- dbv2.go ResetFlood: (state, before, after) -/
def resetFlood (c : Cfg) (s : State) (metric : Nat) (limit : Int) (now : Nat) : State × Int × Int :=
  if limit ≤ 0 then
    ({ s with flood := s.flood.filter (fun g => g.metric != metric) }, freeCount c s, resetAfter c limit)
  else
    ({ s with flood := setFlood s.flood { metric := metric, last := now, free := resetAfter c limit } },
     freeCount c s, resetAfter c limit)

def insertPairById (p : Int × Nat) : List (Int × Nat) → List (Int × Nat)
  | [] => [p]
  | x :: xs => if p.1 < x.1 then p :: x :: xs else x :: insertPairById p xs

def sortedMaps (s : State) : List (Int × Nat) := s.maps.foldr insertPairById []

def mappingCountReadLimit : Int := 50000

def takeCount (limit : Int) : Nat → List (Int × Nat) → List (Int × Nat)
  | _, [] => []
  | n, p :: rest => if limit ≤ ((n + 1 : Nat) : Int) then [p] else p :: takeCount limit (n + 1) rest

def maxMapId (s : State) : Int := (sortedMaps s).foldl (fun _ p => p.1) 0

/-- GetNewMappings without deletion candidates (the byte limit is not modelled: keys are short) -/
def newMappings (s : State) (fromId : Int) (page : Int) : List (Int × Nat) × Int :=
  let limit := if page < mappingCountReadLimit then page else mappingCountReadLimit
  (takeCount limit 0 ((sortedMaps s).filter (fun p => fromId < p.1)),
   if s.maps.isEmpty then 0 else maxMapId s)

/-! ### one operation of the service -/

inductive Op where
  | save (a : SaveReq)
  | getOrCreate (metric key now : Nat)
  | put (kvs : List (Nat × Int))
  | delete (ids : List Int)
  | reset (metric : Nat) (limit : Int) (now : Nat)
deriving DecidableEq, Repr

/-- state transition of the write operations (reads do not change the state) -/
def step (c : Cfg) (s : State) : Op → State
  | .save a => (save s a).1
  | .getOrCreate m k now => (getOrCreate c s m k now).1
  | .put kvs => putMany s kvs
  | .delete ids => (deleteIds s ids).1
  | .reset m l now => (resetFlood c s m l now).1

def run (c : Cfg) (s : State) (ops : List Op) : State := ops.foldl (step c) s

/-! ### restart -/

/-- Close + OpenDB on the same files: everything durable survives, `lastMappingIDToInsert` starts again from 0 (OpenDB does
    not restore it), so the next creation is NOT exempted by the global budget -/
def reopen (s : State) : State := { s with lastCreated := 0 }

/-- histories with restarts (kept apart from `Op`, which C16's replay model matches on exhaustively) -/
inductive HOp where
  | op (o : Op)
  | reopen
deriving DecidableEq, Repr

def hstep (c : Cfg) (s : State) : HOp → State
  | .op o => step c s o
  | .reopen => reopen s

def hrun (c : Cfg) (s : State) (ops : List HOp) : State := ops.foldl (hstep c) s

/-! ### rendering (shared by the C15/C19 drivers and, later, C16) -/

def showName (n : Name) : String := s!"{n.ns}:{n.loc}"

def showEntity (e : Entity) : String :=
  s!"{e.id}:{e.version}:{showName e.name}:{e.typ}:{e.nsId}:{e.updatedAt}:{e.deletedAt}:{e.data}/{e.dataLen}"

def showEvent (e : Event) : String :=
  s!"{e.id}:{e.version}:{showName e.name}:{e.typ}:{e.nsId}:{e.updatedAt}:{e.deletedAt}:{e.data}/{e.dataLen}:{e.mdata}"

def insertEvAsc (e : Event) : List Event → List Event
  | [] => [e]
  | x :: xs => if e.version < x.version || (e.version == x.version && e.id < x.id) then e :: x :: xs else x :: insertEvAsc e xs

def insertFlood (f : Flood) : List Flood → List Flood
  | [] => [f]
  | x :: xs => if f.metric < x.metric then f :: x :: xs else x :: insertFlood f xs

/-- canonical dump of the replay-relevant state: entities by id, history by version, mappings by id, flood limits
    by metric token, sequences and the volatile last-created id -/
def dump (s : State) : List String :=
  s.ents.map (fun e => "E " ++ showEntity e)
  ++ (s.hist.foldr insertEvAsc []).map (fun e => "H " ++ showEvent e)
  ++ (sortedMaps s).map (fun p => s!"M {p.1} {p.2}")
  ++ (s.flood.foldr insertFlood []).map (fun f => s!"F {f.metric} {f.last} {f.free}")
  ++ [s!"S {s.entSeq} {s.mapSeq} {s.lastCreated}"]

end SH.Meta
