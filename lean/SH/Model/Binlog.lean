/-
  SH.Model.Binlog — executable model of internal/vkgo/binlog/fsbinlog (property C18).

  Writer side  : `putLev`      = binlog.go `putLevToBuffer` + buffer_exchange.go `appendLevUnsafe/updatePos/rotateFile`
                 `iter`        = writer.go `loop` body (one iteration): `replaceBuff`, `writeBuffer`, `rotate`, fsync, `Commit`
                 `wsInit`      = binlog.go `setupWriterWorker` + `WriteLoop` prologue
  Reader side  : `scan`        = utils.go `ScanForFilesFromPos` / reader.go `readBinlogHeader`
                 `seek`        = reader.go `readAndUpdateCRCIfNeed`
                 `readStep`    = one iteration of the `for !finish` loop of reader.go `readUncompressedFile`
                 `readAll`     = reader.go `readAllFromPosition` (non-replica, no pid change)
  Engine       : the recording stub of the harness (framing: magic(4) len(4) body pad-to-4), `engApply`.

  Modelling decisions (also listed in checks/C18.py):
  * crc32 is a parameter `Cfg.upd` (theorems only use `upd c (a ++ b) = upd (upd c a) b`); the driver plugs in `crcUpdate`.
  * md5 file hashes and `time.Now()` are inputs of `putLev` (the harness passes the observed values).
  * the 64 KiB read buffer of the reader is idealised: one loop iteration sees the whole rest of the file, cut to a multiple of
    four bytes for `Engine.Apply` (`getAlignedBuffer`); `slack` = (file length - start) % 4 is constant because every consumption
    is a multiple of 4.
  * `appendLevUnsafe` pads by the buffer length; the buffer length is always a multiple of 4, so padding by the data length is
    the same function.
  * file names are not modelled (files are identified by the position in their header, as `ScanForFilesFromPos` sorts them).
  Core Lean only.
-/
namespace SH.Binlog

abbrev Bytes := List UInt8

/-! ### little endian, padding -/

def le32 (x : Nat) : Bytes :=
  [UInt8.ofNat (x % 256), UInt8.ofNat (x / 256 % 256), UInt8.ofNat (x / 65536 % 256), UInt8.ofNat (x / 16777216 % 256)]

def le64 (x : Nat) : Bytes := le32 (x % 4294967296) ++ le32 (x / 4294967296 % 4294967296)

def rd32 : Bytes → Nat
  | a :: b :: c :: d :: _ => a.toNat + 256 * b.toNat + 65536 * c.toNat + 16777216 * d.toNat
  | _ => 0

def rd64 (b : Bytes) : Nat := rd32 b + 4294967296 * rd32 (b.drop 4)

/-- uint64 bit pattern → int64 -/
def s64 (n : Nat) : Int := if n < 9223372036854775808 then (n : Int) else (n : Int) - 18446744073709551616

/-- int64 → uint64 bit pattern -/
def u64 (i : Int) : Nat := (i % 18446744073709551616).toNat

/-- `n ≤ b.length` without walking the whole list -/
def atLeast : Bytes → Nat → Bool
  | _, 0 => true
  | [], _ + 1 => false
  | _ :: t, n + 1 => atLeast t n

/-- fsbinlog.AddPadding -/
def pad4 (n : Nat) : Nat := (n + 3) / 4 * 4

def padded (b : Bytes) : Bytes := b ++ List.replicate (pad4 b.length - b.length) 0

/-! ### crc32 (IEEE), used by the driver only -/

def crcStepBit (c : UInt32) : UInt32 := if c &&& 1 = 1 then (c >>> 1) ^^^ 0xEDB88320 else c >>> 1

def crcTableEntry (i : Nat) : UInt32 :=
  crcStepBit (crcStepBit (crcStepBit (crcStepBit (crcStepBit (crcStepBit (crcStepBit (crcStepBit (UInt32.ofNat i))))))))

def crcTable : Array UInt32 := (Array.range 256).map crcTableEntry

def crcByte (c : UInt32) (b : UInt8) : UInt32 :=
  crcTable[((c ^^^ b.toUInt32) &&& 0xFF).toNat]! ^^^ (c >>> 8)

/-- hash/crc32.Update(c, IEEETable, b) -/
def crcUpdate (c : UInt32) (b : Bytes) : UInt32 := ~~~ (b.foldl crcByte (~~~ c))

/-! ### constants (lev_definitions.go, lev.go, binlog.go, gen/constants) -/

def magicCrc : Nat := 0x04435243
def magicRotFrom : Nat := 0x04724cd2
def magicRotTo : Nat := 0x04464c72
def magicTag : Nat := 0x04476154
def magicTimestamp : Nat := 0x04d931a8
def magicZip : Nat := 0x047a4c4b
def magicCfgValue : Nat := 0xe133cd0d
def magicCfgArray : Nat := 0xe375d4a8
def magicStart : Nat := 0x044c644b
def magicUpgrade : Nat := 0xb75009a0
def magicMeta : Nat := 0x6b49d850
def levCrcSize : Nat := 20
def levRotateSize : Nat := 36
def uncommittedMax : Nat := 52428800

def serviceMagics : List Nat :=
  [magicCrc, magicRotFrom, magicRotTo, magicTag, magicTimestamp, magicZip, magicCfgValue, magicCfgArray, magicStart, magicUpgrade]

structure Cfg where
  upd : UInt32 → Bytes → UInt32
  evMagic : Nat
  chunk : Nat       -- Options.MaxChunkSize
  crcEvery : Nat    -- writeCrcEveryBytes
  schema : Nat      -- Options.Magic

/-! ### record encoders (lev.go write*) -/

def encCrc (ts pos : Nat) (crc : UInt32) : Bytes :=
  le32 magicCrc ++ le32 ts ++ le64 pos ++ le32 crc.toNat

def encRotTo (ts nextPos : Nat) (crc : UInt32) (cur next : Nat) : Bytes :=
  le32 magicRotTo ++ le32 ts ++ le64 nextPos ++ le32 crc.toNat ++ le64 cur ++ le64 next

def encRotFrom (ts curPos : Nat) (crc : UInt32) (prev cur : Nat) : Bytes :=
  le32 magicRotFrom ++ le32 ts ++ le64 curPos ++ le32 crc.toNat ++ le64 prev ++ le64 cur

/-- the harness engine's event framing -/
def encEvent (magic : Nat) (body : Bytes) : Bytes := le32 magic ++ le32 body.length ++ body

/-- utils.go prepareSnapMeta -/
def encMeta (pos : Int) (crc : UInt32) (ts : Nat) : Bytes :=
  le32 magicMeta ++ le32 0 ++ le64 (u64 pos) ++ le32 crc.toNat ++ le32 ts

structure Meta where
  pos : Int
  crc : UInt32
  ts : Nat
deriving DecidableEq, Repr

/-- SnapshotMeta.ReadTL1Boxed (trailing bytes are ignored by the generated reader) -/
def decMeta (b : Bytes) : Option Meta :=
  if atLeast b 24 && rd32 b == magicMeta then
    some { pos := s64 (rd64 (b.drop 8)), crc := UInt32.ofNat (rd32 (b.drop 16)), ts := rd32 (b.drop 20) }
  else none

/-! ## Writer: putLevToBuffer -/

structure WS where
  crc : UInt32          -- buffEx.rd.crc
  offG : Nat            -- buffEx.rd.offsetGlobal
  offL : Nat            -- buffEx.rd.offsetLocal
  lastCrcPos : Nat      -- predict.lastPosForCrc
  fileStart : Nat       -- predict.fileStartPos
  firstFile : Bool      -- predict.firstFile
  curHash : Nat         -- predict.currFileHash
  buff : Bytes          -- buffEx.buff
  rotPos : List Nat     -- buffEx.rd.rotatePos
  asap : Bool           -- buffEx.rd.commitASAP
  lastTs : Nat          -- stat.lastTimestamp
  stopped : Bool        -- buffEx.finishAccept
  hb2 : Nat := 0        -- len(buffEx.hashBuff2): bytes of the first file kept for its md5 (only the length matters here)
deriving DecidableEq, Repr

def hashDataSize : Nat := 16384

/-- updatePos: `offsetLocal + len(p) > maxFileSize - hashDataSize` (signed) -/
def beyondHashBoundary (cfg : Cfg) (w : WS) (n : Nat) : Bool :=
  decide ((cfg.chunk : Int) - hashDataSize < (w.offL : Int) + n)

/-- appendLevUnsafe + updatePos -/
def appendLev (cfg : Cfg) (w : WS) (data : Bytes) : WS :=
  let p := padded data
  { w with buff := w.buff ++ p, crc := cfg.upd w.crc p, offL := w.offL + p.length, offG := w.offG + p.length,
           hb2 := if beyondHashBoundary cfg w p.length then w.hb2 + p.length else w.hb2 }

def needCrc (cfg : Cfg) (w : WS) : Bool := decide (cfg.crcEvery ≤ w.offG - w.lastCrcPos)

def needRotate (cfg : Cfg) (w : WS) : Bool := decide (cfg.chunk ≤ w.offG - w.fileStart)

def addCrc (cfg : Cfg) (w : WS) (ts : Nat) : WS :=
  let w1 := appendLev cfg w (encCrc ts w.offG w.crc)
  { w1 with lastCrcPos := w1.offG, lastTs := ts }

/-- the `Add Rotate Levs` block; `h1` = md5 of the first file (used only when `firstFile`), `h2` = calcNextLogHash -/
def addRotate (cfg : Cfg) (w : WS) (ts h1 h2 : Nat) : WS :=
  let nextPos := w.offG + levRotateSize
  let cur := if w.firstFile then h1 else w.curHash
  let w1 := appendLev cfg w (encRotTo ts nextPos w.crc cur h2)
  let w2 := { w1 with offL := 0, rotPos := w1.rotPos ++ [w1.buff.length] }      -- rotateFile
  let w3 := appendLev cfg w2 (encRotFrom ts nextPos w2.crc cur h2)
  { w3 with curHash := h2, fileStart := w3.offG - levRotateSize, firstFile := false }

inductive PutRes | ok | stopped | wrongOffset | panic
deriving DecidableEq, Repr

/-- the first-file md5 of the rotate block slices `hashBuff2[len(hashBuff2)-(hashDataSize-levRotateSize):]`; this is the
    condition under which that slice expression panics (state = after the event and the crc record were appended) -/
def hashSlicePanics (w : WS) : Bool :=
  w.firstFile && decide (2 * hashDataSize - levRotateSize ≤ w.offL) && decide (w.hb2 < hashDataSize - levRotateSize)

/-- the event and, if due, the crc record -/
def putCrc (cfg : Cfg) (w : WS) (body : Bytes) (ts : Nat) : WS :=
  let w1 := appendLev cfg w body
  if needCrc cfg w1 then addCrc cfg w1 ts else w1

def putBody (cfg : Cfg) (w : WS) (body : Bytes) (asap : Bool) (ts h1 h2 : Nat) : WS :=
  let w2 := putCrc cfg w body ts
  let w3 := if needRotate cfg w2 then addRotate cfg w2 ts h1 h2 else w2
  if asap then { w3 with asap := true } else w3

/-- putLevToBuffer; returns the new state, the result class and `nextPos` -/
def putLev (cfg : Cfg) (w : WS) (inOff : Int) (body : Bytes) (asap : Bool) (ts h1 h2 : Nat) : WS × PutRes × Nat :=
  if w.stopped then (w, .stopped, w.offG)
  else if inOff ≠ (w.offG : Int) then (w, .wrongOffset, w.offG)
  else
    let w2 := putCrc cfg w body ts
    if needRotate cfg w2 && hashSlicePanics w2 then (w2, .panic, w2.offG)
    else
      let w' := putBody cfg w body asap ts h1 h2
      (w', .ok, w'.offG)

/-! ## Writer loop and the file system it writes to -/

structure FileS where
  data : Bytes
  synced : Nat        -- length of the prefix of `data` that was covered by the last Sync on this file
deriving DecidableEq, Repr

structure Commit where
  off : Int
  crc : UInt32
  ts : Nat
deriving DecidableEq, Repr

structure LS where
  cur : FileS               -- bw.fp
  older : List FileS        -- rotated-away files, newest first
  lastFsync : Nat           -- lastFsyncPos
  dirty : Bool
  commits : List Commit     -- Engine.Commit calls, newest first
deriving DecidableEq, Repr

def FileS.write (f : FileS) (b : Bytes) : FileS := { f with data := f.data ++ b }
def FileS.sync (f : FileS) : FileS := { f with synced := f.data.length }

def slice (b : Bytes) (i j : Nat) : Bytes := (b.drop i).take (j - i)

/-- writer.go rotate: sync old, create new with ROTATE_FROM, sync new, ROTATE_TO into old, sync old, close old -/
def rotateFS (l : LS) (rotTo rotFrom : Bytes) : LS :=
  let old := l.cur.sync
  let new : FileS := { data := rotFrom, synced := rotFrom.length }
  let old2 := (old.write rotTo).sync
  { l with cur := new, older := old2 :: l.older }

/-- writer.go writeBuffer -/
def writeBuffer (l : LS) (buff : Bytes) : Nat → List Nat → LS
  | prev, [] => { l with cur := l.cur.write (buff.drop prev) }
  | prev, pos :: ps =>
    let to := pos - levRotateSize
    let l1 := { l with cur := l.cur.write (slice buff prev to) }
    let l2 := rotateFS l1 (slice buff to pos) (slice buff pos (pos + levRotateSize))
    writeBuffer l2 buff (pos + levRotateSize) ps

structure Sys where
  w : WS
  l : LS
deriving DecidableEq, Repr

/-- `bw.stat.lastTimestamp.Store(rotateFrom.Timestamp)` of every rotation of the batch, in order -/
def lastRotTs (buff : Bytes) : List Nat → Nat → Nat
  | [], d => d
  | pos :: ps, _ => lastRotTs buff ps (rd32 ((buff.drop pos).drop 4))

def mustSync (l : LS) (asap timer stop : Bool) (offG : Nat) : Bool :=
  l.dirty && (asap || timer || decide (uncommittedMax < offG - l.lastFsync) || stop)

/-- `replaceBuff` (+ `stopAccept` when the stop channel fired); `ts` = stat.lastTimestamp after the batch's rotations -/
def takeBuf (w : WS) (stop : Bool) (ts : Nat) : WS :=
  { w with buff := [], asap := false, rotPos := [], stopped := w.stopped || stop, lastTs := ts }

/-- `if len(buff) != 0 { writeBuffer; dirty = true }` -/
def written (s : Sys) : LS :=
  if s.w.buff.isEmpty then s.l else { writeBuffer s.l s.w.buff 0 s.w.rotPos with dirty := true }

/-- `fp.Sync()`, `lastFsyncPos = rd.offsetGlobal`, `engine.Commit(rd.offsetGlobal, snapMeta(rd.offsetGlobal, rd.crc, ts))` -/
def syncCommit (l : LS) (w : WS) (ts : Nat) : LS :=
  { l with cur := l.cur.sync, lastFsync := w.offG, dirty := false, commits := { off := w.offG, crc := w.crc, ts := ts } :: l.commits }

/-- one iteration of `binlogWriter.loop` after the select: `timer` = hitTimer, `stop` = stop channel closed -/
def iter (s : Sys) (timer stop : Bool) : Sys :=
  let ts := lastRotTs s.w.buff s.w.rotPos s.w.lastTs
  let l1 := written s
  { w := takeBuf s.w stop ts, l := if mustSync l1 s.w.asap timer stop s.w.offG then syncCommit l1 s.w ts else l1 }

/-- bytes of the global stream that are on disk and covered by an fsync: all older files are closed after a sync,
    the current file contributes its synced prefix. `base` = global position of the first byte of the oldest file. -/
def syncedEnd (l : LS) : Nat := (l.older.map (·.synced)).sum + l.cur.synced

def writtenEnd (l : LS) : Nat := (l.older.map (·.data.length)).sum + l.cur.data.length

/-! ## Engine stub -/

structure Eng where
  off : Int
  evs : List (Int × Bytes)      -- delivered (offset, framed event without padding), newest first
  commits : List Commit         -- newest first
deriving DecidableEq, Repr

inductive ARes
  | ok (n : Nat)        -- unpadded size of the event
  | notEnough
  | unknown
deriving DecidableEq, Repr

/-- Engine.Apply of the harness stub on `getAlignedBuffer(rest)`; `slack = rest.length % 4` -/
def engApply (magic slack : Nat) (rest : Bytes) : ARes :=
  if rd32 rest ≠ magic then .unknown
  else if !atLeast rest (8 + slack) then .notEnough
  else
    let n := rd32 (rest.drop 4)
    if !atLeast rest (8 + n + slack) then .notEnough else .ok (8 + n)

/-! ## Reader -/

inductive Err
  | crc | unknownMagic | badMagic | skip | applyPos | applyLen | applyZero | unmodelled
  | seek | seekCrc | metaPos | fromLow | scan | scanPanic | notFound | badMeta
deriving DecidableEq, Repr

structure RS where
  pos : Int
  crc : UInt32
  rest : Bytes
  slack : Nat
  dk : Bool            -- clientDontKnowMagic
  ts : Nat             -- stat.lastTimestamp
  commitPos : Int
  eng : Eng
deriving DecidableEq, Repr

inductive Step
  | cont (s : RS)
  | eof (s : RS)
  | rotated (s : RS)
  | fail (e : Err) (s : RS)
deriving DecidableEq, Repr

def RS.commit (s : RS) : RS :=
  if s.commitPos = s.pos then s
  else { s with commitPos := s.pos, eng := { s.eng with commits := { off := s.pos, crc := s.crc, ts := s.ts } :: s.eng.commits } }

/-- advance over `n` consumed bytes (top of the next loop iteration) -/
def RS.advance (cfg : Cfg) (s : RS) (n : Nat) : RS :=
  { s with pos := s.pos + n, crc := cfg.upd s.crc (s.rest.take n), rest := s.rest.drop n }

/-- Engine.Skip + position check, then advance -/
def skipLev (cfg : Cfg) (s : RS) (n : Nat) : Step :=
  let e := { s.eng with off := s.eng.off + n }
  if e.off ≠ s.pos + n then .fail .skip { s with eng := e }
  else .cont (({ s with eng := e, dk := false }).advance cfg n)

def bigTail (s : RS) : Bool := decide ((uncommittedMax : Int) < s.pos - s.commitPos)

/-- the `default:` branch — Engine.Apply -/
def applyStep (cfg : Cfg) (s : RS) : Step :=
  if s.dk then .fail .unknownMagic s
  else
    let r := engApply cfg.evMagic s.slack s.rest
    let e : Eng := match r with
      | .ok n => { s.eng with off := s.eng.off + pad4 n, evs := (s.eng.off, s.rest.take n) :: s.eng.evs }
      | _ => s.eng
    let s1 := { s with eng := e }
    if e.off < s.pos then .fail .applyPos s1
    else
      let rb := (e.off - s.pos).toNat
      if !atLeast s.rest (rb + s.slack) then .fail .applyLen s1
      else match r with
        | .ok _ => if rb = 0 then .fail .applyZero s1 else .cont (({ s1 with dk := false }).advance cfg (pad4 rb))
        | .unknown => .cont (({ s1 with dk := true }).advance cfg (pad4 rb))          -- `continue`; fails on the next visit
        | .notEnough => .eof (({ s1 with dk := false }).advance cfg (pad4 rb))

inductive Kind | start | rotFrom | zip | tag | crc | timestamp | rotTo | cfgValue | cfgArray | upgrade | user
deriving DecidableEq, Repr

/-- the `switch levType` of readUncompressedFile -/
def kindOf (m : Nat) : Kind :=
  if m = magicStart then .start else if m = magicRotFrom then .rotFrom else if m = magicZip then .zip
  else if m = magicTag then .tag else if m = magicCrc then .crc else if m = magicTimestamp then .timestamp
  else if m = magicRotTo then .rotTo else if m = magicCfgValue then .cfgValue else if m = magicCfgArray then .cfgArray
  else if m = magicUpgrade then .upgrade else .user

def stepStart (cfg : Cfg) (s : RS) : Step :=
  if atLeast s.rest 24 then skipLev cfg s 24
  else .eof (s.advance cfg (s.rest.length / 4 * 4))        -- readLevStart reports the words it consumed

def stepRotFrom (cfg : Cfg) (s : RS) : Step :=
  if atLeast s.rest levRotateSize then skipLev cfg { s with ts := rd32 (s.rest.drop 4) } levRotateSize else .eof s

def stepTag (cfg : Cfg) (s : RS) : Step :=
  if atLeast s.rest 20 then skipLev cfg s 20 else .eof s

/-- the stored checksum of a crc record differs from the running one -/
def crcMismatch (s : RS) : Bool := UInt32.ofNat (rd32 (s.rest.drop 16)) != s.crc

def stepCrc (cfg : Cfg) (s : RS) : Step :=
  if atLeast s.rest levCrcSize then
    if crcMismatch s then .fail .crc { s with ts := rd32 (s.rest.drop 4) }
    else skipLev cfg { s with ts := rd32 (s.rest.drop 4) } levCrcSize
  else .eof s

def stepTimestamp (cfg : Cfg) (s : RS) : Step :=
  if atLeast s.rest 8 then skipLev cfg { s with ts := rd32 (s.rest.drop 4) } 8 else .eof s

/-- ROTATE_TO: Skip is called, `finish = true`; the position is NOT advanced over the record -/
def stepRotTo (s : RS) : Step :=
  if atLeast s.rest levRotateSize then
    let e := { s.eng with off := s.eng.off + levRotateSize }
    if e.off ≠ s.pos + levRotateSize then .fail .skip { s with eng := e } else .rotated { s with eng := e, dk := false }
  else .eof s

def stepKind (cfg : Cfg) (s : RS) : Kind → Step
  | .start => stepStart cfg s
  | .rotFrom => stepRotFrom cfg s
  | .zip => .fail .badMagic s
  | .tag => stepTag cfg s
  | .crc => stepCrc cfg s
  | .timestamp => stepTimestamp cfg s
  | .rotTo => stepRotTo s
  | .cfgValue => .fail .unmodelled s
  | .cfgArray => .fail .badMagic s
  | .upgrade => .fail .unmodelled s
  | .user => applyStep cfg s

def preCommit (s : RS) : RS := if bigTail s then s.commit else s

/-- one iteration of the loop in readUncompressedFile, from the big-tail commit to the Skip call -/
def readStep (cfg : Cfg) (s0 : RS) : Step :=
  let s := preCommit s0
  if !atLeast s.rest 4 then .eof s else stepKind cfg s (kindOf (rd32 s.rest))

structure FR where
  s : RS
  rotated : Bool
  err : Option Err
deriving DecidableEq, Repr

/-- the loop; a `cont` consumes at least 4 bytes or sets `dk` (after which the next step fails or consumes) -/
def readLoop (cfg : Cfg) : Nat → RS → FR
  | 0, s => { s := s, rotated := false, err := some .unmodelled }
  | fuel + 1, s =>
    match readStep cfg s with
    | .cont s' => readLoop cfg fuel s'
    | .eof s' => { s := s'.commit, rotated := false, err := none }
    | .rotated s' => { s := s'.commit, rotated := true, err := none }
    | .fail e s' => { s := s', rotated := false, err := some e }

structure Hdr where
  pos : Int
  crc : UInt32
  ts : Nat
  curHash : Nat
  data : Bytes
deriving DecidableEq, Repr

/-- readBinlogHeaderFile + readBinlogHeader -/
def scanHeader (cfg : Cfg) (d : Bytes) : Except Err Hdr :=
  if d.isEmpty then .error .scan
  else if !atLeast d 4 then .error .scanPanic
  else
    let m := rd32 d
    if m = magicStart then
      if !atLeast d 24 then .error .scan
      else if cfg.schema ≠ 0 ∧ cfg.schema ≠ rd32 (d.drop 4) then .error .scan
      else .ok { pos := 0, crc := 0, ts := 0, curHash := 0, data := d }
    else if m = magicRotFrom then
      if !atLeast d levRotateSize then .error .scan
      else .ok { pos := s64 (rd64 (d.drop 8)), crc := UInt32.ofNat (rd32 (d.drop 16)), ts := rd32 (d.drop 4),
                 curHash := rd64 (d.drop 28), data := d }
    else if m = magicZip then .error .unmodelled
    else .error .scan

def insertHdr (h : Hdr) : List Hdr → List Hdr
  | [] => [h]
  | x :: xs => if h.pos < x.pos then h :: x :: xs else x :: insertHdr h xs

def sortHdrs : List Hdr → List Hdr
  | [] => []
  | h :: hs => insertHdr h (sortHdrs hs)

def scan (cfg : Cfg) (files : List Bytes) : Except Err (List Hdr) :=
  match files.mapM (scanHeader cfg) with
  | .error e => .error e
  | .ok hs => .ok (sortHdrs hs)

/-- getBinlogIndexByPosition -/
def indexByPos (p : Int) : List Hdr → Nat → Nat → Nat
  | [], _, idx => idx
  | h :: hs, i, idx => if h.pos > p then idx else indexByPos p hs (i + 1) i

/-- readAndUpdateCRCIfNeed on a file whose header says (`pos`,`crc`) -/
def seek (cfg : Cfg) (h : Hdr) (startPos : Int) (si : Option Meta) (ts : Nat) : Except Err (Int × UInt32 × Bytes × Nat) :=
  let step2 (curPos : Int) (crc : UInt32) (rest : Bytes) (ts : Nat) : Except Err (Int × UInt32 × Bytes × Nat) :=
    if curPos < startPos then
      let need := (startPos - curPos).toNat
      if !atLeast rest need then .error .seek
      else .ok (startPos, cfg.upd crc (rest.take need), rest.drop need, ts)
    else .ok (curPos, crc, rest, ts)
  match si with
  | none => step2 h.pos h.crc h.data ts
  | some m =>
    if m.pos > startPos then .error .metaPos
    else if h.pos ≤ m.pos then
      let need := (m.pos - h.pos).toNat
      if !atLeast h.data need then .error .seek
      else if cfg.upd h.crc (h.data.take need) ≠ m.crc then .error .seekCrc
      else step2 m.pos m.crc (h.data.drop need) m.ts
    else step2 h.pos h.crc h.data ts

/-- readBinlogFromFile + readUncompressedFile -/
def readFile (cfg : Cfg) (h : Hdr) (startPos : Int) (si : Option Meta) (ts : Nat) (eng : Eng) : FR :=
  match seek cfg h startPos si ts with
  | .error e => { s := { pos := 0, crc := 0, rest := [], slack := 0, dk := false, ts := ts, commitPos := 0, eng := eng },
                  rotated := false, err := some e }
  | .ok (p, c, rest, ts') =>
    readLoop cfg (rest.length / 2 + 4)
      { pos := p, crc := c, rest := rest, slack := rest.length % 4, dk := false, ts := ts', commitPos := 0, eng := eng }

structure RA where
  pos : Int
  crc : UInt32
  err : Option Err
  eng : Eng
  ts : Nat
  last : Option Hdr       -- reader.fileHeaders[len-1]
deriving DecidableEq, Repr

/-- the `for i := fileIndex; …` loop of readAllFromPosition -/
def readFiles (cfg : Cfg) : List Hdr → Bool → Int → Option Meta → Nat → Eng → Int → UInt32 → (Int × UInt32 × Option Err × Eng × Nat)
  | [], _, _, _, ts, eng, p, c => (p, c, none, eng, ts)
  | h :: hs, first, fromPos, si, ts, eng, _, _ =>
    let r := readFile cfg h (if first then fromPos else 0) (if first then si else none) ts eng
    match r.err with
    | some e => (r.s.pos, r.s.crc, some e, r.s.eng, r.s.ts)
    | none => readFiles cfg hs false 0 none r.s.ts r.s.eng r.s.pos r.s.crc

def lastHdr : List Hdr → Option Hdr
  | [] => none
  | [h] => some h
  | _ :: hs => lastHdr hs

/-- readAllFromPosition (master mode, ReadAndExit or before WriteLoop) -/
def readAll (cfg : Cfg) (files : List Bytes) (fromPos : Int) (si : Option Meta) (ts : Nat) (eng : Eng) : RA :=
  match scan cfg files with
  | .error e => { pos := 0, crc := 0, err := some e, eng := eng, ts := ts, last := none }
  | .ok [] => { pos := 0, crc := 0, err := some .notFound, eng := eng, ts := ts, last := none }
  | .ok (h0 :: hs) =>
    if fromPos < h0.pos then { pos := 0, crc := 0, err := some .fromLow, eng := eng, ts := ts, last := none }
    else
      let hdrs := h0 :: hs
      let idx := indexByPos fromPos hdrs 0 0
      let si' := match si with
        | none => none
        | some m => if indexByPos m.pos hdrs 0 0 ≠ idx ∨ fromPos < m.pos then none else some m
      let (p, c, e, eng', ts') := readFiles cfg (hdrs.drop idx) true fromPos si' ts eng 0 0
      { pos := p, crc := c, err := e, eng := eng', ts := ts', last := lastHdr hdrs }

/-! ## restart: setupWriterWorker + WriteLoop prologue -/

/-- `restoreTail = true`: WriteLoop re-reads the part of the first file that lies beyond the hash boundary into hashBuff2
    (code after the fix); `false`: hashBuff2 starts empty after a restart (code before the fix, kept for the witness). -/
def wsInit (cfg : Cfg) (restoreTail : Bool) (pos : Nat) (crc : UInt32) (last : Hdr) (ts : Nat) : WS :=
  let inFile := pos - last.pos.toNat
  let boundary := cfg.chunk - hashDataSize          -- max(0, maxFileSize - hashDataSize)
  { crc := crc, offG := pos, offL := inFile, lastCrcPos := pos, fileStart := last.pos.toNat,
    firstFile := decide (last.pos = 0), curHash := if last.pos = 0 then 0 else last.curHash,
    buff := [], rotPos := [], asap := false, lastTs := ts, stopped := false,
    hb2 := if restoreTail && decide (last.pos = 0) then inFile - min inFile boundary else 0 }

end SH.Binlog
