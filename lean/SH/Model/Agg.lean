/-
  SH.Model.Agg — model of the value/counter aggregates (property C04):
    internal/data_model/bucket.go               ItemValue.Merge, addOnlyValue, AddValueCounterHost, SimpleItemValue/Counter
    internal/data_model/max_host_probability.go ItemCounter.Merge, AddCounterHost, CounterHostDistribution
    internal/data_model/ch_arg_minmax_*.go      ArgMin/ArgMax…Float32.Merge
    internal/data_model/bucket.go               MultiValue.ApplyUnique, ApplyValues, ApplyValuesLegacy (event-level entries)
    internal/api/tscache.go                     tsValues.merge (numeric fields, hosts, unique; percentile not modelled)

  Numbers: float64 in Go. The model is exact arithmetic over `Int` in the domain where float64 is exact
  (DESIGN §4.1): values are integers, counters are multiples of 1/4 and stored ×4 (`cnt`, `sum`, `sumsq` are
  in quarter units), so CounterHostDistribution(count) = floor(count + 0.5) = (cnt + 2) / 4.
  Hosts (`TagUnion`) are opaque ids compared for equality only.
  The random draw `rng.Uint64n(totalWeight)` is an input `d` of every merge step (DESIGN §4.2).
-/
import SH.Model.Unique

namespace SH.Agg

abbrev Host := Nat

/-- ItemValue (ItemCounter embedded) -/
structure Value where
  cnt : Int          -- counter × 4
  chost : Host       -- MaxCounterHostTag
  vmin : Int
  vmax : Int
  sum : Int          -- ValueSum × 4
  sumsq : Int        -- ValueSumSquare × 4
  minHost : Host
  maxHost : Host
  set : Bool         -- ValueSet
deriving DecidableEq, Repr

def zero : Value :=
  { cnt := 0, chost := 0, vmin := 0, vmax := 0, sum := 0, sumsq := 0, minHost := 0, maxHost := 0, set := false }

/-- CounterHostDistribution on quarter units: clamp(floor(count + 0.5)) to [1, MaxInt64] -/
def dist (c : Int) : Int := max 1 (min ((c + 2) / 4) 9223372036854775807)

/-- the branch of ItemCounter.Merge / AddCounterHost that consumes a random draw -/
def needsDraw (s : Value) (ocnt : Int) (ohost : Host) : Bool :=
  decide (0 < ocnt) && decide (0 < s.cnt) && decide (s.chost ≠ ohost)

/-- ItemCounter.Merge(rng, other) with other = (ocnt, ohost); `d` = rng.Uint64n(weight + otherWeight) -/
def mergeCounter (d : Nat) (s : Value) (ocnt : Int) (ohost : Host) : Value :=
  if ocnt ≤ 0 then s
  else if s.cnt ≤ 0 then { s with cnt := ocnt, chost := ohost }
  else if s.chost = ohost then { s with cnt := s.cnt + ocnt }
  else if dist s.cnt ≤ (d : Int) then { s with cnt := s.cnt + ocnt, chost := ohost }
  else { s with cnt := s.cnt + ocnt }

/-- ItemCounter.AddCounterHost (a separate copy of the same branches in the Go source) -/
def addCounterHost (d : Nat) (s : Value) (c : Int) (h : Host) : Value :=
  if c ≤ 0 then s
  else if s.cnt ≤ 0 then { s with chost := h, cnt := c }
  else if s.chost = h then { s with cnt := s.cnt + c }
  else if dist s.cnt ≤ (d : Int) then { s with chost := h, cnt := s.cnt + c }
  else { s with cnt := s.cnt + c }

def takesMin (s : Value) (v : Int) : Bool := !s.set || decide (v < s.vmin)
def takesMax (s : Value) (v : Int) : Bool := !s.set || decide (s.vmax < v)

def setMin (s : Value) (take : Bool) (v : Int) (h : Host) : Value :=
  if take then { s with vmin := v, minHost := h } else s

def setMax (s : Value) (take : Bool) (v : Int) (h : Host) : Value :=
  if take then { s with vmax := v, maxHost := h } else s

/-- addOnlyValue(value, count, hostTag); `c` in quarter units -/
def addOnlyValue (s : Value) (v c : Int) (h : Host) : Value :=
  let s1 := { s with sum := s.sum + v * c, sumsq := s.sumsq + v * v * c }
  { setMax (setMin s1 (takesMin s v) v h) (takesMax s v) v h with set := true }

/-- the part of ItemValue.Merge after the counter merge -/
def mergeValuePart (s o : Value) : Value :=
  if !o.set then s
  else
    let s1 := { s with sum := s.sum + o.sum, sumsq := s.sumsq + o.sumsq }
    { setMax (setMin s1 (takesMin s o.vmin) o.vmin o.minHost) (takesMax s o.vmax) o.vmax o.maxHost with set := true }

/-- ItemValue.Merge(rng, s2) -/
def merge (d : Nat) (s o : Value) : Value := mergeValuePart (mergeCounter d s o.cnt o.chost) o

/-- ItemValue.AddValueCounterHost(rng, value, count, hostTag) -/
def addValueCounterHost (d : Nat) (s : Value) (v c : Int) (h : Host) : Value :=
  addOnlyValue (addCounterHost d s c h) v c h

def simpleCounter (c : Int) (h : Host) : Value := { zero with cnt := c, chost := h }
def simpleValue (v c : Int) (h : Host) : Value := addOnlyValue (simpleCounter c h) v c h

/-! ### MultiValue = ItemValue + unique sketch (ValueTDigest is not modelled) -/

structure Multi where
  v : Value
  u : Unique.Sk
deriving DecidableEq, Repr

def Multi.zero : Multi := { v := Agg.zero, u := Unique.nilSk }

/-- MultiValue.Merge: HLL.Merge, then Value.Merge -/
def mergeMulti (mv : Unique.MergeV) (P : Unique.Params) (d : Nat) (s o : Multi) : Multi :=
  { v := merge d s.v o.v, u := Unique.merge mv P s.u o.u }

/-- the temporary item ApplyUnique builds: every hash is also a value with count 1; if the event's count differs from the
    number of hashes the sums are rescaled (`*= count`, `/= totalCount`). Quarter units: count 1 = 4.
    Exact when the division is (the harness uses count = len(hashes), or len(hashes) ∈ {1,2,4} with an integer count). -/
def uniqueItem (hashes : List Int) (c : Int) (h : Host) : Value :=
  let n : Int := hashes.length
  let tmp := hashes.foldl (fun t v => addOnlyValue t v 4 h) (simpleCounter c h)
  if c ≠ 4 * n then { tmp with sum := tmp.sum * c / (4 * n), sumsq := tmp.sumsq * c / (4 * n) } else tmp

/-- the temporary item ApplyValues / ApplyValuesLegacy build: `values` with count 1 each, `hist` = (value, count) pairs,
    rescaled like ApplyUnique when the event's count differs from totalCount (`c`, `total`, histogram counts in quarter units) -/
def valuesItem (values : List Int) (hist : List (Int × Int)) (c total : Int) (h : Host) : Value :=
  let t1 := values.foldl (fun t v => addOnlyValue t v 4 h) (simpleCounter c h)
  let t2 := hist.foldl (fun t kv => addOnlyValue t kv.1 kv.2 h) t1
  if c ≠ total then { t2 with sum := t2.sum * c / total, sumsq := t2.sumsq * c / total } else t2

/-- MultiValue.ApplyValues and ApplyValuesLegacy (hasPercentiles = false: the t-digest is not modelled): the temporary item
    is MERGED into the accumulator, whatever the accumulator holds (a counter-only item has ValueSet = false but is not empty) -/
def applyValues (d : Nat) (s : Multi) (values : List Int) (hist : List (Int × Int)) (c total : Int) (h : Host) : Multi :=
  if total ≤ 0 then s else { s with v := merge d s.v (valuesItem values hist c total h) }

/-- `uint64(hash)` for an int64 -/
def hashKey (v : Int) : UInt64 := UInt64.ofNat (v % 18446744073709551616).toNat

/-- MultiValue.ApplyUnique(rng, hashes, count, hostTag): the event-level entry for unique values -/
def applyUnique (P : Unique.Params) (d : Nat) (s : Multi) (hashes : List Int) (c : Int) (h : Host) : Multi :=
  if hashes.isEmpty then s
  else { v := merge d s.v (uniqueItem hashes c h),
         u := hashes.foldl (fun u v => Unique.insertVal P u (hashKey v)) s.u }

/-! ### API rows: tsValues.merge -/

/-- ArgMinMaxInt32Float32 / ArgMinMaxStringFloat32: host id (0 = empty) and value -/
structure Arg where
  arg : Nat
  val : Int
deriving DecidableEq, Repr

/-- ArgMinInt32Float32.Merge -/
def argMin (a r : Arg) : Arg := if r.val < a.val then r else a
/-- ArgMaxInt32Float32.Merge -/
def argMax (a r : Arg) : Arg := if a.val < r.val then r else a
/-- ArgMinStringFloat32.Merge (an empty receiver takes rhs whatever its value) -/
def argMinStr (a r : Arg) : Arg := if a.arg = 0 then r else if r.val < a.val then r else a
/-- ArgMaxStringFloat32.Merge -/
def argMaxStr (a r : Arg) : Arg := if a.arg = 0 then r else if a.val < r.val then r else a

structure Ts where
  min : Int
  max : Int
  sum : Int
  count : Int
  sumsq : Int
  card : Int
  mergeCount : Nat
  minHost : Arg
  maxHost : Arg
  minHostStr : Arg
  maxHostStr : Arg
  u : Unique.Sk
deriving DecidableEq, Repr

/-- the `unique` part of tsValues.merge: a fresh copy on the first merge, in place afterwards -/
def tsUnique (mv : Unique.MergeV) (P : Unique.Params) (v r : Ts) : Unique.Sk :=
  if v.mergeCount = 0 then Unique.merge mv P (Unique.merge mv P Unique.nilSk v.u) r.u
  else Unique.merge mv P v.u r.u

/-- tsValues.merge -/
def tsMerge (mv : Unique.MergeV) (P : Unique.Params) (v r : Ts) : Ts :=
  { min := if r.min < v.min then r.min else v.min,
    max := if v.max < r.max then r.max else v.max,
    sum := v.sum + r.sum,
    count := v.count + r.count,
    sumsq := v.sumsq + r.sumsq,
    card := v.card + r.card,
    mergeCount := v.mergeCount + 1,
    minHost := argMin v.minHost r.minHost,
    maxHost := argMax v.maxHost r.maxHost,
    minHostStr := argMinStr v.minHostStr r.minHostStr,
    maxHostStr := argMaxStr v.maxHostStr r.maxHostStr,
    u := tsUnique mv P v r }

end SH.Agg
