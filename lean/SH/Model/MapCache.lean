/-
  SH.Model.MapCache — executable model of internal/pcache/mappings_cache.go (property C21).

  State = the Go struct: `cache` (the map, here an association list with at most one entry per key), the two
  running sums `sumSize` / `sumTS` (kept as SEPARATE fields exactly like the code — that they equal the sums over
  the map is a theorem, not a definition), `maxSize`, `maxTTL`, `version`, `lastSavedVersion`, the `adds` / `evicts`
  counters and the chunked storage the cache saves into.

  Modelled branch for branch: GetValue (GetValueBytes is the same code), AddValues (filter loop, the "fits" branch,
  removeSize incl. the 1/1024 clamp, the eviction loop with its two `break`s, the add loop with its `break`),
  RemoveByTTL, addItem, removeItem, SetSizeTTL, Stats, Save (ResetToStartOfFile / StartWriteChunk / FinishItem per
  element / FinishWriteChunk), load (ReadNext loop, basictl String/Int/Nat reads, "already present" skip).

  Inputs instead of behaviour (DESIGN §4.3): Go map iteration order.
    * AddValues collects eviction candidates by ranging over the map and then sorts them; the model takes the
      SORTED candidate list `cands` as an argument (the harness observes it in `itemCache`).  Theorems hold for EVERY
      list `cands` whatsoever; `legalCands` is the executable description of which lists the collection loop can
      produce (checked by the driver on every observed list), `collect` is the loop itself over an enumeration.
    * RemoveByTTL visits the first `maxCount` keys of an enumeration: argument `visited`.
    * Save writes in map order (or sorted when `deterministic`): argument `order`.
  `Variant.dupAdd` is the code as it was at the pinned commit (the add loops of AddValues did not check whether an
  earlier pair of the SAME call had already inserted the string); `Variant.fixed` has the check.
  Assumed: `accessTSGran = 1` (the only value NewMappingsCache sets, so `rnd.Uint32n(1) = 0`), int64 sums do not
  overflow, every saved item is smaller than ChunkSize/2 (no "too big item" error in Save), no I/O errors.
-/
import SH.Model.Chunked

namespace SH.MapCache
open SH.Chunked (Bytes le unle)

structure Entry where
  val : Int
  ts : Nat
deriving DecidableEq, Repr

abbrev Cache := List (Bytes × Entry)

inductive Variant
  | fixed
  | dupAdd
deriving DecidableEq, Repr

/-- `elementSizeMem` -/
def elementSize (k : Bytes) : Int := ((k.length * 5 / 4 + 32 : Nat) : Int)

def find : Cache → Bytes → Option Entry
  | [], _ => none
  | (k', e) :: c, k => if k' = k then some e else find c k

def erase : Cache → Bytes → Cache
  | [], _ => []
  | (k', e) :: c, k => if k' = k then erase c k else (k', e) :: erase c k

/-- `cache[k] = e` -/
def put : Cache → Bytes → Entry → Cache
  | [], k, e => [(k, e)]
  | (k', e') :: c, k, e => if k' = k then (k, e) :: c else (k', e') :: put c k e

def totalSize (c : Cache) : Int := (c.map (fun p => elementSize p.1)).sum
def totalTS (c : Cache) : Int := (c.map (fun p => (p.2.ts : Int))).sum

structure St where
  cache : Cache := []
  sumSize : Int := 0
  sumTS : Int := 0
  maxSize : Int := 0
  maxTTL : Int := 0
  version : Nat := 0
  lastSaved : Nat := 0
  adds : Nat := 0
  evicts : Nat := 0
  store : Chunked.St := {}
deriving DecidableEq, Repr

def markerFlood : Int := SH.Gen.C21.tagValueIDMappingFlood
def markerNotExist : Int := SH.Gen.C21.tagValueIDDoesNotExist

def isMarker (v : Int) : Bool := v == 0 || v == markerFlood || v == markerNotExist

def present (s : St) (k : Bytes) : Bool := (find s.cache k).isSome

/-- `addItem` -/
def addItem (s : St) (k : Bytes) (v : Int) (ts : Nat) : St :=
  { s with cache := put s.cache k { val := v, ts := ts },
           sumSize := s.sumSize + elementSize k, sumTS := s.sumTS + ts, adds := s.adds + 1 }

/-- `removeItem(k, _, accessTS)` -/
def removeItem (s : St) (k : Bytes) (ts : Nat) : St :=
  { s with cache := erase s.cache k,
           sumSize := s.sumSize - elementSize k, sumTS := s.sumTS - ts, evicts := s.evicts + 1 }

/-- `expiredTTLLocked` -/
def expired (itemTS now : Nat) (maxTTL : Int) : Bool := maxTTL > 0 && (itemTS : Int) + maxTTL < now

/-! ### GetValue -/

def fresh (e : Entry) (ts : Nat) : Bool := e.ts ≥ ts

def getValue (s : St) (ts : Nat) (k : Bytes) : St × Option Int :=
  match find s.cache k with
  | none => (s, none)
  | some e =>
    if fresh e ts then (s, some e.val)
    else ({ s with cache := put s.cache k { e with ts := ts }, sumTS := s.sumTS - e.ts + ts }, some e.val)

/-! ### AddValues -/

abbrev Pair := Bytes × Int

/-- the filter loop: not yet cached, non-empty string, not a marker value -/
def acceptable (s : St) (p : Pair) : Bool := !present s p.1 && !p.1.isEmpty && !isMarker p.2

def newSize (ps : List Pair) : Int := (ps.map (fun p => elementSize p.1)).sum

/-- skip a pair whose string an earlier pair of the same call inserted (only in the fixed code) -/
def skipDup (v : Variant) (s : St) (k : Bytes) : Bool := v == .fixed && present s k

/-- the add loop of the "everything fits" branch -/
def addAll (v : Variant) (now : Nat) : St → List Pair → St
  | s, [] => s
  | s, p :: ps => if skipDup v s p.1 then addAll v now s ps else addAll v now (addItem s p.1 p.2 now) ps

def noRoom (s : St) (k : Bytes) : Bool := s.sumSize + elementSize k > s.maxSize

/-- the add loop after eviction: stops at the first pair that does not fit -/
def addFit (v : Variant) (now : Nat) : St → List Pair → St
  | s, [] => s
  | s, p :: ps =>
    if skipDup v s p.1 then addFit v now s ps
    else if noRoom s p.1 then s
    else addFit v now (addItem s p.1 p.2 now) ps

def removeSize (s : St) (ns : Int) : Int :=
  let r := s.sumSize + ns - s.maxSize
  if r > ns && r > s.sumSize / 1024 then s.sumSize / 1024 else r

def enoughRoom (s : St) (ns : Int) : Bool := s.sumSize + ns ≤ s.maxSize

/-- the eviction loop over the sorted candidates -/
def evict (now : Nat) (ns : Int) : St → List Bytes → St
  | s, [] => s
  | s, k :: ks =>
    match find s.cache k with
    | none => evict now ns s ks   -- not a key of the map: impossible for a legal candidate list, ignored
    | some e =>
      if e.ts ≥ now then s
      else if !expired e.ts now s.maxTTL && enoughRoom s ns then s
      else evict now ns (removeItem s k e.ts) ks

def fits (s : St) (ns : Int) : Bool := s.sumSize + ns ≤ s.maxSize

def addValues (v : Variant) (s : St) (now : Nat) (pairs : List Pair) (cands : List Bytes) : St :=
  let ps := pairs.filter (acceptable s)
  if ps.isEmpty then s
  else if fits s (newSize ps) then { addAll v now s ps with version := s.version + 1 }
  else { addFit v now (evict now (newSize ps) s cands) ps with version := s.version + 1 }

/-- does this AddValues call reach the eviction branch (so that `cands` matters)? -/
def needsEvict (s : St) (pairs : List Pair) : Bool :=
  let ps := pairs.filter (acceptable s)
  !ps.isEmpty && !fits s (newSize ps)

/-! ### RemoveByTTL, SetSizeTTL, Stats -/

def removeVisited (now : Nat) : St → List Bytes → St
  | s, [] => s
  | s, k :: ks =>
    match find s.cache k with
    | none => removeVisited now s ks
    | some e => if expired e.ts now s.maxTTL then removeVisited now (removeItem s k e.ts) ks else removeVisited now s ks

/-- `RemoveByTTL(maxCount, now)`; `visited` = the keys the range loop saw before `visitedCount >= maxCount` -/
def removeByTTL (s : St) (now : Nat) (visited : List Bytes) : St := removeVisited now s visited

def setSizeTTL (s : St) (maxSize maxTTL : Int) : St := { s with maxSize := maxSize, maxTTL := maxTTL }

/-- `Stats()` swaps the counters to zero -/
def stats (s : St) : St := { s with adds := 0, evicts := 0 }

/-! ### the collection loop of AddValues and which candidate lists it can produce -/

structure Coll where
  items : List Bytes := []
  found : Int := 0
  count : Nat := 0
  stop : Bool := false

/-- one iteration of `for k, p := range c.cache` in AddValues -/
def collStep (rs : Int) (c : Coll) (k : Bytes) : Coll :=
  if c.stop then c else
  let was := c.found
  let found := c.found + elementSize k
  let items := c.items ++ [k]
  if found < rs then { c with items := items, found := found }
  else
    let count := if was < rs then items.length else c.count
    { items := items, found := found, count := count, stop := items.length ≥ 2 * count }

/-- the candidates collected when the map is enumerated in the order `order` -/
def collect (rs : Int) (order : List Bytes) : List Bytes := (order.foldl (collStep rs) {}).items

/-- total `elementSizeMem` of a list of keys -/
def szSum (l : List Bytes) : Int := (l.map elementSize).sum

def sizeLe (a b : Bytes) : Bool := decide (elementSize a ≤ elementSize b)

/-- the keys ordered by ascending element size -/
def sortBySize (l : List Bytes) : List Bytes := l.mergeSort sizeLe

/-- how many leading keys of the list are needed for the running size (starting from `acc`, after `i` keys) to reach `rs` -/
def reach (rs : Int) : List Bytes → Int → Nat → Option Nat
  | [], _, _ => none
  | k :: ks, acc, i => if acc + elementSize k ≥ rs then some (i + 1) else reach rs ks (acc + elementSize k) (i + 1)

/-- Can the collection loop over SOME enumeration of `keys` end with exactly the set `cands`?
    (`cands ⊆ keys`, no duplicates — checked separately.)  With m = number of items "barely enough" to reach `rs`
    the loop stops after 2·m items (after 1 item when rs ≤ 0), or runs through the whole map.
    Proved exact in SH/Lemmas/C21Order.lean (`legalCount_sound`, `legalCount_complete`). -/
def legalCount (rs : Int) (keys cands : List Bytes) : Bool :=
  let n := cands.length
  let a := sortBySize cands
  if n = keys.length then
    -- no early stop for some order: the ascending order reaches `rs` as late as possible
    match reach rs a 0 0 with
    | none => true
    | some m => (if rs ≤ 0 then n ≤ 1 else n ≤ 2 * m)
  else if rs ≤ 0 then n = 1
  else
    n % 2 = 0 && n > 0 &&
      -- the n/2 − 1 smallest do not reach `rs`, the n/2 largest do
      (szSum (a.take (n / 2 - 1)) < rs && rs ≤ szSum (a.drop (n - n / 2)))

def bytesLt : Bytes → Bytes → Bool
  | [], [] => false
  | [], _ :: _ => true
  | _ :: _, [] => false
  | a :: as, b :: bs => if a < b then true else if b < a then false else bytesLt as bs

def sortedCands (deterministic : Bool) (c : Cache) : List Bytes → Bool
  | [] => true
  | [_] => true
  | a :: b :: rest =>
    (match find c a, find c b with
     | some ea, some eb => ea.ts < eb.ts || (ea.ts == eb.ts && (!deterministic || bytesLt a b))
     | _, _ => false) && sortedCands deterministic c (b :: rest)

def allPresent (c : Cache) (ks : List Bytes) : Bool := ks.all (fun k => (find c k).isSome)

def nodupKeys : List Bytes → Bool
  | [] => true
  | k :: ks => !ks.contains k && nodupKeys ks

/-- everything the driver checks about an observed candidate list -/
def legalCands (deterministic : Bool) (s : St) (pairs : List Pair) (cands : List Bytes) : Bool :=
  let ps := pairs.filter (acceptable s)
  allPresent s.cache cands && nodupKeys cands && sortedCands deterministic s.cache cands &&
  legalCount (removeSize s (newSize ps)) (s.cache.map (·.1)) cands

/-- RemoveByTTL: `removed` must be expired keys, and a visit of min(maxCount, n) keys must be able to contain
    exactly these expired ones -/
def legalRemoved (s : St) (maxCount : Int) (now : Nat) (removed : List Bytes) : Bool :=
  let n := s.cache.length
  let k : Nat := if maxCount ≤ 0 then 0 else min maxCount.toNat n
  let nExpired := (s.cache.filter (fun p => expired p.2.ts now s.maxTTL)).length
  allPresent s.cache removed && nodupKeys removed &&
  removed.all (fun key => match find s.cache key with | some e => expired e.ts now s.maxTTL | none => false) &&
  removed.length ≤ k && k - removed.length ≤ n - nExpired

/-! ### Save -/

def paddingLen (l : Nat) : Nat := (4 - l % 4) % 4

/-- `basictl.StringWrite` -/
def tlString (k : Bytes) : Bytes :=
  let l := k.length
  if l ≤ 253 then UInt8.ofNat l :: (k ++ List.replicate (paddingLen (l + 1)) 0)
  else if l ≤ 16777215 then (254 : UInt8) :: (le 3 l ++ (k ++ List.replicate (paddingLen l) 0))
  else (255 : UInt8) :: (le 7 l ++ (k ++ List.replicate (paddingLen l) 0))

/-- int32 two's complement as an unsigned 32 bit number -/
def u32OfInt (v : Int) : Nat := (v % 4294967296).toNat
def intOfU32 (n : Nat) : Int := if n ≥ 2147483648 then (n : Int) - 4294967296 else n

/-- `appendItem` of Save: string, value, access time -/
def encItem (it : Bytes × Entry) : Bytes := tlString it.1 ++ (le 4 (u32OfInt it.2.val) ++ le 4 it.2.ts)

def entryLe (a b : Bytes × Entry) : Bool := a.2.ts < b.2.ts || (a.2.ts == b.2.ts && !bytesLt b.1 a.1)

/-- the order Save writes in when `deterministic` is set: by access time, then by string -/
def sortedOrder (c : Cache) : Cache := c.mergeSort entryLe

def writeItems (H : Bytes → Bytes) : Chunked.St → Cache → Chunked.St
  | st, [] => st
  | st, it :: its => writeItems H (Chunked.finishItem H false (encItem it) st).1 its

def dirty (s : St) : Bool := s.version != s.lastSaved

/-- `Save()`; `order` = the elements of the map in the order they are written -/
def save (H : Bytes → Bytes) (s : St) (order : Cache) : St × Bool :=
  if !dirty s then (s, false)
  else
    let st0 := Chunked.startWrite Chunked.magicMappings (Chunked.resetToStart s.store)
    let st1 := writeItems H st0 order
    ({ s with store := (Chunked.finishWrite H false st1).1, lastSaved := s.version }, true)

/-! ### load -/

inductive LoadErr
  | chunk (e : Chunked.Err)
  | unexpectedEOF
  | badPadding
  | nonCanonical
deriving DecidableEq, Repr

def LoadErr.name : LoadErr → String
  | .chunk e => e.name
  | .unexpectedEOF => "unexpected-eof"
  | .badPadding => "bad-padding"
  | .nonCanonical => "non-canonical"

/-- after the length prefix: `l` bytes of string, padding computed from `p` -/
def readStringTail (r1 : Bytes) (l p : Nat) : Except LoadErr (Bytes × Bytes) :=
  if r1.length < l then .error .unexpectedEOF
  else if r1.length < l + paddingLen p then .error .unexpectedEOF
  else if ((r1.drop l).take (paddingLen p)).any (· != 0) then .error .badPadding
  else .ok (r1.take l, r1.drop (l + paddingLen p))

/-- medium (marker 254, 3 length bytes) and huge (marker 255, 7 length bytes) forms; `r` is the whole input -/
def readLongString (r : Bytes) (nlen minLen : Nat) : Except LoadErr (Bytes × Bytes) :=
  if r.length < 1 + nlen then .error .unexpectedEOF
  else if unle ((r.drop 1).take nlen) ≤ minLen then .error .nonCanonical
  else readStringTail (r.drop (1 + nlen)) (unle ((r.drop 1).take nlen)) (unle ((r.drop 1).take nlen))

/-- `basictl.StringRead` -/
def readString (r : Bytes) : Except LoadErr (Bytes × Bytes) :=
  match r with
  | [] => .error .unexpectedEOF
  | b0 :: r1 =>
    if b0.toNat ≤ 253 then readStringTail r1 b0.toNat (b0.toNat + 1)
    else if b0.toNat = 254 then readLongString (b0 :: r1) 3 253
    else readLongString (b0 :: r1) 7 16777215

/-- `IntRead` / `NatRead`: four little-endian bytes -/
def readU32 (r : Bytes) : Except LoadErr (Nat × Bytes) :=
  if r.length < 4 then .error .unexpectedEOF else .ok (unle (r.take 4), r.drop 4)

/-- string, value, access time -/
def readItem (r : Bytes) : Except LoadErr ((Bytes × Entry) × Bytes) :=
  match readString r with
  | .error e => .error e
  | .ok (k, r1) =>
    match readU32 r1 with
    | .error e => .error e
    | .ok (v, r2) =>
      match readU32 r2 with
      | .error e => .error e
      | .ok (ts, r3) => .ok ((k, { val := intOfU32 v, ts := ts }), r3)

theorem readStringTail_len {r1 l p k rest} (h : readStringTail r1 l p = .ok (k, rest)) : rest.length ≤ r1.length := by
  unfold readStringTail at h
  split at h; · cases h
  split at h; · cases h
  split at h; · cases h
  cases h; simp

theorem readLongString_lt {r n m k rest} (h : readLongString r n m = .ok (k, rest)) : rest.length < r.length := by
  unfold readLongString at h
  split at h; · cases h
  split at h; · cases h
  have := readStringTail_len h; simp at this; omega

theorem readString_lt {r k rest} (h : readString r = .ok (k, rest)) : rest.length < r.length := by
  unfold readString at h
  split at h; · cases h
  rename_i b0 r1
  split at h
  · have := readStringTail_len h; simp; omega
  · split at h
    · exact readLongString_lt h
    · exact readLongString_lt h

theorem readU32_le {r v rest} (h : readU32 r = .ok (v, rest)) : rest.length ≤ r.length := by
  unfold readU32 at h
  split at h; · cases h
  cases h; simp

theorem readItem_lt {r it rest} (h : readItem r = .ok (it, rest)) : rest.length < r.length := by
  unfold readItem at h
  split at h; · cases h
  rename_i k r1 hs
  split at h; · cases h
  rename_i v r2 h1
  split at h; · cases h
  rename_i ts r3 h2
  cases h
  have := readString_lt hs; have := readU32_le h1; have := readU32_le h2
  omega

/-- the part of `load` that inserts one decoded element: skipped when the string is already there -/
def loadInsert (s : St) (it : Bytes × Entry) : St :=
  if present s it.1 then s
  else { s with cache := put s.cache it.1 it.2, sumSize := s.sumSize + elementSize it.1, sumTS := s.sumTS + it.2.ts }

/-- the inner loop of `load`: `for len(chunk) != 0` -/
def loadItems (s : St) (body : Bytes) : St × Option LoadErr :=
  if body.isEmpty then (s, none)
  else
    match h : readItem body with
    | .error e => (s, some e)
    | .ok (it, rest) => loadItems (loadInsert s it) rest
termination_by body.length
decreasing_by exact readItem_lt h

/-- the outer loop of `load` on the unread rest of the file -/
def loadRest (H : Bytes → Bytes) (s : St) (prev rest : Bytes) : St × Option LoadErr :=
  match h : Chunked.readNext H Chunked.magicMappings prev rest with
  | .eof => (s, none)
  | .err e => (s, some (.chunk e))
  | .chunk body stored rest' =>
    if body.isEmpty then (s, none)
    else
      let r := loadItems s body
      if r.2.isSome then r else loadRest H r.1 stored rest'
termination_by rest.length
decreasing_by exact Chunked.readNext_chunk_lt h

/-- `LoadMappingsCacheSlice(&file, maxSize)`: a fresh cache (maxTTL = 0) filled by `load`.
    The reader part of the storage state is not tracked (Save starts with ResetToStartOfFile + StartWriteChunk,
    which overwrite everything but `file`). -/
def loadNew (H : Bytes → Bytes) (file : Bytes) (maxSize : Int) : St × Option LoadErr :=
  loadRest H { maxSize := maxSize, store := Chunked.new file } Chunked.zeroHash file

end SH.MapCache
