/-
  SH.Model.TsCache — executable model of the API series cache `cache2`
  (internal/api/tscache2.go, tscache2_trim.go; property C23).

  One model step = one scripted operation on the real cache, observed at quiescence (every goroutine
  parked): `req` (cache2.Get up to the point where the request returns or parks in `wait`), `fin`
  (one loader call returns, `loadChunks` publishes and hands the data to awaiters), `inv`
  (cache2.invalidate), `trimchunks` (removeChunksNotUsedAfter), `rmbucket` (shard.removeBucket),
  `reset`, `limits` (setLimits followed by whatever the trim goroutine does), `shutdown`.
  Clocks are inputs (`now`, nanoseconds), the storage is an input (`fin … ver`).

  Pointers are indices: a chunk is its index in `St.chunks` (chunks are never deleted from that list, a
  trimmed chunk is `detached` exactly as in Go where the in-flight loader keeps the pointer).
  A slot (`[]tsSelectRow`) is `Option Cell`: `none` is the nil slice, `some c` the rows the storage stub
  produced for slot time `c.t` of cache key `c.key` at storage version `c.ver` in load `c.load`.
  Ghost fields (not in the Go code, used only by the theorems): `Cell.fin`, `Chunk.key`, `Chunk.lastInv`,
  `Loader.began`, `St.tick`, `St.clock`, `St.bad` / `InitSt.bad` (the freshness monitor).
  Code quirks reproduced as they are: `removeChunksNotUsedAfterUnlocked` steps over `j - i` chunks after deleting
  the run `[i, j)` (`removeUnusedGo`); the byte estimate of a chunk counts the capacity excess of three sub-slices of
  the loader's buffer (`chunkBytes`); switching the limits off with data cached evicts everything once (`opLimits`).
-/
namespace SH.TsCache

def linger : Int := 15000000000      -- invalidateLinger, ns
def nsec : Int := 1000000000

structure Cfg where
  step : Int      -- shard step, seconds
  K : Nat         -- shard.chunkSize (slots per chunk)
  dur : Int       -- shard.chunkDuration, ns
  col : Nat       -- sizeofCache2DataCol
  row : Nat       -- sizeofCache2Row of one stub row
deriving DecidableEq, Repr

structure Cell where
  t : Int         -- slot time, seconds
  key : Nat
  ver : Nat
  load : Nat
  fin : Nat       -- ghost: tick (op number) at which the producing load finished
deriving DecidableEq, Repr

abbrev Slot := Option Cell

structure Awaiter where
  req : Nat       -- stands for (loaderChan, loaderData) of the awaiting loader
  ls : Nat
  le : Nat
  off : Nat       -- chunkOffset
deriving DecidableEq, Repr

structure Chunk where
  start : Int
  stop : Int
  key : Nat                       -- ghost: cache key of the owning bucket
  data : Option (List Slot)
  awaiters : List Awaiter
  invAt : Int
  lsa : Int                       -- loadStartedAt
  lastAccess : Int
  size : Int
  loading : Int
  detached : Bool
  lastInv : Nat                   -- ghost: tick of the last invalidation that hit this chunk (0 = never)
deriving DecidableEq, Repr

structure Bucket where
  key : Nat
  cids : List Nat                 -- chunk indices, ascending by start (`times`/`chunks`)
  lastAccess : Int
  play : Int                      -- playInterval, seconds
deriving DecidableEq, Repr

structure LChunk where
  cid : Nat
  pos : Nat       -- chunkStart (index into loader data)
  ls : Nat
  le : Nat
  load : Bool
  wait : Bool
deriving DecidableEq, Repr

structure Loader where
  id : Nat
  key : Nat
  play : Int
  force : Bool
  timeStart : Int                 -- ns, start of the first chunk
  data : List Slot
  ls : Nat
  le : Nat
  chunks : List LChunk            -- chunks this loader loads itself
  waitN : Nat                     -- messages still to be read from waitC
  gotErr : Bool
  loadPending : Bool              -- own loader call in flight
  finished : Bool
  began : Int                     -- ghost
  stale : Int                     -- staleAcceptPeriod, ns
deriving DecidableEq, Repr

structure Info where
  size : Int := 0
  buckets : Int := 0
  chunkLen : Int := 0
  chunks : Int := 0
deriving DecidableEq, Repr

structure St where
  cfg : Cfg
  chunks : List Chunk := []
  buckets : List Bucket := []     -- bucketL order
  loaders : List Loader := []
  info : Info := {}
  maxSize : Int := 0
  soft : Int := 0
  down : Bool := false
  tick : Nat := 0                 -- ghost: number of the current operation
  clock : Int := 0                -- ghost: `now` of the previous operation
  /-- ghost monitor (not in the Go code): set when a request that accepts no staleness is served, from the
      cache, a cell whose load finished before an invalidation that hit the chunk before the request began -/
  bad : Bool := false
deriving DecidableEq, Repr

def init (cfg : Cfg) : St := { cfg := cfg }

/-! ### list helpers -/

def modAt {α} (f : α → α) : Nat → List α → List α
  | _, [] => []
  | 0, x :: xs => f x :: xs
  | n + 1, x :: xs => x :: modAt f n xs

def setRange {α} (dst : List α) (at_ : Nat) (src : List α) : List α :=
  dst.take at_ ++ src.take (dst.length - at_) ++ dst.drop (at_ + src.length)

def slice {α} (l : List α) (a b : Nat) : List α := (l.drop a).take (b - a)

/-! ### sizes (tscache2_size.go) -/

/-- number of rows the storage stub produces for slot time `t` at storage version `ver`: 0, 1 or 2 — rows appear and
    disappear between versions. A cell with 0 rows is an empty slice in Go (`some` = the slot was written). -/
def rowsOf (cfg : Cfg) (t : Int) (ver : Nat) : Nat := ((t / cfg.step + ver) % 3).toNat

def slotSize (cfg : Cfg) : Slot → Int
  | none => cfg.col
  | some c => cfg.col + rowsOf cfg c.t c.ver * cfg.row

def slotsSize (cfg : Cfg) (l : List Slot) : Int := (l.map (slotSize cfg)).foldl (· + ·) 0

/-- the three `sizeofCache2Data` calls of `loadChunks` on sub-slices of `l.data` (capacity excess counts) -/
def chunkBytes (cfg : Cfg) (n : Nat) (lc : LChunk) (stop : Nat) (chunkData : List Slot) : Int :=
  (cfg.col : Int) * (3 * (n : Int) - lc.ls - lc.le - stop) + slotsSize cfg chunkData

/-! ### maybeAddChunk -/

def needFull (c : Chunk) (force : Bool) : Bool := c.data.isNone || c.lsa < c.stop || force
def isInvalid (c : Chunk) : Bool := c.invAt != 0
def waitsInvalid (c : Chunk) (now stale : Int) : Bool := now - c.invAt >= stale
def inLinger (c : Chunk) : Bool := c.lsa < c.stop + linger

def wantLoad (c : Chunk) (force : Bool) : Bool := needFull c force || isInvalid c || inLinger c
def wantWait (c : Chunk) (force : Bool) (now stale : Int) : Bool :=
  needFull c force || (isInvalid c && waitsInvalid c now stale)

structure InitSt where
  chunks : List Chunk
  cids : List Nat
  l : Loader
  pend : List LChunk
  fresh : Nat
  bad : Bool := false             -- ghost monitor, see `St.bad`
deriving Repr

/-- what a dangling index denotes (never happens: indices are only created by `visit`) -/
def noChunk : Chunk :=
  { start := 0, stop := 0, key := 0, data := none, awaiters := [], invAt := 0, lsa := 0,
    lastAccess := 0, size := 0, loading := 0, detached := true, lastInv := 0 }

def getChunk (cs : List Chunk) (cid : Nat) : Chunk := cs.getD cid noChunk

def startLoad (now : Int) (c : Chunk) : Chunk := { c with loading := c.loading + 1, lsa := now }
def touch (now : Int) (c : Chunk) : Chunk := { c with lastAccess := now }

def awaitChunk (s : InitSt) (v : LChunk) : InitSt :=
  { s with
    chunks := modAt (fun c => { c with awaiters := c.awaiters ++ [{ req := s.l.id, ls := v.ls, le := v.le, off := v.ls - v.pos }] }) v.cid s.chunks
    l := { s.l with waitN := s.l.waitN + 1 } }

/-- some cell of the chunk comes from a load that finished before the last invalidation of the chunk -/
def hasStale (c : Chunk) : Bool :=
  match c.data with
  | none => false
  | some d => d.any (fun x => match x with | none => false | some cell => decide (cell.fin < c.lastInv))

def copyChunk (s : InitSt) (v : LChunk) : InitSt :=
  match (getChunk s.chunks v.cid).data with
  | none => s       -- Go would panic; unreachable (wait = false only if data ≠ nil)
  | some d => { s with l := { s.l with data := setRange s.l.data v.ls (slice d (v.ls - v.pos) (v.le - v.pos)) }
                       bad := s.bad || (s.l.stale == 0 && hasStale (getChunk s.chunks v.cid)) }

def awaitCopyOne (s : InitSt) (v : LChunk) : InitSt := if v.wait then awaitChunk s v else copyChunk s v

def awaitCopy (s : InitSt) : InitSt := { (s.pend.foldl awaitCopyOne s) with pend := [] }

def adoptOne (now : Int) (s : InitSt) (v : LChunk) : InitSt :=
  { s with chunks := modAt (startLoad now) v.cid s.chunks, l := { s.l with chunks := s.l.chunks ++ [v] } }

def adoptPend (now : Int) (s : InitSt) : InitSt := { (s.pend.foldl (adoptOne now) s) with pend := [] }

def mkLChunk (cfg : Cfg) (l : Loader) (c : Chunk) (cid pos : Nat) (now : Int) : LChunk :=
  { cid := cid, pos := pos, ls := max pos l.ls, le := min l.le (pos + cfg.K),
    load := wantLoad c l.force, wait := wantWait c l.force now l.stale }

def loadsItself (c : Chunk) (lc : LChunk) : Bool := lc.load && c.loading == 0

def maybeAdd (cfg : Cfg) (now : Int) (s : InitSt) (cid pos : Nat) : InitSt :=
  let c := getChunk s.chunks cid
  let lc := mkLChunk cfg s.l c cid pos now
  let s1 :=
    if loadsItself c lc then
      let s2 := if s.l.chunks.isEmpty then awaitCopy s else adoptPend now s
      { s2 with chunks := modAt (startLoad now) cid s2.chunks, l := { s2.l with chunks := s2.l.chunks ++ [lc] } }
    else { s with pend := s.pend ++ [lc] }
  { s1 with chunks := modAt (touch now) cid s1.chunks }

/-! ### init: walk the chunk grid -/

def findCid (cs : List Chunk) (t : Int) : List Nat → Option Nat
  | [] => none
  | i :: is => if (getChunk cs i).start == t then some i else findCid cs t is

def insertCid (cs : List Chunk) (t : Int) (cid : Nat) : List Nat → List Nat
  | [] => [cid]
  | i :: is => if t < (getChunk cs i).start then cid :: i :: is else i :: insertCid cs t cid is

def newChunk (key : Nat) (t dur : Int) : Chunk :=
  { start := t, stop := t + dur, key := key, data := none, awaiters := [], invAt := 0, lsa := 0,
    lastAccess := 0, size := 0, loading := 0, detached := false, lastInv := 0 }

def visit (cfg : Cfg) (now : Int) (s : InitSt) (p : Nat) : InitSt :=
  let t := s.l.timeStart + p * cfg.dur
  match findCid s.chunks t s.cids with
  | some cid => maybeAdd cfg now s cid (p * cfg.K)
  | none =>
    let cid := s.chunks.length
    let s1 := { s with chunks := s.chunks ++ [newChunk s.l.key t cfg.dur], fresh := s.fresh + 1 }
    let s2 := maybeAdd cfg now s1 cid (p * cfg.K)
    { s2 with cids := insertCid s2.chunks t cid s2.cids }

def initLoader (cfg : Cfg) (now : Int) (chunks : List Chunk) (cids : List Nat) (l : Loader) (n : Nat) : InitSt :=
  awaitCopy ((List.range n).foldl (visit cfg now) { chunks := chunks, cids := cids, l := l, pend := [], fresh := 0 })

/-! ### Get -/

def chunkStartOf (cfg : Cfg) (t : Int) : Int := (t / cfg.dur) * cfg.dur

def chunkCount (cfg : Cfg) (first lodEnd : Int) : Nat := ((lodEnd - first + cfg.dur - 1) / cfg.dur).toNat

def staleOf (play : Int) : Int := if play == 1 then nsec else 0

def findBucket (key : Nat) : List Bucket → Option Bucket
  | [] => none
  | b :: bs => if b.key == key then some b else findBucket key bs

def putBucket (b : Bucket) : List Bucket → List Bucket
  | [] => [b]
  | x :: xs => if x.key == b.key then b :: xs else x :: putBucket b xs

def runLoader (l : Loader) : Loader :=
  let l1 := if l.chunks.isEmpty then l else { l with waitN := l.waitN + 1, loadPending := true }
  if l1.waitN == 0 then { l1 with finished := true } else l1

inductive GetOut
  | bad | empty | started (l : Loader)
deriving Repr

/-! ### trimming -/

def sumSizes (cs : List Chunk) : Int := (cs.map (·.size)).foldl (· + ·) 0

def detach (c : Chunk) : Chunk := { c with size := 0, data := none, detached := true }

/-- `removeChunksNotUsedAfterUnlocked t` on bucket chunk ids; returns kept ids, chunks, freed bytes, removed count.
    The Go loop deletes a run `[i, j)` of unused chunks with `slices.Delete` and then continues at `i = j`
    in the *shortened* slice, so the `j - i` chunks that followed the run are stepped over unexamined
    (the first of them is the used chunk that ended the run). `skip` counts chunks still to step over,
    `run` the length of the current run of unused chunks. -/
def removeUnusedGo (t : Int) : (skip run : Nat) → List Nat → List Chunk → List Nat × List Chunk × Int × Nat
  | _, _, [], cs => ([], cs, 0, 0)
  | skip + 1, _, i :: is, cs =>
    let r := removeUnusedGo t skip 0 is cs
    (i :: r.1, r.2.1, r.2.2.1, r.2.2.2)
  | 0, run, i :: is, cs =>
    let c := getChunk cs i
    if c.lastAccess < t then
      let r := removeUnusedGo t 0 (run + 1) is (modAt detach i cs)
      (r.1, r.2.1, r.2.2.1 + c.size, r.2.2.2 + 1)
    else
      let r := removeUnusedGo t (run - 1) 0 is cs
      (i :: r.1, r.2.1, r.2.2.1, r.2.2.2)

def removeUnused (t : Int) (cids : List Nat) (cs : List Chunk) : List Nat × List Chunk × Int × Nat :=
  removeUnusedGo t 0 0 cids cs

def applyTrim (s : St) (freed : Int) (removed : Nat) : Info :=
  { s.info with size := s.info.size - freed, chunkLen := s.info.chunkLen - removed * s.cfg.K, chunks := s.info.chunks - removed }

def trimChunks (s : St) (key : Nat) (t : Int) : St :=
  match findBucket key s.buckets with
  | none => s
  | some b =>
    let r := removeUnused t b.cids s.chunks
    { s with chunks := r.2.1, buckets := putBucket { b with cids := r.1 } s.buckets, info := applyTrim s r.2.2.1 r.2.2.2 }

def intMax : Int := 9223372036854775807

def removeBucket (s : St) (key : Nat) : St :=
  match findBucket key s.buckets with
  | none => s
  | some b =>
    let r := removeUnused intMax b.cids s.chunks
    let i := applyTrim s r.2.2.1 r.2.2.2
    { s with chunks := r.2.1, buckets := s.buckets.filter (fun x => x.key != key), info := { i with buckets := i.buckets - 1 } }

def resetAll (s : St) : St := (s.buckets.map (·.key)).foldl removeBucket s

/-- effective play interval of `cache2Bucket.runtimeInfo` (ns; `none` = math.MaxInt) -/
def effPlay (b : Bucket) (now : Int) : Option Int :=
  let idle := now - b.lastAccess
  if b.play <= 0 || b.play * nsec + 5 * nsec < idle then none else some (b.play * nsec)

def bucketSize (cs : List Chunk) (b : Bucket) : Int := (b.cids.map (fun i => (getChunk cs i).size)).foldl (· + ·) 0

def playGt : Option Int → Option Int → Bool
  | none, none => false
  | none, some _ => true
  | some _, none => false
  | some a, some b => a > b

/-- cache2TrimBucketHeap.less: larger play interval, then longer idle, then larger size goes first -/
def evictBefore (cs : List Chunk) (now : Int) (a b : Bucket) : Bool :=
  let pa := effPlay a now; let pb := effPlay b now
  if pa != pb then playGt pa pb
  else if a.lastAccess != b.lastAccess then a.lastAccess < b.lastAccess
  else bucketSize cs a > bucketSize cs b

def victim (cs : List Chunk) (now : Int) : List Bucket → Option Bucket
  | [] => none
  | b :: bs =>
    match victim cs now bs with
    | none => some b
    | some m => if evictBefore cs now m b then some m else some b

/-- `reduceMemoryUsage`: evict the heap minimum, stop as soon as size ≤ soft limit (do-while) -/
def reduce (now : Int) : Nat → St → St
  | 0, s => s
  | fuel + 1, s =>
    match victim s.chunks now s.buckets with
    | none => s
    | some b =>
      let s1 := removeBucket s b.key
      if s1.info.size <= s1.soft then s1 else reduce now fuel s1

/-- what the trim goroutine does once signalled -/
def trimPass (now : Int) (s : St) : St :=
  if s.soft < s.info.size then reduce now s.buckets.length s else s

/-- `updateRuntimeInfoUnlocked` signals the trim goroutine only when a limit is set -/
def afterUpdate (now : Int) (s : St) : St :=
  if s.maxSize != 0 && !s.down then trimPass now s else s

/-! ### operations -/

def opGet (s : St) (id key : Nat) (play : Int) (force : Bool) (fromSec toSec now : Int) : St × GetOut :=
  let d := toSec - fromSec
  if d % s.cfg.step != 0 then (s, .bad)
  else if d / s.cfg.step == 0 then (s, .empty)
  else
    let lodSize := (d / s.cfg.step).toNat
    let first := chunkStartOf s.cfg (fromSec * nsec)
    let n := chunkCount s.cfg first (toSec * nsec)
    let ls := ((fromSec * nsec - first) / (s.cfg.step * nsec)).toNat
    let (b, isNew) := match findBucket key s.buckets with
      | some b => (b, false)
      | none => ({ key := key, cids := [], lastAccess := 0, play := play }, true)
    let l : Loader := { id := id, key := key, play := play, force := force, timeStart := first,
                        data := List.replicate (n * s.cfg.K) none, ls := ls, le := ls + lodSize, chunks := [],
                        waitN := 0, gotErr := false, loadPending := false, finished := false,
                        began := now, stale := staleOf play }
    let r := initLoader s.cfg now s.chunks b.cids l n
    let b' : Bucket := { b with cids := r.cids, lastAccess := now, play := play }
    let l' := runLoader r.l
    let info : Info := { s.info with buckets := s.info.buckets + (if isNew then 1 else 0),
                                     chunkLen := s.info.chunkLen + r.fresh * s.cfg.K, chunks := s.info.chunks + r.fresh }
    let s' := { s with chunks := r.chunks, buckets := if isNew then s.buckets ++ [b'] else putBucket b' s.buckets,
                       loaders := s.loaders ++ [l'], info := info, bad := s.bad || r.bad }
    (afterUpdate now s', .started l')

/-- the storage stub: one cell per slot of the loaded range -/
def stubCells (cfg : Cfg) (key ver load : Nat) (tick : Nat) (fromSec : Int) (n : Nat) : List Slot :=
  (List.range n).map (fun (i : Nat) => some { t := fromSec + (i : Int) * cfg.step, key := key, ver := ver, load := load, fin := tick })

def deliver (ok : Bool) (src : List Slot) (a : Awaiter) (l : Loader) : Loader :=
  if l.id != a.req then l else
  let l1 := if ok then { l with data := setRange l.data a.ls (slice src a.off (a.off + (a.le - a.ls))) } else l
  let l2 := { l1 with waitN := l1.waitN - 1, gotErr := l1.gotErr || !ok }
  if l2.waitN == 0 then { l2 with finished := true } else l2

def publish (ok : Bool) (chunkData : List Slot) (bytes : Int) (c : Chunk) : Chunk :=
  let c0 := { c with awaiters := [] }
  if c.detached then c0
  else if ok then
    { c0 with data := some chunkData, size := bytes, invAt := if c.lsa < c.invAt then c.invAt else 0, loading := c.loading - 1 }
  else { c0 with loading := c.loading - 1 }

structure FinSt where
  chunks : List Chunk
  loaders : List Loader
  dsize : Int
  start : Nat

/-- one iteration of the post-load loop of `loadChunks`. `cells` is what the storage call wrote into
    `ret = l.data[first.chunkStart:last.chunkEnd]` (`base = first.chunkStart`); `chunkData = l.data[start:end]`
    aliases `ret[start-base : end-base]` because `start` runs from `base` in steps of the chunk size. -/
def finChunk (cfg : Cfg) (ok : Bool) (data cells : List Slot) (base : Nat) (s : FinSt) (v : LChunk) : FinSt :=
  let stop := s.start + cfg.K
  let chunkData := if ok then slice cells (s.start - base) (stop - base) else slice data s.start stop
  let bytes := chunkBytes cfg data.length v stop chunkData
  let c := getChunk s.chunks v.cid
  let dsize := if !c.detached && ok then bytes - c.size else 0
  { chunks := modAt (publish ok chunkData bytes) v.cid s.chunks
    loaders := c.awaiters.foldl (fun ls a => ls.map (deliver ok chunkData a)) s.loaders
    dsize := s.dsize + dsize
    start := stop }

def ownMessage (ok : Bool) (data : List Slot) (l : Loader) : Loader :=
  let l2 := { l with data := data, waitN := l.waitN - 1, gotErr := l.gotErr || !ok, loadPending := false }
  if l2.waitN == 0 then { l2 with finished := true } else l2

def findLoader (id : Nat) : List Loader → Option Loader
  | [] => none
  | l :: ls => if l.id == id then some l else findLoader id ls

/-- `loadChunks` of loader `l` (first chunk `first`) from the moment the storage call returns -/
def finApply (s : St) (l : Loader) (first : LChunk) (ok : Bool) (ver : Nat) (now : Int) : St :=
  let n := l.chunks.length * s.cfg.K
  let fromSec := (getChunk s.chunks first.cid).start / nsec
  let cells := stubCells s.cfg l.key ver l.id s.tick fromSec n
  let data := if ok then setRange l.data first.pos cells else l.data
  let loaders1 := s.loaders.map (fun x => if x.id == l.id then ownMessage ok data x else x)
  let r := l.chunks.foldl (finChunk s.cfg ok data cells first.pos) { chunks := s.chunks, loaders := loaders1, dsize := 0, start := first.pos }
  afterUpdate now { s with chunks := r.chunks, loaders := r.loaders, info := { s.info with size := s.info.size + r.dsize } }

def opFin (s : St) (id : Nat) (ok : Bool) (ver : Nat) (now : Int) : Option St :=
  match findLoader id s.loaders with
  | none => none
  | some l =>
    if !l.loadPending then none else
    match l.chunks with
    | [] => none
    | first :: _ => some (finApply s l first ok ver now)

/-- `cache2.invalidate`: seconds → distinct chunk starts -/
def invStarts (cfg : Cfg) : List Int → Option Int → List Int
  | [], _ => []
  | t :: ts, none => let st := chunkStartOf cfg (t * nsec); st :: invStarts cfg ts (some (st + cfg.dur))
  | t :: ts, some stop =>
    if stop <= t * nsec then let st := chunkStartOf cfg (t * nsec); st :: invStarts cfg ts (some (st + cfg.dur))
    else invStarts cfg ts (some stop)

def invalidateChunk (now : Int) (tick : Nat) (c : Chunk) : Chunk := { c with invAt := now, lastInv := tick }

/-- the merge walk of `cache2Bucket.invalidate` over (sorted) chunk starts and the bucket's chunks -/
def invWalkF (now : Int) (tick : Nat) : Nat → List Int → List Nat → List Chunk → List Chunk
  | 0, _, _, cs => cs
  | _ + 1, [], _, cs => cs
  | _ + 1, _, [], cs => cs
  | fuel + 1, t :: ts, i :: is, cs =>
    let st := (getChunk cs i).start
    if t < st then invWalkF now tick fuel ts (i :: is) cs
    else if st < t then invWalkF now tick fuel (t :: ts) is cs
    else invWalkF now tick fuel ts is (modAt (invalidateChunk now tick) i cs)

def invWalk (now : Int) (tick : Nat) (ts : List Int) (is : List Nat) (cs : List Chunk) : List Chunk :=
  invWalkF now tick (ts.length + is.length) ts is cs

def disjointRange (cs : List Chunk) (times : List Int) (cids : List Nat) : Bool :=
  match times.getLast?, times.head?, cids.head?, cids.getLast? with
  | some tl, some th, some ch, some cl => tl < (getChunk cs ch).start || (getChunk cs cl).start < th
  | _, _, _, _ => true

def invBucket (now : Int) (tick : Nat) (times : List Int) (cs : List Chunk) (b : Bucket) : List Chunk :=
  if disjointRange cs times b.cids then cs else invWalk now tick times b.cids cs

def opInv (s : St) (secs : List Int) (now : Int) : St :=
  let times := invStarts s.cfg secs none
  { s with chunks := s.buckets.foldl (invBucket now s.tick times) s.chunks }

/-- `setLimits` normalisation: no hard limit means no limits; a missing/too large soft limit is 80 % -/
def normMax (m : Int) : Int := if m <= 0 then 0 else m
def normSoft (m so : Int) : Int := if m <= 0 then 0 else if so <= 0 || m <= so then m * 4 / 5 else so

def sameLimits (s : St) (m so : Int) : Bool := s.down || (s.maxSize == m && s.soft == so)

def opLimits (s : St) (maxSize soft now : Int) : St :=
  if sameLimits s (normMax maxSize) (normSoft maxSize soft) then s
  else trimPass now { s with maxSize := normMax maxSize, soft := normSoft maxSize soft }

def opShutdown (s : St) (now : Int) : St :=
  reduce now s.buckets.length { s with down := true, maxSize := 0, soft := 0 }

inductive Op
  | get (id key : Nat) (play : Int) (force : Bool) (fromSec toSec now : Int)
  | fin (id : Nat) (ok : Bool) (ver : Nat) (now : Int)
  | inv (secs : List Int) (now : Int)
  | trimChunks (key : Nat) (t : Int) (now : Int)
  | rmBucket (key : Nat) (now : Int)
  | reset (now : Int)
  | limits (maxSize soft now : Int)
  | shutdown (now : Int)
deriving Repr

def Op.now : Op → Int
  | .get _ _ _ _ _ _ now => now
  | .fin _ _ _ now => now
  | .inv _ now => now
  | .trimChunks _ _ now => now
  | .rmBucket _ now => now
  | .reset now => now
  | .limits _ _ now => now
  | .shutdown now => now

def apply (s : St) : Op → St
  | .get id key play force f t now => (opGet s id key play force f t now).1
  | .fin id ok ver now => (opFin s id ok ver now).getD s
  | .inv secs now => opInv s secs now
  | .trimChunks key t now => afterUpdate now (trimChunks s key t)
  | .rmBucket key now => afterUpdate now (removeBucket s key)
  | .reset now => afterUpdate now (resetAll s)
  | .limits m so now => opLimits s m so now
  | .shutdown now => opShutdown s now

/-- one operation: bump the ghost op counter, run it, remember its clock reading -/
def step (s : St) (op : Op) : St := { (apply { s with tick := s.tick + 1 } op) with clock := op.now, tick := s.tick + 1 }

def run (s : St) (ops : List Op) : St := ops.foldl step s

end SH.TsCache
