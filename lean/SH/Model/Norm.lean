/-
  SH.Model.Norm — executable model of tag value normalisation (property C11), internal/format/format.go:
    bytePrint, validStringValue (ValidStringValue / ValidStringValueBytes),
    appendValidStringValue (AppendValidStringValue = strict, ForceValidStringValueBytes = force),
    ForceValidStringValue (string version with the "already valid" shortcut),
  plus the two library functions they call: unicode/utf8 DecodeRune and EncodeRune (modelled exactly, including the
  (RuneError, 1) answer for every malformed / truncated / overlong / surrogate / out-of-range sequence).
  unicode.IsSpace / unicode.IsPrint are parameters (`Tables`); the concrete tables are regenerated from the Go
  toolchain on every run (SH/Gen/C11.lean).  Runes are `Nat`, bytes `UInt8`.  Core Lean only.
-/
namespace SH.Norm

structure Tables where
  isSpace : Nat → Bool
  isPrint : Nat → Bool

/-- membership in a sorted list of inclusive ranges (early exit: the list is ascending) -/
def inRanges (r : Nat) : List (Nat × Nat) → Bool
  | [] => false
  | (lo, hi) :: rest => if r < lo then false else if r ≤ hi then true else inRanges r rest

def runeError : Nat := 0xFFFD

/-- format.bytePrint -/
def bytePrint (c : UInt8) : Bool := decide (0x20 ≤ c.toNat) && decide (c.toNat ≤ 0x7e)

def isSp (c : UInt8) : Bool := decide (c.toNat = 0x20)

def isCont (b : UInt8) : Bool := decide (0x80 ≤ b.toNat) && decide (b.toNat ≤ 0xBF)

def lo3 (x : Nat) : Nat := if x = 0xE0 then 0xA0 else 0x80
def hi3 (x : Nat) : Nat := if x = 0xED then 0x9F else 0xBF
def lo4 (x : Nat) : Nat := if x = 0xF0 then 0x90 else 0x80
def hi4 (x : Nat) : Nat := if x = 0xF4 then 0x8F else 0xBF

def ok2 (b1 : UInt8) : Bool := isCont b1
def ok3 (x : Nat) (b1 b2 : UInt8) : Bool := decide (lo3 x ≤ b1.toNat) && decide (b1.toNat ≤ hi3 x) && isCont b2
def ok4 (x : Nat) (b1 b2 b3 : UInt8) : Bool :=
  decide (lo4 x ≤ b1.toNat) && decide (b1.toNat ≤ hi4 x) && isCont b2 && isCont b3

def dec2 (x : Nat) : List UInt8 → Nat × Nat
  | b1 :: _ => if ok2 b1 then ((x - 0xC0) * 64 + (b1.toNat - 0x80), 2) else (runeError, 1)
  | _ => (runeError, 1)

def dec3 (x : Nat) : List UInt8 → Nat × Nat
  | b1 :: b2 :: _ =>
    if ok3 x b1 b2 then ((x - 0xE0) * 4096 + (b1.toNat - 0x80) * 64 + (b2.toNat - 0x80), 3) else (runeError, 1)
  | _ => (runeError, 1)

def dec4 (x : Nat) : List UInt8 → Nat × Nat
  | b1 :: b2 :: b3 :: _ =>
    if ok4 x b1 b2 b3 then
      ((x - 0xF0) * 262144 + (b1.toNat - 0x80) * 4096 + (b2.toNat - 0x80) * 64 + (b3.toNat - 0x80), 4)
    else (runeError, 1)
  | _ => (runeError, 1)

/-- utf8.DecodeRune: (rune, width).  Empty input: (RuneError, 0); anything malformed: (RuneError, 1). -/
def decodeRune : List UInt8 → Nat × Nat
  | [] => (runeError, 0)
  | b0 :: rest =>
    if b0.toNat < 0x80 then (b0.toNat, 1)
    else if b0.toNat < 0xC2 then (runeError, 1)
    else if b0.toNat < 0xE0 then dec2 b0.toNat rest
    else if b0.toNat < 0xF0 then dec3 b0.toNat rest
    else if b0.toNat < 0xF5 then dec4 b0.toNat rest
    else (runeError, 1)

def byte (n : Nat) : UInt8 := UInt8.ofNat n

def isSurrogate (r : Nat) : Bool := decide (0xD800 ≤ r) && decide (r ≤ 0xDFFF)

/-- utf8.EncodeRune / AppendRune -/
def encodeRune (r : Nat) : List UInt8 :=
  if r < 0x80 then [byte r]
  else if r < 0x800 then [byte (0xC0 + r / 64), byte (0x80 + r % 64)]
  else if decide (r > 0x10FFFF) || isSurrogate r then [0xEF, 0xBF, 0xBD]
  else if r < 0x10000 then [byte (0xE0 + r / 4096), byte (0x80 + r / 64 % 64), byte (0x80 + r % 64)]
  else [byte (0xF0 + r / 262144), byte (0x80 + r / 4096 % 64), byte (0x80 + r / 64 % 64), byte (0x80 + r % 64)]

/-- `c == utf8.RuneError && nr <= 1` -/
def badRune (d : Nat × Nat) : Bool := decide (d.1 = runeError) && decide (d.2 ≤ 1)

/-! ### validStringValue -/

/-- the loop of validStringValue; `prev` = previousSpace. Fuel = remaining length + 1 is always enough. -/
def validLoop (T : Tables) : Nat → List UInt8 → Bool → Bool
  | 0, _, _ => false
  | _ + 1, [], prev => !prev
  | f + 1, c :: rest, prev =>
    if bytePrint c then
      if isSp c && prev then false else validLoop T f rest (isSp c)
    else
      let d := decodeRune (c :: rest)
      if badRune d then false
      else if T.isSpace d.1 then false
      else if !T.isPrint d.1 then false
      else validLoop T f ((c :: rest).drop d.2) false

/-- format.validStringValue(s, maxLen) -/
def valid (T : Tables) (maxLen : Nat) (s : List UInt8) : Bool :=
  if s.length > maxLen then false
  else if s.isEmpty then true
  else validLoop T (s.length + 1) s true

/-! ### appendValidStringValue -/

/-- fast path scan: none = leave the fast path, some prev = all bytes printable ASCII without double spaces -/
def fastLoop : List UInt8 → Bool → Option Bool
  | [], prev => some prev
  | c :: rest, prev =>
    if !bytePrint c then none
    else if isSp c && prev then none
    else fastLoop rest (isSp c)

def fastOk (s : List UInt8) : Bool := fastLoop s true == some false

/-- what the slow path does with one decoded rune: none = skip it (repeated space), some (rune to write, isSpace) -/
def classify (T : Tables) (r : Nat) (prev : Bool) : Option (Nat × Bool) :=
  if T.isSpace r then (if prev then none else some (0x20, true))
  else if !T.isPrint r then some (runeError, false)
  else some (r, false)

/-- the slow-path loop: state = bytes written so far (`out`, w = out.length) and previousSpace.
    none = errBadEncoding (only when `force` is false). -/
def slowLoop (T : Tables) (force : Bool) (maxLen : Nat) : Nat → List UInt8 → List UInt8 → Bool → Option (List UInt8 × Bool)
  | 0, _, out, prev => some (out, prev)
  | _ + 1, [], out, prev => some (out, prev)
  | f + 1, c :: rest, out, prev =>
    let d := decodeRune (c :: rest)
    if badRune d && !force then none
    else match classify T d.1 prev with
      | none => slowLoop T force maxLen f ((c :: rest).drop d.2) out prev
      | some (r, sp) =>
        if out.length + (encodeRune r).length > maxLen then some (out, prev)
        else slowLoop T force maxLen f ((c :: rest).drop d.2) (out ++ encodeRune r) sp

/-- `if previousSpace && w != 0 { w-- }` -/
def trimLast (o : List UInt8 × Bool) : List UInt8 := if o.2 && !o.1.isEmpty then o.1.dropLast else o.1

/-- format.appendValidStringValue(dst, src, maxLen, force); none = errBadEncoding -/
def appendValid (T : Tables) (maxLen : Nat) (force : Bool) (dst src : List UInt8) : Option (List UInt8) :=
  if src.isEmpty then some dst
  else if decide (src.length ≤ maxLen) && fastOk src then some (dst ++ src)
  else (slowLoop T force maxLen (src.length + 1) src [] true).map (fun o => dst ++ trimLast o)

/-- format.AppendValidStringValue -/
def strict (T : Tables) (maxLen : Nat) (dst src : List UInt8) : Option (List UInt8) := appendValid T maxLen false dst src

/-- format.ForceValidStringValueBytes (the error of appendValidStringValue is dropped: it cannot occur with force) -/
def force (T : Tables) (maxLen : Nat) (src : List UInt8) : List UInt8 := (appendValid T maxLen true [] src).getD []

/-- format.ForceValidStringValue (string version) -/
def forceStr (T : Tables) (maxLen : Nat) (src : List UInt8) : List UInt8 :=
  if valid T maxLen src then src else force T maxLen src

/-! ### in-place normalisation: ForceValidStringValueBytes(b) = appendValidStringValue(b[:0], b, …, true)

  dst and src are two slice headers over ONE backing array.  The model below is at the level of that array: every
  read of `src[r:]` looks at the array as it is at that moment, every write says where it lands.
  `WriteMode.buffered` is the code as it is (the slow path assembles the result in the local `buf` and touches the
  shared array only in the final `append(dst, buf[:w]...)`); `WriteMode.direct` is the variant that appends every
  rune straight to dst — kept to show why the buffer is needed. -/

inductive WriteMode
  | buffered
  | direct
  deriving DecidableEq, Repr

structure IPState where
  arr      : List UInt8   -- the backing array b[:cap(b)]
  detached : Bool         -- direct mode: append had to reallocate, dst no longer aliases the array
  out      : List UInt8   -- buffered: buf[:w]; direct: the contents of dst
  prev     : Bool         -- previousSpace
  deriving DecidableEq, Repr

/-- overwrite `arr[off : off+len(e)]` (the caller guarantees it fits) -/
def poke (arr : List UInt8) (off : Nat) (e : List UInt8) : List UInt8 :=
  arr.take off ++ e ++ arr.drop (off + e.length)

/-- one emission: where the bytes of a rune go -/
def emitIP (mode : WriteMode) (st : IPState) (e : List UInt8) (sp : Bool) : IPState :=
  match mode with
  | .buffered => { st with out := st.out ++ e, prev := sp }
  | .direct =>
    if !st.detached && decide (st.out.length + e.length ≤ st.arr.length) then
      { st with arr := poke st.arr st.out.length e, out := st.out ++ e, prev := sp }
    else { st with detached := true, out := st.out ++ e, prev := sp }

/-- the slow-path loop over the shared array: `n` = len(src), `r` = read index -/
def slowLoopIP (mode : WriteMode) (T : Tables) (maxLen : Nat) : Nat → Nat → Nat → IPState → IPState
  | 0, _, _, st => st
  | f + 1, n, r, st =>
    match (st.arr.take n).drop r with
    | [] => st
    | c :: rest =>
      let d := decodeRune (c :: rest)
      match classify T d.1 st.prev with
      | none => slowLoopIP mode T maxLen f n (r + d.2) st
      | some (ru, sp) =>
        if st.out.length + (encodeRune ru).length > maxLen then st
        else slowLoopIP mode T maxLen f n (r + d.2) (emitIP mode st (encodeRune ru) sp)

structure IPResult where
  value   : List UInt8   -- the returned slice
  arr     : List UInt8   -- the caller's backing array afterwards
  aliased : Bool         -- the returned slice still points into the caller's array
  deriving DecidableEq, Repr

/-- `append(b[:0], v...)` on the caller's array: in place when it fits the capacity, a fresh array otherwise -/
def appendAtZero (arr v : List UInt8) : IPResult :=
  if v.length ≤ arr.length then { value := v, arr := poke arr 0 v, aliased := true }
  else { value := v, arr := arr, aliased := false }

/-- ForceValidStringValueBytes on a slice of length `n` whose backing array is `arr` (n ≤ arr.length = cap) -/
def forceInPlace (mode : WriteMode) (T : Tables) (maxLen : Nat) (arr : List UInt8) (n : Nat) : IPResult :=
  let src := arr.take n
  if src.isEmpty then { value := [], arr := arr, aliased := true }
  else if decide (src.length ≤ maxLen) && fastOk src then appendAtZero arr src   -- append(dst, src...): memmove onto itself
  else
    let st := slowLoopIP mode T maxLen (n + 1) n 0 { arr := arr, detached := false, out := [], prev := true }
    match mode with
    | .buffered => appendAtZero st.arr (trimLast (st.out, st.prev))
    | .direct =>
      -- `dst = dst[:len(dst)-1]` for a trailing space; the bytes are already in place
      { value := trimLast (st.out, st.prev), arr := st.arr, aliased := !st.detached }

end SH.Norm
