/-
  SH.Model.PromLex — byte-level model of the string-literal part of internal/promql/parser/lex.go (property C28, lexical layer).

  `lexStringTok` is lexStatements on a quote character followed by lexString / lexEscape / lexRawString: it returns the
  text of the STRING token (quotes included) and the remaining input, `none` when the lexer emits an error. The lexer reads
  runes, but it only ever compares them with ASCII characters and every byte of a multi-byte or invalid sequence is
  ≥ 0x80, so scanning bytes is the same function. Bytes are `Nat`s.
  `renderQ` writes a string the way strconv.Quote (`%q`, used by StringLiteral.String and labels.Matcher.String) does:
  plain bytes, two-character escapes, `\xHH`, `\uHHHH`, `\UHHHHHHHH` (it never writes octal escapes).
  Core Lean only.
-/
namespace SH.PromLex

def cBackslash : Nat := 92
def cDq : Nat := 34
def cSq : Nat := 39
def cBt : Nat := 96
def cNl : Nat := 10

/-- lex.go digitVal: 16 for a non-digit -/
def digitVal (c : Nat) : Nat :=
  if 48 ≤ c ∧ c ≤ 57 then c - 48
  else if 97 ≤ c ∧ c ≤ 102 then c - 97 + 10
  else if 65 ≤ c ∧ c ≤ 70 then c - 65 + 10
  else 16

/-- the escapes of one character after the backslash: a b f n r t v \ and the quote that opened the string -/
def isShortEsc (q c : Nat) : Bool :=
  c == 97 || c == 98 || c == 102 || c == 110 || c == 114 || c == 116 || c == 118 || c == cBackslash || c == q

def validRune (x : Nat) : Bool := x ≤ 0x10FFFF && !(0xD800 ≤ x && x < 0xE000)

/-- value of a run of digits in `base`, `none` if one is not a digit of that base ("illegal character in escape sequence") -/
def digitsVal (base : Nat) : List Nat → Option Nat
  | [] => some 0
  | ds => ds.foldl (fun acc d => match acc with
      | none => none
      | some x => if digitVal d < base then some (x * base + digitVal d) else none) (some 0)

/-- lexString with lexEscape inlined: scans the body of a quoted string after the opening quote `q`;
    returns the body (escapes verbatim) and the input after the closing quote -/
def lexString (q : Nat) : List Nat → Option (List Nat × List Nat)
  | [] => none                                             -- unterminated quoted string
  | c :: cs =>
    if c = cBackslash then
      match cs with
      | [] => none                                         -- escape sequence not terminated
      | e :: cs1 =>
        if isShortEsc q e then
          (lexString q cs1).map (fun r => (c :: e :: r.1, r.2))
        else if 48 ≤ e ∧ e ≤ 55 then                        -- \NNN: three octal digits, value ≤ 255
          match cs1 with
          | d2 :: d3 :: cs2 =>
            match digitsVal 8 [e, d2, d3] with
            | some x => if x ≤ 255 then (lexString q cs2).map (fun r => (c :: e :: d2 :: d3 :: r.1, r.2)) else none
            | none => none
          | _ => none
        else if e = 120 then                                -- \xHH
          match cs1 with
          | d1 :: d2 :: cs2 =>
            match digitsVal 16 [d1, d2] with
            | some _ => (lexString q cs2).map (fun r => (c :: e :: d1 :: d2 :: r.1, r.2))
            | none => none
          | _ => none
        else if e = 117 then                                -- \uHHHH
          match cs1 with
          | d1 :: d2 :: d3 :: d4 :: cs2 =>
            match digitsVal 16 [d1, d2, d3, d4] with
            | some x => if validRune x then (lexString q cs2).map (fun r => (c :: e :: d1 :: d2 :: d3 :: d4 :: r.1, r.2)) else none
            | none => none
          | _ => none
        else if e = 85 then                                 -- \UHHHHHHHH
          match cs1 with
          | d1 :: d2 :: d3 :: d4 :: d5 :: d6 :: d7 :: d8 :: cs2 =>
            match digitsVal 16 [d1, d2, d3, d4, d5, d6, d7, d8] with
            | some x => if validRune x then
                (lexString q cs2).map (fun r => (c :: e :: d1 :: d2 :: d3 :: d4 :: d5 :: d6 :: d7 :: d8 :: r.1, r.2)) else none
            | none => none
          | _ => none
        else none                                           -- unknown escape sequence
    else if c = cNl then none                               -- unterminated quoted string
    else if c = q then some ([], cs)
    else (lexString q cs).map (fun r => (c :: r.1, r.2))

/-- lexRawString: everything up to the next backtick -/
def lexRaw : List Nat → Option (List Nat × List Nat)
  | [] => none
  | c :: cs => if c = cBt then some ([], cs) else (lexRaw cs).map (fun r => (c :: r.1, r.2))

/-- the STRING token at the head of the input: (token text with its quotes, rest) -/
def lexStringTok : List Nat → Option (List Nat × List Nat)
  | [] => none
  | q :: cs =>
    if q = cDq ∨ q = cSq then (lexString q cs).map (fun r => (q :: r.1 ++ [q], r.2))
    else if q = cBt then (lexRaw cs).map (fun r => (q :: r.1 ++ [q], r.2))
    else none

/-! ## what strconv.Quote writes -/

inductive QItem
  | plain (c : Nat)                     -- a byte written as itself
  | short (c : Nat)                     -- \a \b \f \n \r \t \v \\ \"
  | hex2 (d1 d2 : Nat)                  -- \xHH (invalid UTF-8 bytes, control bytes)
  | u4 (d1 d2 d3 d4 : Nat)              -- \uHHHH (non-printable runes below 0x10000)
  | u8 (d1 d2 d3 d4 d5 d6 d7 d8 : Nat)  -- \UHHHHHHHH
deriving DecidableEq, Repr

def isHex (d : Nat) : Bool := digitVal d < 16

def QItem.ok : QItem → Bool
  | .plain c => c != cBackslash && c != cDq && c != cNl
  | .short c => isShortEsc cDq c
  | .hex2 d1 d2 => isHex d1 && isHex d2
  | .u4 d1 d2 d3 d4 => match digitsVal 16 [d1, d2, d3, d4] with
    | some x => validRune x
    | none => false
  | .u8 d1 d2 d3 d4 d5 d6 d7 d8 => match digitsVal 16 [d1, d2, d3, d4, d5, d6, d7, d8] with
    | some x => validRune x
    | none => false

def QItem.render : QItem → List Nat
  | .plain c => [c]
  | .short c => [cBackslash, c]
  | .hex2 d1 d2 => [cBackslash, 120, d1, d2]
  | .u4 d1 d2 d3 d4 => [cBackslash, 117, d1, d2, d3, d4]
  | .u8 d1 d2 d3 d4 d5 d6 d7 d8 => [cBackslash, 85, d1, d2, d3, d4, d5, d6, d7, d8]

/-- body of a `%q` string -/
def renderQ (items : List QItem) : List Nat := items.flatMap QItem.render

/-- the variant seeded as C28-3: lexEscape reads one more rune after the last digit of a numeric escape -/
def lexStringExtra (q : Nat) : List Nat → Option (List Nat × List Nat)
  | [] => none
  | c :: cs =>
    if c = cBackslash then
      match cs with
      | e :: d1 :: d2 :: _ :: cs2 =>
        if e = 120 then (lexStringExtra q cs2).map (fun r => (c :: e :: d1 :: d2 :: r.1, r.2)) else none
      | _ => none
    else if c = q then some ([], cs)
    else (lexStringExtra q cs).map (fun r => (c :: r.1, r.2))

end SH.PromLex
