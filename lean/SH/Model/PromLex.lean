/-
  SH.Model.PromLex — byte-level model of the string-literal part of internal/promql/parser/lex.go (property C28, lexical layer).

  `lexStringTok` is lexStatements on a quote character followed by lexString / lexEscape / lexRawString: it returns the
  text of the STRING token (quotes included) and the remaining input, `none` when the lexer emits an error. The lexer reads
  runes, but it only ever compares them with ASCII characters and every byte of a multi-byte or invalid sequence is
  ≥ 0x80, so scanning bytes is the same function. Bytes are `Nat`s.
  `renderQ` writes a string the way strconv.Quote (`%q`, used by StringLiteral.String and labels.Matcher.String) does:
  plain bytes, two-character escapes, `\xHH`, `\uHHHH`, `\UHHHHHHHH` (it never writes octal escapes).
  Core Lean only.
-/
namespace SH.PromLex

def cBackslash : Nat := 92
def cDq : Nat := 34
def cSq : Nat := 39
def cBt : Nat := 96
def cNl : Nat := 10

/-- lex.go digitVal: 16 for a non-digit -/
def digitVal (c : Nat) : Nat :=
  if 48 ≤ c ∧ c ≤ 57 then c - 48
  else if 97 ≤ c ∧ c ≤ 102 then c - 97 + 10
  else if 65 ≤ c ∧ c ≤ 70 then c - 65 + 10
  else 16

/-- the escapes of one character after the backslash: a b f n r t v \ and the quote that opened the string -/
def isShortEsc (q c : Nat) : Bool :=
  c == 97 || c == 98 || c == 102 || c == 110 || c == 114 || c == 116 || c == 118 || c == cBackslash || c == q

def validRune (x : Nat) : Bool := x ≤ 0x10FFFF && !(0xD800 ≤ x && x < 0xE000)

/-- value of a run of digits in `base`, `none` if one is not a digit of that base ("illegal character in escape sequence") -/
def digitsVal (base : Nat) : List Nat → Option Nat
  | [] => some 0
  | ds => ds.foldl (fun acc d => match acc with
      | none => none
      | some x => if digitVal d < base then some (x * base + digitVal d) else none) (some 0)

/-- lexString with lexEscape inlined: scans the body of a quoted string after the opening quote `q`;
    returns the body (escapes verbatim) and the input after the closing quote -/
def lexString (q : Nat) : List Nat → Option (List Nat × List Nat)
  | [] => none                                             -- unterminated quoted string
  | c :: cs =>
    if c = cBackslash then
      match cs with
      | [] => none                                         -- escape sequence not terminated
      | e :: cs1 =>
        if isShortEsc q e then
          (lexString q cs1).map (fun r => (c :: e :: r.1, r.2))
        else if 48 ≤ e ∧ e ≤ 55 then                        -- \NNN: three octal digits, value ≤ 255
          match cs1 with
          | d2 :: d3 :: cs2 =>
            match digitsVal 8 [e, d2, d3] with
            | some x => if x ≤ 255 then (lexString q cs2).map (fun r => (c :: e :: d2 :: d3 :: r.1, r.2)) else none
            | none => none
          | _ => none
        else if e = 120 then                                -- \xHH
          match cs1 with
          | d1 :: d2 :: cs2 =>
            match digitsVal 16 [d1, d2] with
            | some _ => (lexString q cs2).map (fun r => (c :: e :: d1 :: d2 :: r.1, r.2))
            | none => none
          | _ => none
        else if e = 117 then                                -- \uHHHH
          match cs1 with
          | d1 :: d2 :: d3 :: d4 :: cs2 =>
            match digitsVal 16 [d1, d2, d3, d4] with
            | some x => if validRune x then (lexString q cs2).map (fun r => (c :: e :: d1 :: d2 :: d3 :: d4 :: r.1, r.2)) else none
            | none => none
          | _ => none
        else if e = 85 then                                 -- \UHHHHHHHH
          match cs1 with
          | d1 :: d2 :: d3 :: d4 :: d5 :: d6 :: d7 :: d8 :: cs2 =>
            match digitsVal 16 [d1, d2, d3, d4, d5, d6, d7, d8] with
            | some x => if validRune x then
                (lexString q cs2).map (fun r => (c :: e :: d1 :: d2 :: d3 :: d4 :: d5 :: d6 :: d7 :: d8 :: r.1, r.2)) else none
            | none => none
          | _ => none
        else none                                           -- unknown escape sequence
    else if c = cNl then none                               -- unterminated quoted string
    else if c = q then some ([], cs)
    else (lexString q cs).map (fun r => (c :: r.1, r.2))

/-- lexRawString: everything up to the next backtick -/
def lexRaw : List Nat → Option (List Nat × List Nat)
  | [] => none
  | c :: cs => if c = cBt then some ([], cs) else (lexRaw cs).map (fun r => (c :: r.1, r.2))

/-- the STRING token at the head of the input: (token text with its quotes, rest) -/
def lexStringTok : List Nat → Option (List Nat × List Nat)
  | [] => none
  | q :: cs =>
    if q = cDq ∨ q = cSq then (lexString q cs).map (fun r => (q :: r.1 ++ [q], r.2))
    else if q = cBt then (lexRaw cs).map (fun r => (q :: r.1 ++ [q], r.2))
    else none

/-! ## what strconv.Quote writes -/

inductive QItem
  | plain (c : Nat)                     -- a byte written as itself
  | short (c : Nat)                     -- \a \b \f \n \r \t \v \\ \"
  | hex2 (d1 d2 : Nat)                  -- \xHH (invalid UTF-8 bytes, control bytes)
  | u4 (d1 d2 d3 d4 : Nat)              -- \uHHHH (non-printable runes below 0x10000)
  | u8 (d1 d2 d3 d4 d5 d6 d7 d8 : Nat)  -- \UHHHHHHHH
deriving DecidableEq, Repr

def isHex (d : Nat) : Bool := digitVal d < 16

def QItem.ok : QItem → Bool
  | .plain c => c != cBackslash && c != cDq && c != cNl
  | .short c => isShortEsc cDq c
  | .hex2 d1 d2 => isHex d1 && isHex d2
  | .u4 d1 d2 d3 d4 => match digitsVal 16 [d1, d2, d3, d4] with
    | some x => validRune x
    | none => false
  | .u8 d1 d2 d3 d4 d5 d6 d7 d8 => match digitsVal 16 [d1, d2, d3, d4, d5, d6, d7, d8] with
    | some x => validRune x
    | none => false

def QItem.render : QItem → List Nat
  | .plain c => [c]
  | .short c => [cBackslash, c]
  | .hex2 d1 d2 => [cBackslash, 120, d1, d2]
  | .u4 d1 d2 d3 d4 => [cBackslash, 117, d1, d2, d3, d4]
  | .u8 d1 d2 d3 d4 d5 d6 d7 d8 => [cBackslash, 85, d1, d2, d3, d4, d5, d6, d7, d8]

/-- body of a `%q` string -/
def renderQ (items : List QItem) : List Nat := items.flatMap QItem.render

/-- the variant seeded as C28-3: lexEscape reads one more rune after the last digit of a numeric escape -/
def lexStringExtra (q : Nat) : List Nat → Option (List Nat × List Nat)
  | [] => none
  | c :: cs =>
    if c = cBackslash then
      match cs with
      | e :: d1 :: d2 :: _ :: cs2 =>
        if e = 120 then (lexStringExtra q cs2).map (fun r => (c :: e :: d1 :: d2 :: r.1, r.2)) else none
      | _ => none
    else if c = q then some ([], cs)
    else (lexStringExtra q cs).map (fun r => (c :: r.1, r.2))

/-! ## numbers and durations: scanNumber, acceptRemainingDuration, lexNumberOrDuration, lexDuration (lex.go),
     model.ParseDuration + parser.parseDuration, and the printer's `%d` / `%ds` -/

def isDigitB (c : Nat) : Bool := 48 ≤ c && c ≤ 57
def isAlphaB (c : Nat) : Bool := c == 95 || (97 ≤ c && c ≤ 122) || (65 ≤ c && c ≤ 90)
def isAlnumB (c : Nat) : Bool := isAlphaB c || isDigitB c
def isHexDigitB (c : Nat) : Bool := isDigitB c || (97 ≤ c && c ≤ 102) || (65 ≤ c && c ≤ 70)

/-- the rune `peek` sees is alphanumeric (false at end of input) -/
def headAlnum : List Nat → Bool
  | c :: _ => isAlnumB c
  | [] => false

/-- `accept("0") && accept("xX")`: the rest after it and whether hexadecimal digits are accepted from here on -/
def scanPrefix : List Nat → Bool × List Nat
  | 48 :: c :: cs => if c = 120 ∨ c = 88 then (true, cs) else (false, c :: cs)
  | 48 :: [] => (false, [])
  | cs => (false, cs)

def scanFrac (p : Nat → Bool) : List Nat → List Nat
  | 46 :: cs => cs.dropWhile p
  | cs => cs

def scanSign : List Nat → List Nat
  | c :: cs => if c = 43 ∨ c = 45 then cs else c :: cs
  | [] => []

def scanExp : List Nat → List Nat
  | c :: cs => if c = 101 ∨ c = 69 then (scanSign cs).dropWhile isDigitB else c :: cs
  | [] => []

/-- scanNumber: (result, input after the consumed characters) -/
def scanNumber (cs : List Nat) : Bool × List Nat :=
  let p := scanPrefix cs
  let digits : Nat → Bool := if p.1 then isHexDigitB else isDigitB
  let r := scanExp (scanFrac digits (p.2.dropWhile digits))
  (!headAlnum r, r)

def isUnit1 (c : Nat) : Bool := c == 115 || c == 109 || c == 104 || c == 100 || c == 119 || c == 121   -- s m h d w y
def isUnit2 (c : Nat) : Bool := c == 115 || c == 109 || c == 104 || c == 100 || c == 119               -- s m h d w

/-- the loop of acceptRemainingDuration after the first unit: more `<digits><unit>[s]` groups, then a non-alphanumeric -/
def remDurLoop : Nat → List Nat → Option (List Nat)
  | 0, _ => none
  | f + 1, cs =>
    match cs with
    | c :: t =>
      if isDigitB c then
        match t.dropWhile isDigitB with
        | u :: t2 => if isUnit2 u then
            (match t2 with
             | 115 :: t3 => remDurLoop f t3
             | _ => remDurLoop f t2)
          else none
        | [] => none
      else if isAlnumB c then none else some (c :: t)
    | [] => some []

/-- acceptRemainingDuration: input after the duration, `none` when it returns false -/
def acceptRemDur : List Nat → Option (List Nat)
  | u :: t => if isUnit1 u then remDurLoop (t.length + 1) t else none
  | [] => none

inductive NumTok | num (len : Nat) | dur (len : Nat) | err
deriving DecidableEq, Repr

/-- lexNumberOrDuration (the input starts with a digit, or `.` and a digit) -/
def lexNumOrDur (cs : List Nat) : NumTok :=
  let s := scanNumber cs
  if s.1 then .num (cs.length - s.2.length)
  else match acceptRemDur s.2 with
    | some r => .dur (cs.length - r.length)
    | none => .err

/-- lexDuration (first token after `[`) -/
def lexDurationB (cs : List Nat) : NumTok :=
  let s := scanNumber cs
  if s.1 then .err                                  -- missing unit character in duration
  else match acceptRemDur s.2 with
    | some r => .dur (cs.length - r.length)
    | none => .err

/-- lexKeywordOrIdentifier: the word is the run of alphanumerics and colons -/
def isWordB (c : Nat) : Bool := isAlnumB c || c == 58
def lexWord (cs : List Nat) : List Nat × List Nat := (cs.takeWhile isWordB, cs.dropWhile isWordB)

/-- value of a run of decimal digits (strconv.ParseUint without its overflow test) -/
def readNat (ds : List Nat) : Nat := ds.foldl (fun acc d => acc * 10 + (d - 48)) 0

/-- model.ParseDuration unitMap: (position, nanoseconds) -/
def unitOf (u : List Nat) : Option (Nat × Nat) :=
  if u = [109, 115] then some (7, 1000000)
  else if u = [115] then some (6, 1000000000)
  else if u = [109] then some (5, 60000000000)
  else if u = [104] then some (4, 3600000000000)
  else if u = [100] then some (3, 86400000000000)
  else if u = [119] then some (2, 604800000000000)
  else if u = [121] then some (1, 31536000000000000)
  else none

/-- the loop of model.ParseDuration: nanoseconds -/
def parseDurLoop : Nat → List Nat → Nat → Nat → Option Nat
  | 0, _, _, _ => none
  | f + 1, s, last, dur =>
    match s with
    | [] => some dur
    | c :: _ =>
      if !isDigitB c then none
      else
        let ds := s.takeWhile isDigitB
        let s1 := s.dropWhile isDigitB
        let v := readNat ds
        if v ≥ 2 ^ 64 then none                                  -- strconv.ParseUint: value out of range
        else
          let u := s1.takeWhile (fun c => !isDigitB c)
          let s2 := s1.dropWhile (fun c => !isDigitB c)
          match unitOf u with
          | none => none                                         -- empty or unknown unit
          | some (pos, mult) =>
            if pos ≤ last then none
            else if v > 2 ^ 63 / mult then none
            else if dur + v * mult > 2 ^ 63 - 1 then none
            else parseDurLoop f s2 pos (dur + v * mult)

def parseDurNs (s : List Nat) : Option Nat :=
  if s = [48] then some 0 else if s = [] then none else parseDurLoop (s.length + 1) s 0 0

/-- parser.parseDuration: seconds, rounded half up (math.Round of a non-negative quotient; exact as long as the float64
    conversion of the nanoseconds is, i.e. below 2^59 ns ≈ 18 years — every duration is a multiple of 10^6 ns) -/
def parseDuration (s : List Nat) : Option Nat :=
  match parseDurNs s with
  | none => none
  | some d => if d = 0 then none else some ((d + 500000000) / 1000000000)

/-- decimal digits of n, most significant first (`%d`) -/
def digitsAux : Nat → Nat → List Nat
  | 0, n => [48 + n % 10]
  | f + 1, n => if n < 10 then [48 + n] else digitsAux f (n / 10) ++ [48 + n % 10]

def natDigits (n : Nat) : List Nat := digitsAux n n

/-- `%ds` -/
def printSeconds (n : Nat) : List Nat := natDigits n ++ [115]

/-- the shapes of a finite non-negative number as fmt.Sprint(float64) writes it: digits, optional `.digits`,
    optional `e±dd` -/
structure NumShape where
  int : List Nat
  frac : Option (List Nat)
  exp : Option (Bool × List Nat)       -- (negative exponent, digits)

def NumShape.ok (s : NumShape) : Bool :=
  !s.int.isEmpty && s.int.all isDigitB &&
  (match s.frac with | some f => !f.isEmpty && f.all isDigitB | none => true) &&
  (match s.exp with | some (_, e) => !e.isEmpty && e.all isDigitB | none => true)

def fracToks : Option (List Nat) → List Nat
  | some f => 46 :: f
  | none => []

def expToks : Option (Bool × List Nat) → List Nat
  | some (neg, e) => 101 :: (if neg then 45 else 43) :: e
  | none => []

def NumShape.render (s : NumShape) : List Nat := s.int ++ fracToks s.frac ++ expToks s.exp

/-! ## the `@ <timestamp>` clause: seconds as decimal text ↔ milliseconds -/

/-- three digits of n < 1000 (`%03d`) -/
def pad3Digits (r : Nat) : List Nat := [48 + r / 100 % 10, 48 + r / 10 % 10, 48 + r % 10]

/-- `%.3f` of k ms in seconds (k ≥ 0; the sign is a separate token) -/
def printMs (k : Nat) : List Nat := natDigits (k / 1000) ++ 46 :: pad3Digits (k % 1000)

/-- milliseconds of the decimal `ip.fp` seconds, rounded half up: what timestamp.FromFloatSeconds(strconv.ParseFloat(text))
    yields whenever the decimal is not exactly between two milliseconds (float64 error is far below the distance to the
    boundary for |ms| < 2^52 and up to 6 decimals; an exact half such as `1.0005` depends on float rounding and is not
    claimed) -/
def decMs (ip fp : List Nat) : Nat :=
  readNat ip * 1000 + readNat ((fp ++ [48, 48, 48]).take 3) +
    (match fp.drop 3 with
     | d :: _ => if d ≥ 53 then 1 else 0
     | [] => 0)

/-- decimal text `digits[.digits]` → ms -/
def atMs (cs : List Nat) : Option Nat :=
  let ip := cs.takeWhile isDigitB
  match cs.dropWhile isDigitB with
  | [] => some (decMs ip [])
  | 46 :: fp => if fp.all isDigitB then some (decMs ip fp) else none
  | _ => none

end SH.PromLex
