/-
  SH.Model.PromEval — executable model of the PromQL evaluator's aggregation operators, over-time functions and
  reduction (push-down) rules (property C27).

  Modelled code (/repo, branch for branch):
    internal/promql/functions.go   funcSum / funcMin / funcMax / funcAvg / funcCount / funcGroup / funcStdVar /
                                   funcStdDev / funcQuantile (per timestamp over one group)        → aggSum … aggQuantile
                                   aggregateAt0 (+ value.go Series.group / SeriesTags.hash: by/without key,
                                   unused tags removed)                                            → aggregate
                                   funcTopK (single time shift) + engine.go evaluator.weight       → topK / weight
    internal/promql/engine.go      evalBinary (CardOneToOne: scalar side, label-set matching, on/ignoring),
                                   slice<Op> / sliceFilter<Cmp> of functions.go                       → binApply / binVal
                                   window.moveOneLeft / setValueAtRight / fillPrefixWith            → moveOneLeft / setRight
                                   overTimeCall, func{Avg,Min,Max,Sum,Count,StdVar,StdDev,Last}OverTime,
                                   funcQuantileOverTime                                            → overTime / otApply
    internal/promql/reductions.go  evalReductionRules, reduce{MatrixSelector,SubQueryExpr,OverTimeCall,
                                   AggregateExpr}, reduceWhat                                      → evalReductionRules …
    internal/promql/engine.go      NewEvaluator (where a reduction is attached to the selector), eval (ars
                                   replacement, ev.r), querySeries/buildSeriesQuery (what / grouping / Range of the
                                   storage query), exec (empty series removed, values trimmed to StartX)  → evalChain / exec
  The storage behind promql.Handler.QuerySeries is the contract of internal/api (requestHandler.QuerySeries,
  tsValues.merge, tsValues.value): rows of one (group, time bucket) are merged and the requested `what` is selected
  → Row.merge / rowValue / queryStorage.  The harness' Handler stub calls the real merge/value through an accessor.

  Numbers are exact (`Rat`); a missing point (NaN / NilValue) is `none` (DESIGN §4.1: the harness stays inside the
  exact domain of float64 and re-checks that with big.Rat).  `sqrt` is exact on perfect squares only.
  Go map iteration order (groups) is not observable: results are compared sorted by tag set.

  `evalChainEarlyRange`: the mutation of seeded/C27-r3-2 (subquery range stored before the operand is evaluated).
  `aggregateRepoAlias`: the PRE-FIX (before commit 78db24c9) engine-side grouping for labels given by the legacy alias key<i> alone
  (fixes/C27-group-alias.diff); the model's labels are resolved tag indices, i.e. the fixed behaviour.
  `Cfg`: `.repo` is the pinned tree, `.fixed` the tree after fixes/C27-*.diff:
    whatFix   the `what` chosen by a reduction rule reaches the storage query (the pinned tree stores it in
              VectorSelector.What, which nothing reads; the query is built from VectorSelector.Whats)
    aggFix    group / stdvar / stddev yield a missing point where every input point is missing (pinned tree: 1 / 0 / 0);
              quantile interpolates over the present points only (pinned tree: sorts with NaNs in place over len(group) —
              that variant is not modelled, the model's quantile is the fixed one under both settings)
-/
import SH.Model.Core

namespace SH.PromEval

abbrev Val := Option Rat

structure Cfg where
  whatFix : Bool
  aggFix : Bool
deriving DecidableEq, Repr

def Cfg.repo : Cfg := ⟨false, false⟩
def Cfg.fixed : Cfg := ⟨true, true⟩

/-! ## aggregation over one group at one timestamp (`col` = the values of the group's series at that timestamp) -/

/-- the points that are not missing, in series order -/
def present (col : List Val) : List Rat := col.filterMap id

def ratSum (l : List Rat) : Rat := l.foldl (· + ·) 0

/-- funcSum: `if nan {res = v} else {res += v}` -/
def sumStep (acc : Val) (v : Val) : Val :=
  match v, acc with
  | none, a => a
  | some x, none => some x
  | some x, some r => some (r + x)
def aggSum (col : List Val) : Val := col.foldl sumStep none

/-- funcMax: `if nan || res < v {res = v}` -/
def maxStep (acc : Val) (v : Val) : Val :=
  match v, acc with
  | none, a => a
  | some x, none => some x
  | some x, some r => if r < x then some x else some r
def aggMax (col : List Val) : Val := col.foldl maxStep none

/-- funcMin: `if nan || v < res {res = v}` -/
def minStep (acc : Val) (v : Val) : Val :=
  match v, acc with
  | none, a => a
  | some x, none => some x
  | some x, some r => if x < r then some x else some r
def aggMin (col : List Val) : Val := col.foldl minStep none

/-- funcAvg -/
def aggAvg (col : List Val) : Val :=
  if (present col).length = 0 then none else some (ratSum (present col) / ((present col).length : Rat))

/-- funcCount (0, not missing, where nothing is present) -/
def aggCount (col : List Val) : Val := some ((present col).length : Rat)

/-- funcGroup -/
def aggGroup (cfg : Cfg) (col : List Val) : Val :=
  if cfg.aggFix then (if (present col).length = 0 then none else some 1) else some 1

/-- funcStdVar: mean, then `res += d*d/cnt`.  Pinned tree with cnt = 0: mean = NaN, the loop adds nothing, result 0. -/
def varOf (xs : List Rat) : Rat :=
  let n : Rat := (xs.length : Rat)
  let mean := ratSum xs / n
  ratSum (xs.map (fun v => (v - mean) * (v - mean) / n))
def aggStdVar (cfg : Cfg) (col : List Val) : Val :=
  if (present col).length = 0 then (if cfg.aggFix then none else some 0) else some (varOf (present col))

/-- exact on perfect squares (the harness only lets those through) -/
def sqrtExact (q : Rat) : Rat := ((Nat.sqrt q.num.toNat : Nat) : Rat) / ((Nat.sqrt q.den : Nat) : Rat)
def aggStdDev (cfg : Cfg) (col : List Val) : Val := (aggStdVar cfg col).map sqrtExact

def insertSorted (x : Rat) : List Rat → List Rat
  | [] => [x]
  | y :: ys => if x ≤ y then x :: y :: ys else y :: insertSorted x ys
def isort (l : List Rat) : List Rat := l.foldr insertSorted []

/-- the interpolation shared by funcQuantile (fixed) and funcQuantileOverTime, `xs` sorted, 0 ≤ q ≤ 1 -/
def quantileSorted (q : Rat) (xs : List Rat) : Val :=
  if xs.length = 0 then none else
  let ix : Rat := q * ((xs.length : Rat) - 1)
  let i1 : Nat := ix.floor.toNat
  let i2 : Nat := min (xs.length - 1) (i1 + 1)
  let w1 : Rat := (i2 : Rat) - ix
  let w2 : Rat := 1 - w1
  some (xs.getD i1 0 * w1 + xs.getD i2 0 * w2)
def aggQuantile (q : Rat) (col : List Val) : Val := quantileSorted q (isort (present col))

inductive AggOp | sum | min | max | avg | count | group | stddev | stdvar
deriving DecidableEq, Repr

def aggApply (cfg : Cfg) : AggOp → List Val → Val
  | .sum => aggSum | .min => aggMin | .max => aggMax | .avg => aggAvg | .count => aggCount
  | .group => aggGroup cfg | .stddev => aggStdDev cfg | .stdvar => aggStdVar cfg

/-! ## series, grouping -/

/-- tags: (tag index, mapped value) sorted by index -/
abbrev Tags := List (Nat × Int)

structure Series where
  tags : Tags
  vals : List Val
deriving DecidableEq, Repr

/-- Series.group / SeriesTags.hash: `by (labels)` keeps the listed tags, `without (labels)` the others -/
def keyOf (without : Bool) (labels : List Nat) (tags : Tags) : Tags :=
  tags.filter (fun t => if without then !labels.contains t.1 else labels.contains t.1)

def dedupKeys (l : List Tags) : List Tags := l.eraseDups

/-- timestamp-wise columns of a group -/
def columns (n : Nat) (ss : List Series) : List (List Val) :=
  (List.range n).map (fun i => ss.map (fun s => s.vals.getD i none))

/-- aggregateAt0 -/
def aggregate (n : Nat) (f : List Val → Val) (without : Bool) (labels : List Nat) (ss : List Series) : List Series :=
  (dedupKeys (ss.map (fun s => keyOf without labels s.tags))).map (fun k =>
    { tags := k, vals := (columns n (ss.filter (fun s => keyOf without labels s.tags = k))).map f })

/-- PRE-FIX witness only, not part of any evaluated variant: aggregateAt0 before fixes/C27-group-alias.diff (/repo 78db24c9) when some labels are given only by the legacy alias
    key<i> (`aliasOnly`, resolved tag indices) and the others by id or custom name (`named`): SeriesTags.Get resolves the
    alias, so `by` hashes the tag, but the used/unused test of SeriesTags.hash does not know the alias: `by` then removes
    the tag from the result as unused, `without` does not exclude it.  After the fix the labels are simply
    `named ++ aliasOnly` for `aggregate` (the model's labels are resolved tag indices). -/
def aggregateRepoAlias (n : Nat) (f : List Val → Val) (without : Bool) (named aliasOnly : List Nat) (ss : List Series) : List Series :=
  if without then aggregate n f true named ss
  else
    (dedupKeys (ss.map (fun s => keyOf false (named ++ aliasOnly) s.tags))).map (fun k =>
      { tags := keyOf false named k,
        vals := (columns n (ss.filter (fun s => keyOf false (named ++ aliasOnly) s.tags = k))).map f })

/-! ## the time scale and the window cursor -/

structure TS where
  times : List Int
  startX : Nat
  viewStart : Nat
  viewEnd : Nat
  lodStep : Int      -- ev.t.LODs[last].Step: the finest grid step (reduction threshold, initial cursor step)
  step : Int         -- the requested step (Timescale.Step)
  widths : List Int := []   -- per time index: the step of the LOD the point belongs to (bucket width); [] = lodStep everywhere
deriving Repr

def TS.width (ts : TS) (i : Nat) : Int := ts.widths.getD i ts.lodStep

structure Wnd where
  w : Int
  s : Int
  l : Nat
  r : Nat
  n : Nat
  strict : Bool
  done : Bool
deriving DecidableEq, Repr

def newWindow (len : Nat) (w step : Int) (strict : Bool) : Wnd :=
  { w := w, s := step, l := len, r := len, n := 0, strict := strict, done := len = 0 }

def isPresent {α : Type} (v : List (Option α)) (i : Nat) : Bool := (v.getD i none).isSome
def tAt (t : List Int) (i : Nat) : Int := t.getD i 0

/-- the condition evaluated inside the left-boundary loop -/
def wideEnough (t : List Int) (wd : Wnd) (r l : Nat) : Bool :=
  decide (wd.w ≤ tAt t r - tAt t l + wd.s) || (wd.strict && decide (wd.w < tAt t r - tAt t (l - 1) + wd.s))

/-- `for !found && 0 < l { found = …; if found {break}; l--; if !NaN(v[l]) {n++} }` → (l, n, found) -/
def searchLeft {α : Type} (t : List Int) (v : List (Option α)) (wd : Wnd) (r : Nat) : Nat → Nat → Nat × Nat × Bool
  | 0, n => (0, n, false)
  | l + 1, n =>
    if wideEnough t wd r (l + 1) then (l + 1, n, true)
    else searchLeft t v wd r l (if isPresent v l then n + 1 else n)

/-- `if l > r {l = r; …}`: where the search for the left edge starts -/
def leftStart (wd : Wnd) (r : Nat) : Nat := if wd.l > r then r else wd.l

/-- the count of present points the search starts with -/
def countStart {α : Type} (v : List (Option α)) (wd : Wnd) (r : Nat) : Nat :=
  if wd.l > r then (if !isPresent v r || (wd.strict && decide (wd.w < wd.s)) then 0 else 1)
  else (if 0 < wd.n && isPresent v wd.r then wd.n - 1 else wd.n)

/-- "see what we got": commit l, r, n; at the left end of the data the cursor is done (and fails unless the window fits) -/
def finishMove (t : List Int) (wd : Wnd) (r l n : Nat) (found : Bool) : Option Wnd :=
  if l = 0 then
    (if found then some { wd with l := l, r := r, n := n, done := true } else none)
  else
    some { wd with l := l, r := r, n := n, s := tAt t r - tAt t (r - 1) }

/-- window.moveOneLeft; `none` = returned false (the cursor fields l, r, n keep their previous values) -/
def moveOneLeft {α : Type} (t : List Int) (v : List (Option α)) (wd : Wnd) : Option Wnd :=
  if wd.done then none else
  let r := wd.r - 1
  let l0 := leftStart wd r
  let n0 := countStart v wd r
  let res := if decide (wd.w ≤ 0) && l0 == r then (l0, n0, true) else searchLeft t v wd r l0 n0
  finishMove t wd r res.1 res.2.1 res.2.2

/-- window.setValueAtRight -/
def setRight {α : Type} (v : List (Option α)) (wd : Wnd) (x : Option α) : List (Option α) × Wnd :=
  let was := !isPresent v wd.r
  let isn := x.isNone
  let n := if was && !isn then wd.n + 1 else if !was && isn then wd.n - 1 else wd.n
  (v.set wd.r x, { wd with n := n })

inductive OtFn | avg | min | max | sum | count | stdvar | stddev | last
deriving DecidableEq, Repr

def otStrict : OtFn → Bool
  | .avg | .min | .max | .last => false
  | _ => true
def otNil : OtFn → Val
  | .count => some 0
  | _ => none

def lastPresent (s : List Val) : Val := (present s).getLast?

/-- func…OverTime on the window slice (missing points skipped inside) -/
def otApply (f : OtFn) (s : List Val) : Val :=
  match f with
  | .avg => aggAvg s
  | .min => aggMin s
  | .max => aggMax s
  | .sum => if (present s).length = 0 then none else some (ratSum (present s))
  | .count => some ((present s).length : Rat)
  | .stdvar => some (varOf (present s))
  | .stddev => some (sqrtExact (varOf (present s)))
  | .last => lastPresent s

def slice {α : Type} (v : List α) (l r : Nat) : List α := (v.drop l).take (r + 1 - l)

/-- the loop of overTimeCall / funcQuantileOverTime: `fuel` bounds the number of moves by len+1 -/
def otLoop {α : Type} (t : List Int) (fn : List (Option α) → Option α) (nilV : Option α) : Nat → List (Option α) → Wnd → List (Option α) × Wnd
  | 0, v, wd => (v, wd)
  | fuel + 1, v, wd =>
    match moveOneLeft t v wd with
    | none => (v, wd)
    | some wd' =>
      let out := if wd'.n ≠ 0 then fn (slice v wd'.l wd'.r) else nilV
      let (v', wd'') := setRight v wd' out
      otLoop t fn nilV fuel v' wd''

/-- fillPrefixWith(NilValue) -/
def fillPrefix {α : Type} (v : List (Option α)) (r : Nat) : List (Option α) :=
  (List.range v.length).map (fun i => if i < r then none else v.getD i none)

def overTimeWith {α : Type} (t : List Int) (range lodStep : Int) (strict : Bool) (fn : List (Option α) → Option α) (nilV : Option α) (v : List (Option α)) : List (Option α) :=
  let res := otLoop t fn nilV (v.length + 1) v (newWindow t.length range lodStep strict)
  fillPrefix res.1 res.2.r

def overTime (t : List Int) (range lodStep : Int) (f : OtFn) (v : List Val) : List Val :=
  overTimeWith t range lodStep (otStrict f) (otApply f) (otNil f) v

/-- funcQuantileOverTime (valid q): strict window, present values sorted, interpolation -/
def quantileOverTime (t : List Int) (range lodStep : Int) (q : Rat) (v : List Val) : List Val :=
  overTimeWith t range lodStep true (fun s => quantileSorted q (isort (present s))) none v

/-! ## topk / bottomk (one time shift) -/

def viewVals (ts : TS) (s : Series) : List Val := (s.vals.take ts.viewEnd).drop ts.viewStart

def nonDecreasing : List Rat → Bool
  | [] => true
  | [_] => true
  | a :: b :: rest => decide (a ≤ b) && nonDecreasing (b :: rest)

/-- evaluator.weight for a group: Σ v²·step over the view, or the last value when every series is non-decreasing -/
def weights (ts : TS) (g : List Series) : List Rat :=
  if g.all (fun s => nonDecreasing (present (viewVals ts s))) then
    g.map (fun s => ((present (s.vals.take ts.viewEnd)).getLast?).getD 0)
  else
    g.map (fun s => ratSum ((List.range s.vals.length).map (fun i =>
      if ts.viewStart ≤ i ∧ i < ts.viewEnd then
        (match s.vals.getD i none with | some v => v * v * ts.width i | none => 0)
      else 0)))

def insertBy (desc : Bool) (x : Rat × Series) : List (Rat × Series) → List (Rat × Series)
  | [] => [x]
  | y :: ys => if (if desc then decide (y.1 < x.1) else decide (x.1 < y.1)) then x :: y :: ys else y :: insertBy desc x ys

def hasPresentInView (ts : TS) (s : Series) : Bool := (present (viewVals ts s)).length ≠ 0

def topK (ts : TS) (desc : Bool) (k : Int) (without : Bool) (labels : List Nat) (ss : List Series) : List Series :=
  if k ≤ 0 then [] else
  let ss := if ts.viewStart = ts.viewEnd then ss else ss.filter (hasPresentInView ts)
  ((dedupKeys (ss.map (fun s => keyOf without labels s.tags))).map (fun key =>
    let g := ss.filter (fun s => keyOf without labels s.tags = key)
    let ws := (weights ts g).zip g
    ((ws.foldr (insertBy desc) []).take k.toNat).map (·.2))).flatten

/-! ## storage contract (internal/api QuerySeries: merge the rows of one group and bucket, select `what`) -/

inductive What | avg | count | countsec | min | max | sum | sumsec | stddev | stdvar
deriving DecidableEq, Repr

structure Row where
  count : Rat
  sum : Rat
  min : Rat
  max : Rat
  sumsq : Rat
deriving DecidableEq, Repr

def Row.ofEvent (v : Rat) : Row := ⟨1, v, v, v, v * v⟩

/-- tsValues.merge -/
def Row.merge (a b : Row) : Row :=
  { count := a.count + b.count, sum := a.sum + b.sum,
    min := if b.min < a.min then b.min else a.min,
    max := if a.max < b.max then b.max else a.max,
    sumsq := a.sumsq + b.sumsq }

def mergeRows : List Row → Option Row
  | [] => none
  | r :: rs => some (rs.foldl Row.merge r)

/-- tsValues.value (stableMulDiv is exact here) -/
def rowValue (w : What) (qstep lstep : Int) (r : Row) : Rat :=
  let sampleVar : Rat := if r.count < 2 then 0 else
    let x := (r.sumsq - r.sum * r.sum / r.count) / (r.count - 1)
    if x < 0 then 0 else x
  match w with
  | .count => r.count * qstep / lstep
  | .countsec => r.count / lstep
  | .sum => r.sum * qstep / lstep
  | .sumsec => r.sum / lstep
  | .avg => r.sum / r.count
  | .min => r.min
  | .max => r.max
  | .stdvar => sampleVar
  | .stddev => sqrtExact sampleVar

structure Event where
  series : Nat
  sec : Int
  val : Rat
deriving Repr

structure Store where
  tags : List Tags        -- stored series → its tags (indices 1..3)
  events : List Event     -- at most one event per (series, second); each is a row with count 1
deriving Repr

/-- the handler's query step: `qry.Range`, else `Timescale.Step`, else the step of the row's LOD -/
def queryStep (ts : TS) (range : Int) (rowStep : Int) : Int :=
  if range ≠ 0 then range else if ts.step ≠ 0 then ts.step else rowStep

def bucketRows (st : Store) (members : List Nat) (lo hi : Int) : List Row :=
  (st.events.filter (fun e => members.contains e.series && decide (lo ≤ e.sec) && decide (e.sec < hi))).map (fun e => Row.ofEvent e.val)

/-- QuerySeries: one series per group (by the tag indices in `groupBy`) that has at least one row on the time scale -/
def queryStorage (st : Store) (ts : TS) (w : What) (groupBy : List Nat) (range : Int) : List Series :=
  let keyed := (List.range st.tags.length).map (fun i => (keyOf false groupBy (st.tags.getD i []), i))
  ((dedupKeys (keyed.map (·.1))).map (fun k =>
    let members := (keyed.filter (fun p => p.1 = k)).map (·.2)
    let vals := (List.range ts.times.length).map (fun i =>
      let t := ts.times.getD i 0
      (mergeRows (bucketRows st members t (t + ts.width i))).map (rowValue w (queryStep ts range (ts.width i)) (ts.width i)))
    ({ tags := k, vals := vals } : Series))).filter (fun s => (present s.vals).length ≠ 0)

/-! ## reduction rules -/

/-- the AST nodes above the selector, as far as the rules look at them -/
inductive AstKind
  | agg (op : Option What) (without : Bool) (labels : List Nat)   -- AggregateExpr; `op` = what the rule maps it to (none: not reducible)
  | matrix (range : Int)
  | subquery (range : Int)
  | call (w : Option What) (needEq : Bool)                        -- over-time Call; needEq: stddev/stdvar need Range = step
  | other
deriving DecidableEq, Repr

structure Red where
  rule : Nat
  what : Option What := none
  step : Int := 0
  grouped : Bool := false
  groupBy : List Nat := []
  without : Bool := false
  upto : Nat := 0        -- index (bottom-up, in the chain) of the node the selector replaces
deriving DecidableEq, Repr

/-- reduceWhat -/
def reduceWhat (a : Option What) (b : What) : Option What × Bool :=
  match a with
  | none => (some b, true)
  | some a' =>
    if (a' = .sumsec && b = .sum) || (a' = .countsec && b = .count) then (some b, true)
    else if a' = b || (a' = .sum && b = .sumsec) || (a' = .count && b = .countsec) then (some a', true)
    else (some a', false)

def reduceMatrix (r : Red) (e : AstKind) (step : Int) : Option Red :=
  match e with
  | .matrix rng => if rng > step then none else some { r with step := rng }
  | _ => none
def reduceSubquery (r : Red) (e : AstKind) (step : Int) : Option Red :=
  match e with
  | .subquery rng => if rng > step then none else some { r with step := rng }
  | _ => none
def reduceOverTime (r : Red) (e : AstKind) (step : Int) : Option Red :=
  match e with
  | .call (some w) needEq =>
    if needEq && r.step ≠ step then none else
    let p := reduceWhat r.what w
    if p.2 then some { r with what := p.1 } else none
  | _ => none
def reduceAgg (r : Red) (e : AstKind) : Option Red :=
  match e with
  | .agg (some w) without labels =>
    let p := reduceWhat r.what w
    if p.2 then some { r with what := p.1, grouped := true, groupBy := labels, without := without } else none
  | _ => none

inductive RuleStep | agg | matrix | subquery | overTime
def reductionRules : List (List RuleStep) :=
  [[.agg], [.matrix, .overTime], [.matrix, .overTime, .agg], [.agg, .subquery, .overTime]]

def applyStep (s : RuleStep) (r : Red) (e : AstKind) (step : Int) : Option Red :=
  match s with
  | .agg => reduceAgg r e
  | .matrix => reduceMatrix r e step
  | .subquery => reduceSubquery r e step
  | .overTime => reduceOverTime r e step

/-- one depth level of evalReductionRules: returns the surviving candidates and the last completed reduction -/
def rulesLevel (depth : Nat) (e : AstKind) (idx : Nat) (step : Int) (curr : List Red) (res : Option Red) : List Red × Option Red :=
  curr.foldl (fun (acc : List Red × Option Red) r =>
    let s := reductionRules.getD r.rule []
    match s[depth]? with
    | none => acc
    | some st =>
      match applyStep st r e step with
      | none => acc
      | some r' =>
        let r' := { r' with upto := idx }
        if s.length = depth + 1 then (acc.1, some r') else (acc.1 ++ [r'], acc.2)) ([], res)

/-- evalReductionRules over the non-paren ancestors (bottom-up), each with its chain index -/
def rulesLoop : Nat → List (AstKind × Nat) → Int → List Red → Option Red → Option Red
  | _, [], _, _, res => res
  | depth, (e, idx) :: rest, step, curr, res =>
    if curr.isEmpty then res else
    let p := rulesLevel depth e idx step curr res
    rulesLoop (depth + 1) rest step p.1 p.2

def evalReductionRules (seed : Option What) (nodes : List (AstKind × Nat)) (step : Int) : Option Red :=
  rulesLoop 0 nodes step ((List.range reductionRules.length).map (fun i => { rule := i, what := seed })) none

/-! ## expressions: a chain of unary nodes over one vector selector -/

inductive Node
  | agg (op : AggOp) (without : Bool) (labels : List Nat)
  | quantile (q : Rat) (without : Bool) (labels : List Nat)
  | topk (desc : Bool) (k : Int) (without : Bool) (labels : List Nat)
  | ot (f : OtFn) (range : Int) (sub : Bool)       -- f_over_time(X[range]) / f_over_time((X)[range:])
  | qot (q : Rat) (range : Int) (sub : Bool)       -- quantile_over_time(q, X[range])
  | paren
  | brk                                            -- (X + 0): same values, never matches a reduction rule
deriving Repr

def aggWhat : AggOp → Option What
  | .avg => some .avg | .min => some .min | .max => some .max | .sum => some .sumsec | .count => some .countsec
  | _ => none
def otWhat : OtFn → Option What × Bool
  | .avg => (some .avg, false) | .min => (some .min, false) | .max => (some .max, false)
  | .sum => (some .sum, false) | .count => (some .count, false)
  | .stddev => (some .stddev, true) | .stdvar => (some .stdvar, true)
  | .last => (none, false)

/-- the AST nodes a chain node stands for (bottom-up), parens dropped -/
def astOf (idx : Nat) : Node → List (AstKind × Nat)
  | .agg op wo ls => [(.agg (aggWhat op) wo ls, idx)]
  | .quantile _ _ _ => [(.other, idx)]
  | .topk _ _ _ _ => [(.other, idx)]
  | .ot f rng sub => [(if sub then .subquery rng else .matrix rng, idx), (.call (otWhat f).1 (otWhat f).2, idx)]
  | .qot _ rng sub => [(if sub then .subquery rng else .matrix rng, idx), (.other, idx)]
  | .paren => []
  | .brk => [(.other, idx)]

def astList : Nat → List Node → List (AstKind × Nat)
  | _, [] => []
  | i, n :: ns => astOf i n ++ astList (i + 1) ns

def allTags : List Nat := [1, 2, 3]

/-- one engine-side node applied to the series below it; `r` = ev.r (range of the selector/subquery below) -/
def applyNode (cfg : Cfg) (ts : TS) (n : Node) (ss : List Series) : List Series :=
  let len := ts.times.length
  match n with
  | .agg op wo ls => aggregate len (aggApply cfg op) wo ls ss
  | .quantile q wo ls => aggregate len (aggQuantile q) wo ls ss
  | .topk desc k wo ls => topK ts desc k wo ls ss
  | .ot f rng _ => ss.map (fun s => { s with vals := overTime ts.times rng ts.lodStep f s.vals })
  | .qot q rng _ => ss.map (fun s => { s with vals := quantileOverTime ts.times rng ts.lodStep q s.vals })
  | .paren => ss
  | .brk => ss

/-- evaluator.eval of the chain `nodes` (bottom-up) over the selector with optional explicit `__what__` -/
def evalChain (cfg : Cfg) (st : Store) (ts : TS) (selWhat : Option What) (nodes : List Node) : List Series :=
  let seed := if cfg.whatFix then selWhat else none
  match evalReductionRules seed (astList 0 nodes) ts.lodStep with
  | some red =>
    let what := if cfg.whatFix then red.what.getD .avg else selWhat.getD .avg
    let groupBy := if red.grouped then (if red.without then allTags.filter (fun t => !red.groupBy.contains t) else red.groupBy) else allTags
    (nodes.drop (red.upto + 1)).foldl (fun ss n => applyNode cfg ts n ss) (queryStorage st ts what groupBy red.step)
  | none =>
    nodes.foldl (fun ss n => applyNode cfg ts n ss) (queryStorage st ts (selWhat.getD .avg) allTags 0)

/-! ### variant: the range of a subquery / matrix selector stored BEFORE its operand is evaluated (seeded/C27-r3-2)

  evaluator.eval sets `ev.r = e.Range` AFTER evaluating the operand of a MatrixSelector / SubqueryExpr; every Call resets
  `ev.r = 0` when it returns.  If the assignment is moved before the operand's evaluation, a Call executed inside the
  operand (one that was not replaced by a reduction) leaves `ev.r = 0` behind and the outer window degenerates to a single
  point.  `evalChain` models the real order (the node's own range is used); this variant models the mutation. -/

def isCallNode : Node → Bool
  | .ot _ _ _ => true
  | .qot _ _ _ => true
  | _ => false

/-- the range the mutated evaluator uses for node `n` when `callBelow` says a Call was executed inside its operand -/
def earlyRange (n : Node) (callBelow : Bool) : Node :=
  match n with
  | .ot f rng sub => .ot f (if sub && callBelow then 0 else rng) sub
  | .qot q rng sub => .qot q (if sub && callBelow then 0 else rng) sub
  | n => n

def foldEarlyRange (cfg : Cfg) (ts : TS) : List Node → Bool → List Series → List Series
  | [], _, ss => ss
  | n :: ns, callBelow, ss => foldEarlyRange cfg ts ns (callBelow || isCallNode n) (applyNode cfg ts (earlyRange n callBelow) ss)

def evalChainEarlyRange (cfg : Cfg) (st : Store) (ts : TS) (selWhat : Option What) (nodes : List Node) : List Series :=
  let seed := if cfg.whatFix then selWhat else none
  match evalReductionRules seed (astList 0 nodes) ts.lodStep with
  | some red =>
    let what := if cfg.whatFix then red.what.getD .avg else selWhat.getD .avg
    let groupBy := if red.grouped then (if red.without then allTags.filter (fun t => !red.groupBy.contains t) else red.groupBy) else allTags
    foldEarlyRange cfg ts (nodes.drop (red.upto + 1)) false (queryStorage st ts what groupBy red.step)
  | none =>
    foldEarlyRange cfg ts nodes false (queryStorage st ts (selWhat.getD .avg) allTags 0)

/-- evaluator.exec: series without a present point in the view are removed, values trimmed to [StartX:] -/
def exec (cfg : Cfg) (st : Store) (ts : TS) (selWhat : Option What) (nodes : List Node) : List Series :=
  let ss := evalChain cfg st ts selWhat nodes
  let ss := if ts.viewStart = ts.viewEnd then ss else ss.filter (hasPresentInView ts)
  ss.map (fun s => { s with vals := s.vals.drop ts.startX })

/-! ## vector-vector binary operators (engine.go evalBinary, one-to-one matching) and expression trees -/

inductive BinOp | add | sub | mul | div | eq | gt | lt | ge | le
deriving DecidableEq, Repr

inductive Matching
  | dflt                       -- all labels
  | on (labels : List Nat)
  | ignoring (labels : List Nat)
deriving DecidableEq, Repr

/-- slice<Op> / sliceFilter<Cmp>: arithmetic on two present points; a comparison keeps the left point when it holds; a
    missing point (NaN) on either side gives a missing point.
    `scalarLeft`: the left operand is the label-less (scalar) side; evalBinary then keeps the RIGHT point and evaluates the
    comparison with swapped arguments and the operator table GTR→LTE, GTE→LSS, LSS→GTE, LTE→GTR as coded, i.e.
    `s > v` keeps v when v ≤ s and `s >= v` when v < s: on a tie this differs from the mirrored operator.  The harness
    regenerates cases with such a tie (reported as an observation, outside the property's operators). -/
def binVal (op : BinOp) (scalarLeft : Bool) (a b : Val) : Val :=
  match a, b with
  | some x, some y =>
    match op with
    | .add => some (x + y) | .sub => some (x - y) | .mul => some (x * y) | .div => some (x / y)
    | .eq => if x = y then some (if scalarLeft then y else x) else none
    | .gt => if scalarLeft then (if y ≤ x then some y else none) else (if x > y then some x else none)
    | .ge => if scalarLeft then (if y < x then some y else none) else (if x ≥ y then some x else none)
    | .lt => if scalarLeft then (if y ≥ x then some y else none) else (if x < y then some x else none)
    | .le => if scalarLeft then (if y > x then some y else none) else (if x ≤ y then some x else none)
  | _, _ => none

def zipVals (f : Val → Val → Val) (a b : List Val) : List Val :=
  (List.range a.length).map (fun i => f (a.getD i none) (b.getD i none))

/-- Series.scalar(): exactly one series and it carries no label -/
def isScalar (ss : List Series) : Bool :=
  match ss with
  | [s] => s.tags.isEmpty
  | _ => false

/-- the label set a series is matched by (SeriesTags.hash with on / tags) -/
def matchKey (m : Matching) (tags : Tags) : Tags :=
  match m with
  | .dflt => tags
  | .on ls => keyOf false ls tags
  | .ignoring ls => keyOf true ls tags

def hasDup : List Tags → Bool
  | [] => false
  | k :: ks => ks.contains k || hasDup ks

/-- evalBinary, CardOneToOne.  `none` = "label set match multiple series".  A label-less single series on either side is
    applied to every series of the other side (the engine's scalar convention); otherwise every left series with a partner
    of the same matching label set survives, keeping the matching labels only (on / ignoring) or all of its labels. -/
def binApply (op : BinOp) (m : Matching) (l r : List Series) : Option (List Series) :=
  if isScalar r then
    some (l.map (fun s => { s with vals := zipVals (binVal op false) s.vals ((r.head?.map (·.vals)).getD []) }))
  else if isScalar l then
    some (r.map (fun s => { s with vals := zipVals (binVal op true) ((l.head?.map (·.vals)).getD []) s.vals }))
  else if hasDup (l.map (fun s => matchKey m s.tags)) || hasDup (r.map (fun s => matchKey m s.tags)) then none
  else
    some (l.filterMap (fun s =>
      (r.find? (fun s' => matchKey m s'.tags = matchKey m s.tags)).map (fun s' =>
        { tags := matchKey m s.tags, vals := zipVals (binVal op false) s.vals s'.vals })))

/-- expressions: unary nodes over a selector or over a vector-vector binary operation -/
inductive Expr
  | sel (what : Option What)
  | un (n : Node) (e : Expr)
  | bin (op : BinOp) (m : Matching) (l r : Expr)
deriving Repr

def skipsOperand : Node → Bool
  | .topk _ k _ _ => decide (k ≤ 0)      -- funcTopK returns before evaluating its operand
  | _ => false

/-- evaluator.eval on a tree; `above` = the unary nodes between this expression and the nearest binary operator (or the
    root) above it, bottom-up: only those can take part in a reduction of the selector below them -/
def evalE (cfg : Cfg) (st : Store) (ts : TS) : Expr → List Node → Option (List Series)
  | .sel w, above => some (evalChain cfg st ts w above)
  | .un n e, above =>
    if skipsOperand n then some (above.foldl (fun ss n' => applyNode cfg ts n' ss) [])
    else evalE cfg st ts e (n :: above)
  | .bin op m l r, above =>
    match evalE cfg st ts l [], evalE cfg st ts r [] with
    | some a, some b => (binApply op m a b).map (fun ss => above.foldl (fun ss n' => applyNode cfg ts n' ss) ss)
    | _, _ => none

def execE (cfg : Cfg) (st : Store) (ts : TS) (e : Expr) : Option (List Series) :=
  (evalE cfg st ts e []).map (fun ss =>
    let ss := if ts.viewStart = ts.viewEnd then ss else ss.filter (hasPresentInView ts)
    ss.map (fun s => { s with vals := s.vals.drop ts.startX }))

/-! ## extended reals: ±Inf are points, only NaN is "no point"

  float64 points can be infinite (division by zero, overflow, quantile with q outside [0,1]); the operators must treat them
  as present points.  `ERat` = −∞ | finite | +∞; a missing point is `none` and NEVER one of these values.  Arithmetic whose
  float result is NaN (∞ − ∞, ∞ · 0) yields `none`: downstream that NaN is a missing point.  This layer models the
  operators on such columns (harness stream `xeval`: one operator over `(m + 0)` times 2^1008 / divided by 0 / …).
  Variants: `eMaxSentinel` = seeded/C27-r5-1 (−∞ as "nothing seen yet"); `eMinOverTimeOld` / `eMaxOverTimeOld` and
  `eInterpOld` = the tree before fixes/C27-infinite-points.diff (±MaxFloat64 start values; v1·w1 + v2·w2 with a zero weight). -/

inductive ERat | ninf | fin (q : Rat) | pinf
deriving DecidableEq, Repr

abbrev EVal := Option ERat

def ERat.lt : ERat → ERat → Bool
  | .ninf, .ninf => false
  | .ninf, _ => true
  | .fin _, .ninf => false
  | .fin a, .fin b => decide (a < b)
  | .fin _, .pinf => true
  | .pinf, _ => false

def ERat.le (a b : ERat) : Bool := !(ERat.lt b a)

/-- float addition; `none` = NaN -/
def ERat.add : ERat → ERat → EVal
  | .fin a, .fin b => some (.fin (a + b))
  | .pinf, .ninf => none
  | .ninf, .pinf => none
  | .pinf, _ => some .pinf
  | _, .pinf => some .pinf
  | .ninf, _ => some .ninf
  | _, .ninf => some .ninf

def EVal.add (a b : EVal) : EVal :=
  match a, b with
  | some x, some y => ERat.add x y
  | _, _ => none

/-- multiplication by a finite weight w ≥ 0 (∞ · 0 = NaN) -/
def ERat.mulW (a : ERat) (w : Rat) : EVal :=
  match a with
  | .fin x => some (.fin (x * w))
  | .pinf => if w = 0 then none else some .pinf
  | .ninf => if w = 0 then none else some .ninf

/-- division by a positive count -/
def ERat.divN (a : ERat) (n : Nat) : ERat :=
  match a with
  | .fin x => .fin (x / (n : Rat))
  | e => e

def epresent (col : List EVal) : List ERat := col.filterMap id

/-- funcMax (HEAD): `if nan || res < v {res = v}` -/
def eMaxStep (acc : EVal) (v : EVal) : EVal :=
  match v, acc with
  | none, a => a
  | some x, none => some x
  | some x, some r => if ERat.lt r x then some x else some r
def eMax (col : List EVal) : EVal := col.foldl eMaxStep none

/-- funcMin (HEAD) -/
def eMinStep (acc : EVal) (v : EVal) : EVal :=
  match v, acc with
  | none, a => a
  | some x, none => some x
  | some x, some r => if ERat.lt x r then some x else some r
def eMin (col : List EVal) : EVal := col.foldl eMinStep none

/-- seeded/C27-r5-1: start from −∞, compare (`res < v` is false for NaN), and afterwards read −∞ as "no point" -/
def eMaxSentinel (col : List EVal) : EVal :=
  let res := col.foldl (fun (r : ERat) v => match v with | some x => if ERat.lt r x then x else r | none => r) .ninf
  if res = .ninf then none else some res

/-- funcSum: `if nan {res = v; nan = false} else {res += v}`; state none = nothing seen yet -/
def eSumStep (st : Option EVal) (v : EVal) : Option EVal :=
  match v, st with
  | none, s => s
  | some x, none => some (some x)
  | some x, some r => some (EVal.add r (some x))
def eSum (col : List EVal) : EVal := (col.foldl eSumStep none).getD none

def eAcc (l : List ERat) : EVal := l.foldl (fun acc x => EVal.add acc (some x)) (some (.fin 0))

/-- funcAvg / funcAvgOverTime: `res += v; cnt++`, then res / cnt -/
def eAvg (col : List EVal) : EVal :=
  if (epresent col).length = 0 then none else (eAcc (epresent col)).map (fun e => e.divN (epresent col).length)

def eCount (col : List EVal) : EVal := some (.fin ((epresent col).length : Rat))
def eGroup (col : List EVal) : EVal := if (epresent col).length = 0 then none else some (.fin 1)

def eInsert (x : ERat) : List ERat → List ERat
  | [] => [x]
  | y :: ys => if ERat.le x y then x :: y :: ys else y :: eInsert x ys
def eSort (l : List ERat) : List ERat := l.foldr eInsert []

/-- `interpolate` of the fixed tree: a point with zero weight does not take part -/
def eInterp (x1 : ERat) (w1 : Rat) (x2 : ERat) (w2 : Rat) : EVal :=
  if w2 = 0 then some x1 else if w1 = 0 then some x2 else EVal.add (x1.mulW w1) (x2.mulW w2)
/-- before fixes/C27-infinite-points.diff: v1·w1 + v2·w2 unconditionally -/
def eInterpOld (x1 : ERat) (w1 : Rat) (x2 : ERat) (w2 : Rat) : EVal := EVal.add (x1.mulW w1) (x2.mulW w2)

def eQuantileSortedWith (interp : ERat → Rat → ERat → Rat → EVal) (q : Rat) (xs : List ERat) : EVal :=
  if xs.length = 0 then none else
  let ix : Rat := q * ((xs.length : Rat) - 1)
  let i1 : Nat := ix.floor.toNat
  let i2 : Nat := min (xs.length - 1) (i1 + 1)
  let w1 : Rat := (i2 : Rat) - ix
  let w2 : Rat := 1 - w1
  interp (xs.getD i1 (.fin 0)) w1 (xs.getD i2 (.fin 0)) w2
/-- q outside [0,1] (Prometheus: −∞ for q < 0, +∞ for q > 1) — for a column / window that has a point; nothing otherwise
    (fixes/C27-quantile-out-of-range.diff; `eQuantileOutOld`: the tree before it fills the value in unconditionally) -/
def eQuantile (q : Rat) (col : List EVal) : EVal :=
  if q < 0 then (if (epresent col).length = 0 then none else some .ninf)
  else if q > 1 then (if (epresent col).length = 0 then none else some .pinf)
  else eQuantileSortedWith eInterp q (eSort (epresent col))
def eQuantileOutOld (q : Rat) (_col : List EVal) : EVal :=
  if q < 0 then some .ninf else some .pinf
def eQuantileOld (q : Rat) (col : List EVal) : EVal := eQuantileSortedWith eInterpOld q (eSort (epresent col))

/-- math.MaxFloat64 -/
def maxFloat64 : Rat := ((2 ^ 1024 - 2 ^ 971 : Nat) : Rat)

/-- funcMinOverTime / funcMaxOverTime before the fix: ±MaxFloat64 as the start value -/
def eMinOverTimeOld (s : List EVal) : EVal :=
  if (epresent s).length = 0 then none
  else some ((epresent s).foldl (fun r x => if ERat.lt x r then x else r) (.fin maxFloat64))
def eMaxOverTimeOld (s : List EVal) : EVal :=
  if (epresent s).length = 0 then none
  else some ((epresent s).foldl (fun r x => if ERat.lt r x then x else r) (.fin (-maxFloat64)))

def eSumOverTime (s : List EVal) : EVal := if (epresent s).length = 0 then none else eAcc (epresent s)

inductive EOp | max | min | sum | avg | count | group | quantile (q : Rat)
  | otMax (r : Int) | otMin (r : Int) | otSum (r : Int) | otAvg (r : Int) | otCount (r : Int) | otLast (r : Int) | otQuantile (q : Rat) (r : Int)
deriving Repr

structure ESeries where
  tags : Tags
  vals : List EVal
deriving DecidableEq, Repr

def eColumns (n : Nat) (ss : List ESeries) : List (List EVal) :=
  (List.range n).map (fun i => ss.map (fun s => s.vals.getD i none))

def eAggregate (n : Nat) (f : List EVal → EVal) (without : Bool) (labels : List Nat) (ss : List ESeries) : List ESeries :=
  (dedupKeys (ss.map (fun s => keyOf without labels s.tags))).map (fun k =>
    { tags := k, vals := (eColumns n (ss.filter (fun s => keyOf without labels s.tags = k))).map f })

def eOverTime (ts : TS) (r : Int) (strict : Bool) (fn : List EVal → EVal) (nilV : EVal) (ss : List ESeries) : List ESeries :=
  ss.map (fun s => { s with vals := overTimeWith ts.times r ts.lodStep strict fn nilV s.vals })

/-- one operator of functions.go (fixed tree) on series with possibly infinite points -/
def eApply (ts : TS) (op : EOp) (without : Bool) (labels : List Nat) (ss : List ESeries) : List ESeries :=
  let n := ts.times.length
  match op with
  | .max => eAggregate n eMax without labels ss
  | .min => eAggregate n eMin without labels ss
  | .sum => eAggregate n eSum without labels ss
  | .avg => eAggregate n eAvg without labels ss
  | .count => eAggregate n eCount without labels ss
  | .group => eAggregate n eGroup without labels ss
  | .quantile q => eAggregate n (eQuantile q) without labels ss
  | .otMax r => eOverTime ts r false eMax none ss
  | .otMin r => eOverTime ts r false eMin none ss
  | .otSum r => eOverTime ts r true eSumOverTime none ss
  | .otAvg r => eOverTime ts r false eAvg none ss
  | .otCount r => eOverTime ts r true eCount (some (.fin 0)) ss
  | .otLast r => eOverTime ts r false (fun s => (epresent s).getLast?) none ss
  | .otQuantile q r => eOverTime ts r true (eQuantile q) none ss

/-- evaluator.exec on the result -/
def eExec (ts : TS) (op : EOp) (without : Bool) (labels : List Nat) (ss : List ESeries) : List ESeries :=
  let out := eApply ts op without labels ss
  let out := if ts.viewStart = ts.viewEnd then out
    else out.filter (fun s => (epresent ((s.vals.take ts.viewEnd).drop ts.viewStart)).length ≠ 0)
  out.map (fun s => { s with vals := s.vals.drop ts.startX })

end SH.PromEval
