/-
  SH.Model.TL2 — the TL2 layout of the generated types, as a second generic codec over the SAME schema descriptors
  (SH.Model.TL.Desc) and the same values as the TL1 codec (C14).

  What is modelled (generated code of tl2gen ≥ 1.5, gen2/internal/*.go: CalculateLayout / InternalWriteTL2 /
  InternalReadTL2, and basictl2.go):
    object        size-prefixed body (TL2WriteSize, proved in Props/C14: tl2_size_roundtrip). The body is a sequence of
                  blocks of eight slots: slot 0 is "constructor index present" (never set for a plain constructor),
                  slot k+1 belongs to field k. Every block starts with one byte holding the presence bits of its slots,
                  followed by the bytes of the present fields. The body is cut after the last present field
                  (`lastUsedByte`), so trailing block bytes and absent fields cost nothing and an object whose fields
                  are all absent has an empty body (written as the single byte 0, or as nothing at all where the
                  enclosing object records presence: `optimizeEmpty`).
    plain field   `#`, int, long: absent iff zero. string: absent iff empty. Bool: absent iff false, present = byte 1.
                  object / enum / vector / dictionary: absent iff its optimizeEmpty encoding is empty.
    `m.bit?t`     presence is its own bit in the block byte (tl2mask in the Go struct) and does not depend on the mask;
                  the payload is written in full (`true`: no bytes at all).
    enum          a union whose constructors have no fields: index 0 = empty body, else body = [1, index].
    vector        size-prefixed body = element count, then the elements (objects/enums/vectors as elements are written
                  with optimizeEmpty = false, i.e. at least one byte each). Dictionary = vector of {key, value} objects.
    boxed t       no constructor tags in TL2.
  The reader ignores bytes it does not understand at the end of a body (forward compatibility), accepts a zero body
  for anything, and refuses an element count larger than the number of remaining body bytes.

  Outside this fragment (no generated TL2 code uses it in /repo): float/double as *direct* fields (absent iff `== 0`,
  which also drops -0.0), Bool as vector element or conditional field, unions with non-empty constructors, tuples,
  Maybe. `tl2Supported` says whether a descriptor stays inside the fragment; the driver refuses the others.

  Core Lean only: linked into drv_c14.
-/
import SH.Model.TL

namespace SH.TL

def boolFalseTag : Nat := 0xbc799737
def boolTrueTag : Nat := 0x997275b5

def isEmptyCtor : Desc → Bool
  | .struct _ .nil => true
  | _ => false

/-- `Bool` is recognised by its two constructors boolFalse#bc799737 / boolTrue#997275b5 -/
def isBoolAlts : Alts → Bool
  | .cons a t1 (.cons b t2 .nil) => a == boolFalseTag && b == boolTrueTag && isEmptyCtor t1 && isEmptyCtor t2
  | _ => false

def isEnumAlts : Alts → Bool
  | .nil => true
  | .cons _ t rest => isEmptyCtor t && isEnumAlts rest

def altCount : Alts → Nat
  | .nil => 0
  | .cons _ _ rest => altCount rest + 1

def isNil : Vals → Bool
  | .nil => true
  | _ => false

/-- little endian bits -/
def bitsToNat : List Bool → Nat
  | [] => 0
  | b :: bs => (if b then 1 else 0) + 2 * bitsToNat bs

/-- the block/trim layout of an object body. `k` = slot number of the first entry, entries = (present, bytes) per slot.
    Nothing at all is produced once no later slot is present; a block byte precedes every slot ≡ 0 mod 8. -/
def layout : Nat → List (Bool × Bytes) → Bytes
  | _, [] => []
  | k, (p, b) :: rest =>
    if ((p, b) :: rest).any (·.1) then
      (if k % 8 = 0 then [UInt8.ofNat (bitsToNat ((((p, b) :: rest).take 8).map (·.1)))] else [])
        ++ (if p then b else []) ++ layout (k + 1) rest
    else []

/-- size prefix; an empty body is the single byte 0, or nothing with `optimizeEmpty` -/
def wrapBody (optimizeEmpty : Bool) (body : Bytes) : Bytes :=
  if body.isEmpty then (if optimizeEmpty then [] else [0]) else tl2WriteSize body.length ++ body

/-- non-zero enum index: body = block byte 1 (constructor index present), index -/
def enumBytes (i : Nat) : Bytes :=
  UInt8.ofNat (1 + tl2CalculateSize i) :: 1 :: tl2WriteSize i

mutual
/-- a plain (unconditional) field: empty result = absent -/
def encF : Desc → Val → Bytes
  | .nat, .nat n => if n = 0 then [] else le32 n
  | .fixed _, .raw b => if allZero b then [] else b
  | .str, .str b => if b.isEmpty then [] else tl2WriteStr b
  | .boxed _ t, v => encF t v
  | .union alts, .alt i _ =>
    if isBoolAlts alts then (if i = 1 then [1] else [])
    else if i = 0 then [] else enumBytes i
  | .struct _ fs, .recd vs => wrapBody true (layout 0 ((false, []) :: encFs fs vs))
  | .vec t, .list vs =>
    if isNil vs then [] else wrapBody true (tl2WriteSize vs.length ++ encVals (encE t) vs)
  | _, _ => []
/-- a vector element, the payload of a conditional field, or the top level: always written (optimizeEmpty = false) -/
def encE : Desc → Val → Bytes
  | .nat, .nat n => le32 n
  | .fixed _, .raw b => b
  | .str, .str b => tl2WriteStr b
  | .boxed _ t, v => encE t v
  | .union _, .alt i _ => if i = 0 then [0] else enumBytes i
  | .struct _ fs, .recd vs => wrapBody false (layout 0 ((false, []) :: encFs fs vs))
  | .vec t, .list vs =>
    if isNil vs then [0] else wrapBody false (tl2WriteSize vs.length ++ encVals (encE t) vs)
  | _, _ => []
/-- (present, bytes) of every field -/
def encFs : Flds → Vals → List (Bool × Bytes)
  | .natF rest, .cons (.nat n) vs => (n != 0, le32 n) :: encFs rest vs
  | .fld t rest, .cons v vs => (!(encF t v).isEmpty, encF t v) :: encFs rest vs
  | .opt _ _ t rest, .cons v vs =>
    (if v.isNone then (false, []) else (true, if isEmptyCtor t then [] else encE t v)) :: encFs rest vs
  | _, _ => []
end

mutual
/-- what an absent field reads as (Reset) -/
def defaultV : Desc → Val
  | .nat => .nat 0
  | .fixed w => .raw (List.replicate w 0)
  | .str => .str []
  | .boxed _ t => defaultV t
  | .union _ => .alt 0 (.recd .nil)
  | .struct _ fs => .recd (defaultFs fs)
  | .vec _ => .list .nil
  | .tup _ _ => .list .nil
def defaultFs : Flds → Vals
  | .nil => .nil
  | .natF rest => .cons (.nat 0) (defaultFs rest)
  | .fld t rest => .cons (defaultV t) (defaultFs rest)
  | .opt _ _ _ rest => .cons .none (defaultFs rest)
end

/-- the block byte in force for slot k: a new one is read when k starts a block — none left means 0 -/
def nextBlock (k blk : Nat) (r : Bytes) : Nat × Bytes :=
  if k % 8 = 0 then
    match r with
    | [] => (0, [])
    | b :: r1 => (b.toNat, r1)
  else (blk, r)

def slotSet (k blk : Nat) : Bool := blk.testBit (k % 8)

/-- one slot of an object body: switch to the next block byte if the slot starts a block; a set bit = read the field with
    `rd`, a clear bit = the default value; then the remaining slots -/
def decSlot (rd : Bytes → Option (Val × Bytes)) (dv : Val) (cont : Nat → Bytes → Option Vals) (k blk : Nat) (r : Bytes) :
    Option Vals :=
  if slotSet k (nextBlock k blk r).1 then
    match rd (nextBlock k blk r).2 with
    | none => none
    | some (v, r1) => match cont (nextBlock k blk r).1 r1 with
      | some vs => some (.cons v vs)
      | none => none
  else match cont (nextBlock k blk r).1 (nextBlock k blk r).2 with
    | some vs => some (.cons dv vs)
    | none => none

def readNatV (r : Bytes) : Option (Val × Bytes) :=
  match readNat r with
  | some (n, r1) => some (.nat n, r1)
  | none => none

/-- a conditional field of type `true`: the presence bit is the whole value -/
def readNothing (r : Bytes) : Option (Val × Bytes) := some (.recd .nil, r)

/-- body of an enum: block byte, optional constructor index -/
def decEnumBody (count : Nat) (body : Bytes) : Option Nat :=
  match body with
  | [] => none
  | b0 :: r1 =>
    if b0.toNat.testBit 0 then
      match tl2ParseSize r1 with
      | none => none
      | some (i, _) => if i ≥ count then none else some i
    else some 0

mutual
/-- InternalReadTL2 -/
def decE : Desc → Bytes → Option (Val × Bytes)
  | .nat, r => match readNat r with
    | some (n, r1) => some (.nat n, r1)
    | none => none
  | .fixed w, r => match takeN w r with
    | some (b, r1) => some (.raw b, r1)
    | none => none
  | .str, r => match tl2ReadStr r with
    | some (b, r1) => some (.str b, r1)
    | none => none
  | .boxed _ t, r => decE t r
  | .union alts, r =>
    if isBoolAlts alts then
      match r with
      | [] => none
      | b :: r1 => some (.alt (if b.toNat = 0 then 0 else 1) (.recd .nil), r1)
    else
      match tl2ParseSize r with
      | none => none
      | some (sz, r1) =>
        if sz = 0 then some (.alt 0 (.recd .nil), r1)
        else match takeN sz r1 with
          | none => none
          | some (body, r2) => match decEnumBody (altCount alts) body with
            | none => none
            | some i => some (.alt i (.recd .nil), r2)
  | .struct _ fs, r =>
    match tl2ParseSize r with
    | none => none
    | some (sz, r1) =>
      if sz = 0 then some (.recd (defaultFs fs), r1)
      else match takeN sz r1 with
        | none => none
        | some (body, r2) =>
          match body with
          | [] => none
          | b0 :: c1 =>
            if b0.toNat.testBit 0 then
              match tl2ParseSize c1 with
              | none => none
              | some (i, c2) =>
                if i = 0 then
                  match decFs fs 1 b0.toNat c2 with
                  | some vs => some (.recd vs, r2)
                  | none => none
                else none
            else
              match decFs fs 1 b0.toNat c1 with
              | some vs => some (.recd vs, r2)
              | none => none
  | .vec t, r =>
    match tl2ParseSize r with
    | none => none
    | some (sz, r1) =>
      match takeN sz r1 with
      | none => none
      | some (body, r2) =>
        if sz = 0 then some (.list .nil, r2)
        else match tl2ParseSize body with
          | none => none
          | some (count, c1) =>
            if count > c1.length then none
            else match decN (decE t) count c1 with
              | some (vs, _) => some (.list vs, r2)
              | none => none
  | .tup _ _, _ => none
/-- the fields of an object body from slot k on; `blk` = block byte in force -/
def decFs : Flds → Nat → Nat → Bytes → Option Vals
  | .nil, _, _, _ => some .nil
  | .natF rest, k, blk, r => decSlot readNatV (.nat 0) (fun b r1 => decFs rest (k + 1) b r1) k blk r
  | .fld t rest, k, blk, r => decSlot (decE t) (defaultV t) (fun b r1 => decFs rest (k + 1) b r1) k blk r
  | .opt _ _ t rest, k, blk, r =>
    decSlot (if isEmptyCtor t then readNothing else decE t) .none (fun b r1 => decFs rest (k + 1) b r1) k blk r
end

def headIsBool : Desc → Bool
  | .union a => isBoolAlts a
  | .boxed _ t => headIsBool t
  | _ => false

mutual
/-- the descriptor stays inside the modelled TL2 fragment. `pos`: 0 = plain field / top level, 1 = vector element or
    conditional payload (no Bool there) -/
def tl2Supported : Desc → Bool
  | .nat => true
  | .fixed w => w == 4 || w == 8
  | .str => true
  | .boxed _ t => tl2Supported t
  | .union alts => isEnumAlts alts
  | .struct _ fs => tl2SupportedFs fs
  | .vec t => tl2Supported t && !headIsBool t
  | .tup _ _ => false
def tl2SupportedFs : Flds → Bool
  | .nil => true
  | .natF rest => tl2SupportedFs rest
  | .fld t rest => tl2Supported t && tl2SupportedFs rest
  | .opt _ _ t rest =>
    tl2Supported t && !headIsBool t && tl2SupportedFs rest
end

end SH.TL
