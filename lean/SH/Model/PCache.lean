/-
  SH.Model.PCache — executable model of the API points cache, /repo/internal/api/pcache.go
  (pointsCache.get / loadCached / invalidate / evictLocked, invalidatedSecondsCache.updateTimeLocked /
  invalidateLocked / checkInvalidationLocked / checkInvalidationMapLocked), branch for branch.

  Core Lean only (linked into drv_c24).

  Modelling decisions
  * Time: every `c.now()` reading is an INPUT (Int, Unix nanoseconds).  Seconds are Int.  Go's int64
    wrap-around is not modelled (all values are far below 2^62).
  * One model op = one critical section of the real code: `loadCached` (under RLock), the store section of
    `get` (under Lock), `invalidate` (under Lock).  `get` does not hold the mutex while the loader runs, so an
    arbitrary list of these ops is exactly an arbitrary interleaving of concurrent callers.
  * Go map iteration order (which 100 keys `evictLocked` / `invalidateLocked` sample) is an input: the op
    carries the key that was evicted / the keys that were deleted, and `evictLegal` / `gcLegal` say whether
    the real code can make that choice.  Deletions are applied *guarded* (`gcMap` never deletes a key ≥ from),
    so the safety theorems need no legality hypothesis.
  * Rows are represented by their number and a generation tag (which load produced them).
  * Cache keys are Nat ids (the real keys are non-empty strings; the `k == ""` corner of evictLocked is then
    only reachable with an empty cache, modelled as `EvictFlag.hang`).
-/
import SH.Model.Core
import SH.Gen.C24

namespace SH.PCache

open SH.Gen.C24

/-! ### Go `map[int64]int64` as an association list with unique keys -/

abbrev LMap := List (Int × Int)

def mget : LMap → Int → Option Int
  | [], _ => none
  | (k', v) :: r, k => if k' = k then some v else mget r k

def merase : LMap → Int → LMap
  | [], _ => []
  | (k', v) :: r, k => if k' = k then merase r k else (k', v) :: merase r k

def mput (m : LMap) (k v : Int) : LMap := (k, v) :: merase m k

/-! ### lod.go: roundTime (mathDiv is floor division; steps are positive, where `Int./` is floor) -/

def roundTime (t step off : Int) : Int := (t + off) / step * step - off

/-! ### invalidatedSecondsCache -/

/-- one level: (step, seconds[i]) -/
abbrev Level := Int × LMap

def initLevels : List Level := steps.map (fun st => (st, []))

/-- `if last, ok := m[k]; !ok || (ok && at > last) { m[k] = at }` -/
def bump (m : LMap) (k tAt : Int) : LMap :=
  match mget m k with
  | some last => if tAt > last then mput m k tAt else m
  | none => mput m k tAt

/-- updateTimeLocked -/
def updateLevels (lv : List Level) (off tAt sec : Int) : List Level :=
  lv.map (fun p => (p.1, bump p.2 (roundTime sec p.1 off) tAt))

def updateAll (lv : List Level) (off tAt : Int) : List Int → List Level
  | [] => lv
  | s :: r => updateAll (updateLevels lv off tAt s) off tAt r

/-- the keys invalidateLocked may delete -/
def oldKeys (m : LMap) (gcFrom : Int) : List Int := (m.filter (fun p => decide (p.1 < gcFrom))).map (·.1)

/-- invalidateLocked on one level, given the keys the real run deleted. Guarded: only keys `< gcFrom` go. -/
def gcMap (m : LMap) (gcFrom : Int) (del : List Int) : LMap :=
  m.filter (fun p => !(decide (p.1 < gcFrom) && del.contains p.1))

/-- can the real loop (first `evictionSample` keys in map order, delete those `< gcFrom`) delete exactly `del`? -/
def gcLegal (m : LMap) (gcFrom : Int) (del : List Int) : Bool :=
  del.all (fun k => (mget m k).isSome && decide (k < gcFrom)) && del.eraseDups.length == del.length &&
  decide ((oldKeys m gcFrom).length - del.length ≤ m.length - evictionSample)

def gcLevels : List Level → Int → List (List Int) → List Level
  | [], _, _ => []
  | p :: r, gcFrom, [] => (p.1, gcMap p.2 gcFrom []) :: gcLevels r gcFrom []
  | p :: r, gcFrom, d :: ds => (p.1, gcMap p.2 gcFrom d) :: gcLevels r gcFrom ds

def gcLegalAll : List Level → Int → List (List Int) → Bool
  | [], _, ds => ds.isEmpty
  | p :: r, gcFrom, [] => gcLegal p.2 gcFrom [] && gcLegalAll r gcFrom []
  | p :: r, gcFrom, d :: ds => gcLegal p.2 gcFrom d && gcLegalAll r gcFrom ds

/-- `ok && loadAt <= invalidatedAtNano + invalidateLinger` -/
def staleKey (m : LMap) (loadAt k : Int) : Bool :=
  match mget m k with
  | some tAt => decide (loadAt ≤ tAt + invalidateLingerNs)
  | none => false

/-- `for i := base; …; i += step` over `n` keys: true iff none of them is stale -/
def scanOK (m : LMap) (loadAt base step : Int) (n : Nat) : Bool :=
  (List.range n).all (fun k => !staleKey m loadAt (base + step * (k : Int)))

/-- iterations of `for i := from; i <= to; i += step` -/
def countLast (tFrom tTo step : Int) : Nat := ((tTo - tFrom) / step + 1).toNat

/-- iterations of `for i := fromR + step; i < toR; i += step` -/
def countMid (fromR toR step : Int) : Nat := ((toR - fromR - 1) / step).toNat

def fromNext (fromR step tTo : Int) : Int := if tTo < fromR + step then tTo else fromR + step
def toPrev (toR tFrom : Int) : Int := if tFrom > toR then tFrom else toR

/-- checkInvalidationMapLocked(ix, …) where the list is `steps[ix:]` zipped with `seconds[ix:]` -/
def checkLevels : List Level → Int → Int → Int → Int → Bool
  | [], _, _, _, _ => true
  | [p], _, loadAt, tFrom, tTo => scanOK p.2 loadAt tFrom p.1 (countLast tFrom tTo p.1)
  | p :: q :: rest, off, loadAt, tFrom, tTo =>
    checkLevels (q :: rest) off loadAt tFrom (fromNext (roundTime tFrom p.1 off) p.1 tTo) &&
    checkLevels (q :: rest) off loadAt (toPrev (roundTime tTo p.1 off) tFrom) tTo &&
    scanOK p.2 loadAt (roundTime tFrom p.1 off + p.1) p.1 (countMid (roundTime tFrom p.1 off) (roundTime tTo p.1 off) p.1)

def nsPerSec : Int := 1000000000

/-- `now.Add(invalidateFrom)` in nanoseconds -/
def immutableNs (now : Int) : Int := now + invalidateFromNs
/-- `cacheImmutable.Unix()` (floor) -/
def edgeSec (now : Int) : Int := immutableNs now / nsPerSec
/-- `time.Unix(sec, 0).Before(cacheImmutable)` -/
def beforeEdge (sec now : Int) : Bool := decide (sec * nsPerSec < immutableNs now)
def clampFrom (tFrom now : Int) : Int := if beforeEdge tFrom now then edgeSec now else tFrom

/-- checkInvalidationLocked -/
def checkInvalidation (lv : List Level) (off now loadAt tFrom tTo : Int) : Bool :=
  if beforeEdge tTo now then true else checkLevels lv off loadAt (clampFrom tFrom now) tTo

/-! ### pointsCache -/

structure CRows where
  tFrom : Int
  tTo : Int
  n : Nat
  gen : Nat
  loadedAt : Int
  deriving DecidableEq, Repr

structure Entry where
  key : Nat
  lru : Int
  rows : List CRows
  rowsSize : Nat
  deriving DecidableEq, Repr

structure State where
  maxSize : Int
  off : Int
  size : Int
  cache : List Entry
  levels : List Level
  deriving DecidableEq, Repr

def init (maxSize off : Int) : State := { maxSize, off, size := 0, cache := [], levels := initLevels }

def findEntry : List Entry → Nat → Option Entry
  | [], _ => none
  | e :: r, k => if e.key = k then some e else findEntry r k

def isRange (c : CRows) (tFrom tTo : Int) : Bool := decide (c.tFrom = tFrom) && decide (c.tTo = tTo)

def findRows : List CRows → Int → Int → Option CRows
  | [], _, _ => none
  | c :: r, tFrom, tTo => if isRange c tFrom tTo then some c else findRows r tFrom tTo

def setLru (c : List Entry) (k : Nat) (t : Int) : List Entry :=
  c.map (fun e => if e.key = k then { e with lru := t } else e)

inductive Lookup where
  | absent
  | stale
  | served (n gen : Nat)
  deriving DecidableEq, Repr

def lookupRows (s : State) (key : Nat) (tFrom tTo : Int) : Option CRows :=
  match findEntry s.cache key with
  | none => none
  | some e => findRows e.rows tFrom tTo

/-- loadCached(key, from, to) with the two clock readings it makes when the range is present -/
def loadCached (s : State) (key : Nat) (tFrom tTo tLru tChk : Int) : State × Lookup :=
  match lookupRows s key tFrom tTo with
  | none => (s, .absent)
  | some cr =>
    let s' := { s with cache := setLru s.cache key tLru }
    if checkInvalidation s.levels s.off tChk cr.loadedAt tFrom tTo then (s', .served cr.n cr.gen) else (s', .stale)

/-- invalidate(times) with its two clock readings and the observed deletions per level -/
def invalidate (s : State) (tAt tFrom : Int) (secs : List Int) (dels : List (List Int)) : State :=
  { s with levels := gcLevels (updateAll s.levels s.off tAt secs) (edgeSec tFrom) dels }

def invalidateLegal (s : State) (tAt tFrom : Int) (secs : List Int) (dels : List (List Int)) : Bool :=
  gcLegalAll (updateAll s.levels s.off tAt secs) (edgeSec tFrom) dels

def entryCost (e : Entry) : Int := (e.rowsSize : Int) + (e.rows.length : Int)

/-- evictLocked may pick `k`: it is the strict-minimum-first of some `evictionSample` consecutive map keys -/
def evictLegal (c : List Entry) (k : Nat) : Bool :=
  match findEntry c k with
  | none => false
  | some e => decide ((c.filter (fun x => decide (x.lru < e.lru))).length ≤ c.length - evictionSample)

/-- `c.size -= c.evictLocked()` when the sampled minimum is `k` -/
def evictOne (s : State) (k : Nat) : State :=
  match findEntry s.cache k with
  | none => s
  | some e => { s with size := s.size - entryCost e, cache := s.cache.filter (fun x => x.key ≠ k) }

def needEvict (s : State) : Bool := decide (s.size + (s.cache.length : Int) ≥ s.maxSize)

inductive EvictFlag where
  | ok
  | hang          -- cache empty but size ≥ approxMaxSize: the real loop spins forever
  | noChoice      -- the op did not say which key was evicted although the loop must evict
  | illegal       -- the named key cannot be the one evictLocked picks
  | extra         -- more evictions named than the loop performs
  deriving DecidableEq, Repr

/-- `for c.size+len(c.cache) >= c.approxMaxSize { c.size -= c.evictLocked() }` -/
def evictLoop : State → List Nat → State × EvictFlag
  | s, [] => if needEvict s then (if s.cache.isEmpty then (s, .hang) else (s, .noChoice)) else (s, .ok)
  | s, k :: ks =>
    if needEvict s then
      if evictLegal s.cache k then evictLoop (evictOne s k) ks else (s, .illegal)
    else (s, .extra)

def hasKey (c : List Entry) (k : Nat) : Bool := (findEntry c k).isSome

def addKey (c : List Entry) (k : Nat) : List Entry :=
  if hasKey c k then c else c ++ [{ key := k, lru := 0, rows := [], rowsSize := 0 }]

def putRange (rows : List CRows) (cr : CRows) : List CRows :=
  cr :: rows.filter (fun x => !isRange x cr.tFrom cr.tTo)

def hasRange (rows : List CRows) (tFrom tTo : Int) : Bool := (findRows rows tFrom tTo).isSome

def sizeDelta (e : Entry) (cr : CRows) : Int :=
  if hasRange e.rows cr.tFrom cr.tTo then (cr.n : Int) else 1 + (cr.n : Int)

def putEntry (e : Entry) (tLru : Int) (cr : CRows) : Entry :=
  { e with lru := tLru, rowsSize := e.rowsSize + cr.n, rows := putRange e.rows cr }

/-- the part of `get` after the eviction loop -/
def insertRows (s : State) (key : Nat) (tLru : Int) (cr : CRows) : State :=
  let c := addKey s.cache key
  match findEntry c key with
  | none => s  -- unreachable
  | some e =>
    { s with size := s.size + sizeDelta e cr,
             cache := c.map (fun x => if x.key = key then putEntry x tLru cr else x) }

/-- the store section of `get`: eviction loop, then insert -/
def store (s : State) (key : Nat) (tLru : Int) (cr : CRows) (choices : List Nat) : State × EvictFlag :=
  match evictLoop s choices with
  | (s1, .ok) => (insertRows s1 key tLru cr, .ok)
  | (s1, f) => (s1, f)

/-! ### ops and runs (used by the theorems; the driver calls the functions above directly) -/

inductive Op where
  | lookup (key : Nat) (tFrom tTo tLru tChk : Int)
  | store (key : Nat) (tLru : Int) (cr : CRows) (choices : List Nat)
  | invalidate (tAt tFrom : Int) (secs : List Int) (dels : List (List Int))
  deriving DecidableEq, Repr

def step (s : State) : Op → State
  | .lookup key f t tLru tChk => (loadCached s key f t tLru tChk).1
  | .store key tLru cr ch => (store s key tLru cr ch).1
  | .invalidate tAt tFrom secs dels => invalidate s tAt tFrom secs dels

def run (s : State) : List Op → State
  | [] => s
  | op :: ops => run (step s op) ops

end SH.PCache
