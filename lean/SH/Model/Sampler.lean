/-
  SH.Model.Sampler — executable model of the bucket sampler of StatsHouse
  (/repo/internal/data_model/sampling.go: NewSampler, Add, Run, run, keep/discard, sample, sampleQuota,
  partitionByBudget/Namespace/Group/Metric/Key, selectRandom, roundSampleFactor), shared by C05 and C06.

  Core Lean only (linked into drv_c05). Branch for branch after the Go code; what is an *input* of the model:
    * the PRNG draws (53-bit integers k, the real draw is u = k / 2^53), in consumption order;
    * per row a `rank` that breaks ties of Go's unstable `sort.Slice` (the theorems hold for every rank assignment);
    * the resolved metric meta of every row (namespace, group, weights, NoSampleAgent, FairKeyIndex), because the
      code reads all of these from the first row of a partition.
  Numbers: sizes, weights and budgets are `Int` (Go: int64, no overflow assumed); sample factors are exact
  rationals `num/den` (Go: `float64(num)/float64(den)`, compared bit-exactly by the driver).

  `Variant.orig` is the sampler as pinned in /repo; `Variant.fitKeep` is the sampler with fixes/C05-sample-fit.diff
  applied (a partition that reaches `sample` although it fits its budget is kept whole).
-/
import SH.Model.Core

namespace SH.Sampler

inductive Variant
  | orig      -- the sampler as first pinned (before fixes/C05-sample-fit.diff)
  | fitKeep   -- the sampler in /repo
  | posIds    -- fitKeep with the seeded guard `ID > 0` in getGroupWeight/getNamespaceWeight (seeded/C06-r5-2), kept as a witness
  deriving DecidableEq, Repr

inductive Mode | rand | det | quota
  deriving DecidableEq, Repr

structure Cfg where
  variant : Variant := .fitKeep
  mode : Mode := .rand
  agent : Bool := false            -- ModeAgent
  keepSingle : Bool := false       -- SampleKeepSingle
  disableNoSample : Bool := false  -- DisableNoSampleAgent
  sBudgets : Bool := false         -- SampleBudgets
  sNs : Bool := false              -- SampleNamespaces
  sGroups : Bool := false          -- SampleGroups
  sKeys : Bool := false            -- SampleKeys
  hasMeta : Bool := true           -- Meta != nil
  defNs : Int := -5                -- format.BuiltinNamespaceIDDefault
  defGrp : Int := -4               -- format.BuiltinGroupIDDefault
  deriving DecidableEq, Repr

/-- One `SamplingMultiItemPair` together with the metric meta `Run` attaches to it. -/
structure Item where
  id : Nat
  size : Int
  whale : Int := 0
  metric : Int := 0
  budget : Int := 0       -- fixed per-metric budget (uint32), 0 = none
  ns : Int := 0
  grp : Int := 0
  wNsTab : Int := 0       -- EffectiveWeight of Meta.GetNamespace(ns), 0 if unknown
  wGrpTab : Int := 0      -- EffectiveWeight of Meta.GetGroup(grp), 0 if unknown
  wMetric : Int := 1      -- metric.EffectiveWeight
  noSample : Bool := false
  fki : List Int := []    -- metric.FairKeyIndex
  tags : List Int := []   -- Item.Key.Tags (missing entries are 0)
  single : Bool := false  -- Item != nil && Item.isSingleValueCounter()
  rank : Nat := 0         -- tie-break of unstable sorts
  fkLen : Nat := 0        -- computed by `prep`
  fk : List Int := []     -- computed by `prep`, 3 entries
  deriving DecidableEq, Repr

/-- A decision callback: `KeepF`/`DiscardF` with the factor left in `Item.SF`. Factor = num/den, or MaxFloat32. -/
structure Ev where
  id : Nat
  kept : Bool
  num : Int
  den : Int
  isMax : Bool := false
  quota : Int := 0        -- `p.Size` at the time of the callback (third argument of KeepF)
  deriving DecidableEq, Repr

structure Group where     -- samplerGroup
  fixed : Bool := false
  ns : Int := 0
  grp : Int := 0
  metric : Int := 0
  depth : Nat := 0
  budget : Int := 0
  denom : Int := 0
  noSample : Bool := false
  weight : Int := 0
  sumSize : Int := 0
  items : List Item := []
  deriving DecidableEq, Repr

inductive Act
  | ev (e : Ev)
  | setGroup (g : Group)      -- setCurrentGroup(g)
  | err (what : String)       -- the model ran out of draws / fuel (never on replayed runs)
  deriving DecidableEq, Repr

def evs : List Act → List Ev
  | [] => []
  | .ev e :: r => e :: evs r
  | _ :: r => evs r

/-! ### sorting (Go: sort.Slice — unstable; ties are resolved by `rank`) -/

def insertBy {α} (le : α → α → Bool) (x : α) : List α → List α
  | [] => [x]
  | y :: ys => if le x y then x :: y :: ys else y :: insertBy le x ys

def isort {α} (le : α → α → Bool) : List α → List α
  | [] => []
  | x :: xs => insertBy le x (isort le xs)

/-! ### Run: fair key, the partitioning sort -/

def tagAt (tags : List Int) (x : Int) : Int :=
  if 0 ≤ x ∧ x < 48 then tags.getD x.toNat 0 else 0

def fairKeyOf (it : Item) (n : Nat) : List Int :=
  (List.range 3).map (fun j => if j < n then tagAt it.tags (it.fki.getD j 0) else 0)

def usesKeys (cfg : Cfg) (it : Item) : Bool := cfg.sKeys && !it.fki.isEmpty

def prep (cfg : Cfg) (it : Item) : Item :=
  if usesKeys cfg it then { it with fkLen := min it.fki.length 3, fk := fairKeyOf it (min it.fki.length 3) }
  else { it with fkLen := 0, fk := [0, 0, 0] }

def fkLt : Nat → List Int → List Int → Bool
  | 0, _, _ => false
  | n + 1, a :: as, b :: bs => if a ≠ b then a < b else fkLt n as bs
  | _, _, _ => false

/-- the comparator of the second `sort.Slice` in `Run` -/
def keyLt (a b : Item) : Bool :=
  if (a.budget != 0) != (b.budget != 0) then a.budget != 0
  else if a.ns ≠ b.ns then a.ns < b.ns
  else if a.grp ≠ b.grp then a.grp < b.grp
  else if a.metric ≠ b.metric then a.metric < b.metric
  else fkLt a.fkLen a.fk b.fk

def itemLe (a b : Item) : Bool := keyLt a b || (!keyLt b a && a.rank ≤ b.rank)

/-! ### Run: which metric meta a row is sampled with -/

/-- the meta a row carries itself (`Item.MetricMeta`), with the namespace/group table weights looked up for it -/
structure Carried where
  metricID : Int
  ns : Int
  grp : Int
  wNsTab : Int
  wGrpTab : Int
  wMetric : Int
  noSample : Bool
  fki : List Int
  deriving DecidableEq, Repr

/-- `if Item.MetricMeta != nil && MetricID == Item.MetricMeta.MetricID { metric = Item.MetricMeta } else { metric =
    getMetricMeta(MetricID) }`: `it` holds what meta storage says about the metric the row is ACCOUNTED to
    (`SamplingMultiItemPair.MetricID`); the carried meta replaces it only if it is the meta of that very metric — a row
    that belongs to another metric (an ingestion status accounted to a user metric) is sampled with the accounting metric's
    namespace, group, weight, NoSampleAgent flag and fair keys. -/
def resolveMeta (it : Item) (c : Option Carried) : Item :=
  match c with
  | some c =>
    if c.metricID = it.metric then
      { it with ns := c.ns, grp := c.grp, wNsTab := c.wNsTab, wGrpTab := c.wGrpTab, wMetric := c.wMetric, noSample := c.noSample, fki := c.fki }
    else it
  | none => it

/-! ### partitions -/

/-- maximal contiguous runs of rows with equal `key` (the `for j … if key s[i] != key s[j]` loops) -/
def runs (key : Item → Int) : List Item → List (List Item)
  | [] => []
  | x :: xs =>
    match runs key xs with
    | (y :: ys) :: rest => if key x = key y then (x :: y :: ys) :: rest else [x] :: (y :: ys) :: rest
    | [] :: rest => [x] :: rest
    | [] => [[x]]

def sumSizes (l : List Item) : Int := (l.map (·.size)).sum

def clamp1 (w : Int) : Int := if w < 1 then 1 else w

/-- `p.metric.GroupID != 0` / `p.metric.NamespaceID != 0`: the weight of a group or namespace is looked up for EVERY id but 0 —
    builtin groups and namespaces have negative ids (__default group -4, __builtin -2, __host -3, __default namespace -5) and
    their weights are configurable like any other. (`Variant.posIds` is the seeded guard `> 0`.) -/
def idHasWeight (cfg : Cfg) (id : Int) : Bool :=
  if cfg.variant == .posIds then decide (0 < id) else id != 0

def nsWeight (cfg : Cfg) (it : Item) : Int :=
  clamp1 (if cfg.hasMeta && idHasWeight cfg it.ns then it.wNsTab else 0)

def grpWeight (cfg : Cfg) (it : Item) : Int :=
  clamp1 (if cfg.hasMeta && idHasWeight cfg it.grp then it.wGrpTab else 0)

inductive PartKind | byBudget | byNs | byGroup | byMetric | byKey
  deriving DecidableEq, Repr

def partList (cfg : Cfg) : List PartKind :=
  (if cfg.sBudgets then [.byBudget] else []) ++ (if cfg.sNs then [.byNs] else []) ++
  (if cfg.sGroups then [.byGroup] else []) ++ [.byMetric]

def nPart (cfg : Cfg) : Nat := (partList cfg).length

def kindAt (cfg : Cfg) (d : Nat) : PartKind := (partList cfg).getD d .byKey

/-- the kind that follows partitionByBudget in `partF` -/
def kindAfterBudget (cfg : Cfg) : PartKind :=
  if cfg.sNs then .byNs else if cfg.sGroups then .byGroup else .byMetric

def hd (l : List Item) : Item := l.headD { id := 0, size := 0 }

def mkNs (cfg : Cfg) (d : Nat) (l : List Item) : Group :=
  { depth := d + 1, weight := nsWeight cfg (hd l), items := l, sumSize := sumSizes l, ns := (hd l).ns }

def mkGrp (cfg : Cfg) (d : Nat) (l : List Item) : Group :=
  { depth := d + 1, weight := grpWeight cfg (hd l), items := l, sumSize := sumSizes l, ns := (hd l).ns, grp := (hd l).grp }

def mkMetric (d : Nat) (l : List Item) : Group :=
  { depth := d + 1, weight := (hd l).wMetric, items := l, sumSize := sumSizes l, noSample := (hd l).noSample,
    ns := (hd l).ns, grp := (hd l).grp, metric := (hd l).metric }

def mkKey (d : Nat) (l : List Item) : Group :=
  { depth := d + 1, weight := 1, items := l, sumSize := sumSizes l, noSample := (hd l).noSample,
    ns := (hd l).ns, grp := (hd l).grp, metric := (hd l).metric }

def mkFixed (cfg : Cfg) (l : List Item) : Group :=
  { ns := (hd l).ns, grp := (hd l).grp, metric := (hd l).metric, depth := nPart cfg, budget := (hd l).budget,
    fixed := true, denom := 1, weight := 1, noSample := (hd l).noSample, sumSize := sumSizes l, items := l }

def sumWeights (gs : List Group) : Int := (gs.map (·.weight)).sum

/-- partitionByNamespace / Group / Metric / Key on the rows `l` of a group of depth `d` -/
def partPlain (cfg : Cfg) (k : PartKind) (d : Nat) (l : List Item) : List Group :=
  match k with
  | .byNs => (runs (·.ns) l).map (mkNs cfg d)
  | .byGroup => (runs (·.grp) l).map (mkGrp cfg d)
  | .byMetric => (runs (·.metric) l).map (mkMetric d)
  | .byKey => (runs (fun it => it.fk.getD (d - nPart cfg) 0) l).map (mkKey d)
  | .byBudget => []

def hasBudget (l : List Item) : Bool := decide (0 < (hd l).budget)

/-- partitionByBudget: leading metrics with a fixed budget become groups of their own, the rest is partitioned by
    the next partition function one level deeper. -/
def partBudget (cfg : Cfg) (d : Nat) (l : List Item) : List Group :=
  ((runs (·.metric) l).takeWhile hasBudget).map (mkFixed cfg) ++
  partPlain cfg (kindAfterBudget cfg) (d + 1) ((runs (·.metric) l).dropWhile hasBudget).flatten

def partition (cfg : Cfg) (g : Group) : List Group :=
  match kindAt cfg g.depth with
  | .byBudget => partBudget cfg g.depth g.items
  | k => partPlain cfg k g.depth g.items

/-- the `sumWeight` returned next to the groups -/
def partWeight (cfg : Cfg) (g : Group) : Int :=
  match kindAt cfg g.depth with
  | .byBudget =>
    if ((runs (·.metric) g.items).dropWhile hasBudget).flatten.isEmpty then 1
    else sumWeights (partPlain cfg (kindAfterBudget cfg) (g.depth + 1) ((runs (·.metric) g.items).dropWhile hasBudget).flatten)
  | k => sumWeights (partPlain cfg k g.depth g.items)

def minRank (g : Group) : Nat := (g.items.map (·.rank)).foldl min (hd g.items).rank

/-- `s[i].sumSize*s[j].weight < s[j].sumSize*s[i].weight` -/
def ratioLt (a b : Group) : Bool := a.sumSize * b.weight < b.sumSize * a.weight

def groupLe (a b : Group) : Bool := ratioLt a b || (!ratioLt b a && minRank a ≤ minRank b)

/-! ### keep / discard -/

def keepEv (it : Item) : Ev := { id := it.id, kept := true, num := 1, den := 1, quota := it.size }

def keepAll (l : List Item) : List Act := l.map (fun it => .ev (keepEv it))

/-! ### sample (SampleRows) -/

def two53 : Nat := 9007199254740992

def whaleLe (a b : Item) : Bool := a.whale > b.whale || (a.whale == b.whale && a.rank ≤ b.rank)

/-- `r.Float64()*sf < 1` with `Float64() = k/2^53`, `sf = num/den` -/
def drawKeeps (k : Nat) (num den : Int) : Bool := (k : Int) * num < (two53 : Int) * den

def sfEv (it : Item) (kept : Bool) (num den : Int) : Ev :=
  { id := it.id, kept := kept, num := num, den := den, quota := it.size }

/-- selectRandom (sf > 1): one draw per row, the row is kept iff its own draw says so -/
def selectRand (num den : Int) : List Item → List Nat → List Act × List Nat
  | [], ds => ([], ds)
  | it :: r, [] =>
    let res := selectRand num den r []
    (.err "no-draw" :: .ev (sfEv it true num den) :: res.1, res.2)
  | it :: r, k :: ds =>
    let res := selectRand num den r ds
    (.ev (sfEv it (drawKeeps k num den) num den) :: res.1, res.2)

/-- the deterministic selector of the repo's tests: the first ⌊len/sf⌋ rows -/
def detCount (n : Nat) (num den : Int) : Nat := min n ((n : Int) * den / num).toNat

def selectPart (cfg : Cfg) (num den : Int) (l : List Item) (ds : List Nat) : List Act × List Nat :=
  match cfg.mode with
  | .det =>
    ((l.take (detCount l.length num den)).map (fun it => .ev (sfEv it true num den)) ++
     (l.drop (detCount l.length num den)).map (fun it => .ev (sfEv it false num den)), ds)
  | _ =>
    if num ≤ den then (l.map (fun it => .ev (sfEv it true num den)), ds)   -- `if sf <= 1 { return len(s) }`
    else selectRand num den l ds

def keepSingleHit (cfg : Cfg) (g : Group) : Bool :=
  cfg.keepSingle && g.items.length == 1 && (hd g.items).single

def sfNumOf (g : Group) : Int := if g.denom * g.sumSize < 1 then 1 else g.denom * g.sumSize
def sfDenOf (g : Group) : Int := if g.budget < 1 then 1 else g.budget

/-- `pos := int(int64(len(items)) * sfDenom / sfNum / 2)` capped by len -/
def whalePos (g : Group) : Nat := min g.items.length ((g.items.length : Int) * sfDenOf g / sfNumOf g / 2).toNat

/-- fix C05-sample-fit: a group that fits its budget is not sampled -/
def fitShortcut (cfg : Cfg) (g : Group) : Bool := cfg.variant != .orig && sfNumOf g ≤ sfDenOf g

def sampleRows (cfg : Cfg) (g : Group) (ds : List Nat) : List Act × List Nat :=
  if g.items.isEmpty then ([], ds)
  else if keepSingleHit cfg g then (keepAll g.items, ds)
  else if fitShortcut cfg g then (keepAll g.items, ds)
  else if whalePos g > 0 then
    let sorted := isort whaleLe g.items
    let res := selectPart cfg (2 * sfNumOf g) (sfDenOf g) (sorted.drop (whalePos g)) ds
    (keepAll (sorted.take (whalePos g)) ++ res.1, res.2)
  else selectPart cfg (sfNumOf g) (sfDenOf g) g.items ds

/-! ### sampleQuota -/

def quotaOf (g : Group) (it : Item) : Int := g.budget * it.size / (g.denom * g.sumSize)

def quotaEv (g : Group) (it : Item) : Ev :=
  if quotaOf g it < 1 then { id := it.id, kept := false, num := 0, den := 1, isMax := true, quota := quotaOf g it }
  else { id := it.id, kept := true, num := 1, den := 1, quota := quotaOf g it }

def sampleQuota (g : Group) : List Act := g.items.map (fun it => .ev (quotaEv g it))

def leaf (cfg : Cfg) (g : Group) (ds : List Nat) : List Act × List Nat :=
  match cfg.mode with
  | .quota => (sampleQuota g, ds)
  | _ => sampleRows cfg g ds

/-! ### run: water filling -/

/-- `s[i].budget = g.budget * s[i].weight; s[i].budgetDenom = sumWeight` unless the budget is fixed -/
def assign (B W : Int) (g : Group) : Group :=
  if g.fixed then g else { g with budget := B * g.weight, denom := W }

/-- negation of `s[i].budget < s[i].budgetDenom*s[i].sumSize` -/
def fits (g : Group) : Bool := !(g.budget < g.denom * g.sumSize)

def stepB (B : Int) (g : Group) : Int := if g.fixed then B else B - g.sumSize
def stepW (W : Int) (g : Group) : Int := if g.fixed then W else W - g.weight

def markKeep (g : Group) : List Act := if g.metric == 0 then [.setGroup g] else []

/-- first loop: the callbacks of the groups that fit -/
def keptActs (B W : Int) : List Group → List Act
  | [] => []
  | g :: gs =>
    if fits (assign B W g) then markKeep (assign B W g) ++ keepAll g.items ++ keptActs (stepB B g) (stepW W g) gs
    else []

/-- the groups left for the second loop -/
def restGroups (B W : Int) : List Group → List Group
  | [] => []
  | g :: gs => if fits (assign B W g) then restGroups (stepB B g) (stepW W g) gs else g :: gs

def restB (B W : Int) : List Group → Int
  | [] => B
  | g :: gs => if fits (assign B W g) then restB (stepB B g) (stepW W g) gs else B

def restW (B W : Int) : List Group → Int
  | [] => W
  | g :: gs => if fits (assign B W g) then restW (stepB B g) (stepW W g) gs else W

def noSampleHit (cfg : Cfg) (g : Group) : Bool := g.noSample && cfg.agent && !cfg.disableNoSample

def recurses (cfg : Cfg) (g : Group) : Bool := decide (g.depth < nPart cfg + (hd g.items).fkLen)

def markSample (cfg : Cfg) (g : Group) : List Act :=
  if g.depth < nPart cfg && g.grp != 0 && g.metric == 0 then [.setGroup g] else []

/-- roundSampleFactor on `budget/denom` (random mode: one draw) or floor (deterministic test hook) -/
def roundUp (k : Nat) (g : Group) : Bool := (k : Int) * g.denom < (two53 : Int) * (g.budget % g.denom)

def rounded (cfg : Cfg) (g : Group) (ds : List Nat) : Group × List Nat × List Act :=
  if g.fixed then (g, ds, [])
  else match cfg.mode, ds with
    | .det, _ => ({ g with budget := g.budget / g.denom, denom := 1 }, ds, [])
    | _, [] => ({ g with budget := g.budget / g.denom, denom := 1 }, [], [.err "no-draw"])
    | _, k :: r => ({ g with budget := g.budget / g.denom + (if roundUp k g then 1 else 0), denom := 1 }, r, [])

/-- what the second loop does with one group (budget already assigned); `rec` is `run` one level deeper -/
def handle (cfg : Cfg) (rec : Group → List Nat → List Act × List Nat) (g : Group) (ds : List Nat) : List Act × List Nat :=
  if noSampleHit cfg g then (keepAll g.items, ds)
  else if recurses cfg g then
    ((rounded cfg g ds).2.2 ++ (rec (rounded cfg g ds).1 (rounded cfg g ds).2.1).1,
     (rec (rounded cfg g ds).1 (rounded cfg g ds).2.1).2)
  else leaf cfg g ds

/-- second loop over the groups that do not fit -/
def sampleLoop (cfg : Cfg) (rec : Group → List Nat → List Act × List Nat) (B W : Int) :
    List Group → List Nat → List Act × List Nat
  | [], ds => ([], ds)
  | g :: gs, ds =>
    (markSample cfg (assign B W g) ++ (handle cfg rec (assign B W g) ds).1 ++
       (sampleLoop cfg rec B W gs (handle cfg rec (assign B W g) ds).2).1,
     (sampleLoop cfg rec B W gs (handle cfg rec (assign B W g) ds).2).2)

def run : Nat → Cfg → Group → List Nat → List Act × List Nat
  | 0, cfg, g, ds => let r := leaf cfg g ds; (.err "fuel" :: r.1, r.2)
  | fuel + 1, cfg, g, ds =>
    let s := isort groupLe (partition cfg g)
    let W := partWeight cfg g
    let more := sampleLoop cfg (run fuel cfg) (restB g.budget W s) (restW g.budget W s) (restGroups g.budget W s) ds
    (keptActs g.budget W s ++ more.1, more.2)

/-! ### Add + Run -/

def addDiscard (it : Item) : Ev := { id := it.id, kept := false, num := 0, den := 1, isMax := true, quota := it.size }

def dropped (items : List Item) : List Item := items.filter (fun it => it.size < 1)
def added (cfg : Cfg) (items : List Item) : List Item := (items.filter (fun it => !(it.size < 1))).map (prep cfg)

def topGroup (cfg : Cfg) (items : List Item) (budget : Int) : Group :=
  { ns := cfg.defNs, grp := cfg.defGrp, items := isort itemLe (added cfg items), budget := budget }

def fuel0 : Nat := 9

/-- all callbacks of `Add`* ; `Run(budget)` in order -/
def runBucket (cfg : Cfg) (items : List Item) (budget : Int) (ds : List Nat) : List Act :=
  (dropped items).map (fun it => .ev (addDiscard it)) ++
  (if (added cfg items).isEmpty then [] else (run fuel0 cfg (topGroup cfg items budget) ds).1)

/-! ### MetricGroups (sampling statistics per namespace/group) -/

structure GStat where
  ns : Int
  grp : Int
  metric : Int
  budget : Int
  denom : Int
  depth : Nat
  keepN : Int := 0
  keepSum : Int := 0
  discN : Int := 0
  discSum : Int := 0
  deriving DecidableEq, Repr

def GStat.add (s : GStat) (e : Ev) : GStat :=
  if e.kept then { s with keepN := s.keepN + 1, keepSum := s.keepSum + e.quota }
  else { s with discN := s.discN + 1, discSum := s.discSum + e.quota }

def ofGroup (cfg : Cfg) (g : Group) : GStat :=
  { ns := g.ns, grp := if g.grp == 0 then cfg.defGrp else g.grp, metric := g.metric, budget := g.budget, denom := g.denom, depth := g.depth }

def foldStats (cfg : Cfg) : GStat → List GStat → List Act → List GStat
  | cur, done, [] => (cur :: done).reverse
  | cur, done, .ev e :: r => foldStats cfg (cur.add e) done r
  | cur, done, .setGroup g :: r => foldStats cfg (ofGroup cfg g) (if cur.depth != 0 then cur :: done else done) r
  | cur, done, .err _ :: r => foldStats cfg cur done r

/-- `sampler.MetricGroups` after `Run` -/
def metricGroups (cfg : Cfg) (items : List Item) (budget : Int) (ds : List Nat) : List GStat :=
  if (added cfg items).isEmpty then []
  else
    foldStats cfg { ns := cfg.defNs, grp := cfg.defGrp, metric := 0, budget := budget, denom := 0, depth := 0 } []
      (run fuel0 cfg (topGroup cfg items budget) ds).1 ++
    (if (dropped items).isEmpty then []
     else [{ ns := 0, grp := 0, metric := 0, budget := 0, denom := 0, depth := 0, discN := (dropped items).length, discSum := 0 }])

/-! ### consecutive samplers sharing SamplerBuffers (aggregator_insert.go hands `sampler.SamplerBuffers` to the next NewSampler) -/

/-- `c.items = c.items[:0]` in NewSampler: whatever rows the previous sampler left in the buffer, the new one starts empty -/
def newSamplerItems (_left : List Item) : List Item := []

/-- one sampler of a sequence: decisions, and the rows it leaves behind in the buffer (`h.items` after Add*) -/
def runShared (cfg : Cfg) (left : List Item) (items : List Item) (budget : Int) (ds : List Nat) : List Act × List Item :=
  (runBucket cfg (newSamplerItems left ++ items) budget ds, newSamplerItems left ++ items.filter (fun it => !(it.size < 1)))

structure RunIn where
  cfg : Cfg
  items : List Item
  budget : Int
  draws : List Nat

/-- the decisions of each sampler of a sequence -/
def runSeq : List Item → List RunIn → List (List Act)
  | _, [] => []
  | left, r :: rs => (runShared r.cfg left r.items r.budget r.draws).1 :: runSeq (runShared r.cfg left r.items r.budget r.draws).2 rs

/-! ### agent: (*Shard).sampleBucket around the sampler (agent_shard_send.go) -/

/-- `remainingBudget` handed to `sampler.Run`: the per-shard budget, capped by MaxUncompressedBucketSize/2, minus the
    fixed per-metric budgets received from the aggregator, but at least MinSampleBudget -/
def agentBudget (shardBudget minBudget budgetSum maxHalf : Int) : Int :=
  if minBudget < (if maxHalf < shardBudget then maxHalf else shardBudget) - budgetSum
  then (if maxHalf < shardBudget then maxHalf else shardBudget) - budgetSum else minBudget

/-- a row of the bucket: `bypass` = `item.MetricMeta.NoSampleAgent` of the row's OWN metric (such rows never reach the
    sampler: `keepF(item, bucket.Time, 1)` with the row's initial SF = 1); `item` is what `sampler.Add` would get
    (accounted metric, whale weight, size estimate) -/
structure ARow where
  item : Item
  bypass : Bool
  deriving DecidableEq, Repr

def agentBucket (cfg : Cfg) (rows : List ARow) (budget : Int) (ds : List Nat) : List Act :=
  ((rows.filter (·.bypass)).map (fun r => Act.ev (keepEv r.item))) ++
  runBucket cfg ((rows.filter (fun r => !r.bypass)).map (·.item)) budget ds

/-! ### aggregator: calcHostMetricBudgets around SampleQuota (aggregator.go) -/

/-- `keepF` of calcHostMetricBudgets: "We encourage good metrics that fully fit in quota" -/
def hostBudget (originalSize quota : Int) : Int := if originalSize ≤ quota then quota * 2 else quota

/-- budget reported back to the host for one (metric, host) row; nothing for rows whose quota is < 1 -/
def hostBudgetOf (items : List Item) (e : Ev) : Int :=
  if e.kept then hostBudget ((items.find? (fun it => it.id == e.id)).map (·.size) |>.getD 0) e.quota else 0

/-! ### size estimates fed to `Add` (transfer.go TLSizeEstimate, bucket.go RowBinarySizeEstimate) -/

/-- number of leading entries up to the last non-zero one (`for i := MaxTags; i != 0; i--`) -/
def trimLen : List Nat → Nat
  | [] => 0
  | x :: xs => if trimLen xs = 0 then (if x = 0 then 0 else 1) else trimLen xs + 1

/-- `l := 1 + len; l += (4 - l%4) % 4` -/
def stagPad (len : Nat) : Nat := (1 + len) + (4 - (1 + len) % 4) % 4

/-- Key.TLSizeEstimate: `tagsNZ[i] = 1` iff `Tags[i] != 0`, `stagLens[i] = len(STags[i])` -/
def keyTLSize (tagsNZ : List Nat) (stagLens : List Nat) (tsExtra : Bool) : Nat :=
  4 + (4 + 4 + 4 * trimLen tagsNZ) +
  (if trimLen stagLens > 0 then 4 + ((stagLens.take (trimLen stagLens)).map stagPad).sum else 0) +
  (if tsExtra then 4 else 0)

/-- the fields of a MultiValue that TLSizeEstimate / RowBinarySizeEstimate look at -/
structure ValDesc where
  empty : Bool := false        -- Empty(): Value.Count() <= 0
  maxHostI : Bool := false     -- MaxHostTag.I != 0
  maxHostS : Nat := 0          -- len(MaxHostTag.S)
  minEqMax : Bool := true      -- MinHostTag == MaxHostTag
  minHostI : Bool := false
  minHostS : Nat := 0
  mcEqMax : Bool := true       -- MaxCounterHostTag == MaxHostTag
  mcHostI : Bool := false
  mcHostS : Nat := 0
  hllItems : Nat := 0          -- HLL.ItemsCount()
  hasDigest : Bool := false    -- ValueTDigest != nil
  centroids : Nat := 0
  valueSet : Bool := false
  minNonZero : Bool := false   -- ValueMin != 0
  singleTL : Bool := true      -- Value.singleValueTL()
  deriving DecidableEq, Repr

def hostSz (isI : Bool) (sLen : Nat) : Nat := if isI then 4 else sLen

def hllEst (n : Nat) : Nat := 1 + 3 + 4 * n

/-- MultiValue.TLSizeEstimate -/
def valueTLSize (v : ValDesc) : Nat :=
  8 + hostSz v.maxHostI v.maxHostS +
  (if v.minEqMax then 0 else hostSz v.minHostI v.minHostS) +
  (if v.mcEqMax then 0 else hostSz v.mcHostI v.mcHostS) +
  (if v.hllItems ≠ 0 then hllEst v.hllItems else 0) +
  (if v.hasDigest then 4 + 8 * v.centroids else 0) +
  (if v.valueSet then (if v.minNonZero then 8 else 0) + (if v.singleTL then 0 else 24) else 0)

/-- MultiItem.TLSizeEstimate: tail + string top entries `(len(k.S), value)` -/
def itemTLSize (tail : ValDesc) (tops : List (Nat × ValDesc)) : Nat :=
  valueTLSize tail + (tops.map (fun t => 4 + t.1 + 3 + valueTLSize t.2)).sum

/-- MultiValue.RowBinarySizeEstimate -/
def valueRowSize (v : ValDesc) : Nat :=
  if v.empty then 0 else 5 * 8 + 1 + 1 + 10 + hllEst v.hllItems + (if v.hasDigest then 8 * v.centroids else 0)

/-- MultiItem.RowBinarySizeEstimate (oldTagNumber = 16) -/
def itemRowSize (stagLens : List Nat) (tail : ValDesc) (tops : List (Nat × ValDesc)) : Nat :=
  (4 + 4 + 16 * 4 + stagLens.sum) + valueRowSize tail +
  (tops.map (fun t => (4 + 4 + 16 * 4 + stagLens.sum) + 4 + t.1 + valueRowSize t.2)).sum

end SH.Sampler
