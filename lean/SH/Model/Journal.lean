/-
  SH.Model.Journal — model of internal/metajournal/journal_fast.go (addEventLocked, applyUpdate, save, load/loadImpl,
  Save) and journal_fast_rpc.go (getJournalDiffLocked3Limits)  (property C20, first half).

  The Go journal is `journal map[(type,id)]event` + `order` (a btree by version). The model keeps both as one list of
  entries in ascending version order (`order.Ascend` = the list, `journal[key]` = `find`).

  What is external and therefore an input (DESIGN §4.2, §4.7): an event *without its version* is an opaque content
  number `k`; the table `tab : Nat → Content` (filled from `def` lines of the harness) gives for each content the fields
  the journal code reads (type, id, len(Name), len(Data), serialised size), its xxh3 hash without version (opaque
  128-bit token), what the diff + TL transport turns it into (`t`), and what `compactJournalEvent` turns it into
  (`c`, `none` = discard). `equalWithoutVersionJournalEvent(a, b)` is `a.k = b.k`.
  Modelling `t` and `c` as table columns assumes they are functions of the event (no dependence on Go map order, time,
  or the replica); the harness verifies this on the real code for every content it generates.
-/
import SH.Gen.C20

namespace SH.Journal

/-- one row of the content table -/
structure Content where
  typ : Int
  id : Int
  name : List Nat
  dlen : Nat            -- len(Data)
  sz : Nat              -- len(WriteTL1Boxed)
  hash : Nat            -- hashWithoutVersionJournalEvent
  ok : Bool             -- the XxxMetaFromEvent converter accepts it
  dis : Bool            -- group: Disable
  t : Nat               -- content after getJournalDiffLocked3 + TL (what the next journal receives)
  c : Option Nat        -- content after compactJournalEvent; none = discarded
deriving DecidableEq, Repr

def Content.default : Content :=
  { typ := -1, id := 0, name := [], dlen := 0, sz := 0, hash := 0, ok := false, dis := false, t := 0, c := none }

/-- a journal entry: version + content number + the content fields the journal itself reads -/
structure Entry where
  ver : Int
  k : Nat
  typ : Int
  id : Int
  hash : Nat
  nlen : Nat
  dlen : Nat
  sz : Nat
deriving DecidableEq, Repr

def mkEntry (tab : Nat → Content) (ver : Int) (k : Nat) : Entry :=
  let c := tab k
  { ver := ver, k := k, typ := c.typ, id := c.id, hash := c.hash, nlen := c.name.length, dlen := c.dlen, sz := c.sz }

structure J where
  entries : List Entry := []     -- ascending by version
  hash : Nat := 0                -- stateHash
  cur : Int := 0                 -- currentVersion
  lv : Int := 0                  -- loaderVersion
  lk : Int := 0                  -- lastKnownVersion
  saved : Int := 0               -- lastSavedVersion
  compact : Bool := false
deriving DecidableEq, Repr

def sameKey (a b : Entry) : Bool := a.typ = b.typ && a.id = b.id

def findKey (es : List Entry) (e : Entry) : Option Entry := es.find? (sameKey e)

def oldHash (es : List Entry) (e : Entry) : Nat :=
  match findKey es e with
  | some o => o.hash
  | none => 0

/-- `entry.Version <= ms.currentVersion` → panic -/
def tooOld (j : J) (e : Entry) : Bool := decide (e.ver ≤ j.cur)

/-- `addEventLocked`; `none` = the Go code panics ("journal order invariant violated") -/
def add (j : J) (e : Entry) : Option J :=
  if tooOld j e then none
  else some { j with
    entries := j.entries.filter (fun o => !sameKey e o) ++ [e],
    hash := (j.hash ^^^ oldHash j.entries e) ^^^ e.hash,
    cur := e.ver }

def addAll : J → List Entry → Option J
  | j, [] => some j
  | j, e :: r =>
    match add j e with
    | some j' => addAll j' r
    | none => none

/-! ### diff (journal_fast_rpc.go) -/

/-- the body of the `AscendGreaterOrEqual` callback: append, then stop on either limit (overshoot by one item) -/
def takeLim (maxItems maxBytes : Nat) : List Entry → Nat → Nat → List Entry
  | [], _, _ => []
  | e :: r, n, b =>
    if n + 1 ≥ maxItems ∨ b + e.nlen + e.dlen + 60 ≥ maxBytes then [e]
    else e :: takeLim maxItems maxBytes r (n + 1) (b + e.nlen + e.dlen + 60)

/-- `getJournalDiffLocked3Limits(verNumb, …)`: the events of the response, before transport -/
def diff (j : J) (from_ : Int) (maxItems maxBytes : Nat) : List Entry :=
  if from_ ≥ j.cur then []
  else takeLim maxItems maxBytes (j.entries.filter (fun e => decide (from_ < e.ver))) 0 0

/-- what arrives at the requesting journal: same versions, transported contents -/
def transport (tab : Nat → Content) (es : List Entry) : List Entry :=
  es.map (fun e => mkEntry tab e.ver (tab e.k).t)

/-! ### applyUpdate (journal_fast.go) -/

/-- the compact branch for one incoming event: `none` = dropped (discarded or unchanged), `some e` = stored as `e` -/
def compactOne (tab : Nat → Content) (j : J) (e : Entry) : Option Entry :=
  match (tab e.k).c with
  | none => none
  | some c =>
    let e' := mkEntry tab e.ver c
    match findKey j.entries e' with
    | some old => if old.k = e'.k then none else some e'
    | none => some e'

def compactFilter (tab : Nat → Content) (j : J) (src : List Entry) : List Entry :=
  src.filterMap (compactOne tab j)

/-- what survives the `if ms.compact { … }` block of applyUpdate -/
def keptOf (tab : Nat → Content) (j : J) (src : List Entry) : List Entry :=
  if j.compact then compactFilter tab j src else src

def lastVer : List Entry → Int → Int
  | [], d => d
  | [e], _ => e.ver
  | _ :: r, d => lastVer r d

/-- `applyUpdate(src, lastKnownVersion)`: new journal and the events handed to the ApplyEvent callbacks;
    `none` = panic inside addEventLocked -/
def applyUpdate (tab : Nat → Content) (j : J) (src : List Entry) (lastKnown : Int) : Option (J × List Entry) :=
  if src.isEmpty then some (j, [])
  else
    match addAll j (keptOf tab j src) with
    | none => none
    | some j' => some ({ j' with lv := lastVer src 0, lk := lastKnown }, keptOf tab j src)

/-! ### save / load over the chunked file (chunked_storage2.go as used by journal_fast.go) -/

structure Chunk where
  size : Nat                 -- bytes on disk: header + body + hash
  evs : List Entry
deriving DecidableEq, Repr

structure File where
  lv : Int := 0              -- first 8 bytes of the first chunk body
  cur : Int := 0             -- next 8 bytes
  chunks : List Chunk := []
  tail : Nat := 0            -- bytes of an incomplete chunk left after a truncation
deriving DecidableEq, Repr

def headerBytes : Nat := 16   -- two TL longs

def chunkDisk (body : Nat) : Nat := SH.Gen.C20.chunkHeaderSize + body + SH.Gen.C20.chunkHashSize

/-- `FinishItem`: the chunk is written once half of ChunkSize is used -/
def chunkFull (body : Nat) : Bool := decide (body ≥ SH.Gen.C20.chunkSize / 2)

/-- the `order.Ascend` loop of `save`: `body`/`acc` = current chunk, returns finished chunks in order -/
def packChunks : List Entry → Nat → List Entry → List Chunk
  | [], body, acc => if body = 0 then [] else [{ size := chunkDisk body, evs := acc.reverse }]
  | e :: r, body, acc =>
    if chunkFull (body + e.sz) then
      { size := chunkDisk (body + e.sz), evs := (e :: acc).reverse } :: packChunks r 0 []
    else packChunks r (body + e.sz) (e :: acc)

def saveFile (j : J) : File :=
  { lv := j.lv, cur := j.cur, chunks := packChunks j.entries headerBytes [], tail := 0 }

/-- `Save()`: nothing happens when `lastSavedVersion == currentVersion` -/
def save (j : J) (f : File) : J × File × Bool :=
  if j.saved = j.cur then (j, f, false)
  else ({ j with saved := j.cur }, saveFile j, true)

def fileSize (f : File) : Nat := (f.chunks.map (·.size)).sum + f.tail

/-- complete chunks inside the first `keep` bytes -/
def keepChunks : List Chunk → Nat → List Chunk
  | [], _ => []
  | c :: r, keep => if c.size ≤ keep then c :: keepChunks r (keep - c.size) else []

/-- the file after `file = file[:keep]` (no-op when keep ≥ size) -/
def truncate (f : File) (keep : Nat) : File :=
  if keep ≥ fileSize f then f
  else
    let cs := keepChunks f.chunks keep
    { f with chunks := cs, tail := keep - (cs.map (·.size)).sum }

/-- `loadImpl`: every readable chunk is added and handed to the callbacks as one batch -/
def loadChunks : J → List Chunk → Option (J × List (List Entry))
  | j, [] => some (j, [])
  | j, c :: r =>
    match addAll j c.evs with
    | none => none
    | some j' =>
      match loadChunks j' r with
      | none => none
      | some (j'', bs) => some (j'', c.evs :: bs)

/-- can the header's loader version be believed?  (`lastEventVersion == currentVersion && loaderVersion >= currentVersion`) -/
def headerOk (f : File) (cur : Int) : Bool :=
  if f.chunks.isEmpty then decide (cur = 0)       -- nothing read: both header values are 0
  else decide (f.cur = cur) && decide (f.lv ≥ cur)

def headerLv (f : File) : Int := if f.chunks.isEmpty then 0 else f.lv

/-- `LoadJournalFastSlice`: fresh journal from the file; result = journal, batches for ApplyEvent, error flag -/
def load (compact : Bool) (f : File) : Option (J × List (List Entry) × Bool) :=
  match loadChunks { compact := compact } f.chunks with
  | none => none
  | some (j, bs) =>
    let lv := if headerOk f j.cur then headerLv f else j.cur
    some ({ j with lv := lv, lk := j.cur, saved := 0 }, bs, decide (f.tail ≠ 0))

end SH.Journal
