/-
  SH.Model.Access — executable model of access control (property C30).

  Code modelled, branch for branch:
    internal/vkgo/vkuth/access.go   JWTHelper.ParseVkuthData (the Keyfunc: `kind` header, `kid` lookup),
                                    jwt.WithValidMethods([EdDSA]), Claims.Valid, stripFullBit
    golang-jwt v4 Parser.ParseWithClaims: the ORDER of its checks and the error bit each one sets
                                    (malformed → alg known → alg allowed → Keyfunc → signature → Claims.Valid)
    internal/api/access.go          parseAccessToken (local / insecure mode, empty token, the bit switch,
                                    extractNamespace), protectedMetric, hasPrefixAccess, CanViewMetricName,
                                    canChangeMetricByName, CanEditMetric, skips

  What is an INPUT of the model rather than modelled (DESIGN §6 C30): base64/JSON decoding of the three segments
  (a token that does not decode is the input `malformed`), and Ed25519 — `Token.sigValid` is the list of public keys
  (key BYTES, configured or not) under which the signature verifies, i.e. the relation `valid : Key → Token → Bool`
  as data, computed by the harness with crypto/ed25519 from its own key pairs. sha256 (the key fingerprint = key id)
  is a parameter `fp` of `parseKeys`. The key table `kid ↦ key bytes` (JWTHelper.publicKeys, built by
  vkuth.ParseVkuthKeys) IS modelled: the code verifies under the key the table returns for the token's kid.

  Strings are byte lists (`strings.HasPrefix` is `List.isPrefixOf`). Times are milliseconds since the epoch as
  unbounded `Int` (time.Time comparisons do not overflow; negative = before 1970);
  golang-jwt's NumericDate keeps whole seconds (`jwt.TimePrecision = time.Second`), modelled by `truncSec`.
  Go maps (`Bits`, `bitViewPrefix`, …) are lists used only through membership / `any`, so iteration order and
  duplicates are irrelevant. `Weight` (float64) is modelled in quarters (`weightQ = 4·Weight`, exact domain).

  Core Lean only: linked into drv_c30.
-/
import SH.Gen.C30

namespace SH.Access

open SH.Gen

abbrev Str := List UInt8

/-- bytes of a string literal -/
def lit (s : String) : Str := s.toUTF8.data.toList

/-! ## token verification -/

/-- a JOSE header value as far as the code looks at it: `t.Header[k]` absent, present with a non-string JSON
    value, or a string -/
inductive HV where
  | absent
  | other
  | str (s : Str)
deriving DecidableEq, Repr

/-- Ed25519 public key bytes -/
abbrev Key := Str

structure Token where
  alg : HV
  kind : HV
  kid : HV
  /-- the public keys (bytes) under which the signature segment is a valid Ed25519 signature of `header.claims` -/
  sigValid : List Key
  iss : Str            -- "" when absent
  user : Str           -- "" when absent
  exp : Option Int     -- ms since the epoch; unbounded (negative = before 1970)
  iat : Option Int
  nbf : Option Int
  service : Bool
  bits : List Str
deriving DecidableEq, Repr

structure Cfg where
  app : Str
  keys : List (Str × Key)  -- JWTHelper.publicKeys: key id ↦ public key bytes (a Go map: at most one entry per id)
  prot : List Str        -- protected metric prefixes
  localMode : Bool
  insecure : Bool
deriving DecidableEq, Repr

inductive Input where
  | empty                -- accessToken == ""
  | malformed            -- not three segments / base64 / JSON of header or claims does not decode
  | tok (t : Token)
deriving DecidableEq, Repr

inductive Verdict where
  | accept
  | err (mask : Nat)     -- jwt.ValidationError.Errors
  | panic                -- nil dereference in Claims.Valid (no `exp`)
deriving DecidableEq, Repr

def window : Int := C30.timeWindowMs

/-- `GetSigningMethod(alg) != nil` -/
def algKnown (s : Str) : Bool := C30.knownAlgs.contains s

/-- `WithValidMethods([]string{"EdDSA"})` -/
def algAllowed (s : Str) : Bool := s == C30.algEdDSA

/-- ParseUnverified's method lookup, then the ValidMethods test. `none` = passed. -/
def algCheck : HV → Option Nat
  | .str s => if algKnown s then (if algAllowed s then none else some C30.errSignatureInvalid) else some C30.errUnverifiable
  | _ => some C30.errUnverifiable

/-- Keyfunc, first half: `kind` header present and equal to "token" -/
def kindOk : HV → Bool
  | .str s => s == C30.kindToken
  | _ => false

/-- `m[id]` -/
def tableGet (m : List (Str × Key)) (id : Str) : Option Key :=
  match m with
  | [] => none
  | e :: r => if e.1 = id then some e.2 else tableGet r id

/-- `m[id] = k` -/
def tableSet (m : List (Str × Key)) (id : Str) (k : Key) : List (Str × Key) :=
  (id, k) :: m.filter (fun e => e.1 != id)

/-- vkuth.ParseVkuthKeys after base64 decoding: every listed key is stored under its fingerprint `fp k`
    (`vkuthFingerprint`, hex of the first 8 bytes of sha256 — a parameter). Each entry owns its key bytes. -/
def parseKeys (fp : Key → Str) (ks : List Key) : List (Str × Key) :=
  ks.foldl (fun m k => tableSet m (fp k) k) []

/-- Keyfunc, second half: `kid` is a string naming a configured key; the result is THAT key's bytes -/
def kidKey (cfg : Cfg) : HV → Option Key
  | .str k => tableGet cfg.keys k
  | _ => none

/-- NumericDate keeps whole seconds: time.Truncate rounds DOWN (also before 1970); `/` on Int is floor division here -/
def truncSec (ms : Int) : Int := ms / 1000 * 1000

/-- `VerifyExpiresAt(now - 5s, true)` for a present `exp`: `now - 5s < exp`, a comparison of time.Time values, i.e. on
    unbounded integers (no Duration arithmetic is involved in the decision) -/
def expOk (now exp : Int) : Bool := decide (now < truncSec exp + window)

/-- `VerifyIssuedAt(now + 5s, true)`: required, `now + 5s ≥ iat` -/
def iatOk (now : Int) : Option Int → Bool
  | none => false
  | some iat => decide (truncSec iat ≤ now + window)

/-- `VerifyNotBefore(now, false)`: optional, no tolerance -/
def nbfOk (now : Int) : Option Int → Bool
  | none => true
  | some nbf => decide (truncSec nbf ≤ now)

def issOk (t : Token) : Bool := t.iss == C30.issuer
def userOk (t : Token) : Bool := !t.user.isEmpty

/-- error bits accumulated by `Claims.Valid` (all five tests always run) -/
def claimsMask (now exp : Int) (t : Token) : Nat :=
  (if expOk now exp then 0 else C30.errExpired) +
  (if iatOk now t.iat then 0 else C30.errIssuedAt) +
  (if nbfOk now t.nbf then 0 else C30.errNotValidYet) +
  (if issOk t && userOk t then 0 else C30.errClaimsInvalid)

def claimsVerdict (now : Int) (t : Token) : Verdict :=
  match t.exp with
  | none => .panic       -- VerifyExpiresAt(…, required) is false and the message dereferences c.ExpiresAt
  | some exp => if claimsMask now exp t = 0 then .accept else .err (claimsMask now exp t)

/-- `token.Method.Verify(signingString, signature, key)` with the key returned by the Keyfunc -/
def sigVerdict (now : Int) (t : Token) (k : Key) : Verdict :=
  if t.sigValid.contains k then claimsVerdict now t else .err C30.errSignatureInvalid

def keyVerdict (cfg : Cfg) (now : Int) (t : Token) : Verdict :=
  if kindOk t.kind then
    match kidKey cfg t.kid with
    | some k => sigVerdict now t k
    | none => .err C30.errUnverifiable
  else .err C30.errUnverifiable

/-- jwt.ParseWithClaims on a token whose three segments decoded -/
def verify (cfg : Cfg) (now : Int) (t : Token) : Verdict :=
  match algCheck t.alg with
  | some m => .err m
  | none => keyVerdict cfg now t

/-! ## bits → accessInfo -/

structure AI where
  user : Str
  service : Bool
  prot : List Str
  admin : Bool
  developer : Bool
  viewDefault : Bool
  editDefault : Bool
  viewPrefix : List Str
  editPrefix : List Str
  viewMetric : List Str
  editMetric : List Str
deriving DecidableEq, Repr

def colon : UInt8 := 58
def atSign : UInt8 := 64

def appPrefix (app : Str) : Str := app ++ [colon]

/-- vkuth.stripFullBit -/
def stripFullBit (app b : Str) : Str :=
  if (appPrefix app).isPrefixOf b then b.drop (appPrefix app).length else []

/-- the `Bits` set of AccessData: stripped, empty ones dropped -/
def appBits (app : Str) (bits : List Str) : List Str :=
  (bits.map (stripFullBit app)).filter (fun b => !b.isEmpty)

/-- `strings.Replace(bit, "@", ":", 1)` -/
def extractNamespace : Str → Str
  | [] => []
  | c :: r => if c = atSign then colon :: r else c :: extractNamespace r

inductive Grant where
  | admin | developer | viewDefault | editDefault
  | viewPrefix (p : Str) | editPrefix (p : Str) | viewMetric (m : Str) | editMetric (m : Str)
  | nothing
deriving DecidableEq, Repr

def pViewPrefix : Str := lit "view_prefix."
def pEditPrefix : Str := lit "edit_prefix."
def pViewMetric : Str := lit "view_metric."
def pEditMetric : Str := lit "edit_metric."
def pViewNamespace : Str := lit "view_namespace."
def pEditNamespace : Str := lit "edit_namespace."

/-- the `switch` of parseAccessToken for one (stripped) bit -/
def classify (b : Str) : Grant :=
  if b = lit "admin" then .admin
  else if b = lit "developer" then .developer
  else if b = lit "view_default" then .viewDefault
  else if b = lit "edit_default" then .editDefault
  else if pViewPrefix.isPrefixOf b then .viewPrefix (extractNamespace (b.drop pViewPrefix.length))
  else if pEditPrefix.isPrefixOf b then .editPrefix (extractNamespace (b.drop pEditPrefix.length))
  else if pViewMetric.isPrefixOf b then .viewMetric (extractNamespace (b.drop pViewMetric.length))
  else if pEditMetric.isPrefixOf b then .editMetric (extractNamespace (b.drop pEditMetric.length))
  else if pViewNamespace.isPrefixOf b then .viewPrefix (b.drop pViewNamespace.length ++ [colon])
  else if pEditNamespace.isPrefixOf b then .editPrefix (b.drop pEditNamespace.length ++ [colon])
  else .nothing

def applyGrant (ai : AI) : Grant → AI
  | .admin => { ai with admin := true }
  | .developer => { ai with developer := true }
  | .viewDefault => { ai with viewDefault := true }
  | .editDefault => { ai with editDefault := true }
  | .viewPrefix p => { ai with viewPrefix := p :: ai.viewPrefix }
  | .editPrefix p => { ai with editPrefix := p :: ai.editPrefix }
  | .viewMetric m => { ai with viewMetric := m :: ai.viewMetric }
  | .editMetric m => { ai with editMetric := m :: ai.editMetric }
  | .nothing => ai

def emptyAI (user : Str) (service : Bool) (prot : List Str) : AI :=
  { user := user, service := service, prot := prot, admin := false, developer := false, viewDefault := false,
    editDefault := false, viewPrefix := [], editPrefix := [], viewMetric := [], editMetric := [] }

/-- `for b := range bits { switch … }` -/
def applyBits (ai : AI) (bs : List Str) : AI := bs.foldl (fun a b => applyGrant a (classify b)) ai

/-- the accessInfo built from an accepted token -/
def grants (cfg : Cfg) (t : Token) : AI :=
  applyBits (emptyAI t.user t.service cfg.prot) (appBits cfg.app t.bits)

/-- the accessInfo of local / insecure mode -/
def insecureAI (cfg : Cfg) : AI :=
  { emptyAI (lit "@insecure_mode") false cfg.prot with
    viewDefault := true, editDefault := true, admin := cfg.localMode, developer := cfg.localMode }

inductive Res where
  | ok (ai : AI)
  | err (mask : Nat)      -- 0: an error that is not a jwt.ValidationError (empty token)
  | panic
deriving DecidableEq, Repr

def ofVerdict (cfg : Cfg) (t : Token) : Verdict → Res
  | .accept => .ok (grants cfg t)
  | .err m => .err m
  | .panic => .panic

/-- api.parseAccessToken -/
def parseAccessToken (cfg : Cfg) (now : Int) (inp : Input) : Res :=
  if cfg.localMode || cfg.insecure then .ok (insecureAI cfg)
  else match inp with
    | .empty => .err 0
    | .malformed => .err C30.errMalformed
    | .tok t => ofVerdict cfg t (verify cfg now t)

/-! ## policy -/

/-- format.RemoteConfigMetric -/
def remoteConfig (name : Str) : Bool := C30.remoteConfig.contains name

/-- accessInfo.protectedMetric -/
def protectedMetric (ai : AI) (name : Str) : Bool := ai.prot.any (fun p => p.isPrefixOf name)

/-- hasPrefixAccess -/
def hasPrefixAccess (m : List Str) (name : Str) : Bool := m.any (fun p => p.isPrefixOf name)

/-- the three ways a name can be granted, view side -/
def viewRight (ai : AI) (name : Str) : Bool :=
  ai.viewMetric.contains name || hasPrefixAccess ai.viewPrefix name || (ai.viewDefault && !protectedMetric ai name)

/-- accessInfo.CanViewMetricName -/
def canViewName (ai : AI) (name : Str) : Bool :=
  if remoteConfig name && !ai.admin then false else viewRight ai name

structure Meta where
  name : Str
  weightQ : Int           -- 4 · Weight
  preKeyFrom : Nat
  preKeyOnly : Bool
  skipMaxHost : Bool
  skipMinHost : Bool
  skipSumSquare : Bool
  strategy : Str
  shardNum : Nat
  fixedKey : Nat
  fixedKey2 : Nat
  fixedKey2Ts : Nat
  rawTags : List Bool     -- per tag: RawKind != ""
deriving DecidableEq, Repr

/-- the last line of canChangeMetricByName: the same kind of right on both names -/
def changeRight (ai : AI) (o n : Str) : Bool :=
  (ai.editMetric.contains o && ai.editMetric.contains n) ||
  (hasPrefixAccess ai.editPrefix o && hasPrefixAccess ai.editPrefix n) ||
  (ai.editDefault && !protectedMetric ai o && !protectedMetric ai n)

/-- accessInfo.canChangeMetricByName (`create` is not looked at by the code) -/
def canChange (ai : AI) (_create : Bool) (o n : Str) : Bool :=
  if ai.admin then true
  else if remoteConfig o || remoteConfig n then false
  else changeRight ai o n

def weightFrozen (o n : Meta) : Bool := o.weightQ == n.weightQ || (o.weightQ == 0 && n.weightQ == 4)

def skipsSame (o n : Meta) : Bool :=
  o.skipMaxHost == n.skipMaxHost && o.skipMinHost == n.skipMinHost && o.skipSumSquare == n.skipSumSquare

def noneRaw : List Bool → Bool
  | [] => true
  | a :: as => !a && noneRaw as

/-- the loop over `max(len(old.Tags), len(new.Tags))`: a missing tag counts as not raw -/
def rawSame : List Bool → List Bool → Bool
  | [], bs => noneRaw bs
  | a :: as, [] => !a && noneRaw as
  | a :: as, b :: bs => a == b && rawSame as bs

inductive EditRes where
  | ok | forbidden | weight | presort | presortOnly | skips | strategy | shard | raw
deriving DecidableEq, Repr

/-- the field tests of CanEditMetric, in the code's order -/
def fieldCheck (o n : Meta) : EditRes :=
  if !weightFrozen o n then .weight
  else if o.preKeyFrom != n.preKeyFrom then .presort
  else if o.preKeyOnly != n.preKeyOnly then .presortOnly
  else if !skipsSame o n then .skips
  else if o.strategy != n.strategy then .strategy
  else if o.shardNum != n.shardNum then .shard
  else if o.fixedKey != n.fixedKey then .shard
  else if o.fixedKey2 != n.fixedKey2 then .shard
  else if o.fixedKey2Ts != n.fixedKey2Ts then .shard
  else if !rawSame o.rawTags n.rawTags then .raw
  else .ok

/-- accessInfo.CanEditMetric -/
def canEdit (ai : AI) (create : Bool) (o n : Meta) : EditRes :=
  if !canChange ai create o.name n.name then .forbidden
  else if ai.admin then .ok
  else fieldCheck o n

end SH.Access
